(* C16 -- One write transaction may be used from many threads.
   Statements only; every proof is `exact <lemma>` (Conc/SharedP.v).
   Model Conc/Shared.v: threads run calls on DIFFERENT tables of one write transaction (open, insert, remove,
   close) while other threads call ephemeral_savepoint() and drop Savepoints; a log is any interleaving of their
   sections (the H4 pause points of open_table's set_dirty and of ephemeral_savepoint / Savepoint::drop); the
   `tables` mutex is modelled explicitly, `srun log s = Some s'` means the log is executable.
   Partial: every mutex section is an atomic step, SC memory (the Relaxed tracking flag included); a table
   operation is ONE step (no pause point inside: allocator shards, freed-page lists, striped write buffer are
   outside the model); commit/abort of the shared transaction are covered by C03's model. *)
From Coq Require Import List NArith.
From RV Require Import Conc.Shared Conc.SharedP.
Import ListNotations.
Open Scope N_scope.

(* every table ends with exactly its own operations applied in order, whatever else was interleaved *)
Theorem c16_per_table_independent : forall pre log s tb,
  srun log (sinit pre) = Some s -> table_map s tb = spec_table tb log.
Proof. exact per_table_independent. Qed.

(* the same when the tables exist already (what the harness replays): committed contents, then the own stream *)
Theorem c16_per_table_independent_from : forall pre tabs log s tb,
  srun log (sinit_tables pre tabs) = Some s ->
  table_map s tb = spec_table_from (table_map (sinit_tables pre tabs) tb) tb log.
Proof. exact per_table_independent_from. Qed.

Theorem c16_savepoint_tracking_consistent_from : forall pre tabs log s,
  srun log (sinit_tables pre tabs) = Some s -> s_tracking s = false -> s_valid s = [] /\ s_dirty s = true.
Proof. exact savepoint_tracking_consistent_from. Qed.

(* no page in two tables, no page twice in one *)
Theorem c16_no_shared_page : forall pre log s,
  srun log (sinit pre) = Some s ->
  (forall tb, NoDup (table_pages s tb)) /\
  (forall tb tb' p, tb <> tb' -> In p (table_pages s tb) -> ~ In p (table_pages s tb')).
Proof. exact no_shared_page. Qed.

(* allocation tracking is never off while a savepoint is valid, and is switched off only in a dirty transaction *)
Theorem c16_savepoint_tracking_consistent : forall pre log s,
  srun log (sinit pre) = Some s -> s_tracking s = false -> s_valid s = [] /\ s_dirty s = true.
Proof. exact savepoint_tracking_consistent. Qed.

(* between its dirty check and its registration, ephemeral_savepoint() holds the tables mutex and the transaction
   is clean: no first table-open can slip in *)
Theorem c16_savepoint_registration_serialized : forall pre log s t h n,
  srun log (sinit pre) = Some s -> nget t (s_at s) = Some (SSavepoint h, Some n) -> in_esp_critical n = true ->
  s_lock s = Some t /\ s_dirty s = false.
Proof. exact savepoint_registration_serialized. Qed.

(* ---------------------------------------------------------------- non-vacuity *)
(* thread 0 opens table 7 first (no savepoint valid): tracking goes off; thread 1's savepoint is then refused;
   thread 0 and thread 2 work on tables 7 and 8 interleaved *)
Example c16_nonvacuous_open_first :
  exists s, srun [(0, LEnter (SOpen 7)); (1, LEnter (SSavepoint 1)); (0, LSec NSetDirty); (0, LSec NSetDirtyStored);
                  (0, LSec NAnySavepoint); (1, LSec NEsp); (1, LSec NEspLocked);
                  (2, LEnter (SOpen 8)); (2, LSec NSetDirty); (2, LSec NSetDirtyStored); (2, LSec NAnySavepoint);
                  (0, LEnter (SPut 7 5 50)); (2, LEnter (SPut 8 5 51)); (0, LEnter (SPut 7 3 30)); (2, LEnter (SDel 8 5))]%nat
                 (sinit []) = Some s /\
            s_tracking s = false /\ s_valid s = [] /\ table_map s 7 = [(3, 30); (5, 50)] /\ table_map s 8 = [] /\
            table_pages s 7 = [3; 1] /\ table_pages s 8 = [2] /\
            In (1%nat, SSavepoint 1, SErrDirty) (s_results s).
Proof. eexists. vm_compute. repeat split. do 5 right. left. reflexivity. Qed.

(* thread 1's savepoint gets the mutex first: while it is between check and registration thread 0's open_table
   cannot start (no successor state); afterwards the open keeps tracking ON because a savepoint is valid *)
Example c16_nonvacuous_savepoint_first :
  (exists s1, srun [(1, LEnter (SSavepoint 1)); (1, LSec NEsp); (1, LSec NEspLocked); (1, LSec NRegisterRead)]%nat (sinit []) = Some s1 /\
              s_lock s1 = Some 1%nat /\ sstep 0 (LEnter (SOpen 7)) s1 = None) /\
  (exists s, srun [(1, LEnter (SSavepoint 1)); (1, LSec NEsp); (1, LSec NEspLocked); (1, LSec NRegisterRead);
                   (1, LSec NAllocSavepoint); (0, LEnter (SOpen 7)); (0, LSec NSetDirty); (0, LSec NSetDirtyStored);
                   (0, LSec NAnySavepoint); (1, LSec NEspUnlocked)]%nat (sinit []) = Some s /\
             s_tracking s = true /\ s_valid s = [101] /\ s_dirty s = true).
Proof. split; eexists; vm_compute; repeat split. Qed.
