(* C16 -- One write transaction may be used from many threads.
   Statements only; every proof is `exact <lemma>` (Conc/SharedP.v).
   Model Conc/Shared.v: threads run calls on DIFFERENT tables of one write transaction (open, insert, remove,
   close) while other threads call ephemeral_savepoint() and drop Savepoints; a log is any interleaving of their
   sections (the H4 pause points of open_table's set_dirty and of ephemeral_savepoint / Savepoint::drop); the
   `tables` mutex is modelled explicitly, `srun log s = Some s'` means the log is executable.
   Partial: every mutex section is an atomic step, SC memory (the Relaxed tracking flag included); a table
   operation is ONE step (no pause point inside: allocator shards, freed-page lists, striped write buffer are
   outside the model); commit/abort of the shared transaction are covered by C03's model. *)
From Coq Require Import List NArith Relations Permutation.
From RV Require Import Conc.Shared Conc.SharedP Conc.Sched Conc.CommitGap Conc.CommitGapP.
Import ListNotations.
Open Scope N_scope.

(* every table ends with exactly its own operations applied in order, whatever else was interleaved *)
Theorem c16_per_table_independent : forall pre log s tb,
  srun log (sinit pre) = Some s -> table_map s tb = spec_table tb log.
Proof. exact per_table_independent. Qed.

(* the same when the tables exist already (what the harness replays): committed contents, then the own stream *)
Theorem c16_per_table_independent_from : forall pre tabs log s tb,
  srun log (sinit_tables pre tabs) = Some s ->
  table_map s tb = spec_table_from (table_map (sinit_tables pre tabs) tb) tb log.
Proof. exact per_table_independent_from. Qed.

Theorem c16_savepoint_tracking_consistent_from : forall pre tabs log s,
  srun log (sinit_tables pre tabs) = Some s -> s_tracking s = false -> s_valid s = [] /\ s_dirty s = true.
Proof. exact savepoint_tracking_consistent_from. Qed.

(* no page in two tables, no page twice in one *)
Theorem c16_no_shared_page : forall pre log s,
  srun log (sinit pre) = Some s ->
  (forall tb, NoDup (table_pages s tb)) /\
  (forall tb tb' p, tb <> tb' -> In p (table_pages s tb) -> ~ In p (table_pages s tb')).
Proof. exact no_shared_page. Qed.

(* allocation tracking is never off while a savepoint is valid, and is switched off only in a dirty transaction *)
Theorem c16_savepoint_tracking_consistent : forall pre log s,
  srun log (sinit pre) = Some s -> s_tracking s = false -> s_valid s = [] /\ s_dirty s = true.
Proof. exact savepoint_tracking_consistent. Qed.

(* between its dirty check and its registration, ephemeral_savepoint() holds the tables mutex and the transaction
   is clean: no first table-open can slip in *)
Theorem c16_savepoint_registration_serialized : forall pre log s t h n,
  srun log (sinit pre) = Some s -> nget t (s_at s) = Some (SSavepoint h, Some n) -> in_esp_critical n = true ->
  s_lock s = Some t /\ s_dirty s = false.
Proof. exact savepoint_registration_serialized. Qed.

(* ---------------------------------------------------------------- non-vacuity *)
(* thread 0 opens table 7 first (no savepoint valid): tracking goes off; thread 1's savepoint is then refused;
   thread 0 and thread 2 work on tables 7 and 8 interleaved *)
Example c16_nonvacuous_open_first :
  exists s, srun [(0, LEnter (SOpen 7)); (1, LEnter (SSavepoint 1)); (0, LSec NSetDirty); (0, LSec NSetDirtyStored);
                  (0, LSec NAnySavepoint); (1, LSec NEsp); (1, LSec NEspLocked);
                  (2, LEnter (SOpen 8)); (2, LSec NSetDirty); (2, LSec NSetDirtyStored); (2, LSec NAnySavepoint);
                  (0, LEnter (SPut 7 5 50)); (2, LEnter (SPut 8 5 51)); (0, LEnter (SPut 7 3 30)); (2, LEnter (SDel 8 5))]%nat
                 (sinit []) = Some s /\
            s_tracking s = false /\ s_valid s = [] /\ table_map s 7 = [(3, 30); (5, 50)] /\ table_map s 8 = [] /\
            table_pages s 7 = [3; 1] /\ table_pages s 8 = [2] /\
            In (1%nat, SSavepoint 1, SErrDirty) (s_results s).
Proof. eexists. vm_compute. repeat split. do 5 right. left. reflexivity. Qed.

(* thread 1's savepoint gets the mutex first: while it is between check and registration thread 0's open_table
   cannot start (no successor state); afterwards the open keeps tracking ON because a savepoint is valid *)
Example c16_nonvacuous_savepoint_first :
  (exists s1, srun [(1, LEnter (SSavepoint 1)); (1, LSec NEsp); (1, LSec NEspLocked); (1, LSec NRegisterRead)]%nat (sinit []) = Some s1 /\
              s_lock s1 = Some 1%nat /\ sstep 0 (LEnter (SOpen 7)) s1 = None) /\
  (exists s, srun [(1, LEnter (SSavepoint 1)); (1, LSec NEsp); (1, LSec NEspLocked); (1, LSec NRegisterRead);
                   (1, LSec NAllocSavepoint); (0, LEnter (SOpen 7)); (0, LSec NSetDirty); (0, LSec NSetDirtyStored);
                   (0, LSec NAnySavepoint); (1, LSec NEspUnlocked)]%nat (sinit []) = Some s /\
             s_tracking s = true /\ s_valid s = [101] /\ s_dirty s = true).
Proof. split; eexists; vm_compute; repeat split. Qed.

(* ---------------------------------------------------------------- the extended table phase (Conc/Shared.v):
   table operations with their freed_pages sections (pages replaced through the per-table scratch list and MERGED under the
   freed_pages mutex; pages pushed under the mutex by get_mut / entry / extract_if / multimap remove / MultimapValue::drop /
   delete_table), non-dirtying holders of the tables / system_tables mutexes (list_tables, stats, a failing open_table,
   list_persistent_savepoints), delete_table, persistent_savepoint's system_tables section.  `sinit_full pre tabs comm`:
   `comm` = the committed pages of every table (and of the catalog). *)
Theorem c16_per_table_independent_full : forall pre tabs comm log s tb,
  srun log (sinit_full pre tabs comm) = Some s ->
  table_map s tb = spec_table_from (table_map (sinit_full pre tabs comm) tb) tb log.
Proof. exact per_table_independent_full. Qed.

Theorem c16_no_shared_page_full : forall pre tabs comm log s,
  srun log (sinit_full pre tabs comm) = Some s ->
  (forall tb, NoDup (table_pages s tb)) /\
  (forall tb tb' p, tb <> tb' -> In p (table_pages s tb) -> ~ In p (table_pages s tb')).
Proof. exact no_shared_page_full. Qed.

Theorem c16_savepoint_tracking_consistent_full : forall pre tabs comm log s,
  srun log (sinit_full pre tabs comm) = Some s -> s_tracking s = false -> s_valid s = [] /\ s_dirty s = true.
Proof. exact savepoint_tracking_consistent_full. Qed.

(* freed_pages_exact: for EVERY executable log, when every call has returned (the state the commit finds) the
   transaction-wide freed list is, as a multiset, exactly what the table operations of the log replaced (`repl_log`: a
   function of the log and of the tables' committed pages): nothing lost, nothing twice *)
Theorem c16_freed_pages_exact : forall pre tabs comm log s,
  srun log (sinit_full pre tabs comm) = Some s -> s_at s = [] ->
  Permutation (s_freed s) (repl_log (table_committed (sinit_full pre tabs comm)) log).
Proof. exact freed_pages_exact. Qed.

(* ... and at every moment: the list plus what operations in progress still hold (scratch lists, sections to run) *)
Theorem c16_freed_pages_accounted : forall pre tabs comm log s,
  srun log (sinit_full pre tabs comm) = Some s ->
  Permutation (s_freed s ++ pending s) (repl_log (table_committed (sinit_full pre tabs comm)) log).
Proof. exact freed_pages_accounted. Qed.

(* savepoint eligibility is a function of the transaction's dirtiness only: the step that runs a request's dirty check
   (under the tables mutex) refuses it iff a store of the dirty flag (open_table / delete_table, under the same mutex)
   precedes it in the log -- for every log, whoever else held or waited for the mutex *)
Theorem c16_savepoint_outcome_by_dirtiness : forall pre tabs comm log s t s',
  srun log (sinit_full pre tabs comm) = Some s -> sstep t (LSec NEspLocked) s = Some s' ->
  exists h, nget t (s_at s) = Some (SSavepoint h, Some NEspLocked) /\
    if dirtied log
    then nget t (s_at s') = None /\ s_results s' = (t, SSavepoint h, SErrDirty) :: s_results s
    else nget t (s_at s') = Some (SSavepoint h, Some NRegisterRead) /\ s_results s' = s_results s.
Proof. exact savepoint_outcome_by_dirtiness. Qed.

(* no call is ever refused as dirty in a log without a store of the dirty flag *)
Theorem c16_savepoint_refusal_needs_store : forall pre tabs comm log s t c,
  srun log (sinit_full pre tabs comm) = Some s -> In (t, c, SErrDirty) (s_results s) -> dirtied log = true.
Proof. exact savepoint_refusal_needs_store. Qed.

(* a step that needs a held mutex does not happen: the thread sleeps, the state is unchanged *)
Theorem c16_blocked_step_has_no_successor : forall t l s, sblocked t l s = true -> sstep t l s = None.
Proof. exact sblocked_sound. Qed.

(* ---------------------------------------------------------------- non-vacuity and the two seeded variants *)
Definition fx_tabs : list (N * list (N * N)) := [(10, [(1, 11)]); (20, [(2, 22)])].
Definition fx_comm : list (N * list N) := [(10, [101; 102; 103]); (20, [201; 202; 203])].
Definition fx_open : list (nat * slabel) :=
  [(0, LEnter (SOpen 10)); (0, LSec NSetDirty); (0, LSec NSetDirtyStored); (0, LSec NAnySavepoint);
   (1, LEnter (SOpen 20)); (1, LSec NSetDirty); (1, LSec NSetDirtyStored); (1, LSec NAnySavepoint);
   (0, LEnter (SOp 10 (EPut 1 99) [(false, 1%N); (false, 1%N)])); (0, LSec NFreedPre);
   (1, LEnter (SOp 20 (EPut 5 55) [(true, 2%N)]))]%nat.

(* thread 0 is inside get_mut's freed_pages section (root level) when thread 1's insert wants to merge its two replaced
   pages: the step is blocked; after thread 0 has left the section it happens; in the end the list holds all four pages *)
Example c16_freed_merge_nonvacuous :
  (exists s1, srun fx_open (sinit_full [] fx_tabs fx_comm) = Some s1 /\ s_flock s1 = Some 0%nat /\
              sblocked 1 (LSec NMerge) s1 = true /\ sstep 1 (LSec NMerge) s1 = None) /\
  (exists s, srun (fx_open ++ [(0, LSec NFreedLocked); (1, LSec NMerge); (0, LSec NFreedPre); (0, LSec NFreedLocked);
                               (0, LEnter (SClose 10)); (1, LEnter (SClose 20))]%nat) (sinit_full [] fx_tabs fx_comm) = Some s /\
             s_at s = [] /\ s_freed s = [101; 201; 202; 102] /\ table_map s 20 = [(2, 22); (5, 55)] /\ table_map s 10 = [(1, 99)]).
Proof. split; eexists; vm_compute; repeat split. Qed.

(* seeded change "the merge gives up when the mutex is busy" inside the model: the same schedule, but thread 1's merge
   runs while thread 0 holds the mutex (try_lock fails, the pages stay in the scratch list) and its table is closed: every
   call has returned, and pages 201, 202 are in no list -- the theorem's conclusion fails *)
Example c16_try_lock_merge_refuted :
  exists log s, srun log (sinit_cfg true false [] fx_tabs fx_comm) = Some s /\ s_at s = [] /\
    ~ Permutation (s_freed s) (repl_log (table_committed (sinit_cfg true false [] fx_tabs fx_comm)) log).
Proof.
  exists (fx_open ++ [(1, LSec NMerge); (1, LEnter (SClose 20)); (0, LSec NFreedLocked); (0, LSec NFreedPre); (0, LSec NFreedLocked);
                      (0, LEnter (SClose 10))]%nat).
  eexists. split; [vm_compute; reflexivity|]. split; [reflexivity|].
  intro P. assert (I : In 201 [101; 102]).
  { apply (Permutation_in 201 (Permutation_sym P)). vm_compute. auto. }
  simpl in I. destruct I as [I|[I|[]]]; discriminate I.
Qed.

(* savepoint requests on a clean transaction while list_tables() is inside the tables section: in the code as it is the
   request WAITS (blocked step) and then succeeds; with the seeded change "a busy tables mutex is taken for a dirty
   transaction" it is refused although no store of the dirty flag is in the log *)
Definition hold_log : list (nat * slabel) := [(0, LEnter (SHold 0)); (1, LEnter (SSavepoint 1))]%nat.
Example c16_savepoint_waits_for_clean_holder :
  (exists s1, srun hold_log (sinit_full [] [] []) = Some s1 /\ sblocked 1 (LSec NEsp) s1 = true /\ sstep 1 (LSec NEsp) s1 = None) /\
  (exists s, srun (hold_log ++ [(0, LSec NHold); (1, LSec NEsp); (1, LSec NEspLocked); (1, LSec NRegisterRead); (1, LSec NAllocSavepoint);
                                (1, LSec NEspUnlocked); (1, LSec NGetDataRoot); (1, LSec NGetVersion)]%nat) (sinit_full [] [] []) = Some s /\
             s_results s = [(1%nat, SSavepoint 1, SOk); (0%nat, SHold 0, SOk)] /\ s_valid s = [101] /\ s_dirty s = false).
Proof. split; eexists; vm_compute; repeat split. Qed.

Example c16_try_lock_savepoint_refuted :
  exists log s, srun log (sinit_cfg false true [] [] []) = Some s /\ dirtied log = false /\
    In (1%nat, SSavepoint 1, SErrDirty) (s_results s).
Proof. exists (hold_log ++ [(1, LSec NEsp)]%nat). eexists. split; [vm_compute; reflexivity|]. split; [reflexivity|]. left. reflexivity. Qed.

(* ================================================================================================================
   The COMMIT of the shared transaction against Savepoint::drop / read transactions on other threads
   (model Conc/CommitGap.v over the generic interleaving semantics Conc/Sched.v; proofs Conc/CommitGapP.v).
   One committer runs the lock-protected sections of durable_commit in code order (free horizon, main free step,
   DATA_ALLOCATED purge returning the savepoint horizon, publication, epilogue horizon CLAMPED to that savepoint
   horizon, epilogue free step, epilogue publication); any number of threads run Savepoint::drop = [invalidate]
   [release pin], begin_read = [register at the published id][re-check], ReadTransaction::drop.
   `gfinal cf sched progs s0` = the state after schedule `sched` (a list of thread indices, one grant = one section).
   `safe s0 s`: DATA_ALLOCATED names allocated pages only (between the main free step and the purge of the same commit,
   both private to the committer: only records the purge is going to remove may name a freed page); no page of a
   DATA_FREED record with key > r has been freed while a read pinned at r is live or a savepoint of transaction r is
   valid; every read transaction a reader thread holds is registered.
   `wf_init s0`: what the earlier commits establish (every pin has an owner, savepoint ids and their transaction ids
   grow together, a page is queued for freeing once and was allocated by an earlier transaction than the one that
   unlinked it, both tables name allocated pages); `wf_init_b` is its checker, evaluated on every initial state the
   harness takes from the implementation.
   Idealisations: each mutex section is one atomic step, SC; SYSTEM_FREED, the allocation of system pages by the commit
   and staged persistent-savepoint deletions are outside the model. *)

(* for EVERY schedule, every number of droppers / readers / records: the final state is safe *)
Theorem c16_epilogue_horizon_safe : forall s0 progs sched,
  wf_init s0 -> safe s0 (gfinal faithful sched progs s0).
Proof. exact epilogue_horizon_safe. Qed.

(* ... and so is every intermediate state (the state after any prefix of the schedule) *)
Theorem c16_epilogue_horizon_safe_prefix : forall s0 progs sched n,
  wf_init s0 -> safe s0 (gfinal faithful (firstn n sched) progs s0).
Proof. exact epilogue_horizon_safe_prefix. Qed.

(* the form used per run: the precondition as an executable check of the implementation's state *)
Theorem c16_epilogue_horizon_safe_checked : forall s0 progs sched,
  wf_init_b s0 = true -> safe s0 (gfinal faithful sched progs s0).
Proof. exact epilogue_horizon_safe_checked. Qed.

(* ---------------------------------------------------------------- the chain over commits
   `wf_start`: wf_init, but Savepoint::drop calls may be between their sections and reader threads may hold reads (every pin
   still has one owner).  `gnext e n`: the state the NEXT transaction's commit starts from -- the end state e with the next
   transaction's id and its own two records, pc = 0, the committer's locals and the observations cleared.  `next_ok e n`:
   what the next transaction's table phase guarantees (pages unlinked once, allocated and committed before; fresh pages
   were free). *)
Theorem c16_epilogue_horizon_safe_start : forall s0 progs sched,
  wf_start s0 -> safe s0 (gfinal faithful sched progs s0).
Proof. exact epilogue_horizon_safe_start. Qed.

(* from the invariant at the end of a commit (pc = 15: the committer has returned), whatever the schedule was *)
Theorem c16_commit_reestablishes_start : forall s0 e n,
  ginv s0 e -> g_pc e = 15 -> next_ok e n -> wf_start (gnext e n).
Proof. exact commit_reestablishes_start. Qed.

(* ... and wf_init itself when every thread of the run has finished (no drop between its sections, no read held) *)
Theorem c16_commit_reestablishes_wf_init : forall s0 e n,
  ginv s0 e -> g_pc e = 15 -> next_ok e n -> g_mid e = [] -> g_readers e = [] -> wf_init (gnext e n).
Proof. exact commit_reestablishes_wf_init. Qed.

(* any number of successive transactions, each committed under ANY schedule against any droppers / readers: every commit
   starts from a state satisfying wf_start and every intermediate state of every commit is safe *)
Theorem c16_commit_chain_safe : forall txs s0, wf_start s0 -> chain_ok s0 txs ->
  Forall2 (fun (start : cst) (tx : txn) =>
             wf_start start /\
             forall m, safe start (gfinal faithful (firstn m (snd (fst tx))) (fst (fst tx)) start))
          (chain_starts s0 txs) txs.
Proof. exact commit_chain_safe. Qed.

(* lock_order_acyclic: over the lock-acquisition chains of the modelled sections (CommitGap.lock_chains: 29 chains over
   9 mutexes, transcribed from the code: tables -> system_tables -> savepoint_state -> freed_pages -> allocated_pages ->
   tracker.state -> unpersisted -> mem.state) the relation "holds a while acquiring b" has no cycle *)
Theorem c16_lock_order_acyclic : forall l, ~ clos_trans lock holds_while_acquiring l l.
Proof. exact lock_order_acyclic. Qed.

(* ---------------------------------------------------------------- non-vacuity and the two seeded variants *)
(* transaction 4 commits; savepoint 1 pins transaction 0; transaction 2 allocated page 10 (DATA_ALLOCATED[2]) and
   transaction 3 unlinked it (DATA_FREED[3]); the committer's own records: DATA_FREED[4] = {11}, DATA_ALLOCATED[4] = {12};
   `held` = pins of read transactions that stay live *)
Definition cg_ex (held : list N) : cst :=
  ginit 4 3 ([0] ++ held) [(1, 0)] [] held [(3, [10]); (4, [11])] [(2, [10]); (4, [12])] [10; 11; 12; 13].
Definition cg_progs : list (list gcall) := [[GCommit]; [GDrop 1 0]; [GBeginRead; GEndRead]].

(* the hypotheses are satisfiable; the savepoint dropped between the purge and the epilogue while a newer read (pinned
   at 3) is live: the clamp holds the epilogue's horizon at 1, nothing is freed, page 10 stays allocated; without the
   drop in the way and without readers the epilogue frees both records *)
Example c16_epilogue_horizon_nonvacuous :
  wf_init_b (cg_ex [3]) = true /\
  (let s := gfinal faithful [0;0;0;0; 1;1;1; 2;2; 0;0;0;0;0;0;0;0;0;0;0;0]%nat cg_progs (cg_ex [3]) in
   g_pc s = 15 /\ g_sph s = Some 0 /\ g_eh s = 1 /\ g_gone_epi s = [] /\ g_alloc s = [(2, [10]); (4, [12])] /\
   g_allocated s = [10; 11; 12; 13] /\ g_valid s = [] /\ g_live s = [3; 3] /\ g_readers s = [(2%nat, 3)]) /\
  (let s := gfinal faithful [1;1;1; 0;0;0;0;0;0;0;0;0;0;0;0;0;0;0;0;0;0]%nat cg_progs (cg_ex []) in
   g_pc s = 15 /\ g_sph s = None /\ g_alloc s = [] /\ g_purged s = [2; 4] /\ g_gone_main s = [(3, [10])] /\
   g_gone_epi s = [(4, [11])] /\ g_allocated s = [12; 13] /\ g_last s = 5 /\ g_live s = [4]).
Proof. vm_compute. repeat split. Qed.

(* seeded bug 1 inside the model: the two sections of Savepoint::drop swapped (pin released first).  The dropper is
   stopped between them; the commit's main free step no longer sees the pin and frees page 10, the purge still sees the
   savepoint and keeps DATA_ALLOCATED[2] = {10}.  The code as it is stays safe under the same schedule. *)
Example c16_drop_order_matters_refuted :
  exists sched,
    wf_init (cg_ex []) /\
    ~ safe (cg_ex []) (gfinal {| swap_drop := true; weak_clamp := false |} sched cg_progs (cg_ex [])) /\
    alloc_ok_b (gfinal faithful sched cg_progs (cg_ex [])) = true.
Proof.
  exists [1; 1; 0; 0; 0; 0]%nat. split; [apply wf_init_b_sound; vm_compute; reflexivity | split; [|vm_compute; reflexivity]].
  intros [H _].
  assert (E : In 10 (g_allocated (gfinal {| swap_drop := true; weak_clamp := false |} [1; 1; 0; 0; 0; 0]%nat cg_progs (cg_ex [])))).
  { apply (H ltac:(vm_compute; discriminate) 2 [10] 10); vm_compute; auto. }
  clear H. vm_compute in E. repeat (destruct E as [E|E]; [discriminate E|]). exact E.
Qed.

(* seeded bug 2 inside the model: the clamp applied only when no read is live.  A read pinned at 3 is live, the savepoint
   is dropped between the purge (horizon 0, DATA_ALLOCATED[2] kept) and the epilogue: the epilogue's horizon is 4, it frees
   DATA_FREED[3] = {10}.  The code as it is stays safe under the same schedule. *)
Example c16_clamp_needed_refuted :
  exists sched,
    wf_init (cg_ex [3]) /\
    ~ safe (cg_ex [3]) (gfinal {| swap_drop := false; weak_clamp := true |} sched cg_progs (cg_ex [3])) /\
    alloc_ok_b (gfinal faithful sched cg_progs (cg_ex [3])) = true.
Proof.
  exists [0; 0; 0; 0; 1; 1; 1; 0; 0; 0; 0; 0; 0; 0]%nat.
  split; [apply wf_init_b_sound; vm_compute; reflexivity | split; [|vm_compute; reflexivity]].
  intros [H _].
  assert (E : In 10 (g_allocated (gfinal {| swap_drop := false; weak_clamp := true |}
                                   [0; 0; 0; 0; 1; 1; 1; 0; 0; 0; 0; 0; 0; 0]%nat cg_progs (cg_ex [3])))).
  { apply (H ltac:(vm_compute; discriminate) 2 [10] 10); vm_compute; auto. }
  clear H. vm_compute in E. repeat (destruct E as [E|E]; [discriminate E|]). exact E.
Qed.


(* ------------------------------------------------------------------------------------------------
   Tie to the code (Gen/Fns.v is regenerated from transactions.rs on every run by tools/gen_fns.py; see
   design.d/GEN.md): the two horizon sections of the committer compute the expressions translated from
   durable_commit and process_data_freed_pages_after_commit (the latter under the faithful clamp). *)
From RV Require Import Gen.FnsLib Gen.Fns Gen.FnsHorizonP Gen.FnsCommitGapP.

Theorem c16_code_durable_commit_free_until_is_model : forall cf s,
  commit_step cf GOldestLive1 s = (set_h1 (durable_commit_free_until (oldest_live s) (g_txid s)) s, []).
Proof. exact commitgap_horizon1_is_model. Qed.

Theorem c16_code_epilogue_free_until_is_model : forall cf s, weak_clamp cf = false ->
  match g_sph s with Some h => (h < 18446744073709551615)%N | None => True end ->
  commit_step cf GOldestLive2 s = (set_eh (epilogue_free_until (oldest_live s) (g_txid s) (sph_u64 (g_sph s))) s, []).
Proof. exact commitgap_horizon2_is_model. Qed.
