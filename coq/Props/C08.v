(* C08 -- Storage errors never corrupt or silently lose data.
   Statements only; every proof is `exact <lemma>` (lemmas in Storage/LatchP.v).

   Proved here, for every sequence of calls, every backend operation type and every storage
   semantics in which a failed operation has no effect:
     - the I/O latch (CheckedBackend): a failing len/read/write/set_len/sync_data sets it; once set
       it stays set, every later i/o call is refused (PreviousIo / DatabaseClosed) without reaching
       the backend, only close() gets through; a failing best-effort write does not set it;
     - close() reaches the backend exactly once (explicit close, or the Drop impl), last;
     - the storage left behind by a run in which a latched call failed is the storage after the
       calls issued before it ("a failure is a crash point");
     - session level: after a commit returned Err or a backend call failed, begin_write is refused
       until reopen and no shutdown clears recovery_required, so the next open repairs.
   NOT proved, validated per run by harness c08 (fault index enumeration): that every API call of the
   33 kLoC crate during which a required backend call failed returns Err and does not panic
   (`no_false_success`), and -- composing with C01 -- that reopening the surviving bytes (and sampled
   crash images of them) yields one commit point >= the last acknowledged durable commit.          *)
From Coq Require Import List Bool NArith.
From RV Require Import Storage.Latch Storage.LatchP.
Import ListNotations.

Theorem c08_latch_sets : forall (op : Type) (s : lstate) (o : op),
  io_failed (l_state op (lrun op s [(WOp o, false)])) = true.
Proof. exact latch_sets. Qed.

Theorem c08_best_effort_does_not_latch : forall (op : Type) (s : lstate) (o : op) (bok : bool),
  l_state op (lrun op s [(WBestEffort o, bok)]) = s.
Proof. exact best_effort_does_not_latch. Qed.

Theorem c08_latch_permanent : forall (op : Type) (cs : list (wcall op * bool)) (s : lstate),
  io_failed s = true ->
  io_failed (l_state op (lrun op s cs)) = true /\
  (forall e, In e (l_trace op (lrun op s cs)) -> e = BClose) /\
  (forall i c bok, nth_error cs i = Some (c, bok) -> is_io_call op c = true ->
     exists r, nth_error (l_results op (lrun op s cs)) i = Some r /\ refused r = true).
Proof. exact latch_permanent. Qed.

Theorem c08_latch_permanent_after_failure :
  forall (op : Type) (cs1 : list (wcall op * bool)) (o : op) (cs2 : list (wcall op * bool)) (s : lstate),
  let s1 := l_state op (lrun op s (cs1 ++ [(WOp o, false)])) in
  io_failed s1 = true /\
  (forall e, In e (l_trace op (lrun op s1 cs2)) -> e = BClose) /\
  (forall i c bok, nth_error cs2 i = Some (c, bok) -> is_io_call op c = true ->
     exists r, nth_error (l_results op (lrun op s1 cs2)) i = Some r /\ refused r = true).
Proof. exact latch_permanent_after_failure. Qed.

Theorem c08_close_once_by_drop : forall (op : Type) (cs : list (wcall op * bool)) (b : bool) (s : lstate),
  closed s = false -> io_calls op cs ->
  l_trace op (lrun op s (cs ++ [(WDrop, b)])) = l_trace op (lrun op s cs) ++ [BClose] /\
  Forall (fun e => is_bclose op e = false) (l_trace op (lrun op s cs)).
Proof. exact close_once_by_drop. Qed.

Theorem c08_close_once_explicit :
  forall (op : Type) (cs1 : list (wcall op * bool)) (b1 : bool) (cs2 : list (wcall op * bool)) (b2 : bool) (s : lstate),
  closed s = false -> io_calls op cs1 -> io_calls op cs2 ->
  l_trace op (lrun op s (cs1 ++ (WClose, b1) :: cs2 ++ [(WDrop, b2)])) = l_trace op (lrun op s cs1) ++ [BClose] /\
  Forall (fun e => is_bclose op e = false) (l_trace op (lrun op s cs1)).
Proof. exact close_once_explicit. Qed.

Theorem c08_failed_storage_frozen :
  forall (op storage : Type) (bapply : storage -> op -> storage) (cs : list (wcall op * bool)) (s : lstate) (st : storage),
  io_failed s = true -> storage_after op storage bapply st (l_trace op (lrun op s cs)) = st.
Proof. exact failed_storage_frozen. Qed.

Theorem c08_failure_is_a_crash_point :
  forall (op storage : Type) (bapply : storage -> op -> storage)
         (cs1 : list (wcall op * bool)) (o : op) (cs2 : list (wcall op * bool)) (s : lstate) (st : storage),
  storage_after op storage bapply st (l_trace op (lrun op s (cs1 ++ (WOp o, false) :: cs2))) =
  storage_after op storage bapply st (l_trace op (lrun op s cs1)).
Proof. exact failure_is_a_crash_point. Qed.

Theorem c08_prefix_is_fault_free_stream : forall (op : Type) (cs : list (wcall op * bool)) (s : lstate),
  io_failed s = false -> io_calls op cs -> Forall (fun cb => snd cb = true) cs ->
  l_trace op (lrun op s cs) = flat_map (fun cb => ok_event op (fst cb)) cs /\
  io_failed (l_state op (lrun op s cs)) = false.
Proof. exact prefix_is_fault_free_stream. Qed.

Theorem c08_failed_commit_refuses_writes : forall s l,
  begin_write_allowed (drun (dstep s (DCommit false)) l) = false.
Proof. exact failed_commit_refuses_writes. Qed.

Theorem c08_io_failure_refuses_writes : forall s l,
  begin_write_allowed (drun (dstep s DIoFailure) l) = false.
Proof. exact io_failure_refuses_writes. Qed.

Theorem c08_failure_keeps_recovery_required : forall l1 e l2 s,
  d_recovery_on_disk s = true ->
  Forall (fun x => match x with DShutdown _ => False | _ => True end) l1 ->
  is_failure e = true ->
  d_recovery_on_disk (drun s (l1 ++ e :: l2)) = true.
Proof. exact failure_keeps_recovery_required. Qed.

(* ---- non-vacuity ---- *)

(* ops are numbers here: 0 len 1 read 2 write 3 set_len 4 sync; storage = list of applied ops.
   A successful write, a failing best-effort write (no latch), a read, a failing sync (latches), then a
   read, a close and the drop: only the close gets through after the failure, once. *)
Example c08_nonvacuous_latch :
  let cs := [(WOp 2%N, true); (WBestEffort 2%N, false); (WOp 1%N, true); (WOp 4%N, false);
             (WOp 1%N, true); (WBestEffort 2%N, true); (WClose, true); (WDrop, true)] in
  l_trace N (lrun N l_init cs) =
    [BOp 2%N true; BOp 2%N false; BOp 1%N true; BOp 4%N false; BClose] /\
  l_results N (lrun N l_init cs) = [ROk; RIo; ROk; RIo; RPreviousIo; RPreviousIo; ROk; RNothing] /\
  storage_after N (list N) (fun st o => st ++ [o]) [] (l_trace N (lrun N l_init cs)) = [2%N; 1%N] /\
  (* the model is faithful to the code: a second explicit close would reach the backend again *)
  l_trace N (lrun N l_init [(WClose, true); (WClose, true); (WDrop, true)]) = [BClose; BClose].
Proof. vm_compute. repeat split; reflexivity. Qed.

Example c08_nonvacuous_log :
  log_okb [LEnter 0 false false; LBackend 0 true; LEnter 2 false false; LBackend 2 false;
           LEnter 1 true false; LEnter 6 true false; LBackend 5 true; LEnter 7 true true] = true /\
  (* a call that reaches the backend although the latch is set is rejected *)
  log_okb [LEnter 2 false false; LBackend 2 false; LEnter 1 true false; LBackend 1 true] = false /\
  (* a failed set_len that does not latch is rejected *)
  log_okb [LEnter 4 false false; LBackend 3 false; LEnter 1 false false; LBackend 1 true] = false /\
  (* a failed best-effort write that latches is rejected *)
  log_okb [LEnter 3 false false; LBackend 2 false; LEnter 1 true false] = false.
Proof. vm_compute. repeat split; reflexivity. Qed.

Example c08_nonvacuous_session :
  d_recovery_on_disk (drun d_open [DCommit true; DShutdown true]) = false /\
  d_recovery_on_disk (drun d_open [DCommit true; DIoFailure; DCommit false; DShutdown true]) = true /\
  begin_write_allowed (drun d_open [DCommit true]) = true /\
  begin_write_allowed (drun d_open [DCommit false; DCommit true]) = false.
Proof. vm_compute. repeat split; reflexivity. Qed.

(* ================================================================== the cache layer under backend faults
   Model Storage/Cache.v of PagedCachedFile / the write buffer over CheckedBackend (this file's latch) and a byte-array
   backend whose every call may fail (oracle), see Props/C02.v for what is modelled and the usage protocol.
   `run_track` runs the model, the usage protocol and the plain byte array side by side; a call that returned an
   error counts as not made.  Tied to the code by harness bin `cachecorr faults` (props/cache_common.py). *)
From RV Require Import Base.Bytes Storage.Backend Storage.Cache Storage.CacheInv Storage.CacheP.

(* whatever fails (required or best-effort calls), whatever is evicted: in every reachable state the latest content
   of every byte (outside a live WritablePage and outside ranges whose write was cancelled/discarded) is in the
   write buffer or in the backend -- no committed, buffered page ever disappears *)
Theorem c08_cache_no_lost_page_under_faults : forall c f p s g I out,
  run_track c (init_state f) (g_init (blen f)) (image_of f) p = Some (s, g, I, out) ->
  forall i, ~ undefined_byte g i -> latest_ok s I i.
Proof. exact no_lost_page_under_faults. Qed.

(* one call in a reachable state, whatever fails: it does not panic; an Ok result is the plain array's answer; the
   latch is set exactly when a REQUIRED backend call failed, and then the call reports an error; failures of
   best-effort writebacks alone change neither the latch nor the result; once latched nothing reaches the backend *)
Theorem c08_cache_fault_call_sound : forall c f p s g I out x o g' s' t r,
  run_track c (init_state f) (g_init (blen f)) (image_of f) p = Some (s, g, I, out) ->
  proto_step c g x = Some g' -> step c s x o = (s', t, r) ->
  r <> Panic /\ (res_is_err r = false -> spec_res I x r) /\
  io_failed (latch s') = io_failed (latch s) || req_failed t /\ closed (latch s') = closed (latch s) /\
  (io_failed (latch s) = true -> t = []) /\
  (io_failed (latch s) = false -> req_failed t = false -> res_is_err r = false /\ io_failed (latch s') = false) /\
  (req_failed t = true -> res_is_err r = true /\ io_failed (latch s') = true).
Proof. exact fault_call_sound. Qed.

(* ---- non-vacuity: 4-byte pages, budget 7 bytes; a failing best-effort writeback, then a failing required eviction *)
Definition c08_cache_prog : list (Cache.op * oracle) :=
 [ (OWrite 0 4 true, o_none); (ODrop 0 [1;1;1;1], o_none); (OBarrier, o_none);
   (ORead 8 4 HClean, mkO [] [] [] [] [true; false]);   (* the read succeeds, the best-effort writeback of page 0 fails *)
   (ORead 0 4 HClean, o_none);                            (* page 0 is still served from the buffer *)
   (OCheckIo, o_none);                                    (* not latched *)
   (OWrite 4 4 true, mkO [] [] [] [] [false]);            (* over half: the REQUIRED eviction of page 0 fails: Err, latched *)
   (ORead 0 4 HNone, o_none);                             (* the page was put back into the buffer *)
   (ORead 12 4 HClean, o_none); (OCheckIo, o_none) ].     (* everything that needs the backend is refused *)
Example c08_cache_nonvacuous :
  let f : bytes := [0;1;2;3;4;5;6;7;8;9;10;11;12;13;14;15;16;17;18;19;20;21;22;23] in
  match run_track (mkC 4 7) (init_state f) (g_init 24) (image_of f) c08_cache_prog with
  | Some (s, g, _, out) =>
      out = [([], Data [0;0;0;0]); ([], Done); ([], Done);
             ([mkEv (BRead 8 4) true false; mkEv (BWrite 0 [1;1;1;1]) false true], Data [8;9;10;11]);
             ([], Data [1;1;1;1]); ([], Done);
             ([mkEv (BWrite 0 [1;1;1;1]) false false], Err RIo);
             ([], Data [1;1;1;1]); ([], Err RPreviousIo); ([], Err RPreviousIo)] /\
      wb s = [(0, Some [1;1;1;1])] /\ cpb s = true /\ io_failed (latch s) = true /\ file s = f
  | None => False
  end.
Proof. vm_compute. repeat split; reflexivity. Qed.

(* ================================================================== the commit protocol under backend faults
   Storage/FaultCommit.v: C01's executable protocol model (Storage/Protocol.v: eviction, growth, one-phase /
   two-phase / quick-repair durable commits with or without shrink, non-durable commits, clean close, reopen,
   and the recovery run) with every operation it emits issued through the latch model of this file
   (Latch.lrun) under an ARBITRARY fault oracle `fo : nat -> fate`: the i-th backend call of the step (write,
   set_len, sync_data, and the read / len calls interleaved by the oracle `rq_qs`) answers Ok or fails; a failing
   write has stored any prefix of its data (`FFail keep`).  `step_f s r fo = (s', ok)`; `commit_f` is step_f on a
   PCommit request, `close_f` on PClose (the shutdown sequence), `recovery_f` runs recovery's own writes.
   The protocol state after a failure is the CUT of the fault-free run at the failing operation.
   Tied to the code per run by harness c08 (F lines: the extracted step_f / recovery_f on the fault-free operation
   stream of the API call with the observed failure index must predict the result class and the sync window whose
   crash image the surviving bytes are).
   Premises of the composition theorems are C01's, visible in the statements: tear_resistant H,
   pages_above_header expect, Inv + Sem of the state (hold in every state of the fault-free protocol from a
   truthful summary: protocol_windows_ok / protocol_images_ok, and are kept by every step that reports Ok:
   c08_ok_step_keeps_invariants), step_okb / step_sem for the request (C06 / C10 / C14 / C20 oracle side
   conditions, validated per run by ./check C01). *)
From RV Require Import Gen.Consts Storage.Crash Storage.Header Storage.Window Storage.IdealH Storage.C01Example
  Storage.Protocol Storage.ProtocolP Storage.FaultCommit Storage.FaultCommitP Props.C01.

(* (a) no false success: a step (a commit, a close, ...) reports Ok only if every REQUIRED backend call it issued
   returned Ok; then the latch is untouched, the protocol state is the one of the fault-free step and the storage
   received exactly the fault-free operation stream.  Only best-effort writeback (req_be) may have failed: then
   the state is that of an eviction step of the pages as far as they reached the storage, again a protocol step *)
Theorem c08_no_false_success : forall (s : fstate) (r : freq) (fo : nat -> fate) (s' : fstate),
  io_failed (f_latch s) = false -> step_f s r fo = (s', true) ->
  (forall j c, nth_error (step_calls (f_st s) r) j = Some c -> fst c = false -> fate_ok (fo j) = true)
  /\ f_latch s' = f_latch s
  /\ (req_be r = false ->
        f_st s' = a_st (run_step (f_st s) (rq_step r))
        /\ trace_effects (step_trace s r fo) = a_ops (run_step (f_st s) (rq_step r))
        /\ forall D, apply_ops (trace_effects (step_trace s r fo)) (storage_of D (f_st s))
                     = apply_ops (a_ops (run_step (f_st s) (rq_step r))) (storage_of D (f_st s)))
  /\ (req_be r = true ->
        exists pages pages', rq_step r = PEvict pages
          /\ f_st s' = a_st (run_step (f_st s) (PEvict pages'))
          /\ (step_okb (f_st s) (PEvict pages) = true -> step_okb (f_st s) (PEvict pages') = true)).
Proof. exact no_false_success. Qed.

(* ... hence an acknowledged durable commit is durable: the image its last sync_data completed serves the new
   commit q, and so does every crash image of what the storage holds afterwards *)
Theorem c08_acked_commit_is_durable :
  forall (H : bytes -> bytes) (expect : bytes -> list (N * bytes)) (ps : N),
    tear_resistant H -> pages_above_header expect ->
    forall (s : fstate) (two : bool) (q : bytes) (rng : list range) (pgs : list (N * bytes))
           (shrink : option (N * bytes)) (qs : list nat) (fo : nat -> fate) (s' : fstate) (D : image),
      io_failed (f_latch s) = false -> Inv (f_st s) -> Sem H expect ps (f_st s) D ->
      step_okb (f_st s) (PCommit two q rng pgs shrink) = true ->
      step_sem H expect (f_st s) D (PCommit two q rng pgs shrink) ->
      commit_f s two q rng pgs shrink qs fo = (s', true) ->
      let D' := image_after D (a_ws (run_step (f_st s) (PCommit two q rng pgs shrink))) in
      recover H expect ps D' = Some q
      /\ forall img, CrashOf D' (p_win (f_st s')) img -> recover H expect ps img = Some q.
Proof. exact acked_commit_is_durable. Qed.

(* (b) a step that reports Err: the latch is set; the first failing required call is named; the storage the
   backend holds is the durable image at the start of the sync window `w` of the FAULT-FREE run in which that
   call lies plus a weakening (cut at the failing operation, torn prefix of a failing write) of w's operations:
   it, and every crash image of it, is a crash image (Crash.CrashOf) of the fault-free window *)
Theorem c08_failed_commit_is_a_crash_image : forall (s : fstate) (r : freq) (fo : nat -> fate) (s' : fstate),
  io_failed (f_latch s) = false -> step_f s r fo = (s', false) ->
  io_failed (f_latch s') = true
  /\ (exists k c, first_fail (step_calls (f_st s) r) fo O = Some k
                  /\ nth_error (step_calls (f_st s) r) k = Some c /\ fst c = false /\ fate_ok (fo k) = false)
  /\ exists pre w post,
       all_windows (run_step (f_st s) (rq_step r)) = pre ++ w :: post
       /\ p_d (f_st s') = w_sum w
       /\ sub_ops (p_win (f_st s')) (w_ops w)
       /\ forall D,
            apply_ops (trace_effects (step_trace s r fo)) (storage_of D (f_st s))
            = storage_of (image_after D pre) (f_st s')
            /\ CrashOf (image_after D pre) (w_ops w) (storage_of (image_after D pre) (f_st s'))
            /\ forall img, CrashOf (image_after D pre) (p_win (f_st s')) img
                           -> CrashOf (image_after D pre) (w_ops w) img.
Proof. exact failed_step_is_a_crash_image. Qed.

(* ... and afterwards every request is refused and nothing reaches the storage (instance of c08_latch_permanent) *)
Theorem c08_failed_commit_refuses_everything : forall (s : fstate) (r : freq) (fo : nat -> fate) (s' : fstate),
  io_failed (f_latch s) = false -> step_f s r fo = (s', false) ->
  forall r2 fo2, step_f s' r2 fo2 = (s', false) /\ step_trace s' r2 fo2 = [].
Proof. exact failed_step_refuses. Qed.

(* the storage of this model is Latch.v's storage (c08_failure_is_a_crash_point) when failing calls store nothing *)
Theorem c08_storage_is_latch_storage : forall (t : list (bev lop)) (D : image),
  torn_part t = [] -> apply_ops (trace_effects t) D = storage_after lop image lop_apply D t.
Proof. exact effects_storage_after. Qed.

(* crash images are monotone in what the storage received *)
Theorem c08_crash_image_of_weakening : forall D E W img, sub_ops E W -> CrashOf D E img -> CrashOf D W img.
Proof. exact crash_sub. Qed.

(* a step that reports Ok keeps C01's invariant and truthful summary: the fault-aware run stays inside the states
   of the fault-free protocol, whatever best-effort writes failed on the way *)
Theorem c08_ok_step_keeps_invariants :
  forall (H : bytes -> bytes) (expect : bytes -> list (N * bytes)) (ps : N),
    tear_resistant H -> pages_above_header expect ->
    forall (s : fstate) (r : freq) (fo : nat -> fate) (s' : fstate) (D : image),
      io_failed (f_latch s) = false -> Inv (f_st s) -> Sem H expect ps (f_st s) D ->
      step_okb (f_st s) (rq_step r) = true -> step_sem H expect (f_st s) D (rq_step r) ->
      step_f s r fo = (s', true) ->
      Inv (f_st s') /\ Sem H expect ps (f_st s') (image_after D (a_ws (run_step (f_st s) (rq_step r))))
      /\ io_failed (f_latch s') = false.
Proof. exact ok_step_keeps_invariants. Qed.

(* (c) composition with C01 -- obtained by applying C01's protocol_crash_safe to the crash image (b) provides:
   reopening what a failed step (commit, close, growth, eviction, open) leaves behind, or ANY crash image of it,
   serves the commit that was durable at the last completed sync_data or, completely, the commit in flight *)
Theorem c08_failed_commit_recovers :
  forall (H : bytes -> bytes) (expect : bytes -> list (N * bytes)) (ps : N),
    tear_resistant H -> pages_above_header expect ->
    forall (s : fstate) (r : freq) (fo : nat -> fate) (s' : fstate) (D : image),
      io_failed (f_latch s) = false -> Inv (f_st s) -> Sem H expect ps (f_st s) D ->
      step_okb (f_st s) (rq_step r) = true -> step_sem H expect (f_st s) D (rq_step r) ->
      step_f s r fo = (s', false) ->
      exists pre w post,
        all_windows (run_step (f_st s) (rq_step r)) = pre ++ w :: post
        /\ p_d (f_st s') = w_sum w
        /\ sub_ops (p_win (f_st s')) (w_ops w)
        /\ apply_ops (trace_effects (step_trace s r fo)) (storage_of D (f_st s))
           = storage_of (image_after D pre) (f_st s')
        /\ forall img, CrashOf (image_after D pre) (p_win (f_st s')) img ->
                       crash_outcome H expect ps (w_sum w) (map abs (w_ops w)) img.
Proof. exact failed_step_recovers. Qed.

(* ... for a durable commit, in the property's words: the contents are those of the commit served before (no
   older than the last acknowledged durable one: c08_acked_commit_is_durable) or of the failed commit, entirely *)
Theorem c08_failed_commit_all_or_nothing :
  forall (H : bytes -> bytes) (expect : bytes -> list (N * bytes)) (ps : N),
    tear_resistant H -> pages_above_header expect ->
    forall (s : fstate) (two : bool) (q : bytes) (rng : list range) (pgs : list (N * bytes))
           (shrink : option (N * bytes)) (qs : list nat) (fo : nat -> fate) (s' : fstate) (D : image),
      io_failed (f_latch s) = false -> Inv (f_st s) -> Sem H expect ps (f_st s) D ->
      step_okb (f_st s) (PCommit two q rng pgs shrink) = true ->
      step_sem H expect (f_st s) D (PCommit two q rng pgs shrink) ->
      commit_f s two q rng pgs shrink qs fo = (s', false) ->
      exists D',
        apply_ops (trace_effects (step_trace s (mkReq (PCommit two q rng pgs shrink) false qs) fo)) (storage_of D (f_st s))
        = storage_of D' (f_st s')
        /\ forall img, CrashOf D' (p_win (f_st s')) img ->
             recover H expect ps img = Some (dP (p_d (f_st s))) \/ recover H expect ps img = Some q.
Proof. exact failed_commit_all_or_nothing. Qed.

(* whole histories: any sequence of requests, each with its own fault oracle (any number of failed best-effort
   writebacks, one failed required call after which everything is refused): what the backend finally holds is a
   durable image D' of the fault-free protocol plus a weakening of the operations of one of its sync windows, and
   every crash image of it has C01's outcome; while every step reports Ok the invariants hold *)
Theorem c08_faulty_history_recovers :
  forall (H : bytes -> bytes) (expect : bytes -> list (N * bytes)) (ps : N),
    tear_resistant H -> pages_above_header expect ->
    forall (rs : list (freq * (nat -> fate))) (s : fstate) (D : image) (s' : fstate) (bs : list bool),
      io_failed (f_latch s) = false -> Inv (f_st s) -> Sem H expect ps (f_st s) D ->
      hist_ok H expect s D rs -> steps_f s rs = (s', bs) ->
      exists D' W,
        apply_ops (steps_effects s rs) (storage_of D (f_st s)) = storage_of D' (f_st s')
        /\ sub_ops (p_win (f_st s')) W
        /\ (forall img, CrashOf D' (p_win (f_st s')) img ->
                        crash_outcome H expect ps (p_d (f_st s')) (map abs W) img)
        /\ (Forall (fun b => b = true) bs ->
            io_failed (f_latch s') = false /\ Inv (f_st s') /\ Sem H expect ps (f_st s') D')
        /\ (~ Forall (fun b => b = true) bs -> io_failed (f_latch s') = true).
Proof. exact faulty_history_recovers. Qed.

(* (d) recovery's own writes (TransactionalMemory::new + Database::new on a crash image; the shutdown sequence is
   the step PClose above): Ok only if every call succeeded, then the state is the one of the fault-free run ... *)
Theorem c08_recovery_no_false_success : forall d o qs fo a s',
  recovery_run d o = Some a -> recovery_f d o qs fo = Some (s', true) ->
  (forall j c, nth_error (recovery_calls a qs) j = Some c -> fate_ok (fo j) = true)
  /\ f_st s' = a_st a /\ f_latch s' = l_init
  /\ forall D, apply_ops (trace_effects (recovery_trace a qs fo)) D = apply_ops (a_ops a) D.
Proof. exact recovery_no_false_success. Qed.

(* ... and a recovery that fails part way leaves a storage that recovers again: C01's recovery_crash_safe at the
   operation that failed (premises: C01's image_ok / dead / rec_side_okb / repair_sem) *)
Theorem c08_failed_recovery_recovers :
  forall (H : bytes -> bytes) (expect : bytes -> list (N * bytes)) (ps : N),
    tear_resistant H -> pages_above_header expect ->
    forall (d : dsum) (D : image) (o : roracle) (qs : list nat) (fo : nat -> fate) (a : acc) (s' : fstate),
      image_ok H expect ps d D -> dead H d -> rec_side_okb d o = true -> repair_sem H expect d o ->
      recovery_run d o = Some a -> recovery_f d o qs fo = Some (s', false) ->
      io_failed (f_latch s') = true
      /\ exists pre w post,
        all_windows a = pre ++ w :: post
        /\ p_d (f_st s') = w_sum w
        /\ sub_ops (p_win (f_st s')) (w_ops w)
        /\ apply_ops (trace_effects (recovery_trace a qs fo)) D = storage_of (image_after D pre) (f_st s')
        /\ forall img, CrashOf (image_after D pre) (p_win (f_st s')) img ->
                       crash_outcome H expect ps (w_sum w) (map abs (w_ops w)) img.
Proof. exact failed_recovery_recovers. Qed.

Theorem c08_ok_recovery_keeps_invariants :
  forall (H : bytes -> bytes) (expect : bytes -> list (N * bytes)) (ps : N),
    tear_resistant H -> pages_above_header expect ->
    forall (d : dsum) (D : image) (o : roracle) (qs : list nat) (fo : nat -> fate) (a : acc) (s' : fstate),
      image_ok H expect ps d D -> dead H d -> rec_side_okb d o = true -> repair_sem H expect d o ->
      recovery_run d o = Some a -> recovery_f d o qs fo = Some (s', true) ->
      Inv (f_st s') /\ Sem H expect ps (f_st s') (image_after D (a_ws a)) /\ io_failed (f_latch s') = false.
Proof. exact ok_recovery_keeps_invariants. Qed.

(* ---- non-vacuity: C01Example's database (page 512, 2048 bytes; slot 0 = txid 5 served) ----
   history: a read and the best-effort writeback of a page, which FAILS after storing 1 byte (swallowed: Ok);
   a one-phase commit (2 reads, the page again, one header write, sync): Ok; a two-phase commit whose SECOND
   sync_data fails: Err; the same commit request again: refused *)
Definition fx_ok : nat -> fate := fun _ => FOk.
Definition fx_evict : freq := mkReq (PEvict [(1536, [2; 6])]) true [1%nat].
Definition fx_c1 : freq := mkReq (PCommit false (ex_slot 2 6) [(1536, 2)] [(1536, [2; 6])] None) false [2%nat].
Definition fx_c2 : freq := mkReq (PCommit true (ex_slot 1 7) [(1024, 2)] [(1024, [1; 7])] None) false [].
Definition fx_hist : list (freq * (nat -> fate)) :=
  [(fx_evict, fail_at 1 false 1); (fx_c1, fx_ok); (fx_c2, fail_at 4 false 0); (fx_c2, fx_ok)].
Definition fx_s2 : fstate := fst (steps_f (f_init px_st0) [(fx_evict, fail_at 1 false 1); (fx_c1, fx_ok)]).

Definition fx_shape (l : list Backend.op) : list (N * N) :=
  map (fun o => match o with Write off d => (off, wlen d) | SetLen n => (n, 0) | Sync => (0, 0) end) l.

(* the run, computed: results, what the storage received -- (offset, length) of every write, (0, 320) = a header
   write, (0, 0) = a completed sync_data --, the latch, and the state the model continues with: the summary of the
   image the first flush of the two-phase commit made durable, and the second header write, received but not synced *)
Example c08_fc_nonvacuous_run :
  snd (steps_f (f_init px_st0) fx_hist) = [true; true; false; false]
  /\ fx_shape (steps_effects (f_init px_st0) fx_hist)
     = [(1536, 1); (1536, 2); (0, 320); (0, 0); (1024, 2); (0, 320); (0, 0); (0, 320)]
  /\ f_latch (fst (steps_f (f_init px_st0) fx_hist)) = mkL true false
  /\ first_fail (step_calls (f_st fx_s2) fx_c2) (fail_at 4 false 0) 0 = Some 4%nat
  /\ nth_error (step_calls (f_st fx_s2) fx_c2) 4 = Some (false, Some Sync)
  /\ (let w := nth 1 (all_windows (run_step (f_st fx_s2) (rq_step fx_c2))) (open_window px_st0) in
      p_d (f_st (fst (steps_f (f_init px_st0) fx_hist))) = w_sum w
      /\ p_win (f_st (fst (steps_f (f_init px_st0) fx_hist))) = w_ops w
      /\ fx_shape (w_ops w) = [(0, 320)])
  (* the same commit with its first header write torn after 200 bytes: first window, page + torn header kept *)
  /\ fx_shape (p_win (f_st (fst (step_f fx_s2 fx_c2 (fail_at 1 true 200))))) = [(1024, 2); (0, 200)]
  (* fault-free: the state of the protocol model *)
  /\ fst (step_f fx_s2 fx_c2 fx_ok) = mkF (a_st (run_step (f_st fx_s2) (rq_step fx_c2))) l_init.
Proof. vm_compute. repeat split; reflexivity. Qed.

(* the shutdown sequence (PClose: quick-repair commit, flush, clean-flag header, sync) with its LAST sync_data
   failing: Err, 3 windows completed, the clean-flag header received but not synced *)
Example c08_fc_nonvacuous_close :
  let r := mkReq (PClose (ex_slot 1 7) [(1024, 2)] [(1024, [1; 7])] None) false [] in
  let x := step_f fx_s2 r (fail_at 7 true 0) in
  length (step_calls (f_st fx_s2) r) = 8%nat /\ snd x = false /\ io_failed (f_latch (fst x)) = true
  /\ fx_shape (p_win (f_st (fst x))) = [(0, 320)]
  /\ nwindows_before (a_ws (run_step (f_st fx_s2) (rq_step r))) 7 = 3%nat.
Proof. vm_compute. repeat split; reflexivity. Qed.

(* recovery's own writes: full repair of the god-byte-only crash image (5 windows), the sync of the repair commit's
   first flush fails *)
Example c08_fc_nonvacuous_recovery :
  match recovery_run rx_d_god rx_o_full, recovery_f rx_d_god rx_o_full [3%nat] (fail_at 8 false 0) with
  | Some a, Some (s', b) =>
      fx_shape (a_ops a) = [(0, 320); (0, 0); (0, 320); (0, 0); (0, 320); (0, 0); (0, 320); (0, 0); (0, 320); (0, 0)]
      /\ b = false /\ io_failed (f_latch s') = true /\ fx_shape (p_win (f_st s')) = [(0, 320)]
      /\ p_d (f_st s') = w_sum (nth 2 (a_ws a) (open_window px_st0))
  | _, _ => False
  end.
Proof. vm_compute. repeat split; reflexivity. Qed.

(* the premises of the composition theorems hold for this history ... *)
Example c08_fc_hist_ok : hist_ok Hideal ex_expect (f_init px_st0) ex_D fx_hist.
Proof.
  cbn [hist_ok fx_hist].
  split; [vm_compute; reflexivity|]. split; [exact Logic.I|]. intros _.
  split; [vm_compute; reflexivity|]. split.
  { repeat split; try (vm_compute; reflexivity);
      intros e He; vm_compute in He; destruct He as [<- | []]; vm_compute; reflexivity. }
  intros _.
  split; [vm_compute; reflexivity|]. split.
  { repeat split; try (vm_compute; reflexivity);
      intros e He; vm_compute in He; destruct He as [<- | []]; vm_compute; reflexivity. }
  intros X. vm_compute in X. discriminate.
Qed.

(* ... so the theorem applies: whatever survives this history recovers *)
Example c08_fc_history_by_theorem :
  exists D' W,
    apply_ops (steps_effects (f_init px_st0) fx_hist) (storage_of ex_D px_st0)
    = storage_of D' (f_st (fst (steps_f (f_init px_st0) fx_hist)))
    /\ sub_ops (p_win (f_st (fst (steps_f (f_init px_st0) fx_hist)))) W
    /\ forall img, CrashOf D' (p_win (f_st (fst (steps_f (f_init px_st0) fx_hist)))) img ->
         crash_outcome Hideal ex_expect ex_ps (p_d (f_st (fst (steps_f (f_init px_st0) fx_hist)))) (map abs W) img.
Proof.
  destruct (c08_faulty_history_recovers Hideal ex_expect ex_ps ideal_checksum_tear_resistant ex_pages_above
              fx_hist (f_init px_st0) ex_D _ _ eq_refl (proj1 (protocol_invariant_executable _) px_inv) px_sem0
              c08_fc_hist_ok (surjective_pairing _)) as (D' & W & A & B & C & _).
  exists D', W. auto.
Qed.

(* ... and for the two-phase commit that fails at its second sync_data, in the property's words: what survives
   (any crash image) shows the commit before it (txid 6) or the failed commit (txid 7), completely *)
Example c08_fc_2pc_second_sync_all_or_nothing :
  exists D',
    forall img, CrashOf D' (p_win (f_st (fst (commit_f fx_s2 true (ex_slot 1 7) [(1024, 2)] [(1024, [1; 7])] None []
                                                       (fail_at 4 false 0))))) img ->
      recover Hideal ex_expect ex_ps img = Some (ex_slot 2 6) \/ recover Hideal ex_expect ex_ps img = Some (ex_slot 1 7).
Proof.
  pose proof (proj1 (protocol_invariant_executable _) px_inv) as I0.
  set (s1 := fst (step_f (f_init px_st0) fx_evict (fail_at 1 false 1))).
  assert (E1 : step_f (f_init px_st0) fx_evict (fail_at 1 false 1) = (s1, true)) by (vm_compute; reflexivity).
  destruct (c08_ok_step_keeps_invariants Hideal ex_expect ex_ps ideal_checksum_tear_resistant ex_pages_above
              (f_init px_st0) fx_evict _ s1 ex_D eq_refl I0 px_sem0 ltac:(vm_compute; reflexivity) Logic.I E1)
    as (I1 & S1 & L1).
  assert (E2 : step_f s1 fx_c1 fx_ok = (fx_s2, true)) by (vm_compute; reflexivity).
  destruct c08_fc_hist_ok as (_ & _ & Hr). specialize (Hr eq_refl). cbn [hist_ok] in Hr.
  destruct Hr as (Ok1 & Sem1 & Hr). specialize (Hr eq_refl). destruct Hr as (Ok2 & Sem2 & _).
  destruct (c08_ok_step_keeps_invariants Hideal ex_expect ex_ps ideal_checksum_tear_resistant ex_pages_above
              s1 fx_c1 _ fx_s2 _ L1 I1 S1 Ok1 Sem1 E2) as (I2 & S2 & L2).
  destruct (c08_failed_commit_all_or_nothing Hideal ex_expect ex_ps ideal_checksum_tear_resistant ex_pages_above
              fx_s2 true (ex_slot 1 7) [(1024, 2)] [(1024, [1; 7])] None [] (fail_at 4 false 0) _ _ L2 I2 S2 Ok2 Sem2
              (surjective_pairing _)) as (D' & _ & X).
  exists D'. intros img HC. destruct (X img HC) as [Y | Y]; [left | right]; rewrite Y; [vm_compute|]; reflexivity.
Qed.

(* ------------------------------------------------------------------------------------------------
   Tie to the code (Gen/Fns.v is regenerated from cached_file.rs on every run by tools/gen_fns.py; see
   design.d/GEN.md): lock striping and the write-buffer budget test of the cache model are the expressions translated
   from PagedCachedFile::lock_stripes / write_buffer_stripe / write. *)
From RV Require Import Gen.FnsLib Gen.Fns Gen.FnsCacheP.

Theorem c08_code_cache_stripes_is_model :
  Cache.STRIPES = PagedCachedFile_lock_stripes /\ N.of_nat Cache.NSTRIPES = PagedCachedFile_lock_stripes.
Proof. exact cache_stripes_is_model. Qed.

Theorem c08_code_cache_stripe_of_is_model : forall off, Cache.stripe off = cache_stripe_of off.
Proof. exact cache_stripe_is_model. Qed.

Theorem c08_code_cache_write_over_half_is_model : forall c s0 len,
  (max_cache c / 2 <? wb_bytes (set_wbb s0 (wb_bytes s0 + len)))%N
  = cache_write_over_half (wb_bytes s0) len (max_cache c).
Proof. exact cache_write_over_half_is_model. Qed.
