(* C08 -- Storage errors never corrupt or silently lose data.
   Statements only; every proof is `exact <lemma>` (lemmas in Storage/LatchP.v).

   Proved here, for every sequence of calls, every backend operation type and every storage
   semantics in which a failed operation has no effect:
     - the I/O latch (CheckedBackend): a failing len/read/write/set_len/sync_data sets it; once set
       it stays set, every later i/o call is refused (PreviousIo / DatabaseClosed) without reaching
       the backend, only close() gets through; a failing best-effort write does not set it;
     - close() reaches the backend exactly once (explicit close, or the Drop impl), last;
     - the storage left behind by a run in which a latched call failed is the storage after the
       calls issued before it ("a failure is a crash point");
     - session level: after a commit returned Err or a backend call failed, begin_write is refused
       until reopen and no shutdown clears recovery_required, so the next open repairs.
   NOT proved, validated per run by harness c08 (fault index enumeration): that every API call of the
   33 kLoC crate during which a required backend call failed returns Err and does not panic
   (`no_false_success`), and -- composing with C01 -- that reopening the surviving bytes (and sampled
   crash images of them) yields one commit point >= the last acknowledged durable commit.          *)
From Coq Require Import List Bool NArith.
From RV Require Import Storage.Latch Storage.LatchP.
Import ListNotations.

Theorem c08_latch_sets : forall (op : Type) (s : lstate) (o : op),
  io_failed (l_state op (lrun op s [(WOp o, false)])) = true.
Proof. exact latch_sets. Qed.

Theorem c08_best_effort_does_not_latch : forall (op : Type) (s : lstate) (o : op) (bok : bool),
  l_state op (lrun op s [(WBestEffort o, bok)]) = s.
Proof. exact best_effort_does_not_latch. Qed.

Theorem c08_latch_permanent : forall (op : Type) (cs : list (wcall op * bool)) (s : lstate),
  io_failed s = true ->
  io_failed (l_state op (lrun op s cs)) = true /\
  (forall e, In e (l_trace op (lrun op s cs)) -> e = BClose) /\
  (forall i c bok, nth_error cs i = Some (c, bok) -> is_io_call op c = true ->
     exists r, nth_error (l_results op (lrun op s cs)) i = Some r /\ refused r = true).
Proof. exact latch_permanent. Qed.

Theorem c08_latch_permanent_after_failure :
  forall (op : Type) (cs1 : list (wcall op * bool)) (o : op) (cs2 : list (wcall op * bool)) (s : lstate),
  let s1 := l_state op (lrun op s (cs1 ++ [(WOp o, false)])) in
  io_failed s1 = true /\
  (forall e, In e (l_trace op (lrun op s1 cs2)) -> e = BClose) /\
  (forall i c bok, nth_error cs2 i = Some (c, bok) -> is_io_call op c = true ->
     exists r, nth_error (l_results op (lrun op s1 cs2)) i = Some r /\ refused r = true).
Proof. exact latch_permanent_after_failure. Qed.

Theorem c08_close_once_by_drop : forall (op : Type) (cs : list (wcall op * bool)) (b : bool) (s : lstate),
  closed s = false -> io_calls op cs ->
  l_trace op (lrun op s (cs ++ [(WDrop, b)])) = l_trace op (lrun op s cs) ++ [BClose] /\
  Forall (fun e => is_bclose op e = false) (l_trace op (lrun op s cs)).
Proof. exact close_once_by_drop. Qed.

Theorem c08_close_once_explicit :
  forall (op : Type) (cs1 : list (wcall op * bool)) (b1 : bool) (cs2 : list (wcall op * bool)) (b2 : bool) (s : lstate),
  closed s = false -> io_calls op cs1 -> io_calls op cs2 ->
  l_trace op (lrun op s (cs1 ++ (WClose, b1) :: cs2 ++ [(WDrop, b2)])) = l_trace op (lrun op s cs1) ++ [BClose] /\
  Forall (fun e => is_bclose op e = false) (l_trace op (lrun op s cs1)).
Proof. exact close_once_explicit. Qed.

Theorem c08_failed_storage_frozen :
  forall (op storage : Type) (bapply : storage -> op -> storage) (cs : list (wcall op * bool)) (s : lstate) (st : storage),
  io_failed s = true -> storage_after op storage bapply st (l_trace op (lrun op s cs)) = st.
Proof. exact failed_storage_frozen. Qed.

Theorem c08_failure_is_a_crash_point :
  forall (op storage : Type) (bapply : storage -> op -> storage)
         (cs1 : list (wcall op * bool)) (o : op) (cs2 : list (wcall op * bool)) (s : lstate) (st : storage),
  storage_after op storage bapply st (l_trace op (lrun op s (cs1 ++ (WOp o, false) :: cs2))) =
  storage_after op storage bapply st (l_trace op (lrun op s cs1)).
Proof. exact failure_is_a_crash_point. Qed.

Theorem c08_prefix_is_fault_free_stream : forall (op : Type) (cs : list (wcall op * bool)) (s : lstate),
  io_failed s = false -> io_calls op cs -> Forall (fun cb => snd cb = true) cs ->
  l_trace op (lrun op s cs) = flat_map (fun cb => ok_event op (fst cb)) cs /\
  io_failed (l_state op (lrun op s cs)) = false.
Proof. exact prefix_is_fault_free_stream. Qed.

Theorem c08_failed_commit_refuses_writes : forall s l,
  begin_write_allowed (drun (dstep s (DCommit false)) l) = false.
Proof. exact failed_commit_refuses_writes. Qed.

Theorem c08_io_failure_refuses_writes : forall s l,
  begin_write_allowed (drun (dstep s DIoFailure) l) = false.
Proof. exact io_failure_refuses_writes. Qed.

Theorem c08_failure_keeps_recovery_required : forall l1 e l2 s,
  d_recovery_on_disk s = true ->
  Forall (fun x => match x with DShutdown _ => False | _ => True end) l1 ->
  is_failure e = true ->
  d_recovery_on_disk (drun s (l1 ++ e :: l2)) = true.
Proof. exact failure_keeps_recovery_required. Qed.

(* ---- non-vacuity ---- *)

(* ops are numbers here: 0 len 1 read 2 write 3 set_len 4 sync; storage = list of applied ops.
   A successful write, a failing best-effort write (no latch), a read, a failing sync (latches), then a
   read, a close and the drop: only the close gets through after the failure, once. *)
Example c08_nonvacuous_latch :
  let cs := [(WOp 2%N, true); (WBestEffort 2%N, false); (WOp 1%N, true); (WOp 4%N, false);
             (WOp 1%N, true); (WBestEffort 2%N, true); (WClose, true); (WDrop, true)] in
  l_trace N (lrun N l_init cs) =
    [BOp 2%N true; BOp 2%N false; BOp 1%N true; BOp 4%N false; BClose] /\
  l_results N (lrun N l_init cs) = [ROk; RIo; ROk; RIo; RPreviousIo; RPreviousIo; ROk; RNothing] /\
  storage_after N (list N) (fun st o => st ++ [o]) [] (l_trace N (lrun N l_init cs)) = [2%N; 1%N] /\
  (* the model is faithful to the code: a second explicit close would reach the backend again *)
  l_trace N (lrun N l_init [(WClose, true); (WClose, true); (WDrop, true)]) = [BClose; BClose].
Proof. vm_compute. repeat split; reflexivity. Qed.

Example c08_nonvacuous_log :
  log_okb [LEnter 0 false false; LBackend 0 true; LEnter 2 false false; LBackend 2 false;
           LEnter 1 true false; LEnter 6 true false; LBackend 5 true; LEnter 7 true true] = true /\
  (* a call that reaches the backend although the latch is set is rejected *)
  log_okb [LEnter 2 false false; LBackend 2 false; LEnter 1 true false; LBackend 1 true] = false /\
  (* a failed set_len that does not latch is rejected *)
  log_okb [LEnter 4 false false; LBackend 3 false; LEnter 1 false false; LBackend 1 true] = false /\
  (* a failed best-effort write that latches is rejected *)
  log_okb [LEnter 3 false false; LBackend 2 false; LEnter 1 true false] = false.
Proof. vm_compute. repeat split; reflexivity. Qed.

Example c08_nonvacuous_session :
  d_recovery_on_disk (drun d_open [DCommit true; DShutdown true]) = false /\
  d_recovery_on_disk (drun d_open [DCommit true; DIoFailure; DCommit false; DShutdown true]) = true /\
  begin_write_allowed (drun d_open [DCommit true]) = true /\
  begin_write_allowed (drun d_open [DCommit false; DCommit true]) = false.
Proof. vm_compute. repeat split; reflexivity. Qed.

(* ================================================================== the cache layer under backend faults
   Model Storage/Cache.v of PagedCachedFile / the write buffer over CheckedBackend (this file's latch) and a byte-array
   backend whose every call may fail (oracle), see Props/C02.v for what is modelled and the usage protocol.
   `run_track` runs the model, the usage protocol and the plain byte array side by side; a call that returned an
   error counts as not made.  Tied to the code by harness bin `cachecorr faults` (props/cache_common.py). *)
From RV Require Import Base.Bytes Storage.Backend Storage.Cache Storage.CacheInv Storage.CacheP.

(* whatever fails (required or best-effort calls), whatever is evicted: in every reachable state the latest content
   of every byte (outside a live WritablePage and outside ranges whose write was cancelled/discarded) is in the
   write buffer or in the backend -- no committed, buffered page ever disappears *)
Theorem c08_cache_no_lost_page_under_faults : forall c f p s g I out,
  run_track c (init_state f) (g_init (blen f)) (image_of f) p = Some (s, g, I, out) ->
  forall i, ~ undefined_byte g i -> latest_ok s I i.
Proof. exact no_lost_page_under_faults. Qed.

(* one call in a reachable state, whatever fails: it does not panic; an Ok result is the plain array's answer; the
   latch is set exactly when a REQUIRED backend call failed, and then the call reports an error; failures of
   best-effort writebacks alone change neither the latch nor the result; once latched nothing reaches the backend *)
Theorem c08_cache_fault_call_sound : forall c f p s g I out x o g' s' t r,
  run_track c (init_state f) (g_init (blen f)) (image_of f) p = Some (s, g, I, out) ->
  proto_step c g x = Some g' -> step c s x o = (s', t, r) ->
  r <> Panic /\ (res_is_err r = false -> spec_res I x r) /\
  io_failed (latch s') = io_failed (latch s) || req_failed t /\ closed (latch s') = closed (latch s) /\
  (io_failed (latch s) = true -> t = []) /\
  (io_failed (latch s) = false -> req_failed t = false -> res_is_err r = false /\ io_failed (latch s') = false) /\
  (req_failed t = true -> res_is_err r = true /\ io_failed (latch s') = true).
Proof. exact fault_call_sound. Qed.

(* ---- non-vacuity: 4-byte pages, budget 7 bytes; a failing best-effort writeback, then a failing required eviction *)
Definition c08_cache_prog : list (Cache.op * oracle) :=
 [ (OWrite 0 4 true, o_none); (ODrop 0 [1;1;1;1], o_none); (OBarrier, o_none);
   (ORead 8 4 HClean, mkO [] [] [] [] [true; false]);   (* the read succeeds, the best-effort writeback of page 0 fails *)
   (ORead 0 4 HClean, o_none);                            (* page 0 is still served from the buffer *)
   (OCheckIo, o_none);                                    (* not latched *)
   (OWrite 4 4 true, mkO [] [] [] [] [false]);            (* over half: the REQUIRED eviction of page 0 fails: Err, latched *)
   (ORead 0 4 HNone, o_none);                             (* the page was put back into the buffer *)
   (ORead 12 4 HClean, o_none); (OCheckIo, o_none) ].     (* everything that needs the backend is refused *)
Example c08_cache_nonvacuous :
  let f : bytes := [0;1;2;3;4;5;6;7;8;9;10;11;12;13;14;15;16;17;18;19;20;21;22;23] in
  match run_track (mkC 4 7) (init_state f) (g_init 24) (image_of f) c08_cache_prog with
  | Some (s, g, _, out) =>
      out = [([], Data [0;0;0;0]); ([], Done); ([], Done);
             ([mkEv (BRead 8 4) true false; mkEv (BWrite 0 [1;1;1;1]) false true], Data [8;9;10;11]);
             ([], Data [1;1;1;1]); ([], Done);
             ([mkEv (BWrite 0 [1;1;1;1]) false false], Err RIo);
             ([], Data [1;1;1;1]); ([], Err RPreviousIo); ([], Err RPreviousIo)] /\
      wb s = [(0, Some [1;1;1;1])] /\ cpb s = true /\ io_failed (latch s) = true /\ file s = f
  | None => False
  end.
Proof. vm_compute. repeat split; reflexivity. Qed.
