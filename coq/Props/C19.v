(* C19 -- Files stay readable across releases that share the (v3) file format.
   Property file: statements only; proofs in Format/LookupP.v, Format/CodecP.v, Format/WFP.v.
   What is proved is about the FORMAT MODEL (a "v3 reader" = decode_db + compare-only routing);
   that redb 3.0.0's code is such a reader is validated differentially by the harness, not proved. *)
From Coq Require Import String.
From RV Require Import Base.Bytes Base.BytesP Gen.Consts Format.Xxh3 Format.Codec Format.Pages Format.Records
  Format.KeyCmp Format.Decode Format.WF Format.WFP Format.CodecP Format.Lookup Format.LookupP Format.Example.
Open Scope N_scope.

(* ---- shortened routing keys are legal: for ANY three-way comparison that is a total preorder, a
   reader that routes through branch pages by comparing the query with the stored routing keys
   returns exactly what a scan of the leaves returns, provided only that each routing key s
   satisfies  max(left subtree) <= s < min(right subtree)  (wf_tree).  The right-hand side does not
   mention routing keys: two files with the same leaves and different legal separators (full keys
   as 3.0.0 writes them, shortened prefixes as this version writes them) answer identically. *)
Theorem prefix_separators_legal :
  forall cmp : cmp_fn,
    (forall a b, cmp b a = CompOpp (cmp a b)) ->
    (forall a b c, cmp a b = Lt -> cmp b c = Lt -> cmp a c = Lt) ->
    (forall a b c, cmp a b = Eq -> cmp a c = cmp b c) ->
    forall t h k, wf_tree (Some cmp) t h -> lookup cmp t k = leaf_get cmp (entries t) k.
Proof. exact LookupP.lookup_scan. Qed.

(* instance for the byte-wise order of &str / &[u8] / String keys *)
Theorem prefix_separators_legal_bytes : forall t h k,
  wf_tree (Some lex_cmp) t h -> lookup lex_cmp t k = leaf_get lex_cmp (entries t) k.
Proof. exact LookupP.prefix_separators_legal_bytes. Qed.

(* ---- records of the system tables and the catalog: the decoders invert the encoders whose tags,
   offsets and names are the constants regenerated from the sources on every run (Gen/Consts.v) --
   a changed tag / offset / record length makes these proofs or the examples below fail *)
Theorem system_records_stable_tabledef : forall t, tabledef_ok t -> decode_tabledef (encode_tabledef t) = Ok t.
Proof. exact CodecP.codec_roundtrip_tabledef. Qed.
Theorem system_records_stable_page_list : forall l,
  Forall (fun p => pn_valid p = true) l -> lenN l < 2 ^ 16 -> decode_page_list (encode_page_list l) = Ok l.
Proof. exact CodecP.codec_roundtrip_page_list. Qed.
Theorem system_records_stable_savepoint : forall s, savepoint_ok s -> decode_savepoint (encode_savepoint s) = Ok s.
Proof. exact CodecP.codec_roundtrip_savepoint. Qed.
Theorem system_records_stable_alloc_key : forall k,
  match k with AKRegion r => r < 2 ^ 32 | _ => True end -> decode_alloc_key (encode_alloc_key k) = Some k.
Proof. exact CodecP.codec_roundtrip_alloc_key. Qed.
Theorem system_records_stable_slot : forall s, slot_ok s -> decode_slot (encode_slot s) = Some s.
Proof. exact CodecP.codec_roundtrip_slot. Qed.
Theorem system_records_stable_header : forall h, header_ok h -> decode_header (encode_header h) = Ok h.
Proof. exact CodecP.codec_roundtrip_header. Qed.

(* ---- non-vacuity *)
(* the v3 constants the model was generated with *)
Example v3_constants :
  FILE_FORMAT_VERSION3 = 3 /\ TABLE_NORMAL = 3 /\ TABLE_MULTIMAP = 4 /\ COLL_INLINE = 1 /\ COLL_SUBTREE = 3
  /\ ALLOC_KEY_REGION = 3 /\ ALLOC_KEY_TRACKER = 4 /\ ALLOC_KEY_TXNID = 5 /\ TYPE_CLASS_INTERNAL = 1
  /\ SLOT_CHECKSUM_OFFSET = 112 /\ TRANSACTION_SIZE = 128 /\ DB_HEADER_SIZE = 320.
Proof. repeat split; reflexivity. Qed.

(* a two-leaf tree over string keys whose routing key "apr" is a shortened prefix that is not a key *)
Definition s (x : string) : bytes := ascii_bytes x.
Definition ex_tree : tree :=
  TBranch (pg 1) 0 0
    [(7, TLeaf (pg 2) 0 7 [(s "apple", s "1"); (s "applf", s "2")]);
     (9, TLeaf (pg 3) 0 9 [(s "apricot", s "3"); (s "banana", s "4")])]
    [s "apr"].

Example ex_tree_wf : wf_tree (Some lex_cmp) ex_tree 1.
Proof. apply (WFP.wf_treeb_sound (Some lex_cmp) ex_tree 1). vm_compute. reflexivity. Qed.

Example ex_tree_lookups :
  lookup lex_cmp ex_tree (s "apricot") = Some (s "3") /\ lookup lex_cmp ex_tree (s "applf") = Some (s "2")
  /\ lookup lex_cmp ex_tree (s "apr") = None /\ lookup lex_cmp ex_tree (s "zebra") = None.
Proof. vm_compute. repeat split; reflexivity. Qed.

(* the image assembled by the model's encoders (the "model writer") is read back by the model reader
   with the intended contents; the harness additionally opens this very image with both releases *)
Example writer_reader_roundtrip_example :
  ex_contents = Ok [(ascii_bytes "t", [(k8 1, [k8 10]); (k8 2, [k8 20]); (k8 3, [k8 30]); (k8 7, [k8 70])])]
  /\ wf_imageb ex_image = true.
Proof. vm_compute. split; reflexivity. Qed.

(* ------------------------------------------------------------------------------------------------
   Tie to the code (Gen/Fns.v is regenerated from base.rs / layout.rs on every run by tools/gen_fns.py):
   the page-number packing and the file geometry of the format model are equal to the functions translated
   from the Rust sources of the release under check. *)
From RV Require Import Gen.FnsLib Gen.Fns Gen.FnsFormatP.

Theorem c19_code_pagenum_to_u64_is_model : forall p,
  PageNumber_to_le_bytes p = pagenum_to_u64 (pagenum_of p).
Proof. exact pagenum_to_u64_is_model. Qed.

Theorem c19_code_pagenum_of_u64_is_model : forall t, t < 2 ^ 64 ->
  pagenum_of (PageNumber_from_le_bytes t) = pagenum_of_u64 t.
Proof. exact pagenum_of_u64_is_model. Qed.

Theorem c19_code_geom_of_len_is_model : forall psz hdr maxp file_len,
  geom_of_layout (DatabaseLayout_recalculate file_len hdr maxp psz) = geom_of_len psz hdr maxp file_len.
Proof. exact geom_of_len_is_model. Qed.

(* ------------------------------------------------------------------------------------------------
   Tie to the code, wave 2 (see design.d/GEN.md): the header, commit slot and system record readers of the
   format model read what the functions translated from the current sources read. *)
From RV Require Import Gen.FnsLibB Gen.FnsCodecP.

Theorem c19_code_decode_header_fields_is_model : forall b h, decode_header b = Ok h ->
  header_page_size b = h_psz h
  /\ header_region_header_pages b = h_hdr_pages h
  /\ header_region_max_data_pages b = h_max_pages h
  /\ header_full_regions b = h_full h
  /\ header_trailing_data_pages b = h_trailing h
  /\ header_primary_slot b = god_primary (h_god h)
  /\ header_recovery_required b = god_recovery (h_god h)
  /\ header_two_phase_commit b = god_2pc (h_god h)
  /\ decode_slot (header_slot0_bytes b) = Some (h_slot0 h)
  /\ decode_slot (header_slot1_bytes b) = Some (h_slot1 h).
Proof. exact decode_header_fields_is_model. Qed.

Theorem c19_code_decode_slot_fields_is_model : forall b s, all_bytes b = true -> decode_slot b = Some s ->
  Fns.slot_version b = sl_version s
  /\ slot_stored_checksum b = sl_sum s
  /\ slot_transaction_id b = sl_txid s
  /\ option_map bhdr_of (slot_user_root b) = sl_user s
  /\ option_map bhdr_of (slot_system_root b) = sl_system s.
Proof. exact decode_slot_fields_is_model. Qed.

Theorem c19_code_btree_header_from_le_bytes_is_model : forall b, all_bytes b = true -> lenN b = BHDR_SIZE ->
  decode_bhdr b = Some (bhdr_of (BtreeHeader_from_le_bytes b)).
Proof. exact bhdr_from_le_bytes_is_model. Qed.

Theorem c19_code_page_list_is_model : forall b l, all_bytes b = true -> decode_page_list b = Ok l ->
  PageList_len b = lenN l
  /\ forall i d, i < lenN l -> pagenum_of (PageList_get b i) = nth (N.to_nat i) l d.
Proof. exact page_list_is_model. Qed.

Theorem c19_code_savepoint_record_is_model : forall b, all_bytes b = true ->
  match decode_savepoint b, SerializedSavepoint_to_savepoint b with
  | Ok s, Some ((v, id), (tx, root)) =>
      v = sp_version s /\ id = sp_id s /\ tx = sp_txid s /\ option_map bhdr_of root = sp_root s
  | Err _ _, None => True
  | _, _ => False
  end.
Proof. exact savepoint_record_is_model. Qed.
