(* C01 -- Commits are atomic and durable across crashes.

   What is proved here (for every durable image D, every window W of operations issued after the
   sync that made D durable, and EVERY crash image of (D, W): any subset of the pending writes,
   each torn at byte granularity, each pending set_len applied or not):

     if the executable validator accepts the window (window_okb: copy-on-write of the served
     commit's pages, header discipline, 2PC trust, lengths, clean flag, slot-selection safety)
     then opening the crash image succeeds and serves the commit D serves or the commit W wrote,
     the latter only when all its pages are in the image -- never a mixture, never another slot.

   crash_trace_safe lifts this to every instant of a recorded operation stream by induction over
   its sync windows; recovery runs are operation streams like any other (their windows are validated
   the same way), so the statement covers crashes during recovery, to any depth.

   Premises that are NOT proved but validated per run by the harness (harness/src/bin/c01.rs):
   image_ok (the summary of each durable image is truthful: header bytes, length, served slot, page
   ranges of the served commit from redb's own walker, checksum validity bits from redb's XXH3) and
   fresh_ok.vnew; that the real operation streams satisfy window_okb (S2); that the real
   Database::open agrees with `recover` on crash images (S3 crash oracle).
   Idealisations, explicit as premises: H_tear (a byte mixture of two valid slots with a valid
   checksum is one of them -- injectivity of the checksum is NOT enough, see
   checksum_injectivity_insufficient), fresh_ok.dead (a torn slot stays invalid under further partial
   overwriting), `expect` (Merkle: a slot determines the pages its verification accepts). *)
From RV Require Import Base.Bytes Gen.Consts Storage.Backend Storage.BackendP Storage.Crash Storage.CrashP
  Storage.Header Storage.HeaderP Storage.Window Storage.WindowP Storage.IdealH Storage.IdealHP
  Storage.C01Example.

Definition tear_resistant (H : bytes -> bytes) : Prop :=
  forall a b m, cks_ok H a = true -> cks_ok H b = true -> mix2 a b m -> cks_ok H m = true ->
                m = a \/ m = b.
Definition pages_above_header (expect : bytes -> list (N * bytes)) : Prop :=
  forall s e, In e (expect s) -> DB_HEADER_SIZE <= fst e.

Theorem crash_window_safe :
  forall (H : bytes -> bytes) (expect : bytes -> list (N * bytes)) (ps : N),
    tear_resistant H -> pages_above_header expect ->
    forall (d : dsum) (W : list op) (vnew : bool) (D img : image),
      image_ok H expect ps d D ->
      fresh_ok H d (map abs W) vnew ->
      window_okb d (map abs W) vnew = true ->
      CrashOf D W img ->
      crash_outcome H expect ps d (map abs W) img.
Proof. exact WindowP.crash_window_safe. Qed.

Theorem crash_trace_safe :
  forall (H : bytes -> bytes) (expect : bytes -> list (N * bytes)) (ps : N),
    tear_resistant H -> pages_above_header expect ->
    forall (D0 : image) (ws : list wrec),
      chain H expect ps D0 ws -> forallb wrec_okb ws = true ->
      forall pre w post k img,
        ws = pre ++ w :: post ->
        CrashOf (image_after D0 pre) (firstn k (w_ops w)) img ->
        crash_outcome H expect ps (w_sum w) (map abs (w_ops w)) img.
Proof. exact WindowP.crash_trace_safe. Qed.

(* the served commit advances only to a commit some window wrote completely *)
Theorem served_step :
  forall (H : bytes -> bytes) (expect : bytes -> list (N * bytes)) (ps : N),
    tear_resistant H -> pages_above_header expect ->
    forall (D : image) (w : wrec) (rest : list wrec),
      chain H expect ps D (w :: rest) -> wrec_okb w = true ->
      crash_outcome H expect ps (w_sum w) (map abs (w_ops w)) (apply_ops (w_ops w) D).
Proof. exact WindowP.served_step. Qed.

(* a crash after k operations of a window is a crash of the whole window *)
Theorem crash_of_prefix :
  forall D W k img, CrashOf D (firstn k W) img -> CrashOf D W img.
Proof. exact CrashP.crash_prefix. Qed.

(* no crash at all is one of the crash images *)
Theorem all_applied_is_crash : forall W D, CrashOf D W (apply_ops W D).
Proof. exact CrashP.apply_is_crash. Qed.

(* header bytes and length of the next durable image are those the validator computes *)
Theorem next_summary :
  forall d W D,
    c_shape (map abs W) = true -> c_lens d (map abs W) = true ->
    (forall i, i < DB_HEADER_SIZE -> iat D i = hget (d_hdr d) i) -> ilen D = d_len d ->
    (forall i, i < DB_HEADER_SIZE -> iat (apply_ops W D) i = hget (next_hdr d (map abs W)) i)
    /\ ilen (apply_ops W D) = next_len d (map abs W).
Proof. exact WindowP.apply_summary. Qed.

(* the premise on the checksum is satisfiable ... *)
Theorem ideal_checksum_tear_resistant : tear_resistant Hideal.
Proof. exact IdealHP.Hideal_tear. Qed.

(* ... and strictly stronger than injectivity, which DESIGN.md proposed *)
Theorem checksum_injectivity_insufficient :
  (forall x y, Hid x = Hid y -> x = y)
  /\ exists a b m, cks_ok Hid a = true /\ cks_ok Hid b = true /\ mix2 a b m /\ cks_ok Hid m = true
                   /\ m <> a /\ m <> b.
Proof. exact IdealHP.H_inj_insufficient. Qed.

(* ---------------- non-vacuity: a concrete image, window and crash images ---------------- *)

Example ex_pages_above : pages_above_header ex_expect.
Proof.
  intros s e [<- | []]. cbn [fst]. generalize (nth 8 s 0). intros x. unfold DB_HEADER_SIZE. lia.
Qed.

Example ex_window_accepted : window_okb ex_d (map abs ex_W) true = true.
Proof. vm_compute. reflexivity. Qed.

Example ex_image_ok : image_ok Hideal ex_expect ex_ps ex_d ex_D.
Proof.
  constructor.
  - vm_compute. reflexivity.
  - intros i Hi. unfold ex_D, ex_img, ex_at. simpl iat. apply N.ltb_lt in Hi. rewrite Hi. reflexivity.
  - reflexivity.
  - vm_compute. reflexivity.
  - vm_compute. reflexivity.
  - intros e He. vm_compute in He. destruct He as [<- | []]. vm_compute. reflexivity.
  - vm_compute. reflexivity.
  - intros rq E. discriminate.
  - vm_compute. reflexivity.
Qed.

Example ex_fresh_ok : fresh_ok Hideal ex_d (map abs ex_W) true.
Proof.
  constructor.
  - intros _ _. vm_compute. reflexivity.
  - intros E. discriminate.
Qed.

(* only the god byte of the commit reached the disk *)
Example ex_crash_god : CrashOf ex_D ex_W ex_img_god.
Proof.
  split.
  - apply len_cand_skip_all.
  - intros i Hi. simpl iat. destruct (i =? GOD_BYTE_OFFSET) eqn:E.
    + apply N.eqb_eq in E. subst i. right; right. exists 0, ex_hdrW. split; [right; left; reflexivity|].
      split; vm_compute; reflexivity.
    + left. split; auto.
Qed.

Example ex_outcome_god : crash_outcome Hideal ex_expect ex_ps ex_d (map abs ex_W) ex_img_god.
Proof.
  exact (crash_window_safe Hideal ex_expect ex_ps ideal_checksum_tear_resistant ex_pages_above
           ex_d ex_W true ex_D ex_img_god ex_image_ok ex_fresh_ok ex_window_accepted ex_crash_god).
Qed.

(* the model's recovery computes the same: the old commit for the god-byte-only and the torn-slot
   crash, the new commit when everything reached the disk *)
Example ex_recover_god : recover Hideal ex_expect ex_ps ex_img_god = Some ex_P.
Proof. vm_compute. reflexivity. Qed.
Example ex_recover_torn : recover Hideal ex_expect ex_ps ex_img_torn = Some ex_P.
Proof. vm_compute. reflexivity. Qed.
Example ex_recover_all : recover Hideal ex_expect ex_ps ex_img_all = Some ex_Qnew.
Proof. vm_compute. reflexivity. Qed.

Example ex_crash_torn : CrashOf ex_D ex_W ex_img_torn.
Proof.
  split.
  - apply len_cand_skip_all.
  - intros i Hi. unfold ex_img_torn. cbn [iat].
    change (TRANSACTION_1_OFFSET + 104) with 296. destruct (i <? 296) eqn:E.
    + apply N.ltb_lt in E. right; right. exists 0, ex_hdrW. split; [right; left; reflexivity|].
      split; [|symmetry; apply hget_wbyte].
      apply covers_spec. change (wlen ex_hdrW) with 320. lia.
    + left. split; auto.
Qed.

(* the validator rejects unsafe windows: 2PC flag flipped while the slot is being written; a page of
   the served commit overwritten in place *)
Example ex_early_2pc_flip_rejected : window_okb ex_d (map abs ex_Wbad) true = false.
Proof. vm_compute. reflexivity. Qed.
Example ex_overwrite_rejected : window_okb ex_d (map abs ex_Wcow) true = false.
Proof. vm_compute. reflexivity. Qed.

(* the state behind the candidate finding of design.d/C01.md is rejected, and rightly so: the crash
   image in which only the god byte of the next 1PC commit persisted recovers to the stale slot,
   which is neither the served commit nor the commit being written *)
Example ex_stale_secondary_rejected : window_okb ex_dStale (map abs ex_Wstale) true = false.
Proof. vm_compute. reflexivity. Qed.
Example ex_stale_secondary_unsafe :
  let D := ex_img ex_hdrStale [(512, [0; 5]); (1536, [2; 6])] in
  let img := mkImage 2048 (fun i => if i =? GOD_BYTE_OFFSET then 3 else iat D i) in
  recover Hideal ex_expect ex_ps D = Some ex_P
  /\ CrashOf D ex_Wstale img
  /\ recover Hideal ex_expect ex_ps img = Some ex_Qnew
  /\ ex_Qnew <> ex_P /\ ex_Qnew <> ex_slot 1 6.
Proof.
  cbv zeta. split; [vm_compute; reflexivity|]. split.
  - split.
    + apply len_cand_skip_all.
    + intros i Hi. simpl iat. destruct (i =? GOD_BYTE_OFFSET) eqn:E.
      * apply N.eqb_eq in E. subst i. right; right.
        eexists 0, _. split; [right; left; reflexivity|]. split; vm_compute; reflexivity.
      * left. split; auto.
  - split; [vm_compute; reflexivity|]. split; vm_compute; discriminate.
Qed.
