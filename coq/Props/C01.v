(* C01 -- Commits are atomic and durable across crashes.

   What is proved here (for every durable image D, every window W of operations issued after the
   sync that made D durable, and EVERY crash image of (D, W): any subset of the pending writes,
   each torn at byte granularity, each pending set_len applied or not):

     if the executable validator accepts the window (window_okb: copy-on-write of the served
     commit's pages, header discipline, 2PC trust, lengths, clean flag, slot-selection safety)
     then opening the crash image succeeds and serves the commit D serves or the commit W wrote,
     the latter only when all its pages are in the image -- never a mixture, never another slot.

   crash_trace_safe lifts this to every instant of a recorded operation stream by induction over
   its sync windows; recovery runs are operation streams like any other (their windows are validated
   the same way), so the statement covers crashes during recovery, to any depth.

   Premises that are NOT proved but validated per run by the harness (harness/src/bin/c01.rs):
   image_ok (the summary of each durable image is truthful: header bytes, length, served slot, page
   ranges of the served commit from redb's own walker, checksum validity bits from redb's XXH3) and
   fresh_ok.vnew; that the real operation streams satisfy window_okb (S2); that the real
   Database::open agrees with `recover` on crash images (S3 crash oracle).
   Idealisations, explicit as premises: H_tear (a byte mixture of two valid slots with a valid
   checksum is one of them -- injectivity of the checksum is NOT enough, see
   checksum_injectivity_insufficient), fresh_ok.dead (a torn slot stays invalid under further partial
   overwriting), `expect` (Merkle: a slot determines the pages its verification accepts). *)
From RV Require Import Base.Bytes Gen.Consts Storage.Backend Storage.BackendP Storage.Crash Storage.CrashP
  Storage.Header Storage.HeaderP Storage.Window Storage.WindowP Storage.IdealH Storage.IdealHP
  Storage.C01Example Storage.Protocol Storage.ProtocolP.

Definition tear_resistant (H : bytes -> bytes) : Prop :=
  forall a b m, cks_ok H a = true -> cks_ok H b = true -> mix2 a b m -> cks_ok H m = true ->
                m = a \/ m = b.
Definition pages_above_header (expect : bytes -> list (N * bytes)) : Prop :=
  forall s e, In e (expect s) -> DB_HEADER_SIZE <= fst e.

Theorem crash_window_safe :
  forall (H : bytes -> bytes) (expect : bytes -> list (N * bytes)) (ps : N),
    tear_resistant H -> pages_above_header expect ->
    forall (d : dsum) (W : list op) (vnew : bool) (D img : image),
      image_ok H expect ps d D ->
      fresh_ok H d (map abs W) vnew ->
      window_okb d (map abs W) vnew = true ->
      CrashOf D W img ->
      crash_outcome H expect ps d (map abs W) img.
Proof. exact WindowP.crash_window_safe. Qed.

Theorem crash_trace_safe :
  forall (H : bytes -> bytes) (expect : bytes -> list (N * bytes)) (ps : N),
    tear_resistant H -> pages_above_header expect ->
    forall (D0 : image) (ws : list wrec),
      chain H expect ps D0 ws -> forallb wrec_okb ws = true ->
      forall pre w post k img,
        ws = pre ++ w :: post ->
        CrashOf (image_after D0 pre) (firstn k (w_ops w)) img ->
        crash_outcome H expect ps (w_sum w) (map abs (w_ops w)) img.
Proof. exact WindowP.crash_trace_safe. Qed.

(* the served commit advances only to a commit some window wrote completely *)
Theorem served_step :
  forall (H : bytes -> bytes) (expect : bytes -> list (N * bytes)) (ps : N),
    tear_resistant H -> pages_above_header expect ->
    forall (D : image) (w : wrec) (rest : list wrec),
      chain H expect ps D (w :: rest) -> wrec_okb w = true ->
      crash_outcome H expect ps (w_sum w) (map abs (w_ops w)) (apply_ops (w_ops w) D).
Proof. exact WindowP.served_step. Qed.

(* a crash after k operations of a window is a crash of the whole window *)
Theorem crash_of_prefix :
  forall D W k img, CrashOf D (firstn k W) img -> CrashOf D W img.
Proof. exact CrashP.crash_prefix. Qed.

(* no crash at all is one of the crash images *)
Theorem all_applied_is_crash : forall W D, CrashOf D W (apply_ops W D).
Proof. exact CrashP.apply_is_crash. Qed.

(* header bytes and length of the next durable image are those the validator computes *)
Theorem next_summary :
  forall d W D,
    c_shape (map abs W) = true -> c_lens d (map abs W) = true ->
    (forall i, i < DB_HEADER_SIZE -> iat D i = hget (d_hdr d) i) -> ilen D = d_len d ->
    (forall i, i < DB_HEADER_SIZE -> iat (apply_ops W D) i = hget (next_hdr d (map abs W)) i)
    /\ ilen (apply_ops W D) = next_len d (map abs W).
Proof. exact WindowP.apply_summary. Qed.

(* the premise on the checksum is satisfiable ... *)
Theorem ideal_checksum_tear_resistant : tear_resistant Hideal.
Proof. exact IdealHP.Hideal_tear. Qed.

(* ... and strictly stronger than injectivity, which DESIGN.md proposed *)
Theorem checksum_injectivity_insufficient :
  (forall x y, Hid x = Hid y -> x = y)
  /\ exists a b m, cks_ok Hid a = true /\ cks_ok Hid b = true /\ mix2 a b m /\ cks_ok Hid m = true
                   /\ m <> a /\ m <> b.
Proof. exact IdealHP.H_inj_insufficient. Qed.

(* ---------------- non-vacuity: a concrete image, window and crash images ---------------- *)

Example ex_pages_above : pages_above_header ex_expect.
Proof.
  intros s e [<- | []]. cbn [fst]. generalize (nth 8 s 0). intros x. unfold DB_HEADER_SIZE. lia.
Qed.

Example ex_window_accepted : window_okb ex_d (map abs ex_W) true = true.
Proof. vm_compute. reflexivity. Qed.

Example ex_image_ok : image_ok Hideal ex_expect ex_ps ex_d ex_D.
Proof.
  constructor.
  - vm_compute. reflexivity.
  - intros i Hi. unfold ex_D, ex_img, ex_at. simpl iat. apply N.ltb_lt in Hi. rewrite Hi. reflexivity.
  - reflexivity.
  - vm_compute. reflexivity.
  - vm_compute. reflexivity.
  - intros e He. vm_compute in He. destruct He as [<- | []]. vm_compute. reflexivity.
  - vm_compute. reflexivity.
  - intros rq E. discriminate.
  - vm_compute. reflexivity.
Qed.

Example ex_fresh_ok : fresh_ok Hideal ex_d (map abs ex_W) true.
Proof.
  constructor.
  - intros _ _. vm_compute. reflexivity.
  - intros E. discriminate.
Qed.

(* only the god byte of the commit reached the disk *)
Example ex_crash_god : CrashOf ex_D ex_W ex_img_god.
Proof.
  split.
  - apply len_cand_skip_all.
  - intros i Hi. simpl iat. destruct (i =? GOD_BYTE_OFFSET) eqn:E.
    + apply N.eqb_eq in E. subst i. right; right. exists 0, ex_hdrW. split; [right; left; reflexivity|].
      split; vm_compute; reflexivity.
    + left. split; auto.
Qed.

Example ex_outcome_god : crash_outcome Hideal ex_expect ex_ps ex_d (map abs ex_W) ex_img_god.
Proof.
  exact (crash_window_safe Hideal ex_expect ex_ps ideal_checksum_tear_resistant ex_pages_above
           ex_d ex_W true ex_D ex_img_god ex_image_ok ex_fresh_ok ex_window_accepted ex_crash_god).
Qed.

(* the model's recovery computes the same: the old commit for the god-byte-only and the torn-slot
   crash, the new commit when everything reached the disk *)
Example ex_recover_god : recover Hideal ex_expect ex_ps ex_img_god = Some ex_P.
Proof. vm_compute. reflexivity. Qed.
Example ex_recover_torn : recover Hideal ex_expect ex_ps ex_img_torn = Some ex_P.
Proof. vm_compute. reflexivity. Qed.
Example ex_recover_all : recover Hideal ex_expect ex_ps ex_img_all = Some ex_Qnew.
Proof. vm_compute. reflexivity. Qed.

Example ex_crash_torn : CrashOf ex_D ex_W ex_img_torn.
Proof.
  split.
  - apply len_cand_skip_all.
  - intros i Hi. unfold ex_img_torn. cbn [iat].
    change (TRANSACTION_1_OFFSET + 104) with 296. destruct (i <? 296) eqn:E.
    + apply N.ltb_lt in E. right; right. exists 0, ex_hdrW. split; [right; left; reflexivity|].
      split; [|symmetry; apply hget_wbyte].
      apply covers_spec. change (wlen ex_hdrW) with 320. lia.
    + left. split; auto.
Qed.

(* the validator rejects unsafe windows: 2PC flag flipped while the slot is being written; a page of
   the served commit overwritten in place *)
Example ex_early_2pc_flip_rejected : window_okb ex_d (map abs ex_Wbad) true = false.
Proof. vm_compute. reflexivity. Qed.
Example ex_overwrite_rejected : window_okb ex_d (map abs ex_Wcow) true = false.
Proof. vm_compute. reflexivity. Qed.

(* the state behind the candidate finding of design.d/C01.md is rejected, and rightly so: the crash
   image in which only the god byte of the next 1PC commit persisted recovers to the stale slot,
   which is neither the served commit nor the commit being written *)
Example ex_stale_secondary_rejected : window_okb ex_dStale (map abs ex_Wstale) true = false.
Proof. vm_compute. reflexivity. Qed.
Example ex_stale_secondary_unsafe :
  let D := ex_img ex_hdrStale [(512, [0; 5]); (1536, [2; 6])] in
  let img := mkImage 2048 (fun i => if i =? GOD_BYTE_OFFSET then 3 else iat D i) in
  recover Hideal ex_expect ex_ps D = Some ex_P
  /\ CrashOf D ex_Wstale img
  /\ recover Hideal ex_expect ex_ps img = Some ex_Qnew
  /\ ex_Qnew <> ex_P /\ ex_Qnew <> ex_slot 1 6.
Proof.
  cbv zeta. split; [vm_compute; reflexivity|]. split.
  - split.
    + apply len_cand_skip_all.
    + intros i Hi. simpl iat. destruct (i =? GOD_BYTE_OFFSET) eqn:E.
      * apply N.eqb_eq in E. subst i. right; right.
        eexists 0, _. split; [right; left; reflexivity|]. split; vm_compute; reflexivity.
      * left. split; auto.
  - split; [vm_compute; reflexivity|]. split; vm_compute; discriminate.
Qed.

(* ================================================================================================
   The commit / close / open PROTOCOL (Storage/Protocol.v): for EVERY history of protocol steps --
   buffered pages written early by eviction, file growth (set_len + sync before any header names the new
   length), one-phase and two-phase (incl. quick-repair) durable commits with or without a shrinking
   set_len after the final sync, non-durable commits in between, clean close (quick-repair commit, trim,
   clean flag) and reopen -- every sync window the model emits is accepted by window_okb w.r.t. the summary
   the model computes for the durable image at the window's start, the summaries are truthful (image_ok),
   and therefore (instantiating crash_trace_safe) every crash image at every instant recovers to the last
   durable commit or to the commit in flight.
   Oracle inputs and their side conditions: step_okb (copy-on-write of the transaction's page writes w.r.t.
   the durable commit = C06; lengths that map onto region layouts = C20/C14; increasing transaction ids) and
   steps_sem (the new slot's checksum is valid and, once the first flush of a commit is on disk, the new
   commit verifies within the stated ranges = C10 + the cache's flush contract).
   That the REAL crate issues exactly the streams this model emits is validated per run (S2 iii).
   ================================================================================================ *)

Theorem protocol_windows_ok :
  forall (st : pst) (ss : list pstep),
    inv_b st = true -> steps_okb st ss = true ->
    forallb wrec_okb (all_windows (run_steps st ss)) = true
    /\ inv_b (a_st (run_steps st ss)) = true.
Proof. exact ProtocolP.protocol_windows_ok_b. Qed.

(* one step: the windows it completes are accepted and the invariant is kept *)
Theorem protocol_step_ok :
  forall (st : pst) (s : pstep),
    Inv st -> step_okb st s = true ->
    forallb wrec_okb (a_ws (run_step st s)) = true /\ Inv (a_st (run_step st s)).
Proof. exact ProtocolP.step_ok. Qed.

Theorem protocol_invariant_executable : forall st, inv_b st = true <-> Inv st.
Proof. exact ProtocolP.inv_b_Inv. Qed.

(* the summaries the protocol computes are truthful along every history *)
Theorem protocol_images_ok :
  forall (H : bytes -> bytes) (expect : bytes -> list (N * bytes)) (ps : N),
    tear_resistant H -> pages_above_header expect ->
    forall (st : pst) (ss : list pstep) (D : image),
      Inv st -> Sem H expect ps st D -> steps_okb st ss = true -> steps_sem H expect st D ss ->
      chain H expect ps D (all_windows (run_steps st ss)).
Proof. exact ProtocolP.protocol_chain. Qed.

Theorem protocol_crash_safe :
  forall (H : bytes -> bytes) (expect : bytes -> list (N * bytes)) (ps : N),
    tear_resistant H -> pages_above_header expect ->
    forall (st : pst) (ss : list pstep) (D : image),
      Inv st -> Sem H expect ps st D -> steps_okb st ss = true -> steps_sem H expect st D ss ->
      forall pre w post k img,
        all_windows (run_steps st ss) = pre ++ w :: post ->
        CrashOf (image_after D pre) (firstn k (w_ops w)) img ->
        crash_outcome H expect ps (w_sum w) (map abs (w_ops w)) img.
Proof. exact ProtocolP.protocol_crash_safe. Qed.

(* ---------------- non-vacuity ---------------- *)

Example px_inv : inv_b px_st0 = true.
Proof. vm_compute. reflexivity. Qed.
Example px_steps_ok : steps_okb px_st0 px_steps = true.
Proof. vm_compute. reflexivity. Qed.
(* 14 windows, all accepted (computed, independently of the theorem), consecutive summaries consistent *)
Example px_windows :
  length (all_windows (run_steps px_st0 px_steps)) = 14%nat
  /\ forallb wrec_okb (all_windows (run_steps px_st0 px_steps)) = true
  /\ links_okb (all_windows (run_steps px_st0 px_steps)) = true
  /\ inv_b (a_st (run_steps px_st0 px_steps)) = true.
Proof. vm_compute. auto. Qed.
Example px_windows_by_theorem : forallb wrec_okb (all_windows (run_steps px_st0 px_steps)) = true.
Proof. exact (proj1 (protocol_windows_ok px_st0 px_steps px_inv px_steps_ok)). Qed.

Example px_sem0 : Sem Hideal ex_expect ex_ps px_st0 ex_D.
Proof. constructor; [exact ex_image_ok | intros E; discriminate]. Qed.
Example px_steps2_ok : steps_okb px_st0 px_steps2 = true.
Proof. vm_compute. reflexivity. Qed.
Example px_steps2_sem : steps_sem Hideal ex_expect px_st0 ex_D px_steps2.
Proof.
  repeat split; try (vm_compute; reflexivity);
    intros e He; vm_compute in He; destruct He as [<- | []]; vm_compute; reflexivity.
Qed.
(* a crash right after the first flush of the 2PC commit was issued but before it completed, with only the
   header write of that flush on disk: an instance of protocol_crash_safe *)
Example px_crash :
  let ws := all_windows (run_steps px_st0 px_steps2) in
  let D1 := image_after ex_D (firstn 1 ws) in
  let w := nth 1 ws (open_window px_st0) in
  forall img, CrashOf D1 (firstn 2 (w_ops w)) img ->
  crash_outcome Hideal ex_expect ex_ps (w_sum w) (map abs (w_ops w)) img.
Proof.
  cbv zeta. intros img HC.
  refine (protocol_crash_safe Hideal ex_expect ex_ps ideal_checksum_tear_resistant ex_pages_above
            px_st0 px_steps2 ex_D (proj1 (protocol_invariant_executable _) px_inv) px_sem0 px_steps2_ok px_steps2_sem
            (firstn 1 (all_windows (run_steps px_st0 px_steps2))) _ (skipn 2 (all_windows (run_steps px_st0 px_steps2))) 2 img _ HC).
  vm_compute. reflexivity.
Qed.

(* ---------------- the check catches protocol reorderings ---------------- *)

(* two-phase commit with the intermediate sync_data removed (the header writes coalesce): the single window
   carries a 2PC-flagged god byte that names a slot whose pages are not durable yet -- rejected; the real
   protocol from the same state with the same inputs is accepted *)
Example nx_2pc_without_mid_sync_rejected :
  forallb wrec_okb (a_ws (run_commit_no_mid_sync (a_start px_st0) (ex_slot 2 6) [(1536, 2)] [(1536, [2; 6])])) = false
  /\ forallb wrec_okb (a_ws (run_step px_st0 (PCommit true (ex_slot 2 6) [(1536, 2)] [(1536, [2; 6])] None))) = true.
Proof. vm_compute. auto. Qed.

(* the shrinking set_len issued before the final sync_data: a crash can persist the truncation without the
   header, cutting off pages of the commit that is still the durable one -- rejected; issued after the sync,
   accepted *)
Example nx_shrink_before_final_sync_rejected :
  forallb wrec_okb (a_ws (run_commit_early_shrink (a_start px_stS) (ex_slot 0 6) [(512, 2)] [(512, [0; 6])] 1536 (px_lay 0 2))) = false
  /\ inv_b px_stS = true
  /\ step_okb px_stS (PCommit false (ex_slot 0 6) [(512, 2)] [(512, [0; 6])] (Some (1536, px_lay 0 2))) = true
  /\ forallb wrec_okb (all_windows (run_step px_stS (PCommit false (ex_slot 0 6) [(512, 2)] [(512, [0; 6])] (Some (1536, px_lay 0 2))))) = true.
Proof. vm_compute. auto. Qed.

(* ================================================================================================
   Recovery (DESIGN's recovery_idempotent_under_crash): the writes the model of TransactionalMemory::new +
   Database::new issues on ANY truthful summary of a recoverable image -- header repair (layout recomputed
   from the file length, primary chosen by select_primary_slot, a rolled back commit erased from the secondary
   under a trusted 2PC primary), then either the quick path (begin_writable) or the full repair
   (clear_recovery_required, the two flushes of the repair commit, begin_writable) -- form windows that
   window_okb accepts, whichever of the two slots recovery ends up serving and whatever the other slot holds
   (torn, stale and newer, older, a copy); and the run ends in a state of the protocol invariant, so the
   history theorems above apply to what follows.  A crash image of any of these windows is therefore again
   an input of crash_window_safe (given a truthful summary of the window's start).
   ================================================================================================ *)

Theorem recovery_windows_ok :
  forall (H : bytes -> bytes) (expect : bytes -> list (N * bytes)) (ps : N) (d : dsum) (D : image)
         (o : roracle) (a : acc),
    image_ok H expect ps d D -> rec_side_okb d o = true -> recovery_run d o = Some a ->
    forallb wrec_okb (a_ws a) = true /\ Inv (a_st a) /\ p_open (a_st a) = true.
Proof. exact ProtocolP.recovery_windows_ok_sem. Qed.

(* the same from the executable side conditions alone *)
Theorem recovery_windows_ok_exec :
  forall (d : dsum) (o : roracle),
    rec_okb d o = true -> forall a : acc, recovery_run d o = Some a ->
    forallb wrec_okb (a_ws a) = true /\ Inv (a_st a) /\ p_open (a_st a) = true.
Proof. exact ProtocolP.recovery_ok. Qed.

(* the part of the side conditions a truthful summary has by itself *)
Theorem image_ok_gives_header_conditions :
  forall (H : bytes -> bytes) (expect : bytes -> list (N * bytes)) (ps : N) (d : dsum) (D : image),
    image_ok H expect ps d D ->
    (dP d = dQ d -> d_p d = flag (dgod d) PRIMARY_BIT) ->
    rec_hdr_okb d = true.
Proof. exact ProtocolP.image_ok_rec_hdr. Qed.

(* full repair from the god-byte-only crash image of C01Example: 5 windows (header repair, clear flag, two
   flushes of the repair commit, begin_writable), all accepted; the final state has the invariant *)
Example rx_full :
  rec_okb rx_d_god rx_o_full = true
  /\ match recovery_run rx_d_god rx_o_full with
     | Some a => length (a_ws a) = 5%nat /\ forallb wrec_okb (a_ws a) = true /\ links_okb (a_ws a) = true
                 /\ inv_b (a_st a) = true
     | None => False
     end.
Proof. vm_compute. auto. Qed.
Example rx_full_image_ok : image_ok Hideal ex_expect ex_ps rx_d_god ex_img_god.
Proof.
  constructor.
  - vm_compute. reflexivity.
  - intros i Hi. unfold ex_img_god. cbn [iat]. destruct (i =? GOD_BYTE_OFFSET) eqn:E.
    + apply N.eqb_eq in E. subst i. vm_compute. reflexivity.
    + unfold ex_D, ex_img, ex_at. cbn [iat]. apply N.ltb_lt in Hi. rewrite Hi.
      unfold rx_hdr_god, ex_hdrD, ex_hdr, hget.
      assert (Hn : N.to_nat i <> 9%nat) by (apply N.eqb_neq in E; unfold GOD_BYTE_OFFSET in E; lia).
      remember (N.to_nat i) as n.
      do 9 (destruct n as [|n]; [reflexivity|]). destruct n as [|n]; [contradiction|]. reflexivity.
  - reflexivity.
  - vm_compute. reflexivity.
  - vm_compute. reflexivity.
  - intros e He. vm_compute in He. destruct He as [<- | []]. vm_compute. reflexivity.
  - vm_compute. reflexivity.
  - intros rq E. discriminate.
  - vm_compute. reflexivity.
Qed.
Example rx_full_by_theorem :
  forall a, recovery_run rx_d_god rx_o_full = Some a -> forallb wrec_okb (a_ws a) = true.
Proof.
  intros a E. refine (proj1 (recovery_windows_ok Hideal ex_expect ex_ps rx_d_god ex_img_god rx_o_full a rx_full_image_ok _ E)).
  vm_compute. reflexivity.
Qed.
(* quick path under a trusted 2PC primary with a stale newer secondary: the header repair erases the rolled
   back commit (slot 1 becomes a copy of slot 0), then begin_writable: 2 windows, accepted *)
Example rx_quick :
  rec_okb rx_d_2pc rx_o_quick = true
  /\ match recovery_run rx_d_2pc rx_o_quick with
     | Some a => length (a_ws a) = 2%nat /\ forallb wrec_okb (a_ws a) = true
                 /\ bytes_eqb (dQ (p_d (a_st a))) ex_P = true /\ inv_b (a_st a) = true
     | None => False
     end.
Proof. vm_compute. auto. Qed.

(* ================================================================================================
   The summaries of a recovery run are truthful as well: from a truthful summary of the crash image (and
   the premise that its slot Q, if torn, stays invalid under partial overwriting) every window of the run
   starts from an image_ok pair, so a crash DURING recovery -- at any instant, with any tearing -- is again
   covered by crash_trace_safe, and so is everything the recovered database does afterwards (recovery ends
   in a protocol state with a truthful summary). repair_sem: the repair commit's slot has a valid checksum
   and names the trees of the served commit.
   ================================================================================================ *)

Theorem recovery_images_ok :
  forall (H : bytes -> bytes) (expect : bytes -> list (N * bytes)) (ps : N),
    tear_resistant H -> pages_above_header expect ->
    forall (d : dsum) (D : image) (o : roracle) (a : acc),
      image_ok H expect ps d D -> dead H d -> rec_side_okb d o = true -> repair_sem H expect d o ->
      recovery_run d o = Some a ->
      chain H expect ps D (a_ws a) /\ Sem H expect ps (a_st a) (image_after D (a_ws a)).
Proof. exact ProtocolP.recovery_chain. Qed.

Theorem recovery_crash_safe :
  forall (H : bytes -> bytes) (expect : bytes -> list (N * bytes)) (ps : N),
    tear_resistant H -> pages_above_header expect ->
    forall (d : dsum) (D : image) (o : roracle) (a : acc),
      image_ok H expect ps d D -> dead H d -> rec_side_okb d o = true -> repair_sem H expect d o ->
      recovery_run d o = Some a ->
      forall pre w post k img,
        a_ws a = pre ++ w :: post ->
        CrashOf (image_after D pre) (firstn k (w_ops w)) img ->
        crash_outcome H expect ps (w_sum w) (map abs (w_ops w)) img.
Proof. exact ProtocolP.recovery_crash_safe. Qed.

Theorem recovery_then_protocol_crash_safe :
  forall (H : bytes -> bytes) (expect : bytes -> list (N * bytes)) (ps : N),
    tear_resistant H -> pages_above_header expect ->
    forall (d : dsum) (D : image) (o : roracle) (a : acc) (ss : list pstep),
      image_ok H expect ps d D -> dead H d -> rec_side_okb d o = true -> repair_sem H expect d o ->
      recovery_run d o = Some a ->
      steps_okb (a_st a) ss = true -> steps_sem H expect (a_st a) (image_after D (a_ws a)) ss ->
      forall pre w post k img,
        a_ws a ++ all_windows (run_steps (a_st a) ss) = pre ++ w :: post ->
        CrashOf (image_after D pre) (firstn k (w_ops w)) img ->
        crash_outcome H expect ps (w_sum w) (map abs (w_ops w)) img.
Proof. exact ProtocolP.recovery_then_protocol_crash_safe. Qed.

(* non-vacuity: the god-byte-only crash image, full repair, under ex_expect2 *)
Example rx_pages_above2 : pages_above_header ex_expect2.
Proof.
  intros s e [<- | []]. cbn [fst]. generalize (nth 8 s 0). intros x. unfold DB_HEADER_SIZE. lia.
Qed.
Example rx_image_ok2 : image_ok Hideal ex_expect2 ex_ps rx_d_god ex_img_god.
Proof.
  destruct rx_full_image_ok as [A1 A2 A3 A4 A5 A6 A7 A8 A9]. constructor.
  - exact A1.
  - exact A2.
  - exact A3.
  - exact A4.
  - vm_compute. reflexivity.
  - intros e He. vm_compute in He. destruct He as [<- | []]. vm_compute. reflexivity.
  - exact A7.
  - intros rq E. discriminate.
  - vm_compute. reflexivity.
Qed.
Example rx_repair_sem : repair_sem Hideal ex_expect2 rx_d_god rx_o_full.
Proof.
  split; [vm_compute; reflexivity|]. split.
  - intros img Hv. exact Hv.
  - intros e He. vm_compute in He. destruct He as [<- | []]. vm_compute. reflexivity.
Qed.
Example rx_chain :
  forall a, recovery_run rx_d_god rx_o_full = Some a ->
  chain Hideal ex_expect2 ex_ps ex_img_god (a_ws a)
  /\ Sem Hideal ex_expect2 ex_ps (a_st a) (image_after ex_img_god (a_ws a)).
Proof.
  intros a E.
  refine (recovery_images_ok Hideal ex_expect2 ex_ps ideal_checksum_tear_resistant rx_pages_above2
            rx_d_god ex_img_god rx_o_full a rx_image_ok2 _ _ rx_repair_sem E).
  - intros X. discriminate X.
  - vm_compute. reflexivity.
Qed.

(* ------------------------------------------------------------------------------------------------
   Tie to the code, wave 2 (Gen/Fns.v is regenerated from header.rs on every run by tools/gen_fns.py; see
   design.d/GEN.md): the header model of this property -- field reads, geometry / region-count validation, the
   layout arithmetic of finalize, the slot readers and the slot selection of recovery -- is equal to the
   functions translated from UnrepairedDatabaseHeader::from_bytes / layout_from_file_len / select_primary_slot,
   DatabaseHeader::layout and TransactionHeader::from_bytes. *)
From RV Require Import Gen.FnsLib Gen.FnsLibB Gen.Fns Gen.FnsHeaderP.

Theorem c01_code_header_reads_are_model : forall b : bytes, (DB_HEADER_SIZE <= slen b)%N ->
  page_size_of (hget b) = header_page_size b
  /\ rhp_of (hget b) = header_region_header_pages b
  /\ rmp_of (hget b) = header_region_max_data_pages b
  /\ full_regions_of (hget b) = header_full_regions b
  /\ trailing_of (hget b) = header_trailing_data_pages b
  /\ flag (god (hget b)) PRIMARY_BIT = negb (header_primary_slot b =? 0)%N
  /\ flag (god (hget b)) RECOVERY_REQUIRED = header_recovery_required b
  /\ flag (god (hget b)) TWO_PHASE_COMMIT = header_two_phase_commit b
  /\ slot_at (hget b) false = header_slot0_bytes b
  /\ slot_at (hget b) true = header_slot1_bytes b.
Proof. exact header_reads_are_model. Qed.

Theorem c01_code_geometry_checks_is_model : forall ps g,
  geom_ok ps g = isSome (header_geometry_checks (page_size_of g) ps (rmp_of g) (rhp_of g)).
Proof. exact geometry_checks_is_model. Qed.

Theorem c01_code_stored_counts_checks_is_model : forall g,
  stored_sane g = isSome (header_stored_counts_checks (trailing_of g) (rmp_of g) (full_regions_of g)).
Proof. exact stored_counts_checks_is_model. Qed.

Theorem c01_code_layout_from_file_len_is_model : forall ps rhp rmp len, (0 < (rhp + rmp) * ps)%N ->
  len_valid ps rhp rmp len = isSome (UnrepairedDatabaseHeader_layout_from_file_len ps rhp rmp len).
Proof. exact len_valid_is_model. Qed.

Theorem c01_code_header_layout_len_is_model : forall g, stored_sane g = true ->
  stored_len g = DatabaseLayout_len (DatabaseHeader_layout (rmp_of g) (rhp_of g) (page_size_of g)
                                       (trailing_of g) (full_regions_of g))
  /\ DatabaseLayout_len_guard (DatabaseHeader_layout (rmp_of g) (rhp_of g) (page_size_of g)
                                 (trailing_of g) (full_regions_of g)) = true.
Proof. exact stored_len_is_model. Qed.

Theorem c01_code_slot_version_is_model : forall s, Header.slot_version s = Fns.slot_version s.
Proof. exact slot_version_is_model. Qed.

Theorem c01_code_slot_transaction_id_is_model : forall s, Header.slot_txid s = Fns.slot_transaction_id s.
Proof. exact slot_txid_is_model. Qed.

Theorem c01_code_slot_checksum_split_is_model : forall s : bytes, slen s = TRANSACTION_SIZE ->
  firstn CKS_OFF s = slot_checksummed_bytes s /\ le_decode (skipn CKS_OFF s) = slot_stored_checksum s.
Proof. exact slot_checksum_split_is_model. Qed.

Theorem c01_code_select_primary_slot_is_model : forall (H : bytes -> bytes) gb s0 s1 verf,
  let prim := if flag gb PRIMARY_BIT then s1 else s0 in
  let sec := if flag gb PRIMARY_BIT then s0 else s1 in
  select H gb s0 s1 verf =
  match UnrepairedDatabaseHeader_select_primary_slot (flag gb TWO_PHASE_COMMIT) (negb (cks_ok H prim))
          (negb (cks_ok H sec)) (slot_txid prim) (slot_txid sec) with
  | None => None
  | Some true => if flag gb TWO_PHASE_COMMIT then (if verf prim then Some prim else None) else try2 verf prim sec
  | Some false => try2 verf sec prim
  end.
Proof. exact select_primary_slot_is_model. Qed.
