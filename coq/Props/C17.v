(* C17 -- The table catalog is consistent and type-safe.
   Statements only; every proof is `exact <lemma>`.  Model: coq/Catalog/Model.v (master tree, pending_table_updates,
   open_tables + live handle roots, check_match, rename/delete/list, commit/abort, read side);
   specification: coq/Catalog/Spec.v (one map name |-> definition+contents, updated in place, committed atomically). *)
From RV Require Import Base.Bytes Gen.Consts Multimap.Spec Catalog.Model Catalog.Spec Catalog.SpecP.
Open Scope N_scope.

(* For every sequence of open / handle drop (in any order) / write through a handle / read through a handle /
   rename / delete / list / commit / abort / read-transaction open (typed, untyped) / read-transaction list, on
   any names, kinds and requested types: every result of the model equals the result of the atomic-map
   specification, and the final model state (stored definitions overlaid with staged roots and live handle
   roots) is the specification's map; open set and committed catalog agree too. *)
Theorem catalog_refines : forall ops : list cop,
  Catalog.Spec.spec_run ops sp_init = (Catalog.Spec.abs_state (fst (Catalog.Model.model_run ops c_init)), snd (Catalog.Model.model_run ops c_init)).
Proof. exact catalog_refines_thm. Qed.

(* Invariant of every reachable model state: master / pending / opened / committed sorted by name (no duplicate
   names), every staged update and every open name has a stored definition, and no staged update exists for an
   open table ("Never contains an entry for an open table", table_tree.rs). *)
Theorem catalog_inv : forall ops : list cop, cinv (fst (Catalog.Model.model_run ops c_init)).
Proof. exact catalog_inv_thm. Qed.

(* Opening: success means the stored definition (if any) has the requested kind, key and value type names equal to
   the requested ones up to the documented legacy spelling, equal fixed widths and alignment 1 -- or the table did
   not exist and is created with exactly the requested definition; failure leaves the state untouched and is either
   TableAlreadyOpen or the error check_match computes for the stored definition. *)
Theorem open_type_safe : forall nm k K V s,
  let r := Catalog.Model.model_step (COpen nm k K V) s in
  (snd r = ROk ->
     is_open s nm = false /\
     match am_find ncmp nm (master s) with
     | Some d => def_matches d k K V /\ master (fst r) = master s
     | None => master (fst r) = am_put ncmp nm (new_def k K V) (master s)
     end /\
     is_open (fst r) nm = true) /\
  (snd r <> ROk ->
     fst r = s /\
     ((is_open s nm = true /\ snd r = RErr (EAlreadyOpen nm)) \/
      (is_open s nm = false /\ exists d e, am_find ncmp nm (master s) = Some d /\
                                            check_typed d k nm K V = Some e /\ snd r = RErr e))).
Proof. exact open_type_safe_thm. Qed.

(* what the error is: kind is checked before anything else ... *)
Theorem open_error_kind_first : forall d k nm K V, d_kind d <> k ->
  check_typed d k nm K V = Some (match d_kind d with Multimap => EIsMultimap nm | Normal => EIsNotMultimap nm end).
Proof. exact check_typed_kind. Qed.

(* ... then alignment, then the type names (reporting the STORED names) ... *)
Theorem open_error_type_mismatch : forall d k nm K V,
  d_kind d = k -> d_kalign d = ALIGNMENT -> d_valign d = ALIGNMENT ->
  ~ (type_ok K (d_ktype d) /\ type_ok V (d_vtype d)) ->
  check_typed d k nm K V = Some (ETypeMismatch nm (d_ktype d) (d_vtype d)).
Proof. exact check_typed_names. Qed.

(* ... and no error at all exactly when everything matches *)
Theorem open_no_error_iff : forall d k nm K V, check_typed d k nm K V = None <-> def_matches d k K V.
Proof. exact check_typed_none. Qed.

(* A table can be open at most once per transaction: while nm is open and its handle has not been dropped,
   every further open of nm -- with any kind and types -- fails with TableAlreadyOpen and changes nothing. *)
Theorem open_once : forall nm ops s,
  cinv s -> is_open s nm = true -> ~ In (CClose nm) ops ->
  forall k K V, Catalog.Model.model_step (COpen nm k K V) (fst (Catalog.Model.model_run ops s)) =
                (fst (Catalog.Model.model_run ops s), RErr (EAlreadyOpen nm)).
Proof. exact open_once_thm. Qed.

(* The committed catalog (what read transactions see) changes only at commit; abort restores it. *)
Theorem committed_only_at_commit : forall o s, o <> CCommit -> committed (fst (Catalog.Model.model_step o s)) = committed s.
Proof. exact committed_only_at_commit_thm. Qed.

Theorem abort_restores : forall s, opened s = [] ->
  Catalog.Spec.abs_state (fst (Catalog.Model.model_step CAbort s)) = {| sp_cur := committed s; sp_open := []; sp_committed := committed s |}.
Proof. exact abort_restores_thm. Qed.

(* ---- non-vacuity *)
Definition tn (c : N) (s : bytes) : tname := {| tn_class := c; tn_name := s |}.
Definition ty_u64 : rtype := {| rt_name := tn 1 [117;54;52]; rt_legacy := None; rt_width := Some 8 |}.
Definition ty_bytes : rtype := {| rt_name := tn 1 [38;91;117;56;93]; rt_legacy := None; rt_width := None |}.
(* Option<u32> as 4.2 names it (Internal3, legacy Internal) and a stored pre-4.2 spelling of it *)
Definition ty_opt_u32 : rtype := {| rt_name := tn 4 [79;112;116]; rt_legacy := Some 1; rt_width := None |}.
(* a user type that calls itself "u64" *)
Definition ty_fake_u64 : rtype := {| rt_name := tn 2 [117;54;52]; rt_legacy := None; rt_width := Some 8 |}.
Definition ty_opt_u32_legacy : rtype := {| rt_name := tn 1 [79;112;116]; rt_legacy := None; rt_width := None |}.

Definition ex_ops : list cop :=
  [COpen [97] Normal ty_u64 ty_bytes; CPut [97] [1] [2]; COpen [97] Normal ty_u64 ty_bytes; CClose [97];
   CRename Normal [97] [98]; COpen [98] Normal ty_u64 ty_bytes; CPut [98] [3] [4]; CRead [98]; CClose [98];
   COpen [98] Multimap ty_u64 ty_bytes; COpen [98] Normal ty_fake_u64 ty_bytes; COpen [98] Normal ty_u64 ty_u64;
   CList Normal; CROpen [98] Normal ty_u64 ty_bytes; CCommit; CROpen [98] Normal ty_u64 ty_bytes;
   CDelete Normal [98]; CList Normal; CAbort; CList Normal;
   COpen [99] Normal ty_opt_u32_legacy ty_bytes; CClose [99]; COpen [99] Normal ty_opt_u32 ty_bytes].

Example c17_nonvacuous_run :
  snd (Catalog.Model.model_run ex_ops c_init) =
    [ROk; ROk; RErr (EAlreadyOpen [97]); ROk;
     ROk; ROk; ROk; RContents [([1],[2]); ([3],[4])] 2; ROk;
     RErr (EIsNotMultimap [98]); RErr (ETypeMismatch [98] (tn 1 [117;54;52]) (tn 1 [38;91;117;56;93]));
     RErr (ETypeMismatch [98] (tn 1 [117;54;52]) (tn 1 [38;91;117;56;93]));
     RNames [[98]]; RErr (EDoesNotExist [98]); ROk; RContents [([1],[2]); ([3],[4])] 2;
     RBool true; RNames []; ROk; RNames [[98]];
     ROk; ROk; ROk] /\
  snd (Catalog.Spec.spec_run ex_ops sp_init) = snd (Catalog.Model.model_run ex_ops c_init).
Proof. vm_compute. split; reflexivity. Qed.

Example c17_nonvacuous_open_once :
  let s := fst (Catalog.Model.model_run (firstn 2 ex_ops) c_init) in
  cinv s /\ is_open s [97] = true /\ ~ In (CClose [97]) [CPut [97] [5] [6]; CList Normal].
Proof.
  split; [exact (catalog_inv (firstn 2 ex_ops))|]. split; [vm_compute; reflexivity|].
  intros [H|[H|[]]]; discriminate.
Qed.
