(* C10 -- Every committed image is a well-formed, checksummed forest.
   Property file: statements only; proofs are in Format/WFP.v and Format/CodecP.v. *)
From Coq Require Import String.
From RV Require Import Base.Bytes Gen.Consts Format.Xxh3 Format.Codec Format.Pages Format.Records
  Format.KeyCmp Format.Decode Format.DecodeP Format.ChunkP Format.WF Format.WFP Format.CodecP Format.Example.
Open Scope N_scope.

(* ---- the executable checker that is run on every image is sound for the specification *)
Theorem wf_dbb_sound : forall d, wf_dbb d = true -> wf_db d.
Proof. exact WFP.wf_dbb_sound. Qed.

Theorem wf_imageb_sound : forall bs, wf_imageb bs = true -> wf_image bs.
Proof. exact WFP.wf_imageb_sound. Qed.

(* ---- well-formed => the reachable pages' byte ranges are pairwise disjoint, behind the super-header, inside the file *)
Theorem reach_disjoint : forall d,
  wf_db d ->
  Forall (fun p => g_psz (di_geom d) <= page_start (di_geom d) p /\ page_end (di_geom d) p <= di_file_len d) (reach d)
  /\ ForallOrdPairs (ranges_disjoint (di_geom d)) (reach d).
Proof. exact WFP.reach_disjoint. Qed.

(* ---- the tree walk is faithful to the bytes: each decoded node is the decoding of the page at its
   page number, its `sum` is XXH3-128 of exactly the covered prefix of that page, a branch's children
   are the pages its child array names and the stored child checksums are kept verbatim -- so the
   clause `fst c = tree_sum (snd c)` of wf_tree means "checksum stored in the parent = hash of the
   child's covered bytes" *)
Theorem dtree_faithful : forall fuel s ks vs p b t b',
  dtree fuel s ks vs p b = Ok (t, b') -> node_ok s ks vs t /\ tree_pn t = p.
Proof. exact DecodeP.dtree_faithful. Qed.

(* ---- and a fetched page is exactly the bytes of the file in [page_start, page_end) *)
Theorem fetch_spec : forall bs g p page,
  0 < g_psz g ->
  fetch (store_of bs g) p = Ok page ->
  page = takeN (dropN bs (page_start g p)) (page_len g p) /\ page_end g p <= lenN bs.
Proof. exact ChunkP.fetch_spec. Qed.

(* ---- codec round trips: the decoders invert the layouts the writer produces *)
Theorem codec_roundtrip_pagenum : forall p, pn_valid p = true -> decode_pagenum (encode_pagenum p) = Some p.
Proof. exact CodecP.codec_roundtrip_pagenum. Qed.

Theorem codec_roundtrip_bhdr : forall h, bhdr_ok h -> decode_bhdr (encode_bhdr h) = Some h.
Proof. exact CodecP.codec_roundtrip_bhdr. Qed.

Theorem codec_roundtrip_slot : forall s, slot_ok s -> decode_slot (encode_slot s) = Some s.
Proof. exact CodecP.codec_roundtrip_slot. Qed.

Theorem codec_roundtrip_header : forall h, header_ok h -> decode_header (encode_header h) = Ok h.
Proof. exact CodecP.codec_roundtrip_header. Qed.

(* a leaf page = encoded entries followed by anything (the unused rest of the page) *)
Theorem codec_roundtrip_leaf : forall ks vs es pad,
  es <> [] -> lenN es < 2 ^ 16 ->
  width_fits ks (map fst es) -> width_fits vs (map snd es) ->
  lenN (encode_leaf ks vs es) < 2 ^ 32 ->
  decode_leaf ks vs (encode_leaf ks vs es ++ pad)
  = Ok {| lf_entries := es; lf_end := lenN (encode_leaf ks vs es) |}.
Proof. exact CodecP.codec_roundtrip_leaf. Qed.

Theorem codec_roundtrip_branch : forall ks children keys pad,
  keys <> [] -> lenN keys < 2 ^ 16 -> length children = S (length keys) ->
  Forall (fun c => fst c < 2 ^ 128 /\ pn_valid (snd c) = true) children ->
  width_fits ks keys ->
  lenN (encode_branch ks children keys) < 2 ^ 32 ->
  decode_branch ks (encode_branch ks children keys ++ pad)
  = Ok {| br_children := children; br_keys := keys; br_end := lenN (encode_branch ks children keys) |}.
Proof. exact CodecP.codec_roundtrip_branch. Qed.

Theorem codec_roundtrip_tabledef : forall t, tabledef_ok t -> decode_tabledef (encode_tabledef t) = Ok t.
Proof. exact CodecP.codec_roundtrip_tabledef. Qed.

Theorem codec_roundtrip_page_list : forall l,
  Forall (fun p => pn_valid p = true) l -> lenN l < 2 ^ 16 -> decode_page_list (encode_page_list l) = Ok l.
Proof. exact CodecP.codec_roundtrip_page_list. Qed.

Theorem codec_roundtrip_savepoint : forall s, savepoint_ok s -> decode_savepoint (encode_savepoint s) = Ok s.
Proof. exact CodecP.codec_roundtrip_savepoint. Qed.

Theorem codec_roundtrip_collection : forall c,
  match c with CollInline _ => True | CollSubtree h => bhdr_ok h end ->
  decode_collection (encode_collection c) = Ok c.
Proof. exact CodecP.codec_roundtrip_collection. Qed.

Theorem codec_roundtrip_txn_page_key : forall k,
  fst k < 2 ^ 64 -> snd k < 2 ^ 64 -> decode_txn_page_key (encode_txn_page_key k) = Some k.
Proof. exact CodecP.codec_roundtrip_txn_page_key. Qed.

Theorem codec_roundtrip_alloc_key : forall k,
  match k with AKRegion r => r < 2 ^ 32 | _ => True end -> decode_alloc_key (encode_alloc_key k) = Some k.
Proof. exact CodecP.codec_roundtrip_alloc_key. Qed.

(* ---- non-vacuity: an image assembled with the model's encoders (header, two slots, catalog leaf, a
   table whose tree is a branch over two leaves) is accepted, hence well-formed; it decodes to the
   intended four entries; flipping one byte inside a leaf makes the checker reject it *)
Example ex_accepted : wf_imageb ex_image = true.
Proof. vm_compute. reflexivity. Qed.

Example ex_wf : wf_image ex_image.
Proof. apply WFP.wf_imageb_sound. vm_compute. reflexivity. Qed.

Example ex_decodes :
  ex_contents = Ok [(ascii_bytes "t"%string,
                     [(k8 1, [k8 10]); (k8 2, [k8 20]); (k8 3, [k8 30]); (k8 7, [k8 70])])].
Proof. vm_compute. reflexivity. Qed.

Example ex_damage_rejected : wf_imageb (set_byte ex_image 1541 99) = false.
Proof. vm_compute. reflexivity. Qed.

Example ex_reach_disjoint :
  match decode_db ex_image SlotPrimary with
  | Ok d => length (reach d) = 4%nat /\ wf_dbb d = true
  | Err _ _ => False
  end.
Proof. vm_compute. split; reflexivity. Qed.

(* ------------------------------------------------------------------------------------------------
   Tie to the code (Gen/Fns.v is regenerated from base.rs / layout.rs / transactions.rs on every run by
   tools/gen_fns.py): the page-number packing, the page address arithmetic and the file geometry of the
   decoder (Format/Codec.v) are equal to the functions translated from the Rust sources. *)
From RV Require Import Gen.FnsLib Gen.Fns Gen.FnsFormatP.

Theorem c10_code_pagenum_to_u64_is_model : forall p,
  PageNumber_to_le_bytes p = pagenum_to_u64 (pagenum_of p).
Proof. exact pagenum_to_u64_is_model. Qed.

Theorem c10_code_pagenum_of_u64_is_model : forall t, t < 2 ^ 64 ->
  pagenum_of (PageNumber_from_le_bytes t) = pagenum_of_u64 t.
Proof. exact pagenum_of_u64_is_model. Qed.

Theorem c10_code_pagenum_from_le_bytes_guard_holds : forall t, PageNumber_from_le_bytes_guard t = true.
Proof. exact pagenum_from_le_guard. Qed.

Theorem c10_code_page_len_is_model : forall g p, PageNumber_f_page_order p <= MAX_MAX_PAGE_ORDER ->
  PageNumber_page_size_bytes p (g_psz g) = page_len g (pagenum_of p).
Proof. exact page_len_is_model. Qed.

Theorem c10_code_page_range_is_model : forall g p, PageNumber_f_page_order p <= MAX_MAX_PAGE_ORDER ->
  PageNumber_address_range p (g_psz g) (region_len g) (g_hdr_pages g * g_psz g) (g_psz g)
  = (page_start g (pagenum_of p), page_end g (pagenum_of p)).
Proof. exact page_range_is_model. Qed.

Theorem c10_code_geom_of_len_is_model : forall psz hdr maxp file_len,
  geom_of_layout (DatabaseLayout_recalculate file_len hdr maxp psz) = geom_of_len psz hdr maxp file_len.
Proof. exact geom_of_len_is_model. Qed.

Theorem c10_code_region_len_is_model : forall d,
  RegionLayout_len (DatabaseLayout_f_full_region_layout d) = region_len (geom_of_layout d).
Proof. exact region_len_is_model. Qed.

Theorem c10_code_pagenum_serialized_size_is_model : PageNumber_serialized_size = 8.
Proof. exact pagenum_size_is_model. Qed.

Theorem c10_code_pagelist_required_bytes_is_model : forall n, PageList_required_bytes n = 2 + 8 * n.
Proof. exact pagelist_required_is_model. Qed.
