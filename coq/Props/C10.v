(* C10 -- Every committed image is a well-formed, checksummed forest.
   Property file: statements only; proofs are in Format/WFP.v and Format/CodecP.v. *)
From Coq Require Import String.
From RV Require Import Base.Bytes Gen.Consts Format.Xxh3 Format.Codec Format.Pages Format.Records
  Format.KeyCmp Format.Decode Format.DecodeP Format.ChunkP Format.WF Format.WFP Format.CodecP Format.Example.
Open Scope N_scope.

(* ---- the executable checker that is run on every image is sound for the specification *)
Theorem wf_dbb_sound : forall d, wf_dbb d = true -> wf_db d.
Proof. exact WFP.wf_dbb_sound. Qed.

Theorem wf_imageb_sound : forall bs, wf_imageb bs = true -> wf_image bs.
Proof. exact WFP.wf_imageb_sound. Qed.

(* ---- well-formed => the reachable pages' byte ranges are pairwise disjoint, behind the super-header, inside the file *)
Theorem reach_disjoint : forall d,
  wf_db d ->
  Forall (fun p => g_psz (di_geom d) <= page_start (di_geom d) p /\ page_end (di_geom d) p <= di_file_len d) (reach d)
  /\ ForallOrdPairs (ranges_disjoint (di_geom d)) (reach d).
Proof. exact WFP.reach_disjoint. Qed.

(* ---- the tree walk is faithful to the bytes: each decoded node is the decoding of the page at its
   page number, its `sum` is XXH3-128 of exactly the covered prefix of that page, a branch's children
   are the pages its child array names and the stored child checksums are kept verbatim -- so the
   clause `fst c = tree_sum (snd c)` of wf_tree means "checksum stored in the parent = hash of the
   child's covered bytes" *)
Theorem dtree_faithful : forall fuel s ks vs p b t b',
  dtree fuel s ks vs p b = Ok (t, b') -> node_ok s ks vs t /\ tree_pn t = p.
Proof. exact DecodeP.dtree_faithful. Qed.

(* ---- and a fetched page is exactly the bytes of the file in [page_start, page_end) *)
Theorem fetch_spec : forall bs g p page,
  0 < g_psz g ->
  fetch (store_of bs g) p = Ok page ->
  page = takeN (dropN bs (page_start g p)) (page_len g p) /\ page_end g p <= lenN bs.
Proof. exact ChunkP.fetch_spec. Qed.

(* ---- codec round trips: the decoders invert the layouts the writer produces *)
Theorem codec_roundtrip_pagenum : forall p, pn_valid p = true -> decode_pagenum (encode_pagenum p) = Some p.
Proof. exact CodecP.codec_roundtrip_pagenum. Qed.

Theorem codec_roundtrip_bhdr : forall h, bhdr_ok h -> decode_bhdr (encode_bhdr h) = Some h.
Proof. exact CodecP.codec_roundtrip_bhdr. Qed.

Theorem codec_roundtrip_slot : forall s, slot_ok s -> decode_slot (encode_slot s) = Some s.
Proof. exact CodecP.codec_roundtrip_slot. Qed.

Theorem codec_roundtrip_header : forall h, header_ok h -> decode_header (encode_header h) = Ok h.
Proof. exact CodecP.codec_roundtrip_header. Qed.

(* a leaf page = encoded entries followed by anything (the unused rest of the page) *)
Theorem codec_roundtrip_leaf : forall ks vs es pad,
  es <> [] -> lenN es < 2 ^ 16 ->
  width_fits ks (map fst es) -> width_fits vs (map snd es) ->
  lenN (encode_leaf ks vs es) < 2 ^ 32 ->
  decode_leaf ks vs (encode_leaf ks vs es ++ pad)
  = Ok {| lf_entries := es; lf_end := lenN (encode_leaf ks vs es) |}.
Proof. exact CodecP.codec_roundtrip_leaf. Qed.

Theorem codec_roundtrip_branch : forall ks children keys pad,
  keys <> [] -> lenN keys < 2 ^ 16 -> length children = S (length keys) ->
  Forall (fun c => fst c < 2 ^ 128 /\ pn_valid (snd c) = true) children ->
  width_fits ks keys ->
  lenN (encode_branch ks children keys) < 2 ^ 32 ->
  decode_branch ks (encode_branch ks children keys ++ pad)
  = Ok {| br_children := children; br_keys := keys; br_end := lenN (encode_branch ks children keys) |}.
Proof. exact CodecP.codec_roundtrip_branch. Qed.

Theorem codec_roundtrip_tabledef : forall t, tabledef_ok t -> decode_tabledef (encode_tabledef t) = Ok t.
Proof. exact CodecP.codec_roundtrip_tabledef. Qed.

Theorem codec_roundtrip_page_list : forall l,
  Forall (fun p => pn_valid p = true) l -> lenN l < 2 ^ 16 -> decode_page_list (encode_page_list l) = Ok l.
Proof. exact CodecP.codec_roundtrip_page_list. Qed.

Theorem codec_roundtrip_savepoint : forall s, savepoint_ok s -> decode_savepoint (encode_savepoint s) = Ok s.
Proof. exact CodecP.codec_roundtrip_savepoint. Qed.

Theorem codec_roundtrip_collection : forall c,
  match c with CollInline _ => True | CollSubtree h => bhdr_ok h end ->
  decode_collection (encode_collection c) = Ok c.
Proof. exact CodecP.codec_roundtrip_collection. Qed.

Theorem codec_roundtrip_txn_page_key : forall k,
  fst k < 2 ^ 64 -> snd k < 2 ^ 64 -> decode_txn_page_key (encode_txn_page_key k) = Some k.
Proof. exact CodecP.codec_roundtrip_txn_page_key. Qed.

Theorem codec_roundtrip_alloc_key : forall k,
  match k with AKRegion r => r < 2 ^ 32 | _ => True end -> decode_alloc_key (encode_alloc_key k) = Some k.
Proof. exact CodecP.codec_roundtrip_alloc_key. Qed.

(* ---- non-vacuity: an image assembled with the model's encoders (header, two slots, catalog leaf, a
   table whose tree is a branch over two leaves) is accepted, hence well-formed; it decodes to the
   intended four entries; flipping one byte inside a leaf makes the checker reject it *)
Example ex_accepted : wf_imageb ex_image = true.
Proof. vm_compute. reflexivity. Qed.

Example ex_wf : wf_image ex_image.
Proof. apply WFP.wf_imageb_sound. vm_compute. reflexivity. Qed.

Example ex_decodes :
  ex_contents = Ok [(ascii_bytes "t"%string,
                     [(k8 1, [k8 10]); (k8 2, [k8 20]); (k8 3, [k8 30]); (k8 7, [k8 70])])].
Proof. vm_compute. reflexivity. Qed.

Example ex_damage_rejected : wf_imageb (set_byte ex_image 1541 99) = false.
Proof. vm_compute. reflexivity. Qed.

Example ex_reach_disjoint :
  match decode_db ex_image SlotPrimary with
  | Ok d => length (reach d) = 4%nat /\ wf_dbb d = true
  | Err _ _ => False
  end.
Proof. vm_compute. split; reflexivity. Qed.

(* ------------------------------------------------------------------------------------------------
   WRITER MODEL (Format/TreeWriter.v, TreeShape.v, ImageWriter.v): model_images_wf.

   wtree      a logical B+tree whose nodes carry the page they are written to
   finalize   = finalize_dirty_checksums: checksums bottom-up (leaf: XXH3-128 of the covered bytes; a branch
              first receives its children's checksums, then its own covered bytes are hashed)
   encode_tree = (page number, covered page bytes) of every node through the page encoders of Pages.v
              (LeafBuilder / BranchBuilder layouts) + the root BtreeHeader (root page, checksum, length)
   shape_of kenc venc t w : w is C04's logical tree t (abstract keys/values) with keys/values encoded and
              SOME page number on every node -- quantifying over w is quantifying over page assignments
   db1_image  a whole single-table database: header, commit slot, catalog leaf, the table tree.
   f          the value of the RESERVED page bytes (byte 1; bytes 4..7 of a branch): the builders never write
              them, new pages are 0x00-filled in release builds and 0xFF-filled under debug_assertions; they are
              covered by the checksums, so the writer model takes f as a parameter (all theorems: every f) *)
From RV Require Import Base.SortedMap Format.Xxh3P Format.TreeWriter Format.TreeWriterP Format.TreeShape Format.TreeShapeP
  Format.ModelTreeP Format.WritePagesP Format.ImageWriter Format.ImageWriterP Format.ModelImagesP Format.ModelExample Format.ModelExampleP
  Btree.Tree Btree.Read Btree.Mutator.

(* a checksum fits the 16 bytes it is stored in *)
Theorem xxh3_128_bound : forall d, xxh3_128 d < 2 ^ 128.
Proof. exact Xxh3P.xxh3_128_bound. Qed.

(* (a) tree-level round trip, all trees: if the image (any store s) holds the pages encode_tree writes --
   each page's byte range starts with the written bytes -- then the reader's tree walk from the root page
   returns exactly the finalized tree (page numbers, covered lengths, checksums recomputed from the
   image, stored child checksums, entries, routing keys) and consumes one page of budget per node.
   limits_okb = what the codec needs: node non-empty, < 2^16 entries, < 2^32 bytes, fixed widths respected *)
Theorem tree_roundtrip : forall f ks vs s, geom_ok (st_geom s) = true ->
  forall t fuel budget,
  limits_okb f ks vs t = true -> (wheight t < fuel)%nat -> lenN (wpages t) <= budget ->
  Forall (holds s) (tree_image f ks vs (finalize f ks vs t)) ->
  dtree fuel s ks vs (wpn t) budget = Ok (finalize f ks vs t, budget - lenN (wpages t)).
Proof. exact TreeWriterP.dtree_finalize. Qed.

(* (b) C04's tree invariant (sorted leaves, separators bounding both sides, uniform depth, non-empty nodes)
   => the tree clauses of the specification hold of the written tree: strictly increasing keys, routing
   keys bound both neighbouring subtrees and increase, all leaves at depth h, EVERY stored child checksum =
   XXH3-128 of the child's covered bytes; the root header names the root page, stores the root's checksum
   and the number of entries present; the decoded entries are the encoded in-order contents *)
Theorem inv_wf_tree : forall K V (cmp : K -> K -> comparison), OrderLaws cmp ->
  forall (kenc : K -> bytes) (venc : V -> bytes) (bcmp : cmp_fn),
  (forall a b, bcmp (kenc a) (kenc b) = cmp a b) ->
  forall f ks vs h lo hi (t : @node K V) w,
  inv cmp h lo hi t -> shape_of kenc venc t w -> wf_tree (Some bcmp) (finalize f ks vs w) h.
Proof. exact (@TreeShapeP.inv_wf). Qed.

Theorem written_tree_read_wf : forall K V (cmp : K -> K -> comparison), OrderLaws cmp ->
  forall (kenc : K -> bytes) (venc : V -> bytes) (bcmp : cmp_fn),
  (forall a b, bcmp (kenc a) (kenc b) = cmp a b) ->
  forall f ks vs (t : @node K V) w s budget,
  BTreeInv cmp t -> shape_of kenc venc t w ->
  geom_ok (st_geom s) = true -> writer_okb f ks vs w = true -> lenN (wpages w) <= budget ->
  Forall (holds s) (fst (encode_tree f ks vs w)) ->
  let hdr := snd (encode_tree f ks vs w) in
  exists d,
    droot s ks vs (Some hdr) budget = Ok (Some d, budget - lenN (wpages w))
    /\ wf_root (Some bcmp) (Some hdr) (Some d)
    /\ entries d = List.map (enc_entry kenc venc) (abs t)
    /\ bh_len hdr = len (abs t)
    /\ tree_pages d = wpages w.
Proof. exact (@ModelTreeP.written_tree_read_wf). Qed.

(* (c) tree level: the tree left by EVERY program (reads, insert, remove, pop_first, pop_last) of C04's mutator
   model run from the empty table -- every page size, size functions, valid separator, in-place oracle --
   written to ANY pages of ANY image holding them *)
Theorem model_tree_wf : forall K V (cmp : K -> K -> comparison), OrderLaws cmp ->
  forall (kenc : K -> bytes) (venc : V -> bytes) (bcmp : cmp_fn),
  (forall a b, bcmp (kenc a) (kenc b) = cmp a b) ->
  forall f (ksize : K -> N) (vsize : V -> N) (fixed_k fixed_v : bool) (page_size : N)
         (sep : K -> K -> K) (inplace : list (K * V) -> K -> V -> bool),
  valid_sep cmp sep ->
  forall ks vs (ops : list (@tree_op K V)) t w s budget,
  let bt := snd (run_tree cmp ksize vsize fixed_k fixed_v page_size sep inplace ops empty_tree) in
  bt_root bt = Some t -> shape_of kenc venc t w ->
  geom_ok (st_geom s) = true -> writer_okb f ks vs w = true -> lenN (wpages w) <= budget ->
  Forall (holds s) (fst (encode_tree f ks vs w)) ->
  let hdr := snd (encode_tree f ks vs w) in
  exists d,
    droot s ks vs (Some hdr) budget = Ok (Some d, budget - lenN (wpages w))
    /\ wf_root (Some bcmp) (Some hdr) (Some d)
    /\ entries d = List.map (enc_entry kenc venc) (abs t)
    /\ bh_len hdr = bt_len bt
    /\ tree_pages d = wpages w.
Proof. exact (@ModelTreeP.model_tree_wf). Qed.

(* patching pages with pairwise disjoint in-layout page numbers into an image: every written page is then
   held by the store the reader builds, the length and the first page (database header) are unchanged *)
Theorem write_pages_holds : forall g base ps,
  0 < g_psz g -> geom_ok g = true ->
  Forall (fun pb => in_layout g (fst pb) = true /\ page_end g (fst pb) <= lenN base
                    /\ lenN (snd pb) <= page_len g (fst pb)) ps ->
  ForallOrdPairs pages_disjoint (List.map fst ps) ->
  lenN (write_pages g base ps) = lenN base
  /\ Forall (holds (store_of (write_pages g base ps) g)) ps
  /\ (forall o n, o + n <= g_psz g -> slice (write_pages g base ps) o n = slice base o n).
Proof. exact ImageWriterP.write_pages_holds. Qed.

(* the whole single-table image: the reader decodes exactly the expected forest, for every tree *)
Theorem decode_db1 : forall f g txid ts master_pn w,
  db1_okb f g txid ts master_pn w = true ->
  decode_db (db1_image f g txid ts master_pn w) SlotPrimary = Ok (db1_decoded f g txid ts master_pn w).
Proof. exact ImageWriterP.decode_db1. Qed.

(* the executable page assignment (pre-order from a list) is among the assignments quantified over *)
Theorem place_shape : forall K V (kenc : K -> bytes) (venc : V -> bytes) (t : @node K V) pns w r,
  place kenc venc t pns = Some (w, r) -> shape_of kenc venc t w.
Proof. exact (@TreeShapeP.place_shape). Qed.

(* model_images_wf, any tree satisfying the invariant: the image is well-formed (wf_image = geometry, slot
   checksum, catalog, table tree clauses above, table length = entries present, every reachable page
   inside the layout and no page referenced twice) and the reader finds the encoded contents in it.
   db1_okb = side conditions on the INPUT of the writer: valid geometry, codec limits, depth < MAX_BTREE_DEPTH,
   every node fits the page assigned to it, pages pairwise disjoint inside the layout, type names non-empty *)
Theorem inv_image_wf : forall K V (cmp : K -> K -> comparison), OrderLaws cmp ->
  forall (kenc : K -> bytes) (venc : V -> bytes) (bcmp : cmp_fn),
  (forall a b, bcmp (kenc a) (kenc b) = cmp a b) ->
  forall f (t : @node K V) w g txid ts master_pn,
  BTreeInv cmp t -> shape_of kenc venc t w ->
  db1_okb f g txid ts master_pn w = true ->
  cmp_of_typename (ts_ktype ts) = Some bcmp ->
  wf_image (db1_image f g txid ts master_pn w)
  /\ image_table_entries (db1_image f g txid ts master_pn w) (ts_name ts)
     = Some (List.map (enc_entry kenc venc) (abs t)).
Proof. exact (@ModelImagesP.inv_image_wf). Qed.

(* model_images_wf: every program of the mutator model from the empty table (non-empty result), every page
   assignment, geometry, table name and types; the contents found are those of the sorted-map specification *)
Theorem model_images_wf : forall K V (cmp : K -> K -> comparison), OrderLaws cmp ->
  forall (kenc : K -> bytes) (venc : V -> bytes) (bcmp : cmp_fn),
  (forall a b, bcmp (kenc a) (kenc b) = cmp a b) ->
  forall f (ksize : K -> N) (vsize : V -> N) (fixed_k fixed_v : bool) (page_size : N)
         (sep : K -> K -> K) (inplace : list (K * V) -> K -> V -> bool),
  valid_sep cmp sep ->
  forall (ops : list (@tree_op K V)) t w g txid ts master_pn,
  bt_root (snd (run_tree cmp ksize vsize fixed_k fixed_v page_size sep inplace ops empty_tree)) = Some t ->
  shape_of kenc venc t w ->
  db1_okb f g txid ts master_pn w = true ->
  cmp_of_typename (ts_ktype ts) = Some bcmp ->
  wf_image (db1_image f g txid ts master_pn w)
  /\ image_table_entries (db1_image f g txid ts master_pn w) (ts_name ts)
     = Some (List.map (enc_entry kenc venc) (snd (run cmp (List.map spec_op ops) []))).
Proof. exact (@ModelImagesP.model_images_wf). Qed.

(* ---- non-vacuity of the writer theorems: &[u8] -> &[u8] table, a program of 14 inserts, a remove, two pops
   and an overwrite at page size 512 leaving a TWO-LEVEL tree (branch over four leaves), pages handed out in a
   scrambled order; all hypotheses of model_images_wf hold, hence the image is well-formed; the (independent)
   executable checker accepts the very same bytes; a flipped byte in a leaf of it is rejected *)
Example ex_model_tree_two_level :
  match mx_w with Some w => wheight w = 1%nat /\ length (wpages w) = 5%nat | None => False end.
Proof. vm_compute. split; reflexivity. Qed.

Example ex_model_image_wf :
  wf_image mx_image
  /\ image_table_entries mx_image (ascii_bytes "t")
     = Some (snd (run lex_cmp (List.map spec_op mx_ops) [])).
Proof. exact ModelExampleP.mx_image_wf. Qed.

Example ex_model_image_accepted : wf_imageb mx_image = true.
Proof. vm_compute. reflexivity. Qed.

Example ex_model_image_damage_rejected : wf_imageb (set_byte mx_image 2600 99) = false.
Proof. vm_compute. reflexivity. Qed.

(* ------------------------------------------------------------------------------------------------
   Tie to the code (Gen/Fns.v is regenerated from base.rs / layout.rs / transactions.rs on every run by
   tools/gen_fns.py): the page-number packing, the page address arithmetic and the file geometry of the
   decoder (Format/Codec.v) are equal to the functions translated from the Rust sources. *)
From RV Require Import Gen.FnsLib Gen.Fns Gen.FnsFormatP.

Theorem c10_code_pagenum_to_u64_is_model : forall p,
  PageNumber_to_le_bytes p = pagenum_to_u64 (pagenum_of p).
Proof. exact pagenum_to_u64_is_model. Qed.

Theorem c10_code_pagenum_of_u64_is_model : forall t, t < 2 ^ 64 ->
  pagenum_of (PageNumber_from_le_bytes t) = pagenum_of_u64 t.
Proof. exact pagenum_of_u64_is_model. Qed.

Theorem c10_code_pagenum_from_le_bytes_guard_holds : forall t, PageNumber_from_le_bytes_guard t = true.
Proof. exact pagenum_from_le_guard. Qed.

Theorem c10_code_page_len_is_model : forall g p, PageNumber_f_page_order p <= MAX_MAX_PAGE_ORDER ->
  PageNumber_page_size_bytes p (g_psz g) = page_len g (pagenum_of p).
Proof. exact page_len_is_model. Qed.

Theorem c10_code_page_range_is_model : forall g p, PageNumber_f_page_order p <= MAX_MAX_PAGE_ORDER ->
  PageNumber_address_range p (g_psz g) (region_len g) (g_hdr_pages g * g_psz g) (g_psz g)
  = (page_start g (pagenum_of p), page_end g (pagenum_of p)).
Proof. exact page_range_is_model. Qed.

Theorem c10_code_geom_of_len_is_model : forall psz hdr maxp file_len,
  geom_of_layout (DatabaseLayout_recalculate file_len hdr maxp psz) = geom_of_len psz hdr maxp file_len.
Proof. exact geom_of_len_is_model. Qed.

Theorem c10_code_region_len_is_model : forall d,
  RegionLayout_len (DatabaseLayout_f_full_region_layout d) = region_len (geom_of_layout d).
Proof. exact region_len_is_model. Qed.

Theorem c10_code_pagenum_serialized_size_is_model : PageNumber_serialized_size = 8.
Proof. exact pagenum_size_is_model. Qed.

Theorem c10_code_pagelist_required_bytes_is_model : forall n, PageList_required_bytes n = 2 + 8 * n.
Proof. exact pagelist_required_is_model. Qed.

(* ------------------------------------------------------------------------------------------------
   Tie to the code, wave 2 (see design.d/GEN.md): the byte-level readers of the decoder (Format/Codec.v, Pages.v,
   Records.v, KeyCmp.v) read what the functions translated from header.rs / btree_base.rs / transactions.rs /
   savepoint.rs / multimap_btree.rs / transaction_tracker.rs / types.rs read, at the same offsets. *)
From RV Require Import Gen.FnsLibB Gen.FnsCodecP.

Theorem c10_code_decode_header_fields_is_model : forall b h, decode_header b = Ok h ->
  header_page_size b = h_psz h
  /\ header_region_header_pages b = h_hdr_pages h
  /\ header_region_max_data_pages b = h_max_pages h
  /\ header_full_regions b = h_full h
  /\ header_trailing_data_pages b = h_trailing h
  /\ header_primary_slot b = god_primary (h_god h)
  /\ header_recovery_required b = god_recovery (h_god h)
  /\ header_two_phase_commit b = god_2pc (h_god h)
  /\ decode_slot (header_slot0_bytes b) = Some (h_slot0 h)
  /\ decode_slot (header_slot1_bytes b) = Some (h_slot1 h).
Proof. exact decode_header_fields_is_model. Qed.

Theorem c10_code_decode_slot_fields_is_model : forall b s, all_bytes b = true -> decode_slot b = Some s ->
  Fns.slot_version b = sl_version s
  /\ slot_stored_checksum b = sl_sum s
  /\ slot_transaction_id b = sl_txid s
  /\ option_map bhdr_of (slot_user_root b) = sl_user s
  /\ option_map bhdr_of (slot_system_root b) = sl_system s.
Proof. exact decode_slot_fields_is_model. Qed.

Theorem c10_code_slot_checksummed_bytes_is_model : forall b,
  slot_sum_computed b = Xxh3.xxh3_128 (slot_checksummed_bytes b).
Proof. exact slot_checksummed_bytes_is_model. Qed.

Theorem c10_code_get_u32_is_model : forall data, get_u32_guard data = true -> u32_at data 0 = Some (Fns.get_u32 data).
Proof. exact get_u32_is_model. Qed.

Theorem c10_code_get_u64_is_model : forall data, get_u64_guard data = true -> u64_at data 0 = Some (Fns.get_u64 data).
Proof. exact get_u64_is_model. Qed.

Theorem c10_code_btree_header_size_is_model : BtreeHeader_serialized_size = BHDR_SIZE.
Proof. exact bhdr_size_is_model. Qed.

Theorem c10_code_btree_header_from_le_bytes_is_model : forall b, all_bytes b = true -> lenN b = BHDR_SIZE ->
  decode_bhdr b = Some (bhdr_of (BtreeHeader_from_le_bytes b)).
Proof. exact bhdr_from_le_bytes_is_model. Qed.

Theorem c10_code_btree_header_to_le_bytes_is_model : forall h, BtreeHeader_to_le_bytes h = encode_bhdr (bhdr_of h).
Proof. exact bhdr_to_le_bytes_is_model. Qed.

Theorem c10_code_leaf_key_end_is_model : forall page ks vs n kends i,
  leaf_kends ks vs page n = Some kends -> i < n ->
  LeafAccessor_key_end n ks vs page i = Some (nth (N.to_nat i) kends 0).
Proof. exact leaf_key_end_is_model. Qed.

Theorem c10_code_leaf_value_end_is_model : forall page ks vs n kends vends i,
  1 <= n -> leaf_kends ks vs page n = Some kends ->
  leaf_vends ks vs page n (last_or kends (leaf_kstart ks vs n)) = Some vends -> i < n ->
  LeafAccessor_value_end n vs ks page i = Some (nth (N.to_nat i) vends 0).
Proof. exact leaf_value_end_is_model. Qed.

Theorem c10_code_leaf_total_length_is_model : forall ks vs page lf n,
  decode_leaf ks vs page = Ok lf -> u16_at page 2 = Some n ->
  LeafAccessor_total_length n vs ks page = lf_end lf.
Proof. exact leaf_total_length_is_model. Qed.

Theorem c10_code_branch_child_checksum_is_model : forall page n sums i,
  read_sums page 8 (S (N.to_nat n)) = Some sums -> i <= n ->
  BranchAccessor_child_checksum n i page = Some (nth (N.to_nat i) sums 0).
Proof. exact branch_child_checksum_is_model. Qed.

Theorem c10_code_branch_child_page_is_model : forall page n pns i d, all_bytes page = true ->
  read_pagenums page (8 + 16 * (n + 1)) (S (N.to_nat n)) = Some pns -> i <= n ->
  option_map pagenum_of (BranchAccessor_child_page n i page) = Some (nth (N.to_nat i) pns d).
Proof. exact branch_child_page_is_model. Qed.

Theorem c10_code_branch_total_length_is_model : forall ks page br n,
  decode_branch ks page = Ok br -> u16_at page 2 = Some n ->
  BranchAccessor_total_length ks n page = br_end br.
Proof. exact branch_total_length_is_model. Qed.

Theorem c10_code_page_list_is_model : forall b l, all_bytes b = true -> decode_page_list b = Ok l ->
  PageList_len b = lenN l
  /\ forall i d, i < lenN l -> pagenum_of (PageList_get b i) = nth (N.to_nat i) l d.
Proof. exact page_list_is_model. Qed.

Theorem c10_code_txn_page_key_from_bytes_is_model : forall b, lenN b = 16 ->
  decode_txn_page_key b = Some (txn_page_of (TransactionIdWithPagination_from_bytes b)).
Proof. exact txn_page_from_bytes_is_model. Qed.

Theorem c10_code_txn_page_key_as_bytes_is_model : forall k,
  TransactionIdWithPagination_as_bytes k = encode_txn_page_key (txn_page_of k).
Proof. exact txn_page_as_bytes_is_model. Qed.

Theorem c10_code_txn_page_key_compare_is_model : forall a b,
  TransactionIdWithPagination_compare a b = KeyCmp.cmp_pair_u64 a b.
Proof. exact txn_page_compare_is_model. Qed.

Theorem c10_code_unsigned_key_compare_is_model : forall a b,
  SavepointId_compare a b = KeyCmp.cmp_unsigned a b /\ le_u64_compare a b = KeyCmp.cmp_unsigned a b
  /\ le_u32_compare a b = KeyCmp.cmp_unsigned a b /\ le_u128_compare a b = KeyCmp.cmp_unsigned a b.
Proof. intros a b. exact (conj (savepoint_id_compare_is_model a b) (conj (le_u64_compare_is_model a b)
  (conj (le_u32_compare_is_model a b) (le_u128_compare_is_model a b)))). Qed.

Theorem c10_code_savepoint_record_is_model : forall b, all_bytes b = true ->
  match decode_savepoint b, SerializedSavepoint_to_savepoint b with
  | Ok s, Some ((v, id), (tx, root)) =>
      v = sp_version s /\ id = sp_id s /\ tx = sp_txid s /\ option_map bhdr_of root = sp_root s
  | Err _ _, None => True
  | _, _ => False
  end.
Proof. exact savepoint_record_is_model. Qed.

Theorem c10_code_collection_is_model : forall b, all_bytes b = true ->
  UntypedDynamicCollection_collection_type_guard b = true ->
  DynamicCollectionType_from_guard (byte_at b 0) = true ->
  match UntypedDynamicCollection_collection_type b with
  | DynamicCollectionType_Inline => decode_collection b = Ok (CollInline (UntypedDynamicCollection_as_inline b))
  | DynamicCollectionType_SubtreeV2 =>
      BHDR_SIZE + 1 <= slen b ->
      decode_collection b = Ok (CollSubtree (bhdr_of (UntypedDynamicCollection_as_subtree b)))
  end.
Proof. exact collection_is_model. Qed.
