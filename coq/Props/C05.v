(* C05 -- Abandoned or failed transactions leave no trace.
   This file contains only statements; every proof is `exact <lemma>`.

   Models: coq/Txn/Own.v (page-ownership state machine; its header lists what is abstracted),
   coq/Txn/Abandon.v (bodies of a write transaction, half-executed operations), coq/Txn/Poison.v (the
   poisoned / I/O latches, failures at any position of any call, how a transaction ends).

   What "no trace" means here: after the end of the transaction the WHOLE model state -- allocated pages,
   durable and latest version, DATA_FREED / SYSTEM_FREED / unpersisted freed records, unpersisted pages,
   post-commit allocations, pending non-durable commits, every pin (readers, ephemeral and persistent
   savepoints: handle, transaction id, page set, persistence), the write-transaction locals -- equals the
   state before begin_write, except (`bump`) that the transaction id is consumed and (`pin_part`) that
   the reader / ephemeral-savepoint handles taken or dropped by their owners meanwhile are as if taken
   or dropped without the transaction (an ephemeral savepoint captures the last committed state and is
   owned by the caller's handle; redb keeps it valid after the abort).
   Not in this model (validated per run on the real crate by harness/src/bin/c05.rs): table catalog and
   contents, savepoint validity in later transactions, the byte-level allocator, repair after an I/O
   failure. *)
From Coq Require Import List NArith PArith Bool.
From RV Require Import Txn.PSet Txn.Own Txn.OwnP Txn.OwnThmP Txn.Abandon Txn.AbortP Txn.Poison Txn.PoisonP.
Import ListNotations.

(* ---- abort(): every state satisfying the invariant, every body (tree mutations with any admissible page
   oracle, persistent / ephemeral savepoint creation, staged deletion, restore to any pin, outside
   registrations), by induction over the body *)
Theorem c05_abort_restores_eq : forall s body, Inv s -> inw s = false -> is_body body = true ->
  admissible (begin_write s) body ->
  abort (run body (begin_write s)) = bump (run (pin_part body) s).
Proof. exact abort_restores_eq. Qed.

(* the same, observable by observable: the allocated pages are the same list (hence the same set, without
   duplicates), every committed-side component is equal, the pins are those of the outside registrations,
   the write locals are reset, the invariant holds again, the transaction id is not reused *)
Theorem c05_abort_restores : forall s body, Inv s -> inw s = false -> is_body body = true ->
  admissible (begin_write s) body ->
  let s' := abort (run body (begin_write s)) in
  same_committed s' s /\ NoDup (alloc s') /\ (forall p, In p (alloc s') <-> In p (alloc s)) /\
  pins s' = pins (run (pin_part body) s) /\
  normal_w s' /\ inw s' = false /\ Inv s' /\ (lastid s' = lastid s + 1)%N /\ (lastid s < lastid s')%N.
Proof. exact abort_restores. Qed.

(* bodies of table writes, persistent savepoint creation / deletion and restores: the state is the old
   one with the id consumed -- created persistent savepoints are gone, deleted ones are back *)
Theorem c05_abort_restores_closed : forall s body, Inv s -> inw s = false -> is_body body = true ->
  no_ext body = true -> admissible (begin_write s) body ->
  abort (run body (begin_write s)) = bump s /\ pins (abort (run body (begin_write s))) = pins s.
Proof. exact abort_restores_closed. Qed.

Theorem c05_abort_keeps_pins : forall s body x, Inv s -> inw s = false -> is_body body = true ->
  admissible (begin_write s) body -> In x (pins s) -> ~ In (ODropPin (ph x)) body ->
  In x (pins (abort (run body (begin_write s)))).
Proof. exact abort_keeps_pins. Qed.

Theorem c05_abort_drops_created : forall s body h, Inv s -> inw s = false -> is_body body = true ->
  admissible (begin_write s) body -> In (OSpCreate h true) body ->
  forall x, In x (pins (abort (run body (begin_write s)))) -> ph x <> h.
Proof. exact abort_drops_created. Qed.

(* ---- poisoning *)

(* an operation that fails after its first mutation at one of the sites named by the property sets the
   poisoned flag: every call, every failure position, every possible error kind *)
Theorem c05_partial_op_poisons : forall c f p, cfail c = Some f -> fail_ok c f = true -> mutated f = true ->
  named_site (ck c) f = true -> poisoned (exec c p) = true.
Proof. exact partial_op_poisons. Qed.

(* every call of every kind that fails after its first mutation blocks the commit (poisoned, or the
   storage layer is latched by the I/O error) *)
Theorem c05_failed_call_blocks : forall c f p, cfail c = Some f -> fail_ok c f = true -> mutated f = true ->
  blocked (exec c p) = true.
Proof. exact failed_call_blocks. Qed.

Theorem c05_poisoned_is_sticky : forall cs p, poisoned p = true -> poisoned (run_calls cs p) = true.
Proof. exact poisoned_is_sticky. Qed.

Theorem c05_blocked_is_sticky : forall cs p, blocked p = true -> blocked (run_calls cs p) = true.
Proof. exact blocked_is_sticky. Qed.

(* commit() of a poisoned transaction is abort + Err(TransactionPoisoned), never Ok *)
Theorem c05_poisoned_never_commits : forall cm p, poisoned p = true ->
  snd (commit_p cm p) <> COk /\
  (iolatch p = false -> commit_p cm p = (mkptx (abort (own p)) true false, CPoisoned)).
Proof. exact poisoned_never_commits. Qed.

(* Drop = abort *)
Theorem c05_drop_is_abort : forall p, iolatch p = false ->
  own (drop_p p) = abort (own p) /\ own (fst (abort_p p)) = abort (own p) /\ snd (abort_p p) = true.
Proof. exact drop_is_abort. Qed.

(* for every sequence of calls, each complete or failed at any position (leaving the working view in an
   arbitrary half-applied state): abort(), Drop and the commit() of the poisoned transaction all end in
   the state before begin_write (id consumed, outside registrations kept) *)
Theorem c05_abandoned_restores : forall s cs cm, Inv s -> inw s = false -> calls_ok cs (start s) ->
  let p := run_calls cs (start s) in
  let s' := bump (run (pin_part (ran_all cs)) s) in
  iolatch p = false ->
  own (fst (abort_p p)) = s' /\ snd (abort_p p) = true /\
  own (drop_p p) = s' /\
  (poisoned p = true -> own (fst (commit_p cm p)) = s' /\ snd (commit_p cm p) = CPoisoned).
Proof. exact abandoned_restores. Qed.

Theorem c05_abandoned_observables : forall s cs, Inv s -> inw s = false ->
  let s' := bump (run (pin_part (ran_all cs)) s) in
  same_committed s' s /\ NoDup (alloc s') /\ (forall q, In q (alloc s') <-> In q (alloc s)) /\
  pins s' = pins (run (pin_part (ran_all cs)) s) /\
  normal_w s' /\ inw s' = false /\ Inv s' /\ (lastid s' = lastid s + 1)%N /\ (lastid s < lastid s')%N.
Proof. exact abandoned_observables. Qed.

(* a half-applied operation can never be committed: once some call failed after its first mutation the
   commit is not Ok and publishes nothing; without an I/O latch it is Err(TransactionPoisoned) and the
   state is restored exactly *)
Theorem c05_half_applied_never_commits : forall s cs cm, Inv s -> inw s = false -> calls_ok cs (start s) ->
  existsb failed_after_mutation cs = true ->
  let p := run_calls cs (start s) in
  snd (commit_p cm p) <> COk /\
  dur (own (fst (commit_p cm p))) = dur s /\ lat (own (fst (commit_p cm p))) = lat s /\
  (iolatch p = false ->
     snd (commit_p cm p) = CPoisoned /\
     own (fst (commit_p cm p)) = bump (run (pin_part (ran_all cs)) s)).
Proof. exact half_applied_never_commits. Qed.

(* PARTIAL for fault_sequences: with the storage latched by an I/O error the model only shows that
   nothing is published (no version moves; commit / abort report the error).  That the reopen then serves
   exactly the pre-transaction contents and reclaims the pages is NOT proved here (repair is C11/C12's
   model); it is validated per run by the fault-point sweep of the harness. *)
Theorem c05_latched_end_publishes_nothing_partial : forall s cs cm, Inv s -> inw s = false -> calls_ok cs (start s) ->
  let p := run_calls cs (start s) in
  iolatch p = true ->
  snd (commit_p cm p) = CIoError /\ snd (abort_p p) = false /\
  dur (own (fst (commit_p cm p))) = dur s /\ lat (own (fst (commit_p cm p))) = lat s /\
  dur (own (fst (abort_p p))) = dur s /\ lat (own (fst (abort_p p))) = lat s /\
  dur (own (drop_p p)) = dur s /\ lat (own (drop_p p)) = lat s.
Proof. exact latched_end_publishes_nothing. Qed.

(* the flag-level functions extracted for the correspondence are the flag part of `exec` / `commit_p` *)
Theorem c05_flags_after_exec : forall c f p, cfail c = Some f ->
  (poisoned (exec c p), iolatch (exec c p)) =
  flags_after (ck c) (mutated f) (f_err f) (f_lost f) (poisoned p) (iolatch p).
Proof. exact flags_after_exec. Qed.

Theorem c05_commit_result_spec : forall cm p, snd (commit_p cm p) = commit_result (poisoned p) (iolatch p).
Proof. exact commit_result_spec. Qed.

(* ================================================================ non-vacuity *)

Open Scope positive_scope.

(* a history reaching a state with a reader, a persistent and an ephemeral savepoint, DATA_FREED,
   SYSTEM_FREED and unpersisted freed records, unpersisted pages and a pending non-durable commit *)
Definition c05_history : list op :=
  [ OBeginWrite; OMutData [1;2;3]; OCommitDur [1;2;3] [10;11] [] false true;
    OBeginRead 7%N;
    OBeginWrite; OSpCreate 20%N true; OMutSys [10;11;12]; OMutData [1;2;4;5]; OCommitDur [1;2;4;5] [10;13;14] [] false true;
    OBeginWrite; OSpCreate 9%N false; OMutData [1;6]; OCommitNd [1;6] [10;13;15] ].

(* a body that allocates, frees committed and uncommitted pages, creates a persistent and an ephemeral
   savepoint, stages the deletion of a persistent one, registers a reader, drops one, restores to the
   ephemeral savepoint of the history and writes again *)
Definition c05_body : list op :=
  [ OMutData [1;30;31]; OSpCreate 40%N true; OMutSys [10;13;32]; OSpCreate 41%N false; OSpDelete 20%N;
    OBeginRead 42%N; ODropPin 7%N;
    ORestore 9%N; OMutSys [10;33]; OMutData [1;2;4;34] ].

Example c05_nonvacuous_state :
  let s := run c05_history init in
  admissible init c05_history /\ own_checkb s = true /\ inw s = false /\
  pins s = [mkpin 7 2 [1;2;3] false; mkpin 20 2 [1;2;3] true; mkpin 9 3 [1;2;4;5] false] /\
  dfreed s = [(3%N, [3])] /\ sfreed s = [(4%N, [14])] /\ ufreed s = [(4%N, [2;4;5])] /\
  unpers s = [15;6] /\ pend s = [(4%N, 3%N)].
Proof. vm_compute. repeat split; reflexivity. Qed.

Example c05_nonvacuous_abort :
  let s := run c05_history init in
  let t := run c05_body (begin_write s) in
  is_body c05_body = true /\ admissible (begin_write s) c05_body /\
  (* the body really changed the allocator, the pins and the staged savepoint state *)
  alloc t = [34;33;15;6;13;14;4;5;10;1;2;3] /\ alloc s = [15;6;13;14;4;5;10;1;2;3] /\
  wasc t = [34;33] /\ wdfr t = [6;5] /\ wsfr t = [15;13] /\ wrest t = Some 3%N /\
  wcreated t = [40%N] /\ wdeleted t = [20%N] /\ length (pins t) = 5%nat /\
  (* and the abort undoes all of it *)
  abort t = bump (run (pin_part c05_body) s) /\
  alloc (abort t) = alloc s /\ dfreed (abort t) = dfreed s /\ ufreed (abort t) = ufreed s /\ pend (abort t) = pend s /\
  pins (abort t) = [mkpin 20 2 [1;2;3] true; mkpin 9 3 [1;2;4;5] false; mkpin 41 4 [1;6] false; mkpin 42 4 [1;6] false] /\
  own_checkb (abort t) = true.
Proof. vm_compute. repeat split; reflexivity. Qed.

(* a closed body (no outside registration): everything, pins included, is back *)
Example c05_nonvacuous_closed :
  let s := run c05_history init in
  let body := [ OMutData [1;30;31]; OSpCreate 40%N true; OMutSys [10;13;32]; OSpDelete 20%N; ORestore 9%N; OMutSys [10;33] ] in
  is_body body = true /\ no_ext body = true /\ admissible (begin_write s) body /\
  pins (run body (begin_write s)) <> pins s /\
  abort (run body (begin_write s)) = bump s.
Proof. vm_compute. repeat split; try reflexivity. discriminate. Qed.

(* a call sequence with a retain whose predicate panics after the first removals (half-applied working
   view: garbage trees, one fresh page, one uncommitted page freed), later calls, then commit():
   TransactionPoisoned and the state restored *)
Definition c05_calls : list call :=
  [ mkcall KWrite [OMutData [1;30;31]] None;
    mkcall KSavepoint [OSpCreate 40%N true; OMutSys [10;13;32]] None;
    mkcall KRetain [OMutData [1;35]]
      (Some (mkfail 0 EPanic (Some (mkhalf [36] [31] (mkwv [1;99] [10] [6;77] [] [] (Some 1%N) [20%N]))) false));
    mkcall KRename [OMutData [1;37]; OMutData [1;38]] (Some (mkfail 0 ELogical None false));
    mkcall KWrite [OMutSys [10;39]] None ].

Example c05_nonvacuous_poison :
  let s := run c05_history init in
  let p := run_calls c05_calls (start s) in
  calls_ok c05_calls (start s) /\ existsb failed_after_mutation c05_calls = true /\
  poisoned p = true /\ iolatch p = false /\
  wdata (own p) = [1;99] /\ own_checkb (own p) = false /\
  commit_p (OCommitDur [1;99] [10;39] [] false true) p = (mkptx (bump s) true false, CPoisoned).
Proof. vm_compute. repeat split; reflexivity. Qed.

(* a storage error in the middle of rename_table: poisoned and latched; commit reports the I/O error *)
Example c05_nonvacuous_latched :
  let s := run c05_history init in
  let cs := [ mkcall KRename [OMutData [1;6;37]; OMutData [1;6;38]] (Some (mkfail 1 EIo None false)) ] in
  let p := run_calls cs (start s) in
  calls_ok cs (start s) /\ poisoned p = true /\ iolatch p = true /\
  snd (commit_p (OCommitDur [1;6;37] [10;13;15] [] false true) p) = CIoError /\
  lat (own (fst (commit_p (OCommitDur [1;6;37] [10;13;15] [] false true) p))) = lat s.
Proof. vm_compute. repeat split; reflexivity. Qed.
