(* C05 -- Abandoned or failed transactions leave no trace.
   This file contains only statements; every proof is `exact <lemma>`.

   Models: coq/Txn/Own.v (page-ownership state machine; its header lists what is abstracted),
   coq/Txn/Abandon.v (bodies of a write transaction, half-executed operations), coq/Txn/Poison.v (the
   poisoned / I/O latches, failures at any position of any call -- I/O errors, argument / state errors,
   panicking predicates, CORRUPTED READS --, how a transaction ends), coq/Txn/Latched.v (the end of a
   transaction with the storage latched inside a session of C11's Reopen/Snapshot.v).

   What "no trace" means here: after the end of the transaction the WHOLE model state -- allocated pages,
   durable and latest version, DATA_FREED / SYSTEM_FREED / unpersisted freed records, unpersisted pages,
   post-commit allocations, pending non-durable commits, every pin (readers, ephemeral and persistent
   savepoints: handle, transaction id, page set, persistence), the write-transaction locals -- equals the
   state before begin_write, except (`bump`) that the transaction id is consumed and (`pin_part`) that
   the reader / ephemeral-savepoint handles taken or dropped by their owners meanwhile are as if taken
   or dropped without the transaction (an ephemeral savepoint captures the last committed state and is
   owned by the caller's handle; redb keeps it valid after the abort).
   Not in this model (validated per run on the real crate by harness/src/bin/c05.rs): table catalog and
   contents, savepoint validity in later transactions, the byte-level allocator, repair after an I/O
   failure. *)
From Coq Require Import List NArith PArith Bool.
From RV Require Import Txn.PSet Txn.Own Txn.OwnP Txn.OwnThmP Txn.Abandon Txn.AbortP Txn.Poison Txn.PoisonP.
From RV Require Import Reopen.Snapshot Reopen.SnapshotP Txn.Latched Txn.LatchedP.
Import ListNotations.

(* ---- abort(): every state satisfying the invariant, every body (tree mutations with any admissible page
   oracle, persistent / ephemeral savepoint creation, staged deletion, restore to any pin, outside
   registrations), by induction over the body *)
Theorem c05_abort_restores_eq : forall s body, Inv s -> inw s = false -> is_body body = true ->
  admissible (begin_write s) body ->
  abort (run body (begin_write s)) = bump (run (pin_part body) s).
Proof. exact abort_restores_eq. Qed.

(* the same, observable by observable: the allocated pages are the same list (hence the same set, without
   duplicates), every committed-side component is equal, the pins are those of the outside registrations,
   the write locals are reset, the invariant holds again, the transaction id is not reused *)
Theorem c05_abort_restores : forall s body, Inv s -> inw s = false -> is_body body = true ->
  admissible (begin_write s) body ->
  let s' := abort (run body (begin_write s)) in
  same_committed s' s /\ NoDup (alloc s') /\ (forall p, In p (alloc s') <-> In p (alloc s)) /\
  pins s' = pins (run (pin_part body) s) /\
  normal_w s' /\ inw s' = false /\ Inv s' /\ (lastid s' = lastid s + 1)%N /\ (lastid s < lastid s')%N.
Proof. exact abort_restores. Qed.

(* bodies of table writes, persistent savepoint creation / deletion and restores: the state is the old
   one with the id consumed -- created persistent savepoints are gone, deleted ones are back *)
Theorem c05_abort_restores_closed : forall s body, Inv s -> inw s = false -> is_body body = true ->
  no_ext body = true -> admissible (begin_write s) body ->
  abort (run body (begin_write s)) = bump s /\ pins (abort (run body (begin_write s))) = pins s.
Proof. exact abort_restores_closed. Qed.

Theorem c05_abort_keeps_pins : forall s body x, Inv s -> inw s = false -> is_body body = true ->
  admissible (begin_write s) body -> In x (pins s) -> ~ In (ODropPin (ph x)) body ->
  In x (pins (abort (run body (begin_write s)))).
Proof. exact abort_keeps_pins. Qed.

Theorem c05_abort_drops_created : forall s body h, Inv s -> inw s = false -> is_body body = true ->
  admissible (begin_write s) body -> In (OSpCreate h true) body ->
  forall x, In x (pins (abort (run body (begin_write s)))) -> ph x <> h.
Proof. exact abort_drops_created. Qed.

(* ---- poisoning *)

(* an operation that fails after its first mutation at one of the sites named by the property sets the
   poisoned flag: every call, every failure position, every possible error kind *)
Theorem c05_partial_op_poisons : forall c f p, cfail c = Some f -> fail_ok c f = true -> mutated f = true ->
  named_site (ck c) f = true -> poisoned (exec c p) = true.
Proof. exact partial_op_poisons. Qed.

(* every call of every kind that fails after its first mutation -- by an I/O error, an argument / state error
   or a panicking predicate -- blocks the commit (poisoned, or the storage layer is latched by the I/O error) *)
Theorem c05_failed_call_blocks : forall c f p, cfail c = Some f -> fail_ok c f = true ->
  is_corrupt (f_err f) = false -> mutated f = true -> blocked (exec c p) = true.
Proof. exact failed_call_blocks. Qed.

(* ... and for EVERY error kind, corrupted reads (Err(Corrupted) in the middle of a call: not an I/O error,
   nothing is latched) included: whatever a failed call leaves of itself without having reported it as done --
   a half-executed step, or complete steps of a call that does not work entry by entry, beyond the id-consuming
   first step of persistent_savepoint -- blocks the commit.  Every call kind, every failure position, every
   error kind the model allows (Poison.v `fail_ok` / `corrupt_ok`: where the reads stand relative to the
   mutations in the code of each call kind) *)
Theorem c05_staged_partial_blocks : forall c f p, cfail c = Some f ->
  fail_ok c f = true -> staged_partial c f = true -> blocked (exec c p) = true.
Proof. exact staged_partial_blocks. Qed.

(* corrupted reads, full strength: after the failed call EITHER the transaction is blocked OR no step is
   half-executed, the flags are unchanged, the working state is exactly the run of the complete micro steps
   before the failure, and those are: none; or only the id-consuming first step (persistent_savepoint); or
   the prefix an entry-by-entry call (retain / extract / cursor) had already reported to its caller *)
Theorem c05_corrupt_atomic_or_blocked : forall c f p, cfail c = Some f ->
  fail_ok c f = true -> f_err f = ECorrupt ->
  blocked (exec c p) = true \/
  (f_half f = None /\ Poison.own (exec c p) = run (ran c) (Poison.own p) /\
   poisoned (exec c p) = poisoned p /\ iolatch (exec c p) = iolatch p /\
   (per_entry (ck c) = true \/ (length (ran c) <= ratchet_prefix (ck c))%nat)).
Proof. exact corrupt_atomic_or_blocked. Qed.

(* ... for table and multimap writes, rename, delete, restore, delete_persistent_savepoint: blocked, or NOTHING
   of the call is staged: the transaction is exactly as before the call *)
Theorem c05_corrupt_nothing_staged_or_blocked : forall c f p,
  per_entry (ck c) = false -> ratchet_prefix (ck c) = 0%nat -> cfail c = Some f ->
  fail_ok c f = true -> f_err f = ECorrupt ->
  blocked (exec c p) = true \/ exec c p = p.
Proof. exact corrupt_nothing_staged_or_blocked. Qed.

Theorem c05_poisoned_is_sticky : forall cs p, poisoned p = true -> poisoned (run_calls cs p) = true.
Proof. exact poisoned_is_sticky. Qed.

Theorem c05_blocked_is_sticky : forall cs p, blocked p = true -> blocked (run_calls cs p) = true.
Proof. exact blocked_is_sticky. Qed.

(* commit() of a poisoned transaction is abort + Err(TransactionPoisoned), never Ok *)
Theorem c05_poisoned_never_commits : forall cm p, poisoned p = true ->
  snd (commit_p cm p) <> COk /\
  (iolatch p = false -> commit_p cm p = (mkptx (abort (Poison.own p)) true false, CPoisoned)).
Proof. exact poisoned_never_commits. Qed.

(* Drop = abort *)
Theorem c05_drop_is_abort : forall p, iolatch p = false ->
  Poison.own (drop_p p) = abort (Poison.own p) /\ Poison.own (fst (abort_p p)) = abort (Poison.own p) /\ snd (abort_p p) = true.
Proof. exact drop_is_abort. Qed.

(* for every sequence of calls, each complete or failed at any position (leaving the working view in an
   arbitrary half-applied state): abort(), Drop and the commit() of the poisoned transaction all end in
   the state before begin_write (id consumed, outside registrations kept) *)
Theorem c05_abandoned_restores : forall s cs cm, Inv s -> inw s = false -> calls_ok cs (start s) ->
  let p := run_calls cs (start s) in
  let s' := bump (run (pin_part (ran_all cs)) s) in
  iolatch p = false ->
  Poison.own (fst (abort_p p)) = s' /\ snd (abort_p p) = true /\
  Poison.own (drop_p p) = s' /\
  (poisoned p = true -> Poison.own (fst (commit_p cm p)) = s' /\ snd (commit_p cm p) = CPoisoned).
Proof. exact abandoned_restores. Qed.

Theorem c05_abandoned_observables : forall s cs, Inv s -> inw s = false ->
  let s' := bump (run (pin_part (ran_all cs)) s) in
  same_committed s' s /\ NoDup (alloc s') /\ (forall q, In q (alloc s') <-> In q (alloc s)) /\
  pins s' = pins (run (pin_part (ran_all cs)) s) /\
  normal_w s' /\ inw s' = false /\ Inv s' /\ (lastid s' = lastid s + 1)%N /\ (lastid s < lastid s')%N.
Proof. exact abandoned_observables. Qed.

(* a half-applied operation can never be committed: once some call left an unreported part of itself (any
   call kind, any failure position, any error kind incl. corrupted reads) the commit is not Ok and publishes
   nothing; without an I/O latch it is Err(TransactionPoisoned) and the state is restored exactly *)
Theorem c05_half_applied_never_commits : forall s cs cm, Inv s -> inw s = false -> calls_ok cs (start s) ->
  existsb partial_failed cs = true ->
  let p := run_calls cs (start s) in
  snd (commit_p cm p) <> COk /\
  dur (Poison.own (fst (commit_p cm p))) = dur s /\ lat (Poison.own (fst (commit_p cm p))) = lat s /\
  (iolatch p = false ->
     snd (commit_p cm p) = CPoisoned /\
     Poison.own (fst (commit_p cm p)) = bump (run (pin_part (ran_all cs)) s)).
Proof. exact half_applied_never_commits. Qed.

(* the same for "failed after its first mutation by anything but a corrupted read" (an entry-by-entry call
   that failed after reported entries counts here too) *)
Theorem c05_mutated_noncorrupt_never_commits : forall s cs cm, Inv s -> inw s = false -> calls_ok cs (start s) ->
  existsb failed_after_mutation_nc cs = true ->
  let p := run_calls cs (start s) in
  snd (commit_p cm p) <> COk /\
  dur (Poison.own (fst (commit_p cm p))) = dur s /\ lat (Poison.own (fst (commit_p cm p))) = lat s /\
  (iolatch p = false ->
     snd (commit_p cm p) = CPoisoned /\
     Poison.own (fst (commit_p cm p)) = bump (run (pin_part (ran_all cs)) s)).
Proof. exact mutated_noncorrupt_never_commits. Qed.

(* conversely, a transaction that is NOT blocked holds no unreported part of any failed call: what a commit
   then publishes consists of complete, reported steps only *)
Theorem c05_unblocked_no_half : forall cs p, calls_ok cs p -> blocked (run_calls cs p) = false ->
  Forall (fun c => match cfail c with Some f => staged_partial c f = false | None => True end) cs.
Proof. exact unblocked_no_half. Qed.

(* fault_sequences, part 1: with the storage latched by an I/O error commit / abort report the error and no
   version moves *)
Theorem c05_latched_end_publishes_nothing : forall s cs cm, Inv s -> inw s = false -> calls_ok cs (start s) ->
  let p := run_calls cs (start s) in
  iolatch p = true ->
  snd (commit_p cm p) = CIoError /\ snd (abort_p p) = false /\
  dur (Poison.own (fst (commit_p cm p))) = dur s /\ lat (Poison.own (fst (commit_p cm p))) = lat s /\
  dur (Poison.own (fst (abort_p p))) = dur s /\ lat (Poison.own (fst (abort_p p))) = lat s /\
  dur (Poison.own (drop_p p)) = dur s /\ lat (Poison.own (drop_p p)) = lat s.
Proof. exact latched_end_publishes_nothing. Qed.

(* fault_sequences, part 2 (link to C11's recovery model, Reopen/Snapshot.v): for every session history
   (all steps of Own.v, leaks, check_integrity, clean closes, crashes), every call sequence of a write
   transaction begun with no other one live, every way of ending it with the storage latched: the session keeps
   needs_repair latched and its durable image; the process that opens the file afterwards serves the data and
   system trees of the durable version from before begin_write with its freed tables and persistent
   savepoints, has EXACTLY the pages that image requires allocated (nothing the abandoned transaction consumed
   stays consumed), satisfies the ownership invariant and keeps it whatever is done next.
   By construction of the session model (Latched.v header): nothing reaches the file after the latch; what
   an interrupted write-back leaves below page granularity is C01's subject and validated here per run. *)
Theorem c05_latched_end_reopen_serves_pretransaction : forall h cs e, xadmissible xinit h ->
  let x := xrun h xinit in
  inw (Snapshot.own x) = false -> calls_ok cs (start (Snapshot.own x)) ->
  iolatch (run_calls cs (start (Snapshot.own x))) = true ->
  let y := reopen_after x cs e in
  let s' := Snapshot.own y in
  nrep (session_after x cs e) = true /\ img (session_after x cs e) = img x /\
  y = reopened (img x) /\
  vdata (dur s') = vdata (dur (Snapshot.own x)) /\ vsys (dur s') = vsys (dur (Snapshot.own x)) /\ lat s' = dur s' /\
  dfreed s' = d_dfreed (img x) /\ sfreed s' = d_sfreed (img x) /\ pins s' = d_sps (img x) /\
  ufreed s' = [] /\ unpers s' = [] /\ pend s' = [] /\
  NoDup (alloc s') /\ (forall q, In q (alloc s') <-> In q (required (img x))) /\
  leaked y = [] /\ nrep y = false /\
  Inv s' /\ inw s' = false /\
  (forall h', admissible s' h' -> Inv (run h' s') /\ incl (pinned (run h' s')) (alloc (run h' s'))).
Proof. exact latched_end_reopen_serves_pre. Qed.

(* the flag-level functions extracted for the correspondence are the flag part of `exec` / `commit_p` *)
Theorem c05_flags_after_exec : forall c f p, cfail c = Some f ->
  (poisoned (exec c p), iolatch (exec c p)) =
  flags_after (ck c) (mutated f) (f_err f) (f_lost f) (f_armed f) (poisoned p) (iolatch p).
Proof. exact flags_after_exec. Qed.

(* ... and the test applied to the observed (unreported part staged?, poisoned?) of a call that failed with
   Err(Corrupted) accepts everything the model can do *)
Theorem c05_corrupt_outcome_sound : forall c f p, cfail c = Some f -> fail_ok c f = true -> f_err f = ECorrupt ->
  poisoned p = false ->
  corrupt_outcome_ok (ck c) (staged_partial c f) (poisoned (exec c p)) = true.
Proof. exact corrupt_outcome_sound. Qed.

Theorem c05_corrupt_poison_sound : forall c f p, cfail c = Some f -> fail_ok c f = true -> f_err f = ECorrupt ->
  poisoned p = false -> corrupt_poison_ok (ck c) (poisoned (exec c p)) = true.
Proof. exact corrupt_poison_sound. Qed.

(* the code BEFORE the PartialUpdateGuard of MultimapTable (commit 90d01ff of /repo) is refuted: same call, same
   corrupted read in the second step; the code as it is refuses the commit and restores the state, the variant
   without the guard commits Ok a state in which a page of the committed data tree is free in the allocator
   and a fresh page is owned by nobody *)
Theorem c05_unguarded_multimap_refuted :
  let s := run w_hist init in
  Inv s /\ inw s = false /\ calls_ok w_calls (start s) /\ existsb partial_failed w_calls = true /\
  commit_p w_commit (run_calls w_calls (start s)) = (mkptx (bump s) true false, CPoisoned) /\
  let q := run_calls_with poisons_unguarded w_calls (start s) in
  blocked q = false /\ snd (commit_p w_commit q) = COk /\
  let s' := Poison.own (fst (commit_p w_commit q)) in
  own_checkb s' = false /\
  In 3%positive (vdata (lat s')) /\ ~ In 3%positive (alloc s') /\
  In 4%positive (alloc s') /\ ~ In 4%positive (owned_c s').
Proof. exact unguarded_multimap_refuted. Qed.

(* the code BEFORE commit c277127 (an unwind out of an extract_if step that is not the predicate's was not
   noticed) is refuted: the code as it is refuses the commit and restores the state; the variant commits Ok a
   state with a page allocated and owned by nobody *)
Theorem c05_unguarded_extract_unwind_refuted :
  let s := run w_hist init in
  Inv s /\ inw s = false /\ calls_ok x_calls (start s) /\ existsb partial_failed x_calls = true /\
  commit_p w_commit (run_calls x_calls (start s)) = (mkptx (bump s) true false, CPoisoned) /\
  let q := run_calls_with poisons_step_unwind_unguarded x_calls (start s) in
  blocked q = false /\ snd (commit_p w_commit q) = COk /\
  let s' := Poison.own (fst (commit_p w_commit q)) in
  own_checkb s' = false /\ In 4%positive (alloc s') /\ ~ In 4%positive (owned_c s').
Proof. exact unguarded_extract_unwind_refuted. Qed.

Theorem c05_commit_result_spec : forall cm p, snd (commit_p cm p) = commit_result (poisoned p) (iolatch p).
Proof. exact commit_result_spec. Qed.

(* ================================================================ non-vacuity *)

Open Scope positive_scope.

(* a history reaching a state with a reader, a persistent and an ephemeral savepoint, DATA_FREED,
   SYSTEM_FREED and unpersisted freed records, unpersisted pages and a pending non-durable commit *)
Definition c05_history : list op :=
  [ OBeginWrite; OMutData [1;2;3]; OCommitDur [1;2;3] [10;11] [] false true;
    OBeginRead 7%N;
    OBeginWrite; OSpCreate 20%N true; OMutSys [10;11;12]; OMutData [1;2;4;5]; OCommitDur [1;2;4;5] [10;13;14] [] false true;
    OBeginWrite; OSpCreate 9%N false; OMutData [1;6]; OCommitNd [1;6] [10;13;15] ].

(* a body that allocates, frees committed and uncommitted pages, creates a persistent and an ephemeral
   savepoint, stages the deletion of a persistent one, registers a reader, drops one, restores to the
   ephemeral savepoint of the history and writes again *)
Definition c05_body : list op :=
  [ OMutData [1;30;31]; OSpCreate 40%N true; OMutSys [10;13;32]; OSpCreate 41%N false; OSpDelete 20%N;
    OBeginRead 42%N; ODropPin 7%N;
    ORestore 9%N; OMutSys [10;33]; OMutData [1;2;4;34] ].

Example c05_nonvacuous_state :
  let s := run c05_history init in
  admissible init c05_history /\ own_checkb s = true /\ inw s = false /\
  pins s = [mkpin 7 2 [1;2;3] false; mkpin 20 2 [1;2;3] true; mkpin 9 3 [1;2;4;5] false] /\
  dfreed s = [(3%N, [3])] /\ sfreed s = [(4%N, [14])] /\ ufreed s = [(4%N, [2;4;5])] /\
  unpers s = [15;6] /\ pend s = [(4%N, 3%N)].
Proof. vm_compute. repeat split; reflexivity. Qed.

Example c05_nonvacuous_abort :
  let s := run c05_history init in
  let t := run c05_body (begin_write s) in
  is_body c05_body = true /\ admissible (begin_write s) c05_body /\
  (* the body really changed the allocator, the pins and the staged savepoint state *)
  alloc t = [34;33;15;6;13;14;4;5;10;1;2;3] /\ alloc s = [15;6;13;14;4;5;10;1;2;3] /\
  wasc t = [34;33] /\ wdfr t = [6;5] /\ wsfr t = [15;13] /\ wrest t = Some 3%N /\
  wcreated t = [40%N] /\ wdeleted t = [20%N] /\ length (pins t) = 5%nat /\
  (* and the abort undoes all of it *)
  abort t = bump (run (pin_part c05_body) s) /\
  alloc (abort t) = alloc s /\ dfreed (abort t) = dfreed s /\ ufreed (abort t) = ufreed s /\ pend (abort t) = pend s /\
  pins (abort t) = [mkpin 20 2 [1;2;3] true; mkpin 9 3 [1;2;4;5] false; mkpin 41 4 [1;6] false; mkpin 42 4 [1;6] false] /\
  own_checkb (abort t) = true.
Proof. vm_compute. repeat split; reflexivity. Qed.

(* a closed body (no outside registration): everything, pins included, is back *)
Example c05_nonvacuous_closed :
  let s := run c05_history init in
  let body := [ OMutData [1;30;31]; OSpCreate 40%N true; OMutSys [10;13;32]; OSpDelete 20%N; ORestore 9%N; OMutSys [10;33] ] in
  is_body body = true /\ no_ext body = true /\ admissible (begin_write s) body /\
  pins (run body (begin_write s)) <> pins s /\
  abort (run body (begin_write s)) = bump s.
Proof. vm_compute. repeat split; try reflexivity. discriminate. Qed.

(* a call sequence with a retain whose predicate panics after the first removals (half-applied working
   view: garbage trees, one fresh page, one uncommitted page freed), later calls, then commit():
   TransactionPoisoned and the state restored *)
Definition c05_calls : list call :=
  [ mkcall KWrite [OMutData [1;30;31]] None;
    mkcall KSavepoint [OSpCreate 40%N true; OMutSys [10;13;32]] None;
    mkcall KRetain [OMutData [1;35]]
      (Some (mkfail 0 EPanic (Some (mkhalf [36] [31] (mkwv [1;99] [10] [6;77] [] [] (Some 1%N) [20%N]))) false false));
    mkcall KRename [OMutData [1;37]; OMutData [1;38]] (Some (mkfail 0 ELogical None false false));
    mkcall KWrite [OMutSys [10;39]] None ].

Example c05_nonvacuous_poison :
  let s := run c05_history init in
  let p := run_calls c05_calls (start s) in
  calls_ok c05_calls (start s) /\ existsb partial_failed c05_calls = true /\
  poisoned p = true /\ iolatch p = false /\
  wdata (Poison.own p) = [1;99] /\ own_checkb (Poison.own p) = false /\
  commit_p (OCommitDur [1;99] [10;39] [] false true) p = (mkptx (bump s) true false, CPoisoned).
Proof. vm_compute. repeat split; reflexivity. Qed.

(* a storage error in the middle of rename_table: poisoned and latched; commit reports the I/O error *)
Example c05_nonvacuous_latched :
  let s := run c05_history init in
  let cs := [ mkcall KRename [OMutData [1;6;37]; OMutData [1;6;38]] (Some (mkfail 1 EIo None false false)) ] in
  let p := run_calls cs (start s) in
  calls_ok cs (start s) /\ poisoned p = true /\ iolatch p = true /\
  snd (commit_p (OCommitDur [1;6;37] [10;13;15] [] false true) p) = CIoError /\
  lat (Poison.own (fst (commit_p (OCommitDur [1;6;37] [10;13;15] [] false true) p))) = lat s.
Proof. vm_compute. repeat split; reflexivity. Qed.

(* corrupted reads: delete_persistent_savepoint fails at its parse (nothing staged: the transaction is exactly
   as before the call and commits Ok with the other writes); a persistent_savepoint fails after storing the id
   counter (only that step stays, not blocked); a retain fails after two reported removals (the reported prefix
   stays, not blocked); rename fails between its two catalog updates (poisoned: the commit is refused and the
   state restored) *)
Definition c05_corrupt_calls_ok : list call :=
  [ mkcall KWrite [OMutData [1;30;31]] None;
    mkcall KSpDelete [OSpDelete 20%N; OMutSys [10;13;32]] (Some (mkfail 0 ECorrupt None false false));
    mkcall KRetain [OMutData [1;30]; OMutData [1;35]; OMutData [1;36]] (Some (mkfail 2 ECorrupt None false false)) ].

Example c05_nonvacuous_corrupt_atomic :
  let s := run c05_history init in
  let p := run_calls c05_corrupt_calls_ok (start s) in
  calls_ok c05_corrupt_calls_ok (start s) /\ existsb partial_failed c05_corrupt_calls_ok = false /\
  blocked p = false /\ wdeleted (Poison.own p) = [] /\ wdata (Poison.own p) = [1;35] /\
  snd (commit_p (OCommitDur [1;35] [10;13;15] [] false true) p) = COk.
Proof. vm_compute. repeat split; reflexivity. Qed.

Example c05_nonvacuous_corrupt_ratchet :
  let s := run c05_history init in
  let c := mkcall KSavepoint [OMutSys [10;13;32]; OSpCreate 40%N true; OMutSys [10;13;33]] (Some (mkfail 1 ECorrupt None false false)) in
  call_ok c (start s) /\ staged_partial c (mkfail 1 ECorrupt None false false) = false /\
  blocked (exec c (start s)) = false /\ wsys (Poison.own (exec c (start s))) = [10;13;32] /\
  wcreated (Poison.own (exec c (start s))) = [].
Proof. vm_compute. repeat split; reflexivity. Qed.

Example c05_nonvacuous_corrupt_blocked :
  let s := run c05_history init in
  let cs := [ mkcall KRename [OMutData [1;6;37]; OMutData [1;6;38]] (Some (mkfail 1 ECorrupt None false false)) ] in
  let p := run_calls cs (start s) in
  calls_ok cs (start s) /\ existsb partial_failed cs = true /\ poisoned p = true /\ iolatch p = false /\
  commit_p (OCommitDur [1;6;37] [10;13;15] [] false true) p = (mkptx (bump s) true false, CPoisoned).
Proof. vm_compute. repeat split; reflexivity. Qed.

(* the multimap guard: a failure in the second step of MultimapTable::insert (half-executed: the subtree's old
   page queued for freeing while the top-level entry still names it) poisons *)
Example c05_nonvacuous_multimap_guard :
  let s := run w_hist init in
  let p := run_calls w_calls (start s) in
  calls_ok w_calls (start s) /\ poisoned p = true /\ wdfr (Poison.own p) = [3] /\ wdata (Poison.own p) = [1;2;3].
Proof. vm_compute. repeat split; reflexivity. Qed.

(* the latched end inside a session: a history with a quick-repair commit and a non-durable commit, then a
   transaction whose rename fails with an I/O error after its first catalog update: the hypotheses of
   c05_latched_end_reopen_serves_pretransaction hold, the reopened state serves the durable version (the
   non-durable commit is lost) *)
Definition c05_xhist : list xop :=
  [ XOp OBeginWrite false; XOp (OMutData [1;2;3]) false; XOp (OCommitDur [1;2;3] [10;11] [] true true) false;
    XOp OBeginWrite false; XOp (OMutData [1;2;4]) false; XOp (OCommitNd [1;2;4] [10;11]) false ].
Definition c05_xcalls : list call :=
  [ mkcall KRename [OMutData [1;2;4;37]; OMutData [1;2;4;38]] (Some (mkfail 1 EIo None false false)) ].

Example c05_nonvacuous_latched_reopen :
  let x := xrun c05_xhist xinit in
  xadmissible xinit c05_xhist /\ inw (Snapshot.own x) = false /\ calls_ok c05_xcalls (start (Snapshot.own x)) /\
  iolatch (run_calls c05_xcalls (start (Snapshot.own x))) = true /\
  vdata (lat (Snapshot.own x)) = [1;2;4] /\
  vdata (dur (Snapshot.own (reopen_after x c05_xcalls TDrop))) = [1;2;3] /\
  alloc (Snapshot.own (reopen_after x c05_xcalls TDrop)) = alloc (Snapshot.own (xrun (firstn 3 c05_xhist) xinit)).
Proof. vm_compute. repeat split; reflexivity. Qed.

(* ------------------------------------------------------------------------------------------------
   Tie to the code (Gen/Fns.v is regenerated from transactions.rs on every run by tools/gen_fns.py; see
   design.d/GEN.md): the free horizons of the ownership model are the expressions translated from
   durable_commit / non_durable_commit (`oldest_live_read...().map_or(transaction_id, |x| x.next())`). *)
From RV Require Import Gen.FnsLib Gen.Fns Gen.FnsTxnP.

Theorem c05_code_durable_commit_free_until_is_model : forall dflt s,
  Own.horizon dflt s = durable_commit_free_until (PSet.minN (Own.live_ids s)) dflt.
Proof. exact own_horizon_is_model. Qed.

Theorem c05_code_non_durable_commit_free_until_is_model : forall dflt s,
  Own.nd_horizon dflt s
  = non_durable_commit_free_until
      (PSet.minN (filter (fun r => PSet.memN r (map fst (Own.pend s))) (map Own.ptxn (Own.pins s)))) dflt.
Proof. exact own_nd_horizon_is_model. Qed.
