(* C14 -- The page allocator never double-allocates and never loses space.
   Property file: only `exact` of lemmas proved in Alloc/*P.v, plus non-vacuity Examples.

   Model (definitions only): Alloc/Bitmap.v  U64GroupedBitmap, BtreeBitmap (64-ary summary tree)
                             Alloc/Buddy.v   BuddyAllocator (new/alloc/alloc_lowest/free/record_alloc/resize/to_vec/from_bytes)
                             Alloc/Region.v  RegionTracker, Allocators, allocate_helper_retry/free_helper/mark_page_allocated
   Vocabulary (Alloc/BuddyP.v):
     fr a k i        block k/i (pages [i*2^k,(i+1)*2^k)) is marked free in the order-k bitmap
     pfree a p       page p lies in a block marked free                        (the free space)
     blk_free a k i  every page of block k/i is free;   blk_used a k i  no page of it is free
     has_free a j    some block is marked free at order j
     BInv a          every bitmap is a well-formed summary tree (a parent bit is set iff the child word is all
                     ones, padding bits set, root <= 64 entries), bitmap k has len/2^k entries, no page is
                     free at two orders (no_nested), below max_order no two buddies are both free (merged).
   Not proved (validated on every run by the harness oracle instead, see design.d/C14.md):
     alloc_lowest returns the LOWEST free index; Allocators::resize_to keeps the tracker invariant. *)
From Coq Require Import List NArith Bool Lia.
From RV Require Import Base.Bytes Alloc.Bitmap Alloc.Buddy Alloc.Region Alloc.BitmapP Alloc.TreeP Alloc.BuddyP
  Alloc.ResizeP Alloc.LowestP Alloc.SerialP Alloc.OpsP Alloc.RegionP.
Import ListNotations.
Open Scope N_scope.

(* ---------------------------------------------------------------- the bitmap tree *)

(* find_first_unset answers the least unset leaf bit, or None when every bit is set *)
Theorem bitmap_find_first_unset : forall t,
  bt_ok t ->
  match bt_find_first_unset t with
  | Some r => bt_get t r = false /\ (forall i, i < r -> bt_get t i = true)
  | None => forall i, bt_get t i = true
  end.
Proof. exact bt_find_spec. Qed.

Theorem bitmap_set : forall t i j, tree_ok t -> i < bt_len t -> bt_get (bt_set t i) j = (j =? i) || bt_get t j.
Proof. exact bt_set_get. Qed.

Theorem bitmap_clear : forall t i j, tree_ok t -> i < bt_len t -> bt_get (bt_clear t i) j = negb (j =? i) && bt_get t j.
Proof. exact bt_clear_get. Qed.

Theorem bitmap_set_inv : forall t i, bt_ok t -> i < bt_len t -> bt_ok (bt_set t i).
Proof. exact bt_set_ok. Qed.

Theorem bitmap_clear_inv : forall t i, bt_ok t -> i < bt_len t -> bt_ok (bt_clear t i).
Proof. exact bt_clear_ok. Qed.

(* ---------------------------------------------------------------- BInv is established and preserved *)

(* new: invariant holds, everything is free, for every size and capacity *)
Theorem new_inv : forall n cap,
  let a := buddy_new n cap in
  BInv a /\ blen a = n /\ bmax a = calculate_usable_order cap /\ (forall p, pfree a p <-> p < n).
Proof. exact new_spec. Qed.

(* alloc: the block handed out lies inside the region, was completely free, and exactly it leaves the
   free space; the invariant is kept.  A refusal changes nothing. *)
Theorem alloc_sound : forall a k,
  BInv a ->
  match buddy_alloc a k with
  | (Some x, a') =>
      BInv a' /\ bmax a' = bmax a /\ blen a' = blen a /\ k <= bmax a /\ (x + 1) * 2 ^ k <= blen a
      /\ blk_free a k x /\ (forall p, pfree a' p <-> pfree a p /\ p / 2 ^ k <> x)
  | (None, a') => a' = a /\ forall j, k <= j -> ~ has_free a j
  end.
Proof. exact alloc_spec. Qed.

(* a request is refused only when no aligned free block of that order exists (uses maximal merging) *)
Theorem alloc_complete : forall a k,
  BInv a -> k <= bmax a -> (fst (buddy_alloc a k) = None <-> ~ exists i, blk_free a k i).
Proof. exact alloc_complete_iff. Qed.

Theorem alloc_complete_above_max_order : forall a k,
  BInv a -> bmax a < k -> blen a < 2 ^ (bmax a + 1) -> ~ exists i, blk_free a k i.
Proof. exact no_block_above. Qed.

(* alloc_lowest: same guarantees as alloc (that the index is the lowest is validated, not proved) *)
Theorem alloc_lowest_sound : forall a k,
  BInv a ->
  match buddy_alloc_lowest a k with
  | (Some x, a') =>
      BInv a' /\ bmax a' = bmax a /\ blen a' = blen a /\ k <= bmax a /\ (x + 1) * 2 ^ k <= blen a
      /\ blk_free a k x /\ (forall p, pfree a' p <-> pfree a p /\ p / 2 ^ k <> x)
  | (None, a') => a' = a /\ forall j, k <= j -> ~ has_free a j
  end.
Proof. exact alloc_lowest_spec. Qed.

(* free: the space returns to the free space, merged into the block of order o that is now marked free,
   and o is the largest the neighbours allow: the buddy of that block is not completely free *)
Theorem free_merges : forall a i k,
  BInv a -> k <= bmax a -> i < blen a / 2 ^ k -> blk_used a k i ->
  let '(o, a') := buddy_free a i k in
  BInv a' /\ bmax a' = bmax a /\ blen a' = blen a /\ k <= o /\ o <= bmax a
  /\ fr a' o (i / 2 ^ (o - k)) = true
  /\ (forall p, pfree a' p <-> pfree a p \/ p / 2 ^ k = i)
  /\ (o < bmax a -> ~ blk_free a' o (buddy_page (i / 2 ^ (o - k)))).
Proof. exact free_spec. Qed.

(* explicit reservation: accepted exactly for in-range, completely free blocks; otherwise no change *)
Theorem record_alloc_sound : forall a i k,
  BInv a ->
  match buddy_record_alloc a i k with
  | (true, a') =>
      BInv a' /\ bmax a' = bmax a /\ blen a' = blen a /\ k <= bmax a /\ (i + 1) * 2 ^ k <= blen a
      /\ blk_free a k i /\ (forall p, pfree a' p <-> pfree a p /\ p / 2 ^ k <> i)
  | (false, a') => a' = a /\ (bmax a < k \/ blen a / 2 ^ k <= i \/ ~ blk_free a k i)
  end.
Proof. exact record_alloc_spec. Qed.

(* resize, growing or shrinking, at any sizes: under the code's own assertions (the bitmap trees have enough
   levels; the dropped tail is free) every assert holds, the invariant is kept, old free space below the new
   length is kept and the new pages are free *)
Theorem resize_inv : forall a n,
  BInv a -> bmax a <= 32 -> resize_trees_pre a n = true ->
  (forall p, n <= p -> p < blen a -> pfree a p) ->
  snd (buddy_resize_ok a n) = true /\ BInv (buddy_resize a n) /\ blen (buddy_resize a n) = n
  /\ bmax (buddy_resize a n) = bmax a
  /\ (forall p, pfree (buddy_resize a n) p <-> (pfree a p /\ p < n) \/ (blen a <= p /\ p < n)).
Proof. exact resize_spec. Qed.

(* shrinking never needs the capacity assertion *)
Theorem resize_shrink_capacity : forall L a n, shape L a -> n <= L -> resize_trees_pre a n = true.
Proof. exact resize_trees_pre_shrink. Qed.

(* ---------------------------------------------------------------- saving and reloading *)

(* from_bytes (to_vec a) is a with every bitmap level trimmed to the words its length needs *)
Theorem serialize_roundtrip_exact : forall a,
  buddy_small a -> nlen (bfree a) = bmax a + 1 -> buddy_from_bytes (buddy_to_vec a) = norm a.
Proof. exact buddy_roundtrip. Qed.

(* ... which keeps the invariant, every mark, the free space, and the serialised bytes *)
Theorem serialize_roundtrip : forall a,
  BInv a -> buddy_small a ->
  let a' := buddy_from_bytes (buddy_to_vec a) in
  BInv a' /\ blen a' = blen a /\ bmax a' = bmax a /\ (forall k i, fr a' k i = fr a k i)
  /\ (forall p, pfree a' p <-> pfree a p) /\ buddy_to_vec a' = buddy_to_vec a.
Proof. exact roundtrip_spec. Qed.

(* observational basis: in good states the marks are a function of the free space (canonical form) *)
Theorem marks_determined_by_free_space : forall L a b,
  BInvL L a -> BInvL L b -> bmax a = bmax b -> (forall p, pfree a p <-> pfree b p) ->
  forall k i, fr a k i = fr b k i.
Proof. exact marks_determined. Qed.

(* ---------------------------------------------------------------- any sequence of operations *)

(* good (a, live): BInv a; every live block is inside the region and none of its pages is free; live blocks
   are pairwise disjoint; every page below len is free or inside a live block *)
Theorem live_disjoint_init : forall n cap, good (buddy_new n cap, []).
Proof. exact good_new. Qed.

Theorem live_disjoint_step : forall s o s', good s -> step s o s' -> good s'.
Proof. exact step_good. Qed.

Theorem live_disjoint : forall n cap os s', steps (buddy_new n cap, []) os s' -> good s'.
Proof. exact steps_from_new_good. Qed.

(* ---------------------------------------------------------------- the region tracker *)

(* tinv al: every region allocator satisfies BInv, and a region that has a free block of order >= k is not
   marked full at order k ("never reported full"); regions beyond the last one are marked full *)
Theorem tracker_sound_allocate : forall fuel al k lowest,
  tinv al -> k < nlen (trk al) -> tinv (snd (allocate_retry fuel al k lowest)).
Proof. exact allocate_retry_tinv. Qed.

Theorem tracker_sound_free : forall m r i k,
  tinv (als m) -> r < nlen (regs (als m)) ->
  k <= bmax (reg (als m) r) -> i < blen (reg (als m) r) / 2 ^ k -> blk_used (reg (als m) r) k i ->
  tinv (als (mem_free m r i k)).
Proof. exact mem_free_tinv. Qed.

Theorem tracker_sound_record_alloc : forall m r i k,
  tinv (als m) -> tinv (als (snd (mem_record_alloc m r i k))).
Proof. exact mem_record_alloc_tinv. Qed.

(* Allocators::new establishes the tracker invariant (resize_to: validated per run, not proved) *)
Theorem tracker_sound_new : forall l, tinv (allocators_new l).
Proof. exact allocators_new_tinv. Qed.

(* the retry loop gives up (and the file grows) only when no region has a free block of the order or above *)
Theorem grow_only_when_full : forall al k,
  tinv al -> k < nlen (trk al) -> tracker_find_free (trk al) k = None ->
  forall r, r < nlen (regs al) -> forall j, k <= j -> ~ has_free (reg al r) j.
Proof. exact retry_none_all_full. Qed.

(* ================================================================ non-vacuity *)

Definition ex_a : Buddy := buddy_new 13 16.       (* 13 pages (not a power of two) in a region of capacity 16 *)

(* a valid program reaching a fragmented state: blocks of orders 0, 2, 1 handed out, one freed, one reserved,
   saved and reloaded, then the region grown to its capacity *)
Example ex_program :
  exists s', steps (ex_a, []) [OAlloc 0; OAlloc 2; OAllocLowest 1; OFree 12 0; ORecord 12 0; OReload; OResize 16] s'
             /\ blen (fst s') = 16 /\ snd s' = [(12, 0); (0, 1); (2, 2)].
Proof.
  eexists. split.
  - eapply steps_cons. { apply (SAllocSome _ _ 0 12). vm_compute. reflexivity. }
    eapply steps_cons. { apply (SAllocSome _ _ 2 2). vm_compute. reflexivity. }
    eapply steps_cons. { apply (SLowSome _ _ 1 0). vm_compute. reflexivity. }
    eapply steps_cons. { apply SFree. right. right. left. reflexivity. }
    eapply steps_cons. { apply (SRecordOk _ _ 12 0). vm_compute. reflexivity. }
    eapply steps_cons. { apply SReload. apply buddy_smallb_sound. vm_compute. reflexivity. }
    eapply steps_cons. { apply SResize; [vm_compute; reflexivity|]. repeat constructor; vm_compute; discriminate. }
    apply steps_nil.
  - vm_compute. split; reflexivity.
Qed.

(* hence the hypotheses BInv / blk_used / good of the theorems above hold on that state *)
Example ex_program_good : exists s', good s' /\ snd s' = [(12, 0); (0, 1); (2, 2)].
Proof. destruct ex_program as [s' [H [_ E]]]. exists s'. split; [exact (live_disjoint _ _ _ _ H)|exact E]. Qed.

(* a full allocator refuses; the refusal is the None branch of alloc_sound / alloc_complete *)
Example ex_refused : fst (buddy_alloc (snd (buddy_alloc (buddy_new 2 2) 1)) 0) = None.
Proof. vm_compute. reflexivity. Qed.

(* freeing two order-0 buddies one after the other merges them back up to order 2 *)
Example ex_merge :
  let a1 := snd (buddy_alloc (buddy_new 4 4) 0) in
  let a2 := snd (buddy_alloc a1 0) in
  let a3 := snd (buddy_free a2 0 0) in
  fst (buddy_alloc (buddy_new 4 4) 0) = Some 0 /\ fst (buddy_alloc a1 0) = Some 1
  /\ fst (buddy_free a2 0 0) = 0 /\ fst (buddy_free a3 1 0) = 2.
Proof. vm_compute. repeat split; reflexivity. Qed.

(* resize preconditions are satisfiable across a word boundary, and violated beyond the tree capacity *)
Example ex_resize_pre : resize_trees_pre ex_a 40 = true /\ resize_trees_pre (buddy_new 60 4096) 70 = true
                        /\ resize_trees_pre ex_a 70 = false.
Proof. vm_compute. repeat split; reflexivity. Qed.

Example ex_roundtrip : buddy_smallb ex_a = true
  /\ buddy_to_vec (buddy_from_bytes (buddy_to_vec ex_a)) = buddy_to_vec ex_a.
Proof. vm_compute. split; reflexivity. Qed.

(* a two-level summary tree: bits 65 and 129 cleared, the first unset one is found through the root *)
Example ex_bitmap :
  let t := bt_clear (bt_clear (bt_new_padded 130 130 4096) 129) 65 in
  nlen t = 2 /\ bt_find_first_unset t = Some 65 /\ fst (bt_alloc (snd (bt_alloc t))) = Some 129.
Proof. vm_compute. repeat split; reflexivity. Qed.

(* the tracker invariant holds for a fresh three-region layout, and allocate_helper_retry serves from region 0 *)
Example ex_tracker :
  let al := allocators_new (mkLayout 16 2 (Some 5)) in
  tinv al /\ fst (allocate_retry 5 al 2 false) = Some (0, 0) /\ tracker_find_free (trk al) 3 = Some 0.
Proof. split; [apply tracker_sound_new|]. vm_compute. split; reflexivity. Qed.

(* ------------------------------------------------------------------------------------------------
   Tie to the code (Gen/Fns.v is regenerated from buddy_allocator.rs / bitmap.rs / page_manager.rs on
   every run by tools/gen_fns.py): the order / index arithmetic of the allocator model is equal to the
   functions translated from the Rust sources (on the range of their u32 / usize arguments). *)
From RV Require Import Gen.FnsLib Gen.Fns Gen.FnsAllocP.

Theorem c14_code_next_higher_order_is_model : forall p, Fns.next_higher_order p = Buddy.next_higher_order p.
Proof. exact next_higher_order_is_model. Qed.

Theorem c14_code_buddy_page_is_model : forall p, Fns.buddy_page p = Buddy.buddy_page p.
Proof. exact buddy_page_is_model. Qed.

Theorem c14_code_calculate_usable_order_is_model : forall pages, (pages < 2 ^ 32)%N ->
  Fns.calculate_usable_order pages = Buddy.calculate_usable_order pages.
Proof. exact calculate_usable_order_is_model. Qed.

Theorem c14_code_required_words_is_model : forall e,
  U64GroupedBitmap_required_words e = Bitmap.required_words e.
Proof. exact required_words_is_model. Qed.

Theorem c14_code_height_for_capacity_is_model : forall c, (c < 2 ^ 32)%N ->
  BtreeBitmap_height_for_capacity c = Bitmap.height_for_capacity c.
Proof. exact height_for_capacity_is_model. Qed.

Theorem c14_code_data_index_of_is_model : forall bit,
  U64GroupedBitmap_data_index_of bit = ((bit / 64)%N, (bit mod 64)%N).
Proof. exact data_index_of_is_model. Qed.

Theorem c14_code_select_mask_is_model : forall bit, (bit < 64)%N ->
  U64GroupedBitmap_select_mask bit = (2 ^ bit)%N.
Proof. exact select_mask_is_model. Qed.

Theorem c14_code_bits_in_range_is_model : forall lo hi i, Fns.bits_in_range_guard lo hi = true ->
  N.testbit (Fns.bits_in_range lo hi) i = ((lo <=? i)%N && (i <? hi)%N)%bool.
Proof. exact bits_in_range_spec. Qed.

Theorem c14_code_ceil_log2_is_model : forall x, (0 < x)%N -> Fns.ceil_log2 x = N.log2_up x.
Proof. exact ceil_log2_is_log2_up. Qed.
