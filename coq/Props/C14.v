(* C14 -- The page allocator never double-allocates and never loses space.
   Property file: only `exact` of lemmas proved in Alloc/*P.v, plus non-vacuity Examples.

   Model (definitions only): Alloc/Bitmap.v  U64GroupedBitmap, BtreeBitmap (64-ary summary tree)
                             Alloc/Buddy.v   BuddyAllocator (new/alloc/alloc_lowest/free/record_alloc/resize/to_vec/from_bytes)
                             Alloc/Region.v  RegionTracker, Allocators, allocate_helper_retry/free_helper/mark_page_allocated
   Vocabulary (Alloc/BuddyP.v):
     fr a k i        block k/i (pages [i*2^k,(i+1)*2^k)) is marked free in the order-k bitmap
     pfree a p       page p lies in a block marked free                        (the free space)
     blk_free a k i  every page of block k/i is free;   blk_used a k i  no page of it is free
     has_free a j    some block is marked free at order j
     BInv a          every bitmap is a well-formed summary tree (a parent bit is set iff the child word is all
                     ones, padding bits set, root <= 64 entries), bitmap k has len/2^k entries, no page is
                     free at two orders (no_nested), below max_order no two buddies are both free (merged).
   Page-manager level (Alloc/MemP.v, Alloc/MemHistP.v):
     minv m          the layout is well-formed, tinv holds, the allocators agree with the layout (count, lengths,
                     max_order) and every bitmap tree has the height its capacity needs
     mgood (m, live) minv m; every live block (region, index, order) lies inside an existing region and none of
                     its pages is free; live blocks are pairwise disjoint
   Also proved here (second part of the file): alloc_lowest returns the LOWEST free index; Allocators::resize_to,
   try_shrink and grow keep the tracker invariant (any history of page-manager operations); BInv implies redb's
   debug_check_consistency; observational equality after reload. *)
From Coq Require Import List NArith Bool Lia.
From RV Require Import Base.Bytes Gen.Consts Alloc.Bitmap Alloc.Buddy Alloc.Region Alloc.BitmapP Alloc.TreeP Alloc.BuddyP
  Alloc.ResizeP Alloc.LowestP Alloc.SerialP Alloc.OpsP Alloc.RegionP
  Alloc.LowestMinP Alloc.ConsistP Alloc.ObsP Alloc.TrackerP Alloc.CapP Alloc.LayoutP Alloc.TrailingP Alloc.MemP Alloc.MemHistP.
Import ListNotations.
Open Scope N_scope.

(* ---------------------------------------------------------------- the bitmap tree *)

(* find_first_unset answers the least unset leaf bit, or None when every bit is set *)
Theorem bitmap_find_first_unset : forall t,
  bt_ok t ->
  match bt_find_first_unset t with
  | Some r => bt_get t r = false /\ (forall i, i < r -> bt_get t i = true)
  | None => forall i, bt_get t i = true
  end.
Proof. exact bt_find_spec. Qed.

Theorem bitmap_set : forall t i j, tree_ok t -> i < bt_len t -> bt_get (bt_set t i) j = (j =? i) || bt_get t j.
Proof. exact bt_set_get. Qed.

Theorem bitmap_clear : forall t i j, tree_ok t -> i < bt_len t -> bt_get (bt_clear t i) j = negb (j =? i) && bt_get t j.
Proof. exact bt_clear_get. Qed.

Theorem bitmap_set_inv : forall t i, bt_ok t -> i < bt_len t -> bt_ok (bt_set t i).
Proof. exact bt_set_ok. Qed.

Theorem bitmap_clear_inv : forall t i, bt_ok t -> i < bt_len t -> bt_ok (bt_clear t i).
Proof. exact bt_clear_ok. Qed.

(* ---------------------------------------------------------------- BInv is established and preserved *)

(* new: invariant holds, everything is free, for every size and capacity *)
Theorem new_inv : forall n cap,
  let a := buddy_new n cap in
  BInv a /\ blen a = n /\ bmax a = calculate_usable_order cap /\ (forall p, pfree a p <-> p < n).
Proof. exact new_spec. Qed.

(* alloc: the block handed out lies inside the region, was completely free, and exactly it leaves the
   free space; the invariant is kept.  A refusal changes nothing. *)
Theorem alloc_sound : forall a k,
  BInv a ->
  match buddy_alloc a k with
  | (Some x, a') =>
      BInv a' /\ bmax a' = bmax a /\ blen a' = blen a /\ k <= bmax a /\ (x + 1) * 2 ^ k <= blen a
      /\ blk_free a k x /\ (forall p, pfree a' p <-> pfree a p /\ p / 2 ^ k <> x)
  | (None, a') => a' = a /\ forall j, k <= j -> ~ has_free a j
  end.
Proof. exact alloc_spec. Qed.

(* a request is refused only when no aligned free block of that order exists (uses maximal merging) *)
Theorem alloc_complete : forall a k,
  BInv a -> k <= bmax a -> (fst (buddy_alloc a k) = None <-> ~ exists i, blk_free a k i).
Proof. exact alloc_complete_iff. Qed.

Theorem alloc_complete_above_max_order : forall a k,
  BInv a -> bmax a < k -> blen a < 2 ^ (bmax a + 1) -> ~ exists i, blk_free a k i.
Proof. exact no_block_above. Qed.

(* alloc_lowest: same guarantees as alloc (that the index is the lowest: alloc_lowest_min below) *)
Theorem alloc_lowest_sound : forall a k,
  BInv a ->
  match buddy_alloc_lowest a k with
  | (Some x, a') =>
      BInv a' /\ bmax a' = bmax a /\ blen a' = blen a /\ k <= bmax a /\ (x + 1) * 2 ^ k <= blen a
      /\ blk_free a k x /\ (forall p, pfree a' p <-> pfree a p /\ p / 2 ^ k <> x)
  | (None, a') => a' = a /\ forall j, k <= j -> ~ has_free a j
  end.
Proof. exact alloc_lowest_spec. Qed.

(* free: the space returns to the free space, merged into the block of order o that is now marked free,
   and o is the largest the neighbours allow: the buddy of that block is not completely free *)
Theorem free_merges : forall a i k,
  BInv a -> k <= bmax a -> i < blen a / 2 ^ k -> blk_used a k i ->
  let '(o, a') := buddy_free a i k in
  BInv a' /\ bmax a' = bmax a /\ blen a' = blen a /\ k <= o /\ o <= bmax a
  /\ fr a' o (i / 2 ^ (o - k)) = true
  /\ (forall p, pfree a' p <-> pfree a p \/ p / 2 ^ k = i)
  /\ (o < bmax a -> ~ blk_free a' o (buddy_page (i / 2 ^ (o - k)))).
Proof. exact free_spec. Qed.

(* explicit reservation: accepted exactly for in-range, completely free blocks; otherwise no change *)
Theorem record_alloc_sound : forall a i k,
  BInv a ->
  match buddy_record_alloc a i k with
  | (true, a') =>
      BInv a' /\ bmax a' = bmax a /\ blen a' = blen a /\ k <= bmax a /\ (i + 1) * 2 ^ k <= blen a
      /\ blk_free a k i /\ (forall p, pfree a' p <-> pfree a p /\ p / 2 ^ k <> i)
  | (false, a') => a' = a /\ (bmax a < k \/ blen a / 2 ^ k <= i \/ ~ blk_free a k i)
  end.
Proof. exact record_alloc_spec. Qed.

(* resize, growing or shrinking, at any sizes: under the code's own assertions (the bitmap trees have enough
   levels; the dropped tail is free) every assert holds, the invariant is kept, old free space below the new
   length is kept and the new pages are free *)
Theorem resize_inv : forall a n,
  BInv a -> bmax a <= 32 -> resize_trees_pre a n = true ->
  (forall p, n <= p -> p < blen a -> pfree a p) ->
  snd (buddy_resize_ok a n) = true /\ BInv (buddy_resize a n) /\ blen (buddy_resize a n) = n
  /\ bmax (buddy_resize a n) = bmax a
  /\ (forall p, pfree (buddy_resize a n) p <-> (pfree a p /\ p < n) \/ (blen a <= p /\ p < n)).
Proof. exact resize_spec. Qed.

(* shrinking never needs the capacity assertion *)
Theorem resize_shrink_capacity : forall L a n, shape L a -> n <= L -> resize_trees_pre a n = true.
Proof. exact resize_trees_pre_shrink. Qed.

(* ---------------------------------------------------------------- saving and reloading *)

(* from_bytes (to_vec a) is a with every bitmap level trimmed to the words its length needs *)
Theorem serialize_roundtrip_exact : forall a,
  buddy_small a -> nlen (bfree a) = bmax a + 1 -> buddy_from_bytes (buddy_to_vec a) = norm a.
Proof. exact buddy_roundtrip. Qed.

(* ... which keeps the invariant, every mark, the free space, and the serialised bytes *)
Theorem serialize_roundtrip : forall a,
  BInv a -> buddy_small a ->
  let a' := buddy_from_bytes (buddy_to_vec a) in
  BInv a' /\ blen a' = blen a /\ bmax a' = bmax a /\ (forall k i, fr a' k i = fr a k i)
  /\ (forall p, pfree a' p <-> pfree a p) /\ buddy_to_vec a' = buddy_to_vec a.
Proof. exact roundtrip_spec. Qed.

(* observational basis: in good states the marks are a function of the free space (canonical form) *)
Theorem marks_determined_by_free_space : forall L a b,
  BInvL L a -> BInvL L b -> bmax a = bmax b -> (forall p, pfree a p <-> pfree b p) ->
  forall k i, fr a k i = fr b k i.
Proof. exact marks_determined. Qed.

(* ---------------------------------------------------------------- any sequence of operations *)

(* good (a, live): BInv a; every live block is inside the region and none of its pages is free; live blocks
   are pairwise disjoint; every page below len is free or inside a live block *)
Theorem live_disjoint_init : forall n cap, good (buddy_new n cap, []).
Proof. exact good_new. Qed.

Theorem live_disjoint_step : forall s o s', good s -> step s o s' -> good s'.
Proof. exact step_good. Qed.

Theorem live_disjoint : forall n cap os s', steps (buddy_new n cap, []) os s' -> good s'.
Proof. exact steps_from_new_good. Qed.

(* ---------------------------------------------------------------- the region tracker *)

(* tinv al: every region allocator satisfies BInv, and a region that has a free block of order >= k is not
   marked full at order k ("never reported full"); regions beyond the last one are marked full *)
Theorem tracker_sound_allocate : forall fuel al k lowest,
  tinv al -> k < nlen (trk al) -> tinv (snd (allocate_retry fuel al k lowest)).
Proof. exact allocate_retry_tinv. Qed.

Theorem tracker_sound_free : forall m r i k,
  tinv (als m) -> r < nlen (regs (als m)) ->
  k <= bmax (reg (als m) r) -> i < blen (reg (als m) r) / 2 ^ k -> blk_used (reg (als m) r) k i ->
  tinv (als (mem_free m r i k)).
Proof. exact mem_free_tinv. Qed.

Theorem tracker_sound_record_alloc : forall m r i k,
  tinv (als m) -> tinv (als (snd (mem_record_alloc m r i k))).
Proof. exact mem_record_alloc_tinv. Qed.

(* Allocators::new establishes the tracker invariant (resize_to / try_shrink / grow: see below) *)
Theorem tracker_sound_new : forall l, tinv (allocators_new l).
Proof. exact allocators_new_tinv. Qed.

(* the retry loop gives up (and the file grows) only when no region has a free block of the order or above *)
Theorem grow_only_when_full : forall al k,
  tinv al -> k < nlen (trk al) -> tracker_find_free (trk al) k = None ->
  forall r, r < nlen (regs al) -> forall j, k <= j -> ~ has_free (reg al r) j.
Proof. exact retry_none_all_full. Qed.

(* ================================================================ non-vacuity *)

Definition ex_a : Buddy := buddy_new 13 16.       (* 13 pages (not a power of two) in a region of capacity 16 *)

(* a valid program reaching a fragmented state: blocks of orders 0, 2, 1 handed out, one freed, one reserved,
   saved and reloaded, then the region grown to its capacity *)
Example ex_program :
  exists s', steps (ex_a, []) [OAlloc 0; OAlloc 2; OAllocLowest 1; OFree 12 0; ORecord 12 0; OReload; OResize 16] s'
             /\ blen (fst s') = 16 /\ snd s' = [(12, 0); (0, 1); (2, 2)].
Proof.
  eexists. split.
  - eapply steps_cons. { apply (SAllocSome _ _ 0 12). vm_compute. reflexivity. }
    eapply steps_cons. { apply (SAllocSome _ _ 2 2). vm_compute. reflexivity. }
    eapply steps_cons. { apply (SLowSome _ _ 1 0). vm_compute. reflexivity. }
    eapply steps_cons. { apply SFree. right. right. left. reflexivity. }
    eapply steps_cons. { apply (SRecordOk _ _ 12 0). vm_compute. reflexivity. }
    eapply steps_cons. { apply SReload. apply buddy_smallb_sound. vm_compute. reflexivity. }
    eapply steps_cons. { apply SResize; [vm_compute; reflexivity|]. repeat constructor; vm_compute; discriminate. }
    apply steps_nil.
  - vm_compute. split; reflexivity.
Qed.

(* hence the hypotheses BInv / blk_used / good of the theorems above hold on that state *)
Example ex_program_good : exists s', good s' /\ snd s' = [(12, 0); (0, 1); (2, 2)].
Proof. destruct ex_program as [s' [H [_ E]]]. exists s'. split; [exact (live_disjoint _ _ _ _ H)|exact E]. Qed.

(* a full allocator refuses; the refusal is the None branch of alloc_sound / alloc_complete *)
Example ex_refused : fst (buddy_alloc (snd (buddy_alloc (buddy_new 2 2) 1)) 0) = None.
Proof. vm_compute. reflexivity. Qed.

(* freeing two order-0 buddies one after the other merges them back up to order 2 *)
Example ex_merge :
  let a1 := snd (buddy_alloc (buddy_new 4 4) 0) in
  let a2 := snd (buddy_alloc a1 0) in
  let a3 := snd (buddy_free a2 0 0) in
  fst (buddy_alloc (buddy_new 4 4) 0) = Some 0 /\ fst (buddy_alloc a1 0) = Some 1
  /\ fst (buddy_free a2 0 0) = 0 /\ fst (buddy_free a3 1 0) = 2.
Proof. vm_compute. repeat split; reflexivity. Qed.

(* resize preconditions are satisfiable across a word boundary, and violated beyond the tree capacity *)
Example ex_resize_pre : resize_trees_pre ex_a 40 = true /\ resize_trees_pre (buddy_new 60 4096) 70 = true
                        /\ resize_trees_pre ex_a 70 = false.
Proof. vm_compute. repeat split; reflexivity. Qed.

Example ex_roundtrip : buddy_smallb ex_a = true
  /\ buddy_to_vec (buddy_from_bytes (buddy_to_vec ex_a)) = buddy_to_vec ex_a.
Proof. vm_compute. split; reflexivity. Qed.

(* a two-level summary tree: bits 65 and 129 cleared, the first unset one is found through the root *)
Example ex_bitmap :
  let t := bt_clear (bt_clear (bt_new_padded 130 130 4096) 129) 65 in
  nlen t = 2 /\ bt_find_first_unset t = Some 65 /\ fst (bt_alloc (snd (bt_alloc t))) = Some 129.
Proof. vm_compute. repeat split; reflexivity. Qed.

(* the tracker invariant holds for a fresh three-region layout, and allocate_helper_retry serves from region 0 *)
Example ex_tracker :
  let al := allocators_new (mkLayout 16 2 (Some 5)) in
  tinv al /\ fst (allocate_retry 5 al 2 false) = Some (0, 0) /\ tracker_find_free (trk al) 3 = Some 0.
Proof. split; [apply tracker_sound_new|]. vm_compute. split; reflexivity. Qed.

(* ================================================================================================
   Second part: what used to be validated per run only.
   ================================================================================================ *)

(* ---------------------------------------------------------------- alloc_lowest returns the lowest index *)

(* alloc_lowest a k = Some x: block k/x is completely free and x is the LEAST index of an aligned completely
   free block of order k; alloc_lowest refuses exactly when alloc refuses, i.e. (k <= max_order) exactly when
   no aligned completely free block of order k exists *)
Theorem alloc_lowest_min : forall a k,
  BInv a ->
  (forall x a', buddy_alloc_lowest a k = (Some x, a') ->
     blk_free a k x /\ (forall y, blk_free a k y -> x <= y))
  /\ (fst (buddy_alloc_lowest a k) = None <-> fst (buddy_alloc a k) = None)
  /\ (k <= bmax a -> (fst (buddy_alloc_lowest a k) = None <-> ~ exists i, blk_free a k i)).
Proof. exact alloc_lowest_min_full. Qed.

(* what alloc_inner answers: the leftmost descendant of the least marked block of the first order that has one *)
Theorem alloc_value : forall fuel L a k x a',
  BInvL L a -> alloc_inner fuel a k = (Some x, a') ->
  exists j0 i0, k <= j0 /\ fr a j0 i0 = true /\ x = i0 * 2 ^ (j0 - k)
    /\ (forall i, i < i0 -> fr a j0 i = false)
    /\ (forall j, k <= j -> j < j0 -> ~ has_free a j).
Proof. exact alloc_inner_value. Qed.

(* ---------------------------------------------------------------- debug_check_consistency follows from BInv *)

(* consistentb is the model of BuddyAllocator::debug_check_consistency: redb's own debug assertion cannot fire
   on a state satisfying the invariant ... *)
Theorem consistent_of_inv : forall a, BInv a -> consistentb a = true.
Proof. exact consistentb_of_BInv. Qed.

(* ... hence on no state reachable through the modelled buddy operations ... *)
Theorem consistent_all_programs : forall n cap os s',
  steps (buddy_new n cap, []) os s' -> consistentb (fst s') = true.
Proof. exact consistent_steps. Qed.

(* ---------------------------------------------------------------- observational equality after reload *)

(* run a os: the return values of the operations of os and the final state (Alloc/ObsP.v).  For every valid
   program, running it on from_bytes (to_vec a) gives the same return values and the same serialised bytes as
   running it on a (the in-memory states may differ in trimmed capacity words) *)
Theorem reload_observationally_equal : forall a live os s',
  good (a, live) -> buddy_small a -> steps (a, live) os s' ->
  let b := buddy_from_bytes (buddy_to_vec a) in
  fst (run b os) = fst (run a os)
  /\ buddy_to_vec (snd (run b os)) = buddy_to_vec (snd (run a os))
  /\ snd (run a os) = fst s'.
Proof. exact reload_obs_equal. Qed.

Theorem reload_observationally_equal_from_new : forall n cap os0 a live os s',
  steps (buddy_new n cap, []) os0 (a, live) -> buddy_small a -> steps (a, live) os s' ->
  let b := buddy_from_bytes (buddy_to_vec a) in
  fst (run b os) = fst (run a os)
  /\ buddy_to_vec (snd (run b os)) = buddy_to_vec (snd (run a os)).
Proof. exact reload_obs_equal_from_new. Qed.

(* states that agree on lengths, max_order, every mark and the tree heights serialise to the same bytes *)
Theorem same_marks_same_bytes : forall a b, eqv a b -> buddy_to_vec a = buddy_to_vec b.
Proof. exact eqv_to_vec. Qed.

(* ---------------------------------------------------------------- the tracker through resize_to / try_shrink / grow *)

(* Allocators::resize_to, growing (existing regions resized and re-marked free at their highest free order, new
   regions pushed with the capacity of a full region, the tracker widened on demand) or shrinking (dropped
   regions marked full BEFORE the allocators are drained, the new last region cut), under the code's own
   assertions (resize_to_pre: regions only grow on the growing path and the trees have room; the cut tail is
   free on the shrinking path) *)
Theorem tracker_sound_resize_to : forall al nl, tinv al -> resize_to_pre al nl -> tinv (resize_to al nl).
Proof. exact resize_to_tinv. Qed.

(* the same at the page-manager level, with the assertions discharged from the invariant minv:
   resize_ok m nl = nl keeps the region size and either no region shrinks, or the completely free last region is
   dropped, or a free tail of the last region is cut *)
Theorem tracker_sound_resize_to_mem : forall m nl,
  minv m -> resize_ok m nl -> minv (mkMem nl (resize_to (als m) nl)).
Proof. exact minv_resize_to. Qed.

(* minv contains the tracker invariant (and with it BInv of every region) *)
Theorem minv_tracker : forall m, minv m -> tinv (als m).
Proof. exact minv_tinv. Qed.

Theorem tracker_sound_mem_new : forall l, lay_ok l -> minv (mem_new l).
Proof. exact minv_new. Qed.

(* BuddyAllocator::new(n, cap) pads the height of every bitmap tree so that resize can grow the region up to cap
   pages without a tree needing a new level (the assertion at the end of BtreeBitmap::resize); no operation
   changes a tree height, so this stays true in every reachable state (part of minv).  Likewise the region
   tracker made by RegionTracker::new can be widened up to MAX_REGIONS regions *)
Theorem new_resize_capacity : forall n cap m, m <= cap -> resize_trees_pre (buddy_new n cap) m = true.
Proof. exact rcap_new. Qed.

Theorem tracker_new_capacity : forall regions orders j n,
  j < nlen (tracker_new regions orders) -> n <= MAX_REGIONS ->
  bt_resize_pre (lget (tracker_new regions orders) j empty_bt) n = true.
Proof. exact tracker_new_cap. Qed.

(* trailing_free_pages (used by try_shrink) is the length of the longest free suffix of the region *)
Theorem trailing_free_pages_correct : forall a,
  BInv a -> 1 <= blen a ->
  let tf := trailing_free_pages a in
  tf <= blen a /\ (forall p, blen a - tf <= p -> p < blen a -> pfree a p)
  /\ (tf < blen a -> ~ pfree a (blen a - tf - 1)).
Proof. exact trailing_free_pages_spec. Qed.

(* try_shrink (+ reduce_last_region + resize_to) *)
Theorem tracker_sound_try_shrink : forall m force, minv m -> minv (snd (mem_try_shrink m force)).
Proof. exact minv_try_shrink. Qed.

(* grow(): the layout arithmetic of grow / DatabaseLayout::calculate + resize_to, while the database stays
   within MAX_REGIONS regions *)
Theorem tracker_sound_grow : forall m k,
  minv m -> num_regions (grow_layout (lay m) k) <= MAX_REGIONS ->
  minv (mkMem (grow_layout (lay m) k) (resize_to (als m) (grow_layout (lay m) k))).
Proof. exact minv_grow. Qed.

(* allocate_helper: retry, grow, retry *)
Theorem tracker_sound_allocate_helper : forall m k lowest,
  minv m -> k <= MAX_MAX_PAGE_ORDER -> num_regions (grow_layout (lay m) k) <= MAX_REGIONS ->
  minv (snd (mem_allocate m k lowest)).
Proof. exact minv_allocate. Qed.

(* one step of any page-manager level operation (allocate_helper_retry, allocate_helper, free_helper,
   mark_page_allocated, try_shrink, resize_to) keeps mgood *)
Theorem mem_step_good : forall s o s', mgood s -> mstep s o s' -> mgood s'.
Proof. exact mstep_good. Qed.

(* over ANY history from Allocators::new on a well-formed layout: the tracker invariant holds, every region
   satisfies BInv, and a region that holds a completely free aligned block of order j >= k is not marked full at
   order k (find_free(k) answers some region) -- "never reported full" *)
Theorem tracker_sound_all_histories : forall l os m' live',
  lay_ok l -> msteps (mem_new l, []) os (m', live') ->
  tinv (als m')
  /\ (forall r, r < num_regions (lay m') -> BInv (reg (als m') r))
  /\ (forall r k j i, r < num_regions (lay m') -> k <= j -> j <= bmax (reg (als m') r) ->
        blk_free (reg (als m') r) j i ->
        tracker_bit (trk (als m')) k r = false /\ tracker_find_free (trk (als m')) k <> None).
Proof. exact tracker_sound_histories. Qed.

(* ... and redb's debug_check_consistency holds in every region of every reachable state *)
Theorem consistent_all_histories : forall l os m' live' r,
  lay_ok l -> msteps (mem_new l, []) os (m', live') -> r < num_regions (lay m') ->
  consistentb (reg (als m') r) = true.
Proof. exact consistent_histories. Qed.

(* ---------------------------------------------------------------- live blocks across regions *)

(* over any history: the blocks handed out (allocate_helper, allocate_helper_retry, mark_page_allocated) and not
   yet freed are pairwise disjoint as (region, index, order) triples and lie inside the layout *)
Theorem live_disjoint_regions : forall l os m' live',
  lay_ok l -> msteps (mem_new l, []) os (m', live') ->
  ForallOrdPairs rdisjoint live'
  /\ Forall (fun b => let '(r, i, k) := b in
                      r < num_regions (lay m') /\ (i + 1) * 2 ^ k <= region_pages (lay m') r
                      /\ k <= MAX_MAX_PAGE_ORDER) live'.
Proof. exact live_disjoint_regions_spec. Qed.

(* what allocate_helper hands out lies inside the (possibly grown) layout and is disjoint from every live
   block (this is what C20's address_in_bounds consumes) *)
Theorem c14_alloc_inside_layout : forall m live k lowest r x m',
  mgood (m, live) -> k <= MAX_MAX_PAGE_ORDER -> num_regions (grow_layout (lay m) k) <= MAX_REGIONS ->
  mem_allocate m k lowest = (Some (r, x), m') ->
  r < num_regions (lay m') /\ (x + 1) * 2 ^ k <= region_pages (lay m') r
  /\ Forall (rdisjoint (r, x, k)) live.
Proof. exact alloc_inside_layout. Qed.

Theorem c14_live_inside_layout : forall m live r i k,
  mgood (m, live) -> In (r, i, k) live ->
  r < num_regions (lay m) /\ (i + 1) * 2 ^ k <= region_pages (lay m) r /\ k <= MAX_MAX_PAGE_ORDER.
Proof. exact live_inside_layout. Qed.

(* ================================================================ non-vacuity (second part) *)

(* a fragmented 13-page allocator (pages 12 and 8-9 taken): alloc and alloc_lowest differ, alloc_lowest takes the
   lowest block by splitting the order-3 block although smaller blocks are free higher up *)
Definition ex_b : Buddy := snd (buddy_alloc (snd (buddy_alloc (buddy_new 13 16) 0)) 1).

Example ex_lowest :
  BInv ex_b
  /\ fst (buddy_alloc ex_b 0) = Some 10 /\ fst (buddy_alloc_lowest ex_b 0) = Some 0
  /\ fst (buddy_alloc ex_b 1) = Some 5 /\ fst (buddy_alloc_lowest ex_b 1) = Some 0
  /\ fst (buddy_alloc_lowest ex_b 4) = None /\ consistentb ex_b = true
  /\ trailing_free_pages (snd (buddy_alloc_lowest (buddy_new 13 16) 1)) = 11.
Proof.
  split.
  - assert (exists live, execs (buddy_new 13 16, []) [OAlloc 0; OAlloc 1] = Some (ex_b, live)) as [live E]
      by (vm_compute; eexists; reflexivity).
    apply execs_sound in E. exact (proj1 (live_disjoint _ _ _ _ E)).
  - vm_compute. repeat split; reflexivity.
Qed.

(* consistentb rejects a double free and unmerged buddies *)
Example ex_inconsistent :
  let a := snd (buddy_alloc (snd (buddy_alloc (snd (buddy_alloc (buddy_new 13 16) 0)) 2)) 1) in
  consistentb a = true
  /\ consistentb (with_ord a 0 (bt_clear (ord a 0) 2)) = false
  /\ consistentb (with_ord a 1 (bt_clear (ord a 1) 0)) = false.
Proof. vm_compute. repeat split; reflexivity. Qed.

(* the hypotheses of reload_observationally_equal hold on a state whose capacity words differ from its reloaded
   image, for two programs (one with a further reload and resizes); the return values are non-trivial *)
Example ex_reload_valid :
  good (obs_ex_a, obs_ex_live) /\ buddy_small obs_ex_a
  /\ (exists s', steps (obs_ex_a, obs_ex_live) obs_ex_prog s') /\ (exists s', steps (obs_ex_a, obs_ex_live) obs_ex_prog2 s').
Proof. exact obs_ex_valid. Qed.

Example ex_reload_obs :
  let b := buddy_from_bytes (buddy_to_vec obs_ex_a) in
  fst (run obs_ex_a obs_ex_prog)
  = [ROrd 0; RIdx (Some 1); RBool true; RIdx (Some 4); RUnit; RIdx None; RIdx (Some 5); ROrd 0]
  /\ fst (run b obs_ex_prog) = fst (run obs_ex_a obs_ex_prog)
  /\ buddy_to_vec (snd (run b obs_ex_prog)) = buddy_to_vec (snd (run obs_ex_a obs_ex_prog))
  /\ b <> obs_ex_a
  /\ snd (run b obs_ex_prog) <> snd (run obs_ex_a obs_ex_prog)
  /\ fst (run b obs_ex_prog2) = fst (run obs_ex_a obs_ex_prog2)
  /\ buddy_to_vec (snd (run b obs_ex_prog2)) = buddy_to_vec (snd (run obs_ex_a obs_ex_prog2)).
Proof. exact obs_ex_obs. Qed.

(* a history on a three-region layout (16 + 16 + 5 pages): the third order-4 request makes the file grow (the
   partial trailing region is filled out to 16 pages and a new full region is created), a reservation in the new
   region is accepted once and refused the second time, frees, a retry with alloc_lowest, then try_shrink drops
   the (completely free) last region, cuts the new last region to 10 and then (forced) to 4 pages *)
Definition ex_layout : Layout := mkLayout 16 2 (Some 5).
Definition ex_history : list mop :=
  [MAlloc 4 false; MAlloc 2 true; MAlloc 4 false; MAlloc 0 false; MRecord 3 2 1; MRecord 3 2 1; MFree 1 0 2;
   MRetry 3 true; MFree 3 2 1; MShrink true; MRecord 2 8 3; MFree 2 0 4; MRecord 2 0 2; MShrink false; MShrink true].

Example ex_history_valid :
  lay_ok ex_layout
  /\ exists s', msteps (mem_new ex_layout, []) ex_history s'
       /\ snd s' = [(2, 0, 2); (1, 1, 3); (1, 4, 0); (0, 0, 4)]
       /\ lay (fst s') = mkLayout 16 2 (Some 4)
       /\ map blen (regs (als (fst s'))) = [16; 16; 4].
Proof.
  split; [unfold lay_ok, ex_layout, num_regions; cbn [full_pages num_full trailing]; lia|].
  assert (option_map (fun s => (snd s, lay (fst s), map blen (regs (als (fst s))))) (mrun (mem_new ex_layout, []) ex_history)
          = Some ([(2, 0, 2); (1, 1, 3); (1, 4, 0); (0, 0, 4)], mkLayout 16 2 (Some 4), [16; 16; 4])) as E
    by (vm_compute; reflexivity).
  destruct (mrun (mem_new ex_layout, []) ex_history) as [s'|] eqn:R; [|discriminate].
  exists s'. split; [now apply mrun_sound|]. cbn [option_map] in E. injection E as E1 E2 E3. auto.
Qed.

(* hence mgood (and everything tracker_sound_all_histories / live_disjoint_regions say) holds on that state *)
Example ex_history_good : exists s', mgood s' /\ snd s' = [(2, 0, 2); (1, 1, 3); (1, 4, 0); (0, 0, 4)].
Proof.
  destruct ex_history_valid as [Hl [s' [H [E _]]]]. exists s'. split; [|exact E].
  exact (msteps_good _ _ _ (mgood_new _ Hl) H).
Qed.

(* the growing step of that history, seen alone: after two order-4 requests no region has 16 free pages, the retry
   loop gives up, grow produces four full regions *)
Example ex_grow :
  let m := snd (mem_allocate (snd (mem_allocate (mem_new ex_layout) 4 false)) 4 false) in
  fst (allocate_retry (retry_fuel (als m)) (als m) 4 false) = None
  /\ grow_layout (lay m) 4 = mkLayout 16 4 None
  /\ fst (mem_allocate m 4 false) = Some (2, 0)
  /\ num_regions (grow_layout (lay m) 4) <= MAX_REGIONS.
Proof. vm_compute. repeat split; try reflexivity. discriminate. Qed.

(* resize_ok is satisfiable for a direct resize_to (the three-region layout grown to three full regions) *)
Example ex_resize_ok : resize_ok (mem_new ex_layout) (mkLayout 16 3 None).
Proof.
  split; [reflexivity|]. split; [unfold lay_ok, num_regions; cbn [full_pages num_full trailing]; lia|]. cbv zeta. left.
  split; [vm_compute; discriminate|]. split; [|vm_compute; discriminate].
  intros r Hr. unfold rpages, ex_layout, mem_new, num_regions, last_region_pages. cbn [lay trailing num_full full_pages].
  destruct (r =? 2 + 1 - 1), (r =? 3 - 1); lia.
Qed.

(* ------------------------------------------------------------------------------------------------
   Tie to the code (Gen/Fns.v is regenerated from buddy_allocator.rs / bitmap.rs / page_manager.rs on
   every run by tools/gen_fns.py): the order / index arithmetic of the allocator model is equal to the
   functions translated from the Rust sources (on the range of their u32 / usize arguments). *)
From RV Require Import Gen.FnsLib Gen.Fns Gen.FnsAllocP.

Theorem c14_code_next_higher_order_is_model : forall p, Fns.next_higher_order p = Buddy.next_higher_order p.
Proof. exact next_higher_order_is_model. Qed.

Theorem c14_code_buddy_page_is_model : forall p, Fns.buddy_page p = Buddy.buddy_page p.
Proof. exact buddy_page_is_model. Qed.

Theorem c14_code_calculate_usable_order_is_model : forall pages, (pages < 2 ^ 32)%N ->
  Fns.calculate_usable_order pages = Buddy.calculate_usable_order pages.
Proof. exact calculate_usable_order_is_model. Qed.

Theorem c14_code_required_words_is_model : forall e,
  U64GroupedBitmap_required_words e = Bitmap.required_words e.
Proof. exact required_words_is_model. Qed.

Theorem c14_code_height_for_capacity_is_model : forall c, (c < 2 ^ 32)%N ->
  BtreeBitmap_height_for_capacity c = Bitmap.height_for_capacity c.
Proof. exact height_for_capacity_is_model. Qed.

Theorem c14_code_data_index_of_is_model : forall bit,
  U64GroupedBitmap_data_index_of bit = ((bit / 64)%N, (bit mod 64)%N).
Proof. exact data_index_of_is_model. Qed.

Theorem c14_code_select_mask_is_model : forall bit, (bit < 64)%N ->
  U64GroupedBitmap_select_mask bit = (2 ^ bit)%N.
Proof. exact select_mask_is_model. Qed.

Theorem c14_code_bits_in_range_is_model : forall lo hi i, Fns.bits_in_range_guard lo hi = true ->
  N.testbit (Fns.bits_in_range lo hi) i = ((lo <=? i)%N && (i <? hi)%N)%bool.
Proof. exact bits_in_range_spec. Qed.

Theorem c14_code_ceil_log2_is_model : forall x, (0 < x)%N -> Fns.ceil_log2 x = N.log2_up x.
Proof. exact ceil_log2_is_log2_up. Qed.

(* ------------------------------------------------------------------------------------------------
   Tie to the code, wave 2 (see design.d/GEN.md): the shrink decision of TransactionalMemory::try_shrink, the
   shrink policy tests of commit(), check_page_order, the order of page numbers and the length table of the
   serialized region tracker (a `for` loop of RegionTracker::from_bytes). *)
From RV Require Import Gen.FnsLibB.

Theorem c14_code_try_shrink_is_model : forall m force,
  let l := lay m in
  let last_a := lget (regs (als m)) (num_regions l - 1) dummy_buddy in
  mem_try_shrink m force =
  match try_shrink_reduce_by (trailing_free_pages last_a) (blen last_a) (num_regions l) force with
  | None => (false, m)
  | Some reduce_by => let nl := reduce_last_region l reduce_by in (true, mkMem nl (resize_to (als m) nl))
  end.
Proof. exact try_shrink_is_model. Qed.

Theorem c14_code_commit_shrink_policy_is_model :
  commit_shrink_attempted ShrinkPolicy_Default = true /\ commit_shrink_force ShrinkPolicy_Default = false
  /\ commit_shrink_attempted ShrinkPolicy_Maximum = true /\ commit_shrink_force ShrinkPolicy_Maximum = true
  /\ commit_shrink_attempted ShrinkPolicy_Never = false /\ commit_shrink_force ShrinkPolicy_Never = false.
Proof. exact commit_shrink_policy_is_model. Qed.

Theorem c14_code_check_page_order_is_model : forall p,
  isSome (TransactionalMemory_check_page_order p) = (PageNumber_f_page_order p <=? MAX_MAX_PAGE_ORDER)%N.
Proof. exact check_page_order_is_model. Qed.

Theorem c14_code_page_number_cmp_is_model : forall a b,
  PageNumber_cmp a b =
  match (PageNumber_f_region a ?= PageNumber_f_region b)%N with
  | Eq => (PageNumber_f_page_index a * 2 ^ PageNumber_f_page_order a
           ?= PageNumber_f_page_index b * 2 ^ PageNumber_f_page_order b)%N
  | c => c
  end.
Proof. exact page_number_cmp_is_model. Qed.

Theorem c14_code_region_tracker_lens_is_model : forall page : bytes,
  let orders := le_decode (nfirstn 4 page) in
  region_tracker_allocator_lens page
  = (map le_decode (chunks4 (N.to_nat orders) (nskipn 4 page)), (4 + 4 * orders)%N).
Proof. exact region_tracker_lens_is_model. Qed.
