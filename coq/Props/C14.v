(* C14 -- The page allocator never double-allocates and never loses space.
   Property file: only `exact` of lemmas proved in Alloc/*P.v, plus non-vacuity Examples.
   Model: Alloc/Bitmap.v (U64GroupedBitmap, BtreeBitmap), Alloc/Buddy.v (BuddyAllocator),
   Alloc/Region.v (RegionTracker, Allocators, page_manager bookkeeping).
   Vocabulary (Alloc/BuddyP.v):
     fr a k i       block k/i (pages [i*2^k,(i+1)*2^k)) is marked free in the order-k bitmap
     pfree a p      page p lies in a block marked free             (the free space)
     blk_free a k i every page of block k/i is free    blk_used a k i: no page of it is free
     BInv a         summary trees exact and padded, bitmap k has len/2^k entries, a page is free at one
                    order only (no_nested), below max_order no two buddies are both free (merged). *)
From RV Require Import Base.Bytes Alloc.Bitmap Alloc.Buddy Alloc.Region Alloc.BitmapP Alloc.TreeP Alloc.BuddyP.
Open Scope N_scope.

(* alloc: the block handed out lies inside the region, was completely free, and exactly it leaves the
   free space; the invariant is kept.  A refusal changes nothing. *)
Theorem alloc_sound : forall a k,
  BInv a ->
  match buddy_alloc a k with
  | (Some x, a') =>
      BInv a' /\ bmax a' = bmax a /\ blen a' = blen a /\ k <= bmax a /\ (x + 1) * 2 ^ k <= blen a
      /\ blk_free a k x /\ (forall p, pfree a' p <-> pfree a p /\ p / 2 ^ k <> x)
  | (None, a') => a' = a /\ forall j, k <= j -> ~ has_free a j
  end.
Proof. exact alloc_spec. Qed.

(* a request is refused only when no aligned free block of that order exists (uses maximal merging) *)
Theorem alloc_complete : forall a k,
  BInv a -> k <= bmax a -> (fst (buddy_alloc a k) = None <-> ~ exists i, blk_free a k i).
Proof. exact alloc_complete_iff. Qed.

Theorem alloc_complete_above_max_order : forall a k,
  BInv a -> bmax a < k -> blen a < 2 ^ (bmax a + 1) -> ~ exists i, blk_free a k i.
Proof. exact no_block_above. Qed.

(* free: the space returns to the free space, merged into the block of order o that is now marked free,
   and o is the largest the neighbours allow: the buddy of that block is not completely free *)
Theorem free_merges : forall a i k,
  BInv a -> k <= bmax a -> i < blen a / 2 ^ k -> blk_used a k i ->
  let '(o, a') := buddy_free a i k in
  BInv a' /\ bmax a' = bmax a /\ blen a' = blen a /\ k <= o /\ o <= bmax a
  /\ fr a' o (i / 2 ^ (o - k)) = true
  /\ (forall p, pfree a' p <-> pfree a p \/ p / 2 ^ k = i)
  /\ (o < bmax a -> ~ blk_free a' o (buddy_page (i / 2 ^ (o - k)))).
Proof. exact free_spec. Qed.

(* explicit reservation: accepted exactly for in-range, completely free blocks; otherwise no change *)
Theorem record_alloc_sound : forall a i k,
  BInv a ->
  match buddy_record_alloc a i k with
  | (true, a') =>
      BInv a' /\ bmax a' = bmax a /\ blen a' = blen a /\ k <= bmax a /\ (i + 1) * 2 ^ k <= blen a
      /\ blk_free a k i /\ (forall p, pfree a' p <-> pfree a p /\ p / 2 ^ k <> i)
  | (false, a') => a' = a /\ (bmax a < k \/ blen a / 2 ^ k <= i \/ ~ blk_free a k i)
  end.
Proof. exact record_alloc_spec. Qed.
