(* C09 -- A multimap table behaves as a map from keys to ordered sets.
   Statements only; every proof is `exact <lemma>`.  Model: coq/Multimap/Model.v (the inline/subtree
   representation logic of src/multimap_table.rs), specification: coq/Multimap/Spec.v. *)
From RV Require Import Base.Bytes Multimap.Spec Multimap.Model Multimap.ModelP Multimap.SpecP Multimap.Inst.
Open Scope N_scope.

(* For every key/value type with a lawful key order, every page size and value width (cfg), every value
   length function, and every operation sequence -- including every possible answer of the inner B-tree to
   "is the subtree root a leaf?" carried by OpRemove -- all outputs of the model equal the outputs of the
   sorted-map-of-sorted-sets specification, and the final model state abstracts to the final spec state
   (current and committed).  Outputs include insert/remove booleans, remove_all/get values with the length
   the iterator reports, ranges in both directions with partially consumed double-ended iterators, len
   (the separately maintained num_values counter vs the sum of set sizes) and is_empty. *)
Theorem mm_program_refines :
  forall (K V : Type) (kcmp : K -> K -> comparison) (vcmp : V -> V -> comparison),
  ord_laws kcmp ->
  forall (vlen : V -> N) (c : cfg) (ops : list (op K V)),
    spec_run kcmp vcmp ops s_empty =
      (abs_state (fst (model_run kcmp vcmp vlen c ops m_empty)), snd (model_run kcmp vcmp vlen c ops m_empty)).
Proof. exact (@program_refines). Qed.

(* Representation invariant of every reachable model state: every stored collection is non-empty (a key
   disappears with its last value), an inline leaf is below half a page and within the u16 pair count, a
   subtree's stored count is exact, num_values = sum of the set sizes; for current and committed state. *)
Theorem mm_inv :
  forall (K V : Type) (kcmp : K -> K -> comparison) (vcmp : V -> V -> comparison),
  ord_laws kcmp ->
  forall (vlen : V -> N) (c : cfg) (ops : list (op K V)),
    mm_inv_def vlen c (fst (model_run kcmp vcmp vlen c ops m_empty)).
Proof. exact (@inv_reachable). Qed.

(* Outputs and abstract contents do not depend on the page size, the value width, the value length function
   or the inner-tree observations: inline or spilled makes no observable difference. *)
Theorem mm_representation_independent :
  forall (K V : Type) (kcmp : K -> K -> comparison) (vcmp : V -> V -> comparison),
  ord_laws kcmp ->
  forall (vlen1 vlen2 : V -> N) (c1 c2 : cfg) (ops1 ops2 : list (op K V)),
    map erase_op ops1 = map erase_op ops2 ->
    snd (model_run kcmp vcmp vlen1 c1 ops1 m_empty) = snd (model_run kcmp vcmp vlen2 c2 ops2 m_empty) /\
    abs_state (fst (model_run kcmp vcmp vlen1 c1 ops1 m_empty)) = abs_state (fst (model_run kcmp vcmp vlen2 c2 ops2 m_empty)).
Proof. exact (@representation_independent). Qed.

(* The specification really is a sorted map of sorted sets: every reachable spec state has strictly
   increasing keys and, per key, a strictly increasing (hence duplicate-free) non-empty value list. *)
Theorem mm_spec_sorted :
  forall (K V : Type) (kcmp : K -> K -> comparison) (vcmp : V -> V -> comparison),
  ord_laws kcmp -> ord_laws vcmp ->
  forall (ops : list (op K V)),
    smap_wf kcmp vcmp (s_cur (fst (spec_run kcmp vcmp ops s_empty))) /\
    smap_wf kcmp vcmp (s_committed (fst (spec_run kcmp vcmp ops s_empty))).
Proof. exact (@spec_run_wf). Qed.

(* Set semantics of the specification on well-formed states: insert adds exactly the pair, remove removes
   exactly the pair, remove_all removes exactly the key's pairs. *)
Theorem mm_spec_insert_sem :
  forall (K V : Type) (kcmp : K -> K -> comparison) (vcmp : V -> V -> comparison),
  ord_laws kcmp -> ord_laws vcmp ->
  forall m k v k' v', smap_wf kcmp vcmp m ->
    (In v' (s_get kcmp k' (fst (s_insert kcmp vcmp k v m))) <-> (k' = k /\ v' = v) \/ In v' (s_get kcmp k' m)).
Proof. exact (@s_insert_sem). Qed.

Theorem mm_spec_remove_sem :
  forall (K V : Type) (kcmp : K -> K -> comparison) (vcmp : V -> V -> comparison),
  ord_laws kcmp -> ord_laws vcmp ->
  forall m k v k' v', smap_wf kcmp vcmp m ->
    (In v' (s_get kcmp k' (fst (s_remove kcmp vcmp k v m))) <-> In v' (s_get kcmp k' m) /\ ~ (k' = k /\ v' = v)).
Proof. exact (@s_remove_sem). Qed.

Theorem mm_spec_remove_all_sem :
  forall (K V : Type) (kcmp : K -> K -> comparison) (vcmp : V -> V -> comparison),
  ord_laws kcmp ->
  forall (m : smap (K:=K) (V:=V)) k k' v', smap_wf kcmp vcmp m ->
    (In v' (s_get kcmp k' (am_del kcmp k m)) <-> In v' (s_get kcmp k' m) /\ k' <> k).
Proof. exact (@s_remove_all_sem). Qed.

(* The instance the correspondence runs: byte strings (lexicographic) and integers (numeric). *)
Theorem mm_program_refines_kv :
  forall (vlen : kv -> N) (c : cfg) (ops : list (op kv kv)),
    spec_run kv_cmp kv_cmp ops s_empty =
      (abs_state (fst (model_run kv_cmp kv_cmp vlen c ops m_empty)), snd (model_run kv_cmp kv_cmp vlen c ops m_empty)).
Proof. exact (fun vlen c ops => @program_refines kv kv kv_cmp kv_cmp kv_cmp_laws vlen c ops). Qed.

(* ---- non-vacuity: a concrete history that crosses inline -> subtree -> inline.
   page_size 64 (half = 32), u64 values (fixed width 8): an inline leaf of n values needs 4 + 8n bytes,
   so 3 values stay inline (28 < 32) and the 4th spills (36). *)
Definition ex_cfg : cfg := {| page_size := 64; vwidth := Some 8 |}.
Definition ex_ops : list (op kv kv) :=
  [OpInsert (KU 7) (KU 30); OpInsert (KU 7) (KU 10); OpInsert (KU 7) (KU 20); OpInsert (KU 7) (KU 10);
   OpInsert (KU 7) (KU 40);                         (* spills into a subtree *)
   OpCommit;
   OpRemove (KU 7) (KU 20) true;                    (* root is a leaf and 28 < 32: back inline *)
   OpGet (KU 7) false 10 0; OpLen;
   OpRemoveAll (KU 7) true 1 1; OpIsEmpty; OpAbort; OpLen].

Example mm_nonvacuous_transitions :
  rep_of kv_cmp (KU 7) (m_cur (fst (model_run kv_cmp kv_cmp kv_len ex_cfg (firstn 4 ex_ops) m_empty))) = Some (false, 3) /\
  rep_of kv_cmp (KU 7) (m_cur (fst (model_run kv_cmp kv_cmp kv_len ex_cfg (firstn 5 ex_ops) m_empty))) = Some (true, 4) /\
  rep_of kv_cmp (KU 7) (m_cur (fst (model_run kv_cmp kv_cmp kv_len ex_cfg (firstn 7 ex_ops) m_empty))) = Some (false, 3) /\
  snd (model_run kv_cmp kv_cmp kv_len ex_cfg ex_ops m_empty) =
    [OBool false; OBool false; OBool false; OBool true; OBool false; OUnit; OBool true;
     OVals [KU 10; KU 30; KU 40] [] 3; ONum 3; OVals [KU 40] [KU 10] 3; OBool true; OUnit; ONum 4] /\
  snd (spec_run kv_cmp kv_cmp ex_ops s_empty) = snd (model_run kv_cmp kv_cmp kv_len ex_cfg ex_ops m_empty).
Proof. vm_compute. repeat split; reflexivity. Qed.

Example mm_nonvacuous_laws : ord_laws kv_cmp /\ kv_cmp (KB [1;2]) (KB [1;2;0]) = Lt /\ kv_cmp (KU 256) (KU 255) = Gt.
Proof. split; [exact kv_cmp_laws | vm_compute; split; reflexivity]. Qed.

(* ------------------------------------------------------------------------------------------------
   Tie to the code (Gen/Fns.v is regenerated from btree_base.rs / multimap_table.rs on every run by
   tools/gen_fns.py): the size of an inline value set and the inline-vs-subtree decisions of the model are
   equal to what is translated from the Rust sources. *)
From RV Require Import Gen.FnsLib Gen.Fns Gen.FnsBtreeP.

Theorem c09_code_inline_required_bytes_is_model : forall (c : Multimap.Model.cfg) n bytes,
  Multimap.Model.required_bytes c n bytes =
  RawLeafBuilder_required_bytes n bytes (Multimap.Model.vwidth c) (Some 0%N).
Proof. exact mm_required_is_model. Qed.

Theorem c09_code_insert_stays_inline_is_model : forall (c : Multimap.Model.cfg) req new_pairs,
  multimap_insert_stays_inline req new_pairs (Multimap.Model.page_size c) =
  ((req <? Multimap.Model.half_page c)%N && (new_pairs <=? Multimap.Model.U16_MAX)%N)%bool.
Proof. exact mm_stays_inline_is_model. Qed.

Theorem c09_code_insert_new_key_inline_is_model : forall (c : Multimap.Model.cfg) req,
  multimap_insert_new_key_inline req (Multimap.Model.page_size c) = (req <? Multimap.Model.half_page c)%N.
Proof. exact mm_new_key_inline_is_model. Qed.
