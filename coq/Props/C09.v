(* C09 -- A multimap table behaves as a map from keys to ordered sets.
   Statements only; every proof is `exact <lemma>`.  Model: coq/Multimap/Model.v (the inline/subtree
   representation logic of src/multimap_table.rs), specification: coq/Multimap/Spec.v. *)
From RV Require Import Base.Bytes Multimap.Spec Multimap.Model Multimap.ModelP Multimap.SpecP Multimap.Inst.
Open Scope N_scope.

(* For every key/value type with a lawful key order, every page size and value width (cfg), every value
   length function, and every operation sequence -- including every possible answer of the inner B-tree to
   "is the subtree root a leaf?" carried by OpRemove -- all outputs of the model equal the outputs of the
   sorted-map-of-sorted-sets specification, and the final model state abstracts to the final spec state
   (current and committed).  Outputs include insert/remove booleans, remove_all/get values with the length
   the iterator reports, ranges in both directions with partially consumed double-ended iterators, len
   (the separately maintained num_values counter vs the sum of set sizes) and is_empty. *)
Theorem mm_program_refines :
  forall (K V : Type) (kcmp : K -> K -> comparison) (vcmp : V -> V -> comparison),
  ord_laws kcmp ->
  forall (vlen : V -> N) (c : cfg) (ops : list (op K V)),
    spec_run kcmp vcmp ops s_empty =
      (abs_state (fst (model_run kcmp vcmp vlen c ops m_empty)), snd (model_run kcmp vcmp vlen c ops m_empty)).
Proof. exact (@program_refines). Qed.

(* Representation invariant of every reachable model state: every stored collection is non-empty (a key
   disappears with its last value), an inline leaf is below half a page and within the u16 pair count, a
   subtree's stored count is exact, num_values = sum of the set sizes; for current and committed state. *)
Theorem mm_inv :
  forall (K V : Type) (kcmp : K -> K -> comparison) (vcmp : V -> V -> comparison),
  ord_laws kcmp ->
  forall (vlen : V -> N) (c : cfg) (ops : list (op K V)),
    mm_inv_def vlen c (fst (model_run kcmp vcmp vlen c ops m_empty)).
Proof. exact (@inv_reachable). Qed.

(* Outputs and abstract contents do not depend on the page size, the value width, the value length function
   or the inner-tree observations: inline or spilled makes no observable difference. *)
Theorem mm_representation_independent :
  forall (K V : Type) (kcmp : K -> K -> comparison) (vcmp : V -> V -> comparison),
  ord_laws kcmp ->
  forall (vlen1 vlen2 : V -> N) (c1 c2 : cfg) (ops1 ops2 : list (op K V)),
    map erase_op ops1 = map erase_op ops2 ->
    snd (model_run kcmp vcmp vlen1 c1 ops1 m_empty) = snd (model_run kcmp vcmp vlen2 c2 ops2 m_empty) /\
    abs_state (fst (model_run kcmp vcmp vlen1 c1 ops1 m_empty)) = abs_state (fst (model_run kcmp vcmp vlen2 c2 ops2 m_empty)).
Proof. exact (@representation_independent). Qed.

(* The specification really is a sorted map of sorted sets: every reachable spec state has strictly
   increasing keys and, per key, a strictly increasing (hence duplicate-free) non-empty value list. *)
Theorem mm_spec_sorted :
  forall (K V : Type) (kcmp : K -> K -> comparison) (vcmp : V -> V -> comparison),
  ord_laws kcmp -> ord_laws vcmp ->
  forall (ops : list (op K V)),
    smap_wf kcmp vcmp (s_cur (fst (spec_run kcmp vcmp ops s_empty))) /\
    smap_wf kcmp vcmp (s_committed (fst (spec_run kcmp vcmp ops s_empty))).
Proof. exact (@spec_run_wf). Qed.

(* Set semantics of the specification on well-formed states: insert adds exactly the pair, remove removes
   exactly the pair, remove_all removes exactly the key's pairs. *)
Theorem mm_spec_insert_sem :
  forall (K V : Type) (kcmp : K -> K -> comparison) (vcmp : V -> V -> comparison),
  ord_laws kcmp -> ord_laws vcmp ->
  forall m k v k' v', smap_wf kcmp vcmp m ->
    (In v' (s_get kcmp k' (fst (s_insert kcmp vcmp k v m))) <-> (k' = k /\ v' = v) \/ In v' (s_get kcmp k' m)).
Proof. exact (@s_insert_sem). Qed.

Theorem mm_spec_remove_sem :
  forall (K V : Type) (kcmp : K -> K -> comparison) (vcmp : V -> V -> comparison),
  ord_laws kcmp -> ord_laws vcmp ->
  forall m k v k' v', smap_wf kcmp vcmp m ->
    (In v' (s_get kcmp k' (fst (s_remove kcmp vcmp k v m))) <-> In v' (s_get kcmp k' m) /\ ~ (k' = k /\ v' = v)).
Proof. exact (@s_remove_sem). Qed.

Theorem mm_spec_remove_all_sem :
  forall (K V : Type) (kcmp : K -> K -> comparison) (vcmp : V -> V -> comparison),
  ord_laws kcmp ->
  forall (m : smap (K:=K) (V:=V)) k k' v', smap_wf kcmp vcmp m ->
    (In v' (s_get kcmp k' (am_del kcmp k m)) <-> In v' (s_get kcmp k' m) /\ k' <> k).
Proof. exact (@s_remove_all_sem). Qed.

(* The instance the correspondence runs: byte strings (lexicographic) and integers (numeric). *)
Theorem mm_program_refines_kv :
  forall (vlen : kv -> N) (c : cfg) (ops : list (op kv kv)),
    spec_run kv_cmp kv_cmp ops s_empty =
      (abs_state (fst (model_run kv_cmp kv_cmp vlen c ops m_empty)), snd (model_run kv_cmp kv_cmp vlen c ops m_empty)).
Proof. exact (fun vlen c ops => @program_refines kv kv kv_cmp kv_cmp kv_cmp_laws vlen c ops). Qed.

(* ---- non-vacuity: a concrete history that crosses inline -> subtree -> inline.
   page_size 64 (half = 32), u64 values (fixed width 8): an inline leaf of n values needs 4 + 8n bytes,
   so 3 values stay inline (28 < 32) and the 4th spills (36). *)
Definition ex_cfg : cfg := {| page_size := 64; vwidth := Some 8 |}.
Definition ex_ops : list (op kv kv) :=
  [OpInsert (KU 7) (KU 30); OpInsert (KU 7) (KU 10); OpInsert (KU 7) (KU 20); OpInsert (KU 7) (KU 10);
   OpInsert (KU 7) (KU 40);                         (* spills into a subtree *)
   OpCommit;
   OpRemove (KU 7) (KU 20) true;                    (* root is a leaf and 28 < 32: back inline *)
   OpGet (KU 7) false 10 0; OpLen;
   OpRemoveAll (KU 7) true 1 1; OpIsEmpty; OpAbort; OpLen].

Example mm_nonvacuous_transitions :
  rep_of kv_cmp (KU 7) (m_cur (fst (model_run kv_cmp kv_cmp kv_len ex_cfg (firstn 4 ex_ops) m_empty))) = Some (false, 3) /\
  rep_of kv_cmp (KU 7) (m_cur (fst (model_run kv_cmp kv_cmp kv_len ex_cfg (firstn 5 ex_ops) m_empty))) = Some (true, 4) /\
  rep_of kv_cmp (KU 7) (m_cur (fst (model_run kv_cmp kv_cmp kv_len ex_cfg (firstn 7 ex_ops) m_empty))) = Some (false, 3) /\
  snd (model_run kv_cmp kv_cmp kv_len ex_cfg ex_ops m_empty) =
    [OBool false; OBool false; OBool false; OBool true; OBool false; OUnit; OBool true;
     OVals [KU 10; KU 30; KU 40] [] 3; ONum 3; OVals [KU 40] [KU 10] 3; OBool true; OUnit; ONum 4] /\
  snd (spec_run kv_cmp kv_cmp ex_ops s_empty) = snd (model_run kv_cmp kv_cmp kv_len ex_cfg ex_ops m_empty).
Proof. vm_compute. repeat split; reflexivity. Qed.

Example mm_nonvacuous_laws : ord_laws kv_cmp /\ kv_cmp (KB [1;2]) (KB [1;2;0]) = Lt /\ kv_cmp (KU 256) (KU 255) = Gt.
Proof. split; [exact kv_cmp_laws | vm_compute; split; reflexivity]. Qed.

(* ------------------------------------------------------------------------------------------------
   The two-level model (coq/Multimap/Subtree.v): the table as multimap_table.rs composes it out of TWO
   B-trees -- the OUTER tree key |-> DynamicCollection (inline leaf image | subtree header) and, per
   spilled key, the INNER tree BtreeMut<V,()> -- both instances of C04's proved B-tree model.  Names are
   qualified (no Import) so that nothing below this block changes meaning. *)
From RV Require Base.SortedMap Btree.Tree Btree.Mutator Btree.Shape Btree.ShapeRefP.
From RV Require Multimap.Subtree Multimap.SubtreeP Multimap.SubtreeInst Multimap.SubtreeInstP.

(* For every key/value type with lawful orders, every program of multimap operations, and -- independently for
   the two levels -- every page size, size functions, fixed-width flags, valid separator function and in-place
   oracle of C04's logical B-tree (Btree/Mutator.v), and every cfg (page size / value width) of the inline
   decisions:
   (1) the outputs of the two-level model and its abstraction tl_abs (the outer tree's in-order contents with
       each collection expanded to its value list) equal the outputs and state of the sorted-map-of-sorted-sets
       specification;
   (2) state_wf: C04's TreeInv holds of the outer tree and of every inner tree stored in it, every inline
       list is non-empty and strictly sorted (current and committed state);
   (3) counts_exact: the count stored in every subtree header equals the number of values in that subtree and
       num_values equals the number of pairs present (current and committed state).
   Obtained by composing C04's insert_refines / delete_refines / read correctness (through the interface
   tree_laws, proved for both instances in SubtreeP.mut_laws / shape_laws) with mm_program_refines. *)
Theorem c09_two_level_refines :
  forall (K V : Type) (kcmp : K -> K -> comparison) (vcmp : V -> V -> comparison),
  ord_laws kcmp -> ord_laws vcmp ->
  forall (oksize : K -> N) (ovsize : @Subtree.ocoll V (@Tree.btree V unit) -> N) (ofk ofv : bool) (ops_ : N)
         (osep : K -> K -> K)
         (oinplace : list (K * @Subtree.ocoll V (@Tree.btree V unit)) -> K -> @Subtree.ocoll V (@Tree.btree V unit) -> bool)
         (iksize : V -> N) (ivsize : unit -> N) (ifk ifv : bool) (ips : N) (isep : V -> V -> V)
         (iinplace : list (V * unit) -> V -> unit -> bool)
         (vlen : V -> N) (c : cfg) (ops : list (op K V)),
  Mutator.valid_sep kcmp osep -> Mutator.valid_sep vcmp isep ->
  let outer := Subtree.mut_impl kcmp oksize ovsize ofk ofv ops_ osep oinplace in
  let inner := Subtree.mut_impl vcmp iksize ivsize ifk ifv ips isep iinplace in
  let r := Subtree.tl_run vcmp vlen outer inner c ops (Subtree.tl_empty outer) in
  spec_run kcmp vcmp ops s_empty = (Subtree.tl_abs outer inner (fst r), snd r) /\
  Subtree.state_wf vcmp outer (Tree.TreeInv kcmp) (Tree.TreeInv vcmp) (fst r) /\
  Subtree.counts_exact outer inner (Subtree.tl_cur (fst r)) /\
  Subtree.counts_exact outer inner (Subtree.tl_com (fst r)).
Proof. exact (@SubtreeP.two_level_refines). Qed.

(* The same with both levels being C04's SHAPE model (Btree/Shape.v: dirty flag and allocated length per
   page; the in-place decisions are computed as btree_mutator.rs computes them) -- the trees the check
   replays against redb.  SInv = TreeInv of the erased tree. *)
Theorem c09_two_level_shape_refines :
  forall (K V : Type) (kcmp : K -> K -> comparison) (vcmp : V -> V -> comparison),
  ord_laws kcmp -> ord_laws vcmp ->
  forall (oksize : K -> N) (ovsize : @Subtree.ocoll V (@Shape.sbtree V unit) -> N) (ofk ofv : bool) (ops_ : N)
         (osep : K -> K -> K)
         (iksize : V -> N) (ivsize : unit -> N) (ifk ifv : bool) (ips : N) (isep : V -> V -> V)
         (vlen : V -> N) (c : cfg) (ops : list (op K V)),
  Mutator.valid_sep kcmp osep -> Mutator.valid_sep vcmp isep ->
  let outer := Subtree.shape_impl kcmp oksize ovsize ofk ofv ops_ osep in
  let inner := Subtree.shape_impl vcmp iksize ivsize ifk ifv ips isep in
  let r := Subtree.tl_run vcmp vlen outer inner c ops (Subtree.tl_empty outer) in
  spec_run kcmp vcmp ops s_empty = (Subtree.tl_abs outer inner (fst r), snd r) /\
  Subtree.state_wf vcmp outer (ShapeRefP.SInv kcmp) (ShapeRefP.SInv vcmp) (fst r) /\
  Subtree.counts_exact outer inner (Subtree.tl_cur (fst r)) /\
  Subtree.counts_exact outer inner (Subtree.tl_com (fst r)).
Proof. exact (@SubtreeP.two_level_shape_refines). Qed.

(* The instance the correspondence replays (SubtreeInst.v: kv keys and values, sizes of the table's types,
   C15's separators behind a validity guard), with no premises left: for every page size, key/value type
   selector and program. *)
Theorem c09_two_level_refines_kv :
  forall (ps : N) (kfixed : bool) (kmode : N) (vfixed : bool) (vmode : N) (ops : list (op kv kv)),
  let r := SubtreeInst.kv_tl_run ps kfixed kmode vfixed vmode ops SubtreeInst.kv_tl_empty in
  spec_run kv_cmp kv_cmp ops s_empty = (SubtreeInst.kv_tl_abs (fst r), snd r) /\
  Subtree.state_wf kv_cmp (SubtreeInst.kv_outer ps kfixed kmode vfixed) (ShapeRefP.SInv kv_cmp) (ShapeRefP.SInv kv_cmp) (fst r) /\
  Subtree.counts_exact (SubtreeInst.kv_outer ps kfixed kmode vfixed) (SubtreeInst.kv_inner ps vfixed vmode) (Subtree.tl_cur (fst r)) /\
  Subtree.counts_exact (SubtreeInst.kv_outer ps kfixed kmode vfixed) (SubtreeInst.kv_inner ps vfixed vmode) (Subtree.tl_com (fst r)).
Proof. exact SubtreeInstP.kv_two_level_refines. Qed.

(* ---- non-vacuity: one key goes inline -> subtree with a LEAF root (too big to re-inline) -> two-level
   subtree (BRANCH root) -> LEAF root again -> back inline -> removed.  Page size 64, u64 keys and values:
   inline while 4 + 8n < 32 (n <= 3); an inner leaf holds 7 values (4 + 8*7 = 60 <= 64), the 8th splits it.
   tl_rep = (is_subtree, stored count, root is a leaf, byte length of the inline / root leaf) -- the tuple
   MultimapTable::verif_collection_info reports and the check compares. *)
Definition ex2_ops : list (op kv kv) :=
  List.map (fun n => OpInsert (KU 7) (KU (n * 10))) [1;2;3;4;5;6;7;8;9;10;11;12] ++ [OpCommit] ++
  List.map (fun n => OpRemove (KU 7) (KU (n * 10)) false) [12;1;11;2;10;3;9;4;8;5;7;6] ++ [OpLen; OpAbort; OpLen; OpGet (KU 7) true 2 1].

Definition ex2_at (i : nat) :=
  let s := fst (SubtreeInst.kv_tl_run 64 true 0 true 0 (firstn i ex2_ops) SubtreeInst.kv_tl_empty) in
  (SubtreeInst.kv_tl_rep 64 true 0 true 0 (KU 7) s, SubtreeInst.kv_sub_height (KU 7) s, SubtreeInst.kv_tl_check s).

Example c09_nonvacuous_two_level :
  ex2_at 3 = (Some (false, 3, true, 28), None, true) /\          (* inline, 3 values, 28 bytes *)
  ex2_at 4 = (Some (true, 4, true, 36), Some 0%nat, true) /\     (* spilled: subtree, root is a leaf of 36 bytes *)
  ex2_at 7 = (Some (true, 7, true, 60), Some 0%nat, true) /\
  ex2_at 8 = (Some (true, 8, false, 0), Some 1%nat, true) /\     (* the leaf split: BRANCH root, height 1 *)
  ex2_at 12 = (Some (true, 12, false, 0), Some 1%nat, true) /\
  ex2_at 17 = (Some (true, 8, false, 0), Some 1%nat, true) /\    (* removals in the committed subtree (copy on write) *)
  ex2_at 18 = (Some (true, 7, true, 60), Some 0%nat, true) /\    (* root collapsed to a LEAF, 60 >= 32: stays a subtree *)
  ex2_at 21 = (Some (true, 4, true, 36), Some 0%nat, true) /\
  ex2_at 22 = (Some (false, 3, true, 28), None, true) /\         (* 28 < 32: back inline *)
  ex2_at 24 = (Some (false, 1, true, 12), None, true) /\
  ex2_at 25 = (None, None, true) /\                               (* the key disappears with its last value *)
  ex2_at 27 = (Some (true, 12, false, 0), Some 1%nat, true) /\   (* abort: the committed two-level subtree is back *)
  skipn 25 (snd (SubtreeInst.kv_tl_run 64 true 0 true 0 ex2_ops SubtreeInst.kv_tl_empty)) =
    [ONum 0; OUnit; ONum 12; OVals [KU 120; KU 110] [KU 10] 12] /\
  snd (spec_run kv_cmp kv_cmp ex2_ops s_empty) = snd (SubtreeInst.kv_tl_run 64 true 0 true 0 ex2_ops SubtreeInst.kv_tl_empty).
Proof. vm_compute. repeat split; reflexivity. Qed.

(* the same history through C04's logical trees (the object of c09_two_level_refines; in-place oracle constantly
   false, separator `left`): same outputs as the specification, and the final state abstracts to the spec's *)
Example c09_nonvacuous_two_level_logical :
  let outer := Subtree.mut_impl kv_cmp kv_len (fun _ : @Subtree.ocoll kv (@Tree.btree kv unit) => 33) true false 64
                 (fun l _ => l) (fun _ _ _ => false) in
  let inner := Subtree.mut_impl kv_cmp kv_len (fun _ : unit => 0) true true 64 (fun l _ => l) (fun _ _ _ => false) in
  let r := Subtree.tl_run kv_cmp kv_len outer inner (SubtreeInst.kv_cfg 64 true) ex2_ops (Subtree.tl_empty outer) in
  spec_run kv_cmp kv_cmp ex2_ops s_empty = (Subtree.tl_abs outer inner (fst r), snd r).
Proof. vm_compute. reflexivity. Qed.

(* ------------------------------------------------------------------------------------------------
   Tie to the code (Gen/Fns.v is regenerated from btree_base.rs / multimap_table.rs on every run by
   tools/gen_fns.py): the size of an inline value set and the inline-vs-subtree decisions of the model are
   equal to what is translated from the Rust sources. *)
From RV Require Import Gen.FnsLib Gen.Fns Gen.FnsBtreeP.

Theorem c09_code_inline_required_bytes_is_model : forall (c : Multimap.Model.cfg) n bytes,
  Multimap.Model.required_bytes c n bytes =
  RawLeafBuilder_required_bytes n bytes (Multimap.Model.vwidth c) (Some 0%N).
Proof. exact mm_required_is_model. Qed.

Theorem c09_code_insert_stays_inline_is_model : forall (c : Multimap.Model.cfg) req new_pairs,
  multimap_insert_stays_inline req new_pairs (Multimap.Model.page_size c) =
  ((req <? Multimap.Model.half_page c)%N && (new_pairs <=? Multimap.Model.U16_MAX)%N)%bool.
Proof. exact mm_stays_inline_is_model. Qed.

Theorem c09_code_insert_new_key_inline_is_model : forall (c : Multimap.Model.cfg) req,
  multimap_insert_new_key_inline req (Multimap.Model.page_size c) = (req <? Multimap.Model.half_page c)%N.
Proof. exact mm_new_key_inline_is_model. Qed.
