(* C20 -- The storage backend is used according to its contract.
   Statements only; every proof is `exact <lemma>` (lemmas in Storage/ContractP.v, Storage/LayoutP.v).

   What is proved here (for all inputs of the model):
     - the trace monitor `contract_okb` / `prefix_okb` accepts exactly the traces that satisfy the
       declarative contract (bounds at the length current at each call, nothing after close, close
       exactly once and last, a read-only backend sees only len/read/close);
     - every page accepted by the guard of mark_page_allocated lies inside the file described by a
       valid layout, after the header page, and two such pages overlap only if nested buddy blocks;
     - recalculate(len L) is L (normal form) for every valid layout; layout_from_file_len accepts
       exactly the lengths of valid layouts; shrinking the last region keeps all other pages in place
       and below the new length;
     - the close hand-off between Database::drop and the end of a live write transaction closes
       exactly once for every interleaving;
     - the shutdown model (Storage/Shutdown.v: Database::drop, TransactionGuard::drop, close_database,
       TransactionalMemory::close, CheckedBackend::{close,drop} behind the I/O latch, reader-side
       holders of the Arc<TransactionalMemory>, failing opens), for every interleaving of
       open / begin_read / reader I/O / end of a reader handle / begin_write / writer I/O / end of the
       writer / drop of the Database and for EVERY failure outcome (any answer to any storage call of
       the close-time commit, of the shutdown header flush, of close() itself, and of every call before):
       close() is called by the closing event -- the drop of the Database if no writer is live, else
       the end of that writer -- not before, exactly once, whatever readers are alive; no call reaches
       the backend after it (readers are refused with DatabaseClosed); the Drop net of CheckedBackend
       never closes once a Database exists; a failing open closes exactly once (by the net); the
       emitted backend trace is accepted by the verified contract monitor; the model refines the
       hand-off automaton; the timing oracle used by the check accepts exactly the observations with
       "0 closes before the closing event has returned, 1 from then on, nothing after", and the
       model passes it for every history.
   What is validated per run (harness c20): that the traces redb produces are accepted by the
   extracted monitor, and that the layout functions of the crate agree with the model.          *)
From Coq Require Import List NArith Bool.
From RV Require Import Gen.Consts Storage.Contract Storage.ContractP Storage.Layout Storage.LayoutP.
From RV Require Import Storage.Shutdown Storage.ShutdownP.
Import ListNotations.
Open Scope N_scope.

(* ---- verified monitor ---- *)

Theorem c20_contract_check_sound : forall ro len0 tr,
  contract_okb ro len0 tr = true -> Contract ro len0 tr.
Proof. exact contract_check_sound. Qed.

Theorem c20_contract_check_complete : forall ro len0 tr,
  Contract ro len0 tr -> contract_okb ro len0 tr = true.
Proof. exact contract_check_complete. Qed.

Theorem c20_prefix_check_sound : forall ro len0 tr,
  prefix_okb ro len0 tr = true -> Safe ro len0 tr.
Proof. exact prefix_check_sound. Qed.

Theorem c20_prefix_check_complete : forall ro len0 tr,
  Safe ro len0 tr -> prefix_okb ro len0 tr = true.
Proof. exact prefix_check_complete. Qed.

Theorem c20_prefix_closed : forall ro len0 a b,
  prefix_okb ro len0 (a ++ b) = true -> prefix_okb ro len0 a = true.
Proof. exact prefix_closed. Qed.

Theorem c20_run_append : forall ro a b s,
  run_okb ro s (a ++ b) =
  match run_okb ro s a with Some s' => run_okb ro s' b | None => None end.
Proof. exact run_app. Qed.

(* ---- the contract, in the words of the property ---- *)

Theorem c20_bounds : forall ro len0 a c ok b off len,
  Safe ro len0 (a ++ (c, ok) :: b) -> (c = CRead off len \/ c = CWrite off len) ->
  off + len <= len_after len0 a.
Proof. exact contract_bounds. Qed.

Theorem c20_nothing_after_close : forall ro len0 a ok b,
  Safe ro len0 (a ++ (CClose, ok) :: b) -> b = [].
Proof. exact contract_nothing_after_close. Qed.

Theorem c20_close_exactly_once : forall ro len0 tr,
  Contract ro len0 tr -> count_close tr = 1%nat.
Proof. exact contract_close_exactly_once. Qed.

Theorem c20_read_only_silent : forall len0 tr e,
  Safe true len0 tr -> In e tr ->
  match fst e with CLen | CRead _ _ | CClose => True | _ => False end.
Proof. exact contract_read_only_silent. Qed.

(* ---- close hand-off (Database::drop vs. end of a live write transaction) ---- *)

Theorem c20_handoff_close_exactly_once : forall l s,
  hrun h_init l = Some s -> h_quiescent s = true -> h_closes s = 1.
Proof. exact close_exactly_once. Qed.

Theorem c20_handoff_at_most_once_and_last : forall l s,
  hrun h_init l = Some s ->
  (h_closes s = 0 \/ h_closes s = 1) /\ (h_closes s = 1 -> forall e, hstep s e = None).
Proof. exact close_at_most_once_and_last. Qed.

Theorem c20_handoff_deferred_close_is_performed : forall l s,
  hrun h_init l = Some s -> h_db_alive s = false -> h_live_write s = true ->
  exists s', hstep s HEndWrite = Some s' /\ h_closes s' = 1 /\ h_quiescent s' = true.
Proof. exact deferred_close_is_performed. Qed.

(* ---- layout ---- *)

Theorem c20_address_in_bounds : forall L p,
  valid_layout L -> in_layout L p ->
  rl_page_size (dl_full L) <= fst (mem_address_range L p) /\
  fst (mem_address_range L p) < snd (mem_address_range L p) /\
  snd (mem_address_range L p) <= dl_len L.
Proof. exact address_in_bounds. Qed.

Theorem c20_address_disjoint : forall L p q,
  valid_layout L -> in_layout L p -> in_layout L q ->
  ranges_disjoint (mem_address_range L p) (mem_address_range L q) \/
  (pn_region p = pn_region q /\ (block_within p q \/ block_within q p)).
Proof. exact address_disjoint. Qed.

Theorem c20_address_disjoint_same_order : forall L p q,
  valid_layout L -> in_layout L p -> in_layout L q ->
  pn_order p = pn_order q -> (pn_region p <> pn_region q \/ pn_index p <> pn_index q) ->
  ranges_disjoint (mem_address_range L p) (mem_address_range L q).
Proof. exact address_disjoint_same_order. Qed.

Theorem c20_calculate_valid : forall desired cap hdr ps,
  0 < ps -> 0 < cap -> 0 < desired ->
  valid_layout (dl_calculate desired cap hdr ps) /\
  dl_full (dl_calculate desired cap hdr ps) = mkRL cap hdr ps /\
  desired <= dl_usable (dl_calculate desired cap hdr ps).
Proof. exact calculate_valid. Qed.

Theorem c20_layout_roundtrip : forall desired cap hdr ps,
  0 < ps -> 0 < cap -> 0 < desired ->
  dl_recalculate (dl_len (dl_calculate desired cap hdr ps)) hdr cap ps =
  dl_norm (dl_calculate desired cap hdr ps).
Proof. exact layout_roundtrip. Qed.

Theorem c20_recalculate_len : forall L cap hdr ps,
  valid_layout L -> dl_full L = mkRL cap hdr ps ->
  dl_recalculate (dl_len L) hdr cap ps = dl_norm L.
Proof. exact recalculate_len. Qed.

Theorem c20_norm_equiv : forall L, valid_layout L ->
  valid_layout (dl_norm L) /\
  dl_full (dl_norm L) = dl_full L /\
  dl_num_regions (dl_norm L) = dl_num_regions L /\
  dl_len (dl_norm L) = dl_len L /\
  dl_usable (dl_norm L) = dl_usable L /\
  (forall r, r < dl_num_regions L ->
     dl_region_layout (dl_norm L) r = dl_region_layout L r /\
     dl_region_base (dl_norm L) r = dl_region_base L r) /\
  (forall p, in_layout (dl_norm L) p <-> in_layout L p) /\
  (forall p, mem_address_range (dl_norm L) p = mem_address_range L p).
Proof. exact norm_equiv. Qed.

Theorem c20_layout_from_file_len_sound : forall fl hdr cap ps L,
  0 < ps -> 0 < cap -> layout_from_file_len fl hdr cap ps = Some L ->
  valid_layout L /\ dl_full L = mkRL cap hdr ps /\ dl_len L = fl /\
  dl_num_regions L <= MAX_REGIONS.
Proof. exact layout_from_file_len_sound. Qed.

Theorem c20_layout_from_file_len_complete : forall L hdr cap ps,
  valid_layout L -> dl_full L = mkRL cap hdr ps -> dl_num_regions L <= MAX_REGIONS ->
  layout_from_file_len (dl_len L) hdr cap ps = Some (dl_norm L).
Proof. exact layout_from_file_len_complete. Qed.

Theorem c20_shrink_keeps_used : forall L pages p,
  valid_layout L ->
  let last := dl_num_regions L - 1 in
  let nlast := rl_num_pages (dl_region_layout L last) in
  pages <= nlast -> (pages < nlast \/ 1 < dl_num_regions L) ->
  in_layout L p ->
  (pn_region p = last -> blk_end p <= nlast - pages) ->
  let L' := dl_reduce_last L pages in
  valid_layout L' /\ in_layout L' p /\
  mem_address_range L' p = mem_address_range L p /\
  snd (mem_address_range L p) <= dl_len L' /\ dl_len L' <= dl_len L.
Proof. exact reduce_keeps_used. Qed.

(* ---- non-vacuity ---- *)

(* a complete trace shaped like creation + one write + close is accepted; the same trace with an
   access past the end, a call after close, a second close or no close is rejected *)
Example c20_nonvacuous_trace :
  let tr := [(CLen, true); (CSetLen 4096, true); (CWrite 0 320, true); (CSync, true);
             (CRead 0 320, true); (CSetLen 2048, true); (CRead 1024 1024, true); (CClose, true)] in
  contract_okb false 0 tr = true /\
  contract_okb false 0 (removelast tr) = false /\ prefix_okb false 0 (removelast tr) = true /\
  contract_okb false 0 (tr ++ [(CLen, true)]) = false /\
  contract_okb false 0 (tr ++ [(CClose, true)]) = false /\
  contract_okb false 0 [(CSetLen 4096, true); (CSetLen 2048, true); (CRead 1024 1025, false); (CClose, true)] = false /\
  contract_okb false 0 [(CSetLen 4096, false); (CRead 0 1, false); (CClose, true)] = false /\
  contract_okb true 4096 [(CLen, true); (CRead 0 320, true); (CClose, false)] = true /\
  contract_okb true 4096 [(CLen, true); (CSync, true); (CClose, true)] = false.
Proof. vm_compute. repeat split; reflexivity. Qed.

(* a two-region layout with 512-byte pages: valid, the page r1.3/1 is in it, addresses as computed *)
Example c20_nonvacuous_layout :
  let L := dl_calculate (20 * 512) 16 0 512 in
  valid_layoutb L = true /\ dl_num_regions L = 2 /\ dl_len L = 512 + 16 * 512 + 4 * 512 /\
  in_layoutb L (mkPN 1 1 1) = true /\ in_layoutb L (mkPN 1 1 2) = false /\
  mem_address_range L (mkPN 1 1 1) = (512 + 16 * 512 + 2 * 512, 512 + 16 * 512 + 4 * 512) /\
  dl_recalculate (dl_len L) 0 16 512 = L /\
  layout_from_file_len (dl_len L) 0 16 512 = Some L /\
  layout_from_file_len (dl_len L + 100) 0 16 512 = None /\
  dl_len (dl_reduce_last L 4) = 512 + 16 * 512.
Proof. vm_compute. repeat split; reflexivity. Qed.

(* Database dropped while a write transaction is live: the transaction end closes, once *)
Example c20_nonvacuous_handoff :
  (exists s, hrun h_init [HBeginWrite; HEndWrite; HBeginWrite; HDropDb; HEndWrite] = Some s /\
             h_quiescent s = true /\ h_closes s = 1) /\
  (exists s, hrun h_init [HBeginWrite; HEndWrite; HDropDb] = Some s /\
             h_quiescent s = true /\ h_closes s = 1) /\
  hrun h_init [HDropDb; HBeginWrite] = None.
Proof.
  split; [|split]; [eexists | eexists | ]; vm_compute; repeat split; reflexivity.
Qed.

(* ---- shutdown: who calls close(), when, and what follows -- all interleavings, all failure outcomes ----
   (Storage/Shutdown.v; `srun s_new evs = Some (s, l)`: the history `evs` is possible and leads to
    state `s` having emitted the stream `l` of wrapper entries and backend calls) *)

(* the Database is dropped and no write transaction is live  ==>  close() has been called, once --
   whatever reader handles are alive, whatever failed in the close-time commit / the header flush /
   close() itself / earlier in the session *)
Theorem c20_shutdown_closed_by_closing_event : forall evs s l,
  srun s_new evs = Some (s, l) ->
  o_opened (s_o s) = true -> o_db (s_o s) = false -> o_writer (s_o s) = false ->
  b_closes (s_b s) = 1 /\ b_closed (s_b s) = true /\ b_iof (s_b s) = true.
Proof. exact closed_by_closing_event. Qed.

(* ... and not earlier: no close() while the Database, or the write transaction deferring its close, lives *)
Theorem c20_shutdown_not_closed_before : forall evs s l,
  srun s_new evs = Some (s, l) ->
  o_db (s_o s) = true \/ o_writer (s_o s) = true ->
  b_closes (s_b s) = 0 /\ b_closed (s_b s) = false /\ b_gone (s_b s) = false.
Proof. exact not_closed_before. Qed.

(* the closing step itself, for every outcome: Drop for Database without a live writer ... *)
Theorem c20_shutdown_drop_db_closes : forall evs s l commit flush cok s' l',
  srun s_new evs = Some (s, l) -> o_writer (s_o s) = false ->
  sstep s (SDropDb commit flush cok) = Some (s', l') ->
  b_closes (s_b s) = 0 /\ b_closes (s_b s') = 1.
Proof. exact drop_db_closes. Qed.

(* ... or the end (commit / abort / drop) of the write transaction that was live at the drop *)
Theorem c20_shutdown_end_of_deferring_writer_closes : forall evs s l commit flush cok,
  srun s_new evs = Some (s, l) -> o_db (s_o s) = false -> o_writer (s_o s) = true ->
  exists s' l', sstep s (SEndWrite commit flush cok) = Some (s', l') /\
                b_closes (s_b s) = 0 /\ b_closes (s_b s') = 1.
Proof. exact end_of_deferring_writer_closes. Qed.

Theorem c20_shutdown_at_most_once_nothing_after : forall evs s l,
  srun s_new evs = Some (s, l) ->
  (b_closes (s_b s) = 0 \/ b_closes (s_b s) = 1) /\ b_after (s_b s) = 0.
Proof. exact at_most_once_nothing_after. Qed.

(* the emitted backend calls, judged by the verified monitor of this file: never a violation ... *)
Theorem c20_shutdown_trace_safe : forall evs s l,
  srun s_new evs = Some (s, l) -> prefix_okb false 0 (trace_of l) = true.
Proof. exact emitted_trace_safe. Qed.

(* ... and complete (exactly one close, as the last call) from the closing event on / after a failed open *)
Theorem c20_shutdown_trace_complete : forall evs s l,
  srun s_new evs = Some (s, l) ->
  (o_opened (s_o s) = true /\ o_db (s_o s) = false /\ o_writer (s_o s) = false) \/
  (o_opened (s_o s) = false /\ b_gone (s_b s) = true) ->
  contract_okb false 0 (trace_of l) = true.
Proof. exact emitted_trace_complete. Qed.

(* a reader handle that outlives the close: its storage calls are refused, nothing reaches the backend *)
Theorem c20_shutdown_readers_refused_after_close : forall evs s l cs s' l',
  srun s_new evs = Some (s, l) -> b_closes (s_b s) = 1 ->
  sstep s (SReadIo cs) = Some (s', l') ->
  s' = s /\ trace_of l' = [] /\ b_iof (s_b s) = true /\ b_closed (s_b s) = true.
Proof. exact readers_refused_after_close. Qed.

(* once a Database exists the close is always the explicit one: `Drop for CheckedBackend` finds `closed` set *)
Theorem c20_shutdown_net_never_closes_after_open : forall evs s l,
  srun s_new evs = Some (s, l) -> o_opened (s_o s) = true ->
  forall f c, In (LEnterDrop f c) l -> c = true.
Proof. exact net_never_closes_after_open. Qed.

(* an open that fails, at whatever point and for whatever reason: one close (by the net), nothing after,
   nothing possible afterwards *)
Theorem c20_open_failure_closes_once : forall cs cok s l,
  sstep s_new (SOpen cs false cok) = Some (s, l) ->
  b_closes (s_b s) = 1 /\ b_after (s_b s) = 0 /\ b_gone (s_b s) = true /\
  contract_okb false 0 (trace_of l) = true /\ forall e, sstep s e = None.
Proof. exact failed_open_closes_once. Qed.

Theorem c20_open_success_not_closed : forall cs cok s l,
  sstep s_new (SOpen cs true cok) = Some (s, l) ->
  b_closes (s_b s) = 0 /\ o_db (s_o s) = true /\ nonet l.
Proof. exact open_ok_not_closed. Qed.

(* the shutdown model refines the hand-off automaton above (readers, I/O and failures are invisible to it) *)
Theorem c20_shutdown_refines_handoff : forall evs s l e s' l',
  srun s_new evs = Some (s, l) -> o_opened (s_o s) = true ->
  sstep s e = Some (s', l') ->
  match h_ev e with
  | Some he => hstep (h_of s) he = Some (h_of s')
  | None => h_of s' = h_of s
  end.
Proof. exact refines_handoff. Qed.

(* the timing oracle of the check (S3), applied to (events of an API step, close() calls seen so far,
   calls seen after a close) per API step: what it expects ... *)
Theorem c20_timing_expected_meaning : forall evs t,
  trun t_new evs = Some t ->
  (expected_closes t = 0 \/ expected_closes t = 1) /\
  (expected_closes t = 1 <->
     t_failed t = true \/
     (t_opened t = true /\ h_db_alive (t_h t) = false /\ h_live_write (t_h t) = false)).
Proof. exact expected_closes_meaning. Qed.

(* ... it accepts exactly the observations that show the expected count after EVERY step and no call after close *)
Theorem c20_timing_check_sound : forall steps,
  timing_okb steps = true ->
  forall pre evs c a post, steps = pre ++ (evs, (c, a)) :: post ->
  exists t, trun t_new (flat pre ++ evs) = Some t /\ c = expected_closes t /\ a = 0.
Proof. exact timing_check_sound. Qed.

Theorem c20_timing_check_complete : forall steps,
  (forall pre evs c a post, steps = pre ++ (evs, (c, a)) :: post ->
     exists t, trun t_new (flat pre ++ evs) = Some t /\ c = expected_closes t /\ a = 0) ->
  timing_okb steps = true.
Proof. exact timing_check_complete. Qed.

(* ... and the model passes it for every history, every split into API steps, every failure outcome *)
Theorem c20_shutdown_model_satisfies_timing : forall steps obs logs,
  model_steps s_new steps = Some (obs, logs) -> timing_okb obs = true.
Proof. exact model_satisfies_timing. Qed.

(* non-vacuity.  (1) a commit fails and latches the I/O error; the Database is then dropped while a
   ReadTransaction and a table of it are alive; the close-time commit is refused, the header flush is
   skipped, close() itself reports an error: still closed at the drop, the reader is refused, the
   CheckedBackend goes away with the last reader without a second close. *)
Example c20_nonvacuous_shutdown_latched_failure_readers_alive :
  let evs := [SOpen [(KOp, true); (KOp, true)] true true; SBeginRead; SBeginRead;
              SBeginWrite; SWriteIo [(KOp, true); (KOp, false); (KOp, true)]; SEndWrite [] [] true;
              SDropDb [(KOp, true)] [(KOp, true)] false;
              SReadIo [(KOp, true)]; SEndRead true; SEndRead true] in
  exists s, srun s_new evs = Some (s,
      [LEnterOp KOp false false; LBack true; LEnterOp KOp false false; LBack true;
       LEnterOp KOp false false; LBack true; LEnterOp KOp false false; LBack false;
       LEnterOp KOp true false;
       LEnterOp KOp true false; LEnterOp KOp true false; LEnterClose true false; LBackClose false;
       LEnterOp KOp true true; LEnterDrop true true]) /\
    b_closes (s_b s) = 1 /\ b_after (s_b s) = 0 /\ b_gone (s_b s) = true /\ s_quiescent s = true.
Proof. eexists. vm_compute. repeat split; reflexivity. Qed.

(* (2) Database dropped under a live writer with a reader alive; the writer's commit fails, the
   close-time commit is refused: closed exactly when the writer ends, the reader still alive. *)
Example c20_nonvacuous_shutdown_deferred_close_failing_commit :
  let pre := [SOpen [] true true; SBeginRead; SBeginWrite; SDropDb [] [] true;
              SWriteIo [(KOp, true); (KOp, false)]] in
  (exists s l, srun s_new pre = Some (s, l) /\ b_closes (s_b s) = 0 /\ o_readers (s_o s) = 1) /\
  (exists s l, srun s_new (pre ++ [SEndWrite [(KOp, true)] [] true]) = Some (s, l) /\
               b_closes (s_b s) = 1 /\ o_readers (s_o s) = 1 /\ b_gone (s_b s) = false).
Proof. split; eexists; eexists; vm_compute; repeat split; reflexivity. Qed.

(* (3) a failing open; (4) events the API excludes *)
Example c20_nonvacuous_open_failure :
  exists s, sstep s_new (SOpen [(KOp, true); (KOp, false); (KOp, true)] false true) = Some (s,
      [LEnterOp KOp false false; LBack true; LEnterOp KOp false false; LBack false;
       LEnterOp KOp true false; LEnterDrop true false; LBackClose true]) /\ b_closes (s_b s) = 1.
Proof. eexists. vm_compute. split; reflexivity. Qed.

Example c20_nonvacuous_shutdown_excluded :
  srun s_new [SOpen [] true true; SDropDb [] [] true; SBeginWrite] = None /\
  srun s_new [SOpen [] true true; SDropDb [] [] true; SBeginRead] = None /\
  srun s_new [SBeginRead] = None.
Proof. vm_compute. repeat split; reflexivity. Qed.

(* (5) the oracle on observations: a correct one is accepted; the close skipped at the drop and made
   only when the last reader goes (what a missing explicit close behind the Drop net looks like) is
   rejected at the step of the drop; so is a close before the drop *)
Example c20_nonvacuous_timing_oracle :
  let ev := [[SOpen [] true true]; [SBeginRead]; [SDropDb [] [(KOp, false)] true]; [SEndRead true]] in
  timing_check t_new (combine ev [(0, 0); (0, 0); (1, 0); (1, 0)]) 0 = TOk /\
  timing_check t_new (combine ev [(0, 0); (0, 0); (0, 0); (1, 0)]) 0 = TBad 2 /\
  timing_check t_new (combine ev [(0, 0); (1, 0); (1, 0); (1, 0)]) 0 = TBad 1 /\
  timing_check t_new (combine ev [(0, 0); (0, 0); (1, 0); (1, 1)]) 0 = TBad 3 /\
  timing_check t_new [([SOpen [] false true], (1, 0))] 0 = TOk /\
  timing_check t_new [([SOpen [] false true], (0, 0))] 0 = TBad 0 /\
  timing_check t_new [([SBeginWrite], (0, 0))] 0 = TMalformed 0.
Proof. vm_compute. repeat split; reflexivity. Qed.

(* ------------------------------------------------------------------------------------------------
   Tie to the code (Gen/Fns.v is regenerated from layout.rs / base.rs / header.rs on every run by
   tools/gen_fns.py): the layout and page-address arithmetic of Storage/Layout.v is equal to the functions
   translated from the Rust sources, through the conversions rl_of / dl_of / pn_of of the generated records
   (under the guards the code asserts where stated). *)
From RV Require Import Gen.FnsLib Gen.Fns Gen.FnsLayoutP.

Theorem c20_code_round_up_to_multiple_of_is_model : forall v m,
  Fns.round_up_to_multiple_of v m = Layout.round_up_to_multiple_of v m.
Proof. exact round_up_is_model. Qed.

Theorem c20_code_region_layout_calculate_is_model : forall desired cap hdr ps,
  rl_of (RegionLayout_calculate desired cap hdr ps) = rl_calculate desired cap hdr ps.
Proof. exact rl_calculate_is_model. Qed.

Theorem c20_code_region_layout_new_is_model : forall n h ps, rl_of (RegionLayout_new n h ps) = mkRL n h ps.
Proof. exact rl_new_is_model. Qed.

Theorem c20_code_region_layout_getters_are_model : forall r,
  RegionLayout_num_pages r = rl_num_pages (rl_of r) /\
  RegionLayout_get_header_pages r = rl_header_pages (rl_of r) /\
  RegionLayout_page_size r = rl_page_size (rl_of r).
Proof. exact rl_getters_are_model. Qed.

Theorem c20_code_region_layout_usable_bytes_is_model : forall r,
  RegionLayout_usable_bytes r = rl_usable (rl_of r).
Proof. exact rl_usable_is_model. Qed.

Theorem c20_code_region_layout_len_is_model : forall r, RegionLayout_len r = rl_len (rl_of r).
Proof. exact rl_len_is_model. Qed.

Theorem c20_code_region_layout_data_section_is_model : forall r,
  RegionLayout_data_section r = (rl_data_start (rl_of r), (rl_data_start (rl_of r) + rl_usable (rl_of r))%N).
Proof. exact rl_data_section_is_model. Qed.

Theorem c20_code_database_layout_new_is_model : forall n f t,
  dl_of (DatabaseLayout_new n f t) = mkDL (rl_of f) n (option_map rl_of t).
Proof. exact dl_new_is_model. Qed.

Theorem c20_code_database_layout_recalculate_is_model : forall file_len hdr cap ps,
  dl_of (DatabaseLayout_recalculate file_len hdr cap ps) = dl_recalculate file_len hdr cap ps.
Proof. exact dl_recalculate_is_model. Qed.

Theorem c20_code_database_layout_calculate_is_model : forall desired cap hdr ps,
  dl_of (DatabaseLayout_calculate desired cap hdr ps) = dl_calculate desired cap hdr ps.
Proof. exact dl_calculate_is_model. Qed.

Theorem c20_code_database_layout_num_regions_is_model : forall d,
  DatabaseLayout_num_regions d = dl_num_regions (dl_of d).
Proof. exact dl_num_regions_is_model. Qed.

Theorem c20_code_database_layout_num_full_regions_is_model : forall d,
  DatabaseLayout_num_full_regions d = dl_num_full (dl_of d).
Proof. exact dl_num_full_is_model. Qed.

Theorem c20_code_database_layout_region_base_address_is_model : forall d region,
  DatabaseLayout_region_base_address d region = dl_region_base (dl_of d) region.
Proof. exact dl_region_base_is_model. Qed.

Theorem c20_code_database_layout_region_layout_is_model : forall d region,
  DatabaseLayout_region_layout_guard d region = true ->
  rl_of (DatabaseLayout_region_layout d region) = dl_region_layout (dl_of d) region.
Proof. exact dl_region_layout_is_model. Qed.

Theorem c20_code_database_layout_len_is_model : forall d,
  DatabaseLayout_len_guard d = true -> DatabaseLayout_len d = dl_len (dl_of d).
Proof. exact dl_len_is_model. Qed.

Theorem c20_code_database_layout_usable_bytes_is_model : forall d,
  DatabaseLayout_usable_bytes d = dl_usable (dl_of d).
Proof. exact dl_usable_is_model. Qed.

Theorem c20_code_layout_from_file_len_is_model : forall ps hdr cap fl,
  option_map dl_of (UnrepairedDatabaseHeader_layout_from_file_len ps hdr cap fl) =
  Layout.layout_from_file_len fl hdr cap ps.
Proof. exact layout_from_file_len_is_model. Qed.

Theorem c20_code_page_number_new_is_model : forall r i o, pn_of (PageNumber_new r i o) = mkPN r i o.
Proof. exact pn_new_is_model. Qed.

Theorem c20_code_page_size_bytes_is_model : forall p ps,
  (PageNumber_f_page_order p <= MAX_MAX_PAGE_ORDER)%N ->
  PageNumber_page_size_bytes p ps = Layout.page_size_bytes (pn_of p) ps.
Proof. exact page_size_bytes_is_model. Qed.

Theorem c20_code_address_range_is_model : forall p dso rsize rstart ps,
  (PageNumber_f_page_order p <= MAX_MAX_PAGE_ORDER)%N ->
  PageNumber_address_range p dso rsize rstart ps = Layout.address_range (pn_of p) dso rsize rstart ps.
Proof. exact address_range_is_model. Qed.

Theorem c20_code_mem_address_range_is_model : forall d p,
  (PageNumber_f_page_order p <= MAX_MAX_PAGE_ORDER)%N ->
  let f := DatabaseLayout_f_full_region_layout d in
  PageNumber_address_range p (RegionLayout_page_size f) (RegionLayout_len f)
    (fst (RegionLayout_data_section f)) (RegionLayout_page_size f)
  = Layout.mem_address_range (dl_of d) (pn_of p).
Proof. exact mem_address_range_is_model. Qed.
