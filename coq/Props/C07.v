(* C07 -- Savepoints restore exactly the captured state.
   This file contains only statements; every proof is `exact <lemma>`.
   Model: coq/Savepoint/Model.v (savepoint bookkeeping of redb over opaque contents tokens);
   the model's [step] is extracted and compared with the real crate by harness/src/bin/c07.rs. *)
From Coq Require Import List NArith Bool.
From RV Require Import Savepoint.Model Savepoint.ModelP Savepoint.InvP Savepoint.ForeverP Savepoint.SurviveP.
Import ListNotations.
Open Scope N_scope.

(* Restoring a live savepoint and committing publishes exactly the contents captured by the handle,
   and no savepoint newer than the restored one remains valid or listed. Holds in EVERY state. *)
Theorem c07_restore_exact : forall s t i h s1 s2 r2,
  cur s = Some t -> handle_at s i = Some h ->
  step s (ORestore i) = (s1, ROk) ->
  step s1 OCommit = (s2, r2) ->
  committed s2 = h_data h /\ r2 = RState (h_data h)
  /\ (t_dur t = DImm -> durable s2 = h_data h)
  /\ (forall id', In id' (ids (valid s2)) -> id' <= h_id h)
  /\ (forall id', In id' (ids (tbl_c s2)) -> id' <= h_id h).
Proof. exact restore_exact. Qed.

(* ... and the handles of those newer savepoints can never be restored again, whatever the rest of
   the history does (more transactions, aborts, reopen, crash): quantified over every continuation l. *)
Theorem c07_later_savepoints_unusable_forever : forall s t i h s1 s2 r2 j hj l,
  reachable s -> cur s = Some t -> handle_at s i = Some h ->
  step s (ORestore i) = (s1, ROk) -> step s1 OCommit = (s2, r2) ->
  handle_at s j = Some hj -> h_id h < h_id hj ->
  snd (step (run s2 l) (ORestore j)) <> ROk.
Proof. exact later_savepoints_unusable_forever. Qed.

(* A restore that is aborted changes nothing: same observable state as aborting without it. *)
Theorem c07_restore_abort_noop : forall s t i s1 r1,
  cur s = Some t ->
  step s (ORestore i) = (s1, r1) ->
  observable (abort_of s1) = observable (abort_of s) /\ handles (abort_of s1) = handles (abort_of s)
  /\ cur (abort_of s1) = None.
Proof. exact restore_abort_noop. Qed.

(* Persistent savepoints are listed and restorable (to their captured contents) after a clean reopen ... *)
Theorem c07_persistent_survives_reopen : forall s id c, reachable s -> cur s = None ->
  lookup id (tbl_c s) = Some c ->
  let s' := fst (step s OReopen) in
  let k := N.of_nat (length (handles s)) in
  tbl_c s' = tbl_c s /\ committed s' = committed s
  /\ run_res s' [OBegin; OList] = [ROk; RList (ids (tbl_c s))]
  /\ run_res s' [OBegin; OGet id; ORestore k; OCommit] = [ROk; RHandle k id; ROk; RState c].
Proof. exact persistent_survives_reopen. Qed.

(* ... and after a crash (recovering the last durable commit), where moreover the durable table IS the
   table of the last commit: non-durable commits never change the set of persistent savepoints. *)
Theorem c07_persistent_survives_crash : forall s id c, reachable s ->
  lookup id (tbl_d s) = Some c ->
  let s' := fst (step s OCrash) in
  let k := N.of_nat (length (handles s)) in
  tbl_c s' = tbl_d s /\ tbl_d s = tbl_c s /\ committed s' = durable s
  /\ run_res s' [OBegin; OList] = [ROk; RList (ids (tbl_d s))]
  /\ run_res s' [OBegin; OGet id; ORestore k; OCommit] = [ROk; RHandle k id; ROk; RState c].
Proof. exact persistent_survives_crash. Qed.

(* Ephemeral savepoints (and every handle of the old process) are unusable after reopen / crash. *)
Theorem c07_ephemeral_vanish : forall s o i h l, reachable s -> (o = OReopen /\ cur s = None) \/ o = OCrash ->
  handle_at s i = Some h ->
  snd (step (run (fst (step s o)) l) (ORestore i)) <> ROk.
Proof. exact ephemeral_vanish. Qed.

(* A persistent savepoint that was durably committed and then deleted never comes back, in any
   continuation (no id reuse, no resurrection through reopen or crash). *)
Theorem c07_no_resurrection : forall l id s, reachable s -> gone id s ->
  gone id (run s l) /\ (forall t, cur (run s l) = Some t -> snd (do_get (run s l) t id) = RErrInvalid).
Proof. exact no_resurrection. Qed.

(* Savepoint ids are fresh: a newly created savepoint's id differs from every valid savepoint, every
   persistent record (staged, committed, durable), every persistent id ever durably committed, and every
   handle of this process. *)
Theorem c07_savepoint_ids_fresh : forall s o id, reachable s -> new_id s o = Some id ->
  ~ In id (ids (valid s)) /\ ~ In id (ids (tbl_c s)) /\ ~ In id (ids (tbl_d s)) /\ ~ In id (ever s)
  /\ (forall t, cur s = Some t -> ~ In id (ids (t_table t)))
  /\ (forall h, In h (handles s) -> h_session h = session s -> h_id h <> id)
  /\ next_id s < id.
Proof. exact savepoint_ids_fresh. Qed.

(* Committed contents move only at commit (to the staged contents) or crash (to the durable contents);
   savepoint creation, restore, deletion, drop, abort never touch them. *)
Theorem c07_no_data_loss : forall s o, keeps_data o = true ->
  committed (fst (step s o)) = committed s
  /\ (o <> OReopen -> o <> OIntegrity -> durable (fst (step s o)) = durable s)
  /\ (o = OReopen \/ o = OIntegrity -> durable (fst (step s o)) = durable s \/ durable (fst (step s o)) = committed s).
Proof. exact no_data_loss. Qed.

Theorem c07_invariant_all_histories : forall s, reachable s -> Inv s.
Proof. exact inv_reach. Qed.

(* ---- non-vacuity: a concrete history in which all the hypotheses above are met *)
Definition ex_hist : list op :=
  [OBegin; OWrite 1; OCommit;
   OBegin; OPers; OCommit;                       (* persistent #1 captures contents 1 *)
   OBegin; OEph; OSetDur DNone; OWrite 2; OCommit;   (* ephemeral #2 (handle 0) captures 1; non-durable commit of 2 *)
   OBegin; OPers; OWrite 3; OCommit;             (* persistent #3 captures 2; durable commit of 3 *)
   OBegin; OEph; OAbort;                         (* ephemeral #4 (handle 1) captures 3 *)
   OBegin].
Definition ex_state : st := run (init 0) ex_hist.

Example c07_nonvacuous_restore :
  reachable ex_state
  /\ (exists t, cur ex_state = Some t)
  /\ ids (valid ex_state) = [1; 2; 3; 4] /\ ids (tbl_c ex_state) = [1; 3] /\ committed ex_state = 3
  /\ (exists h hj, handle_at ex_state 0 = Some h /\ handle_at ex_state 1 = Some hj /\ h_id h = 2 /\ h_data h = 1 /\ h_id hj = 4)
  /\ snd (step ex_state (ORestore 0)) = ROk
  /\ run_res ex_state [ORestore 0; OCommit; OBegin; OList; ORestore 1; OGet 3; OGet 1]
     = [ROk; RState 1; ROk; RList [1]; RErrInvalid; RErrInvalid; RHandle 2 1].
Proof.
  split; [exists 0, ex_hist; reflexivity|].
  split; [vm_compute; eexists; reflexivity|].
  split; [vm_compute; reflexivity|]. split; [vm_compute; reflexivity|]. split; [vm_compute; reflexivity|].
  split; [vm_compute; eexists; eexists; repeat split; reflexivity|].
  split; vm_compute; reflexivity.
Qed.

Example c07_nonvacuous_survive :
  let s := run ex_state [OAbort] in
  reachable s /\ cur s = None /\ lookup 3 (tbl_c s) = Some 2 /\ lookup 3 (tbl_d s) = Some 2
  /\ gone 3 (run s [OBegin; ODel 3; OCommit]).
Proof.
  cbv zeta.
  split; [exists 0, (ex_hist ++ [OAbort]); vm_compute; reflexivity|].
  split; [vm_compute; reflexivity|]. split; [vm_compute; reflexivity|]. split; [vm_compute; reflexivity|].
  unfold gone. split; [vm_compute; auto 10|]. split; [vm_compute; intuition discriminate|].
  vm_compute. intros; discriminate.
Qed.

Example c07_nonvacuous_fresh :
  new_id (run ex_state [OTouch]) OEph = None /\ new_id (run ex_state [OAbort; OBegin]) OPers = Some 5.
Proof. split; vm_compute; reflexivity. Qed.

(* ======================================================================================================
   Allocation records: WHAT a savepoint restore frees (coq/Txn/AllocRec.v on top of the page-ownership model
   coq/Txn/Own.v; qualified names, the savepoint model above keeps its own `st`, `op`, `step`).
   `AllocRec.step2` is a product step over Own.v's operation language whose first component is `Own.step`;
   its second component mirrors DATA_ALLOCATED_TABLE, unpersisted.allocations, the PageTracker (+ tracking flag),
   `dirty`, valid_savepoints and the per-transaction invalidation set, function by function.
   `AllocRec.Inv2 x` = Own.Inv (fst x) /\ RInv x; RInv contains O5: for every valid savepoint at t, the records
   with key > t (+ the tracker) name exactly the data-lineage pages that are not part of the savepoint's version.
   The extracted step2 / rinv_checkb are compared with / evaluated on the real crate after every API call
   (harness `c07 rec`, ocaml/c07r_driver.ml). *)
From RV Require Txn.PSet Txn.Own Txn.OwnThmP Txn.AllocRec Txn.AllocRecBaseP Txn.AllocRecP Txn.AllocRecDrainP.

(* the product machine refines the ownership machine: its first component IS Own.step *)
Theorem c07_step2_refines_own : forall x o, fst (AllocRec.step2 x o) = Own.step (fst x) o.
Proof. exact AllocRecP.step2_fst. Qed.

Theorem c07_run2_refines_own : forall h x, fst (AllocRec.run2 h x) = Own.run h (fst x).
Proof. exact AllocRecP.run2_fst. Qed.

(* rec_inv: the record invariant holds initially and is preserved by every admissible step, hence in every
   history (induction on its length) *)
Theorem c07_rec_inv_init : AllocRec.Inv2 (Own.init, AllocRec.rinit).
Proof. exact AllocRecP.rinv_init. Qed.

Theorem c07_rec_inv_step : forall x o, AllocRec.Inv2 x -> AllocRec.oracle_ok2 x o = true ->
  AllocRec.Inv2 (AllocRec.step2 x o).
Proof. exact AllocRecP.rinv_step. Qed.

Theorem c07_rec_inv : forall h x, AllocRec.Inv2 x -> AllocRec.admissible2 x h -> AllocRec.Inv2 (AllocRec.run2 h x).
Proof. exact AllocRecP.rec_inv. Qed.

Theorem c07_rec_inv_reach : forall h, AllocRec.admissible2 (Own.init, AllocRec.rinit) h ->
  AllocRec.Inv2 (AllocRec.run2 h (Own.init, AllocRec.rinit)).
Proof. exact AllocRecP.rec_inv_init. Qed.

(* restore_frees_exactly: what the code's mechanism computes on a restore -- the tracker's pages freed at once,
   DATA_ALLOCATED[> t] ++ unpersisted_allocations_after(t) queued -- is, as a state, what Own.restore specifies
   (equal up to the order inside the allocator set, the uncommitted set and the queue) ... *)
Theorem c07_restore_frees_exactly : forall x h, AllocRec.Inv2 x -> AllocRec.oracle_ok2 x (Own.ORestore h) = true ->
  AllocRec.st_eqv (AllocRec.restore_rec h (fst x) (snd x)) (Own.restore h (fst x)).
Proof. exact AllocRecP.restore_frees_exactly. Qed.

(* ... the two sets spelled out: with X = everything the data lineage owns after the savepoint (Own.cover_w),
   X /\ uncommitted = the tracker's pages, and (X \ uncommitted) \ pages(savepoint) = the records after it *)
Theorem c07_restore_sets_exact : forall x h sp, AllocRec.Inv2 x -> AllocRec.oracle_ok2 x (Own.ORestore h) = true ->
  Own.find_pin h (Own.pins (fst x)) = Some sp ->
  let X := Own.cover_w (Own.ptxn sp) (fst x) in
  PSet.seteq (PSet.inter X (Own.wasc (fst x))) (AllocRec.trk (snd x)) /\
  PSet.seteq (PSet.minus (PSet.minus X (Own.wasc (fst x))) (Own.ppages sp)) (AllocRec.RC (Own.ptxn sp) (snd x)).
Proof. exact AllocRecP.restore_sets_exact. Qed.

(* tracking_disabled_safe: the PageTracker is off only when no savepoint exists; the transaction is then dirty,
   so no savepoint can be created in it and there is none to restore *)
Theorem c07_tracking_disabled_safe : forall x, AllocRec.Inv2 x -> AllocRec.trk_on (snd x) = false ->
  AllocRec.valid (snd x) = [] /\ AllocRec.trk (snd x) = [] /\ AllocRec.dirty (snd x) = true /\
  (forall h p, AllocRec.oracle_ok2 x (Own.OSpCreate h p) = false) /\
  (forall h, AllocRec.oracle_ok2 x (Own.ORestore h) = false).
Proof. exact AllocRecP.tracking_disabled_safe. Qed.

Theorem c07_restore_tracker_complete : forall x h, AllocRec.Inv2 x ->
  AllocRec.oracle_ok2 x (Own.ORestore h) = true -> AllocRec.trk_on (snd x) = true.
Proof. exact AllocRecP.restore_tracker_complete. Qed.

(* savepoint_no_leak: once no reader and no savepoint is left, three durable commits that change no data
   (quick-repair off, post-commit free on; Sd_i / So_i = the system tree after the commit / after its epilogue)
   leave allocated = pages(data tree) ++ pages(system tree), every pending-free table and both record tables
   empty.  (The first commit's epilogue drains DATA_FREED under a non-durable id that holds its durable ancestor
   through the second commit; the third drains SYSTEM_FREED.) *)
Theorem c07_savepoint_no_leak : forall Sd1 So1 Sd2 So2 Sd3 So3 x, AllocRec.Inv2 x ->
  Own.inw (fst x) = false -> Own.pins (fst x) = [] ->
  let sched := AllocRec.no_leak_schedule (Own.vdata (Own.lat (fst x))) Sd1 So1 Sd2 So2 Sd3 So3 in
  AllocRec.admissible2 x sched ->
  let x' := AllocRec.run2 sched x in
  NoDup (Own.alloc (fst x')) /\
  (forall p, In p (Own.alloc (fst x')) <-> In p (Own.vdata (Own.lat (fst x')) ++ Own.vsys (Own.lat (fst x')))) /\
  PSet.flat (Own.dfreed (fst x')) = [] /\ Own.sfreed (fst x') = [] /\ Own.ufreed (fst x') = [] /\
  Own.unpers (fst x') = [] /\ Own.pend (fst x') = [] /\
  Own.vdata (Own.lat (fst x')) = Own.vdata (Own.lat (fst x)) /\
  AllocRec.dalloc (snd x') = [] /\ AllocRec.ualloc (snd x') = [] /\ AllocRec.valid (snd x') = [].
Proof. exact AllocRecDrainP.savepoint_no_leak. Qed.

(* the boolean checker evaluated on every observed (ownership state, records) of the implementation is sound *)
Theorem c07_rinv_check_sound : forall x, AllocRec.rinv_checkb x = true -> AllocRec.RObs (fst x) (snd x).
Proof. exact AllocRecBaseP.rinv_check_sound. Qed.

(* ---- non-vacuity: a history with a durable and a non-durable commit, two ephemeral savepoints, a dirty
   transaction with tracked pages; both savepoints are restorable *)
Definition c07_rec_history : list Own.op :=
  [ Own.OBeginWrite; Own.OMutData [1;2]%positive; Own.OCommitDur [1;2]%positive [10]%positive [] false true;
    Own.OBeginWrite; Own.OSpCreate 100 false; Own.OMutData [1;3]%positive; Own.OCommitNd [1;3]%positive [10]%positive;
    Own.OBeginWrite; Own.OSpCreate 101 false; Own.OMutData [1;4]%positive ].
Definition c07_rec_state : Own.st * AllocRec.arec := AllocRec.run2 c07_rec_history (Own.init, AllocRec.rinit).

Example c07_rec_nonvacuous :
  AllocRec.admissible2 (Own.init, AllocRec.rinit) c07_rec_history /\
  AllocRec.rinv_checkb c07_rec_state = true /\ Own.own_checkb (fst c07_rec_state) = true /\
  AllocRec.valid (snd c07_rec_state) = [(100, 2); (101, 3)] /\
  AllocRec.ualloc (snd c07_rec_state) = [(3, [3]%positive)] /\ AllocRec.trk (snd c07_rec_state) = [4%positive] /\
  Own.ufreed (fst c07_rec_state) = [(3, [2]%positive)] /\ Own.wdfr (fst c07_rec_state) = [3%positive] /\
  AllocRec.oracle_ok2 c07_rec_state (Own.ORestore 101) = true /\
  AllocRec.oracle_ok2 c07_rec_state (Own.ORestore 100) = true /\
  Own.wdfr (AllocRec.restore_rec 100 (fst c07_rec_state) (snd c07_rec_state)) = [3%positive] /\
  Own.alloc (AllocRec.restore_rec 100 (fst c07_rec_state) (snd c07_rec_state)) = [3; 10; 1; 2]%positive.
Proof. vm_compute. repeat split; reflexivity. Qed.

(* the off-by-one variant (`allocations_after` / the DATA_ALLOCATED range taken from t instead of t+1) is refuted:
   restoring savepoint 101 (transaction 3, pages {1,3}) it queues page 3 -- a page of the restored root -- for
   freeing, and its result is not the state Own.restore specifies *)
Example c07_restore_range_off_by_one_refuted :
  Own.find_pin 101 (Own.pins (fst c07_rec_state)) = Some (Own.mkpin 101 3 [1;3]%positive false) /\
  In 3%positive (Own.wdfr (AllocRec.restore_rec_ge 101 (fst c07_rec_state) (snd c07_rec_state))) /\
  Own.wdata (AllocRec.restore_rec_ge 101 (fst c07_rec_state) (snd c07_rec_state)) = [1;3]%positive /\
  ~ AllocRec.st_eqv (AllocRec.restore_rec_ge 101 (fst c07_rec_state) (snd c07_rec_state)) (Own.restore 101 (fst c07_rec_state)) /\
  AllocRec.st_eqv (AllocRec.restore_rec 101 (fst c07_rec_state) (snd c07_rec_state)) (Own.restore 101 (fst c07_rec_state)).
Proof.
  split; [vm_compute; reflexivity|]. split; [vm_compute; auto|]. split; [vm_compute; reflexivity|]. split.
  - intros (_ & _ & Hq & _). destruct (Hq 3%positive) as [H1 _]. vm_compute in H1. apply H1. auto.
  - apply c07_restore_frees_exactly; [|vm_compute; reflexivity].
    apply c07_rec_inv_reach. vm_compute. repeat split; reflexivity.
Qed.

(* the same with DATA_ALLOCATED_TABLE (the commit of transaction 3 is durable) *)
Definition c07_rec_history_d : list Own.op :=
  [ Own.OBeginWrite; Own.OMutData [1;2]%positive; Own.OCommitDur [1;2]%positive [10]%positive [] false true;
    Own.OBeginWrite; Own.OSpCreate 100 false; Own.OMutData [1;3]%positive; Own.OCommitDur [1;3]%positive [10]%positive [11]%positive false true;
    Own.OBeginWrite; Own.OSpCreate 101 false; Own.OMutData [1;4]%positive ].
Definition c07_rec_state_d : Own.st * AllocRec.arec := AllocRec.run2 c07_rec_history_d (Own.init, AllocRec.rinit).

Example c07_restore_range_off_by_one_refuted_table :
  AllocRec.admissible2 (Own.init, AllocRec.rinit) c07_rec_history_d /\
  AllocRec.dalloc (snd c07_rec_state_d) = [(3, [3]%positive)] /\
  In 3%positive (Own.wdfr (AllocRec.restore_rec_ge 101 (fst c07_rec_state_d) (snd c07_rec_state_d))) /\
  Own.wdfr (AllocRec.restore_rec 101 (fst c07_rec_state_d) (snd c07_rec_state_d)) = [].
Proof. vm_compute. repeat split; try reflexivity. auto. Qed.

(* the hypotheses of c07_savepoint_no_leak are satisfiable on a state with pending records: after aborting the
   transaction and dropping both savepoints the schedule is admissible, and it starts with non-empty tables *)
Example c07_no_leak_nonvacuous :
  let x := AllocRec.run2 (c07_rec_history ++ [Own.OAbort; Own.ODropPin 100; Own.ODropPin 101]) (Own.init, AllocRec.rinit) in
  AllocRec.admissible2 (Own.init, AllocRec.rinit) (c07_rec_history ++ [Own.OAbort; Own.ODropPin 100; Own.ODropPin 101]) /\
  Own.inw (fst x) = false /\ Own.pins (fst x) = [] /\
  Own.ufreed (fst x) = [(3, [2]%positive)] /\ AllocRec.ualloc (snd x) = [(3, [3]%positive)] /\
  AllocRec.admissible2 x (AllocRec.no_leak_schedule (Own.vdata (Own.lat (fst x))) [10]%positive [12]%positive [12]%positive [] [12]%positive []).
Proof. vm_compute. repeat split; reflexivity. Qed.

(* ------------------------------------------------------------------------------------------------
   Tie to the code (Gen/Fns.v is regenerated from transaction_tracker.rs on every run by tools/gen_fns.py; see
   design.d/GEN.md): the id handed out by tracker.allocate_savepoint is SavepointId::next of the counter. *)
From RV Require Import Gen.FnsLib Gen.Fns Gen.FnsTxnP.

Theorem c07_code_savepoint_id_next_is_model : forall s : Savepoint.Model.st,
  Savepoint.Model.fresh_id s = SavepointId_next (Savepoint.Model.next_id s).
Proof. exact savepoint_id_next_is_model. Qed.
