(* C07 -- Savepoints restore exactly the captured state.
   This file contains only statements; every proof is `exact <lemma>`.
   Model: coq/Savepoint/Model.v (savepoint bookkeeping of redb over opaque contents tokens);
   the model's [step] is extracted and compared with the real crate by harness/src/bin/c07.rs. *)
From Coq Require Import List NArith Bool.
From RV Require Import Savepoint.Model Savepoint.ModelP Savepoint.InvP Savepoint.ForeverP Savepoint.SurviveP.
Import ListNotations.
Open Scope N_scope.

(* Restoring a live savepoint and committing publishes exactly the contents captured by the handle,
   and no savepoint newer than the restored one remains valid or listed. Holds in EVERY state. *)
Theorem c07_restore_exact : forall s t i h s1 s2 r2,
  cur s = Some t -> handle_at s i = Some h ->
  step s (ORestore i) = (s1, ROk) ->
  step s1 OCommit = (s2, r2) ->
  committed s2 = h_data h /\ r2 = RState (h_data h)
  /\ (t_dur t = DImm -> durable s2 = h_data h)
  /\ (forall id', In id' (ids (valid s2)) -> id' <= h_id h)
  /\ (forall id', In id' (ids (tbl_c s2)) -> id' <= h_id h).
Proof. exact restore_exact. Qed.

(* ... and the handles of those newer savepoints can never be restored again, whatever the rest of
   the history does (more transactions, aborts, reopen, crash): quantified over every continuation l. *)
Theorem c07_later_savepoints_unusable_forever : forall s t i h s1 s2 r2 j hj l,
  reachable s -> cur s = Some t -> handle_at s i = Some h ->
  step s (ORestore i) = (s1, ROk) -> step s1 OCommit = (s2, r2) ->
  handle_at s j = Some hj -> h_id h < h_id hj ->
  snd (step (run s2 l) (ORestore j)) <> ROk.
Proof. exact later_savepoints_unusable_forever. Qed.

(* A restore that is aborted changes nothing: same observable state as aborting without it. *)
Theorem c07_restore_abort_noop : forall s t i s1 r1,
  cur s = Some t ->
  step s (ORestore i) = (s1, r1) ->
  observable (abort_of s1) = observable (abort_of s) /\ handles (abort_of s1) = handles (abort_of s)
  /\ cur (abort_of s1) = None.
Proof. exact restore_abort_noop. Qed.

(* Persistent savepoints are listed and restorable (to their captured contents) after a clean reopen ... *)
Theorem c07_persistent_survives_reopen : forall s id c, reachable s -> cur s = None ->
  lookup id (tbl_c s) = Some c ->
  let s' := fst (step s OReopen) in
  let k := N.of_nat (length (handles s)) in
  tbl_c s' = tbl_c s /\ committed s' = committed s
  /\ run_res s' [OBegin; OList] = [ROk; RList (ids (tbl_c s))]
  /\ run_res s' [OBegin; OGet id; ORestore k; OCommit] = [ROk; RHandle k id; ROk; RState c].
Proof. exact persistent_survives_reopen. Qed.

(* ... and after a crash (recovering the last durable commit), where moreover the durable table IS the
   table of the last commit: non-durable commits never change the set of persistent savepoints. *)
Theorem c07_persistent_survives_crash : forall s id c, reachable s ->
  lookup id (tbl_d s) = Some c ->
  let s' := fst (step s OCrash) in
  let k := N.of_nat (length (handles s)) in
  tbl_c s' = tbl_d s /\ tbl_d s = tbl_c s /\ committed s' = durable s
  /\ run_res s' [OBegin; OList] = [ROk; RList (ids (tbl_d s))]
  /\ run_res s' [OBegin; OGet id; ORestore k; OCommit] = [ROk; RHandle k id; ROk; RState c].
Proof. exact persistent_survives_crash. Qed.

(* Ephemeral savepoints (and every handle of the old process) are unusable after reopen / crash. *)
Theorem c07_ephemeral_vanish : forall s o i h l, reachable s -> (o = OReopen /\ cur s = None) \/ o = OCrash ->
  handle_at s i = Some h ->
  snd (step (run (fst (step s o)) l) (ORestore i)) <> ROk.
Proof. exact ephemeral_vanish. Qed.

(* A persistent savepoint that was durably committed and then deleted never comes back, in any
   continuation (no id reuse, no resurrection through reopen or crash). *)
Theorem c07_no_resurrection : forall l id s, reachable s -> gone id s ->
  gone id (run s l) /\ (forall t, cur (run s l) = Some t -> snd (do_get (run s l) t id) = RErrInvalid).
Proof. exact no_resurrection. Qed.

(* Savepoint ids are fresh: a newly created savepoint's id differs from every valid savepoint, every
   persistent record (staged, committed, durable), every persistent id ever durably committed, and every
   handle of this process. *)
Theorem c07_savepoint_ids_fresh : forall s o id, reachable s -> new_id s o = Some id ->
  ~ In id (ids (valid s)) /\ ~ In id (ids (tbl_c s)) /\ ~ In id (ids (tbl_d s)) /\ ~ In id (ever s)
  /\ (forall t, cur s = Some t -> ~ In id (ids (t_table t)))
  /\ (forall h, In h (handles s) -> h_session h = session s -> h_id h <> id)
  /\ next_id s < id.
Proof. exact savepoint_ids_fresh. Qed.

(* Committed contents move only at commit (to the staged contents) or crash (to the durable contents);
   savepoint creation, restore, deletion, drop, abort never touch them. *)
Theorem c07_no_data_loss : forall s o, keeps_data o = true ->
  committed (fst (step s o)) = committed s
  /\ (o <> OReopen -> o <> OIntegrity -> durable (fst (step s o)) = durable s)
  /\ (o = OReopen \/ o = OIntegrity -> durable (fst (step s o)) = durable s \/ durable (fst (step s o)) = committed s).
Proof. exact no_data_loss. Qed.

Theorem c07_invariant_all_histories : forall s, reachable s -> Inv s.
Proof. exact inv_reach. Qed.

(* ---- non-vacuity: a concrete history in which all the hypotheses above are met *)
Definition ex_hist : list op :=
  [OBegin; OWrite 1; OCommit;
   OBegin; OPers; OCommit;                       (* persistent #1 captures contents 1 *)
   OBegin; OEph; OSetDur DNone; OWrite 2; OCommit;   (* ephemeral #2 (handle 0) captures 1; non-durable commit of 2 *)
   OBegin; OPers; OWrite 3; OCommit;             (* persistent #3 captures 2; durable commit of 3 *)
   OBegin; OEph; OAbort;                         (* ephemeral #4 (handle 1) captures 3 *)
   OBegin].
Definition ex_state : st := run (init 0) ex_hist.

Example c07_nonvacuous_restore :
  reachable ex_state
  /\ (exists t, cur ex_state = Some t)
  /\ ids (valid ex_state) = [1; 2; 3; 4] /\ ids (tbl_c ex_state) = [1; 3] /\ committed ex_state = 3
  /\ (exists h hj, handle_at ex_state 0 = Some h /\ handle_at ex_state 1 = Some hj /\ h_id h = 2 /\ h_data h = 1 /\ h_id hj = 4)
  /\ snd (step ex_state (ORestore 0)) = ROk
  /\ run_res ex_state [ORestore 0; OCommit; OBegin; OList; ORestore 1; OGet 3; OGet 1]
     = [ROk; RState 1; ROk; RList [1]; RErrInvalid; RErrInvalid; RHandle 2 1].
Proof.
  split; [exists 0, ex_hist; reflexivity|].
  split; [vm_compute; eexists; reflexivity|].
  split; [vm_compute; reflexivity|]. split; [vm_compute; reflexivity|]. split; [vm_compute; reflexivity|].
  split; [vm_compute; eexists; eexists; repeat split; reflexivity|].
  split; vm_compute; reflexivity.
Qed.

Example c07_nonvacuous_survive :
  let s := run ex_state [OAbort] in
  reachable s /\ cur s = None /\ lookup 3 (tbl_c s) = Some 2 /\ lookup 3 (tbl_d s) = Some 2
  /\ gone 3 (run s [OBegin; ODel 3; OCommit]).
Proof.
  cbv zeta.
  split; [exists 0, (ex_hist ++ [OAbort]); vm_compute; reflexivity|].
  split; [vm_compute; reflexivity|]. split; [vm_compute; reflexivity|]. split; [vm_compute; reflexivity|].
  unfold gone. split; [vm_compute; auto 10|]. split; [vm_compute; intuition discriminate|].
  vm_compute. intros; discriminate.
Qed.

Example c07_nonvacuous_fresh :
  new_id (run ex_state [OTouch]) OEph = None /\ new_id (run ex_state [OAbort; OBegin]) OPers = Some 5.
Proof. split; vm_compute; reflexivity. Qed.
