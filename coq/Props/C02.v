(* C02 -- A read transaction sees one frozen snapshot.
   Statements only; every proof is `exact <lemma>` (Conc/VersionsP.v, Conc/InvP.v).

   Two models.  (1) Conc/Versions.v: an abstract page-level version store with copy-on-write durable
   commits, the pending-free records and the free horizon "oldest pin + 1"; histories = arbitrary lists of
   begin_read / drop / commit (any fresh pages added, any pages of the latest version dropped) / abort.
   (2) Conc/Programs.v (C03): the interleaved step model, from which comes the fact that the id a reader
   pins is the id of the root it reads, for every schedule.
   (3) Txn/Own.v (C06): the page-ownership state machine, which HAS non-durable commits with their early
   reclaim, the post-commit epilogue, savepoint creation / deletion / restore, aborts and reopen: from it
   (Txn/PinPersistP.v) a reader registered after any history keeps its registration and all pages of the
   version it pinned, and the allocator never hands one of them out, over every continuation that does not
   drop it.  Model (1) has no non-durable commits -- there the statement was false in redb until begin_read
   was fixed (finding F1, see Props/C03.v and design.d/C02.md).
   Partial: the cache layer and the B-tree read path are validated by the harness only; model (3) is tied to
   the code by C06's step-by-step correspondence (harness c06), model (2) by C03's. *)
From Coq Require Import List NArith.
From RV Require Import Conc.Versions Conc.VersionsP Conc.Programs Conc.ProgramsP Conc.InvP.
From RV Require Import Txn.PSet Txn.Own Txn.OwnP Txn.OwnThmP Txn.PinPersistP.
Import ListNotations.
Open Scope N_scope.

(* after ANY history: every version from a pin upwards has all its pages allocated, and each of them was last
   written by a transaction that is not newer than the version -- nothing later freed or rewrote it *)
Theorem c02_pinned_pages_immutable : forall ops s v u p,
  vrun ops vinit = Some s -> In v (v_pins s) -> v <= u -> u <= v_latest s -> In p (reach s u) ->
  In p (v_alloc s) /\ exists w, sget p (v_stamp s) = Some w /\ w <= u.
Proof. exact pinned_pages_immutable. Qed.

(* the next commit, whatever it adds and drops, cannot take a page of a pinned version, leaves it allocated
   and leaves the version's page set as it was *)
Theorem c02_reuse_never_hits_a_pinned_version : forall ops s v u p adds drops s',
  vrun ops vinit = Some s -> In v (v_pins s) -> v <= u -> u <= v_latest s -> In p (reach s u) ->
  vstep (VCommit adds drops) s = Some s' -> ~ In p adds /\ In p (v_alloc s') /\ reach s' u = reach s u.
Proof. exact reuse_never_hits_a_pinned_version. Qed.

(* every interleaving: the pinned id is the id of the root the reader actually reads (begin_read registers again
   until they agree), so the version it reads is one of the protected ones above *)
Theorem c02_reader_pin_is_root : forall sched progs r rs v p,
  aget r (readers (final sched progs)) = Some rs -> r_root rs = Some (v, p) -> r_reg rs = v.
Proof. exact reader_id_eq_root. Qed.

Theorem c02_snapshot_is_one_publication : forall sched progs r rs x,
  let s := final sched progs in
  aget r (readers s) = Some rs -> r_root rs = Some x ->
  nth_error (rev (hist s)) (pred (r_pubs rs)) = Some x /\ In x (hist s) /\
  (forall t, result t (Observe r) s = RTag (snd x)).
Proof. exact linearizable_by_publication. Qed.

(* ---- model (3): all histories of the ownership model, incl. non-durable commits, restores, aborts ---- *)

(* a registered reader / ephemeral savepoint stays registered, with the same page set, over every admissible
   continuation that neither drops its handle nor reopens the database *)
Theorem c02_pin_persists : forall h s r, uniq s -> ppersist r = false -> held s r -> admissible s h ->
  forallb (keeps (ph r)) h = true -> held (run h s) r /\ uniq (run h s).
Proof. exact held_run. Qed.

(* from creation: the data pages of the commit that was latest when begin_read ran stay allocated and are
   never handed out again (hence never rewritten) for as long as the reader is not dropped *)
Theorem c02_reader_snapshot_pages_frozen : forall h0 h h1,
  admissible init (h0 ++ OBeginRead h :: h1) -> forallb (keeps h) h1 = true ->
  let s0 := run h0 init in
  let s' := run (h0 ++ OBeginRead h :: h1) init in
  let snap := vdata (lat s0) in
  In (mkpin h (vid (lat s0)) snap false) (pins s') /\ incl snap (alloc s') /\
  (forall D', ok_data D' s' = true -> disjoint (minus D' (wdata s')) snap) /\
  (forall S', ok_sys S' s' = true -> disjoint (minus S' (wsys s')) snap).
Proof. exact reader_snapshot_pages_frozen. Qed.

(* ---------------------------------------------------------------- non-vacuity *)
(* model (3): a reader begun at commit 2 survives a durable commit that unlinks its pages, a NON-durable commit
   and a savepoint restore + commit; its pages 1 2 3 are still allocated at the end although the current tree is [1;8] *)
Definition c02_own_prefix : list op :=
  [ OBeginWrite; OMutData [1;2;3]; OCommitDur [1;2;3] [10;11] [] false true ]%positive.
Definition c02_own_suffix : list op :=
  [ OBeginWrite; OMutData [1;2;4;5]; OCommitDur [1;2;4;5] [10;12] [] false true;
    OBeginWrite; OSpCreate 9%N false; OMutData [1;6]; OCommitNd [1;6] [10;12;13];
    OBeginWrite; OMutData [1;8]; OCommitDur [1;8] [14;15] [16] true true ]%positive.
Example c02_nonvacuous_own :
  admissible init (c02_own_prefix ++ OBeginRead 7%N :: c02_own_suffix) /\
  forallb (keeps 7%N) c02_own_suffix = true /\
  vdata (lat (run c02_own_prefix init)) = [1;2;3]%positive /\
  vdata (lat (run (c02_own_prefix ++ OBeginRead 7%N :: c02_own_suffix) init)) = [1;8]%positive.
Proof. vm_compute. repeat split; reflexivity. Qed.

(* a reader pinned at version 2 while two later commits drop pages 2 and 3 of that version: the records stay
   pending, pages 2 and 3 stay allocated with their old stamps ... *)
Example c02_nonvacuous_pinned :
  exists s, vrun [VCommit [2; 3] []; VBeginRead; VCommit [4] [2]; VCommit [5] [3]] vinit = Some s /\
            v_pins s = [2] /\ reach s 2 = [2; 3; 1] /\ v_alloc s = [5; 4; 2; 3; 1] /\
            v_freed s = [(4, [3]); (3, [2])] /\ sget 2 (v_stamp s) = Some 2.
Proof. eexists. vm_compute. repeat split. Qed.

(* ... and once the pin is gone the same pages are released and page 2 is reused and rewritten by
   transaction 6: the hypothesis "v is pinned" is what protects them, the model does free and reuse *)
Example c02_nonvacuous_unpinned_reuse :
  exists s, vrun [VCommit [2; 3] []; VBeginRead; VCommit [4] [2]; VCommit [5] [3]; VDropRead 2; VCommit [6] [4];
                  VCommit [2] [5]] vinit = Some s /\
            v_alloc s = [2; 6; 1] /\ v_freed s = [] /\ sget 2 (v_stamp s) = Some 6 /\ In 2 (reach s 2).
Proof. eexists. vm_compute. repeat split. left. reflexivity. Qed.

(* ================================================================== the cache layer (part (b) of the design)
   Model Storage/Cache.v of `PagedCachedFile` (read cache, striped write buffer with pages taken by WritablePages,
   committed_pages_buffered, the two counters, next_eviction_stripe) over `CheckedBackend` (Storage/Latch.v) and a
   byte-array backend.  Quantified over: every cache budget (0 included) and page size, every choice of evicted /
   written-back pages, skipped (try_lock) stripes and HashMap iteration orders (the `oracle`), every call sequence
   inside the usage protocol of page_manager.rs (`protocol_ok`: a page with a live WritablePage is not read or
   written; PageHint::Clean only for pages not written since the last write_barrier/flush; ranges that may be
   cached are re-accessed exactly or not at all; a cancelled / discarded write leaves its range undefined until it
   is rewritten; flush / write_barrier / discard without live WritablePages), including flush_write_buffer split
   into its per-stripe critical sections (OFlushStripes j k; OFlushEnd) with reads interleaved between them.
   Tied to the code by harness bin `cachecorr` (props/cache_common.py).
   Partial: the LRU second-chance order is abstracted to an arbitrary choice (sound over-approximation); a call is
   atomic (interleavings inside read()/write() are not modelled); usize wrap-around of the counters is not modelled. *)
From RV Require Import Base.Bytes Storage.Backend Storage.Latch Storage.Cache Storage.CacheInv Storage.CacheP.

(* fault-free backend: every read / write() returns the bytes of the last write to that range (or the initial file
   bytes): the cache layer is observationally the plain byte array `Backend.image` with `Backend.apply_op` *)
Theorem c02_cache_coherent : forall c f p,
  (forall x o, In (x, o) p -> fault_free o) ->
  protocol_ok c (blen f) (map fst p) = true ->
  spec_trace (image_of f) (map fst p) (map snd (snd (run c (init_state f) p))).
Proof. exact cache_coherent. Qed.

(* ... and after flush() the backend holds exactly that array (outside ranges left undefined by a cancelled or
   discarded write): nothing buffered is lost, the buffer is empty, the flag is clear *)
Theorem c02_cache_flush_writes_back : forall c f p o g,
  (forall x o0, In (x, o0) p -> fault_free o0) -> fault_free o ->
  proto_run c (g_init (blen f)) (map fst p ++ [OFlush]) = Some g ->
  let s := fst (run c (init_state f) (p ++ [(OFlush, o)])) in
  let I := ideal_run (image_of f) (map fst p) in
  wb s = [] /\ cpb s = false /\ blen (file s) = ilen I /\
  forall i, (forall r, In r (g_poison g) -> ~ in_rng r i) -> fget (file s) i = iat I i.
Proof. exact cache_flush_writes_back. Qed.

(* all page writes of a flush precede its sync_data, which is issued only if every one of them succeeded *)
Theorem c02_cache_flush_order : forall c s o s' t r,
  step c s OFlush o = (s', t, r) ->
  exists ws tl, t = ws ++ tl /\ Forall (fun e => is_write_ev e = true) ws /\
                (tl = [] \/ (exists e, tl = [e] /\ is_sync_ev e = true /\ Forall (fun w => e_ok w = true) ws)).
Proof. exact flush_order. Qed.

(* committed_pages_buffered is false only when no committed page is solely in the write buffer (every buffered page
   was written since the last write_barrier) -- in every reachable state, under arbitrary backend failures, and in
   particular between the per-stripe steps of a flush with readers interleaved *)
Theorem c02_cache_flag_invariant : forall c f p s g I out,
  run_track c (init_state f) (g_init (blen f)) (image_of f) p = Some (s, g, I, out) ->
  cpb s = false -> forall o v, In (o, v) (wb s) -> In o (g_unc g).
Proof. exact flag_invariant. Qed.

Theorem c02_cache_flush_progress : forall c f p s g I out k,
  run_track c (init_state f) (g_init (blen f)) (image_of f) p = Some (s, g, I, out) ->
  g_flushing g = Some k -> forall o v, In (o, v) (wb s) -> k <= stripe o.
Proof. exact flush_progress. Qed.

(* the read cache never exceeds max_cache_size, its counter is exact, and with budget 0 it stays empty *)
Theorem c02_cache_budget : forall c f p s g I out,
  run_track c (init_state f) (g_init (blen f)) (image_of f) p = Some (s, g, I, out) ->
  rc_bytes s = sum_rc (rc s) /\ sum_rc (rc s) <= max_cache c /\ (max_cache c = 0 -> rc s = []).
Proof. exact read_cache_budget. Qed.

(* ---- non-vacuity: 4-byte pages, a 16-byte budget, a 1056-byte file *)
Definition c02_cache_cfg := mkC 4 16.
Definition c02_cache_file : bytes := map (fun i => N.of_nat i mod 251) (seq 0 1056).
Definition c02_cache_prog : list (Cache.op * oracle) :=
 [ (OWrite 0 4 true, o_none); (ODrop 0 [1;1;1;1], o_none);
   (OWrite 4 4 false, o_none); (ODrop 4 [4;5;9;9], o_none);
   (OWrite 8 4 true, o_none);                       (* over half of the budget: page 0 is written out (Required) *)
   (ODrop 8 [8;8;8;8], o_none);
   (OBarrier, o_none);                              (* non-durable commit: the flag is set *)
   (ORead 4 4 HClean, o_none);                      (* served from the write buffer, copied into the read cache *)
   (OFlushStripes 0 5, o_none);                     (* flush_write_buffer, stripes 0..4: page 4 *)
   (ORead 8 4 HClean, o_none);                      (* a reader between two stripes: page 8 is only in the buffer *)
   (OFlushStripes 5 131, o_none); (OFlushEnd, o_none); (OSync, o_none);
   (ORead 524 4 HClean, o_none);                    (* lock stripe 0 *)
   (ORead 0 4 HClean, o_none);                      (* lock stripe 0: the read cache is full now *)
   (ORead 1048 4 HClean, mkO [524] [] [] [] []);    (* stripe 0, over budget: the oracle evicts page 524 *)
   (OInvalidate 0 4, o_none); (OCancel 0 4, o_none);  (* free page 0 *)
   (OResize 1052, o_none); (OLen, o_none);
   (OFlush, o_none); (OReadDirect 4 8, o_none) ].
Example c02_cache_nonvacuous :
  protocol_ok c02_cache_cfg 1056 (map fst c02_cache_prog) = true /\
  (forall x o, In (x, o) c02_cache_prog -> fault_free o) /\
  (let '(s, out) := run c02_cache_cfg (init_state c02_cache_file) c02_cache_prog in
   map snd out =
     [Data [0;0;0;0]; Done; Data [4;5;6;7]; Done; Data [0;0;0;0]; Done; Done; Data [4;5;9;9]; Done; Data [8;8;8;8];
      Done; Done; Done; Data [22;23;24;25]; Data [1;1;1;1]; Data [44;45;46;47]; Done; Done; Done; Len 1052; Done;
      Data [4;5;9;9;8;8;8;8]] /\
   nth 4 (map fst out) [] = [mkEv (BWrite 0 [1;1;1;1]) true false] /\       (* the eviction by write() *)
   nth 7 (map fst out) [mkEv BSync true false] = [] /\                      (* Clean read served from the buffer *)
   nth 9 (map fst out) [mkEv BSync true false] = [] /\                      (* ... also in the middle of the flush *)
   map fst (rc s) = [1048; 8; 4] /\ wb s = [] /\ cpb s = false /\ firstn 12 (file s) = [1;1;1;1;4;5;9;9;8;8;8;8]).
Proof.
  split; [vm_compute; reflexivity|]. split.
  - intros x o H. simpl in H. repeat (destruct H as [H|H]; [inversion H; subst; intros b []|]). destruct H.
  - vm_compute. repeat split; reflexivity.
Qed.
