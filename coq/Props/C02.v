(* C02 -- A read transaction sees one frozen snapshot.
   Statements only; every proof is `exact <lemma>` (Conc/VersionsP.v, Conc/InvP.v).

   Two models.  (1) Conc/Versions.v: an abstract page-level version store with copy-on-write durable
   commits, the pending-free records and the free horizon "oldest pin + 1"; histories = arbitrary lists of
   begin_read / drop / commit (any fresh pages added, any pages of the latest version dropped) / abort.
   (2) Conc/Programs.v (C03): the interleaved step model, from which comes the fact that the id a reader
   pins is the id of the root it reads, for every schedule.
   Partial: non-durable commits and their early reclaim are NOT in model (1) -- there the statement was
   false in redb until begin_read was fixed (finding F1, see Props/C03.v and design.d/C02.md); savepoint restore, the cache layer
   and the B-tree read path are validated by the harness only. *)
From Coq Require Import List NArith.
From RV Require Import Conc.Versions Conc.VersionsP Conc.Programs Conc.ProgramsP Conc.InvP.
Import ListNotations.
Open Scope N_scope.

(* after ANY history: every version from a pin upwards has all its pages allocated, and each of them was last
   written by a transaction that is not newer than the version -- nothing later freed or rewrote it *)
Theorem c02_pinned_pages_immutable : forall ops s v u p,
  vrun ops vinit = Some s -> In v (v_pins s) -> v <= u -> u <= v_latest s -> In p (reach s u) ->
  In p (v_alloc s) /\ exists w, sget p (v_stamp s) = Some w /\ w <= u.
Proof. exact pinned_pages_immutable. Qed.

(* the next commit, whatever it adds and drops, cannot take a page of a pinned version, leaves it allocated
   and leaves the version's page set as it was *)
Theorem c02_reuse_never_hits_a_pinned_version : forall ops s v u p adds drops s',
  vrun ops vinit = Some s -> In v (v_pins s) -> v <= u -> u <= v_latest s -> In p (reach s u) ->
  vstep (VCommit adds drops) s = Some s' -> ~ In p adds /\ In p (v_alloc s') /\ reach s' u = reach s u.
Proof. exact reuse_never_hits_a_pinned_version. Qed.

(* every interleaving: the pinned id is the id of the root the reader actually reads (begin_read registers again
   until they agree), so the version it reads is one of the protected ones above *)
Theorem c02_reader_pin_is_root : forall sched progs r rs v p,
  aget r (readers (final sched progs)) = Some rs -> r_root rs = Some (v, p) -> r_reg rs = v.
Proof. exact reader_id_eq_root. Qed.

Theorem c02_snapshot_is_one_publication : forall sched progs r rs x,
  let s := final sched progs in
  aget r (readers s) = Some rs -> r_root rs = Some x ->
  nth_error (rev (hist s)) (pred (r_pubs rs)) = Some x /\ In x (hist s) /\
  (forall t, result t (Observe r) s = RTag (snd x)).
Proof. exact linearizable_by_publication. Qed.

(* ---------------------------------------------------------------- non-vacuity *)
(* a reader pinned at version 2 while two later commits drop pages 2 and 3 of that version: the records stay
   pending, pages 2 and 3 stay allocated with their old stamps ... *)
Example c02_nonvacuous_pinned :
  exists s, vrun [VCommit [2; 3] []; VBeginRead; VCommit [4] [2]; VCommit [5] [3]] vinit = Some s /\
            v_pins s = [2] /\ reach s 2 = [2; 3; 1] /\ v_alloc s = [5; 4; 2; 3; 1] /\
            v_freed s = [(4, [3]); (3, [2])] /\ sget 2 (v_stamp s) = Some 2.
Proof. eexists. vm_compute. repeat split. Qed.

(* ... and once the pin is gone the same pages are released and page 2 is reused and rewritten by
   transaction 6: the hypothesis "v is pinned" is what protects them, the model does free and reuse *)
Example c02_nonvacuous_unpinned_reuse :
  exists s, vrun [VCommit [2; 3] []; VBeginRead; VCommit [4] [2]; VCommit [5] [3]; VDropRead 2; VCommit [6] [4];
                  VCommit [2] [5]] vinit = Some s /\
            v_alloc s = [2; 6; 1] /\ v_freed s = [] /\ sget 2 (v_stamp s) = Some 6 /\ In 2 (reach s 2).
Proof. eexists. vm_compute. repeat split. left. reflexivity. Qed.
