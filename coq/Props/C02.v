(* C02 -- A read transaction sees one frozen snapshot.
   Statements only; every proof is `exact <lemma>` (Conc/VersionsP.v, Conc/InvP.v).

   Two models.  (1) Conc/Versions.v: an abstract page-level version store with copy-on-write durable
   commits, the pending-free records and the free horizon "oldest pin + 1"; histories = arbitrary lists of
   begin_read / drop / commit (any fresh pages added, any pages of the latest version dropped) / abort.
   (2) Conc/Programs.v (C03): the interleaved step model, from which comes the fact that the id a reader
   pins is the id of the root it reads, for every schedule.
   (3) Txn/Own.v (C06): the page-ownership state machine, which HAS non-durable commits with their early
   reclaim, the post-commit epilogue, savepoint creation / deletion / restore, aborts and reopen: from it
   (Txn/PinPersistP.v) a reader registered after any history keeps its registration and all pages of the
   version it pinned, and the allocator never hands one of them out, over every continuation that does not
   drop it.  Model (1) has no non-durable commits -- there the statement was false in redb until begin_read
   was fixed (finding F1, see Props/C03.v and design.d/C02.md).
   Partial: the cache layer and the B-tree read path are validated by the harness only; model (3) is tied to
   the code by C06's step-by-step correspondence (harness c06), model (2) by C03's. *)
From Coq Require Import List NArith.
From RV Require Import Conc.Versions Conc.VersionsP Conc.Programs Conc.ProgramsP Conc.InvP.
From RV Require Import Txn.PSet Txn.Own Txn.OwnP Txn.OwnThmP Txn.PinPersistP.
Import ListNotations.
Open Scope N_scope.

(* after ANY history: every version from a pin upwards has all its pages allocated, and each of them was last
   written by a transaction that is not newer than the version -- nothing later freed or rewrote it *)
Theorem c02_pinned_pages_immutable : forall ops s v u p,
  vrun ops vinit = Some s -> In v (v_pins s) -> v <= u -> u <= v_latest s -> In p (reach s u) ->
  In p (v_alloc s) /\ exists w, sget p (v_stamp s) = Some w /\ w <= u.
Proof. exact pinned_pages_immutable. Qed.

(* the next commit, whatever it adds and drops, cannot take a page of a pinned version, leaves it allocated
   and leaves the version's page set as it was *)
Theorem c02_reuse_never_hits_a_pinned_version : forall ops s v u p adds drops s',
  vrun ops vinit = Some s -> In v (v_pins s) -> v <= u -> u <= v_latest s -> In p (reach s u) ->
  vstep (VCommit adds drops) s = Some s' -> ~ In p adds /\ In p (v_alloc s') /\ reach s' u = reach s u.
Proof. exact reuse_never_hits_a_pinned_version. Qed.

(* every interleaving: the pinned id is the id of the root the reader actually reads (begin_read registers again
   until they agree), so the version it reads is one of the protected ones above *)
Theorem c02_reader_pin_is_root : forall sched progs r rs v p,
  aget r (readers (final sched progs)) = Some rs -> r_root rs = Some (v, p) -> r_reg rs = v.
Proof. exact reader_id_eq_root. Qed.

Theorem c02_snapshot_is_one_publication : forall sched progs r rs x,
  let s := final sched progs in
  aget r (readers s) = Some rs -> r_root rs = Some x ->
  nth_error (rev (hist s)) (pred (r_pubs rs)) = Some x /\ In x (hist s) /\
  (forall t, result t (Observe r) s = RTag (snd x)).
Proof. exact linearizable_by_publication. Qed.

(* ---- model (3): all histories of the ownership model, incl. non-durable commits, restores, aborts ---- *)

(* a registered reader / ephemeral savepoint stays registered, with the same page set, over every admissible
   continuation that neither drops its handle nor reopens the database *)
Theorem c02_pin_persists : forall h s r, uniq s -> ppersist r = false -> held s r -> admissible s h ->
  forallb (keeps (ph r)) h = true -> held (run h s) r /\ uniq (run h s).
Proof. exact held_run. Qed.

(* from creation: the data pages of the commit that was latest when begin_read ran stay allocated and are
   never handed out again (hence never rewritten) for as long as the reader is not dropped *)
Theorem c02_reader_snapshot_pages_frozen : forall h0 h h1,
  admissible init (h0 ++ OBeginRead h :: h1) -> forallb (keeps h) h1 = true ->
  let s0 := run h0 init in
  let s' := run (h0 ++ OBeginRead h :: h1) init in
  let snap := vdata (lat s0) in
  In (mkpin h (vid (lat s0)) snap false) (pins s') /\ incl snap (alloc s') /\
  (forall D', ok_data D' s' = true -> disjoint (minus D' (wdata s')) snap) /\
  (forall S', ok_sys S' s' = true -> disjoint (minus S' (wsys s')) snap).
Proof. exact reader_snapshot_pages_frozen. Qed.

(* ---------------------------------------------------------------- non-vacuity *)
(* model (3): a reader begun at commit 2 survives a durable commit that unlinks its pages, a NON-durable commit
   and a savepoint restore + commit; its pages 1 2 3 are still allocated at the end although the current tree is [1;8] *)
Definition c02_own_prefix : list op :=
  [ OBeginWrite; OMutData [1;2;3]; OCommitDur [1;2;3] [10;11] [] false true ]%positive.
Definition c02_own_suffix : list op :=
  [ OBeginWrite; OMutData [1;2;4;5]; OCommitDur [1;2;4;5] [10;12] [] false true;
    OBeginWrite; OSpCreate 9%N false; OMutData [1;6]; OCommitNd [1;6] [10;12;13];
    OBeginWrite; OMutData [1;8]; OCommitDur [1;8] [14;15] [16] true true ]%positive.
Example c02_nonvacuous_own :
  admissible init (c02_own_prefix ++ OBeginRead 7%N :: c02_own_suffix) /\
  forallb (keeps 7%N) c02_own_suffix = true /\
  vdata (lat (run c02_own_prefix init)) = [1;2;3]%positive /\
  vdata (lat (run (c02_own_prefix ++ OBeginRead 7%N :: c02_own_suffix) init)) = [1;8]%positive.
Proof. vm_compute. repeat split; reflexivity. Qed.

(* a reader pinned at version 2 while two later commits drop pages 2 and 3 of that version: the records stay
   pending, pages 2 and 3 stay allocated with their old stamps ... *)
Example c02_nonvacuous_pinned :
  exists s, vrun [VCommit [2; 3] []; VBeginRead; VCommit [4] [2]; VCommit [5] [3]] vinit = Some s /\
            v_pins s = [2] /\ reach s 2 = [2; 3; 1] /\ v_alloc s = [5; 4; 2; 3; 1] /\
            v_freed s = [(4, [3]); (3, [2])] /\ sget 2 (v_stamp s) = Some 2.
Proof. eexists. vm_compute. repeat split. Qed.

(* ... and once the pin is gone the same pages are released and page 2 is reused and rewritten by
   transaction 6: the hypothesis "v is pinned" is what protects them, the model does free and reuse *)
Example c02_nonvacuous_unpinned_reuse :
  exists s, vrun [VCommit [2; 3] []; VBeginRead; VCommit [4] [2]; VCommit [5] [3]; VDropRead 2; VCommit [6] [4];
                  VCommit [2] [5]] vinit = Some s /\
            v_alloc s = [2; 6; 1] /\ v_freed s = [] /\ sget 2 (v_stamp s) = Some 6 /\ In 2 (reach s 2).
Proof. eexists. vm_compute. repeat split. left. reflexivity. Qed.
