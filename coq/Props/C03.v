(* C03 -- Commits take effect atomically and in one serial order.
   Statements only; every proof is `exact <lemma>` (lemmas in Conc/ProgramsP.v, Conc/InvP.v).
   All theorems are about the lock-atomic step model of Conc/Programs.v and hold for EVERY schedule
   (list of grants, including every preemption between two lock-protected sections of one call) and
   EVERY family of thread programs (lists of API calls).  `final sched progs` is the state reached.
   Partial: mutex sections are atomic steps, memory is SC, page contents are one payload tag per commit. *)
From Coq Require Import List NArith String Sorted.
From RV Require Import Conc.Sched Conc.Programs Conc.ProgramsP Conc.InvP.
Import ListNotations.
Open Scope N_scope.

(* at most one thread is between begin_write's T.start_write step and its T.end_write step *)
Theorem c03_single_writer : forall sched progs t1 t2 w1 w2,
  my_writer t1 (final sched progs) = Some w1 -> my_writer t2 (final sched progs) = Some w2 -> t1 = t2.
Proof. exact single_writer. Qed.

(* the write slot is taken exactly while a write-transaction handle exists (begin_write's first step is
   enabled only when it is free: it waits for the live transaction to end) *)
Theorem c03_write_slot_matches_handles : forall sched progs,
  let s := final sched progs in (live_write s = None <-> writers s = []).
Proof. exact write_slot_matches_handles. Qed.

(* the published transaction id never decreases along a schedule and publications are never retracted *)
Theorem c03_publish_monotone : forall a b progs,
  fst (latest (final a progs)) <= fst (latest (final (a ++ b) progs)) /\
  exists pre, hist (final (a ++ b) progs) = pre ++ hist (final a progs).
Proof. exact publish_monotone. Qed.

(* one serial order: the publications are strictly ordered by transaction id, the newest is the header *)
Theorem c03_publications_serial : forall sched progs,
  let s := final sched progs in
  (exists tl, hist s = latest s :: tl) /\ StronglySorted N.gt (map fst (hist s)).
Proof. exact publications_serial. Qed.

Theorem c03_fresh_ids : forall sched progs,
  let s := final sched progs in fst (latest s) <= next_id s + 1 /\ (writers s = [] -> fst (latest s) <= next_id s).
Proof. exact fresh_ids. Qed.

(* with begin_read's retry loop (fix of finding F1) a reader is pinned at exactly the transaction whose root it reads *)
Theorem c03_reader_id_eq_root : forall sched progs r rs v p,
  aget r (readers (final sched progs)) = Some rs -> r_root rs = Some (v, p) -> r_reg rs = v.
Proof. exact reader_id_eq_root. Qed.

(* a reader's registered id (its pin) is never newer than the transaction id of the root it then reads *)
Theorem c03_reader_id_le_root : forall sched progs r rs v p,
  aget r (readers (final sched progs)) = Some rs -> r_root rs = Some (v, p) -> r_reg rs <= v.
Proof. exact reader_id_le_root. Qed.

(* a reader sees exactly the k-th publication, k = number of publications at its M.get_data_root step, for
   as long as it lives, and Observe returns that publication's payload: histories are the sequential ones
   ordered by publication step *)
Theorem c03_linearizable_by_publication : forall sched progs r rs x,
  let s := final sched progs in
  aget r (readers s) = Some rs -> r_root rs = Some x ->
  nth_error (rev (hist s)) (pred (r_pubs rs)) = Some x /\ In x (hist s) /\
  (forall t, result t (Observe r) s = RTag (snd x)).
Proof. exact linearizable_by_publication. Qed.

(* nothing that is not a publication is ever read, and an unpublished transaction's payload is in no publication *)
Theorem c03_no_uncommitted_visible : forall sched progs s, s = final sched progs ->
  (forall r rs x, aget r (readers s) = Some rs -> r_root rs = Some x -> In x (hist s)) /\
  (forall t w, my_writer t s = Some w -> In (w_root w) (hist s)) /\
  (forall t w c, my_writer t s = Some w -> w_tag w = Some c -> unpublished (w_phase w) = true ->
     forall x, In x (hist s) -> snd x <> c).
Proof. exact no_uncommitted_visible. Qed.

(* a payload that is neither published nor held by a live write transaction (the tag of an aborted or
   dropped one) never becomes visible, whatever happens afterwards *)
Theorem c03_aborted_never_visible : forall a b progs c,
  dead_tag c (final a progs) -> forall x, In x (hist (final (a ++ b) progs)) -> snd x <> c.
Proof. exact aborted_never_visible. Qed.

(* ---------------------------------------------------------------- non-vacuity *)
(* two threads call begin_write; the first gets the slot, the second is blocked at T.start_write *)
Example c03_nonvacuous_two_writers :
  let '(_, s, evs) := prun [0; 0; 1; 1]%nat (pstart [[BeginWrite]; [BeginWrite]]) init in
  live_write s = Some 2 /\ (exists w, my_writer 0 s = Some w) /\ my_writer 1 s = None /\
  evs = [(0, EAt "T.start_write"%string); (0, EAt "M.alloc_loaded"%string); (1, EAt "T.start_write"%string); (1, EBlocked)]%nat.
Proof. vm_compute. repeat split. eexists; reflexivity. Qed.

(* a reader registers, a whole durable commit happens, then the reader reads id and root: they are not the ones
   it registered for, so it drops the registration and registers again (events of thread 0), ending pinned at
   the root it reads; two publications; it sees payload 2 *)
Example c03_nonvacuous_reader_between :
  let progs := [[BeginRead 0; Observe 0]; [BeginWrite; Put; CommitD false]] in
  let '(_, s, evs) := prun ([0; 0] ++ repeat 1 40 ++ [0; 0; 0; 0; 0])%nat (pstart progs) init in
  (exists rs, aget 0 (readers s) = Some rs /\ r_reg rs = 2 /\ r_root rs = Some (2, 2) /\ r_pubs rs = 2%nat) /\
  map fst (hist s) = [2; 1] /\ result 0%nat (Observe 0) s = RTag 2 /\
  map snd (filter (fun e => Nat.eqb (fst e) 0) evs) =
    [EAt "T.register_read"%string; EAt "M.get_data_root"%string; EAt "T.dealloc_read"%string;
     EAt "T.register_read"%string; EAt "M.get_data_root"%string; EDone ROk; EDone (RTag 2)].
Proof. vm_compute. split; [eexists; repeat split|repeat split; reflexivity]. Qed.

(* an aborted transaction's tag is dead afterwards (hypothesis of c03_aborted_never_visible is satisfiable) *)
Example c03_nonvacuous_dead_tag :
  dead_tag 2 (final (repeat 0 20)%nat [[BeginWrite; Put; Abort]]) /\
  writers (final (repeat 0 20)%nat [[BeginWrite; Put; Abort]]) = [].
Proof.
  vm_compute. split; [|reflexivity]. split; [reflexivity|]. split.
  - intros x [<-|[]]. discriminate.
  - intros k w [].
Qed.

(* Finding F1 (fixed in redb by commit 2256ac3, replays/C03-c03-F1-nd-reclaim-late-root-*.json): the schedule in
   which begin_read registers at the durable transaction 4 and a non-durable commit 5 is published before it reads
   its root.  With the retry loop the reader ends registered at 5, the root it reads, so transaction 5 -- a pending
   non-durable commit with a live read -- bounds the non-durable reclaim horizon: nothing is reclaimed
   (nd_released = 0) although three more non-durable commits follow.  Before the fix the model (like redb) reached
   r_reg = 4, root 5, nd_released = 7 on the same schedule. *)
Example c03_model_late_root_window_closed :
  let w := fun e => [BeginWrite; Put; e] in
  let progs := [ w (CommitD false) ++ [BeginWrite; CommitD false] ++ w CommitND ++ w CommitND ++ w CommitND ++ w CommitND;
                 [BeginRead 0; Observe 0] ] in
  let s := final (repeat 0 46 ++ [1; 1] ++ repeat 0 12 ++ [1; 1; 1; 1; 1] ++ repeat 0 200 ++ [1])%nat progs in
  exists rs, aget 0 (readers s) = Some rs /\ r_reg rs = 5 /\ r_root rs = Some (5, 3) /\
             durable_id s = 4 /\ nd_released s = 0 /\ fst (latest s) = 8.
Proof. vm_compute. eexists; repeat split. Qed.

(* ------------------------------------------------------------------------------------------------
   Tie to the code (Gen/Fns.v is regenerated from transactions.rs on every run by tools/gen_fns.py; see
   design.d/GEN.md): the horizon steps of the commit programs compute the expressions translated from durable_commit,
   non_durable_commit and process_data_freed_pages_after_commit. *)
From RV Require Import Gen.FnsLib Gen.Fns Gen.FnsHorizonP Gen.FnsProgramsP.

Theorem c03_code_durable_commit_free_until_is_model : forall t c s,
  exec t c TOldestLiveReadC s =
  with_writer t s ph_open (fun w =>
    let h := durable_commit_free_until (lmin (live_reads s)) (w_id w) in
    ok (put_writer t (wset w (w_tag w) h None ph_horizon) (add_entry w s))).
Proof. exact programs_durable_horizon_is_model. Qed.

Theorem c03_code_non_durable_commit_free_until_is_model : forall t c s,
  exec t c TOldestLiveReadNd s =
  with_writer t s ph_open (fun w =>
    let h := non_durable_commit_free_until (oldest_nd_read s) (w_id w) in
    ok (put_writer t (wset w (w_tag w) h None ph_nhorizon) (add_entry w s))).
Proof. exact programs_nd_horizon_is_model. Qed.

Theorem c03_code_epilogue_free_until_is_model : forall t c s,
  (forall w, my_writer t s = Some w ->
     match w_sp_horizon w with Some h => (h < 18446744073709551615)%N | None => True end) ->
  exec t c TOldestLiveReadE s =
  with_writer t s ph_cleared (fun w =>
    let h := epilogue_free_until (lmin (live_reads s)) (w_id w) (sph_u64 (w_sp_horizon w)) in
    ok (put_writer t (wset w (w_tag w) h (w_sp_horizon w) ph_ehorizon) s)).
Proof. exact programs_epilogue_horizon_is_model. Qed.
