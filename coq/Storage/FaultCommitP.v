(* C08 -- proofs about the fault-aware commit model of FaultCommit.v.
   Part 1  what the storage received is a weakening (cut, torn) of what was issued; crash images are monotone in it
   Part 2  the operation stream of a protocol accumulator is its sync windows, flattened; the cut is sound
   Part 3  a list of calls through Latch.lrun: no required failure / first required failure
   Part 4  step_f: soundness of the state the model continues with; (a) no false success; (b) a failed step is a
           crash image of the fault-free run; refusal afterwards
   Part 5  (c) composition with C01 (protocol_crash_safe); (d) recovery's own writes (recovery_crash_safe);
           whole histories under faults; durable commits: acknowledged = durable, failed = entirely or not at all *)
From RV Require Import Base.Bytes Gen.Consts Storage.Backend Storage.BackendP Storage.Crash Storage.CrashP
  Storage.Header Storage.HeaderP Storage.Window Storage.WindowP Storage.Protocol Storage.ProtocolP
  Storage.Latch Storage.LatchP Storage.FaultCommit.

(* ========================================================================================== *)
(* ---------- lists ---------- *)

Lemma apply_ops_app W1 W2 D : apply_ops (W1 ++ W2) D = apply_ops W2 (apply_ops W1 D).
Proof. unfold apply_ops. apply fold_left_app. Qed.

Definition flat (ws : list wrec) : list op := flat_map (fun w => w_ops w ++ [Sync]) ws.

Lemma flat_app a b : flat (a ++ b) = flat a ++ flat b.
Proof. unfold flat. apply flat_map_app. Qed.

Lemma apply_flat ws D : apply_ops (flat ws) D = image_after D ws.
Proof.
  revert D. induction ws as [|w r IH]; intros D; [reflexivity|].
  change (flat (w :: r)) with ((w_ops w ++ [Sync]) ++ flat r).
  rewrite !apply_ops_app. cbn [image_after]. rewrite <- IH. reflexivity.
Qed.

Lemma nth_firstn_lt {A} (l : list A) n j d : (j < n)%nat -> nth j (firstn n l) d = nth j l d.
Proof.
  revert n j. induction l as [|x l IH]; intros n j Hj.
  - rewrite firstn_nil. reflexivity.
  - destruct n; [lia|]. destruct j; [reflexivity|]. cbn. apply IH. lia.
Qed.

(* ---------- what the storage received is a weakening of what was issued ---------- *)

Inductive sub_ops : list op -> list op -> Prop :=
| so_nil : forall W, sub_ops [] W
| so_same : forall o E W, sub_ops E W -> sub_ops (o :: E) (o :: W)
| so_torn : forall off data n E W, sub_ops E W -> sub_ops (Write off (firstn n data) :: E) (Write off data :: W)
| so_skip : forall o E W, sub_ops E W -> sub_ops E (o :: W).

Lemma sub_refl W : sub_ops W W.
Proof. induction W; constructor; auto. Qed.

Lemma sub_app_l P E W : sub_ops E W -> sub_ops (P ++ E) (P ++ W).
Proof. intros Hs. induction P; cbn; [exact Hs | constructor; auto]. Qed.

Lemma sub_app E1 W1 E2 W2 : sub_ops E1 W1 -> sub_ops E2 W2 -> sub_ops (E1 ++ E2) (W1 ++ W2).
Proof.
  intros H1 H2. induction H1; cbn.
  - induction W; cbn; [exact H2 | apply so_skip; auto].
  - apply so_same; auto.
  - apply so_torn; auto.
  - apply so_skip; auto.
Qed.

Lemma sub_prefix A B : sub_ops A (A ++ B).
Proof. rewrite <- (app_nil_r A) at 1. apply sub_app_l. constructor. Qed.

Lemma sub_torn_one o n : sub_ops (torn (Some o) n) [o].
Proof.
  destruct o as [off data| |]; cbn; [|constructor|constructor].
  destruct n; [constructor | apply so_torn; constructor].
Qed.

Lemma sub_torn_tail A o B n : sub_ops (A ++ torn (Some o) n) (A ++ o :: B).
Proof.
  apply sub_app_l. change (o :: B) with ([o] ++ B).
  rewrite <- (app_nil_r (torn (Some o) n)). apply sub_app; [apply sub_torn_one | constructor].
Qed.

Lemma sub_In_setlen E W n : sub_ops E W -> In (SetLen n) E -> In (SetLen n) W.
Proof.
  induction 1; intros Hin; cbn in *.
  - destruct Hin.
  - destruct Hin as [-> | Hin]; auto.
  - destruct Hin as [Hx | Hin]; [discriminate | auto].
  - auto.
Qed.

Lemma sub_In_write E W off data :
  sub_ops E W -> In (Write off data) E ->
  exists data', In (Write off data') W
    /\ forall i, covers off data i = true -> covers off data' i = true /\ wbyte off data' i = wbyte off data i.
Proof.
  induction 1; intros Hin; cbn in *.
  - destruct Hin.
  - destruct Hin as [-> | Hin].
    + exists data. split; [left; reflexivity | auto].
    + destruct (IHsub_ops Hin) as (d' & A & B). exists d'. split; [right; exact A | exact B].
  - destruct Hin as [Hx | Hin].
    + inversion Hx; subst. exists data0. split; [left; reflexivity|].
      intros i Hc. apply covers_spec in Hc. unfold wlen in Hc.
      assert (Hl : (length (firstn n data0) <= length data0)%nat) by (rewrite firstn_length; lia).
      split.
      * apply covers_spec. unfold wlen. lia.
      * unfold wbyte. symmetry. apply nth_firstn_lt. rewrite firstn_length in Hc. lia.
    + destruct (IHsub_ops Hin) as (d' & A & B). exists d'. split; [right; exact A | exact B].
  - destruct (IHsub_ops Hin) as (d' & A & B). exists d'. split; [right; exact A | exact B].
Qed.

Lemma sub_len_cand E W : sub_ops E W -> forall l l', len_cand l E l' -> len_cand l W l'.
Proof.
  induction 1; intros l l' Hl.
  - inversion Hl; subst. apply len_cand_skip_all.
  - inversion Hl; subst; [apply lc_skip | apply lc_set]; auto.
  - inversion Hl; subst. apply lc_skip; auto.
  - apply lc_skip; auto.
Qed.

(* every crash image of what the storage received is a crash image of what the fault-free run issues *)
Lemma crash_sub D E W img : sub_ops E W -> CrashOf D E img -> CrashOf D W img.
Proof.
  intros Hs [Hl Hb]. split.
  - eapply sub_len_cand; eauto.
  - intros i Hi. destruct (Hb i Hi) as [A | [[Hz Hv] | (off & data & Hin & Hc & Hv)]].
    + left; exact A.
    + right; left. split; [|exact Hv]. destruct Hz as [Hz | (n & Hin & Hn)]; [left; exact Hz|].
      right. exists n. split; [eapply sub_In_setlen; eauto | exact Hn].
    + right; right. destruct (sub_In_write _ _ _ _ Hs Hin) as (d' & Hin' & Hc').
      destruct (Hc' i Hc) as [C1 C2]. exists off, d'. repeat split; auto. rewrite C2. exact Hv.
Qed.

(* ========================================================================================== *)
(* ---------- the operation stream of an accumulator is its windows, flattened ---------- *)

Definition acc_wf (pre : list op) (a : acc) : Prop :=
  pre ++ a_ops a = flat (a_ws a) ++ p_win (a_st a).

Lemma wf_start st : acc_wf (p_win st) (a_start st).
Proof. unfold acc_wf. cbn. apply app_nil_r. Qed.

Lemma wf_issue pre a ops : acc_wf pre a -> acc_wf pre (a_issue a ops).
Proof. unfold acc_wf, a_issue. cbn. intros E. rewrite !app_assoc, E. reflexivity. Qed.

Lemma wf_sync pre a d' : acc_wf pre a -> acc_wf pre (a_sync a d').
Proof.
  unfold acc_wf, a_sync. cbn. intros E. rewrite app_assoc, E, flat_app. cbn.
  rewrite !app_nil_r, <- !app_assoc. reflexivity.
Qed.

Lemma wf_mem pre a m rfs opn : acc_wf pre a -> acc_wf pre (a_mem a m rfs opn).
Proof. unfold acc_wf, a_mem. cbn. auto. Qed.

Ltac wf_tac W := repeat lazymatch goal with
  | |- acc_wf _ (a_mem _ _ _ _) => apply wf_mem
  | |- acc_wf _ (a_issue _ _) => apply wf_issue
  | |- acc_wf _ (a_sync _ _) => apply wf_sync
  | _ => exact W end.

Lemma wf_commit pre a two q rng pages shrink : acc_wf pre a -> acc_wf pre (run_commit a two q rng pages shrink).
Proof.
  intros W. unfold run_commit. cbv zeta. destruct two; destruct shrink as [[n lay]|];
    wf_tac W.
Qed.

Lemma wf_begin_writable pre a : acc_wf pre a -> acc_wf pre (run_begin_writable a).
Proof. intros W. unfold run_begin_writable. apply wf_mem, wf_sync, wf_issue, W. Qed.

Lemma wf_step st s : acc_wf (p_win st) (run_step st s).
Proof.
  pose proof (wf_start st) as W.
  destruct s; cbn [run_step].
  - apply wf_issue, W.
  - apply wf_mem, wf_sync, wf_issue, W.
  - apply wf_commit, W.
  - apply wf_mem, W.
  - apply wf_mem, wf_sync, wf_issue, wf_sync, wf_commit, W.
  - apply wf_begin_writable, W.
Qed.

Lemma wf_recovery d o a : recovery_run d o = Some a -> acc_wf [] a.
Proof.
  unfold recovery_run.
  destruct (negb (hm_rr (parse_hdr (d_hdr d))) && negb (stored_len (hget (d_hdr d)) =? d_len d)); [discriminate|].
  match goal with |- match ?x with _ => _ end = _ -> _ => destruct x as [m1|] end; [|discriminate].
  assert (W1 : acc_wf [] (rec_finalize d m1 (hm_rr (parse_hdr (d_hdr d))))).
  { unfold rec_finalize. destruct (hm_rr (parse_hdr (d_hdr d))).
    - apply wf_sync, wf_issue. exact (wf_start (mkPst d [] m1 false false)).
    - exact (wf_start (mkPst d [] m1 false false)). }
  assert (WQ : forall a1 m, acc_wf [] a1 -> acc_wf [] (rec_quick a1 m)).
  { intros a1 m Wa. unfold rec_quick. apply wf_mem, wf_sync, wf_issue, wf_mem, Wa. }
  assert (WF : forall a1 m q rng, acc_wf [] a1 -> acc_wf [] (rec_full a1 m q rng)).
  { intros a1 m q rng Wa. unfold rec_full.
    apply wf_begin_writable, wf_commit, wf_mem, wf_sync, wf_issue, wf_mem, Wa. }
  destruct (hm_2pc m1 && ro_quick o).
  - intros E. inversion E; subst. apply WQ, W1.
  - destruct (Bool.eqb (hm_prim m1) (d_p d)).
    + intros E. inversion E; subst. apply WF, W1.
    + destruct (hm_2pc m1); [discriminate|]. intros E. inversion E; subst. apply WF, W1.
Qed.

(* ---------- the cut ---------- *)

Lemma split_app {A} (L : list A) : forall P R M,
  P ++ R = L ++ M -> (length L <= length P)%nat -> exists P', P = L ++ P' /\ P' ++ R = M.
Proof.
  induction L as [|x L IH]; intros P R M E Hl.
  - exists P. auto.
  - destruct P as [|y P]; [cbn in Hl; lia|]. cbn in E. inversion E; subst.
    destruct (IH P R M H1) as (P' & HA & HB); [cbn in Hl; lia|]. exists P'. split; [cbn; now rewrite HA | exact HB].
Qed.

Lemma cut_at_spec ws last n : forall P R,
  P ++ R = flat ws ++ w_ops last -> length P = n ->
  exists pre w post A B R2,
    ws ++ [last] = pre ++ w :: post /\ cut_at ws last n = (w, A) /\ w_ops w = A ++ B
    /\ P = flat pre ++ A /\ R = B ++ R2 /\ (R2 = [] \/ exists R3, R2 = Sync :: R3)
    /\ nwindows_before ws n = length pre.
Proof.
  revert n. induction ws as [|w r IH]; intros n P R E Hn.
  - cbn in E. exists [], last, [], P, R, []. cbn.
    assert (EP : P = firstn n (w_ops last)).
    { rewrite <- E, <- Hn. rewrite firstn_app, Nat.sub_diag, firstn_all. cbn. now rewrite app_nil_r. }
    rewrite <- EP. repeat split; auto. now rewrite app_nil_r.
  - change (flat (w :: r)) with ((w_ops w ++ [Sync]) ++ flat r) in E. rewrite <- !app_assoc in E.
    cbn [cut_at nwindows_before]. destruct (n <=? length (w_ops w))%nat eqn:Hc.
    + apply Nat.leb_le in Hc. symmetry in E.
      destruct (split_app P (w_ops w) _ R E) as (B & EB & ER); [lia|].
      exists [], w, (r ++ [last]), P, B, ([Sync] ++ flat r ++ w_ops last).
      assert (EP : firstn n (w_ops w) = P).
      { rewrite EB, <- Hn, firstn_app, Nat.sub_diag, firstn_all. cbn. apply app_nil_r. }
      rewrite EP. repeat split; auto.
      right. eexists; reflexivity.
    + apply Nat.leb_gt in Hc.
      destruct (split_app (w_ops w) P R _ E) as (P1 & EP1 & E1); [lia|].
      destruct P1 as [|s P']; [rewrite app_nil_r in EP1; subst P; lia|].
      cbn in E1. inversion E1; subst s. clear E1. rename H1 into E'.
      assert (Hn' : length P' = (n - S (length (w_ops w)))%nat).
      { rewrite <- Hn, EP1, app_length. cbn. lia. }
      destruct (IH _ P' R E' Hn') as (pre & w' & post & A & B & R2 & H1 & H2 & H3 & H4 & H5 & H6 & H7).
      exists (w :: pre), w', post, A, B, R2. repeat split; auto.
      * cbn. rewrite H1. reflexivity.
      * rewrite EP1, H4. change (flat (w :: pre)) with ((w_ops w ++ [Sync]) ++ flat pre).
        rewrite <- !app_assoc. reflexivity.
      * cbn. rewrite H7. reflexivity.
Qed.

(* ========================================================================================== *)
(* ---------- a list of calls through the latch ---------- *)

Local Notation lrun' := (lrun lop).
Local Notation tr x := (l_trace lop x).
Local Notation st_of x := (l_state lop x).
Local Notation res_of x := (l_results lop x).

Lemma lrun_cons s c b r :
  lrun' s ((c, b) :: r) =
  (st_of (lrun' (fst (fst (lstep lop s c b))) r),
   snd (fst (lstep lop s c b)) ++ tr (lrun' (fst (fst (lstep lop s c b))) r),
   snd (lstep lop s c b) :: res_of (lrun' (fst (fst (lstep lop s c b))) r)).
Proof.
  cbn [lrun]. destruct (lstep lop s c b) as [[s1 t1] r1]. cbn [fst snd].
  destruct (lrun lop s1 r) as [[s2 t2] r2]. reflexivity.
Qed.

Lemma tr_mk (s : lstate) (t : list (bev lop)) (r : list wres) : l_trace lop (s, t, r) = t.
Proof. reflexivity. Qed.
Lemma st_mk (s : lstate) (t : list (bev lop)) (r : list wres) : l_state lop (s, t, r) = s.
Proof. reflexivity. Qed.
Lemma res_mk (s : lstate) (t : list (bev lop)) (r : list wres) : l_results lop (s, t, r) = r.
Proof. reflexivity. Qed.

Lemma ops_of_app a b : ops_of (a ++ b) = ops_of a ++ ops_of b.
Proof. unfold ops_of. apply flat_map_app. Qed.

Lemma effects_app a b : trace_effects (a ++ b) = trace_effects a ++ trace_effects b.
Proof. unfold trace_effects. apply flat_map_app. Qed.
Lemma applied_app a b : applied (a ++ b) = applied a ++ applied b.
Proof. unfold applied. apply flat_map_app. Qed.
Lemma torn_part_app a b : torn_part (a ++ b) = torn_part a ++ torn_part b.
Proof. unfold torn_part. apply flat_map_app. Qed.

Lemma ops_of_interleave be qs ops : ops_of (interleave be qs ops) = ops.
Proof.
  revert qs. induction ops as [|o r IH]; intros qs; cbn [interleave].
  - induction (hd O qs); cbn; auto.
  - rewrite ops_of_app. cbn. rewrite IH.
    assert (E : ops_of (repeat (false, None) (hd O qs)) = []) by (induction (hd O qs); cbn; auto).
    rewrite E. reflexivity.
Qed.

Lemma interleave_flags be qs ops c : In c (interleave be qs ops) -> fst c = false \/ fst c = be.
Proof.
  revert qs. induction ops as [|o r IH]; intros qs; cbn [interleave]; intros Hin.
  - apply repeat_spec in Hin. subst c. auto.
  - apply in_app_or in Hin as [Hin | [<- | Hin]].
    + apply repeat_spec in Hin. subst c. auto.
    + auto.
    + eauto.
Qed.

(* whatever the latch state, the calls and the oracle: what the storage received is a weakening of the
   operations of the calls *)
Lemma step_effect_sub s c f :
  sub_ops (trace_effects (snd (fst (lstep lop s (fst (wcall_of c f)) (snd (wcall_of c f))))))
          (ops_of [c]).
Proof.
  destruct c as [be o]. destruct s as [fl cl]. unfold wcall_of, ops_of. cbn [fst snd flat_map app].
  destruct be; cbn [lstep]; unfold check_failure; cbn [io_failed closed]; destruct fl; cbn [fst snd trace_effects flat_map];
    try (destruct o; constructor; constructor).
  - (* best effort, reaches the backend *)
    destruct f as [|n]; cbn [fate_ok keep_of ev_effect app].
    + destruct o; repeat constructor.
    + destruct o as [o|]; [|constructor]. rewrite app_nil_r. apply sub_torn_one.
  - destruct f as [|n]; cbn [fate_ok keep_of fst snd trace_effects flat_map ev_effect app].
    + destruct o; repeat constructor.
    + destruct o as [o|]; [|constructor]. rewrite app_nil_r. apply sub_torn_one.
Qed.

Lemma trace_sub cs : forall s fo i, sub_ops (trace_effects (tr (lrun' s (wcalls cs fo i)))) (ops_of cs).
Proof.
  induction cs as [|c r IH]; intros s fo i.
  - cbn. constructor.
  - cbn [wcalls]. destruct (wcall_of c (fo i)) as [w b] eqn:Ew. rewrite lrun_cons.
    rewrite tr_mk, effects_app.
    change (c :: r) with ([c] ++ r). rewrite ops_of_app. apply sub_app; [|apply IH].
    pose proof (step_effect_sub s c (fo i)) as X. rewrite Ew in X. exact X.
Qed.

Lemma wcalls_io cs fo i : io_calls lop (wcalls cs fo i).
Proof.
  revert i. induction cs as [|c r IH]; intros i; cbn [wcalls]; constructor; auto.
  - unfold wcall_of. cbn [fst]. destruct (fst c); reflexivity.
  - apply IH.
Qed.

(* the latch is set: nothing reaches the backend *)
Lemma run_latched s cs fo i : io_failed s = true ->
  st_of (lrun' s (wcalls cs fo i)) = s /\ tr (lrun' s (wcalls cs fo i)) = [].
Proof. intros Hf. apply failed_io_calls_silent; [exact Hf | apply wcalls_io]. Qed.

(* no required call fails *)
Lemma run_none cs : forall s fo i,
  io_failed s = false -> first_fail cs fo i = None ->
  st_of (lrun' s (wcalls cs fo i)) = s
  /\ all_required_ok cs (res_of (lrun' s (wcalls cs fo i))) = true
  /\ ((forall c, In c cs -> fst c = false) ->
      applied (tr (lrun' s (wcalls cs fo i))) = ops_of cs
      /\ torn_part (tr (lrun' s (wcalls cs fo i))) = []
      /\ trace_effects (tr (lrun' s (wcalls cs fo i))) = ops_of cs).
Proof.
  induction cs as [|c r IH]; intros s fo i Hf Hn.
  - cbn. auto.
  - cbn [first_fail] in Hn. cbn [wcalls]. destruct c as [be o].
    destruct s as [fl cl]. cbn in Hf. subst fl.
    unfold wcall_of. cbn [fst snd] in *. rewrite lrun_cons.
    destruct be; cbn [orb] in Hn.
    + (* best effort *)
      cbn [lstep check_failure io_failed closed fst snd].
      destruct (IH (mkL false cl) fo (S i) eq_refl Hn) as (A & B & C).
      rewrite ?tr_mk, ?st_mk, ?res_mk.
      split; [exact A|]. split; [exact B|].
      intros Hall. specialize (Hall (true, o) (or_introl eq_refl)). discriminate.
    + destruct (fo i) as [|n] eqn:Ef; cbn [fate_ok] in Hn; [|discriminate].
      cbn [fate_ok keep_of lstep check_failure io_failed closed fst snd].
      destruct (IH (mkL false cl) fo (S i) eq_refl Hn) as (A & B & C).
      rewrite ?tr_mk, ?st_mk, ?res_mk.
      split; [exact A|]. split; [exact B|].
      intros Hall; destruct C as (C1 & C2 & C3); [intros c Hc; apply Hall; right; exact Hc|].
      split; [|split].
      * change ((false, o) :: r) with ([(false, o)] ++ r). rewrite ops_of_app, applied_app, C1.
        destruct o; reflexivity.
      * rewrite torn_part_app, C2. destruct o; reflexivity.
      * change ((false, o) :: r) with ([(false, o)] ++ r). rewrite ops_of_app, effects_app, C3.
        destruct o; reflexivity.
Qed.

(* the k-th call is the first required call that fails *)
Lemma run_some cs : forall s fo i k,
  io_failed s = false -> first_fail cs fo i = Some k ->
  exists c1 c c2 n,
    cs = c1 ++ c :: c2 /\ k = (i + length c1)%nat /\ fst c = false /\ fo k = FFail n
    /\ first_fail c1 fo i = None
    /\ st_of (lrun' s (wcalls cs fo i)) = mkL true (closed s)
    /\ tr (lrun' s (wcalls cs fo i)) = tr (lrun' s (wcalls c1 fo i)) ++ [BOp (snd c, n) false]
    /\ all_required_ok cs (res_of (lrun' s (wcalls cs fo i))) = false.
Proof.
  induction cs as [|c r IH]; intros s fo i k Hf Hn.
  - discriminate.
  - cbn [first_fail] in Hn. destruct c as [be o]. destruct s as [fl cl]. cbn in Hf. subst fl.
    cbn [fst] in Hn.
    destruct (be || fate_ok (fo i)) eqn:Hb.
    + (* this call does not stop the run *)
      assert (E1 : fst (fst (lstep lop (mkL false cl) (fst (wcall_of (be, o) (fo i))) (snd (wcall_of (be, o) (fo i))))) = mkL false cl).
      { unfold wcall_of. cbn [fst snd]. destruct be; cbn [lstep check_failure io_failed closed fst snd]; [reflexivity|].
        cbn [orb] in Hb. rewrite Hb. reflexivity. }
      assert (E3 : required_ok (be, o) (snd (lstep lop (mkL false cl) (fst (wcall_of (be, o) (fo i))) (snd (wcall_of (be, o) (fo i))))) = true).
      { unfold wcall_of, required_ok. cbn [fst snd]. destruct be; [reflexivity|]. cbn [orb] in Hb |- *.
        cbn [lstep check_failure io_failed closed fst snd]. rewrite Hb. reflexivity. }
      destruct (IH (mkL false cl) fo (S i) k eq_refl Hn) as (c1 & c & c2 & n & H1 & H2 & H3 & H4 & H5 & H6 & H7 & H8).
      exists ((be, o) :: c1), c, c2, n.
      cbn [wcalls]. destruct (wcall_of (be, o) (fo i)) as [w b] eqn:Ew. cbn [fst snd] in E1, E3.
      rewrite !lrun_cons. rewrite E1.
      rewrite ?tr_mk, ?st_mk, ?res_mk.
      repeat split.
      * rewrite H1. reflexivity.
      * cbn [length]. lia.
      * exact H3.
      * exact H4.
      * cbn [first_fail fst]. rewrite Hb. exact H5.
      * exact H6.
      * rewrite H7. rewrite app_assoc. reflexivity.
      * cbn [all_required_ok]. rewrite E3, H8. reflexivity.
    + apply orb_false_iff in Hb as [Hbe Hfo]. subst be. inversion Hn; subst k.
      destruct (fo i) as [|n] eqn:Ef; [discriminate|].
      exists [], (false, o), r, n. cbn [wcalls]. rewrite Ef. unfold wcall_of. cbn [fst snd fate_ok keep_of].
      rewrite lrun_cons. cbn [lstep check_failure io_failed closed fst snd].
      destruct (run_latched (mkL true cl) r fo (S i) eq_refl) as [A B]. rewrite A, B.
      rewrite ?tr_mk, ?st_mk, ?res_mk. cbn [fst snd lrun wcalls app length]. rewrite ?tr_mk.
      repeat split; auto.
Qed.

Lemma first_fail_results cs s fo i : io_failed s = false ->
  all_required_ok cs (res_of (lrun' s (wcalls cs fo i))) = match first_fail cs fo i with None => true | Some _ => false end.
Proof.
  intros Hf. destruct (first_fail cs fo i) as [k|] eqn:E.
  - destruct (run_some cs s fo i k Hf E) as (? & ? & ? & ? & _ & _ & _ & _ & _ & _ & _ & H). exact H.
  - destruct (run_none cs s fo i Hf E) as (_ & H & _). exact H.
Qed.

(* no required call fails: every required call got the answer Ok *)
Lemma first_fail_none cs : forall fo i, first_fail cs fo i = None ->
  forall j c, nth_error cs j = Some c -> fst c = false -> fate_ok (fo (i + j)%nat) = true.
Proof.
  induction cs as [|c r IH]; intros fo i Hn j c' Hj Hc.
  - destruct j; discriminate.
  - cbn [first_fail] in Hn. destruct (fst c || fate_ok (fo i)) eqn:Hb; [|discriminate].
    destruct j as [|j]; cbn in Hj.
    + inversion Hj; subst c'. rewrite Hc in Hb. cbn in Hb. now rewrite Nat.add_0_r.
    + replace (i + S j)%nat with (S i + j)%nat by lia. eapply IH; eauto.
Qed.

(* ========================================================================================== *)
(* ---------- the cut of an accumulator is sound ---------- *)

(* the facts about one run of the calls of an accumulator `a` (a protocol step, or a recovery run) all of whose
   calls are required: the state st' the model continues with summarises what the storage received *)
Inductive run_facts (pre0 : list op) (a : acc) (cs : list call) (fo : nat -> fate) (s : lstate)
       (st' : pst) (ok : bool) : Prop :=
| mkRunFacts : forall (pre : list wrec) (w : wrec) (post : list wrec),
    all_windows a = pre ++ w :: post ->
    p_d st' = w_sum w ->
    sub_ops (p_win st') (w_ops w) ->
    (forall D,
      apply_ops (trace_effects (l_trace lop (lrun lop s (wcalls cs fo O)))) (apply_ops pre0 D)
      = apply_ops (p_win st') (image_after D pre)) ->
    (ok = true ->
       post = [] /\ st' = a_st a /\ l_state lop (lrun lop s (wcalls cs fo O)) = s
       /\ trace_effects (l_trace lop (lrun lop s (wcalls cs fo O))) = a_ops a
       /\ first_fail cs fo O = None) ->
    (ok = false ->
       l_state lop (lrun lop s (wcalls cs fo O)) = mkL true (closed s)
       /\ length pre = nwindows_before (a_ws a) (length pre0 + length (applied (l_trace lop (lrun lop s (wcalls cs fo O)))))
       /\ exists k, first_fail cs fo O = Some k) ->
    run_facts pre0 a cs fo s st' ok.

Lemma cut_sound pre0 a cs fo s mem rfs opn :
  acc_wf pre0 a -> ops_of cs = a_ops a -> (forall c, In c cs -> fst c = false) -> io_failed s = false ->
  let lr := lrun lop s (wcalls cs fo O) in
  let ok := all_required_ok cs (l_results lop lr) in
  let st' := if ok then a_st a
             else cut_pst mem rfs opn (a_ws a) (open_window (a_st a))
                          (length pre0 + length (applied (l_trace lop lr))) (torn_part (l_trace lop lr)) in
  run_facts pre0 a cs fo s st' ok.
Proof.
  intros Wf Eo Hreq Hf lr ok st'. subst lr ok st'.
  rewrite (first_fail_results cs s fo O Hf).
  destruct (first_fail cs fo O) as [k|] eqn:Ek.
  - (* the k-th call fails *)
    destruct (run_some cs s fo O k Hf Ek) as (c1 & c & c2 & n & H1 & H2 & H3 & H4 & H5 & H6 & H7 & H8).
    assert (Hreq1 : forall x, In x c1 -> fst x = false).
    { intros x Hx. apply Hreq. rewrite H1. apply in_or_app. left; exact Hx. }
    destruct (run_none c1 s fo O Hf H5) as (_ & _ & N3). destruct (N3 Hreq1) as (N4 & N5 & N6).
    assert (Eap : applied (l_trace lop (lrun lop s (wcalls cs fo 0))) = ops_of c1).
    { rewrite H7, applied_app, N4. cbn. destruct (snd c); apply app_nil_r. }
    assert (Etp : torn_part (l_trace lop (lrun lop s (wcalls cs fo 0))) = torn (snd c) n).
    { rewrite H7, torn_part_app, N5. destruct (snd c); cbn; rewrite ?app_nil_r; reflexivity. }
    assert (Eef : trace_effects (l_trace lop (lrun lop s (wcalls cs fo 0))) = ops_of c1 ++ torn (snd c) n).
    { rewrite H7, effects_app, N6. destruct (snd c); cbn; rewrite ?app_nil_r; reflexivity. }
    rewrite Eap, Etp.
    assert (Es : (pre0 ++ ops_of c1) ++ ops_of (c :: c2) = flat (a_ws a) ++ w_ops (open_window (a_st a))).
    { rewrite <- app_assoc, <- ops_of_app, <- H1, Eo. exact Wf. }
    destruct (cut_at_spec (a_ws a) (open_window (a_st a)) (length pre0 + length (ops_of c1)) _ _ Es)
      as (pre & w & post & A & B & R2 & C1 & C2 & C3 & C4 & C5 & C6 & C7); [apply app_length|].
    unfold cut_pst. rewrite C2.
    apply mkRunFacts with (pre := pre) (w := w) (post := post); cbn [p_d p_win].
    + exact C1.
    + reflexivity.
    + (* what is left in the window is a weakening of the window *)
      rewrite C3. destruct (snd c) as [o|] eqn:Eo'.
      * change (c :: c2) with ([c] ++ c2) in C5. rewrite ops_of_app in C5. unfold ops_of at 1 in C5.
        cbn [flat_map] in C5. rewrite Eo' in C5. cbn [app] in C5.
        destruct B as [|o' B'].
        -- cbn [app] in C5. destruct C6 as [-> | (R3 & ->)]; [discriminate|]. inversion C5; subst o.
           cbn. rewrite !app_nil_r. apply sub_refl.
        -- cbn [app] in C5. inversion C5; subst o'. apply sub_torn_tail.
      * cbn. rewrite app_nil_r. apply sub_prefix.
    + intros D. rewrite Eef, <- apply_ops_app, app_assoc, C4, <- app_assoc, apply_ops_app, apply_flat. reflexivity.
    + discriminate.
    + intros _. split; [exact H6 | split; [rewrite Eap; symmetry; exact C7 | exists k; first [exact Ek | reflexivity]]].
  - (* every call succeeds *)
    destruct (run_none cs s fo O Hf Ek) as (N1 & _ & N3). destruct (N3 Hreq) as (N4 & N5 & N6).
    apply mkRunFacts with (pre := a_ws a) (w := open_window (a_st a)) (post := []).
    + reflexivity.
    + reflexivity.
    + apply sub_refl.
    + intros D. rewrite N6, Eo, <- apply_ops_app, Wf, apply_ops_app, apply_flat. reflexivity.
    + intros _. repeat split; auto; first [exact Ek | now rewrite N6 | idtac].
    + discriminate.
Qed.

(* ========================================================================================== *)
(* ---------- the calls of a step ---------- *)

Lemma step_calls_ops st r : ops_of (step_calls st r) = a_ops (run_step st (rq_step r)).
Proof. apply ops_of_interleave. Qed.

Lemma step_calls_required st r : req_be r = false -> forall c, In c (step_calls st r) -> fst c = false.
Proof. intros Hb c Hc. destruct (interleave_flags _ _ _ _ Hc) as [E | E]; [exact E | now rewrite E]. Qed.

Lemma evict_run st pages :
  run_step st (PEvict pages)
  = mkAcc (mkPst (p_d st) (p_win st ++ page_writes pages) (p_mem st) (p_rfs st) (p_open st)) [] ([] ++ page_writes pages).
Proof. reflexivity. Qed.

Lemma unpage_cons off d E : unpage (Write off d :: E) = (off, d) :: unpage E.
Proof. reflexivity. Qed.
Lemma page_writes_cons off d pg : page_writes ((off, d) :: pg) = Write off d :: page_writes pg.
Proof. reflexivity. Qed.
Lemma pages_okb_cons rp x pg : pages_okb rp (x :: pg) = page_okb rp x && pages_okb rp pg.
Proof. reflexivity. Qed.

(* a best-effort eviction effectively evicted the pages as far as they reached the storage: again an eviction step *)
Lemma sub_pages rp : forall pages E,
  sub_ops E (page_writes pages) ->
  E = page_writes (unpage E) /\ (pages_okb rp pages = true -> pages_okb rp (unpage E) = true).
Proof.
  induction pages as [|[off data] pages IH]; intros E Hs.
  - inversion Hs; subst. cbn. auto.
  - change (page_writes ((off, data) :: pages)) with (Write off data :: page_writes pages) in Hs.
    assert (Hmono : pages_okb rp ((off, data) :: pages) = true -> pages_okb rp pages = true).
    { rewrite pages_okb_cons. intros X. apply andb_true_iff in X. tauto. }
    inversion Hs; subst.
    + cbn. auto.
    + destruct (IH _ H1) as (A & B). split.
      * rewrite unpage_cons, page_writes_cons, <- A. reflexivity.
      * intros Hp. rewrite unpage_cons, pages_okb_cons, (B (Hmono Hp)), andb_true_r.
        rewrite pages_okb_cons in Hp. apply andb_true_iff in Hp. tauto.
    + destruct (IH _ H1) as (A & B). split.
      * rewrite unpage_cons, page_writes_cons, <- A. reflexivity.
      * intros Hp. rewrite unpage_cons, pages_okb_cons, (B (Hmono Hp)), andb_true_r.
        rewrite pages_okb_cons in Hp. apply andb_true_iff in Hp as [Hp1 _].
        unfold page_okb in *. cbn [fst snd] in *. apply andb_true_iff in Hp1 as [P1 P2]. rewrite P1. cbn [andb].
        apply forallb_forall. intros x Hx. rewrite forallb_forall in P2. specialize (P2 x Hx).
        unfold disjointb in *. rewrite !orb_true_iff, !N.eqb_eq, !N.leb_le in *.
        assert (Hl : wlen (firstn n data) <= wlen data).
        { unfold wlen. rewrite firstn_length. lia. }
        lia.
    + destruct (IH _ H1) as (A & B). split; [exact A | intros Hp; exact (B (Hmono Hp))].
Qed.

(* ---------- one step under faults: the state the model continues with is sound ---------- *)

Inductive step_facts (s : fstate) (r : freq) (fo : nat -> fate) (s' : fstate) (b : bool) : Prop :=
| mkStepFacts : forall (pre : list wrec) (w : wrec) (post : list wrec),
    all_windows (run_step (f_st s) (rq_step r)) = pre ++ w :: post ->
    p_d (f_st s') = w_sum w ->
    sub_ops (p_win (f_st s')) (w_ops w) ->
    (* what the backend holds after the step = the durable image the cut names + the operations kept since *)
    (forall D, apply_ops (trace_effects (step_trace s r fo)) (storage_of D (f_st s))
               = storage_of (image_after D pre) (f_st s')) ->
    b = match first_fail (step_calls (f_st s) r) fo O with None => true | Some _ => false end ->
    (b = true -> post = [] /\ f_latch s' = f_latch s) ->
    (b = false -> f_latch s' = mkL true (closed (f_latch s))) ->
    step_facts s r fo s' b.

Theorem step_f_sound s r fo s' b :
  io_failed (f_latch s) = false -> step_f s r fo = (s', b) -> step_facts s r fo s' b.
Proof.
  intros Hf E. unfold step_f in E. rewrite Hf in E.
  set (st := f_st s) in *. set (a := run_step st (rq_step r)) in *. set (cs := step_calls st r) in *.
  pose proof (first_fail_results cs (f_latch s) fo O Hf) as Eok.
  destruct (is_evict (rq_step r)) eqn:Hev.
  - (* eviction: no sync_data, the open window only *)
    destruct (rq_step r) as [pages| | | | |] eqn:Es; try discriminate. clear Hev.
    inversion E; subst s' b. clear E.
    assert (Ea : a = run_step st (PEvict pages)) by (unfold a; rewrite ?Es; reflexivity).
    rewrite evict_run in Ea.
    assert (Eops : ops_of cs = page_writes pages).
    { unfold cs. rewrite step_calls_ops. fold st. rewrite ?Es. reflexivity. }
    apply mkStepFacts with (pre := []) (w := open_window (a_st a)) (post := []); cbn [f_st f_latch p_d p_win].
    + fold st. rewrite ?Es. fold a. rewrite Ea. reflexivity.
    + rewrite Ea. reflexivity.
    + rewrite Ea. cbn [a_st open_window w_ops p_win]. apply sub_app_l. rewrite <- Eops. apply trace_sub.
    + intros D. unfold storage_of. cbn [p_win image_after]. fold st. now rewrite apply_ops_app.
    + exact Eok.
    + intros Hb. split; [reflexivity|]. rewrite Hb in Eok. symmetry in Eok.
      destruct (first_fail cs fo 0) eqn:Ek; [discriminate|].
      destruct (run_none cs (f_latch s) fo O Hf Ek) as (N1 & _). exact N1.
    + intros Hb. rewrite Hb in Eok. symmetry in Eok.
      destruct (first_fail cs fo 0) as [k|] eqn:Ek; [|discriminate].
      destruct (run_some cs (f_latch s) fo O k Hf Ek) as (? & ? & ? & ? & _ & _ & _ & _ & _ & H6 & _). exact H6.
  - (* every call is required *)
    assert (Hbe : req_be r = false) by (unfold req_be; now rewrite Hev).
    pose proof (cut_sound (p_win st) a cs fo (f_latch s) (p_mem st) (p_rfs st) (p_open st)
                 (wf_step st (rq_step r)) (step_calls_ops st r) (step_calls_required st r Hbe) Hf) as F.
    cbv zeta in F. fold cs in F.
    change (cut_pst (p_mem st) (p_rfs st) (p_open st) (a_ws a) (open_window (a_st a))
              (length (p_win st) + length (applied (l_trace lop (lrun lop (f_latch s) (wcalls cs fo 0)))))
              (torn_part (l_trace lop (lrun lop (f_latch s) (wcalls cs fo 0)))))
      with (cut_state st a (l_trace lop (lrun lop (f_latch s) (wcalls cs fo 0)))) in F.
    inversion E; subst s' b. clear E.
    destruct F as [pre w post F1 F2 F3 F4 F5 F6].
    apply mkStepFacts with (pre := pre) (w := w) (post := post); cbn [f_st f_latch]; auto.
    + intros Hb. destruct (F5 Hb) as (A & _ & C & _). auto.
    + intros Hb. destruct (F6 Hb) as (A & _). exact A.
Qed.

(* ========================================================================================== *)
(* the fault-free run: what the storage holds afterwards *)
Lemma run_storage st s D :
  apply_ops (a_ops (run_step st s)) (storage_of D st)
  = storage_of (image_after D (a_ws (run_step st s))) (a_st (run_step st s)).
Proof.
  unfold storage_of. rewrite <- apply_ops_app, (wf_step st s), apply_ops_app, apply_flat. reflexivity.
Qed.

(* ---------- (a) no false success ---------- *)

Theorem no_false_success s r fo s' :
  io_failed (f_latch s) = false -> step_f s r fo = (s', true) ->
  (forall j c, nth_error (step_calls (f_st s) r) j = Some c -> fst c = false -> fate_ok (fo j) = true)
  /\ f_latch s' = f_latch s
  /\ (req_be r = false ->
        f_st s' = a_st (run_step (f_st s) (rq_step r))
        /\ trace_effects (step_trace s r fo) = a_ops (run_step (f_st s) (rq_step r))
        /\ forall D, apply_ops (trace_effects (step_trace s r fo)) (storage_of D (f_st s))
                     = apply_ops (a_ops (run_step (f_st s) (rq_step r))) (storage_of D (f_st s)))
  /\ (req_be r = true ->
        exists pages pages', rq_step r = PEvict pages
          /\ f_st s' = a_st (run_step (f_st s) (PEvict pages'))
          /\ (step_okb (f_st s) (PEvict pages) = true -> step_okb (f_st s) (PEvict pages') = true)).
Proof.
  intros Hf E. destruct (step_f_sound s r fo s' true Hf E) as [pre w post F1 F2 F3 F4 F5 F6 _].
  destruct (F6 eq_refl) as [_ El].
  destruct (first_fail (step_calls (f_st s) r) fo 0) eqn:Ek; [discriminate|].
  split; [|split; [exact El|split]].
  - intros j c Hj Hc. exact (first_fail_none _ fo O Ek j c Hj Hc).
  - intros Hbe.
    destruct (run_none _ (f_latch s) fo O Hf Ek) as (_ & _ & N3).
    destruct (N3 (step_calls_required (f_st s) r Hbe)) as (_ & _ & N6).
    assert (Eef : trace_effects (step_trace s r fo) = a_ops (run_step (f_st s) (rq_step r))).
    { unfold step_trace. rewrite N6. apply step_calls_ops. }
    split; [|split; [exact Eef | intros D; now rewrite Eef]].
    unfold step_f in E. rewrite Hf in E.
    rewrite (first_fail_results _ (f_latch s) fo O Hf), Ek in E.
    destruct (is_evict (rq_step r)) eqn:Hev.
    + destruct (rq_step r) as [pages| | | | |] eqn:Es; try discriminate.
      inversion E. fold (step_trace s r fo). rewrite Eef. rewrite ?Es. reflexivity.
    + inversion E. reflexivity.
  - intros Hbe. unfold req_be in Hbe. apply andb_true_iff in Hbe as [Hev _].
    destruct (rq_step r) as [pages| | | | |] eqn:Es; try discriminate.
    unfold step_f in E. rewrite Hf, Es in E. cbn [is_evict] in E. injection E as E1 _. rewrite <- E1. clear E1.
    assert (Hs : sub_ops (trace_effects (l_trace lop (lrun lop (f_latch s) (wcalls (step_calls (f_st s) r) fo 0))))
                         (page_writes pages)).
    { pose proof (trace_sub (step_calls (f_st s) r) (f_latch s) fo O) as X.
      rewrite step_calls_ops, Es in X. exact X. }
    set (Eff := trace_effects _) in *.
    destruct (sub_pages (d_rp (p_d (f_st s))) pages Eff Hs) as (E0 & Hmono).
    exists pages, (unpage Eff). split; [reflexivity|]. split.
    + cbn [f_st]. rewrite evict_run. cbn [a_st]. rewrite <- E0. reflexivity.
    + cbn [step_okb]. intros Hok. apply andb_true_iff in Hok as [Ho Hp]. rewrite Ho, (Hmono Hp). reflexivity.
Qed.

(* ========================================================================================== *)
(* ---------- (b) a failed step leaves a crash image of the fault-free run, cut at the failing operation ---------- *)

Theorem failed_step_is_a_crash_image s r fo s' :
  io_failed (f_latch s) = false -> step_f s r fo = (s', false) ->
  io_failed (f_latch s') = true
  /\ (exists k c, first_fail (step_calls (f_st s) r) fo O = Some k
                  /\ nth_error (step_calls (f_st s) r) k = Some c /\ fst c = false /\ fate_ok (fo k) = false)
  /\ exists pre w post,
       all_windows (run_step (f_st s) (rq_step r)) = pre ++ w :: post
       /\ p_d (f_st s') = w_sum w
       /\ sub_ops (p_win (f_st s')) (w_ops w)
       /\ forall D,
            apply_ops (trace_effects (step_trace s r fo)) (storage_of D (f_st s))
            = storage_of (image_after D pre) (f_st s')
            /\ CrashOf (image_after D pre) (w_ops w) (storage_of (image_after D pre) (f_st s'))
            /\ forall img, CrashOf (image_after D pre) (p_win (f_st s')) img
                           -> CrashOf (image_after D pre) (w_ops w) img.
Proof.
  intros Hf E. destruct (step_f_sound s r fo s' false Hf E) as [pre w post F1 F2 F3 F4 F5 _ F7].
  split; [rewrite (F7 eq_refl); reflexivity|]. split.
  - destruct (first_fail (step_calls (f_st s) r) fo 0) as [k|] eqn:Ek; [|discriminate].
    destruct (run_some _ (f_latch s) fo O k Hf Ek) as (c1 & c & c2 & n & H1 & H2 & H3 & H4 & _).
    exists k, c. repeat split; auto.
    + rewrite H1, H2. cbn. rewrite nth_error_app2 by lia. now rewrite Nat.sub_diag.
    + now rewrite H4.
  - exists pre, w, post. split; [exact F1|]. split; [exact F2|]. split; [exact F3|]. intros D. split; [apply F4|]. split.
    + apply (crash_sub _ _ _ _ F3). apply apply_is_crash.
    + intros img. apply (crash_sub _ _ _ _ F3).
Qed.

(* afterwards every step is refused and nothing reaches the storage *)
Theorem failed_step_refuses s r fo s' :
  io_failed (f_latch s) = false -> step_f s r fo = (s', false) ->
  forall r2 fo2, step_f s' r2 fo2 = (s', false) /\ step_trace s' r2 fo2 = [].
Proof.
  intros Hf E r2 fo2.
  destruct (failed_step_is_a_crash_image s r fo s' Hf E) as (Hl & _).
  split.
  - unfold step_f. now rewrite Hl.
  - unfold step_trace. apply (run_latched (f_latch s') _ fo2 O Hl).
Qed.

(* with failures that store nothing, the storage is the one Latch.v's `storage_after` computes: a failed call
   has no effect there -- c08_failure_is_a_crash_point applies to the call sequence of the step *)
Lemma effects_storage_after t D :
  torn_part t = [] -> apply_ops (trace_effects t) D = storage_after lop image lop_apply D t.
Proof.
  revert D. induction t as [|e t IH]; intros D Ht; [reflexivity|].
  change (e :: t) with ([e] ++ t) in *. rewrite effects_app, apply_ops_app.
  rewrite torn_part_app in Ht. apply app_eq_nil in Ht as [Ht1 Ht2].
  unfold storage_after. cbn [app fold_left]. fold (storage_after lop image lop_apply (apply_ev lop image lop_apply D e) t).
  rewrite <- (IH _ Ht2). f_equal.
  destruct e as [[o n] [|]|]; cbn in *.
  - destruct o; reflexivity.
  - rewrite app_nil_r in Ht1. destruct o as [o|].
    + change (apply_ops (torn (Some o) n ++ []) D = D). rewrite Ht1. reflexivity.
    + reflexivity.
  - reflexivity.
Qed.

(* ---------- invariants of the fault-aware run; (c) composition with C01 ---------- *)

Lemma all_windows_single st s : all_windows (run_steps st [s]) = all_windows (run_step st s).
Proof. unfold all_windows. cbn [run_steps a_ws a_st a_start]. now rewrite app_nil_r. Qed.

Section Compose.
  Variable H : bytes -> bytes.
  Variable expect : bytes -> list (N * bytes).
  Variable ps : N.
  Hypothesis H_tear : forall a b m,
    cks_ok H a = true -> cks_ok H b = true -> mix2 a b m -> cks_ok H m = true -> m = a \/ m = b.
  Hypothesis expect_above : forall s e, In e (expect s) -> DB_HEADER_SIZE <= fst e.

  (* a step that reports Ok keeps the protocol invariant and the truthful summary: the states the fault-aware
     run reaches are states of the fault-free protocol *)
  Theorem ok_step_keeps_invariants s r fo s' D :
    io_failed (f_latch s) = false -> Inv (f_st s) -> Sem H expect ps (f_st s) D ->
    step_okb (f_st s) (rq_step r) = true -> step_sem H expect (f_st s) D (rq_step r) ->
    step_f s r fo = (s', true) ->
    Inv (f_st s') /\ Sem H expect ps (f_st s') (image_after D (a_ws (run_step (f_st s) (rq_step r))))
    /\ io_failed (f_latch s') = false.
  Proof.
    intros Hf I S Hok Hsem E.
    destruct (no_false_success s r fo s' Hf E) as (_ & El & A & B).
    split; [|split; [|now rewrite El]].
    - destruct (req_be r) eqn:Hbe.
      + destruct (B eq_refl) as (pages & pages' & Es & Est & Hmono). rewrite Est.
        rewrite Es in Hok. exact (proj2 (step_ok _ _ I (Hmono Hok))).
      + destruct (A eq_refl) as (Est & _). rewrite Est. exact (proj2 (step_ok _ _ I Hok)).
    - destruct (req_be r) eqn:Hbe.
      + destruct (B eq_refl) as (pages & pages' & Es & Est & Hmono). rewrite Est, Es.
        rewrite Es in Hok.
        exact (proj2 (step_sem_ok H expect ps H_tear expect_above _ (PEvict pages') D I S (Hmono Hok) Logic.I)).
      + destruct (A eq_refl) as (Est & _). rewrite Est.
        exact (proj2 (step_sem_ok H expect ps H_tear expect_above _ _ D I S Hok Hsem)).
  Qed.

  (* (c) reopening what a failed step leaves behind -- the bytes the backend holds, or ANY crash image of them
     (any subset of the operations received since the last completed sync_data, torn at byte granularity) --
     has C01's outcome for the sync window the failing operation lies in *)
  Theorem failed_step_recovers s r fo s' D :
    io_failed (f_latch s) = false -> Inv (f_st s) -> Sem H expect ps (f_st s) D ->
    step_okb (f_st s) (rq_step r) = true -> step_sem H expect (f_st s) D (rq_step r) ->
    step_f s r fo = (s', false) ->
    exists pre w post,
      all_windows (run_step (f_st s) (rq_step r)) = pre ++ w :: post
      /\ p_d (f_st s') = w_sum w
      /\ sub_ops (p_win (f_st s')) (w_ops w)
      /\ apply_ops (trace_effects (step_trace s r fo)) (storage_of D (f_st s))
         = storage_of (image_after D pre) (f_st s')
      /\ forall img, CrashOf (image_after D pre) (p_win (f_st s')) img ->
                     crash_outcome H expect ps (w_sum w) (map abs (w_ops w)) img.
  Proof.
    intros Hf I S Hok Hsem E.
    destruct (failed_step_is_a_crash_image s r fo s' Hf E) as (_ & _ & pre & w & post & F1 & F2 & Fs & F3).
    exists pre, w, post. split; [exact F1|]. split; [exact F2|]. split; [exact Fs|]. split; [apply (F3 D)|].
    intros img HC. destruct (F3 D) as (_ & _ & F5).
    refine (protocol_crash_safe H expect ps H_tear expect_above (f_st s) [rq_step r] D I S _ _ pre w post
              (length (w_ops w)) img _ _).
    - cbn [steps_okb]. now rewrite Hok.
    - cbn [steps_sem]. auto.
    - rewrite all_windows_single. exact F1.
    - rewrite firstn_all. apply F5. exact HC.
  Qed.
End Compose.

(* ========================================================================================== *)
(* ---------- (d) recovery's own writes under faults ---------- *)

Inductive recovery_facts (a : acc) (qs : list nat) (fo : nat -> fate) (s' : fstate) (b : bool) : Prop :=
| mkRecFacts : forall (pre : list wrec) (w : wrec) (post : list wrec),
    all_windows a = pre ++ w :: post ->
    p_d (f_st s') = w_sum w ->
    sub_ops (p_win (f_st s')) (w_ops w) ->
    (forall D, apply_ops (trace_effects (recovery_trace a qs fo)) D = storage_of (image_after D pre) (f_st s')) ->
    b = match first_fail (recovery_calls a qs) fo O with None => true | Some _ => false end ->
    (b = true -> post = [] /\ f_st s' = a_st a /\ f_latch s' = l_init
                 /\ trace_effects (recovery_trace a qs fo) = a_ops a) ->
    (b = false -> io_failed (f_latch s') = true) ->
    recovery_facts a qs fo s' b.

Theorem recovery_f_sound d o qs fo a s' b :
  recovery_run d o = Some a -> recovery_f d o qs fo = Some (s', b) -> recovery_facts a qs fo s' b.
Proof.
  intros Ea E. unfold recovery_f in E. rewrite Ea in E.
  pose proof (cut_sound [] a (recovery_calls a qs) fo l_init (parse_hdr (d_hdr d)) false false
                (wf_recovery d o a Ea) (ops_of_interleave false qs (a_ops a))) as F.
  assert (Hreq : forall c, In c (recovery_calls a qs) -> fst c = false).
  { intros c Hc. destruct (interleave_flags _ _ _ _ Hc); auto. }
  specialize (F Hreq eq_refl). cbv zeta in F. cbn [length Nat.add] in F.
  fold (recovery_calls a qs) in E.
  pose proof (first_fail_results (recovery_calls a qs) l_init fo O eq_refl) as Eok.
  injection E as E1 E2. rewrite <- E1, <- E2. clear E1 E2.
  destruct F as [pre w post F1 F2 F3 F4 F5 F6].
  apply mkRecFacts with (pre := pre) (w := w) (post := post); cbn [f_st f_latch]; auto.
  - intros Hb. destruct (F5 Hb) as (A & B & C & D' & _). repeat split; auto.
  - intros Hb. destruct (F6 Hb) as (A & _). rewrite A. reflexivity.
Qed.

Theorem recovery_no_false_success d o qs fo a s' :
  recovery_run d o = Some a -> recovery_f d o qs fo = Some (s', true) ->
  (forall j c, nth_error (recovery_calls a qs) j = Some c -> fate_ok (fo j) = true)
  /\ f_st s' = a_st a /\ f_latch s' = l_init
  /\ forall D, apply_ops (trace_effects (recovery_trace a qs fo)) D = apply_ops (a_ops a) D.
Proof.
  intros Ea E. destruct (recovery_f_sound d o qs fo a s' true Ea E) as [pre w post F1 F2 F3 F4 F5 F6 _].
  destruct (F6 eq_refl) as (_ & A & B & C).
  destruct (first_fail (recovery_calls a qs) fo 0) eqn:Ek; [discriminate|].
  split; [|split; [exact A | split; [exact B | intros D; now rewrite C]]].
  intros j c Hj. apply (first_fail_none _ fo O Ek j c Hj).
  destruct (interleave_flags _ _ _ _ (nth_error_In _ _ Hj)); auto.
Qed.

Section ComposeRecovery.
  Variable H : bytes -> bytes.
  Variable expect : bytes -> list (N * bytes).
  Variable ps : N.
  Hypothesis H_tear : forall a b m,
    cks_ok H a = true -> cks_ok H b = true -> mix2 a b m -> cks_ok H m = true -> m = a \/ m = b.
  Hypothesis expect_above : forall s e, In e (expect s) -> DB_HEADER_SIZE <= fst e.

  (* a recovery run that fails part way leaves a storage every crash image of which recovers again:
     C01's recovery_crash_safe, at the operation that failed *)
  Theorem failed_recovery_recovers d D o qs fo a s' :
    image_ok H expect ps d D -> dead H d -> rec_side_okb d o = true -> repair_sem H expect d o ->
    recovery_run d o = Some a -> recovery_f d o qs fo = Some (s', false) ->
    io_failed (f_latch s') = true
    /\ exists pre w post,
      all_windows a = pre ++ w :: post
      /\ p_d (f_st s') = w_sum w
      /\ sub_ops (p_win (f_st s')) (w_ops w)
      /\ apply_ops (trace_effects (recovery_trace a qs fo)) D = storage_of (image_after D pre) (f_st s')
      /\ forall img, CrashOf (image_after D pre) (p_win (f_st s')) img ->
                     crash_outcome H expect ps (w_sum w) (map abs (w_ops w)) img.
  Proof.
    intros IO Dd Hs Hr Ea E.
    destruct (recovery_f_sound d o qs fo a s' false Ea E) as [pre w post F1 F2 F3 F4 F5 _ F7].
    split; [exact (F7 eq_refl)|].
    exists pre, w, post. split; [exact F1|]. split; [exact F2|]. split; [exact F3|]. split; [apply F4|].
    intros img HC.
    refine (recovery_then_protocol_crash_safe H expect ps H_tear expect_above d D o a [] IO Dd Hs Hr Ea eq_refl Logic.I
              pre w post (length (w_ops w)) img F1 _).
    rewrite firstn_all. exact (crash_sub _ _ _ _ F3 HC).
  Qed.

  (* a recovery run that reports Ok ends in a protocol state with the invariant and a truthful summary *)
  Theorem ok_recovery_keeps_invariants d D o qs fo a s' :
    image_ok H expect ps d D -> dead H d -> rec_side_okb d o = true -> repair_sem H expect d o ->
    recovery_run d o = Some a -> recovery_f d o qs fo = Some (s', true) ->
    Inv (f_st s') /\ Sem H expect ps (f_st s') (image_after D (a_ws a)) /\ io_failed (f_latch s') = false.
  Proof.
    intros IO Dd Hs Hr Ea E.
    destruct (recovery_no_false_success d o qs fo a s' Ea E) as (_ & A & B & _).
    rewrite A, B.
    destruct (recovery_windows_ok_sem H expect ps d D o a IO Hs Ea) as (_ & J & _).
    destruct (recovery_chain H expect ps H_tear expect_above d D o a IO Dd Hs Hr Ea) as (_ & S).
    auto.
  Qed.
End ComposeRecovery.

(* ---------- whole histories under faults ---------- *)

Lemma latched_steps rs : forall s, io_failed (f_latch s) = true ->
  fst (steps_f s rs) = s /\ steps_effects s rs = [] /\ Forall (fun b => b = false) (snd (steps_f s rs)).
Proof.
  induction rs as [|[r fo] rest IH]; intros s Hl.
  - cbn. auto.
  - cbn [steps_f steps_effects].
    assert (E : step_f s r fo = (s, false)) by (unfold step_f; now rewrite Hl).
    assert (Et : step_trace s r fo = []) by (apply (run_latched (f_latch s) _ fo O Hl)).
    rewrite E, Et. cbn [fst]. destruct (IH s Hl) as (A & B & C).
    destruct (steps_f s rest) as [s2 bs]. cbn [fst snd] in *. subst s2. rewrite B. repeat split; auto.
Qed.

Section History.
  Variable H : bytes -> bytes.
  Variable expect : bytes -> list (N * bytes).
  Variable ps : N.
  Hypothesis H_tear : forall a b m,
    cks_ok H a = true -> cks_ok H b = true -> mix2 a b m -> cks_ok H m = true -> m = a \/ m = b.
  Hypothesis expect_above : forall s e, In e (expect s) -> DB_HEADER_SIZE <= fst e.

  (* the oracle side conditions of C01 (step_okb: C06 / C14 / C20; step_sem: C10 + the flush contract) for every
     request, in the state in which it is issued; nothing is asked of requests issued after a failure *)
  Fixpoint hist_ok (s : fstate) (D : image) (rs : list (freq * (nat -> fate))) : Prop :=
    match rs with
    | [] => True
    | (r, fo) :: rest =>
        step_okb (f_st s) (rq_step r) = true /\ step_sem H expect (f_st s) D (rq_step r)
        /\ (snd (step_f s r fo) = true ->
            hist_ok (fst (step_f s r fo)) (image_after D (a_ws (run_step (f_st s) (rq_step r)))) rest)
    end.

  (* every history of requests, every fault oracle per request: what the backend finally holds is the durable
     image D' of a sync window of the fault-free protocol plus operations of that window (weakened: cut, torn),
     and every crash image of it recovers to the commit D' serves or, completely, to the commit in flight *)
  Theorem faulty_history_recovers rs : forall s D s' bs,
    io_failed (f_latch s) = false -> Inv (f_st s) -> Sem H expect ps (f_st s) D ->
    hist_ok s D rs -> steps_f s rs = (s', bs) ->
    exists D' W,
      apply_ops (steps_effects s rs) (storage_of D (f_st s)) = storage_of D' (f_st s')
      /\ sub_ops (p_win (f_st s')) W
      /\ (forall img, CrashOf D' (p_win (f_st s')) img ->
                      crash_outcome H expect ps (p_d (f_st s')) (map abs W) img)
      /\ (Forall (fun b => b = true) bs ->
          io_failed (f_latch s') = false /\ Inv (f_st s') /\ Sem H expect ps (f_st s') D')
      /\ (~ Forall (fun b => b = true) bs -> io_failed (f_latch s') = true).
  Proof.
    induction rs as [|[r fo] rest IH]; intros s D s' bs Hf I S Hok E.
    - cbn in E. injection E as <- <-. exists D, (p_win (f_st s)). cbn [steps_effects apply_ops fold_left].
      split; [reflexivity|]. split; [apply sub_refl|]. split.
      + intros img HC.
        refine (protocol_crash_safe H expect ps H_tear expect_above (f_st s) [] D I S eq_refl Logic.I
                  [] (open_window (f_st s)) [] (length (p_win (f_st s))) img eq_refl _).
        cbn [open_window w_ops image_after]. now rewrite firstn_all.
      + split; [auto|]. intros X. exfalso. apply X. constructor.
    - cbn [hist_ok] in Hok. destruct Hok as (Hs & Hsem & Hrest).
      cbn [steps_f] in E. destruct (step_f s r fo) as [s1 b] eqn:E1. cbn [fst snd] in Hrest.
      destruct (steps_f s1 rest) as [s2 bs2] eqn:E2. injection E as <- <-.
      cbn [steps_effects]. rewrite E1. cbn [fst]. rewrite apply_ops_app.
      destruct b.
      + (* the step reports Ok *)
        destruct (ok_step_keeps_invariants H expect ps H_tear expect_above s r fo s1 D Hf I S Hs Hsem E1) as (I1 & S1 & Hf1).
        destruct (step_f_sound s r fo s1 true Hf E1) as [pre w post F1 F2 F3 F4 _ F6 _].
        destruct (F6 eq_refl) as [Ep _]. subst post.
        assert (Epre : pre = a_ws (run_step (f_st s) (rq_step r))).
        { unfold all_windows in F1. apply app_inj_tail in F1. symmetry. tauto. }
        rewrite (F4 D), Epre.
        destruct (IH s1 _ s2 bs2 Hf1 I1 S1 (Hrest eq_refl) E2) as (D' & W & A & B & C & G & G').
        exists D', W. split; [exact A|]. split; [exact B|]. split; [exact C|]. split.
        * intros X. apply G. now inversion X.
        * intros X. apply G'. intros Y. apply X. constructor; auto.
      + (* the step fails: everything after it is refused *)
        destruct (failed_step_recovers H expect ps H_tear expect_above s r fo s1 D Hf I S Hs Hsem E1)
          as (pre & w & post & F1 & F2 & Fs & F3 & F4).
        destruct (failed_step_is_a_crash_image s r fo s1 Hf E1) as (Hl & _).
        destruct (latched_steps rest s1 Hl) as (L1 & L2 & L3). rewrite E2 in L1, L3. cbn [fst snd] in L1, L3. subst s2.
        rewrite L2. cbn [apply_ops fold_left]. fold (apply_ops (trace_effects (step_trace s r fo)) (storage_of D (f_st s))).
        exists (image_after D pre), (w_ops w). split; [exact F3|]. split; [exact Fs|].
        * split; [rewrite F2; exact F4|]. split.
          -- intros X. inversion X. discriminate.
          -- intros _. exact Hl.
  Qed.
End History.

(* ========================================================================================== *)
(* ---------- durable commits: acknowledged = durable; failed = entirely or not at all ---------- *)

(* a window without header writes cannot "promote": with the protocol invariant its crash images serve P *)
Lemma plain_window_outcome H expect ps st img :
  Inv st -> crash_outcome H expect ps (p_d st) (map abs (p_win st)) img ->
  recover H expect ps img = Some (dP (p_d st)).
Proof.
  intros I [E | (E & _ & [Hne | [_ Hn]])]; [exact E | |].
  - exfalso. apply Hne. unfold wq. now rewrite (win_hdrs _ _ (i_win st I)).
  - exfalso. unfold wgod in Hn. rewrite (win_hdrs _ _ (i_win st I)) in Hn. rewrite (f_names st I) in Hn. discriminate.
Qed.

Lemma commit_run st two q rng pgs shrink :
  Inv st -> commit_okb st q rng pgs shrink = true ->
  a_st (run_step st (PCommit two q rng pgs shrink)) = commit_post st two q rng shrink
  /\ a_ws (run_step st (PCommit two q rng pgs shrink)) = commit_windows st two q rng pgs shrink.
Proof.
  intros I Hc. cbn [run_step]. unfold a_start.
  exact (run_commit_eq st two q rng pgs shrink [] [] (commit_wf1 _ _ _ _ _ I Hc) (commit_pages _ _ _ _ _ Hc)).
Qed.

(* the outcome of every window of a durable commit, in terms of the commit: the slot served before it, or q *)
Lemma commit_window_outcome H expect ps st two q rng pgs shrink w img :
  Inv st -> p_open st = true -> commit_okb st q rng pgs shrink = true ->
  In w (all_windows (run_step st (PCommit two q rng pgs shrink))) ->
  crash_outcome H expect ps (w_sum w) (map abs (w_ops w)) img ->
  recover H expect ps img = Some (dP (p_d st)) \/ recover H expect ps img = Some q.
Proof.
  intros I Ho Hc Hin HO.
  destruct (commit_run st two q rng pgs shrink I Hc) as [E1 E2].
  unfold all_windows in Hin. rewrite E1, E2 in Hin.
  pose proof (commit_post_inv st two q rng pgs shrink I Ho Hc) as J.
  pose proof (sc_wf1 st q rng pgs shrink I Hc) as Wf1.
  assert (Wf2 : forall t, hm_wf (cm2 st t q shrink)) by (intros t; exact (sc_wf2 st q rng pgs shrink I Hc t)).
  assert (Last : crash_outcome H expect ps (w_sum (open_window (commit_post st two q rng shrink)))
                   (map abs (w_ops (open_window (commit_post st two q rng shrink)))) img ->
                 recover H expect ps img = Some q).
  { intros X. cbn [open_window w_sum w_ops] in X. rewrite (plain_window_outcome H expect ps _ img J X).
    f_equal. exact (sc_post_P st q rng pgs shrink I Hc two). }
  assert (First : forall m', hm_wf m' -> hm_slot m' (negb (hm_prim (p_mem st))) = q ->
            crash_outcome H expect ps (p_d st) (map abs (p_win st ++ page_writes pgs ++ [hdr_write m'])) img ->
            recover H expect ps img = Some (dP (p_d st)) \/ recover H expect ps img = Some q).
  { intros m' Wm Em X. rewrite app_assoc in X. destruct X as [X | (X & _)]; [left; exact X | right].
    rewrite X. f_equal. exact (sc_wq st q rng pgs shrink I Hc m' Wm Em). }
  apply in_app_or in Hin. destruct Hin as [Hin | [<- | []]]; [|right; exact (Last HO)].
  unfold commit_windows in Hin. destruct two.
  - destruct Hin as [<- | [<- | []]]; cbn [w_sum w_ops] in HO.
    + apply (First (cm1 st q shrink) Wf1); [apply cm1_slot_sec | exact HO].
    + (* the second flush: the summary in between serves the old commit (trusted 2PC primary) or already q *)
      assert (Hw : win_okb (cd1 st q rng shrink) [] = true) by reflexivity.
      assert (EP : forall k, slot_at (hget (d_hdr (cd1 st q rng shrink))) k = hm_slot (cm1 st q shrink) k).
      { intros k. unfold cd1. destruct (hm_2pc (p_mem st)); cbn [d_hdr]; apply (slot_enc _ _ Wf1). }
      assert (EQ : wq (cd1 st q rng shrink) (map abs ([] ++ [hdr_write (cm2 st true q shrink)]))
                   = hm_slot (cm1 st q shrink) (negb (d_p (cd1 st q rng shrink)))).
      { rewrite (oh_wq _ [] _ (Wf2 true) Hw). apply cm2_slot. }
      assert (EPold : hm_slot (cm1 st q shrink) (hm_prim (p_mem st)) = dP (p_d st)).
      { rewrite cm1_slot_p. symmetry. apply (i_P st I). }
      destruct HO as [X | (X & _)].
      * assert (EPcd : dP (cd1 st q rng shrink) = hm_slot (cm1 st q shrink) (d_p (cd1 st q rng shrink)))
          by (unfold dP; apply EP).
        rewrite X, EPcd. unfold cd1. destruct (hm_2pc (p_mem st)); cbn [d_p].
        -- left. f_equal. rewrite <- EPold, (i_p st I). reflexivity.
        -- right. f_equal. rewrite cm0_prim. apply cm1_slot_sec.
      * rewrite X, EQ. unfold cd1. destruct (hm_2pc (p_mem st)); cbn [d_p].
        -- right. f_equal. rewrite (i_p st I). apply cm1_slot_sec.
        -- left. f_equal. rewrite <- EPold, cm0_prim, negb_involutive. reflexivity.
  - destruct Hin as [<- | []]; cbn [w_sum w_ops] in HO.
    apply (First (cm2 st false q shrink) (Wf2 false)); [rewrite cm2_slot; apply cm1_slot_sec | exact HO].
Qed.

Section Durable.
  Variable H : bytes -> bytes.
  Variable expect : bytes -> list (N * bytes).
  Variable ps : N.
  Hypothesis H_tear : forall a b m,
    cks_ok H a = true -> cks_ok H b = true -> mix2 a b m -> cks_ok H m = true -> m = a \/ m = b.
  Hypothesis expect_above : forall s e, In e (expect s) -> DB_HEADER_SIZE <= fst e.

  (* a durable commit that returns Ok: the image its last sync_data made durable serves q, and so does every
     crash image of what the storage holds afterwards *)
  Theorem acked_commit_is_durable s two q rng pgs shrink qs fo s' D :
    io_failed (f_latch s) = false -> Inv (f_st s) -> Sem H expect ps (f_st s) D ->
    step_okb (f_st s) (PCommit two q rng pgs shrink) = true ->
    step_sem H expect (f_st s) D (PCommit two q rng pgs shrink) ->
    commit_f s two q rng pgs shrink qs fo = (s', true) ->
    let D' := image_after D (a_ws (run_step (f_st s) (PCommit two q rng pgs shrink))) in
    recover H expect ps D' = Some q
    /\ forall img, CrashOf D' (p_win (f_st s')) img -> recover H expect ps img = Some q.
  Proof.
    intros Hf I S Hok Hsem E D'. unfold commit_f in E.
    set (r := mkReq (PCommit two q rng pgs shrink) false qs) in *.
    destruct (ok_step_keeps_invariants H expect ps H_tear expect_above s r fo s' D Hf I S Hok Hsem E) as (I' & S' & _).
    cbn [rq_step] in S'. fold D' in S'.
    destruct (no_false_success s r fo s' Hf E) as (_ & _ & A & _). destruct (A eq_refl) as (Est & _). cbn [rq_step] in Est.
    cbn [step_okb] in Hok. apply andb_true_iff in Hok as [Ho Hc].
    assert (EP : dP (p_d (f_st s')) = q).
    { rewrite Est. unfold r. cbn [rq_step]. rewrite (proj1 (commit_run _ two q rng pgs shrink I Hc)).
      exact (sc_post_P _ q rng pgs shrink I Hc two). }
    split.
    - rewrite <- EP. exact (io_rec _ _ _ _ _ (s_io _ _ _ _ _ S')).
    - intros img HC. rewrite <- EP. apply (plain_window_outcome H expect ps (f_st s') img I').
      refine (protocol_crash_safe H expect ps H_tear expect_above (f_st s') [] D' I' S' eq_refl Logic.I
                [] (open_window (f_st s')) [] (length (p_win (f_st s'))) img eq_refl _).
      cbn [open_window w_ops image_after]. now rewrite firstn_all.
  Qed.

  (* a durable commit that returns Err: whatever survives -- the bytes the backend holds or any crash image of
     them -- reopens to the commit that was served before, or to the new commit q, completely *)
  Theorem failed_commit_all_or_nothing s two q rng pgs shrink qs fo s' D :
    io_failed (f_latch s) = false -> Inv (f_st s) -> Sem H expect ps (f_st s) D ->
    step_okb (f_st s) (PCommit two q rng pgs shrink) = true ->
    step_sem H expect (f_st s) D (PCommit two q rng pgs shrink) ->
    commit_f s two q rng pgs shrink qs fo = (s', false) ->
    exists D',
      apply_ops (trace_effects (step_trace s (mkReq (PCommit two q rng pgs shrink) false qs) fo)) (storage_of D (f_st s))
      = storage_of D' (f_st s')
      /\ forall img, CrashOf D' (p_win (f_st s')) img ->
           recover H expect ps img = Some (dP (p_d (f_st s))) \/ recover H expect ps img = Some q.
  Proof.
    intros Hf I S Hok Hsem E. unfold commit_f in E.
    set (r := mkReq (PCommit two q rng pgs shrink) false qs) in *.
    destruct (failed_step_recovers H expect ps H_tear expect_above s r fo s' D Hf I S Hok Hsem E)
      as (pre & w & post & F1 & F2 & _ & F3 & F4).
    cbn [rq_step] in F1. cbn [step_okb] in Hok. apply andb_true_iff in Hok as [Ho Hc].
    exists (image_after D pre). split; [exact F3|]. intros img HC.
    apply (commit_window_outcome H expect ps (f_st s) two q rng pgs shrink w img I Ho Hc).
    - unfold r in F1. cbn [rq_step] in F1. rewrite F1. apply in_or_app. right; left; reflexivity.
    - exact (F4 img HC).
  Qed.
End Durable.
