(* C20 -- model of the file layout arithmetic (definitions only; proofs in LayoutP.v).
   Mirrors src/tree_store/page_store/layout.rs (RegionLayout, DatabaseLayout),
   base.rs (PageNumber::address_range, page_size_bytes),
   header.rs (UnrepairedDatabaseHeader::layout_from_file_len) and the guards of
   page_manager.rs (mark_page_allocated).  All numbers are N: the model has no overflow; the
   `*_pre` predicates name the domain on which the Rust code neither overflows nor asserts.      *)
From Coq Require Import List NArith Bool.
From RV Require Import Gen.Consts.
Import ListNotations.
Open Scope N_scope.

Record region_layout := mkRL { rl_num_pages : N; rl_header_pages : N; rl_page_size : N }.

Record db_layout := mkDL {
  dl_full : region_layout;                 (* full_region_layout *)
  dl_num_full : N;                         (* num_full_regions *)
  dl_trailing : option region_layout       (* trailing_partial_region *)
}.

Definition round_up_to_multiple_of (value multiple : N) : N :=
  if value mod multiple =? 0 then value else value + multiple - value mod multiple.

(* RegionLayout *)
Definition rl_usable (r : region_layout) : N := rl_page_size r * rl_num_pages r.
Definition rl_data_start (r : region_layout) : N := rl_header_pages r * rl_page_size r.
Definition rl_len (r : region_layout) : N := rl_header_pages r * rl_page_size r + rl_usable r.

Definition rl_calculate (desired cap hdr ps : N) : region_layout :=
  mkRL (round_up_to_multiple_of desired ps / ps) hdr ps.

(* DatabaseLayout::calculate *)
Definition dl_calculate (desired cap hdr ps : N) : db_layout :=
  let full := mkRL cap hdr ps in
  if desired <=? rl_usable full then
    mkDL full 0 (Some (rl_calculate desired cap hdr ps))
  else
    let fr := desired / rl_usable full in
    let rem := desired - fr * rl_usable full in
    mkDL full fr (if 0 <? rem then Some (rl_calculate rem cap hdr ps) else None).

(* DatabaseLayout::recalculate *)
Definition dl_recalculate (file_len hdr cap ps : N) : db_layout :=
  let remaining := file_len - ps in
  let frs := (hdr + cap) * ps in
  let fr := remaining / frs in
  let remaining := remaining - fr * frs in
  let trailing :=
    if (hdr + 1) * ps <=? remaining
    then Some (mkRL ((remaining - hdr * ps) / ps) hdr ps)
    else None in
  mkDL (mkRL cap hdr ps) fr trailing.

Definition dl_num_regions (L : db_layout) : N :=
  match dl_trailing L with Some _ => dl_num_full L + 1 | None => dl_num_full L end.

Definition dl_region_layout (L : db_layout) (region : N) : region_layout :=
  if region =? dl_num_full L
  then match dl_trailing L with Some t => t | None => dl_full L end
  else dl_full L.

Definition dl_region_base (L : db_layout) (region : N) : N :=
  rl_page_size (dl_full L) + region * rl_len (dl_full L).

Definition dl_len (L : db_layout) : N :=
  let last := dl_num_regions L - 1 in
  dl_region_base L last + rl_len (dl_region_layout L last).

Definition dl_usable (L : db_layout) : N :=
  dl_num_full L * rl_usable (dl_full L) +
  match dl_trailing L with Some t => rl_usable t | None => 0 end.

(* DatabaseLayout::reduce_last_region *)
Definition dl_reduce_last (L : db_layout) (pages : N) : db_layout :=
  match dl_trailing L with
  | Some t =>
      let n := rl_num_pages t - pages in
      mkDL (dl_full L) (dl_num_full L)
           (if n =? 0 then None else Some (mkRL n (rl_header_pages t) (rl_page_size t)))
  | None =>
      let f := dl_full L in
      mkDL f (dl_num_full L - 1)
           (if pages <? rl_num_pages f
            then Some (mkRL (rl_num_pages f - pages) (rl_header_pages f) (rl_page_size f))
            else None)
  end.

(* two layouts that describe the same file: a trailing region that has grown to full size is the
   same thing as one more full region (recalculate returns the latter) *)
Definition dl_norm (L : db_layout) : db_layout :=
  match dl_trailing L with
  | Some t => if rl_num_pages t =? rl_num_pages (dl_full L)
              then mkDL (dl_full L) (dl_num_full L + 1) None else L
  | None => L
  end.

(* UnrepairedDatabaseHeader::layout_from_file_len *)
Definition layout_from_file_len (file_len hdr cap ps : N) : option db_layout :=
  let frs := (hdr + cap) * ps in
  if ps + MAX_REGIONS * frs <? file_len then None
  else if file_len <? ps * (hdr + 2) then None
  else
    let L := dl_recalculate file_len hdr cap ps in
    if dl_len L =? file_len then Some L else None.

(* ---- pages ---- *)

Record page_number := mkPN { pn_region : N; pn_index : N; pn_order : N }.

Definition page_size_bytes (p : page_number) (ps : N) : N := 2 ^ pn_order p * ps.

(* PageNumber::address_range(data_section_offset, region_size, region_pages_start, page_size) *)
Definition address_range (p : page_number) (dso rsize rstart ps : N) : N * N :=
  let regional_start := rstart + pn_index p * page_size_bytes p ps in
  let start := dso + pn_region p * rsize + regional_start in
  (start, start + page_size_bytes p ps).

(* the arguments TransactionalMemory passes: page_size, full_region_layout().len(),
   full_region_layout().data_section().start, page_size *)
Definition mem_address_range (L : db_layout) (p : page_number) : N * N :=
  let f := dl_full L in
  address_range p (rl_page_size f) (rl_len f) (rl_data_start f) (rl_page_size f).

(* block of order-0 page indices covered by a page inside its region *)
Definition blk_start (p : page_number) : N := pn_index p * 2 ^ pn_order p.
Definition blk_end (p : page_number) : N := (pn_index p + 1) * 2 ^ pn_order p.

(* the guard of mark_page_allocated: region exists and the block ends inside the region *)
Definition in_layoutb (L : db_layout) (p : page_number) : bool :=
  (pn_region p <? dl_num_regions L) &&
  (blk_end p <=? rl_num_pages (dl_region_layout L (pn_region p))).

Definition in_layout (L : db_layout) (p : page_number) : Prop :=
  pn_region p < dl_num_regions L /\
  blk_end p <= rl_num_pages (dl_region_layout L (pn_region p)).

Definition valid_layout (L : db_layout) : Prop :=
  0 < rl_page_size (dl_full L) /\
  0 < rl_num_pages (dl_full L) /\
  0 < dl_num_regions L /\
  match dl_trailing L with
  | Some t => rl_header_pages t = rl_header_pages (dl_full L) /\
              rl_page_size t = rl_page_size (dl_full L) /\
              0 < rl_num_pages t <= rl_num_pages (dl_full L)
  | None => True
  end.

Definition valid_layoutb (L : db_layout) : bool :=
  (0 <? rl_page_size (dl_full L)) && (0 <? rl_num_pages (dl_full L)) &&
  (0 <? dl_num_regions L) &&
  match dl_trailing L with
  | Some t => (rl_header_pages t =? rl_header_pages (dl_full L)) &&
              (rl_page_size t =? rl_page_size (dl_full L)) &&
              (0 <? rl_num_pages t) && (rl_num_pages t <=? rl_num_pages (dl_full L))
  | None => true
  end.

Definition ranges_disjoint (a b : N * N) : Prop := snd a <= fst b \/ snd b <= fst a.
Definition blocks_disjoint (p q : page_number) : Prop :=
  blk_end p <= blk_start q \/ blk_end q <= blk_start p.
Definition block_within (p q : page_number) : Prop :=
  blk_start q <= blk_start p /\ blk_end p <= blk_end q.
