(* C08 fault-aware commit model: C01's executable commit / close / open / recovery PROTOCOL (Storage/Protocol.v)
   run through the I/O latch `CheckedBackend` (Storage/Latch.v) under an ARBITRARY failure oracle.

   Every operation the protocol model emits (Backend.op: write / set_len / sync_data) is a call of a latched
   method of CheckedBackend; between them the code issues read / len calls (the transaction layer reading
   pages, `resize` asking for the length): `rq_qs` says how many, an oracle.  Writes issued by an eviction step
   (PEvict) may be best-effort writeback (`write_best_effort`: flush_buffered_pages) -- `rq_be`.
   The fault oracle `fo : nat -> fate` gives the backend's answer to the i-th call of the step SHOULD it reach the
   backend: FOk, or FFail keep -- the call fails; a failing write has stored its first `keep` bytes (0 = nothing,
   >= length = everything although it reported an error); a failing set_len / sync_data / read / len has no effect.

   step_f runs ALL calls of the step through Latch.lrun: that a call issued after a failed required call does not
   reach the backend is the latch's doing (LatchP), not built in.  The step reports Ok iff every required call
   returned Ok (`?` on every Result in TransactionalMemory::commit, grow, begin_writable, ...); it is refused
   without any call when the latch is already set (check_io_errors at the head of commit / non_durable_commit /
   begin_write / flush_shutdown_header).
   The state after a failed step is the CUT of the fault-free run: the summary of the durable image at the last
   sync_data that completed, and the operations the storage received since (the torn prefix of a failing write
   included).  Definitions only; proofs in FaultCommitP.v. *)
From RV Require Import Base.Bytes Gen.Consts Storage.Backend Storage.Header Storage.Window Storage.Protocol
  Storage.Latch.

(* ---------- the fault oracle ---------- *)

Inductive fate : Type :=
| FOk
| FFail (keep : nat).

Definition fate_ok (f : fate) : bool := match f with FOk => true | FFail _ => false end.
Definition keep_of (f : fate) : nat := match f with FOk => O | FFail n => n end.

(* a backend call: (best-effort writeback?, Some o = write / set_len / sync_data | None = read / len) *)
Definition call : Type := (bool * option op)%type.

(* the operation type Latch.v is instantiated with: the call, and what a failure of it would store *)
Definition lop : Type := (option op * nat)%type.

Definition wcall_of (c : call) (f : fate) : wcall lop * bool :=
  ((if fst c then WBestEffort (snd c, keep_of f) else WOp (snd c, keep_of f)), fate_ok f).

Fixpoint wcalls (cs : list call) (fo : nat -> fate) (i : nat) : list (wcall lop * bool) :=
  match cs with
  | [] => []
  | c :: r => wcall_of c (fo i) :: wcalls r fo (S i)
  end.

(* what a failing call leaves in the storage *)
Definition torn (o : option op) (n : nat) : list op :=
  match o, n with
  | Some (Write off data), S _ => [Write off (firstn n data)]
  | _, _ => []
  end.

(* what an event that reached the backend did to the storage *)
Definition ev_effect (e : bev lop) : list op :=
  match e with
  | BOp (Some o, _) true => [o]
  | BOp (None, _) true => []
  | BOp (o, n) false => torn o n
  | BClose => []
  end.
Definition trace_effects (t : list (bev lop)) : list op := flat_map ev_effect t.

(* the operations that completed / the torn remains of the failed ones *)
Definition applied (t : list (bev lop)) : list op :=
  flat_map (fun e => match e with BOp (Some o, _) true => [o] | _ => [] end) t.
Definition torn_part (t : list (bev lop)) : list op :=
  flat_map (fun e => match e with BOp (o, n) false => torn o n | _ => [] end) t.

(* the storage semantics Latch.v's `storage_after` is instantiated with (a failed call has no effect there) *)
Definition lop_apply (D : image) (o : lop) : image :=
  match fst o with Some x => apply_op x D | None => D end.

(* ---------- requests ---------- *)

Record freq : Type := mkReq {
  rq_step : pstep;      (* the protocol step: PCommit two q rng pages shrink = a durable commit request, ... *)
  rq_be : bool;         (* PEvict only: the page writes are best-effort writeback *)
  rq_qs : list nat      (* nth i: number of read / len calls issued before the i-th operation of the step;
                           nth (number of operations): after the last one *)
}.

Definition is_evict (s : pstep) : bool := match s with PEvict _ => true | _ => false end.

Fixpoint interleave (be : bool) (qs : list nat) (ops : list op) : list call :=
  match ops with
  | [] => repeat (false, None) (hd O qs)
  | o :: r => repeat (false, None) (hd O qs) ++ (be, Some o) :: interleave be (tl qs) r
  end.

Definition req_be (r : freq) : bool := is_evict (rq_step r) && rq_be r.

Definition step_calls (st : pst) (r : freq) : list call :=
  interleave (req_be r) (rq_qs r) (a_ops (run_step st (rq_step r))).

(* ---------- running a list of calls ---------- *)

Definition required_ok (c : call) (r : wres) : bool :=
  fst c || match r with ROk => true | _ => false end.

Fixpoint all_required_ok (cs : list call) (rs : list wres) : bool :=
  match cs, rs with
  | [], _ => true
  | c :: cs', r :: rs' => required_ok c r && all_required_ok cs' rs'
  | _ :: _, [] => false
  end.

(* index of the first REQUIRED call that fails (should it be reached) *)
Fixpoint first_fail (cs : list call) (fo : nat -> fate) (i : nat) : option nat :=
  match cs with
  | [] => None
  | c :: r => if fst c || fate_ok (fo i) then first_fail r fo (S i) else Some i
  end.

(* ---------- the cut of a fault-free run ---------- *)

(* the stream  w1.ops ; Sync ; w2.ops ; Sync ; ... ; last.ops  cut after n operations: the window the cut falls
   in and the operations of that window before the cut.  A cut right after a sync_data falls in the next window *)
Fixpoint cut_at (ws : list wrec) (last : wrec) (n : nat) : wrec * list op :=
  match ws with
  | [] => (last, firstn n (w_ops last))
  | w :: r => if (n <=? length (w_ops w))%nat then (w, firstn n (w_ops w))
              else cut_at r last (n - S (length (w_ops w)))
  end.

Definition cut_pst (mem : hdrm) (rfs opn : bool) (ws : list wrec) (last : wrec) (n : nat) (tl : list op) : pst :=
  let '(w, A) := cut_at ws last n in mkPst (w_sum w) (A ++ tl) mem rfs opn.

(* the protocol state after the trace t of a failed step: summary of the last durable image, what the storage
   received since; the in-memory header is the one before the step (commit publishes it only at its end) *)
Definition cut_state (st : pst) (a : acc) (t : list (bev lop)) : pst :=
  cut_pst (p_mem st) (p_rfs st) (p_open st) (a_ws a) (open_window (a_st a))
          (length (p_win st) + length (applied t)) (torn_part t).

(* ---------- one step under faults ---------- *)

Record fstate : Type := mkF { f_st : pst; f_latch : lstate }.

Definition f_init (st : pst) : fstate := mkF st l_init.

Definition step_f (s : fstate) (r : freq) (fo : nat -> fate) : fstate * bool :=
  if io_failed (f_latch s) then (s, false)
  else
    let st := f_st s in
    let a := run_step st (rq_step r) in
    let cs := step_calls st r in
    let lr := lrun lop (f_latch s) (wcalls cs fo O) in
    let t := l_trace lop lr in
    let ok := all_required_ok cs (l_results lop lr) in
    let st' :=
      if is_evict (rq_step r)
      then mkPst (p_d st) (p_win st ++ trace_effects t) (p_mem st) (p_rfs st) (p_open st)
      else if ok then a_st a else cut_state st a t in
    (mkF st' (l_state lop lr), ok).

(* WriteTransaction::commit at the level of TransactionalMemory::commit: a durable commit request *)
Definition commit_f (s : fstate) (two : bool) (q : bytes) (rng : list range) (pages : list (N * bytes))
           (shrink : option (N * bytes)) (qs : list nat) (fo : nat -> fate) : fstate * bool :=
  step_f s (mkReq (PCommit two q rng pages shrink) false qs) fo.

(* Drop for Database -> close_database: quick-repair commit, flush, clean flag.  The result is not observable
   (Drop returns nothing); `true` = every call succeeded *)
Definition close_f (s : fstate) (q : bytes) (rng : list range) (pages : list (N * bytes))
           (shrink : option (N * bytes)) (qs : list nat) (fo : nat -> fate) : fstate * bool :=
  step_f s (mkReq (PClose q rng pages shrink) false qs) fo.

(* a history: each request with its own fault oracle; the results of all steps *)
Fixpoint steps_f (s : fstate) (rs : list (freq * (nat -> fate))) : fstate * list bool :=
  match rs with
  | [] => (s, [])
  | (r, fo) :: rest =>
      let '(s1, b) := step_f s r fo in
      let '(s2, bs) := steps_f s1 rest in
      (s2, b :: bs)
  end.

(* the step a best-effort eviction effectively performed: the pages as far as they reached the storage *)
Definition unpage (l : list op) : list (N * bytes) :=
  flat_map (fun o => match o with Write off data => [(off, data)] | _ => [] end) l.

(* ---------- recovery (TransactionalMemory::new + Database::new on a crash image) under faults ---------- *)

(* a fresh CheckedBackend (the latch is clear), the image summarised by d; Some (state, opened without error) *)
Definition recovery_f (d : dsum) (o : roracle) (qs : list nat) (fo : nat -> fate) : option (fstate * bool) :=
  match recovery_run d o with
  | None => None
  | Some a =>
      let cs := interleave false qs (a_ops a) in
      let lr := lrun lop l_init (wcalls cs fo O) in
      let t := l_trace lop lr in
      let ok := all_required_ok cs (l_results lop lr) in
      let m0 := parse_hdr (d_hdr d) in
      let st' := if ok then a_st a
                 else cut_pst m0 false false (a_ws a) (open_window (a_st a)) (length (applied t)) (torn_part t) in
      Some (mkF st' (l_state lop lr), ok)
  end.

(* ---------- what S2 compares: the verdict of a run with one failing call ---------- *)

(* the k-th call fails, once or from then on; a failing write keeps `keep` bytes *)
Definition fail_at (k : nat) (permanent : bool) (keep : nat) : nat -> fate :=
  fun i => if (i =? k)%nat || (permanent && (k <? i)%nat) then FFail keep else FOk.

(* number of sync windows of the fault-free run that completed before the cut (S2 compares it) *)
Fixpoint nwindows_before (ws : list wrec) (n : nat) : nat :=
  match ws with
  | [] => O
  | w :: r => if (n <=? length (w_ops w))%nat then O else S (nwindows_before r (n - S (length (w_ops w))))
  end.

(* the events of a step that reached the backend, and the storage as the protocol state sees it: the durable
   image D at the last completed sync_data plus the operations received since *)
Definition step_trace (s : fstate) (r : freq) (fo : nat -> fate) : list (bev lop) :=
  l_trace lop (lrun lop (f_latch s) (wcalls (step_calls (f_st s) r) fo O)).
Definition storage_of (D : image) (st : pst) : image := apply_ops (p_win st) D.

(* the storage operations among a list of calls *)
Definition ops_of (cs : list call) : list op :=
  flat_map (fun c : call => match snd c with Some o => [o] | None => [] end) cs.

(* the calls and the backend events of a recovery run *)
Definition recovery_calls (a : acc) (qs : list nat) : list call := interleave false qs (a_ops a).
Definition recovery_trace (a : acc) (qs : list nat) (fo : nat -> fate) : list (bev lop) :=
  l_trace lop (lrun lop l_init (wcalls (recovery_calls a qs) fo O)).

(* everything the storage received along a history *)
Fixpoint steps_effects (s : fstate) (rs : list (freq * (nat -> fate))) : list op :=
  match rs with
  | [] => []
  | (r, fo) :: rest => trace_effects (step_trace s r fo) ++ steps_effects (fst (step_f s r fo)) rest
  end.
