(* Cache layer proofs, part 1: bytes of the backend, association lists, sums, the checked backend call *)
From RV Require Import Base.Bytes Storage.Backend Storage.BackendP Storage.Latch Storage.Cache Storage.CacheInv.
Local Open Scope N_scope.

(* ================================================================== bytes of the backend *)
Lemma blen_eq b : blen b = N.of_nat (length b).
Proof. reflexivity. Qed.

Lemma fget_nth f i : fget f i = nth (N.to_nat i) f 0.
Proof. reflexivity. Qed.

Lemma fget_beyond f i : blen f <= i -> fget f i = 0.
Proof. unfold fget, blen. intros H. apply nth_overflow. lia. Qed.

Lemma in_file_spec f off len : in_file f off len = true <-> off + len <= blen f.
Proof. unfold in_file. apply N.leb_le. Qed.

Lemma blen_fwrite f off d : in_file f off (blen d) = true -> blen (fwrite f off d) = blen f.
Proof.
  rewrite in_file_spec. unfold blen, fwrite. intros H.
  rewrite !app_length, firstn_length, skipn_length. lia.
Qed.

Lemma fget_fwrite f off d i : in_file f off (blen d) = true ->
  fget (fwrite f off d) i = if covers off d i then wbyte off d i else fget f i.
Proof.
  rewrite in_file_spec. unfold blen. intros H. unfold fget, fwrite, covers, wbyte, wlen.
  assert (L1 : length (firstn (N.to_nat off) f) = N.to_nat off) by (rewrite firstn_length; lia).
  destruct (off <=? i) eqn:E1; simpl.
  - apply N.leb_le in E1.
    destruct (i <? off + N.of_nat (length d)) eqn:E2.
    + apply N.ltb_lt in E2.
      rewrite app_nth2 by lia. rewrite L1. rewrite app_nth1 by lia.
      f_equal. lia.
    + apply N.ltb_ge in E2.
      rewrite app_nth2 by lia. rewrite L1. rewrite app_nth2 by lia.
      destruct (Nat.lt_ge_cases (N.to_nat i) (length f)) as [Hlt|Hge].
      * rewrite <- (firstn_skipn (N.to_nat off + length d) f) at 2.
        rewrite (app_nth2 (firstn _ f)) by (rewrite firstn_length; lia).
        rewrite firstn_length. f_equal. lia.
      * rewrite !nth_overflow; auto. rewrite skipn_length. lia.
  - apply N.leb_gt in E1. rewrite app_nth1 by lia.
    rewrite <- (firstn_skipn (N.to_nat off) f) at 2. rewrite app_nth1 by lia. reflexivity.
Qed.

Lemma blen_fresize f n : blen (fresize f n) = n.
Proof.
  unfold blen, fresize. rewrite app_length, firstn_length, repeat_length. lia.
Qed.

Lemma fget_fresize f n i : fget (fresize f n) i = if i <? N.min (blen f) n then fget f i else 0.
Proof.
  unfold fget, fresize, blen.
  destruct (i <? N.min (N.of_nat (length f)) n) eqn:E.
  - apply N.ltb_lt in E.
    rewrite app_nth1 by (rewrite firstn_length; lia).
    rewrite <- (firstn_skipn (N.to_nat n) f) at 2. rewrite app_nth1 by (rewrite firstn_length; lia). reflexivity.
  - apply N.ltb_ge in E.
    destruct (Nat.lt_ge_cases (N.to_nat i) (length (firstn (N.to_nat n) f))) as [Hlt|Hge].
    + rewrite firstn_length in Hlt. lia.
    + rewrite app_nth2 by lia.
      destruct (Nat.lt_ge_cases (N.to_nat i - length (firstn (N.to_nat n) f)) (length (repeat 0 (N.to_nat n - length f)))) as [H1|H1].
      * apply nth_repeat.
      * apply nth_overflow. lia.
Qed.

Lemma nth_firstn_lt {A} (l : list A) n j d : (j < n)%nat -> nth j (firstn n l) d = nth j l d.
Proof.
  revert n j; induction l as [|x l IH]; intros n j H.
  - rewrite firstn_nil. reflexivity.
  - destruct n; [lia|]. destruct j; simpl; auto. apply IH. lia.
Qed.

Lemma nth_skipn {A} (l : list A) n j d : nth j (skipn n l) d = nth (n + j) l d.
Proof.
  revert l; induction n as [|n IH]; intros l; simpl; auto.
  destruct l; simpl; auto. destruct j; reflexivity.
Qed.

Lemma fread_rd f off len : in_file f off len = true -> fread f off len = rd (fget f) off (N.to_nat len).
Proof.
  rewrite in_file_spec. unfold blen. intros H.
  apply nth_ext with (d := 0) (d' := 0).
  - unfold fread. rewrite rd_length, firstn_length, skipn_length. lia.
  - intros j Hj. unfold fread in *. rewrite firstn_length, skipn_length in Hj.
    rewrite nth_firstn_lt by lia. rewrite nth_skipn. rewrite nth_rd by lia.
    unfold fget. f_equal. lia.
Qed.

Lemma fread_length f off len : in_file f off len = true -> blen (fread f off len) = len.
Proof.
  intros H. rewrite fread_rd by auto. unfold blen. rewrite rd_length. lia.
Qed.

Lemma zeros_blen len : blen (zeros len) = len.
Proof. unfold blen, zeros. rewrite repeat_length. lia. Qed.

Lemma agrees_rd I o d : agrees I o d -> rd (iat I) o (length d) = d.
Proof.
  intros H. apply nth_ext with (d := 0) (d' := 0).
  - apply rd_length.
  - intros j Hj. rewrite rd_length in Hj. rewrite nth_rd by auto.
    rewrite <- H.
    + unfold wbyte. f_equal. lia.
    + apply covers_spec. unfold wlen. lia.
Qed.

Lemma rd_agrees g I o n : (forall i, o <= i < o + N.of_nat n -> g i = iat I i) -> agrees I o (rd g o n).
Proof.
  intros H i Hc. apply covers_spec in Hc. unfold wlen in Hc. rewrite rd_length in Hc.
  unfold wbyte. rewrite nth_rd by lia. replace (o + N.of_nat (N.to_nat (i - o))) with i by lia. apply H. lia.
Qed.

Lemma agrees_ext I I' o d : (forall i, covers o d i = true -> iat I' i = iat I i) -> agrees I o d -> agrees I' o d.
Proof. intros E H i Hc. rewrite E by auto. apply H; auto. Qed.

(* ================================================================== association lists *)
Section AssocP.
Context {A : Type}.
Implicit Types l : list (N * A).

Lemma alookup_In k v l : alookup k l = Some v -> In (k, v) l.
Proof.
  induction l as [|[k' v'] l IH]; simpl; [discriminate|].
  destruct (k' =? k) eqn:E.
  - apply N.eqb_eq in E. intros [= ->]. subst. auto.
  - auto.
Qed.

Lemma alookup_None k l : alookup k l = None <-> ~ In k (map fst l).
Proof.
  induction l as [|[k' v'] l IH]; simpl; [tauto|].
  destruct (k' =? k) eqn:E.
  - apply N.eqb_eq in E. split; [discriminate|]. intros H. exfalso. apply H. auto.
  - apply N.eqb_neq in E. rewrite IH. tauto.
Qed.

Lemma In_alookup k v l : NoDup (map fst l) -> In (k, v) l -> alookup k l = Some v.
Proof.
  induction l as [|[k' v'] l IH]; simpl; [tauto|].
  intros ND [H|H].
  - inversion H; subst. rewrite N.eqb_refl. reflexivity.
  - inversion ND as [|? ? Hn ND']; subst.
    destruct (k' =? k) eqn:E.
    + apply N.eqb_eq in E. subst. exfalso. apply Hn. apply in_map_iff. exists (k, v). auto.
    + auto.
Qed.

Lemma In_aremove k k' v l : In (k', v) (aremove k l) <-> In (k', v) l /\ k' <> k.
Proof.
  unfold aremove. rewrite filter_In. simpl. rewrite negb_true_iff, N.eqb_neq. tauto.
Qed.

Lemma NoDup_map_filter (f : N * A -> bool) l : NoDup (map fst l) -> NoDup (map fst (filter f l)).
Proof.
  induction l as [|x l IH]; simpl; auto. intros ND. inversion ND as [|? ? Hn ND']; subst.
  destruct (f x); simpl; auto. constructor; auto.
  intros H. apply Hn. apply in_map_iff in H as [y [E Hy]]. apply filter_In in Hy as [Hy _].
  apply in_map_iff. exists y. auto.
Qed.

Lemma NoDup_aremove k l : NoDup (map fst l) -> NoDup (map fst (aremove k l)).
Proof. apply NoDup_map_filter. Qed.

Lemma aremove_notin k l : ~ In k (map fst (aremove k l)).
Proof.
  intros H. apply in_map_iff in H as [[k' v] [E H]]. simpl in E. subst.
  apply In_aremove in H. tauto.
Qed.

Lemma NoDup_aset k v l : NoDup (map fst l) -> NoDup (map fst (aset k v l)).
Proof.
  intros ND. unfold aset. simpl. constructor.
  - apply aremove_notin.
  - apply NoDup_aremove; auto.
Qed.

Lemma In_aset k v k' v' l : In (k', v') (aset k v l) <-> (k' = k /\ v' = v) \/ (In (k', v') l /\ k' <> k).
Proof.
  unfold aset. simpl. rewrite In_aremove. split.
  - intros [H|H]; [inversion H; auto|auto].
  - intros [[-> ->]|H]; auto.
Qed.

Lemma alookup_aremove_same k l : alookup k (aremove k l) = None.
Proof. apply alookup_None. apply aremove_notin. Qed.

Lemma alookup_aremove_other k k' l : k' <> k -> alookup k' (aremove k l) = alookup k' l.
Proof.
  intros Hn. induction l as [|[k2 v2] l IH]; simpl; auto.
  destruct (k2 =? k) eqn:E; simpl.
  - apply N.eqb_eq in E. subst. destruct (k =? k') eqn:E2; auto. apply N.eqb_eq in E2. congruence.
  - rewrite IH. reflexivity.
Qed.

Lemma alookup_filter_None (f : N * A -> bool) k l : alookup k l = None -> alookup k (filter f l) = None.
Proof.
  rewrite !alookup_None. intros H H2. apply H. apply in_map_iff in H2 as [y [E Hy]].
  apply filter_In in Hy as [Hy _]. apply in_map_iff. exists y; auto.
Qed.

End AssocP.

Lemma memN_In k l : memN k l = true <-> In k l.
Proof.
  unfold memN. rewrite existsb_exists. split.
  - intros [x [H E]]. apply N.eqb_eq in E. subst. auto.
  - intros H. exists k. split; auto. apply N.eqb_refl.
Qed.

Lemma filter_id {A} (f : A -> bool) l : (forall x, In x l -> f x = true) -> filter f l = l.
Proof.
  induction l as [|x l IH]; simpl; auto. intros H. rewrite (H x (or_introl eq_refl)). f_equal. apply IH. auto.
Qed.

(* ================================================================== sums *)
Lemma sum_rc_aremove k d l : NoDup (map fst l) -> In (k, d) l -> sum_rc l = blen d + sum_rc (aremove k l).
Proof.
  induction l as [|[k' d'] l IH]; simpl; [tauto|].
  intros ND [H|H]; inversion ND as [|? ? Hn ND']; subst.
  - inversion H; subst. rewrite N.eqb_refl. simpl. f_equal.
    assert (E : aremove k l = l).
    { unfold aremove. apply filter_id. intros [k2 d2] H2. simpl.
      apply negb_true_iff. apply N.eqb_neq. intros ->. apply Hn. apply in_map_iff. exists (k, d2). auto. }
    fold (aremove k l). rewrite E. reflexivity.
  - destruct (k' =? k) eqn:E; simpl.
    + apply N.eqb_eq in E. subst. exfalso. apply Hn. apply in_map_iff. exists (k, d). auto.
    + fold (aremove k l). rewrite (IH ND' H). lia.
Qed.

Lemma sum_rc_filter_le (f : N * bytes -> bool) l : sum_rc (filter f l) <= sum_rc l.
Proof.
  induction l as [|x l IH]; simpl; [lia|]. destruct (f x); simpl; lia.
Qed.

Lemma sum_rc_filter_split (f : N * bytes -> bool) l :
  sum_rc l = sum_rc (filter f l) + sum_rc (filter (fun p => negb (f p)) l).
Proof.
  induction l as [|x l IH]; simpl; [lia|]. destruct (f x); simpl; lia.
Qed.

Lemma sum_rc_pos_in l : (forall o d, In (o, d) l -> 0 < blen d) -> sum_rc l = 0 -> l = [].
Proof.
  destruct l as [|[o d] l]; auto. intros H. simpl. specialize (H o d (or_introl eq_refl)). lia.
Qed.

(* ================================================================== the checked backend *)
Lemma req_failed_app a b : req_failed (a ++ b) = req_failed a || req_failed b.
Proof. unfold req_failed. apply existsb_app. Qed.

Definition same_caches (s s' : state) : Prop :=
  rc s' = rc s /\ wb s' = wb s /\ rc_bytes s' = rc_bytes s /\ wb_bytes s' = wb_bytes s /\ cpb s' = cpb s /\
  nstripe s' = nstripe s.

Lemma bcall_step_spec s o be c s' o' evs r :
  bcall_step s o be c = (s', o', evs, r) ->
  same_caches s s' /\ closed (latch s') = closed (latch s) /\
  ( (io_failed (latch s) = true /\ s' = s /\ o' = o /\ evs = [] /\ wres_ok r = false /\ r <> RIo)
  \/ (io_failed (latch s) = false /\ exists inj, next_bok o = (inj, o') /\ fst (bexec (file s) c inj) = true /\
        file s' = snd (bexec (file s) c inj) /\ latch s' = latch s /\ evs = [mkEv c true be] /\ r = ROk)
  \/ (io_failed (latch s) = false /\ exists inj, next_bok o = (inj, o') /\ fst (bexec (file s) c inj) = false /\
        file s' = file s /\ io_failed (latch s') = negb be /\ evs = [mkEv c false be] /\ r = RIo) ).
Proof.
  unfold bcall_step, check_failure, same_caches.
  destruct s as [f [iof cl] rc0 wb0 rcb wbb cp ns]; simpl.
  destruct iof.
  - intros [= <- <- <- <-]. simpl. repeat split; auto. left. repeat split; auto.
    + destruct cl; reflexivity.
    + destruct cl; discriminate.
  - destruct (next_bok o) as [inj o1] eqn:Eb.
    destruct (bexec f c inj) as [ok f'] eqn:Ex.
    assert (Hf : ok = false -> f' = f).
    { intros ->. destruct c; cbv beta iota zeta delta [bexec] in Ex.
      - injection Ex as _ E2. auto.
      - injection Ex as _ E2. auto.
      - injection Ex as E1 E2. rewrite E1 in E2. auto.
      - injection Ex as E1 E2. rewrite E1 in E2. auto.
      - injection Ex as _ E2. auto. }
    unfold lstep, check_failure; simpl.
    destruct be, ok; simpl; intros [= <- <- <- <-]; simpl; (split; [repeat split; auto|]); (split; [reflexivity|]); right.
    + left. split; auto. exists inj. rewrite Ex. repeat split; auto.
    + right. split; auto. exists inj. rewrite Ex. repeat split; auto.
    + left. split; auto. exists inj. rewrite Ex. repeat split; auto.
    + right. split; auto. exists inj. rewrite Ex. repeat split; auto.
Qed.
