(* C02(b)/C08 -- model of redb's page cache / write buffer
   `PagedCachedFile` + `CheckedBackend` + `LRUWriteCache`  (src/tree_store/page_store/cached_file.rs).
   Definitions only (proofs in CacheP.v).  Total, executable, extractable.

   What is modelled, function by function (names as in the Rust source):
     CheckedBackend::{len,read,write,set_len,sync_data,write_best_effort}   -> bcall_step (through Latch.lstep)
     LRUCache::pop_lowest_priority (read cache stripe)                       -> evict_stripe (oracle pick)
     LRUWriteCache::pop_lowest_priority (skips pages taken by a WritablePage)-> flush_lowest (oracle pick / give-up)
     PagedCachedFile::evict_from_read_cache                                  -> evict_from_read_cache
     PagedCachedFile::flush_lowest_priority (Required | BestEffort)          -> flush_lowest
     PagedCachedFile::flush_buffered_pages (try_lock per stripe, BestEffort) -> flush_buffered_pages
     PagedCachedFile::read                                                   -> read_op
     PagedCachedFile::write  / Drop for WritablePage                         -> write_op / drop_op
     PagedCachedFile::flush_write_buffer                                     -> flush_stripes 0 131 ; flush_end
        (one atomic step per stripe = one critical section of the stripe mutex, so that other calls can be
         interleaved between the steps; the flag is cleared by the LAST step, after the drain)
     PagedCachedFile::flush = flush_write_buffer ; sync_data                 -> OFlush
     sync_file, write_barrier, discard_write_buffer, resize (+invalidate_read_cache_above), read_direct,
     cancel_pending_write, invalidate_cache, invalidate_cache_all, close, check_io_errors, raw_file_len.

   Nondeterminism is explicit: every call takes an `oracle`
     rpicks : which key LRUCache::pop_lowest_priority returns in a read-cache stripe (the second-chance LRU order is
              abstracted to an arbitrary choice among the entries of the stripe), also the HashMap iteration order
              of flush_write_buffer;
     wpicks : the same for the write-buffer stripes;
     giveup : stripes in which LRUWriteCache::pop_lowest_priority may return None although an evictable page is
              present (possible only while a page of that stripe is taken by a WritablePage);
     locks  : outcomes of Mutex::try_lock on the other write-buffer stripes (a concurrent holder);
     boks   : the answer of the storage backend to each call that reaches it (false = the call fails, no effect).
   The backend is a byte array; a read/write outside it fails (like the harness backend).
   Not modelled: the cache_metrics counters; usize wrap-around of the counters and of next_eviction_stripe;
   partial effects of a panicking call (a call that panics in the Rust code returns `Panic` here and the
   theorems exclude it through the usage protocol).                                                        *)
From RV Require Import Base.Bytes Storage.Backend Storage.Latch.

Definition STRIPES : N := 131.
Definition NSTRIPES : nat := 131.
Definition stripe (off : N) : N := off mod STRIPES.

Inductive hint := HNone | HClean.
Inductive wbmode := Required | BestEffort.
Definition is_be (m : wbmode) : bool := match m with BestEffort => true | Required => false end.
Definition is_clean (h : hint) : bool := match h with HClean => true | HNone => false end.

(* ------------------------------------------------------------------ the backend: a byte array *)
Inductive bcall :=
| BLen
| BRead (off len : N)
| BWrite (off : N) (data : bytes)
| BSetLen (n : N)
| BSync.

(* a call that reached the backend: the call, its outcome, whether it was issued as write_best_effort *)
Record ev := mkEv { e_call : bcall; e_ok : bool; e_be : bool }.

Definition blen (b : bytes) : N := N.of_nat (length b).
Definition fget (f : bytes) (i : N) : N := nth (N.to_nat i) f 0.
Definition fread (f : bytes) (off len : N) : bytes := firstn (N.to_nat len) (skipn (N.to_nat off) f).
Definition fwrite (f : bytes) (off : N) (d : bytes) : bytes :=
  firstn (N.to_nat off) f ++ d ++ skipn (N.to_nat off + length d) f.
Definition fresize (f : bytes) (n : N) : bytes :=
  firstn (N.to_nat n) f ++ repeat 0 (N.to_nat n - length f).
Definition in_file (f : bytes) (off len : N) : bool := off + len <=? blen f.
Definition zeros (len : N) : bytes := repeat 0 (N.to_nat len).

(* the backend executes call `c`; `inj` = the oracle's answer (false: injected failure) *)
Definition bexec (f : bytes) (c : bcall) (inj : bool) : bool * bytes :=
  match c with
  | BLen => (inj, f)
  | BRead off len => (inj && in_file f off len, f)
  | BWrite off d => let ok := inj && in_file f off (blen d) in (ok, if ok then fwrite f off d else f)
  | BSetLen n => (inj, if inj then fresize f n else f)
  | BSync => (inj, f)
  end.

(* ------------------------------------------------------------------ oracle *)
Record oracle := mkO {
  rpicks : list N; wpicks : list N; giveup : list N; locks : list bool; boks : list bool }.
Definition o_none : oracle := mkO [] [] [] [] [].
Definition next_lock (o : oracle) : bool * oracle :=
  match locks o with
  | [] => (true, o)
  | b :: r => (b, mkO (rpicks o) (wpicks o) (giveup o) r (boks o))
  end.
Definition next_bok (o : oracle) : bool * oracle :=
  match boks o with
  | [] => (true, o)
  | b :: r => (b, mkO (rpicks o) (wpicks o) (giveup o) (locks o) r)
  end.
Definition memN (k : N) (l : list N) : bool := existsb (N.eqb k) l.
Definition picks_for (st : N) (l : list N) : list N := filter (fun k => stripe k =? st) l.

(* ------------------------------------------------------------------ association lists keyed by offset *)
Section Assoc.
Context {A : Type}.
Fixpoint alookup (k : N) (l : list (N * A)) : option A :=
  match l with
  | [] => None
  | (k', v) :: r => if k' =? k then Some v else alookup k r
  end.
Definition aremove (k : N) (l : list (N * A)) : list (N * A) :=
  filter (fun p => negb (fst p =? k)) l.
Definition aset (k : N) (v : A) (l : list (N * A)) : list (N * A) := (k, v) :: aremove k l.
End Assoc.

Definition is_some {A} (x : option A) : bool := match x with Some _ => true | None => false end.

(* ------------------------------------------------------------------ state *)
Record config := mkC { page_size : N; max_cache : N }.

Record state := mkS {
  file : bytes;                       (* the backend's bytes *)
  latch : lstate;                     (* CheckedBackend::{io_failed, closed} *)
  rc : list (N * bytes);              (* read_cache, all stripes (stripe of an entry = key mod 131) *)
  wb : list (N * option bytes);       (* write_buffer, all stripes; None = taken by an outstanding WritablePage *)
  rc_bytes : N;                       (* read_cache_bytes *)
  wb_bytes : N;                       (* write_buffer_bytes *)
  cpb : bool;                         (* committed_pages_buffered *)
  nstripe : N                         (* next_eviction_stripe *)
}.
Definition init_state (f : bytes) : state := mkS f l_init [] [] 0 0 false 0.

Definition set_file s x := mkS x (latch s) (rc s) (wb s) (rc_bytes s) (wb_bytes s) (cpb s) (nstripe s).
Definition set_latch s x := mkS (file s) x (rc s) (wb s) (rc_bytes s) (wb_bytes s) (cpb s) (nstripe s).
Definition set_rc s x := mkS (file s) (latch s) x (wb s) (rc_bytes s) (wb_bytes s) (cpb s) (nstripe s).
Definition set_wb s x := mkS (file s) (latch s) (rc s) x (rc_bytes s) (wb_bytes s) (cpb s) (nstripe s).
Definition set_rcb s x := mkS (file s) (latch s) (rc s) (wb s) x (wb_bytes s) (cpb s) (nstripe s).
Definition set_wbb s x := mkS (file s) (latch s) (rc s) (wb s) (rc_bytes s) x (cpb s) (nstripe s).
Definition set_cpb s x := mkS (file s) (latch s) (rc s) (wb s) (rc_bytes s) (wb_bytes s) x (nstripe s).
Definition set_nstripe s x := mkS (file s) (latch s) (rc s) (wb s) (rc_bytes s) (wb_bytes s) (cpb s) x.

Definition wres_ok (r : wres) : bool := match r with ROk => true | _ => false end.

(* one call entering CheckedBackend: refused by the latch, or executed by the backend (answer from the oracle) *)
Definition bcall_step (s : state) (o : oracle) (be : bool) (c : bcall) : state * oracle * list ev * wres :=
  match check_failure (latch s) with
  | Some e => (s, o, [], e)
  | None =>
      let '(inj, o') := next_bok o in
      let '(ok, f') := bexec (file s) c inj in
      let '(l', _, r) := lstep bcall (latch s) (if be then WBestEffort c else WOp c) ok in
      (set_file (set_latch s l') f', o', [mkEv c ok be], r)
  end.

(* ------------------------------------------------------------------ read cache *)
Definition rc_cands (st : N) (s : state) : list N :=
  map fst (filter (fun p => stripe (fst p) =? st) (rc s)).

(* LRUCache::insert: returns the replaced value *)
Definition rc_insert (s : state) (k : N) (d : bytes) : state * option bytes :=
  (set_rc s (aset k d (rc s)), alookup k (rc s)).

(* the inner `while freed < bytes_needed { pop_lowest_priority }` of one read-cache stripe;
   pl = the oracle's picks for this stripe *)
Fixpoint evict_stripe (fuel : nat) (st needed freed : N) (pl : list N) (s : state) : state * N :=
  match fuel with
  | O => (s, freed)
  | S f =>
      if needed <=? freed then (s, freed) else
      match rc_cands st s with
      | [] => (s, freed)
      | c0 :: _ =>
          let k := match pl with p :: _ => if memN p (rc_cands st s) then p else c0 | [] => c0 end in
          match alookup k (rc s) with
          | None => (s, freed)
          | Some d =>
              evict_stripe f st needed (freed + blen d) (tl pl)
                (set_rcb (set_rc s (aremove k (rc s))) (rc_bytes s - blen d))
          end
      end
  end.

Fixpoint evict_stripes (n : nat) (start i needed freed : N) (pl : list N) (s : state) : state :=
  match n with
  | O => s
  | S n' =>
      if needed <=? freed then s else
      let st := (start + i) mod STRIPES in
      let '(s', freed') := evict_stripe (length (rc s)) st needed freed (picks_for st pl) s in
      evict_stripes n' start (i + 1) needed freed' pl s'
  end.

Definition evict_from_read_cache (needed : N) (pl : list N) (s : state) : state :=
  let start := nstripe s mod STRIPES in
  evict_stripes NSTRIPES start 0 needed 0 pl (set_nstripe s (nstripe s + 1)).

(* ------------------------------------------------------------------ write buffer *)
Definition wb_cands (st : N) (s : state) : list N :=
  map fst (filter (fun p => (stripe (fst p) =? st) && is_some (snd p)) (wb s)).
Definition has_taken (st : N) (s : state) : bool :=
  existsb (fun p => (stripe (fst p) =? st) && negb (is_some (snd p))) (wb s).

(* flush_lowest_priority on stripe st: returns (state, oracle, events, Ok/Err, bytes flushed) *)
Fixpoint flush_lowest (fuel : nat) (st needed flushed : N) (pl : list N) (gu : bool) (mode : wbmode)
                      (s : state) (o : oracle) : state * oracle * list ev * wres * N :=
  match fuel with
  | O => (s, o, [], ROk, flushed)
  | S f =>
      if needed <=? flushed then (s, o, [], ROk, flushed) else
      match wb_cands st s with
      | [] => (s, o, [], ROk, flushed)
      | c0 :: _ =>
          match (match pl with
                 | p :: _ => Some (if memN p (wb_cands st s) then p else c0)
                 | [] => if gu && has_taken st s then None else Some c0
                 end) with
          | None => (s, o, [], ROk, flushed)           (* pop_lowest_priority found nothing evictable *)
          | Some k =>
              match alookup k (wb s) with
              | Some (Some d) =>
                  let s1 := set_wb s (aremove k (wb s)) in                    (* popped *)
                  let '(s2, o2, e2, r2) := bcall_step s1 o (is_be mode) (BWrite k d) in
                  if wres_ok r2 then
                    let s3 := set_wbb s2 (wb_bytes s2 - blen d) in
                    let '(s4, o4, e4, r4, fl4) := flush_lowest f st needed (flushed + blen d) (tl pl) gu mode s3 o2 in
                    (s4, o4, e2 ++ e4, r4, fl4)
                  else
                    (set_wb s2 ((k, Some d) :: wb s2), o2, e2, r2, flushed)   (* stripe.insert(offset, buffer); result? *)
              | _ => (s, o, [], ROk, flushed)
              end
          end
      end
  end.

Definition flush_lowest_priority (st needed : N) (mode : wbmode) (s : state) (o : oracle) :=
  flush_lowest (length (wb s)) st needed 0 (picks_for st (wpicks o)) (memN st (giveup o)) mode s o.

(* flush_buffered_pages: stripes start, start+1, ... with try_lock, BestEffort; the first error ends it *)
Fixpoint fbp_loop (n : nat) (start i needed flushed : N) (s : state) (o : oracle)
  : state * oracle * list ev * wres * N :=
  match n with
  | O => (s, o, [], ROk, flushed)
  | S n' =>
      if needed <=? flushed then (s, o, [], ROk, flushed) else
      let st := (start + i) mod STRIPES in
      let '(lk, o1) := next_lock o in
      if lk then
        let '(s2, o2, e2, r2, fl) := flush_lowest_priority st (needed - flushed) BestEffort s o1 in
        if wres_ok r2 then
          let '(s3, o3, e3, r3, fl3) := fbp_loop n' start (i + 1) needed (flushed + fl) s2 o2 in
          (s3, o3, e2 ++ e3, r3, fl3)
        else (s2, o2, e2, r2, flushed)
      else fbp_loop n' start (i + 1) needed flushed s o1
  end.

Definition flush_buffered_pages (needed : N) (s : state) (o : oracle) :=
  let start := nstripe s mod STRIPES in
  fbp_loop NSTRIPES start 0 needed 0 (set_nstripe s (nstripe s + 1)) o.

(* the `for i in 1..stripes` loop of write(): the other stripes, try_lock, Required *)
Fixpoint flush_others (n : nat) (own i excess : N) (s : state) (o : oracle) : state * oracle * list ev * wres :=
  match n with
  | O => (s, o, [], ROk)
  | S n' =>
      let other := (own + i) mod STRIPES in
      let '(lk, o1) := next_lock o in
      if lk then
        let '(s2, o2, e2, r2, fl) := flush_lowest_priority other excess Required s o1 in
        if wres_ok r2 then
          let excess' := excess - fl in
          if excess' =? 0 then (s2, o2, e2, ROk) else
          let '(s3, o3, e3, r3) := flush_others n' own (i + 1) excess' s2 o2 in
          (s3, o3, e2 ++ e3, r3)
        else (s2, o2, e2, r2)
      else flush_others n' own (i + 1) excess s o1
  end.

(* ------------------------------------------------------------------ results of the public calls *)
Inductive res :=
| Done                    (* Ok(()) *)
| Data (b : bytes)        (* Ok(page bytes) *)
| Len (n : N)             (* Ok(len) *)
| Err (e : wres)          (* Err(StorageError) *)
| Panic.                  (* the Rust code panics (unwrap of a taken page, assert) *)

(* ------------------------------------------------------------------ read *)
(* the miss path of read(): backend read, best-effort reclaim, insert, evict from this stripe *)
Definition read_miss (c : config) (s : state) (off len : N) (o : oracle) : state * list ev * res :=
  let '(s1, o1, e1, r1) := bcall_step s o false (BRead off len) in
  if negb (wres_ok r1) then (s1, e1, Err r1) else
  let buf := fread (file s1) off len in
  (* best-effort reclaim of committed pages left in the write buffer *)
  let '(s2, o2, e2) :=
    if cpb s1 && (max_cache c <? rc_bytes s1 + len + wb_bytes s1) then
      let '(s', o', e', _, _) := flush_buffered_pages len s1 o1 in (s', o', e')
    else (s1, o1, []) in
  let cache_size := rc_bytes s2 in
  let '(s3, rep) := rc_insert (set_rcb s2 (cache_size + len)) off buf in
  let '(s4, cache_size') :=
    match rep with
    | Some r => (set_rcb s3 (rc_bytes s3 - blen r), rc_bytes s3)
    | None => (s3, cache_size)
    end in
  let s5 :=
    if max_cache c <? cache_size' + len + wb_bytes s4 then
      fst (evict_stripe (length (rc s4)) (stripe off) len 0 (picks_for (stripe off) (rpicks o2)) s4)
    else s4 in
  (s5, e1 ++ e2, Data buf).

(* copy a committed, buffered page into the read cache when it fits *)
Definition clean_copy (c : config) (s : state) (off len : N) (d : bytes) : state :=
  if rc_bytes s + len <=? max_cache c then
    let '(s', rep) := rc_insert (set_rcb s (rc_bytes s + len)) off d in
    match rep with Some r => set_rcb s' (rc_bytes s' - blen r) | None => s' end
  else s.

Definition read_op (c : config) (s : state) (off len : N) (h : hint) (o : oracle) : state * list ev * res :=
  match (match h with HNone => alookup off (wb s) | HClean => None end) with
  | Some None => (s, [], Panic)                                  (* LRUWriteCache::get unwraps a taken page *)
  | Some (Some d) => (s, [], Data d)
  | None =>
  match alookup off (rc s) with
  | Some d => (s, [], Data d)
  | None =>
  match (if is_clean h && cpb s then alookup off (wb s) else None) with
  | Some None => (s, [], Panic)
  | Some (Some d) => (clean_copy c s off len d, [], Data d)
  | None => read_miss c s off len o
  end end end.

(* ------------------------------------------------------------------ write / drop of the WritablePage *)
(* write() of a page that is not in the write buffer; s0 = the state after the read-cache entry `existing` was removed *)
Definition write_miss (c : config) (s0 : state) (existing : option bytes) (off len : N) (ow : bool) (o : oracle)
  : state * list ev * res :=
  let s1 := set_wbb s0 (wb_bytes s0 + len) in
  let half := max_cache c / 2 in
  (* rule 1: hold the write buffer at or below half of the budget *)
  let '(s2, o2, e2, r2) :=
    if half <? wb_bytes s1 then
      let excess := wb_bytes s1 - half in
      let '(sa, oa, ea, ra, fl) := flush_lowest_priority (stripe off) excess Required s1 o in
      if negb (wres_ok ra) then (sa, oa, ea, ra) else
      let excess' := excess - fl in
      if 0 <? excess' then
        let '(sb, ob, eb, rb) := flush_others (NSTRIPES - 1) (stripe off) 1 excess' sa oa in
        (sb, ob, ea ++ eb, rb)
      else (sa, oa, ea, ROk)
    else (s1, o, [], ROk) in
  if negb (wres_ok r2) then (s2, e2, Err r2) else
  (* rules 2 + 3 *)
  let s3 :=
    if max_cache c <? wb_bytes s2 + rc_bytes s2 then
      evict_from_read_cache (wb_bytes s2 + rc_bytes s2 - max_cache c) (rpicks o2) s2
    else s2 in
  let '(s4, e4, r4, data) :=
    match existing with
    | Some r => (s3, [], ROk, r)
    | None =>
        if ow then (s3, [], ROk, zeros len) else
        let '(sr, _, er, rr) := bcall_step s3 o2 false (BRead off len) in
        (sr, er, rr, fread (file sr) off len)
    end in
  if negb (wres_ok r4) then (s4, e2 ++ e4, Err r4) else
  (set_wb s4 ((off, None) :: wb s4), e2 ++ e4, Data data).                (* insert; take_value *)

Definition write_op (c : config) (s : state) (off len : N) (ow : bool) (o : oracle) : state * list ev * res :=
  if negb (off mod page_size c =? 0) then (s, [], Panic) else
  let existing := alookup off (rc s) in
  if (match existing with Some r => negb (blen r =? len) | None => false end) then (s, [], Panic) else
  let s0 := match existing with
            | Some r => set_rcb (set_rc s (aremove off (rc s))) (rc_bytes s - blen r)
            | None => s end in
  match alookup off (wb s0) with
  | Some None => (s0, [], Panic)                                           (* take_value of a taken page *)
  | Some (Some d) => (set_wb s0 (aset off None (wb s0)), [], Data d)      (* take_value *)
  | None => write_miss c s0 existing off len ow o
  end.

(* Drop for WritablePage: return_value(offset, data) *)
Definition drop_op (s : state) (off : N) (data : bytes) : state * list ev * res :=
  match alookup off (wb s) with
  | Some None => (set_wb s (aset off (Some data) (wb s)), [], Done)
  | _ => (s, [], Panic)
  end.

(* ------------------------------------------------------------------ flush_write_buffer, one stripe at a time *)
(* the order in which the stripe's HashMap is iterated: the picks first, then the rest *)
Fixpoint take_picks (pl : list N) (cands : list N) : list N :=
  match pl with
  | [] => cands
  | p :: r => if memN p cands then p :: take_picks r (filter (fun k => negb (k =? p)) cands) else take_picks r cands
  end.

Fixpoint fs_writes (keys : list N) (s : state) (o : oracle) : state * oracle * list ev * wres :=
  match keys with
  | [] => (s, o, [], ROk)
  | k :: r =>
      match alookup k (wb s) with
      | Some (Some d) =>
          let '(s1, o1, e1, r1) := bcall_step s o false (BWrite k d) in
          if wres_ok r1 then
            let '(s2, o2, e2, r2) := fs_writes r s1 o1 in (s2, o2, e1 ++ e2, r2)
          else (s1, o1, e1, r1)
      | _ => fs_writes r s o
      end
  end.

Fixpoint fs_transfer (c : config) (keys : list N) (s : state) : state :=
  match keys with
  | [] => s
  | k :: r =>
      match alookup k (wb s) with
      | Some (Some d) =>
          let len := blen d in
          let cache_size := rc_bytes s in
          let s1 := set_rcb s (cache_size + len) in
          let s2 :=
            if cache_size + len <=? max_cache c then
              let '(s', rep) := rc_insert s1 k d in
              match rep with Some x => set_rcb s' (rc_bytes s' - blen x) | None => s' end
            else set_rcb s1 (rc_bytes s1 - len) in
          fs_transfer c r (set_wbb s2 (wb_bytes s2 - len))
      | _ => fs_transfer c r s
      end
  end.

Definition in_stripe {A} (st : N) (p : N * A) : bool := stripe (fst p) =? st.

Definition flush_stripe (c : config) (st : N) (s : state) (o : oracle) : state * oracle * list ev * res :=
  if has_taken st s then (s, o, [], Panic) else           (* buffer.as_ref().unwrap() *)
  let keys := take_picks (picks_for st (wpicks o)) (wb_cands st s) in
  let '(s1, o1, e1, r1) := fs_writes keys s o in
  if negb (wres_ok r1) then (s1, o1, e1, Err r1) else
  let s2 := fs_transfer c keys s1 in
  (set_wb s2 (filter (fun p => negb (in_stripe st p)) (wb s2)), o1, e1, Done).

Fixpoint flush_stripes (c : config) (n : nat) (st : N) (s : state) (o : oracle) : state * oracle * list ev * res :=
  match n with
  | O => (s, o, [], Done)
  | S n' =>
      let '(s1, o1, e1, r1) := flush_stripe c st s o in
      match r1 with
      | Done => let '(s2, o2, e2, r2) := flush_stripes c n' (st + 1) s1 o1 in (s2, o2, e1 ++ e2, r2)
      | _ => (s1, o1, e1, r1)
      end
  end.

Definition sync_step (s : state) (o : oracle) : state * list ev * res :=
  let '(s1, _, e1, r1) := bcall_step s o false BSync in
  (s1, e1, if wres_ok r1 then Done else Err r1).

(* ------------------------------------------------------------------ the calls *)
Inductive op :=
| ORead (off len : N) (h : hint)
| OWrite (off len : N) (ow : bool)
| ODrop (off : N) (data : bytes)
| OFlushStripes (j k : N)         (* stripes j <= st < k of flush_write_buffer *)
| OFlushEnd                       (* committed_pages_buffered.store(false) at the end of flush_write_buffer *)
| OSync                           (* sync_file(); also the tail of flush() *)
| OFlush                          (* flush() = flush_write_buffer()?; sync_data() *)
| OBarrier
| ODiscard
| OInvalidate (off len : N)
| OInvalidateAll
| OCancel (off len : N)
| OResize (n : N)
| OReadDirect (off len : N)
| OLen
| OCheckIo
| OClose.

Definition sum_some (l : list (N * option bytes)) : N :=
  fold_right (fun p acc => match snd p with Some d => blen d + acc | None => acc end) 0 l.
Definition sum_rc (l : list (N * bytes)) : N := fold_right (fun p acc => blen (snd p) + acc) 0 l.

Definition step (c : config) (s : state) (x : op) (o : oracle) : state * list ev * res :=
  match x with
  | ORead off len h => read_op c s off len h o
  | OWrite off len ow => write_op c s off len ow o
  | ODrop off data => drop_op s off data
  | OFlushStripes j k =>
      let '(s1, _, e1, r1) := flush_stripes c (N.to_nat (k - j)) j s o in (s1, e1, r1)
  | OFlushEnd => (set_cpb s false, [], Done)
  | OSync => sync_step s o
  | OFlush =>
      let '(s1, o1, e1, r1) := flush_stripes c NSTRIPES 0 s o in
      match r1 with
      | Done => let '(s2, e2, r2) := sync_step (set_cpb s1 false) o1 in (s2, e1 ++ e2, r2)
      | _ => (s1, e1, r1)
      end
  | OBarrier => (if 0 <? wb_bytes s then set_cpb s true else s, [], Done)
  | ODiscard =>
      let s1 := set_cpb s false in
      if existsb (fun p => negb (is_some (snd p))) (wb s) then (s1, [], Panic) else
      (set_wbb (set_wb s1 []) (wb_bytes s1 - sum_some (wb s1)), [], Done)
  | OInvalidate off len =>
      match alookup off (rc s) with
      | Some r => if blen r =? len
                  then (set_rcb (set_rc s (aremove off (rc s))) (rc_bytes s - blen r), [], Done)
                  else (s, [], Panic)
      | None => (s, [], Done)
      end
  | OInvalidateAll => (set_rcb (set_rc s []) (rc_bytes s - sum_rc (rc s)), [], Done)
  | OCancel off _ =>
      if negb (off mod page_size c =? 0) then (s, [], Panic) else
      match alookup off (wb s) with
      | Some None => (s, [], Panic)
      | Some (Some d) => (set_wbb (set_wb s (aremove off (wb s))) (wb_bytes s - blen d), [], Done)
      | None => (s, [], Done)
      end
  | OResize n =>
      let '(s1, o1, e1, r1) := bcall_step s o false BLen in
      if negb (wres_ok r1) then (s1, e1, Err r1) else
      let old_len := blen (file s1) in
      let s2 :=
        if n <? old_len then
          let stale := filter (fun p => n <=? fst p) (rc s1) in
          set_rcb (set_rc s1 (filter (fun p => negb (n <=? fst p)) (rc s1))) (rc_bytes s1 - sum_rc stale)
        else s1 in
      let '(s3, _, e3, r3) := bcall_step s2 o1 false (BSetLen n) in
      (s3, e1 ++ e3, if wres_ok r3 then Done else Err r3)
  | OReadDirect off len =>
      let '(s1, _, e1, r1) := bcall_step s o false (BRead off len) in
      (s1, e1, if wres_ok r1 then Data (fread (file s1) off len) else Err r1)
  | OLen =>
      let '(s1, _, e1, r1) := bcall_step s o false BLen in
      (s1, e1, if wres_ok r1 then Len (blen (file s1)) else Err r1)
  | OCheckIo =>
      (s, [], match check_failure (latch s) with Some e => Err e | None => Done end)
  | OClose =>
      (* CheckedBackend::close: latches both flags; the backend's close is not one of the modelled calls *)
      (set_latch s (mkL true true), [], Done)
  end.

Fixpoint run (c : config) (s : state) (p : list (op * oracle)) : state * list (list ev * res) :=
  match p with
  | [] => (s, [])
  | (x, o) :: r =>
      let '(s1, e1, r1) := step c s x o in
      let '(s2, l2) := run c s1 r in
      (s2, (e1, r1) :: l2)
  end.

(* ------------------------------------------------------------------ the usage protocol (ghost state) *)
(* What the callers of PagedCachedFile (page_manager.rs) guarantee; a predicate on the call sequence only. *)
Record ghost := mkG {
  g_rc : list (N * N);        (* ranges (offset, len) that may be in the read cache *)
  g_wb : list (N * N);        (* ranges that may be in the write buffer: written since the last flush/discard, not cancelled *)
  g_out : list (N * N);       (* ranges with an outstanding WritablePage *)
  g_unc : list N;             (* offsets written since the last write_barrier / flush (dirty, uncommitted) *)
  g_poison : list (N * N);    (* ranges whose buffered write was dropped (cancel / discard): content undefined until rewritten *)
  g_flushing : option N;      (* Some k: flush_write_buffer in progress, stripes < k done *)
  g_len : N                   (* length of the file *)
}.
Definition g_init (flen : N) : ghost := mkG [] [] [] [] [] None flen.

Definition range_eqb (a b : N * N) : bool := (fst a =? fst b) && (snd a =? snd b).
Definition overlapb (a b : N * N) : bool := negb (disjointb (fst a) (snd a) (fst b) (snd b)).
(* every range of l is the very range r or disjoint from it *)
Definition compat (l : list (N * N)) (r : N * N) : bool :=
  forallb (fun a => range_eqb a r || negb (overlapb a r)) l.
Definition no_overlap (l : list (N * N)) (r : N * N) : bool := forallb (fun a => negb (overlapb a r)) l.
Definition radd (r : N * N) (l : list (N * N)) : list (N * N) :=
  if existsb (range_eqb r) l then l else r :: l.
Definition rdel (r : N * N) (l : list (N * N)) : list (N * N) := filter (fun a => negb (range_eqb a r)) l.
Definition inside (a r : N * N) : bool := (fst r <=? fst a) && (fst a + snd a <=? fst r + snd r).

Definition proto_step (c : config) (g : ghost) (x : op) : option ghost :=
  match x with
  | ORead off len h =>
      let r := (off, len) in
      if (0 <? len) && (off + len <=? g_len g) && compat (g_rc g) r && compat (g_wb g) r
         && no_overlap (g_out g) r && no_overlap (g_poison g) r
         && (if is_clean h then negb (memN off (g_unc g)) else true)
      then Some (mkG (radd r (g_rc g)) (g_wb g) (g_out g) (g_unc g) (g_poison g) (g_flushing g) (g_len g))
      else None
  | OWrite off len ow =>
      let r := (off, len) in
      if negb (is_some (g_flushing g)) && (0 <? len) && (off mod page_size c =? 0) && (off + len <=? g_len g)
         && compat (g_rc g) r && compat (g_wb g) r && no_overlap (g_out g) r
         && (ow || no_overlap (g_poison g) r)
      then Some (mkG (rdel r (g_rc g)) (radd r (g_wb g)) (r :: g_out g) (off :: g_unc g) (g_poison g) None (g_len g))
      else None
  | ODrop off data =>
      let r := (off, blen data) in
      if negb (is_some (g_flushing g)) && existsb (range_eqb r) (g_out g)
      then Some (mkG (g_rc g) (g_wb g) (rdel r (g_out g)) (g_unc g)
                     (filter (fun a => negb (inside a r)) (g_poison g)) None (g_len g))
      else None
  | OFlushStripes j k =>
      if (match g_flushing g with None => j =? 0 | Some j' => j =? j' end)
         && (j <=? k) && (k <=? STRIPES) && (match g_out g with [] => true | _ => false end)
      then Some (mkG (g_wb g ++ g_rc g) (g_wb g) (g_out g) (g_unc g) (g_poison g) (Some k) (g_len g))
      else None
  | OFlushEnd =>
      match g_flushing g with
      | Some k => if k =? STRIPES
                  then Some (mkG (g_wb g ++ g_rc g) [] (g_out g) [] (g_poison g) None (g_len g))
                  else None
      | None => None
      end
  | OSync => Some g
  | OFlush =>
      if negb (is_some (g_flushing g)) && (match g_out g with [] => true | _ => false end)
      then Some (mkG (g_wb g ++ g_rc g) [] (g_out g) [] (g_poison g) None (g_len g))
      else None
  | OBarrier =>
      if negb (is_some (g_flushing g)) && (match g_out g with [] => true | _ => false end)
      then Some (mkG (g_rc g) (g_wb g) (g_out g) [] (g_poison g) None (g_len g))
      else None
  | ODiscard =>
      if negb (is_some (g_flushing g)) && (match g_out g with [] => true | _ => false end)
      then Some (mkG (g_rc g) [] (g_out g) [] (g_wb g ++ g_poison g) None (g_len g))
      else None
  | OInvalidate off len =>
      if (0 <? len) && compat (g_rc g) (off, len)
      then Some (mkG (rdel (off, len) (g_rc g)) (g_wb g) (g_out g) (g_unc g) (g_poison g) (g_flushing g) (g_len g))
      else None
  | OInvalidateAll =>
      Some (mkG [] (g_wb g) (g_out g) (g_unc g) (g_poison g) (g_flushing g) (g_len g))
  | OCancel off len =>
      let r := (off, len) in
      if negb (is_some (g_flushing g)) && (0 <? len) && (off mod page_size c =? 0) && compat (g_wb g) r && no_overlap (g_out g) r
      then Some (mkG (g_rc g) (rdel r (g_wb g)) (g_out g) (g_unc g)
                     (if existsb (range_eqb r) (g_wb g) then r :: g_poison g else g_poison g) None (g_len g))
      else None
  | OResize n =>
      if negb (is_some (g_flushing g))
         && forallb (fun a => fst a + snd a <=? n) (g_wb g)
         && forallb (fun a => fst a + snd a <=? n) (g_out g)
         && forallb (fun a => (fst a + snd a <=? n) || (n <=? fst a)) (g_rc g)
      then Some (mkG (filter (fun a => negb (n <=? fst a)) (g_rc g)) (g_wb g) (g_out g) (g_unc g) (g_poison g) None n)
      else None
  | OReadDirect off len =>
      if (off + len <=? g_len g) && no_overlap (g_wb g) (off, len) && no_overlap (g_poison g) (off, len)
      then Some g else None
  | OLen => Some g
  | OCheckIo => Some g
  | OClose => None
  end.

(* the ghost after a call that returned an error: the call counts as not made, except that a flush that failed
   part way has already moved the pages of some stripes into the read cache *)
Definition proto_fail (g : ghost) (x : op) : ghost :=
  match x with
  | OFlush | OFlushStripes _ _ =>
      mkG (g_wb g ++ g_rc g) (g_wb g) (g_out g) (g_unc g) (g_poison g) (g_flushing g) (g_len g)
  | _ => g
  end.

Fixpoint proto_run (c : config) (g : ghost) (p : list op) : option ghost :=
  match p with
  | [] => Some g
  | x :: r => match proto_step c g x with Some g' => proto_run c g' r | None => None end
  end.
Definition protocol_ok (c : config) (flen : N) (p : list op) : bool := is_some (proto_run c (g_init flen) p).

(* ------------------------------------------------------------------ the specification: a plain array of bytes *)
(* `Backend.image` with `Backend.apply_op`: the drop of a WritablePage is a Write, resize is a SetLen. *)
Definition ideal_step (I : image) (x : op) : image :=
  match x with
  | ODrop off data => apply_op (Write off data) I
  | OResize n => apply_op (SetLen n) I
  | _ => I
  end.
Definition ideal_run (I : image) (p : list op) : image := fold_left ideal_step p I.
Definition image_of (f : bytes) : image := mkImage (blen f) (fget f).

(* what the plain array answers to call x *)
Definition spec_res (I : image) (x : op) (r : res) : Prop :=
  match x with
  | ORead off len _ => r = Data (rd (iat I) off (N.to_nat len))
  | OReadDirect off len => r = Data (rd (iat I) off (N.to_nat len))
  | OWrite off len ow =>
      exists d, r = Data d /\ blen d = len /\ (ow = false -> d = rd (iat I) off (N.to_nat len))
  | OLen => r = Len (ilen I)
  | _ => r = Done
  end.
Definition is_err (r : res) : Prop := exists e, r = Err e.

(* a required (latching) backend call failed in this trace *)
Definition req_failed (t : list ev) : bool := existsb (fun e => negb (e_ok e) && negb (e_be e)) t.
Definition is_write_ev (e : ev) : bool := match e_call e with BWrite _ _ => true | _ => false end.
Definition is_sync_ev (e : ev) : bool := match e_call e with BSync => true | _ => false end.
Definition fault_free (o : oracle) : Prop := forall b, In b (boks o) -> b = true.
