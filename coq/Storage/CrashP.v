(* Lemmas about the crash relation of Crash.v *)
From RV Require Import Base.Bytes Storage.Backend Storage.BackendP Storage.Crash.

Lemma zero_ok_mono D W W' i :
  (forall o, In o W -> In o W') -> zero_ok D W i -> zero_ok D W' i.
Proof.
  intros Hs [Hz | (n & Hin & Hn)]; [left; auto | right; exists n; auto].
Qed.

Lemma byte_cand_mono D W W' i v :
  (forall o, In o W -> In o W') -> byte_cand D W i v -> byte_cand D W' i v.
Proof.
  intros Hs [Ha | [[Hz Hv] | (off & data & Hin & Hc & Hv)]].
  - left; auto.
  - right; left; split; auto. eapply zero_ok_mono; eauto.
  - right; right. exists off, data. auto.
Qed.

Lemma len_cand_app l W l1 W2 l2 :
  len_cand l W l1 -> len_cand l1 W2 l2 -> len_cand l (W ++ W2) l2.
Proof.
  induction 1; intros H2; simpl; auto.
  - apply lc_skip; auto.
  - apply lc_set; auto.
Qed.

Lemma len_cand_skip_all l W : len_cand l W l.
Proof. induction W; [constructor | apply lc_skip; auto]. Qed.

(* the length after a crash is the durable length or the argument of a pending set_len *)
Lemma len_cand_cases l W l' : len_cand l W l' -> l' = l \/ In (SetLen l') W.
Proof.
  induction 1; auto.
  - destruct IHlen_cand; auto. right; right; auto.
  - destruct IHlen_cand as [-> | Hin]; [right; left; auto | right; right; auto].
Qed.

(* a crash while only a prefix of the window had been issued is a crash of the whole window
   (the remaining operations simply did not reach the disk) *)
Lemma crash_prefix D W k img : CrashOf D (firstn k W) img -> CrashOf D W img.
Proof.
  intros [Hl Hb]. split.
  - rewrite <- (firstn_skipn k W). eapply len_cand_app; eauto. apply len_cand_skip_all.
  - intros i Hi. eapply byte_cand_mono; [|apply Hb; auto].
    intros o Ho. rewrite <- (firstn_skipn k W). apply in_or_app; auto.
Qed.

Lemma apply_ops_snoc W o D : apply_ops (W ++ [o]) D = apply_op o (apply_ops W D).
Proof. unfold apply_ops. now rewrite fold_left_app. Qed.

Lemma apply_len W D :
  ilen (apply_ops W D) = ilen D \/ In (SetLen (ilen (apply_ops W D))) W.
Proof.
  induction W as [|o W IH] using rev_ind; [left; auto|].
  rewrite apply_ops_snoc. destruct o as [off data | n |]; simpl.
  - destruct IH as [-> | Hin]; [left; auto | right; apply in_or_app; auto].
  - right. apply in_or_app; right; left; auto.
  - destruct IH as [-> | Hin]; [left; auto | right; apply in_or_app; auto].
Qed.

(* the image reached when every operation is applied is itself one of the crash images *)
Lemma apply_is_crash W D : CrashOf D W (apply_ops W D).
Proof.
  induction W as [|o W IH] using rev_ind.
  - split; [constructor|]. intros i Hi. left; auto.
  - rewrite apply_ops_snoc. destruct IH as [Hl Hb].
    assert (Hsub : forall o', In o' W -> In o' (W ++ [o])) by (intros; apply in_or_app; auto).
    destruct o as [off data | n |]; simpl.
    + split; simpl.
      * eapply len_cand_app; eauto. apply lc_skip; constructor.
      * intros i Hi. destruct (covers off data i) eqn:Hc.
        -- right; right. exists off, data. split; [apply in_or_app; right; left; auto | auto].
        -- eapply byte_cand_mono; eauto.
    + split; simpl.
      * eapply len_cand_app; eauto. apply lc_set; constructor.
      * intros i Hi. destruct (i <? N.min (ilen (apply_ops W D)) n) eqn:Hm.
        -- apply N.ltb_lt in Hm. eapply byte_cand_mono; eauto. apply Hb. lia.
        -- apply N.ltb_ge in Hm. right; left. split; auto.
           assert (Hge : ilen (apply_ops W D) <= i) by lia.
           destruct (apply_len W D) as [E | Hin].
           ++ left. lia.
           ++ right. exists (ilen (apply_ops W D)). split; auto.
    + split; simpl.
      * eapply len_cand_app; eauto. apply lc_skip; constructor.
      * intros i Hi. eapply byte_cand_mono; eauto.
Qed.
