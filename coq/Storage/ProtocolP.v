(* C01: proofs about the protocol model of Protocol.v.
   Part 1: the header encoder against the byte-level getters of Header.v.
   Part 2: every window a protocol step emits is accepted by the validator window_okb, and the protocol
           invariant is preserved (protocol_windows_ok); the same for whole histories.
   Part 3: the summaries the protocol computes are truthful (image_ok), hence crash safety of every
           history by instantiating crash_trace_safe (protocol_crash_safe).
   Part 4: the windows of a recovery run (recovery_windows_ok). *)
From RV Require Import Base.Bytes Gen.Consts Storage.Backend Storage.BackendP Storage.Crash Storage.CrashP
  Storage.Header Storage.HeaderP Storage.Window Storage.WindowP Storage.Protocol.

(* ====================================================================================== *)
(* Part 1: enc_hdr                                                                         *)
(* ====================================================================================== *)

Lemma rd_hget_mid (a b c : bytes) :
  rd (hget (a ++ b ++ c)) (N.of_nat (length a)) (length b) = b.
Proof.
  apply (nth_ext _ _ 0 0); [apply rd_length|].
  intros j Hj. rewrite rd_length in Hj. rewrite nth_rd by auto. unfold hget.
  replace (N.to_nat (N.of_nat (length a) + N.of_nat j)) with (length a + j)%nat by lia.
  rewrite app_nth2 by lia. replace (length a + j - length a)%nat with j by lia.
  apply app_nth1; auto.
Qed.

Lemma rd_hget_at (l a b c : bytes) (off : N) (n : nat) :
  l = a ++ b ++ c -> off = N.of_nat (length a) -> n = length b -> rd (hget l) off n = b.
Proof. intros -> -> ->. apply rd_hget_mid. Qed.

Record hm_wf (m : hdrm) : Prop := mkHmWf {
  wf_geom : length (hm_geom m) = GEOM_LEN;
  wf_lay  : length (hm_layout m) = LAYOUT_LEN;
  wf_s0   : length (hm_s0 m) = SLOT_LEN;
  wf_s1   : length (hm_s1 m) = SLOT_LEN
}.

Lemma slot_wfb_spec s : slot_wfb s = true <-> length s = SLOT_LEN /\ slot_version s = FILE_FORMAT_VERSION3.
Proof. unfold slot_wfb. rewrite andb_true_iff, Nat.eqb_eq, N.eqb_eq. tauto. Qed.

Lemma hm_wfb_wf m : hm_wfb m = true -> hm_wf m.
Proof.
  unfold hm_wfb. rewrite !andb_true_iff, !Nat.eqb_eq. intros (((A & B) & C) & D).
  apply slot_wfb_spec in C, D. constructor; tauto.
Qed.

Lemma hm_wfb_versions m k : hm_wfb m = true -> slot_version (hm_slot m k) = FILE_FORMAT_VERSION3.
Proof.
  unfold hm_wfb. rewrite !andb_true_iff. intros (((A & B) & C) & D).
  apply slot_wfb_spec in C, D. destruct k; simpl; tauto.
Qed.

Lemma enc_length m : hm_wf m -> length (enc_hdr m) = HDR_LEN.
Proof.
  intros [A B C D]. unfold enc_hdr. rewrite !app_length, repeat_length, A, B, C, D. reflexivity.
Qed.

Lemma god_enc m : god (hget (enc_hdr m)) = hm_god m.
Proof. reflexivity. Qed.

Lemma magic_enc m : magic_at (hget (enc_hdr m)) = MAGICNUMBER.
Proof.
  unfold magic_at. eapply (rd_hget_at _ [] MAGICNUMBER); [simpl; reflexivity | reflexivity | reflexivity].
Qed.

Lemma geom_enc m : hm_wf m -> geom_at (hget (enc_hdr m)) = hm_geom m.
Proof.
  intros [A B C D]. unfold geom_at.
  eapply (rd_hget_at _ (MAGICNUMBER ++ [hm_god m; 0; 0]) (hm_geom m)); [|reflexivity|auto].
  unfold enc_hdr. rewrite <- !app_assoc. reflexivity.
Qed.

Lemma layout_enc m : hm_wf m -> layout_at (hget (enc_hdr m)) = hm_layout m.
Proof.
  intros [A B C D]. unfold layout_at.
  eapply (rd_hget_at _ (MAGICNUMBER ++ [hm_god m; 0; 0] ++ hm_geom m) (hm_layout m)); [| |auto].
  - unfold enc_hdr. rewrite <- !app_assoc. reflexivity.
  - rewrite !app_length, A. reflexivity.
Qed.

Lemma slot_enc m k : hm_wf m -> slot_at (hget (enc_hdr m)) k = hm_slot m k.
Proof.
  intros [A B C D]. unfold slot_at. destruct k; simpl hm_slot; simpl slot_off.
  - eapply (rd_hget_at _ (MAGICNUMBER ++ [hm_god m; 0; 0] ++ hm_geom m ++ hm_layout m ++ repeat 0 PAD_LEN ++ hm_s0 m)
                       (hm_s1 m) []); [| |auto].
    + unfold enc_hdr. rewrite <- !app_assoc, app_nil_r. reflexivity.
    + rewrite !app_length, repeat_length, A, B, C. reflexivity.
  - eapply (rd_hget_at _ (MAGICNUMBER ++ [hm_god m; 0; 0] ++ hm_geom m ++ hm_layout m ++ repeat 0 PAD_LEN)
                       (hm_s0 m) (hm_s1 m)); [| |auto].
    + unfold enc_hdr. rewrite <- !app_assoc. reflexivity.
    + rewrite !app_length, repeat_length, A, B. reflexivity.
Qed.

(* the god byte *)
Lemma flag_prim p rr t : flag (god_of p rr t) PRIMARY_BIT = p.
Proof. destruct p, rr, t; reflexivity. Qed.
Lemma flag_rr p rr t : flag (god_of p rr t) RECOVERY_REQUIRED = rr.
Proof. destruct p, rr, t; reflexivity. Qed.
Lemma flag_2pc p rr t : flag (god_of p rr t) TWO_PHASE_COMMIT = t.
Proof. destruct p, rr, t; reflexivity. Qed.

(* ====================================================================================== *)
(* Part 2: windows                                                                         *)
(* ====================================================================================== *)

Lemma abs_hdr_write m : hm_wf m -> abs (hdr_write m) = AHdr (enc_hdr m).
Proof.
  intros W. unfold hdr_write, abs, wlen. rewrite (enc_length m W). reflexivity.
Qed.

Lemma abs_page off data : DB_HEADER_SIZE <= off -> abs (Write off data) = APage off (wlen data).
Proof.
  intros Hle. unfold abs, aop_of_write.
  assert (E : off =? 0 = false) by (apply N.eqb_neq; unfold DB_HEADER_SIZE in Hle; lia).
  rewrite E. simpl. apply N.leb_le in Hle. now rewrite Hle.
Qed.

(* ---------- the operations of an open window ---------- *)

Lemma win_okb_app d a b : win_okb d (a ++ b) = win_okb d a && win_okb d b.
Proof. unfold win_okb. apply forallb_app. Qed.

Lemma win_pages_ok d pages : pages_okb (d_rp d) pages = true -> win_okb d (page_writes pages) = true.
Proof.
  unfold pages_okb, win_okb, page_writes. rewrite !forallb_forall. intros Hp o Ho.
  apply in_map_iff in Ho as ((off, data) & <- & Hin). simpl. apply (Hp _ Hin).
Qed.

Lemma win_hdrs d w : win_okb d w = true -> hdrs (map abs w) = [].
Proof.
  induction w as [|o w IH]; simpl; auto. intros E. apply andb_true_iff in E as [E1 E2].
  destruct o as [off data|n|]; try discriminate.
  - unfold page_okb in E1. simpl in E1. apply andb_true_iff in E1 as [E1 _]. apply N.leb_le in E1.
    rewrite (abs_page _ _ E1). simpl. auto.
  - simpl. auto.
Qed.

Lemma win_shape d w : win_okb d w = true -> c_shape (map abs w) = true.
Proof.
  induction w as [|o w IH]; simpl; auto. intros E. apply andb_true_iff in E as [E1 E2].
  destruct o as [off data|n|]; try discriminate.
  - unfold page_okb in E1. simpl in E1. apply andb_true_iff in E1 as [E1 _]. apply N.leb_le in E1.
    rewrite (abs_page _ _ E1). simpl. auto.
  - simpl. auto.
Qed.

Lemma win_pages d w r :
  win_okb d w = true -> In r (pages (map abs w)) ->
  forallb (fun x : range => disjointb (fst r) (snd r) (fst x) (snd x)) (d_rp d) = true.
Proof.
  induction w as [|o w IH]; simpl; [tauto|]. intros E. apply andb_true_iff in E as [E1 E2].
  destruct o as [off data|n|]; try discriminate.
  - unfold page_okb in E1. simpl in E1. apply andb_true_iff in E1 as [E1 E3]. apply N.leb_le in E1.
    rewrite (abs_page _ _ E1). simpl. intros [<- | Hin]; auto.
  - simpl. auto.
Qed.

Lemma win_setlens d w n :
  win_okb d w = true -> In n (setlens (map abs w)) -> len_okb d n = true /\ within (d_rp d) n = true.
Proof.
  induction w as [|o w IH]; simpl; [tauto|]. intros E. apply andb_true_iff in E as [E1 E2].
  destruct o as [off data|m|]; try discriminate.
  - unfold page_okb in E1. simpl in E1. apply andb_true_iff in E1 as [E1 E3]. apply N.leb_le in E1.
    rewrite (abs_page _ _ E1). simpl. auto.
  - simpl. intros [<- | Hin]; auto. now apply andb_true_iff in E1.
Qed.

Lemma win_no_setlens d w : win_okb d w = true -> setlens (map abs w) = [] -> next_len d (map abs w) = d_len d.
Proof. intros _ E. unfold next_len. now rewrite E. Qed.

Lemma pages_app a b : pages (a ++ b) = pages a ++ pages b.
Proof. unfold pages. apply flat_map_app. Qed.

(* the three projections of a window that ends with one header write *)
Section OneHeader.
  Variables (d : dsum) (pre : list op) (m : hdrm).
  Hypothesis Hwf : hm_wf m.
  Hypothesis Hpre : win_okb d pre = true.
  Local Notation aw := (map abs (pre ++ [hdr_write m])).

  Lemma oh_hdrs : hdrs aw = [enc_hdr m].
  Proof.
    rewrite map_app, hdrs_app, (win_hdrs _ _ Hpre).
    change (map abs [hdr_write m]) with [abs (hdr_write m)]. now rewrite (abs_hdr_write m Hwf).
  Qed.
  Lemma oh_pages : pages aw = pages (map abs pre).
  Proof.
    rewrite map_app, pages_app.
    change (map abs [hdr_write m]) with [abs (hdr_write m)]. rewrite (abs_hdr_write m Hwf). simpl. apply app_nil_r.
  Qed.
  Lemma oh_setlens : setlens aw = setlens (map abs pre).
  Proof.
    rewrite map_app, setlens_app.
    change (map abs [hdr_write m]) with [abs (hdr_write m)]. rewrite (abs_hdr_write m Hwf). simpl. apply app_nil_r.
  Qed.
  Lemma oh_wgod : wgod d aw = hm_god m.
  Proof. unfold wgod. rewrite oh_hdrs. apply god_enc. Qed.
  Lemma oh_wq : wq d aw = hm_slot m (negb (d_p d)).
  Proof. unfold wq. rewrite oh_hdrs. now apply slot_enc. Qed.
  Lemma oh_shape : c_shape aw = true.
  Proof.
    unfold c_shape. rewrite map_app, forallb_app. fold (c_shape (map abs pre)).
    rewrite (win_shape _ _ Hpre).
    change (map abs [hdr_write m]) with [abs (hdr_write m)]. now rewrite (abs_hdr_write m Hwf).
  Qed.
  Lemma oh_next_hdr : next_hdr d aw = enc_hdr m.
  Proof. unfold next_hdr. now rewrite oh_hdrs. Qed.
  Lemma oh_next_len : next_len d aw = next_len d (map abs pre).
  Proof. unfold next_len. now rewrite oh_setlens. Qed.
End OneHeader.

(* ---------- the conditions of window_okb that do not depend on the kind of window ---------- *)

Section Generic.
  Variable d : dsum.
  Let dh := hget (d_hdr d).
  Hypothesis Hhl : length (d_hdr d) = HDR_LEN.
  Hypothesis Hlen : len_okb d (d_len d) = true.
  Hypothesis Hrp : within (d_rp d) (d_len d) = true.

  Lemma g_cow aw pre :
    win_okb d pre = true -> pages aw = pages (map abs pre) -> setlens aw = setlens (map abs pre) ->
    c_cow d aw = true.
  Proof.
    intros Hpre Ep Es. unfold c_cow, untouched, lens_of. rewrite Ep, Es. apply andb_true_iff. split.
    - apply forallb_forall. intros r Hr. exact (win_pages _ _ _ Hpre Hr).
    - apply forallb_forall. intros l [<- | Hl]; [exact Hrp|].
      destruct (win_setlens _ _ _ Hpre Hl) as [_ B]. exact B.
  Qed.

  Lemma g_lens aw pre :
    win_okb d pre = true -> setlens aw = setlens (map abs pre) -> c_lens d aw = true.
  Proof.
    intros Hpre Es. unfold c_lens, lens_of. rewrite Es. apply forallb_forall.
    intros l [<- | Hl]; [exact Hlen|]. destruct (win_setlens _ _ _ Hpre Hl) as [A _]. exact A.
  Qed.

  (* a window of page writes and set_len only *)
  Lemma window_plain_ok pre :
    win_okb d pre = true ->
    slot_version (dP d) = FILE_FORMAT_VERSION3 -> slot_version (dQ d) = FILE_FORMAT_VERSION3 ->
    c_rr d (map abs pre) = true -> c_leaves d (map abs pre) = true ->
    window_okb d (map abs pre) true = true.
  Proof.
    intros Hpre VP VQ Hrr Hlv. unfold window_okb.
    assert (Eh : hdrs (map abs pre) = []) by (eapply win_hdrs; eauto).
    rewrite Hhl, Nat.eqb_refl, (win_shape _ _ Hpre), Hrr, Hlv,
      (g_cow _ pre Hpre eq_refl eq_refl), (g_lens _ pre Hpre eq_refl).
    unfold c_static, c_uniform, c_versions, c_new, wq. rewrite Eh. cbn [forallb].
    rewrite VP, VQ, !N.eqb_refl, orb_true_r. reflexivity.
  Qed.

  (* a window that ends with one header write *)
  Lemma window_hdr_ok pre m :
    win_okb d pre = true -> hm_wfb m = true ->
    magic_at dh = MAGICNUMBER -> geom_at dh = hm_geom m -> dP d = hm_slot m (d_p d) ->
    slot_version (dQ d) = FILE_FORMAT_VERSION3 ->
    c_rr d (map abs (pre ++ [hdr_write m])) = true -> c_leaves d (map abs (pre ++ [hdr_write m])) = true ->
    window_okb d (map abs (pre ++ [hdr_write m])) true = true.
  Proof.
    intros Hpre Hwfb Emagic Egeom EP VQ Hrr Hlv. pose proof (hm_wfb_wf _ Hwfb) as Hwf.
    unfold window_okb.
    rewrite Hhl, Nat.eqb_refl, (oh_shape d pre m Hwf Hpre), Hrr, Hlv,
      (g_cow _ pre Hpre (oh_pages pre m Hwf) (oh_setlens pre m Hwf)),
      (g_lens _ pre Hpre (oh_setlens pre m Hwf)).
    assert (Est : c_static d (map abs (pre ++ [hdr_write m])) = true).
    { unfold c_static. rewrite (oh_hdrs d pre m Hwf Hpre). cbn [forallb].
      rewrite (enc_length m Hwf), Nat.eqb_refl, andb_true_r. cbn [andb].
      apply forallb_forall. intros i Hi. apply N.eqb_eq.
      apply static_idx_In in Hi as [Hi | [Hi | Hi]].
      - refine (rd_eq_inv (hget (enc_hdr m)) (hget (d_hdr d)) 0 (length MAGICNUMBER) _ i Hi).
        change (magic_at (hget (enc_hdr m)) = magic_at dh). now rewrite magic_enc, Emagic.
      - refine (rd_eq_inv (hget (enc_hdr m)) (hget (d_hdr d)) PAGE_SIZE_OFFSET GEOM_LEN _ i Hi).
        change (geom_at (hget (enc_hdr m)) = geom_at dh). now rewrite (geom_enc m Hwf), Egeom.
      - refine (rd_eq_inv (hget (enc_hdr m)) (hget (d_hdr d)) (slot_off (d_p d)) SLOT_LEN _ i Hi).
        change (slot_at (hget (enc_hdr m)) (d_p d) = dP d). now rewrite (slot_enc m _ Hwf), EP. }
    assert (Eun : c_uniform d (map abs (pre ++ [hdr_write m])) = true).
    { unfold c_uniform. rewrite (oh_hdrs d pre m Hwf Hpre). cbn [forallb].
      unfold wgod, wq. rewrite (oh_hdrs d pre m Hwf Hpre). now rewrite N.eqb_refl, bytes_eqb_refl. }
    assert (Evs : c_versions d (map abs (pre ++ [hdr_write m])) = true).
    { unfold c_versions. rewrite (oh_wq d pre m Hwf Hpre), EP, VQ, !(hm_wfb_versions m _ Hwfb), !N.eqb_refl. reflexivity. }
    rewrite Est, Eun, Evs. unfold c_new. now rewrite orb_true_r.
  Qed.
End Generic.

(* ---------- clean flag ---------- *)

Lemma rr_both d aw :
  flag (dgod d) RECOVERY_REQUIRED = true -> flag (wgod d aw) RECOVERY_REQUIRED = true -> c_rr d aw = true.
Proof. intros A B. unfold c_rr. now rewrite A, B. Qed.

Lemma rr_clean d aw :
  setlens aw = [] ->
  (forall h, In h (hdrs aw) -> layout_at (hget h) = layout_at (hget (d_hdr d))) ->
  stored_sane (hget (d_hdr d)) = true -> stored_len (hget (d_hdr d)) = d_len d ->
  c_rr d aw = true.
Proof.
  intros Es Hl Hs Hn. unfold c_rr.
  destruct (flag (dgod d) RECOVERY_REQUIRED && flag (wgod d aw) RECOVERY_REQUIRED); auto.
  rewrite Es, Hs, Hn, N.eqb_refl, !andb_true_r. cbn [andb].
  apply forallb_forall. intros h Hh. apply bytes_eqb_eq. auto.
Qed.

(* ---------- slot selection leaves ---------- *)

Lemma qsafe_cases d :
  qsafeb d = true -> d_vq d = false \/ slot_txid (dQ d) < slot_txid (dP d) \/ dQ d = dP d.
Proof.
  unfold qsafeb. rewrite !orb_true_iff, negb_true_iff, N.ltb_lt, bytes_eqb_eq. tauto.
Qed.

(* the god byte names the served slot *)
Lemma leaf_names_p d aw gb qc :
  names_q d gb = false -> flag gb TWO_PHASE_COMMIT = true \/ qsafeb d = true -> leaf_ok d aw gb qc = true.
Proof.
  intros Hn Hs. unfold leaf_ok. rewrite Hn.
  destruct (flag gb TWO_PHASE_COMMIT) eqn:Et; [destruct qc; reflexivity|].
  destruct Hs as [Hs | Hs]; [discriminate|].
  destruct qc; auto. unfold first_is_q.
  destruct (qsafe_cases d Hs) as [E | [E | E]].
  - rewrite E. reflexivity.
  - assert (F : slot_txid (dP d) <? slot_txid (dQ d) = false) by (apply N.ltb_ge; lia).
    rewrite F, andb_false_r. reflexivity.
  - rewrite E, N.ltb_irrefl, andb_false_r. reflexivity.
Qed.

(* a god byte without the 2PC flag: recovery verifies whatever it tries first *)
Lemma leaf_1pc d aw gb qc :
  flag gb TWO_PHASE_COMMIT = false -> qsafeb d = true -> leaf_ok d aw gb qc = true.
Proof.
  intros Et Hs. destruct (names_q d gb) eqn:Hn; [|apply leaf_names_p; auto].
  unfold leaf_ok. rewrite Hn, Et. destruct qc; auto. unfold first_is_q.
  destruct (qsafe_cases d Hs) as [E | [E | E]].
  - rewrite E. reflexivity.
  - apply N.ltb_lt in E. rewrite E, andb_false_r. reflexivity.
  - apply bytes_eqb_eq in E. rewrite E. now destruct (d_vq d && negb (slot_txid (dQ d) <? slot_txid (dP d))).
Qed.

(* the second phase of a 2PC commit: the slot it promotes is durable, verified and untouched *)
Lemma leaf_2pc_yes d aw gb rq :
  flag gb TWO_PHASE_COMMIT = true -> d_vq d = true -> d_rq d = Some rq ->
  untouched rq aw (lens_of d aw) = true -> leaf_ok d aw gb QOld = true.
Proof.
  intros Et Ev Er Eu. unfold leaf_ok, old_stat. rewrite Et, Ev, Er, Eu. now rewrite orb_true_r.
Qed.

Lemma c_leaves_intro d aw :
  (forall qc, qc = QOld \/ wq d aw <> dQ d -> leaf_ok d aw (dgod d) qc = true) ->
  (forall qc, qc = QOld \/ wq d aw <> dQ d -> leaf_ok d aw (wgod d aw) qc = true) ->
  c_leaves d aw = true.
Proof.
  intros A B. unfold c_leaves.
  assert (Hc : forall gb, (forall qc, qc = QOld \/ wq d aw <> dQ d -> leaf_ok d aw gb qc = true) ->
               forallb (leaf_ok d aw gb) (if bytes_eqb (wq d aw) (dQ d) then [QOld] else [QOld; QNew; QInvalid]) = true).
  { intros gb Hg. destruct (bytes_eqb (wq d aw) (dQ d)) eqn:E.
    - cbn [forallb]. rewrite Hg; auto.
    - apply bytes_eqb_neq in E. cbn [forallb]. rewrite !Hg; auto. }
  cbn [forallb]. rewrite (Hc _ A), (Hc _ B). reflexivity.
Qed.

(* a window without header writes leaves god byte and slot Q as they are *)
Lemma c_leaves_plain d aw :
  hdrs aw = [] -> names_q d (dgod d) = false ->
  flag (dgod d) TWO_PHASE_COMMIT = true \/ qsafeb d = true -> c_leaves d aw = true.
Proof.
  intros Eh Hn Hs. apply c_leaves_intro; intros qc _.
  - apply leaf_names_p; auto.
  - unfold wgod. rewrite Eh. apply leaf_names_p; auto.
Qed.

(* ---------- lengths ---------- *)

Lemma within_mono rs l l' : within rs l = true -> l <= l' -> within rs l' = true.
Proof.
  unfold within. rewrite !forallb_forall. intros H Hle r Hr. specialize (H r Hr).
  apply N.leb_le in H. apply N.leb_le. lia.
Qed.

Lemma len_okb_ext d d' l :
  geom_at (hget (d_hdr d)) = geom_at (hget (d_hdr d')) -> len_okb d l = len_okb d' l.
Proof. intros E. unfold len_okb. destruct (geom_words _ _ E) as (A & B & C). now rewrite A, B, C. Qed.

Lemma win_okb_ext d d' w :
  geom_at (hget (d_hdr d)) = geom_at (hget (d_hdr d')) -> d_rp d = d_rp d' -> win_okb d w = win_okb d' w.
Proof.
  intros E R. unfold win_okb. apply forallb_ext_In. intros o _. destruct o; auto.
  - now rewrite R.
  - now rewrite (len_okb_ext d d' n E), R.
Qed.

(* the current length is the durable one or the target of a pending set_len *)
Lemma cur_len_cases d w :
  next_len d (map abs w) = d_len d \/ In (next_len d (map abs w)) (setlens (map abs w)).
Proof.
  unfold next_len. destruct (last_in_cons (setlens (map abs w)) (d_len d)) as [E | E]; auto.
Qed.

Lemma cur_len_ok d w :
  win_okb d w = true -> len_okb d (d_len d) = true -> within (d_rp d) (d_len d) = true ->
  len_okb d (next_len d (map abs w)) = true /\ within (d_rp d) (next_len d (map abs w)) = true.
Proof.
  intros Hw Hl Hr. destruct (cur_len_cases d w) as [E | E]; [rewrite E; auto|].
  exact (win_setlens _ _ _ Hw E).
Qed.

Lemma page_writes_setlens rp pages : pages_okb rp pages = true -> setlens (map abs (page_writes pages)) = [].
Proof.
  unfold pages_okb, page_writes. induction pages as [|[off data] r IH]; [reflexivity|].
  cbn [forallb map fst snd]. intros E. apply andb_true_iff in E as [E1 E2]. unfold page_okb in E1.
  cbn [fst snd] in E1. apply andb_true_iff in E1 as [E1 _]. apply N.leb_le in E1.
  rewrite (abs_page _ _ E1).
  change (setlens (APage off (wlen data) :: map abs (map (fun w : N * bytes => Write (fst w) (snd w)) r)))
    with (setlens (map abs (map (fun w : N * bytes => Write (fst w) (snd w)) r))).
  auto.
Qed.

Lemma next_len_app_pages d w rp pages :
  pages_okb rp pages = true -> next_len d (map abs (w ++ page_writes pages)) = next_len d (map abs w).
Proof.
  intros Hp. unfold next_len. now rewrite map_app, setlens_app, (page_writes_setlens _ _ Hp), app_nil_r.
Qed.

Lemma next_len_snoc_setlen d w n : next_len d (map abs (w ++ [SetLen n])) = n.
Proof.
  unfold next_len. rewrite map_app, setlens_app. simpl. apply last_last.
Qed.

(* ---------- region counts ---------- *)

Lemma lay_okb_spec m lay l :
  hm_wf m ->
  lay_okb m lay l = true <->
  length lay = LAYOUT_LEN
  /\ (forall g, geom_at g = hm_geom m -> layout_at g = lay -> stored_sane g = true /\ stored_len g = l).
Proof.
  intros W. unfold lay_okb. rewrite !andb_true_iff, Nat.eqb_eq, N.eqb_eq. split.
  - intros [[A B] C]. split; auto. intros g Eg El.
    assert (W' : hm_wf (set_layout m lay)) by (destruct W; constructor; auto).
    destruct (stored_ext g (hget (enc_hdr (set_layout m lay)))) as [S1 S2].
    + rewrite (geom_enc _ W'). exact Eg.
    + rewrite (layout_enc _ W'). exact El.
    + rewrite S1, S2. auto.
  - intros [A Hg].
    assert (W' : hm_wf (set_layout m lay)) by (destruct W; constructor; auto).
    destruct (Hg (hget (enc_hdr (set_layout m lay))) (geom_enc _ W') (layout_enc _ W')) as [S1 S2].
    auto.
Qed.

Lemma lay_okb_ext m m' lay l :
  hm_wf m -> hm_wf m' -> hm_geom m = hm_geom m' -> lay_okb m lay l = lay_okb m' lay l.
Proof.
  intros W W' E. apply eq_true_iff_eq. rewrite (lay_okb_spec m lay l W), (lay_okb_spec m' lay l W'), E. tauto.
Qed.

(* ---------- the protocol invariant, as a record ---------- *)

Record Inv (st : pst) : Prop := mkInv {
  i_hlen  : length (d_hdr (p_d st)) = HDR_LEN;
  i_magic : magic_at (dh st) = MAGICNUMBER;
  i_wf    : hm_wfb (p_mem st) = true;
  i_god   : dgod (p_d st) = hm_god (p_mem st);
  i_geom  : geom_at (dh st) = hm_geom (p_mem st);
  i_p     : d_p (p_d st) = hm_prim (p_mem st);
  i_P     : dP (p_d st) = hm_slot (p_mem st) (hm_prim (p_mem st));
  i_Q     : slot_wfb (dQ (p_d st)) = true;
  i_rr    : hm_rr (p_mem st) = p_open st;
  i_qsafe : qsafeb (p_d st) = true;
  i_rq    : d_rq (p_d st) = None;
  i_win   : win_okb (p_d st) (p_win st) = true;
  i_len   : len_okb (p_d st) (d_len (p_d st)) = true;
  i_rp    : within (d_rp (p_d st)) (d_len (p_d st)) = true;
  i_lay   : lay_okb (p_mem st) (hm_layout (p_mem st)) (cur_len st) = true;
  i_closed : p_open st = false ->
             p_win st = [] /\ layout_at (dh st) = hm_layout (p_mem st)
             /\ dQ (p_d st) = hm_slot (p_mem st) (negb (hm_prim (p_mem st))) /\ p_rfs st = false
}.

Lemma inv_b_Inv st : inv_b st = true <-> Inv st.
Proof.
  unfold inv_b. rewrite !andb_true_iff, Nat.eqb_eq, !bytes_eqb_eq, N.eqb_eq, !Bool.eqb_true_iff. split.
  - intros (((((((((((((((A1 & A2) & A3) & A4) & A5) & A6) & A7) & A8) & A9) & A10) & A11) & A12) & A13) & A14) & A15) & A16).
    constructor; auto.
    + destruct (d_rq (p_d st)); [discriminate|reflexivity].
    + intros Ho. rewrite Ho in A16. cbn [orb] in A16. rewrite !andb_true_iff, !bytes_eqb_eq, negb_true_iff in A16.
      destruct A16 as (((B1 & B2) & B3) & B4). destruct (p_win st); [auto|discriminate].
  - intros [A1 A2 A3 A4 A5 A6 A7 A8 A9 A10 A11 A12 A13 A14 A15 A16].
    repeat split; auto.
    + now rewrite A11.
    + destruct (p_open st) eqn:Ho; [reflexivity|]. destruct (A16 eq_refl) as (B1 & B2 & B3 & B4).
      cbn [orb]. rewrite B1, B4. rewrite !andb_true_iff, !bytes_eqb_eq. auto.
Qed.

(* facts every state with the invariant offers *)
Section InvFacts.
  Variable st : pst.
  Hypothesis I : Inv st.
  Let d := p_d st.
  Let m := p_mem st.

  Lemma f_wf : hm_wf m.
  Proof. apply hm_wfb_wf. apply (i_wf st I). Qed.
  Lemma f_VP : slot_version (dP d) = FILE_FORMAT_VERSION3.
  Proof. unfold d. rewrite (i_P st I). apply hm_wfb_versions. apply (i_wf st I). Qed.
  Lemma f_VQ : slot_version (dQ d) = FILE_FORMAT_VERSION3.
  Proof. pose proof (i_Q st I) as Q. apply slot_wfb_spec in Q. tauto. Qed.
  Lemma f_names : names_q d (dgod d) = false.
  Proof.
    unfold names_q, d. rewrite (i_god st I), (i_p st I). unfold hm_god. rewrite flag_prim. apply xorb_nilpotent.
  Qed.
  Lemma f_rr : flag (dgod d) RECOVERY_REQUIRED = p_open st.
  Proof. unfold d. rewrite (i_god st I). unfold hm_god. rewrite flag_rr. apply (i_rr st I). Qed.
  Lemma f_2pc : flag (dgod d) TWO_PHASE_COMMIT = hm_2pc m.
  Proof. unfold d. rewrite (i_god st I). unfold hm_god. now rewrite flag_2pc. Qed.
  Lemma f_cur : len_okb d (cur_len st) = true /\ within (d_rp d) (cur_len st) = true.
  Proof. apply cur_len_ok; [apply (i_win st I) | apply (i_len st I) | apply (i_rp st I)]. Qed.
  Lemma f_PQ_slot : dP d = hm_slot m (d_p d).
  Proof. unfold d. rewrite (i_P st I), (i_p st I). reflexivity. Qed.

  (* closed: the region counts on disk describe the file *)
  Lemma f_closed_layout :
    p_open st = false -> stored_sane (hget (d_hdr d)) = true /\ stored_len (hget (d_hdr d)) = d_len d.
  Proof.
    intros Ho. destruct (i_closed st I Ho) as (Ew & El & _).
    pose proof (i_lay st I) as L. apply (lay_okb_spec _ _ _ f_wf) in L as [_ L].
    unfold cur_len in L. rewrite Ew in L. change (next_len (p_d st) (map abs [])) with (d_len (p_d st)) in L.
    apply L; [apply (i_geom st I) | exact El].
  Qed.

  (* the still open window is acceptable as it stands *)
  Lemma open_window_ok : wrec_okb (open_window st) = true.
  Proof.
    unfold wrec_okb, open_window. cbn [w_sum w_ops w_vnew]. fold d.
    pose proof (win_hdrs _ _ (i_win st I)) as Eh.
    apply window_plain_ok; [apply (i_hlen st I) | apply (i_len st I) | apply (i_rp st I) | apply (i_win st I)
                           | apply f_VP | apply f_VQ | | ].
    - destruct (p_open st) eqn:Ho.
      + apply rr_both; [rewrite f_rr; auto|]. unfold wgod. fold d in Eh. rewrite Eh. rewrite f_rr; auto.
      + destruct (i_closed st I Ho) as (Ew & _). destruct (f_closed_layout Ho) as [S1 S2].
        apply rr_clean; auto; rewrite Ew; cbn [map setlens hdrs flat_map In]; tauto.
    - apply c_leaves_plain; [exact Eh | apply f_names | right; apply (i_qsafe st I)].
  Qed.
End InvFacts.

(* ---------- header records ---------- *)

Lemma slot_set_same m k q : hm_slot (set_slot m k q) k = q.
Proof. destruct k; reflexivity. Qed.
Lemma slot_set_other m k q : hm_slot (set_slot m k q) (negb k) = hm_slot m (negb k).
Proof. destruct k; reflexivity. Qed.
Lemma prim_set_slot m k q : hm_prim (set_slot m k q) = hm_prim m.
Proof. destruct k; reflexivity. Qed.
Lemma lay_set_slot m k q : hm_layout (set_slot m k q) = hm_layout m.
Proof. destruct k; reflexivity. Qed.
Lemma geom_set_slot m k q : hm_geom (set_slot m k q) = hm_geom m.
Proof. destruct k; reflexivity. Qed.
Lemma rr_set_slot m k q : hm_rr (set_slot m k q) = hm_rr m.
Proof. destruct k; reflexivity. Qed.
Lemma wfb_set_slot m k q : hm_wfb m = true -> slot_wfb q = true -> hm_wfb (set_slot m k q) = true.
Proof.
  unfold hm_wfb. rewrite !andb_true_iff. intros (((A & B) & C) & D) Hq.
  destruct k; cbn [set_slot hm_geom hm_layout hm_s0 hm_s1]; auto.
Qed.
Lemma wfb_set_layout m lay : hm_wfb m = true -> length lay = LAYOUT_LEN -> hm_wfb (set_layout m lay) = true.
Proof.
  unfold hm_wfb. rewrite !andb_true_iff, !Nat.eqb_eq. intros (((A & B) & C) & D) Hl.
  cbn [set_layout hm_geom hm_layout hm_s0 hm_s1]. auto.
Qed.
Lemma wfb_slot m k : hm_wfb m = true -> slot_wfb (hm_slot m k) = true.
Proof. unfold hm_wfb. rewrite !andb_true_iff. intros (((A & B) & C) & D). destruct k; auto. Qed.
Lemma lay_okb_len m lay l : lay_okb m lay l = true -> length lay = LAYOUT_LEN.
Proof. unfold lay_okb. rewrite !andb_true_iff, Nat.eqb_eq. tauto. Qed.

(* ---------- a window of one header write that only moves recovery_required (begin_writable, the
   clean flag at close) ---------- *)

Lemma stored_of_lay st :
  Inv st -> p_win st = [] -> layout_at (dh st) = hm_layout (p_mem st) ->
  stored_sane (dh st) = true /\ stored_len (dh st) = d_len (p_d st).
Proof.
  intros I Ew El. pose proof (i_lay st I) as L. apply (lay_okb_spec _ _ _ (f_wf st I)) in L as [_ L].
  unfold cur_len in L. rewrite Ew in L. change (next_len (p_d st) (map abs [])) with (d_len (p_d st)) in L.
  apply L; [apply (i_geom st I) | exact El].
Qed.

Lemma rr_window st b :
  Inv st -> p_win st = [] -> layout_at (dh st) = hm_layout (p_mem st) ->
  dQ (p_d st) = hm_slot (p_mem st) (negb (hm_prim (p_mem st))) ->
  (b = false -> p_rfs st = false) ->
  let m' := set_rr (p_mem st) b in
  let d := p_d st in
  let d' := mkDsum (enc_hdr m') (d_len d) (d_p d) (d_rp d) (d_vq d) None in
  window_okb d (map abs ([] ++ [hdr_write m'])) true = true
  /\ Inv (mkPst d' [] m' (p_rfs st) b)
  /\ dP d' = dP d /\ dQ d' = dQ d.
Proof.
  intros I Ew El EQ Hrfs m' d d'.
  assert (Wm' : hm_wfb m' = true) by (apply (i_wf st I)).
  pose proof (hm_wfb_wf _ Wm') as Wf'.
  assert (Wpre : win_okb d [] = true) by reflexivity.
  destruct (stored_of_lay st I Ew El) as [S1 S2].
  assert (EP' : dP d' = dP d).
  { unfold dP, d'. cbn [d_hdr d_p]. rewrite (slot_enc m' _ Wf'). unfold m'. 
    change (hm_slot (set_rr (p_mem st) b) (d_p d)) with (hm_slot (p_mem st) (d_p d)).
    symmetry. apply (f_PQ_slot st I). }
  assert (EQ' : dQ d' = dQ d).
  { unfold dQ at 1. unfold d'. cbn [d_hdr d_p]. rewrite (slot_enc m' _ Wf'). unfold m'.
    change (hm_slot (set_rr (p_mem st) b) (negb (d_p d))) with (hm_slot (p_mem st) (negb (d_p d))).
    unfold d. rewrite (i_p st I). symmetry. exact EQ. }
  split; [|split; [|split; [exact EP' | exact EQ']]].
  - apply window_hdr_ok; auto; try apply I.
    + apply (f_PQ_slot st I).
    + apply (f_VQ st I).
    + (* clean flag *)
      destruct (flag (dgod d) RECOVERY_REQUIRED && flag (wgod d (map abs ([] ++ [hdr_write m']))) RECOVERY_REQUIRED) eqn:E.
      * unfold c_rr. now rewrite E.
      * apply rr_clean; auto.
        -- now rewrite (oh_setlens [] m' Wf').
        -- rewrite (oh_hdrs d [] m' Wf' Wpre). intros h [<- | []]. rewrite (layout_enc m' Wf'). symmetry. exact El.
    + apply c_leaves_intro; intros qc _.
      * apply leaf_names_p; [apply (f_names st I) | right; apply (i_qsafe st I)].
      * rewrite (oh_wgod d [] m' Wf' Wpre). apply leaf_names_p; [|right; apply (i_qsafe st I)].
        unfold names_q, m', hm_god. cbn [set_rr hm_prim hm_rr hm_2pc]. rewrite flag_prim.
        unfold d. rewrite (i_p st I). apply xorb_nilpotent.
  - constructor; cbn [p_d p_win p_mem p_rfs p_open].
    + apply (enc_length _ Wf').
    + unfold dh. cbn [p_d d_hdr]. apply magic_enc.
    + exact Wm'.
    + reflexivity.
    + unfold dh, d'. cbn [p_d d_hdr]. rewrite (geom_enc _ Wf'). reflexivity.
    + apply (i_p st I).
    + rewrite EP'. apply (i_P st I).
    + rewrite EQ'. apply (i_Q st I).
    + reflexivity.
    + unfold qsafeb. rewrite EP', EQ'. apply (i_qsafe st I).
    + reflexivity.
    + reflexivity.
    + rewrite <- (i_len st I). apply len_okb_ext. unfold d'. cbn [d_hdr]. rewrite (geom_enc _ Wf'). symmetry. apply (i_geom st I).
    + apply (i_rp st I).
    + unfold cur_len. cbn [p_d p_win]. change (next_len d' (map abs [])) with (d_len d).
      pose proof (i_lay st I) as L. unfold cur_len in L. rewrite Ew in L.
      change (next_len (p_d st) (map abs [])) with (d_len d) in L. exact L.
    + intros ->. repeat split.
      * unfold dh, d'. cbn [p_d d_hdr]. apply (layout_enc _ Wf').
      * rewrite EQ'. exact EQ.
      * auto.
Qed.

(* ---------- a sync of page writes / set_len only ---------- *)

Lemma keep_P st : dP (d_keep st) = dP (p_d st).
Proof. reflexivity. Qed.
Lemma keep_Q st : dQ (d_keep st) = dQ (p_d st).
Proof. reflexivity. Qed.

Lemma sync_plain_inv st :
  Inv st -> p_open st = true -> Inv (mkPst (d_keep st) [] (p_mem st) (p_rfs st) (p_open st)).
Proof.
  intros I Ho. destruct (f_cur st I) as [C1 C2].
  constructor; cbn [p_d p_win p_mem p_rfs p_open].
  - exact (i_hlen st I).
  - exact (i_magic st I).
  - exact (i_wf st I).
  - exact (i_god st I).
  - exact (i_geom st I).
  - exact (i_p st I).
  - rewrite keep_P. exact (i_P st I).
  - rewrite keep_Q. exact (i_Q st I).
  - exact (i_rr st I).
  - unfold qsafeb. rewrite keep_P, keep_Q. exact (i_qsafe st I).
  - reflexivity.
  - reflexivity.
  - exact C1.
  - exact C2.
  - exact (i_lay st I).
  - rewrite Ho. discriminate.
Qed.

(* ---------- PEvict ---------- *)

Lemma evict_ok st pages :
  Inv st -> p_open st = true -> pages_okb (d_rp (p_d st)) pages = true ->
  Inv (mkPst (p_d st) (p_win st ++ page_writes pages) (p_mem st) (p_rfs st) (p_open st)).
Proof.
  intros I Ho Hp. constructor; cbn [p_d p_win p_mem p_rfs p_open].
  - exact (i_hlen st I).
  - exact (i_magic st I).
  - exact (i_wf st I).
  - exact (i_god st I).
  - exact (i_geom st I).
  - exact (i_p st I).
  - exact (i_P st I).
  - exact (i_Q st I).
  - exact (i_rr st I).
  - exact (i_qsafe st I).
  - exact (i_rq st I).
  - rewrite win_okb_app, (i_win st I), (win_pages_ok _ _ Hp). reflexivity.
  - exact (i_len st I).
  - exact (i_rp st I).
  - unfold cur_len. cbn [p_d p_win]. rewrite (next_len_app_pages _ _ _ _ Hp). exact (i_lay st I).
  - rewrite Ho. discriminate.
Qed.

(* ---------- a window of an open database extended by page writes / set_len ---------- *)

Lemma plain_window_ok st extra :
  Inv st -> p_open st = true -> win_okb (p_d st) extra = true ->
  window_okb (p_d st) (map abs (p_win st ++ extra)) true = true.
Proof.
  intros I Ho He.
  assert (Hw : win_okb (p_d st) (p_win st ++ extra) = true) by (now rewrite win_okb_app, (i_win st I), He).
  pose proof (win_hdrs _ _ Hw) as Eh.
  apply window_plain_ok; [apply (i_hlen st I) | apply (i_len st I) | apply (i_rp st I) | exact Hw
                         | apply (f_VP st I) | apply (f_VQ st I) | | ].
  - apply rr_both; [rewrite (f_rr st I); auto|]. unfold wgod. rewrite Eh. rewrite (f_rr st I); auto.
  - apply c_leaves_plain; [exact Eh | apply (f_names st I) | right; apply (i_qsafe st I)].
Qed.

(* ---------- PGrow ---------- *)

Lemma grow_ok st n lay :
  Inv st -> p_open st = true ->
  len_okb (p_d st) n = true -> cur_len st <= n -> lay_okb (p_mem st) lay n = true ->
  let st1 := mkPst (p_d st) (p_win st ++ [SetLen n]) (p_mem st) (p_rfs st) (p_open st) in
  wrec_okb (open_window st1) = true
  /\ Inv (mkPst (d_keep st1) [] (set_layout (p_mem st) lay) (p_rfs st) (p_open st)).
Proof.
  intros I Ho Hn Hle Hlay st1. destruct (f_cur st I) as [C1 C2].
  assert (Hex : win_okb (p_d st) [SetLen n] = true).
  { cbn [win_okb forallb]. now rewrite Hn, (within_mono _ _ _ C2 Hle). }
  split; [exact (plain_window_ok st [SetLen n] I Ho Hex)|].
  assert (Ecur : cur_len st1 = n) by (unfold cur_len, st1; cbn [p_d p_win]; apply next_len_snoc_setlen).
  pose proof (lay_okb_len _ _ _ Hlay) as Ll.
  constructor; cbn [p_d p_win p_mem p_rfs p_open].
  - exact (i_hlen st I).
  - exact (i_magic st I).
  - apply wfb_set_layout; [apply (i_wf st I) | exact Ll].
  - exact (i_god st I).
  - exact (i_geom st I).
  - exact (i_p st I).
  - rewrite keep_P. exact (i_P st I).
  - rewrite keep_Q. exact (i_Q st I).
  - exact (i_rr st I).
  - unfold qsafeb. rewrite keep_P, keep_Q. exact (i_qsafe st I).
  - reflexivity.
  - reflexivity.
  - unfold d_keep. cbn [d_len]. rewrite Ecur. exact Hn.
  - unfold d_keep. cbn [d_len d_rp]. rewrite Ecur. apply (within_mono _ _ _ C2 Hle).
  - unfold cur_len. cbn [p_d p_win]. change (next_len (d_keep st1) (map abs [])) with (cur_len st1). rewrite Ecur.
    cbn [set_layout hm_layout].
    rewrite <- Hlay. apply lay_okb_ext; [| apply (f_wf st I) | reflexivity].
    apply hm_wfb_wf. apply wfb_set_layout; [apply (i_wf st I) | exact Ll].
  - rewrite Ho. discriminate.
Qed.

(* ---------- TransactionalMemory::commit ---------- *)

(* the state after TransactionalMemory::commit *)
Definition commit_post (st : pst) (two : bool) (q : bytes) (rng : list range) (shrink : option (N * bytes)) : pst :=
  let m0 := match shrink with Some (_, lay) => set_layout (p_mem st) lay | None => p_mem st end in
  let sec := negb (hm_prim m0) in
  let m2 := promote (set_slot m0 sec q) two in
  mkPst (mkDsum (enc_hdr m2) (cur_len st) sec rng true None)
        (match shrink with Some (n, _) => [SetLen n] | None => [] end) m2 false (p_open st).

Section Commit.
  Variables (st : pst) (two : bool) (q : bytes) (rng : list range) (pgs : list (N * bytes))
            (shrink : option (N * bytes)).
  Hypothesis I : Inv st.
  Hypothesis Ho : p_open st = true.
  Hypothesis Hc : commit_okb st q rng pgs shrink = true.

  Local Notation d := (p_d st).
  Local Notation m := (p_mem st).
  Local Notation p := (hm_prim (p_mem st)).
  Let m0 := match shrink with Some (_, lay) => set_layout m lay | None => m end.
  Let sec := negb (hm_prim m0).
  Let m1 := set_slot m0 sec q.
  Let m2 := promote m1 two.
  Let pre := p_win st ++ page_writes pgs.
  Let tail : list op := match shrink with Some (n, _) => [SetLen n] | None => [] end.
  Let d2 := mkDsum (enc_hdr m2) (cur_len st) sec rng true None.
  Let d1 := if hm_2pc m then mkDsum (enc_hdr m1) (cur_len st) (d_p d) (d_rp d) true (Some rng)
            else mkDsum (enc_hdr m1) (cur_len st) sec rng true None.

  Lemma c_q : slot_wfb q = true.
  Proof. unfold commit_okb in Hc. rewrite !andb_true_iff in Hc. tauto. Qed.
  Lemma c_tx : slot_txid (hm_slot m p) < slot_txid q.
  Proof. unfold commit_okb in Hc. rewrite !andb_true_iff in Hc. apply N.ltb_lt. tauto. Qed.
  Lemma c_pages : pages_okb (d_rp d) pgs = true.
  Proof. unfold commit_okb in Hc. rewrite !andb_true_iff in Hc. tauto. Qed.
  Lemma c_rng : within rng (cur_len st) = true.
  Proof. unfold commit_okb in Hc. rewrite !andb_true_iff in Hc. tauto. Qed.
  Lemma c_shrink n lay : shrink = Some (n, lay) ->
    len_okb d n = true /\ within rng n = true /\ lay_okb m lay n = true.
  Proof. intros E. unfold commit_okb in Hc. rewrite E in Hc. rewrite !andb_true_iff in Hc. tauto. Qed.

  Lemma c_sec : sec = negb p.
  Proof. unfold sec, m0. destruct shrink as [[n lay]|]; reflexivity. Qed.
  Lemma c_wf0 : hm_wfb m0 = true.
  Proof.
    unfold m0. pose proof c_shrink as CS. destruct shrink as [[n lay]|]; [|apply (i_wf st I)].
    apply wfb_set_layout; [apply (i_wf st I)|]. destruct (CS n lay eq_refl) as (_ & _ & L).
    exact (lay_okb_len _ _ _ L).
  Qed.
  Lemma c_wf1 : hm_wfb m1 = true.
  Proof. apply wfb_set_slot; [apply c_wf0 | apply c_q]. Qed.
  Lemma c_wf2 : hm_wfb m2 = true.
  Proof. exact c_wf1. Qed.
  Lemma c_god1 : hm_god m1 = hm_god m.
  Proof.
    unfold m1, sec, m0, hm_god. destruct (p_mem st) as [pp rr tt ge la s0 s1].
    destruct shrink as [[n lay]|]; destruct pp; reflexivity.
  Qed.
  Lemma c_god2 : hm_god m2 = god_of sec (hm_rr m) two.
  Proof.
    unfold m2, m1, sec, m0, hm_god. destruct (p_mem st) as [pp rr tt ge la s0 s1].
    destruct shrink as [[n lay]|]; destruct pp; reflexivity.
  Qed.
  Lemma c_geom1 : hm_geom m1 = hm_geom m.
  Proof.
    unfold m1, sec, m0. destruct (p_mem st) as [pp rr tt ge la s0 s1].
    destruct shrink as [[n lay]|]; destruct pp; reflexivity.
  Qed.
  Lemma c_slot1_p : hm_slot m1 p = hm_slot m p.
  Proof.
    unfold m1, sec, m0. destruct (p_mem st) as [pp rr tt ge la s0 s1].
    destruct shrink as [[n lay]|]; destruct pp; reflexivity.
  Qed.
  Lemma c_slot1_sec : hm_slot m1 sec = q.
  Proof. unfold m1. apply slot_set_same. Qed.
  Lemma c_dp : d_p d = p.
  Proof. apply (i_p st I). Qed.

  Lemma c_pre : win_okb d pre = true.
  Proof. unfold pre. now rewrite win_okb_app, (i_win st I), (win_pages_ok _ _ c_pages). Qed.
  Lemma c_pre_len : next_len d (map abs pre) = cur_len st.
  Proof. unfold pre. apply (next_len_app_pages _ _ _ _ c_pages). Qed.

  (* 1PC: pages and the single coalesced header write, then sync *)
  Lemma commit_1pc_window :
    two = false -> window_okb d (map abs (pre ++ [hdr_write m2])) true = true.
  Proof.
    intros Et. pose proof (hm_wfb_wf _ c_wf2) as Wf2.
    apply window_hdr_ok; try apply I; auto using c_pre, c_wf2.
    - unfold m2. change (hm_geom (promote m1 two)) with (hm_geom m1). rewrite c_geom1. apply (i_geom st I).
    - change (hm_slot m2 (d_p d)) with (hm_slot m1 (d_p d)). rewrite c_dp, c_slot1_p. apply (i_P st I).
    - apply (f_VQ st I).
    - apply rr_both; [rewrite (f_rr st I); auto|].
      rewrite (oh_wgod d pre m2 Wf2 c_pre), c_god2, flag_rr. rewrite (i_rr st I). exact Ho.
    - apply c_leaves_intro; intros qc _.
      + apply leaf_names_p; [apply (f_names st I) | right; apply (i_qsafe st I)].
      + rewrite (oh_wgod d pre m2 Wf2 c_pre), c_god2. apply leaf_1pc; [now rewrite flag_2pc | apply (i_qsafe st I)].
  Qed.

  (* 2PC, first flush: pages and the header with the new secondary slot, god byte unchanged *)
  Lemma commit_2pc_window1 :
    window_okb d (map abs (pre ++ [hdr_write m1])) true = true.
  Proof.
    pose proof (hm_wfb_wf _ c_wf1) as Wf1.
    apply window_hdr_ok; try apply I; auto using c_pre, c_wf1.
    - rewrite c_geom1. apply (i_geom st I).
    - rewrite c_dp, c_slot1_p. apply (i_P st I).
    - apply (f_VQ st I).
    - apply rr_both; [rewrite (f_rr st I); auto|].
      rewrite (oh_wgod d pre m1 Wf1 c_pre), c_god1. unfold hm_god. rewrite flag_rr, (i_rr st I). exact Ho.
    - apply c_leaves_intro; intros qc _.
      + apply leaf_names_p; [apply (f_names st I) | right; apply (i_qsafe st I)].
      + rewrite (oh_wgod d pre m1 Wf1 c_pre), c_god1, <- (i_god st I).
        apply leaf_names_p; [apply (f_names st I) | right; apply (i_qsafe st I)].
  Qed.

  (* the image after the first flush, as the protocol summarises it *)
  Lemma c_d1_hdr : d_hdr d1 = enc_hdr m1.
  Proof. unfold d1. destruct (hm_2pc m); reflexivity. Qed.
  Lemma c_d1_len : d_len d1 = cur_len st.
  Proof. unfold d1. destruct (hm_2pc m); reflexivity. Qed.

  Lemma c_d1_P : dP d1 = hm_slot m2 (d_p d1).
  Proof.
    pose proof (hm_wfb_wf _ c_wf1) as Wf1. unfold dP. rewrite c_d1_hdr, (slot_enc m1 _ Wf1). reflexivity.
  Qed.
  Lemma c_d1_Q : dQ d1 = hm_slot m1 (negb (d_p d1)).
  Proof.
    pose proof (hm_wfb_wf _ c_wf1) as Wf1. unfold dQ. rewrite c_d1_hdr, (slot_enc m1 _ Wf1). reflexivity.
  Qed.

  (* 2PC, second flush: the god byte alone moves (primary flipped, 2PC flag set) *)
  Lemma commit_2pc_window2 :
    two = true -> window_okb d1 (map abs ([] ++ [hdr_write m2])) true = true.
  Proof.
    intros Et. pose proof (hm_wfb_wf _ c_wf1) as Wf1. pose proof (hm_wfb_wf _ c_wf2) as Wf2.
    destruct (f_cur st I) as [C1 C2].
    assert (Wpre : win_okb d1 [] = true) by reflexivity.
    assert (Eg1 : geom_at (hget (d_hdr d1)) = hm_geom m).
    { rewrite c_d1_hdr, (geom_enc m1 Wf1). apply c_geom1. }
    assert (Egd : geom_at (hget (d_hdr d)) = geom_at (hget (d_hdr d1))).
    { rewrite Eg1. apply (i_geom st I). }
    assert (Egod1 : dgod d1 = hm_god m).
    { unfold dgod. rewrite c_d1_hdr, god_enc. apply c_god1. }
    assert (EwQ : wq d1 (map abs ([] ++ [hdr_write m2])) = dQ d1).
    { rewrite (oh_wq d1 [] m2 Wf2 Wpre), c_d1_Q. reflexivity. }
    apply window_hdr_ok; auto using c_wf2.
    - rewrite c_d1_hdr. apply (enc_length m1 Wf1).
    - rewrite c_d1_len, <- (len_okb_ext d d1 _ Egd). exact C1.
    - rewrite c_d1_len. unfold d1. destruct (hm_2pc m); cbn [d_rp]; [exact C2 | apply c_rng].
    - rewrite c_d1_hdr. apply magic_enc.
    - rewrite Eg1. unfold m2. change (hm_geom (promote m1 two)) with (hm_geom m1). symmetry. apply c_geom1.
    - apply c_d1_P.
    - rewrite c_d1_Q. apply hm_wfb_versions. apply c_wf1.
    - apply rr_both.
      + rewrite Egod1. unfold hm_god. rewrite flag_rr, (i_rr st I). exact Ho.
      + rewrite (oh_wgod d1 [] m2 Wf2 Wpre), c_god2, flag_rr, (i_rr st I). exact Ho.
    - apply c_leaves_intro; intros qc [-> | Hne]; try (exfalso; apply Hne; exact EwQ).
      + (* nothing of the second flush reached the disk *)
        rewrite Egod1. unfold d1. destruct (hm_2pc m) eqn:E2.
        * apply leaf_names_p; [|left; unfold hm_god; now rewrite flag_2pc].
          unfold names_q, hm_god. cbn [d_p]. rewrite flag_prim, c_dp. apply xorb_nilpotent.
        * apply leaf_1pc; [unfold hm_god; now rewrite flag_2pc|].
          unfold qsafeb. cbn [d_vq].
          assert (Elt : slot_txid (dQ (mkDsum (enc_hdr m1) (cur_len st) sec rng true None))
                        <? slot_txid (dP (mkDsum (enc_hdr m1) (cur_len st) sec rng true None)) = true).
          { unfold dQ, dP. cbn [d_hdr d_p]. rewrite !(slot_enc m1 _ Wf1), c_slot1_sec, c_sec, negb_involutive, c_slot1_p.
            apply N.ltb_lt. apply c_tx. }
          rewrite Elt. reflexivity.
      + (* the god byte of the second flush *)
        rewrite (oh_wgod d1 [] m2 Wf2 Wpre), c_god2, Et. unfold d1. destruct (hm_2pc m) eqn:E2.
        * apply (leaf_2pc_yes _ _ _ rng); [now rewrite flag_2pc | reflexivity | reflexivity|].
          unfold untouched. rewrite (oh_pages [] m2 Wf2). cbn [map pages flat_map forallb andb].
          unfold lens_of. rewrite (oh_setlens [] m2 Wf2). cbn [map setlens flat_map forallb d_len andb].
          fold (within rng (cur_len st)). now rewrite c_rng.
        * apply leaf_names_p; [|left; now rewrite flag_2pc].
          unfold names_q. cbn [d_p]. rewrite flag_prim. apply xorb_nilpotent.
  Qed.

  Local Notation cpost := (commit_post st two q rng shrink).
  Lemma commit_post_eq : cpost = mkPst d2 tail m2 false (p_open st).
  Proof. reflexivity. Qed.

  Lemma commit_post_inv : Inv cpost.
  Proof.
    rewrite commit_post_eq.
    pose proof (hm_wfb_wf _ c_wf2) as Wf2. destruct (f_cur st I) as [C1 C2].
    assert (Eg2 : geom_at (hget (d_hdr d2)) = hm_geom m).
    { unfold d2. cbn [d_hdr]. rewrite (geom_enc m2 Wf2). apply c_geom1. }
    assert (Egd : geom_at (hget (d_hdr d)) = geom_at (hget (d_hdr d2))).
    { rewrite Eg2. apply (i_geom st I). }
    assert (EP2 : dP d2 = q).
    { unfold dP, d2. cbn [d_hdr d_p]. rewrite (slot_enc m2 _ Wf2). apply c_slot1_sec. }
    assert (EQ2 : dQ d2 = hm_slot m p).
    { unfold dQ, d2. cbn [d_hdr d_p]. rewrite (slot_enc m2 _ Wf2).
      change (hm_slot m2 (negb sec)) with (hm_slot m1 (negb sec)). rewrite c_sec, negb_involutive. apply c_slot1_p. }
    assert (Ecur : cur_len (mkPst d2 tail m2 false (p_open st)) = match shrink with Some (n, _) => n | None => cur_len st end).
    { unfold cur_len, tail. cbn [p_d p_win]. destruct shrink as [[n lay]|]; reflexivity. }
    constructor; cbn [p_d p_win p_mem p_rfs p_open].
    - apply (enc_length m2 Wf2).
    - unfold dh. cbn [p_d d_hdr]. apply magic_enc.
    - apply c_wf2.
    - reflexivity.
    - unfold dh. cbn [p_d]. rewrite Eg2. symmetry. apply c_geom1.
    - unfold d2, m2. cbn [d_p promote hm_prim]. unfold m1. rewrite prim_set_slot. reflexivity.
    - rewrite EP2. change (hm_slot m2 (hm_prim m2)) with (hm_slot m1 (negb (hm_prim m1))).
      assert (E : negb (hm_prim m1) = sec) by (unfold m1; rewrite prim_set_slot; reflexivity).
      rewrite E. symmetry. apply c_slot1_sec.
    - rewrite EQ2. apply wfb_slot. apply (i_wf st I).
    - change (hm_rr m2) with (hm_rr m1). unfold m1. rewrite rr_set_slot. unfold m0.
      destruct shrink as [[n lay]|]; cbn [set_layout hm_rr]; apply (i_rr st I).
    - unfold qsafeb. rewrite EP2, EQ2. cbn [d2 d_vq].
      pose proof c_tx as T. apply N.ltb_lt in T. rewrite T. reflexivity.
    - reflexivity.
    - unfold tail. pose proof c_shrink as CS. destruct shrink as [[n lay]|]; [|reflexivity].
      destruct (CS n lay eq_refl) as (L1 & L2 & L3).
      cbn [win_okb forallb]. rewrite <- (len_okb_ext d d2 n Egd), L1. cbn [d2 d_rp]. rewrite L2. reflexivity.
    - cbn [d2 d_len]. rewrite <- (len_okb_ext d d2 _ Egd). exact C1.
    - cbn [d2 d_rp d_len]. apply c_rng.
    - rewrite Ecur.
      change (hm_layout m2) with (hm_layout m1). replace (hm_layout m1) with (hm_layout m0) by (unfold m1; now rewrite lay_set_slot).
      assert (Wm2 : hm_wf m2) by exact Wf2.
      pose proof c_shrink as CS. pose proof c_geom1 as G1.
      destruct shrink as [[n lay]|].
      + destruct (CS n lay eq_refl) as (L1 & L2 & L3).
        unfold m0. cbn [set_layout hm_layout]. rewrite <- L3.
        apply lay_okb_ext; [exact Wm2 | apply (f_wf st I) | exact G1].
      + unfold m0. rewrite <- (i_lay st I).
        apply lay_okb_ext; [exact Wm2 | apply (f_wf st I) | exact G1].
    - rewrite Ho. discriminate.
  Qed.

  Lemma commit_post_facts :
    p_open cpost = true /\ p_rfs cpost = false
    /\ d_hdr (p_d cpost) = enc_hdr (p_mem cpost) /\ hm_2pc (p_mem cpost) = two.
  Proof. rewrite commit_post_eq. cbn [p_open p_rfs p_d p_mem d2 d_hdr]. repeat split; auto. Qed.

End Commit.

(* what run_commit computes: the header records, the summary between the two flushes, the windows *)
Definition cm0 (st : pst) (shrink : option (N * bytes)) : hdrm :=
  match shrink with Some (_, lay) => set_layout (p_mem st) lay | None => p_mem st end.
Definition cm1 (st : pst) (q : bytes) (shrink : option (N * bytes)) : hdrm :=
  set_slot (cm0 st shrink) (negb (hm_prim (cm0 st shrink))) q.
Definition cm2 (st : pst) (two : bool) (q : bytes) (shrink : option (N * bytes)) : hdrm :=
  promote (cm1 st q shrink) two.
Definition cd1 (st : pst) (q : bytes) (rng : list range) (shrink : option (N * bytes)) : dsum :=
  if hm_2pc (p_mem st)
  then mkDsum (enc_hdr (cm1 st q shrink)) (cur_len st) (d_p (p_d st)) (d_rp (p_d st)) true (Some rng)
  else mkDsum (enc_hdr (cm1 st q shrink)) (cur_len st) (negb (hm_prim (cm0 st shrink))) rng true None.
Definition commit_windows (st : pst) (two : bool) (q : bytes) (rng : list range) (pgs : list (N * bytes))
           (shrink : option (N * bytes)) : list wrec :=
  if two
  then [mkWrec (p_d st) (p_win st ++ page_writes pgs ++ [hdr_write (cm1 st q shrink)]) true;
        mkWrec (cd1 st q rng shrink) ([] ++ [hdr_write (cm2 st true q shrink)]) true]
  else [mkWrec (p_d st) (p_win st ++ page_writes pgs ++ [hdr_write (cm2 st false q shrink)]) true].

Lemma cur_len_hdr st w m' :
  hm_wf m' -> cur_len (mkPst (p_d st) (w ++ [hdr_write m']) (p_mem st) (p_rfs st) (p_open st))
              = next_len (p_d st) (map abs w).
Proof. intros W. unfold cur_len. cbn [p_d p_win]. apply (oh_next_len (p_d st) w m' W). Qed.

Lemma cur_len_one_hdr d' m' mem rfs opn :
  hm_wf m' -> cur_len (mkPst d' ([] ++ [hdr_write m']) mem rfs opn) = d_len d'.
Proof. intros W. unfold cur_len. cbn [p_d p_win]. now rewrite (oh_next_len d' [] m' W). Qed.

Lemma run_commit_eq st two q rng pgs shrink ws0 ops0 :
  hm_wfb (cm1 st q shrink) = true -> pages_okb (d_rp (p_d st)) pgs = true ->
  let b := run_commit (mkAcc st ws0 ops0) two q rng pgs shrink in
  a_st b = commit_post st two q rng shrink /\ a_ws b = ws0 ++ commit_windows st two q rng pgs shrink.
Proof.
  intros W1 Hp.
  assert (Wf1 : hm_wf (cm1 st q shrink)) by (apply hm_wfb_wf; exact W1).
  assert (Wf2 : forall t, hm_wf (cm2 st t q shrink)) by (intros t; apply hm_wfb_wf; exact W1).
  assert (El : forall m' mem rfs opn, hm_wf m' ->
           cur_len (mkPst (p_d st) (p_win st ++ page_writes pgs ++ [hdr_write m']) mem rfs opn) = cur_len st).
  { intros m' mem rfs opn Wm. unfold cur_len at 1. cbn [p_d p_win].
    rewrite app_assoc, (oh_next_len (p_d st) (p_win st ++ page_writes pgs) m' Wm).
    apply (next_len_app_pages _ _ _ _ Hp). }
  unfold run_commit, commit_post, commit_windows. cbn [a_st p_mem p_d].
  fold (cm0 st shrink). fold (cm1 st q shrink).
  destruct two.
  - fold (cm2 st true q shrink).
    unfold a_issue, a_sync, a_mem. cbn [a_st a_ws a_ops p_d p_win p_mem p_rfs p_open].
    rewrite !(El _ _ _ _ Wf1). fold (cd1 st q rng shrink).
    change ([hdr_write (cm2 st true q shrink)]) with ([] ++ [hdr_write (cm2 st true q shrink)]).
    rewrite !(cur_len_one_hdr _ _ _ _ _ (Wf2 true)).
    assert (Ed : d_len (cd1 st q rng shrink) = cur_len st) by (unfold cd1; destruct (hm_2pc (p_mem st)); reflexivity).
    rewrite Ed. unfold cm2.
    destruct shrink as [[n lay]|]; cbn [a_st a_ws a_ops p_d p_win p_mem p_rfs p_open app];
      rewrite <- ?app_assoc; split; reflexivity.
  - fold (cm2 st false q shrink).
    unfold a_issue, a_sync, a_mem. cbn [a_st a_ws a_ops p_d p_win p_mem p_rfs p_open].
    rewrite !(El _ _ _ _ (Wf2 false)). unfold cm2.
    destruct shrink as [[n lay]|]; cbn [a_st a_ws a_ops p_d p_win p_mem p_rfs p_open app];
      rewrite <- ?app_assoc; split; reflexivity.
Qed.

(* ---------- begin_writable / the clean flag: what the accumulator holds afterwards ---------- *)

Lemma rr_step_eq_v a b rfs' vq' :
  p_win (a_st a) = [] -> hm_wfb (p_mem (a_st a)) = true ->
  let m := set_rr (p_mem (a_st a)) b in
  let a1 := a_issue a [hdr_write m] in
  let r := a_mem (a_sync a1 (d_same (a_st a1) m vq' None)) m rfs' b in
  a_ws r = a_ws a ++ [mkWrec (p_d (a_st a)) ([] ++ [hdr_write m]) true]
  /\ a_st r = mkPst (mkDsum (enc_hdr m) (d_len (p_d (a_st a))) (d_p (p_d (a_st a))) (d_rp (p_d (a_st a)))
                            vq' None) [] m rfs' b.
Proof.
  intros Ew W m a1 r.
  assert (Wm : hm_wf m) by (apply hm_wfb_wf; exact W).
  unfold r, a1, a_mem, a_sync, a_issue, d_same. cbn [a_st a_ws a_ops p_d p_win p_mem p_rfs p_open].
  rewrite Ew. rewrite (cur_len_one_hdr _ _ _ _ _ Wm). split; reflexivity.
Qed.

Lemma rr_step_eq a b rfs' :
  p_win (a_st a) = [] -> hm_wfb (p_mem (a_st a)) = true ->
  let m := set_rr (p_mem (a_st a)) b in
  let a1 := a_issue a [hdr_write m] in
  let r := a_mem (a_sync a1 (d_same (a_st a1) m (d_vq (p_d (a_st a1))) None)) m rfs' b in
  a_ws r = a_ws a ++ [mkWrec (p_d (a_st a)) ([] ++ [hdr_write m]) true]
  /\ a_st r = mkPst (mkDsum (enc_hdr m) (d_len (p_d (a_st a))) (d_p (p_d (a_st a))) (d_rp (p_d (a_st a)))
                            (d_vq (p_d (a_st a))) None) [] m rfs' b.
Proof.
  intros Ew W m a1 r.
  assert (Wm : hm_wf m) by (apply hm_wfb_wf; exact W).
  unfold r, a1, a_mem, a_sync, a_issue, d_same. cbn [a_st a_ws a_ops p_d p_win p_mem p_rfs p_open].
  rewrite Ew. rewrite (cur_len_one_hdr _ _ _ _ _ Wm). split; reflexivity.
Qed.

(* ---------- one protocol step ---------- *)

Lemma wrec_okb_mk d W : wrec_okb (mkWrec d W true) = window_okb d (map abs W) true.
Proof. reflexivity. Qed.

Lemma commit_step_ok st two q rng pgs shrink :
  Inv st -> p_open st = true -> commit_okb st q rng pgs shrink = true ->
  forallb wrec_okb (commit_windows st two q rng pgs shrink) = true
  /\ Inv (commit_post st two q rng shrink).
Proof.
  intros I Ho Hc. split; [|exact (commit_post_inv st two q rng pgs shrink I Ho Hc)].
  unfold commit_windows. destruct two; cbn [forallb]; rewrite !wrec_okb_mk, ?andb_true_r.
  - apply andb_true_iff. split.
    + rewrite app_assoc. exact (commit_2pc_window1 st true q rng pgs shrink I Ho Hc).
    + exact (commit_2pc_window2 st true q rng pgs shrink I Ho Hc eq_refl).
  - rewrite app_assoc. exact (commit_1pc_window st false q rng pgs shrink I Ho Hc eq_refl).
Qed.

Lemma commit_wf1 st q rng pgs shrink :
  Inv st -> commit_okb st q rng pgs shrink = true -> hm_wfb (cm1 st q shrink) = true.
Proof. intros I Hc. exact (c_wf1 st true q rng pgs shrink I Hc). Qed.

Lemma commit_pages st q rng pgs shrink :
  commit_okb st q rng pgs shrink = true -> pages_okb (d_rp (p_d st)) pgs = true.
Proof. unfold commit_okb. rewrite !andb_true_iff. tauto. Qed.

Theorem step_ok st s :
  Inv st -> step_okb st s = true ->
  forallb wrec_okb (a_ws (run_step st s)) = true /\ Inv (a_st (run_step st s)).
Proof.
  intros I Hs. destruct s as [pgs | n lay | two q rng pgs shrink | q | q rng pgs shrink | ];
    cbn [step_okb] in Hs.
  - (* PEvict *)
    apply andb_true_iff in Hs as [Ho Hp]. split; [reflexivity|].
    exact (evict_ok st pgs I Ho Hp).
  - (* PGrow *)
    rewrite !andb_true_iff in Hs. destruct Hs as (((Ho & Hn) & Hle) & Hl). apply N.leb_le in Hle.
    destruct (grow_ok st n lay I Ho Hn Hle Hl) as [W J].
    split; [|exact J]. cbn [run_step a_ws a_sync a_issue a_start a_mem a_st p_d p_win app forallb].
    change (wrec_okb (open_window (mkPst (p_d st) (p_win st ++ [SetLen n]) (p_mem st) (p_rfs st) (p_open st))) && true = true).
    now rewrite W.
  - (* PCommit *)
    apply andb_true_iff in Hs as [Ho Hc].
    destruct (run_commit_eq st two q rng pgs shrink [] [] (commit_wf1 _ _ _ _ _ I Hc) (commit_pages _ _ _ _ _ Hc)) as [E1 E2].
    destruct (commit_step_ok st two q rng pgs shrink I Ho Hc) as [W J].
    cbn [run_step]. unfold a_start. rewrite E1, E2. cbn [app]. auto.
  - (* PNonDurable *)
    apply andb_true_iff in Hs as [Ho Hq]. split; [reflexivity|].
    cbn [run_step a_mem a_start a_st p_d p_win p_mem p_rfs p_open].
    constructor; cbn [p_d p_win p_mem p_rfs p_open].
    + exact (i_hlen st I).
    + exact (i_magic st I).
    + apply wfb_set_slot; [exact (i_wf st I) | exact Hq].
    + rewrite (i_god st I). unfold hm_god. now rewrite prim_set_slot, rr_set_slot; destruct (negb (hm_prim (p_mem st))).
    + rewrite geom_set_slot. exact (i_geom st I).
    + rewrite prim_set_slot. exact (i_p st I).
    + rewrite prim_set_slot. rewrite <- (negb_involutive (hm_prim (p_mem st))) at 2.
      rewrite slot_set_other, negb_involutive. exact (i_P st I).
    + exact (i_Q st I).
    + rewrite rr_set_slot. exact (i_rr st I).
    + exact (i_qsafe st I).
    + exact (i_rq st I).
    + exact (i_win st I).
    + exact (i_len st I).
    + exact (i_rp st I).
    + rewrite lay_set_slot. change (cur_len _) with (cur_len st). rewrite <- (i_lay st I).
      apply lay_okb_ext; [|exact (f_wf st I)|apply geom_set_slot].
      apply hm_wfb_wf. apply wfb_set_slot; [exact (i_wf st I) | exact Hq].
    + rewrite Ho. discriminate.
  - (* PClose *)
    apply andb_true_iff in Hs as [Ho Hc].
    set (cpost := commit_post st true q rng shrink).
    set (cw := commit_windows st true q rng pgs shrink).
    set (a1 := run_commit (mkAcc st [] []) true q rng pgs shrink).
    destruct (run_commit_eq st true q rng pgs shrink [] [] (commit_wf1 _ _ _ _ _ I Hc) (commit_pages _ _ _ _ _ Hc)) as [E1 E2].
    fold a1 cpost in E1. fold a1 cw in E2. cbn [app] in E2.
    destruct (commit_step_ok st true q rng pgs shrink I Ho Hc) as [W J]. fold cw in W. fold cpost in J.
    destruct (commit_post_facts st true q rng shrink Ho) as (F1 & F2 & F3 & F4). fold cpost in F1, F2, F3, F4.
    set (a2 := a_sync a1 (d_keep (a_st a1))).
    assert (S2 : a_st a2 = mkPst (d_keep cpost) [] (p_mem cpost) (p_rfs cpost) (p_open cpost)).
    { unfold a2, a_sync. rewrite E1. reflexivity. }
    assert (W2 : a_ws a2 = cw ++ [open_window cpost]).
    { unfold a2, a_sync. rewrite E1, E2. reflexivity. }
    pose proof (sync_plain_inv cpost J F1) as J2. rewrite <- S2 in J2.
    assert (Ew2 : p_win (a_st a2) = []) by (rewrite S2; reflexivity).
    destruct (rr_step_eq a2 false false Ew2 (i_wf _ J2)) as [W3 S3].
    change (run_step st (PClose q rng pgs shrink))
      with (let m := set_rr (p_mem (a_st a2)) false in
            let a3 := a_issue a2 [hdr_write m] in
            a_mem (a_sync a3 (d_same (a_st a3) m (d_vq (p_d (a_st a3))) None)) m false false).
    cbv zeta in W3, S3 |- *. rewrite W3, S3, W2.
    assert (Wfm : hm_wf (p_mem cpost)) by (apply (f_wf cpost J)).
    assert (P1 : layout_at (dh (a_st a2)) = hm_layout (p_mem (a_st a2))).
    { rewrite S2. unfold dh. cbn [p_d p_mem]. change (d_hdr (d_keep cpost)) with (d_hdr (p_d cpost)).
      rewrite F3. apply (layout_enc _ Wfm). }
    assert (P2 : dQ (p_d (a_st a2)) = hm_slot (p_mem (a_st a2)) (negb (hm_prim (p_mem (a_st a2))))).
    { rewrite S2. cbn [p_d p_mem]. rewrite keep_Q. unfold dQ. rewrite F3, (slot_enc _ _ Wfm), (i_p cpost J). reflexivity. }
    assert (P3 : false = false -> p_rfs (a_st a2) = false) by (intros _; rewrite S2; exact F2).
    destruct (rr_window (a_st a2) false J2 Ew2 P1 P2 P3) as (W4 & J4 & _). cbv zeta in W4, J4.
    split.
    + rewrite !forallb_app, W. cbn [forallb]. rewrite (open_window_ok cpost J), wrec_okb_mk, W4. reflexivity.
    + replace (p_rfs (a_st a2)) with false in J4 by (symmetry; apply P3; reflexivity). exact J4.
  - (* POpen *)
    apply negb_true_iff in Hs.
    destruct (i_closed st I Hs) as (Ew & El & EQ & Er).
    destruct (rr_step_eq (a_start st) true (p_rfs st) Ew (i_wf st I)) as [W3 S3].
    change (run_step st POpen)
      with (let m := set_rr (p_mem (a_st (a_start st))) true in
            let a1 := a_issue (a_start st) [hdr_write m] in
            a_mem (a_sync a1 (d_same (a_st a1) m (d_vq (p_d (a_st a1))) None)) m (p_rfs st) true).
    cbv zeta in W3, S3 |- *. rewrite W3, S3. cbn [a_start a_st a_ws].
    assert (P3 : true = false -> p_rfs st = false) by discriminate.
    destruct (rr_window st true I Ew El EQ P3) as (W4 & J4 & _). cbv zeta in W4, J4.
    split; [|exact J4]. change ([] ++ [mkWrec (p_d st) ([] ++ [hdr_write (set_rr (p_mem st) true)]) true])
      with [mkWrec (p_d st) ([] ++ [hdr_write (set_rr (p_mem st) true)]) true].
    cbn [forallb]. rewrite wrec_okb_mk, W4. reflexivity.
Qed.

(* ---------- whole histories: every window accepted, the invariant kept ---------- *)

Lemma run_steps_cons st s r :
  run_steps st (s :: r)
  = mkAcc (a_st (run_steps (a_st (run_step st s)) r))
          (a_ws (run_step st s) ++ a_ws (run_steps (a_st (run_step st s)) r))
          (a_ops (run_step st s) ++ a_ops (run_steps (a_st (run_step st s)) r)).
Proof. reflexivity. Qed.

Theorem steps_ok st ss :
  Inv st -> steps_okb st ss = true ->
  forallb wrec_okb (all_windows (run_steps st ss)) = true /\ Inv (a_st (run_steps st ss)).
Proof.
  revert st. induction ss as [|s r IH]; intros st I Hs.
  - split; [|exact I]. unfold all_windows. cbn [run_steps a_start a_ws a_st app forallb].
    now rewrite (open_window_ok st I).
  - cbn [steps_okb] in Hs. apply andb_true_iff in Hs as [Hs Hr].
    destruct (step_ok st s I Hs) as [W J]. destruct (IH _ J Hr) as [W' J'].
    rewrite run_steps_cons. unfold all_windows in *. cbn [a_ws a_st]. split; [|exact J'].
    rewrite <- app_assoc, forallb_app, W. exact W'.
Qed.

(* ====================================================================================== *)
(* Part 3: the summaries are truthful; crash safety of every history                       *)
(* ====================================================================================== *)

(* the slot the summary names as served is the one recovery's slot selection ends with *)
Definition served_okb (d : dsum) : bool :=
  if flag (dgod d) TWO_PHASE_COMMIT then negb (names_q d (dgod d))
  else negb (first_is_q (names_q d (dgod d)) (d_vq d) (slot_txid (dQ d)) (slot_txid (dP d))).

Section Sem.
  Variable H : bytes -> bytes.
  Variable expect : bytes -> list (N * bytes).
  Variable ps : N.
  Hypothesis H_tear : forall a b m,
    cks_ok H a = true -> cks_ok H b = true -> mix2 a b m -> cks_ok H m = true -> m = a \/ m = b.
  Hypothesis expect_above : forall s e, In e (expect s) -> DB_HEADER_SIZE <= fst e.

  Lemma next_hdr_length d aw :
    length (d_hdr d) = HDR_LEN -> c_static d aw = true -> length (next_hdr d aw) = HDR_LEN.
  Proof.
    intros Hl Hs. unfold next_hdr. destruct (last_in_cons (hdrs aw) (d_hdr d)) as [E | E].
    - rewrite <- E. exact Hl.
    - unfold c_static in Hs. rewrite forallb_forall in Hs. specialize (Hs _ E).
      apply andb_true_iff in Hs as [A _]. now apply Nat.eqb_eq in A.
  Qed.

  (* the summary d' of the image a window produces is truthful, given what it claims about the slots.
     Which slot recovery serves: a 2PC god byte names it; a 1PC god byte either tries it first, or tries the
     other slot first and that one does not verify (or holds the same bytes) *)
  Lemma image_ok_next_gen d W D d' :
    image_ok H expect ps d D -> fresh_ok H d (map abs W) true -> window_okb d (map abs W) true = true ->
    d_hdr d' = next_hdr d (map abs W) -> d_len d' = next_len d (map abs W) ->
    cks_ok H (dP d') = true -> ver expect (apply_ops W D) (dP d') = true ->
    (forall e, In e (expect (dP d')) -> range_covered (d_rp d') (fst e) (wlen (snd e)) = true) ->
    cks_ok H (dQ d') = d_vq d' ->
    (forall rq, d_rq d' = Some rq ->
       ver expect (apply_ops W D) (dQ d') = true
       /\ forall e, In e (expect (dQ d')) -> range_covered rq (fst e) (wlen (snd e)) = true) ->
    (if flag (dgod d') TWO_PHASE_COMMIT then names_q d' (dgod d') = false
     else first_is_q (names_q d' (dgod d')) (d_vq d') (slot_txid (dQ d')) (slot_txid (dP d')) = false
          \/ ver expect (apply_ops W D) (dQ d') = false \/ dQ d' = dP d') ->
    image_ok H expect ps d' (apply_ops W D).
  Proof.
    intros IO FO OK Eh El HPc HPv HPcov Hvq Hrq Hsv.
    set (D' := apply_ops W D) in *.
    destruct (window_okb_inv _ _ _ OK) as (Hhl & Hshape & Hstatic & _ & _ & _ & Hlens & _).
    destruct (apply_summary d W D Hshape Hlens (io_hdr _ _ _ _ _ IO) (io_len _ _ _ _ _ IO)) as [Sh Sl].
    fold D' in Sh, Sl.
    assert (Hh' : forall i, i < DB_HEADER_SIZE -> iat D' i = hget (d_hdr d') i) by (intros i Hi; rewrite Eh; auto).
    assert (Hs' : forall k, slot_at (iat D') k = slot_at (hget (d_hdr d')) k)
      by (intros k; apply rd_ext; intros i Hi; apply Hh'; eapply slot_in_hdr; eauto).
    assert (Hg' : god (iat D') = dgod d') by (apply Hh'; apply god_in_hdr).
    pose proof (crash_window_safe H expect ps H_tear expect_above d W true D D' IO FO OK (apply_is_crash W D)) as CO.
    assert (Hx : exists x, recover H expect ps D' = Some x) by (destruct CO as [E | [E _]]; eauto).
    destruct Hx as [x Ex].
    destruct (recover_Some_inv H expect ps D' x Ex) as (R0 & R1 & R2 & R3 & R4 & R5 & R6).
    assert (Esel : select H (god (iat D')) (slot_at (iat D') false) (slot_at (iat D') true) (ver expect D')
                   = Some (dP d')).
    { rewrite Hg', !Hs'.
      assert (E2 : select H (dgod d') (slot_at (hget (d_hdr d')) false) (slot_at (hget (d_hdr d')) true) (ver expect D')
                   = select H (dgod d') (if d_p d' then dQ d' else dP d') (if d_p d' then dP d' else dQ d') (ver expect D')).
      { unfold dP, dQ. destruct (d_p d'); reflexivity. }
      rewrite E2, (select_char H _ _ _ _ _ HPc HPv). clear E2.
      fold (names_q d' (dgod d')). rewrite Hvq.
      destruct (flag (dgod d') TWO_PHASE_COMMIT).
      - now rewrite Hsv.
      - destruct Hsv as [A | [A | A]].
        + now rewrite A.
        + rewrite A. now destruct (first_is_q _ _ _ _).
        + rewrite A. destruct (first_is_q _ _ _ _); [|reflexivity]. now destruct (ver expect D' (dP d')). }
    constructor; auto.
    - rewrite Eh. apply next_hdr_length; auto.
    - rewrite El. exact Sl.
    - rewrite Ex. rewrite R6 in Esel. exact Esel.
  Qed.

  Lemma image_ok_next d W D d' :
    image_ok H expect ps d D -> fresh_ok H d (map abs W) true -> window_okb d (map abs W) true = true ->
    d_hdr d' = next_hdr d (map abs W) -> d_len d' = next_len d (map abs W) ->
    cks_ok H (dP d') = true -> ver expect (apply_ops W D) (dP d') = true ->
    (forall e, In e (expect (dP d')) -> range_covered (d_rp d') (fst e) (wlen (snd e)) = true) ->
    cks_ok H (dQ d') = d_vq d' ->
    (forall rq, d_rq d' = Some rq ->
       ver expect (apply_ops W D) (dQ d') = true
       /\ forall e, In e (expect (dQ d')) -> range_covered rq (fst e) (wlen (snd e)) = true) ->
    served_okb d' = true ->
    image_ok H expect ps d' (apply_ops W D).
  Proof.
    intros IO FO OK Eh El HPc HPv HPcov Hvq Hrq Hsv.
    apply (image_ok_next_gen d W D d' IO FO OK Eh El HPc HPv HPcov Hvq Hrq).
    unfold served_okb in Hsv. destruct (flag (dgod d') TWO_PHASE_COMMIT).
    - now apply negb_true_iff in Hsv.
    - left. now apply negb_true_iff in Hsv.
  Qed.

  (* a slot that is already torn stays invalid under further partial overwriting (the premise fo_dead of
     crash_window_safe, needed only while the summary says that slot Q is checksum-invalid) *)
  Definition dead (d : dsum) : Prop :=
    d_vq d = false -> forall b m, mix2 (dQ d) b m -> cks_ok H m = true -> m = b.

  Record Sem (st : pst) (D : image) : Prop := mkSem {
    s_io : image_ok H expect ps (p_d st) D;
    s_dead : dead (p_d st)
  }.

  Lemma fresh_of d aw :
    dead d -> (wq d aw <> dQ d -> cks_ok H (wq d aw) = true) -> fresh_ok H d aw true.
  Proof. intros Hd Hn. constructor; [intros _; exact Hn | intros E m Hm Hc; exact (Hd E _ _ Hm Hc)]. Qed.

  Lemma inv_served st : Inv st -> served_okb (p_d st) = true.
  Proof.
    intros I. unfold served_okb. rewrite (f_names st I). destruct (flag (dgod (p_d st)) TWO_PHASE_COMMIT); [reflexivity|].
    unfold first_is_q. destruct (qsafe_cases _ (i_qsafe st I)) as [E | [E | E]].
    - rewrite E. reflexivity.
    - assert (F : slot_txid (dP (p_d st)) <? slot_txid (dQ (p_d st)) = false) by (apply N.ltb_ge; lia).
      rewrite F, andb_false_r. reflexivity.
    - rewrite E, N.ltb_irrefl, andb_false_r. reflexivity.
  Qed.

  (* the served commit survives a window the validator accepts *)
  Lemma ver_P_after d W D :
    image_ok H expect ps d D -> window_okb d (map abs W) true = true ->
    ver expect (apply_ops W D) (dP d) = true.
  Proof.
    intros IO OK. destruct (window_okb_inv _ _ _ OK) as (_ & Hshape & _ & _ & _ & Hcow & _).
    eapply (ver_protected expect expect_above d W D); eauto using apply_is_crash.
    - apply (io_len _ _ _ _ _ IO).
    - apply (io_pcov _ _ _ _ _ IO).
    - apply (io_pver _ _ _ _ _ IO).
  Qed.

  (* a window that leaves both slots as they are *)
  Lemma sem_keep d D W d' :
    image_ok H expect ps d D -> dead d -> window_okb d (map abs W) true = true ->
    wq d (map abs W) = dQ d ->
    d_hdr d' = next_hdr d (map abs W) -> d_len d' = next_len d (map abs W) ->
    d_p d' = d_p d -> d_rp d' = d_rp d -> d_vq d' = d_vq d -> d_rq d' = None ->
    dP d' = dP d -> dQ d' = dQ d -> served_okb d' = true ->
    fresh_ok H d (map abs W) true /\ image_ok H expect ps d' (apply_ops W D) /\ dead d'.
  Proof.
    intros IO Hd OK Ewq Eh El Ep Erp Evq Erq EP EQ Hsv.
    assert (FO : fresh_ok H d (map abs W) true) by (apply fresh_of; auto; intros Hne; contradiction).
    split; [exact FO|]. split.
    - apply (image_ok_next d W D d' IO FO OK Eh El).
      + rewrite EP. apply (io_pcks _ _ _ _ _ IO).
      + rewrite EP. apply ver_P_after; auto.
      + rewrite EP, Erp. apply (io_pcov _ _ _ _ _ IO).
      + rewrite EQ, Evq. apply (io_vq _ _ _ _ _ IO).
      + intros rq E. rewrite Erq in E. discriminate.
      + exact Hsv.
    - unfold dead. rewrite Evq, EQ. exact Hd.
  Qed.

  (* ---- a sync of page writes / set_len (grow; the flush before the clean flag) ---- *)
  Lemma sem_plain st extra D :
    Inv st -> p_open st = true -> win_okb (p_d st) extra = true -> Sem st D ->
    let st1 := mkPst (p_d st) (p_win st ++ extra) (p_mem st) (p_rfs st) (p_open st) in
    fresh_ok H (p_d st) (map abs (p_win st ++ extra)) true
    /\ image_ok H expect ps (d_keep st1) (apply_ops (p_win st ++ extra) D)
    /\ dead (d_keep st1).
  Proof.
    intros I Ho He [IO Hd] st1.
    assert (Hw : win_okb (p_d st) (p_win st ++ extra) = true) by (now rewrite win_okb_app, (i_win st I), He).
    pose proof (win_hdrs _ _ Hw) as Eh.
    apply sem_keep; auto.
    - apply plain_window_ok; auto.
    - unfold wq. now rewrite Eh.
    - unfold next_hdr. now rewrite Eh.
    - pose proof (inv_served st I) as Sv. unfold served_okb in *.
      change (dgod (d_keep st1)) with (dgod (p_d st)). change (names_q (d_keep st1)) with (names_q (p_d st)).
      rewrite keep_P, keep_Q. exact Sv.
  Qed.

  (* ---- a header write that only moves recovery_required ---- *)
  Lemma sem_rr st b D :
    Inv st -> p_win st = [] -> layout_at (dh st) = hm_layout (p_mem st) ->
    dQ (p_d st) = hm_slot (p_mem st) (negb (hm_prim (p_mem st))) -> (b = false -> p_rfs st = false) ->
    Sem st D ->
    let m' := set_rr (p_mem st) b in
    let d := p_d st in
    let d' := mkDsum (enc_hdr m') (d_len d) (d_p d) (d_rp d) (d_vq d) None in
    fresh_ok H d (map abs ([] ++ [hdr_write m'])) true
    /\ image_ok H expect ps d' (apply_ops ([] ++ [hdr_write m']) D) /\ dead d'.
  Proof.
    intros I Ew El EQ Hr [IO Hd] m' d d'.
    destruct (rr_window st b I Ew El EQ Hr) as (W & J & EP' & EQ'). fold m' d d' in W, J, EP', EQ'.
    assert (Wf' : hm_wf m') by (apply hm_wfb_wf; apply (i_wf st I)).
    assert (Wpre : win_okb d [] = true) by reflexivity.
    apply sem_keep; auto.
    - rewrite (oh_wq d [] m' Wf' Wpre). unfold m'.
      change (hm_slot (set_rr (p_mem st) b) (negb (d_p d))) with (hm_slot (p_mem st) (negb (d_p d))).
      unfold d. rewrite (i_p st I). symmetry. exact EQ.
    - rewrite (oh_next_hdr d [] m' Wf' Wpre). reflexivity.
    - rewrite (oh_next_len d [] m' Wf'). reflexivity.
    - exact (inv_served _ J).
  Qed.
End Sem.

(* ---------- the header records of a commit, field by field ---------- *)

Lemma cm0_prim st shrink : hm_prim (cm0 st shrink) = hm_prim (p_mem st).
Proof. unfold cm0. destruct shrink as [[n lay]|]; reflexivity. Qed.
Lemma cm1_slot_p st q shrink :
  hm_slot (cm1 st q shrink) (hm_prim (p_mem st)) = hm_slot (p_mem st) (hm_prim (p_mem st)).
Proof.
  unfold cm1, cm0. destruct (p_mem st) as [pp rr tt ge la s0 s1].
  destruct shrink as [[n lay]|]; destruct pp; reflexivity.
Qed.
Lemma cm1_slot_sec st q shrink : hm_slot (cm1 st q shrink) (negb (hm_prim (p_mem st))) = q.
Proof.
  unfold cm1, cm0. destruct (p_mem st) as [pp rr tt ge la s0 s1].
  destruct shrink as [[n lay]|]; destruct pp; reflexivity.
Qed.
Lemma cm1_god st q shrink : hm_god (cm1 st q shrink) = hm_god (p_mem st).
Proof.
  unfold cm1, cm0, hm_god. destruct (p_mem st) as [pp rr tt ge la s0 s1].
  destruct shrink as [[n lay]|]; destruct pp; reflexivity.
Qed.
Lemma cm2_slot st two q shrink k : hm_slot (cm2 st two q shrink) k = hm_slot (cm1 st q shrink) k.
Proof. reflexivity. Qed.

Section SemCommit.
  Variable H : bytes -> bytes.
  Variable expect : bytes -> list (N * bytes).
  Variable ps : N.
  Hypothesis H_tear : forall a b m,
    cks_ok H a = true -> cks_ok H b = true -> mix2 a b m -> cks_ok H m = true -> m = a \/ m = b.
  Hypothesis expect_above : forall s e, In e (expect s) -> DB_HEADER_SIZE <= fst e.

  Variables (st : pst) (q : bytes) (rng : list range) (pgs : list (N * bytes)) (shrink : option (N * bytes)).
  Variable D : image.
  Hypothesis I : Inv st.
  Hypothesis Ho : p_open st = true.
  Hypothesis Hc : commit_okb st q rng pgs shrink = true.
  Hypothesis S : Sem H expect ps st D.
  (* what the transaction layer owes (C06 ownership + C10 well-formed trees + the cache's flush contract):
     the new slot carries a valid checksum, and once the first flush of the commit is on disk the new
     commit verifies, its pages lying inside rng *)
  Hypothesis Hq : cks_ok H q = true.
  Hypothesis Hcov : forall e, In e (expect q) -> range_covered rng (fst e) (wlen (snd e)) = true.

  Local Notation d := (p_d st).
  Local Notation m := (p_mem st).
  Local Notation pre := (p_win st ++ page_writes pgs).

  Let IO := s_io H expect ps st D S.
  Let Hd := s_dead H expect ps st D S.

  Lemma sc_pre : win_okb d pre = true.
  Proof. rewrite win_okb_app, (i_win st I), (win_pages_ok _ _ (commit_pages _ _ _ _ _ Hc)). reflexivity. Qed.
  Lemma sc_pre_len : next_len d (map abs pre) = cur_len st.
  Proof. apply (next_len_app_pages _ _ _ _ (commit_pages _ _ _ _ _ Hc)). Qed.
  Lemma sc_wf1 : hm_wf (cm1 st q shrink).
  Proof. apply hm_wfb_wf. exact (commit_wf1 _ _ _ _ _ I Hc). Qed.
  Lemma sc_wf2 two : hm_wf (cm2 st two q shrink).
  Proof. apply hm_wfb_wf. exact (commit_wf1 _ _ _ _ _ I Hc). Qed.

  (* the slot a commit's header writes put where D's non-served slot is: q *)
  Lemma sc_wq m' : hm_wf m' -> hm_slot m' (negb (hm_prim m)) = q -> wq d (map abs (pre ++ [hdr_write m'])) = q.
  Proof. intros W E. rewrite (oh_wq d pre m' W sc_pre), (i_p st I). exact E. Qed.

  Lemma sc_fresh m' :
    hm_wf m' -> hm_slot m' (negb (hm_prim m)) = q -> fresh_ok H d (map abs (pre ++ [hdr_write m'])) true.
  Proof. intros W E. apply fresh_of; [exact Hd|]. intros _. now rewrite (sc_wq m' W E). Qed.

  (* the summary after the commit *)
  Lemma sc_post_P two : dP (p_d (commit_post st two q rng shrink)) = q.
  Proof.
    unfold commit_post, dP. cbn [p_d d_hdr d_p]. fold (cm0 st shrink). fold (cm1 st q shrink). fold (cm2 st two q shrink).
    rewrite (slot_enc _ _ (sc_wf2 two)), cm2_slot, cm0_prim. apply cm1_slot_sec.
  Qed.
  Lemma sc_post_Q two : dQ (p_d (commit_post st two q rng shrink)) = dP d.
  Proof.
    unfold commit_post, dQ. cbn [p_d d_hdr d_p]. fold (cm0 st shrink). fold (cm1 st q shrink). fold (cm2 st two q shrink).
    rewrite (slot_enc _ _ (sc_wf2 two)), cm2_slot, cm0_prim, negb_involutive, cm1_slot_p. symmetry. apply (i_P st I).
  Qed.

  (* 1PC *)
  Lemma sem_commit_1pc :
    ver expect (apply_ops (pre ++ [hdr_write (cm2 st false q shrink)]) D) q = true ->
    fresh_ok H d (map abs (pre ++ [hdr_write (cm2 st false q shrink)])) true
    /\ Sem H expect ps (commit_post st false q rng shrink) (apply_ops (pre ++ [hdr_write (cm2 st false q shrink)]) D).
  Proof.
    intros Hv. pose proof (sc_wf2 false) as W2.
    assert (E2 : hm_slot (cm2 st false q shrink) (negb (hm_prim m)) = q) by (rewrite cm2_slot; apply cm1_slot_sec).
    pose proof (sc_fresh _ W2 E2) as FO. split; [exact FO|].
    pose proof (commit_1pc_window st false q rng pgs shrink I Ho Hc eq_refl) as OK.
    pose proof (commit_post_inv st false q rng pgs shrink I Ho Hc) as J.
    constructor.
    - apply (image_ok_next H expect ps H_tear expect_above d _ D _ IO FO OK).
      + rewrite (oh_next_hdr d pre _ W2 sc_pre). reflexivity.
      + rewrite (oh_next_len d pre _ W2), sc_pre_len. reflexivity.
      + rewrite sc_post_P. exact Hq.
      + rewrite sc_post_P. exact Hv.
      + rewrite sc_post_P. exact Hcov.
      + rewrite sc_post_Q. apply (io_pcks _ _ _ _ _ IO).
      + intros rq E. discriminate.
      + exact (inv_served _ J).
    - intros E. discriminate.
  Qed.

  (* 2PC *)
  Local Notation d1 := (cd1 st q rng shrink).
  Local Notation W1 := (pre ++ [hdr_write (cm1 st q shrink)]).
  Local Notation W2 := ([] ++ [hdr_write (cm2 st true q shrink)]).

  Lemma sc_d1_hdr : d_hdr d1 = enc_hdr (cm1 st q shrink).
  Proof. unfold cd1. destruct (hm_2pc m); reflexivity. Qed.
  Lemma sc_d1_len : d_len d1 = cur_len st.
  Proof. unfold cd1. destruct (hm_2pc m); reflexivity. Qed.
  Lemma sc_d1_vq : d_vq d1 = true.
  Proof. unfold cd1. destruct (hm_2pc m); reflexivity. Qed.
  Lemma sc_d1_slot k : slot_at (hget (d_hdr d1)) k = hm_slot (cm1 st q shrink) k.
  Proof. rewrite sc_d1_hdr. apply (slot_enc _ _ sc_wf1). Qed.

  Lemma sem_commit_2pc_first :
    ver expect (apply_ops W1 D) q = true ->
    fresh_ok H d (map abs W1) true /\ image_ok H expect ps d1 (apply_ops W1 D).
  Proof.
    intros Hv. pose proof sc_wf1 as Wf1.
    pose proof (sc_fresh _ Wf1 (cm1_slot_sec st q shrink)) as FO. split; [exact FO|].
    pose proof (commit_2pc_window1 st true q rng pgs shrink I Ho Hc) as OK.
    assert (Egod : dgod d1 = hm_god m) by (unfold dgod; rewrite sc_d1_hdr, god_enc; apply cm1_god).
    apply (image_ok_next H expect ps H_tear expect_above d _ D d1 IO FO OK).
    - rewrite sc_d1_hdr, (oh_next_hdr d pre _ Wf1 sc_pre). reflexivity.
    - rewrite sc_d1_len, (oh_next_len d pre _ Wf1), sc_pre_len. reflexivity.
    - unfold dP. rewrite sc_d1_slot. unfold cd1. destruct (hm_2pc m); cbn [d_p].
      + rewrite (i_p st I), cm1_slot_p, <- (i_P st I). apply (io_pcks _ _ _ _ _ IO).
      + rewrite cm0_prim, cm1_slot_sec. exact Hq.
    - unfold dP. rewrite sc_d1_slot. unfold cd1. destruct (hm_2pc m); cbn [d_p].
      + rewrite (i_p st I), cm1_slot_p, <- (i_P st I). apply (ver_P_after H expect ps expect_above); auto.
      + rewrite cm0_prim, cm1_slot_sec. exact Hv.
    - unfold dP. rewrite sc_d1_slot. unfold cd1. destruct (hm_2pc m); cbn [d_p d_rp].
      + rewrite (i_p st I), cm1_slot_p, <- (i_P st I). apply (io_pcov _ _ _ _ _ IO).
      + rewrite cm0_prim, cm1_slot_sec. exact Hcov.
    - rewrite sc_d1_vq. unfold dQ. rewrite sc_d1_slot. unfold cd1. destruct (hm_2pc m); cbn [d_p].
      + rewrite (i_p st I), cm1_slot_sec. exact Hq.
      + rewrite cm0_prim, negb_involutive, cm1_slot_p, <- (i_P st I). apply (io_pcks _ _ _ _ _ IO).
    - intros rq. unfold dQ. rewrite sc_d1_slot. unfold cd1. destruct (hm_2pc m); cbn [d_p d_rq]; [|discriminate].
      intros E. injection E as <-. rewrite (i_p st I), cm1_slot_sec. split; [exact Hv | exact Hcov].
    - unfold served_okb. rewrite Egod. unfold hm_god at 1. rewrite flag_2pc.
      unfold names_q. unfold hm_god. rewrite flag_prim.
      unfold dQ, dP. rewrite !sc_d1_slot. unfold cd1. destruct (hm_2pc m); cbn [d_p d_vq].
      + rewrite (i_p st I), xorb_nilpotent. reflexivity.
      + rewrite cm0_prim. replace (xorb (hm_prim m) (negb (hm_prim m))) with true by (destruct (hm_prim m); reflexivity).
        rewrite negb_involutive, cm1_slot_p, cm1_slot_sec. unfold first_is_q.
        pose proof (c_tx st q rng pgs shrink Hc) as T. apply N.ltb_lt in T. rewrite T. reflexivity.
  Qed.

  Lemma sem_commit_2pc_second D1 :
    image_ok H expect ps d1 D1 -> ver expect D1 q = true ->
    fresh_ok H d1 (map abs W2) true
    /\ Sem H expect ps (commit_post st true q rng shrink) (apply_ops W2 D1).
  Proof.
    intros IO1 Hv. pose proof (sc_wf2 true) as Wf2.
    pose proof (commit_2pc_window2 st true q rng pgs shrink I Ho Hc eq_refl) as OK.
    change (window_okb d1 (map abs W2) true = true) in OK.
    assert (Wpre : win_okb d1 [] = true) by reflexivity.
    assert (EwQ : wq d1 (map abs W2) = dQ d1).
    { rewrite (oh_wq d1 [] _ Wf2 Wpre), cm2_slot. unfold dQ. now rewrite sc_d1_slot. }
    assert (FO : fresh_ok H d1 (map abs W2) true).
    { apply fresh_of; [intros E; rewrite sc_d1_vq in E; discriminate | intros Hne; contradiction]. }
    split; [exact FO|].
    pose proof (commit_post_inv st true q rng pgs shrink I Ho Hc) as J.
    destruct (window_okb_inv _ _ _ OK) as (_ & Hshape & _).
    constructor.
    - apply (image_ok_next H expect ps H_tear expect_above d1 _ D1 _ IO1 FO OK).
      + rewrite (oh_next_hdr d1 [] _ Wf2 Wpre). reflexivity.
      + rewrite (oh_next_len d1 [] _ Wf2). unfold next_len. cbn [map setlens flat_map last]. rewrite sc_d1_len. reflexivity.
      + rewrite sc_post_P. exact Hq.
      + rewrite sc_post_P.
        apply (ver_protected expect expect_above d1 W2 D1 _ Hshape (io_len _ _ _ _ _ IO1) (apply_is_crash W2 D1) rng); auto.
        unfold untouched. rewrite (oh_pages [] _ Wf2). cbn [map pages flat_map forallb andb].
        unfold lens_of. rewrite (oh_setlens [] _ Wf2). cbn [map setlens flat_map forallb andb].
        rewrite sc_d1_len. fold (within rng (cur_len st)). now rewrite (c_rng st q rng pgs shrink Hc).
      + rewrite sc_post_P. exact Hcov.
      + rewrite sc_post_Q. apply (io_pcks _ _ _ _ _ IO).
      + intros rq E. discriminate.
      + exact (inv_served _ J).
    - intros E. discriminate.
  Qed.
End SemCommit.

(* ---------- the shape of the two composite steps ---------- *)

Lemma close_shape st q rng pgs shrink :
  Inv st -> p_open st = true -> commit_okb st q rng pgs shrink = true ->
  let cpost := commit_post st true q rng shrink in
  let m3 := set_rr (p_mem cpost) false in
  a_ws (run_step st (PClose q rng pgs shrink))
  = commit_windows st true q rng pgs shrink
    ++ [open_window cpost] ++ [mkWrec (d_keep cpost) ([] ++ [hdr_write m3]) true]
  /\ a_st (run_step st (PClose q rng pgs shrink))
     = mkPst (mkDsum (enc_hdr m3) (d_len (d_keep cpost)) (d_p (d_keep cpost)) (d_rp (d_keep cpost))
                     (d_vq (d_keep cpost)) None) [] m3 false false.
Proof.
  intros I Ho Hc cpost m3.
  set (cw := commit_windows st true q rng pgs shrink).
  set (a1 := run_commit (mkAcc st [] []) true q rng pgs shrink).
  destruct (run_commit_eq st true q rng pgs shrink [] [] (commit_wf1 _ _ _ _ _ I Hc) (commit_pages _ _ _ _ _ Hc)) as [E1 E2].
  fold a1 cpost in E1. fold a1 cw in E2. cbn [app] in E2.
  destruct (commit_step_ok st true q rng pgs shrink I Ho Hc) as [W J]. fold cpost in J.
  destruct (commit_post_facts st true q rng shrink Ho) as (F1 & F2 & F3 & F4). fold cpost in F1, F2, F3, F4.
  set (a2 := a_sync a1 (d_keep (a_st a1))).
  assert (S2 : a_st a2 = mkPst (d_keep cpost) [] (p_mem cpost) (p_rfs cpost) (p_open cpost)).
  { unfold a2, a_sync. rewrite E1. reflexivity. }
  assert (W2 : a_ws a2 = cw ++ [open_window cpost]).
  { unfold a2, a_sync. rewrite E1, E2. reflexivity. }
  pose proof (sync_plain_inv cpost J F1) as J2. rewrite <- S2 in J2.
  assert (Ew2 : p_win (a_st a2) = []) by (rewrite S2; reflexivity).
  destruct (rr_step_eq a2 false false Ew2 (i_wf _ J2)) as [W3 S3].
  change (run_step st (PClose q rng pgs shrink))
    with (let m := set_rr (p_mem (a_st a2)) false in
          let a3 := a_issue a2 [hdr_write m] in
          a_mem (a_sync a3 (d_same (a_st a3) m (d_vq (p_d (a_st a3))) None)) m false false).
  cbv zeta in W3, S3 |- *. rewrite W3, S3, W2, S2. cbn [p_d p_mem]. rewrite <- app_assoc. split; reflexivity.
Qed.

Lemma open_shape st :
  Inv st -> p_open st = false ->
  let m' := set_rr (p_mem st) true in
  a_ws (run_step st POpen) = [mkWrec (p_d st) ([] ++ [hdr_write m']) true]
  /\ a_st (run_step st POpen)
     = mkPst (mkDsum (enc_hdr m') (d_len (p_d st)) (d_p (p_d st)) (d_rp (p_d st)) (d_vq (p_d st)) None)
             [] m' (p_rfs st) true.
Proof.
  intros I Hs m'. destruct (i_closed st I Hs) as (Ew & El & EQ & Er).
  destruct (rr_step_eq (a_start st) true (p_rfs st) Ew (i_wf st I)) as [W3 S3].
  change (run_step st POpen)
    with (let m := set_rr (p_mem (a_st (a_start st))) true in
          let a1 := a_issue (a_start st) [hdr_write m] in
          a_mem (a_sync a1 (d_same (a_st a1) m (d_vq (p_d (a_st a1))) None)) m (p_rfs st) true).
  cbv zeta in W3, S3 |- *. rewrite W3, S3. split; reflexivity.
Qed.

(* ---------- chains ---------- *)

Lemma image_after_app D a b : image_after D (a ++ b) = image_after (image_after D a) b.
Proof. revert D; induction a as [|w a IH]; intros D; simpl; auto. Qed.

Lemma chain_app H expect ps D a b :
  chain H expect ps D a -> chain H expect ps (image_after D a) b -> chain H expect ps D (a ++ b).
Proof.
  revert D; induction a as [|w a IH]; intros D Ha Hb; simpl in *; auto.
  inversion Ha; subst. constructor; auto.
Qed.

(* ---------- every step keeps the summaries truthful ---------- *)

Section SemSteps.
  Variable H : bytes -> bytes.
  Variable expect : bytes -> list (N * bytes).
  Variable ps : N.
  Hypothesis H_tear : forall a b m,
    cks_ok H a = true -> cks_ok H b = true -> mix2 a b m -> cks_ok H m = true -> m = a \/ m = b.
  Hypothesis expect_above : forall s e, In e (expect s) -> DB_HEADER_SIZE <= fst e.

  (* what the transaction layer owes for a durable commit (C06 ownership, C10 well-formed trees, the flush
     contract of the cache): the new slot has a valid checksum; its pages lie inside rng; and in the image
     the first flush of the commit produces, the new commit verifies *)
  Definition commit_sem (st : pst) (D : image) (two : bool) (q : bytes) (rng : list range)
             (pgs : list (N * bytes)) (shrink : option (N * bytes)) : Prop :=
    cks_ok H q = true
    /\ (forall e, In e (expect q) -> range_covered rng (fst e) (wlen (snd e)) = true)
    /\ ver expect (apply_ops ((p_win st ++ page_writes pgs)
                              ++ [hdr_write (if two then cm1 st q shrink else cm2 st false q shrink)]) D) q = true.

  Definition step_sem (st : pst) (D : image) (s : pstep) : Prop :=
    match s with
    | PCommit two q rng pgs shrink => commit_sem st D two q rng pgs shrink
    | PClose q rng pgs shrink => commit_sem st D true q rng pgs shrink
    | _ => True
    end.

  Fixpoint steps_sem (st : pst) (D : image) (ss : list pstep) : Prop :=
    match ss with
    | [] => True
    | s :: r => step_sem st D s
                /\ steps_sem (a_st (run_step st s)) (image_after D (a_ws (run_step st s))) r
    end.

  Local Notation Sem' := (Sem H expect ps).
  Local Notation chain' := (chain H expect ps).

  Lemma sem_same_d st st' D : p_d st' = p_d st -> Sem' st D -> Sem' st' D.
  Proof. intros E [A B]. constructor; rewrite E; auto. Qed.

  Lemma commit_chain st two q rng pgs shrink D :
    Inv st -> p_open st = true -> commit_okb st q rng pgs shrink = true -> Sem' st D ->
    commit_sem st D two q rng pgs shrink ->
    chain' D (commit_windows st two q rng pgs shrink)
    /\ Sem' (commit_post st two q rng shrink) (image_after D (commit_windows st two q rng pgs shrink)).
  Proof.
    intros I Ho Hc S (Hq & Hcov & Hv). unfold commit_windows. destruct two.
    - destruct (sem_commit_2pc_first H expect ps H_tear expect_above st q rng pgs shrink D I Ho Hc S Hq Hcov Hv) as [FO1 IO1].
      destruct (sem_commit_2pc_second H expect ps H_tear expect_above st q rng pgs shrink D I Ho Hc S Hq Hcov _ IO1 Hv) as [FO2 S2].
      rewrite <- app_assoc in FO1, IO1, S2. cbn [image_after w_ops]. split; [|exact S2].
      constructor; cbn [w_sum w_ops w_vnew]; [apply (s_io _ _ _ _ _ S) | exact FO1 |].
      constructor; cbn [w_sum w_ops w_vnew]; [exact IO1 | exact FO2 | constructor].
    - destruct (sem_commit_1pc H expect ps H_tear expect_above st q rng pgs shrink D I Ho Hc S Hq Hcov Hv) as [FO S2].
      rewrite <- app_assoc in FO, S2. cbn [image_after w_ops]. split; [|exact S2].
      constructor; cbn [w_sum w_ops w_vnew]; [apply (s_io _ _ _ _ _ S) | exact FO | constructor].
  Qed.

  Lemma step_sem_ok st s D :
    Inv st -> Sem' st D -> step_okb st s = true -> step_sem st D s ->
    chain' D (a_ws (run_step st s)) /\ Sem' (a_st (run_step st s)) (image_after D (a_ws (run_step st s))).
  Proof.
    intros I S Hs HS. destruct s as [pgs | n lay | two q rng pgs shrink | q | q rng pgs shrink | ];
      cbn [step_okb] in Hs; cbn [step_sem] in HS.
    - (* PEvict *) split; [constructor|]. apply (sem_same_d st); auto.
    - (* PGrow *)
      rewrite !andb_true_iff in Hs. destruct Hs as (((Ho & Hn) & Hle) & Hl). apply N.leb_le in Hle.
      destruct (f_cur st I) as [C1 C2].
      assert (Hex : win_okb (p_d st) [SetLen n] = true).
      { cbn [win_okb forallb]. now rewrite Hn, (within_mono _ _ _ C2 Hle). }
      destruct (sem_plain H expect ps H_tear expect_above st [SetLen n] D I Ho Hex S) as (FO & IO' & Dd).
      change (a_ws (run_step st (PGrow n lay))) with [mkWrec (p_d st) (p_win st ++ [SetLen n]) true].
      cbn [image_after w_ops]. split.
      + constructor; cbn [w_sum w_ops w_vnew]; [apply (s_io _ _ _ _ _ S) | exact FO | constructor].
      + constructor; [exact IO' | exact Dd].
    - (* PCommit *)
      apply andb_true_iff in Hs as [Ho Hc].
      destruct (run_commit_eq st two q rng pgs shrink [] [] (commit_wf1 _ _ _ _ _ I Hc) (commit_pages _ _ _ _ _ Hc)) as [E1 E2].
      cbn [run_step]. unfold a_start. rewrite E1, E2. cbn [app].
      apply commit_chain; auto.
    - (* PNonDurable *) split; [constructor|]. apply (sem_same_d st); auto.
    - (* PClose *)
      apply andb_true_iff in Hs as [Ho Hc].
      destruct (close_shape st q rng pgs shrink I Ho Hc) as [EW ES]. cbv zeta in EW, ES. rewrite EW, ES.
      set (cpost := commit_post st true q rng shrink) in *.
      destruct (commit_chain st true q rng pgs shrink D I Ho Hc S HS) as [CH S1]. fold cpost in S1.
      destruct (commit_step_ok st true q rng pgs shrink I Ho Hc) as [_ J]. fold cpost in J.
      destruct (commit_post_facts st true q rng shrink Ho) as (F1 & F2 & F3 & F4). fold cpost in F1, F2, F3, F4.
      set (D1 := image_after D (commit_windows st true q rng pgs shrink)) in *.
      (* the flush before the clean flag *)
      destruct (sem_plain H expect ps H_tear expect_above cpost [] D1 J F1 eq_refl S1) as (FO2 & IO2 & Dd2).
      rewrite app_nil_r in FO2, IO2, Dd2.
      set (st2 := mkPst (d_keep cpost) [] (p_mem cpost) (p_rfs cpost) (p_open cpost)).
      change (d_keep (mkPst (p_d cpost) (p_win cpost) (p_mem cpost) (p_rfs cpost) (p_open cpost)))
        with (d_keep cpost) in IO2, Dd2.
      assert (J2 : Inv st2) by (apply sync_plain_inv; auto).
      assert (S2 : Sem' st2 (apply_ops (p_win cpost) D1)) by (constructor; [exact IO2 | exact Dd2]).
      assert (Wfm : hm_wf (p_mem cpost)) by (apply (f_wf cpost J)).
      assert (P1 : layout_at (dh st2) = hm_layout (p_mem st2)).
      { unfold dh, st2. cbn [p_d p_mem]. change (d_hdr (d_keep cpost)) with (d_hdr (p_d cpost)).
        rewrite F3. apply (layout_enc _ Wfm). }
      assert (P2 : dQ (p_d st2) = hm_slot (p_mem st2) (negb (hm_prim (p_mem st2)))).
      { unfold st2. cbn [p_d p_mem]. rewrite keep_Q. unfold dQ. rewrite F3, (slot_enc _ _ Wfm), (i_p cpost J). reflexivity. }
      assert (P3 : false = false -> p_rfs st2 = false) by (intros _; exact F2).
      destruct (sem_rr H expect ps H_tear expect_above st2 false (apply_ops (p_win cpost) D1) J2 eq_refl P1 P2 P3 S2)
        as (FO3 & IO3 & Dd3). cbv zeta in FO3, IO3, Dd3. cbn [st2 p_d p_mem] in FO3, IO3, Dd3.
      rewrite !image_after_app. fold D1. cbn [image_after open_window w_ops].
      split.
      + apply chain_app; [exact CH|]. fold D1.
        constructor; cbn [open_window w_sum w_ops w_vnew]; [apply (s_io _ _ _ _ _ S1) | exact FO2 |].
        constructor; cbn [w_sum w_ops w_vnew]; [exact IO2 | exact FO3 | constructor].
      + constructor; cbn [p_d]; [exact IO3 | exact Dd3].
    - (* POpen *)
      apply negb_true_iff in Hs.
      destruct (open_shape st I Hs) as [EW ES]. cbv zeta in EW, ES. rewrite EW, ES.
      destruct (i_closed st I Hs) as (Ew & El & EQ & Er).
      assert (P3 : true = false -> p_rfs st = false) by discriminate.
      destruct (sem_rr H expect ps H_tear expect_above st true D I Ew El EQ P3 S) as (FO & IO' & Dd).
      cbv zeta in FO, IO', Dd. cbn [image_after w_ops]. split.
      + constructor; cbn [w_sum w_ops w_vnew]; [apply (s_io _ _ _ _ _ S) | exact FO | constructor].
      + constructor; cbn [p_d]; [exact IO' | exact Dd].
  Qed.

  Theorem protocol_chain st ss D :
    Inv st -> Sem' st D -> steps_okb st ss = true -> steps_sem st D ss ->
    chain' D (all_windows (run_steps st ss)).
  Proof.
    revert st D. induction ss as [|s r IH]; intros st D I S Hs HS.
    - unfold all_windows. cbn [run_steps a_start a_ws a_st app].
      constructor; cbn [open_window w_sum w_ops w_vnew]; [apply (s_io _ _ _ _ _ S) | | constructor].
      apply fresh_of; [apply (s_dead _ _ _ _ _ S)|]. intros Hne. exfalso. apply Hne.
      unfold wq. now rewrite (win_hdrs _ _ (i_win st I)).
    - cbn [steps_okb] in Hs. apply andb_true_iff in Hs as [Hs Hr]. destruct HS as [HS1 HSr].
      destruct (step_ok st s I Hs) as [_ J].
      destruct (step_sem_ok st s D I S Hs HS1) as [CH S1].
      rewrite run_steps_cons. unfold all_windows in *. cbn [a_ws a_st]. rewrite <- app_assoc.
      apply chain_app; [exact CH|]. apply IH; auto.
  Qed.

  (* every history of protocol steps, every instant of the emitted stream, every crash image:
     recovery serves the commit that was durable at the last sync or the commit in flight, completely *)
  Theorem protocol_crash_safe st ss D :
    Inv st -> Sem' st D -> steps_okb st ss = true -> steps_sem st D ss ->
    forall pre w post k img,
      all_windows (run_steps st ss) = pre ++ w :: post ->
      CrashOf (image_after D pre) (firstn k (w_ops w)) img ->
      crash_outcome H expect ps (w_sum w) (map abs (w_ops w)) img.
  Proof.
    intros I S Hs HS.
    exact (crash_trace_safe H expect ps H_tear expect_above D _
             (protocol_chain st ss D I S Hs HS) (proj1 (steps_ok st ss I Hs))).
  Qed.
End SemSteps.

(* ====================================================================================== *)
(* Part 4: recovery -- TransactionalMemory::new + Database::new on a crash image           *)
(* ====================================================================================== *)

(* abstract evaluation of one slot-selection leaf of a pure header window *)
Definition fqb (vq lt_qp lt_pq : bool) (pq : bool) : bool := if pq then vq && negb lt_qp else vq && lt_pq.
Definition rleafb (t0 p0 p vq lt_qp lt_pq same : bool) (tg pg : bool) : bool :=
  let tried := negb t0 && fqb vq lt_qp lt_pq (xorb p0 p) && negb same in
  if tg then negb (xorb pg p) else negb (fqb vq lt_qp lt_pq (xorb pg p)) || same || tried.

Lemma rleaf_ok d aw gb :
  pure_hdr aw = true -> d_rq d = None ->
  rleafb (flag (dgod d) TWO_PHASE_COMMIT) (flag (dgod d) PRIMARY_BIT) (d_p d) (d_vq d)
         (slot_txid (dQ d) <? slot_txid (dP d)) (slot_txid (dP d) <? slot_txid (dQ d)) (bytes_eqb (dQ d) (dP d))
         (flag gb TWO_PHASE_COMMIT) (flag gb PRIMARY_BIT) = true ->
  forall qc, leaf_ok d aw gb qc = true.
Proof.
  intros Hp Hr. unfold rleafb, fqb, leaf_ok, old_stat, first_is_q, names_q. rewrite Hp, Hr.
  destruct (flag (dgod d) TWO_PHASE_COMMIT), (flag (dgod d) PRIMARY_BIT), (d_p d), (d_vq d),
    (slot_txid (dQ d) <? slot_txid (dP d)), (slot_txid (dP d) <? slot_txid (dQ d)), (bytes_eqb (dQ d) (dP d)),
    (flag gb TWO_PHASE_COMMIT), (flag gb PRIMARY_BIT); cbn; intros E qc; destruct qc; cbn; auto; discriminate.
Qed.


(* the abstract booleans of a summary *)
Definition lqb (d : dsum) : bool := slot_txid (dQ d) <? slot_txid (dP d).
Definition lpb (d : dsum) : bool := slot_txid (dP d) <? slot_txid (dQ d).
Definition sameb (d : dsum) : bool := bytes_eqb (dQ d) (dP d).
Definition rleaf (d : dsum) (tg pg : bool) : bool :=
  rleafb (flag (dgod d) TWO_PHASE_COMMIT) (flag (dgod d) PRIMARY_BIT) (d_p d) (d_vq d) (lqb d) (lpb d) (sameb d) tg pg.

Lemma lq_lp_excl d : lqb d && lpb d = false.
Proof.
  unfold lqb, lpb. destruct (slot_txid (dQ d) <? slot_txid (dP d)) eqn:A; auto.
  apply N.ltb_lt in A. apply N.ltb_ge. lia.
Qed.
Lemma same_lq d : sameb d = true -> lqb d = false /\ lpb d = false.
Proof. unfold sameb, lqb, lpb. intros E. apply bytes_eqb_eq in E. rewrite E, N.ltb_irrefl. auto. Qed.

(* "basic" facts of a summary that every pure header window needs *)
Record basic (d : dsum) : Prop := mkBasic {
  b_hlen : length (d_hdr d) = HDR_LEN;
  b_magic : magic_at (hget (d_hdr d)) = MAGICNUMBER;
  b_len : len_okb d (d_len d) = true;
  b_rp : within (d_rp d) (d_len d) = true;
  b_vq : slot_version (dQ d) = FILE_FORMAT_VERSION3
}.

Lemma rec_window d m' :
  basic d -> d_rq d = None ->
  hm_wfb m' = true -> geom_at (hget (d_hdr d)) = hm_geom m' -> dP d = hm_slot m' (d_p d) ->
  (flag (dgod d) RECOVERY_REQUIRED = true /\ hm_rr m' = true
   \/ layout_at (hget (d_hdr d)) = hm_layout m' /\ stored_sane (hget (d_hdr d)) = true
      /\ stored_len (hget (d_hdr d)) = d_len d) ->
  rleaf d (flag (dgod d) TWO_PHASE_COMMIT) (flag (dgod d) PRIMARY_BIT) = true ->
  rleaf d (hm_2pc m') (hm_prim m') = true ->
  window_okb d (map abs ([] ++ [hdr_write m'])) true = true.
Proof.
  intros [Hhl Hmg Hln Hrp HvQ] Hrq Wm Eg EP Hrr L1 L2.
  pose proof (hm_wfb_wf _ Wm) as Wf. assert (Wpre : win_okb d [] = true) by reflexivity.
  assert (Hpure : pure_hdr (map abs ([] ++ [hdr_write m'])) = true).
  { unfold pure_hdr. now rewrite (oh_pages [] m' Wf), (oh_setlens [] m' Wf). }
  apply window_hdr_ok; auto.
  - destruct Hrr as [[A B] | (A & B & C)].
    + apply rr_both; auto. rewrite (oh_wgod d [] m' Wf Wpre). unfold hm_god. now rewrite flag_rr.
    + apply rr_clean; auto.
      * now rewrite (oh_setlens [] m' Wf).
      * rewrite (oh_hdrs d [] m' Wf Wpre). intros h [<- | []]. rewrite (layout_enc m' Wf). symmetry. exact A.
  - apply c_leaves_intro; intros qc _.
    + apply rleaf_ok; auto.
    + rewrite (oh_wgod d [] m' Wf Wpre). apply rleaf_ok; auto.
      unfold hm_god. rewrite flag_2pc, flag_prim. exact L2.
Qed.

(* the summary after such a window *)
Definition sumS (m : hdrm) (len : N) (p : bool) (rp : list range) (vq : bool) : dsum :=
  mkDsum (enc_hdr m) len p rp vq None.

Lemma sumS_basic d m' p' rp' vq' :
  basic d -> hm_wfb m' = true -> geom_at (hget (d_hdr d)) = hm_geom m' -> within rp' (d_len d) = true ->
  basic (sumS m' (d_len d) p' rp' vq').
Proof.
  intros [Hhl Hmg Hln Hrp HvQ] Wm Eg Hw. pose proof (hm_wfb_wf _ Wm) as Wf. constructor; unfold sumS; cbn [d_hdr d_len d_rp].
  - apply (enc_length _ Wf).
  - apply magic_enc.
  - rewrite <- Hln. apply len_okb_ext. cbn [d_hdr]. rewrite (geom_enc _ Wf). symmetry. exact Eg.
  - exact Hw.
  - unfold dQ. cbn [d_hdr d_p]. rewrite (slot_enc _ _ Wf). apply hm_wfb_versions. exact Wm.
Qed.

Lemma sumS_P m len p rp vq : hm_wfb m = true -> dP (sumS m len p rp vq) = hm_slot m p.
Proof. intros W. unfold dP, sumS. cbn [d_hdr d_p]. apply slot_enc. now apply hm_wfb_wf. Qed.
Lemma sumS_Q m len p rp vq : hm_wfb m = true -> dQ (sumS m len p rp vq) = hm_slot m (negb p).
Proof. intros W. unfold dQ, sumS. cbn [d_hdr d_p]. apply slot_enc. now apply hm_wfb_wf. Qed.
Lemma sumS_god m len p rp vq : dgod (sumS m len p rp vq) = hm_god m.
Proof. reflexivity. Qed.

(* slot selection of recovery on the abstract booleans: the index of the slot select_primary_slot names *)
Definition sel_primb (t0 p0 p vq lq lp : bool) : option bool :=
  let cp := if Bool.eqb p0 p then true else vq in
  let cs := if Bool.eqb (negb p0) p then true else vq in
  let lt_ps := if Bool.eqb p0 p then lp else lq in
  if t0 then (if cp then Some p0 else None)
  else if negb cp then (if cs then Some (negb p0) else None)
  else if lt_ps && cs then Some (negb p0) else Some p0.

(* consistency of the abstract booleans of a summary *)
Definition consb (lq lp same : bool) : bool := negb (lq && lp) && (negb same || (negb lq && negb lp)).

Lemma cons_of d : consb (lqb d) (lpb d) (sameb d) = true.
Proof.
  unfold consb. rewrite (lq_lp_excl d). cbn [negb andb]. destruct (sameb d) eqn:E; [|reflexivity].
  destruct (same_lq d E) as [A B]. now rewrite A, B.
Qed.

(* a god byte with the 2PC flag that names the served slot *)
Lemma B_2pc t0 p0 p vq lq lp same : rleafb t0 p0 p vq lq lp same true p = true.
Proof. unfold rleafb. now rewrite xorb_nilpotent. Qed.

(* recovery of a 1PC image: every god byte recovery writes before the repair commit is harmless *)
Lemma B_1pc p0 p vq lq lp same prim1 :
  consb lq lp same = true -> (same = true -> p = p0) ->
  sel_primb false p0 p vq lq lp = Some prim1 ->
  rleafb false p0 p vq lq lp same false p0 = true
  /\ rleafb false p0 p vq lq lp same false prim1 = true
  /\ rleafb false p0 p vq lq lp same false p = true
  /\ rleafb false prim1 p vq lq lp same false prim1 = true
  /\ rleafb false prim1 p vq lq lp same false p = true
  /\ rleafb false p p vq lq lp same false p = true.
Proof.
  destruct p0, p, vq, lq, lp, same, prim1; cbn; intros A B C; try discriminate;
    try (specialize (B eq_refl); discriminate); repeat split; reflexivity.
Qed.

(* between the two flushes of the repair commit, and after it *)
Lemma B_commit_1pc p : rleafb false p (negb p) true true false false false p = true
                       /\ rleafb false p (negb p) true true false false true (negb p) = true.
Proof. destruct p; split; reflexivity. Qed.

Lemma run_commit_eq_acc a two q rng pgs shrink :
  hm_wfb (cm1 (a_st a) q shrink) = true -> pages_okb (d_rp (p_d (a_st a))) pgs = true ->
  a_st (run_commit a two q rng pgs shrink) = commit_post (a_st a) two q rng shrink
  /\ a_ws (run_commit a two q rng pgs shrink) = a_ws a ++ commit_windows (a_st a) two q rng pgs shrink.
Proof. destruct a as [st ws ops]. cbn [a_st a_ws]. apply run_commit_eq. Qed.

(* the second flush of a two-phase commit whose first flush left a trusted 2PC primary in place:
   the god byte moves to the slot that is durable, verified and untouched *)
Lemma promote_window_yes d m' rq :
  basic d -> d_rq d = Some rq -> d_vq d = true -> within rq (d_len d) = true ->
  flag (dgod d) TWO_PHASE_COMMIT = true -> names_q d (dgod d) = false ->
  hm_wfb m' = true -> geom_at (hget (d_hdr d)) = hm_geom m' -> dP d = hm_slot m' (d_p d) ->
  dQ d = hm_slot m' (negb (d_p d)) -> hm_2pc m' = true ->
  layout_at (hget (d_hdr d)) = hm_layout m' -> stored_sane (hget (d_hdr d)) = true ->
  stored_len (hget (d_hdr d)) = d_len d ->
  window_okb d (map abs ([] ++ [hdr_write m'])) true = true.
Proof.
  intros [Hhl Hmg Hln Hrp HvQ] Hrq Hvq Hw Et Hn Wm Eg EP EQ Et' El S1 S2.
  pose proof (hm_wfb_wf _ Wm) as Wf. assert (Wpre : win_okb d [] = true) by reflexivity.
  apply window_hdr_ok; auto.
  - apply rr_clean; auto.
    + now rewrite (oh_setlens [] m' Wf).
    + rewrite (oh_hdrs d [] m' Wf Wpre). intros h [<- | []]. rewrite (layout_enc m' Wf). symmetry. exact El.
  - apply c_leaves_intro; intros qc [-> | Hne].
    + apply leaf_names_p; auto.
    + exfalso. apply Hne. rewrite (oh_wq d [] m' Wf Wpre). symmetry. exact EQ.
    + rewrite (oh_wgod d [] m' Wf Wpre). apply (leaf_2pc_yes _ _ _ rq); auto.
      * unfold hm_god. now rewrite flag_2pc.
      * unfold untouched. rewrite (oh_pages [] m' Wf). cbn [map pages flat_map forallb andb].
        unfold lens_of. rewrite (oh_setlens [] m' Wf). cbn [map setlens flat_map forallb andb].
        fold (within rq (d_len d)). now rewrite Hw.
    + exfalso. apply Hne. rewrite (oh_wq d [] m' Wf Wpre). symmetry. exact EQ.
Qed.

Lemma txid_neq_bytes a b : slot_txid a <> slot_txid b -> bytes_eqb a b = false.
Proof. intros Hn. apply bytes_eqb_neq. intros ->. contradiction. Qed.

(* ---------- truthfulness of the summaries along a recovery run: the generic pure header window ---------- *)

Section RecSemBase.
  Variable H : bytes -> bytes.
  Variable expect : bytes -> list (N * bytes).
  Variable ps : N.
  Hypothesis H_tear : forall a b m,
    cks_ok H a = true -> cks_ok H b = true -> mix2 a b m -> cks_ok H m = true -> m = a \/ m = b.
  Hypothesis expect_above : forall s e, In e (expect s) -> DB_HEADER_SIZE <= fst e.

  (* the slot recovery tried first and did not serve does not verify (the validator's VNo) *)
  Lemma nv_of d D :
    image_ok H expect ps d D -> flag (dgod d) TWO_PHASE_COMMIT = false ->
    first_is_q (names_q d (dgod d)) (d_vq d) (slot_txid (dQ d)) (slot_txid (dP d)) = true ->
    dQ d <> dP d -> ver expect D (dQ d) = false.
  Proof.
    intros [Hhl Hhdr Hlen HPc HPv HPcov Hvq Hrq Hrec] Et Hf Hne.
    destruct (recover_Some_inv H expect ps D _ Hrec) as (R0 & R1 & R2 & R3 & R4 & R5 & R6).
    assert (EDs : forall k, slot_at (iat D) k = slot_at (hget (d_hdr d)) k)
      by (intros k; apply rd_ext; intros i Hi; apply Hhdr; eapply slot_in_hdr; eauto).
    assert (EDgod : god (iat D) = dgod d) by (apply Hhdr; apply god_in_hdr).
    assert (EselD : select H (dgod d) (if d_p d then dQ d else dP d) (if d_p d then dP d else dQ d) (ver expect D)
                    = Some (dP d)).
    { rewrite <- R6, EDgod, !EDs. unfold dP, dQ. destruct (d_p d); reflexivity. }
    rewrite (select_char H _ _ _ _ _ HPc HPv), Et in EselD. fold (names_q d (dgod d)) in EselD.
    rewrite Hvq, Hf in EselD. destruct (ver expect D (dQ d)); [|reflexivity].
    exfalso. apply Hne. congruence.
  Qed.

  (* a pure header window that keeps slot P and either keeps slot Q or (2PC) replaces it by a copy of P *)
  Lemma sem_pure_keep d D m' vq' :
    image_ok H expect ps d D -> dead H d -> d_rq d = None ->
    window_okb d (map abs ([] ++ [hdr_write m'])) true = true ->
    hm_wfb m' = true -> hm_slot m' (d_p d) = dP d ->
    (hm_slot m' (negb (d_p d)) = dQ d /\ vq' = d_vq d
     \/ hm_slot m' (negb (d_p d)) = dP d /\ vq' = true /\ hm_2pc m' = true) ->
    rleaf d (hm_2pc m') (hm_prim m') = true ->
    let d' := mkDsum (enc_hdr m') (d_len d) (d_p d) (d_rp d) vq' None in
    fresh_ok H d (map abs ([] ++ [hdr_write m'])) true
    /\ image_ok H expect ps d' (apply_ops ([] ++ [hdr_write m']) D) /\ dead H d'.
  Proof.
    intros IO Hd Hrq OK Wm EP HQ Lf d'.
    pose proof (hm_wfb_wf _ Wm) as Wf. assert (Wpre : win_okb d [] = true) by reflexivity.
    assert (Ewq : wq d (map abs ([] ++ [hdr_write m'])) = hm_slot m' (negb (d_p d))) by apply (oh_wq d [] m' Wf Wpre).
    assert (EP' : dP d' = dP d) by (unfold dP at 1, d'; cbn [d_hdr d_p]; rewrite (slot_enc _ _ Wf); exact EP).
    assert (EQ' : dQ d' = hm_slot m' (negb (d_p d))) by (unfold dQ, d'; cbn [d_hdr d_p]; apply (slot_enc _ _ Wf)).
    assert (FO : fresh_ok H d (map abs ([] ++ [hdr_write m'])) true).
    { apply fresh_of; [exact Hd|]. rewrite Ewq. intros Hne. destruct HQ as [[E _] | (E & _)]; [contradiction|].
      rewrite E. apply (io_pcks _ _ _ _ _ IO). }
    destruct (window_okb_inv _ _ _ OK) as (_ & Hshape & _).
    assert (Hpure : pure_hdr (map abs ([] ++ [hdr_write m'])) = true).
    { unfold pure_hdr. now rewrite (oh_pages [] m' Wf), (oh_setlens [] m' Wf). }
    split; [exact FO|]. split.
    - apply (image_ok_next_gen H expect ps H_tear expect_above d _ D d' IO FO OK).
      + unfold d'. cbn [d_hdr]. now rewrite (oh_next_hdr d [] m' Wf Wpre).
      + unfold d'. cbn [d_len]. now rewrite (oh_next_len d [] m' Wf).
      + rewrite EP'. apply (io_pcks _ _ _ _ _ IO).
      + rewrite EP'. apply (ver_P_after H expect ps expect_above); auto.
      + rewrite EP'. apply (io_pcov _ _ _ _ _ IO).
      + rewrite EQ'. unfold d'. cbn [d_vq]. destruct HQ as [[E V] | (E & V & _)]; rewrite E, V.
        * apply (io_vq _ _ _ _ _ IO).
        * apply (io_pcks _ _ _ _ _ IO).
      + intros rq E. discriminate.
      + change (dgod d') with (hm_god m'). unfold hm_god at 1. rewrite flag_2pc.
        unfold rleaf, rleafb in Lf.
        assert (En : names_q d' (hm_god m') = xorb (hm_prim m') (d_p d)).
        { unfold names_q, hm_god. now rewrite flag_prim. }
        destruct (hm_2pc m') eqn:Et.
        * rewrite En. now apply negb_true_iff in Lf.
        * destruct HQ as [[E V] | (_ & _ & X)]; [|discriminate].
          rewrite En, EP', EQ', E. unfold d'. cbn [d_vq]. rewrite V.
          change (first_is_q (xorb (hm_prim m') (d_p d)) (d_vq d) (slot_txid (dQ d)) (slot_txid (dP d)))
            with (fqb (d_vq d) (lqb d) (lpb d) (xorb (hm_prim m') (d_p d))).
          destruct (fqb (d_vq d) (lqb d) (lpb d) (xorb (hm_prim m') (d_p d))) eqn:Ef; [|left; reflexivity].
          right. cbn [negb orb] in Lf. apply orb_true_iff in Lf as [Sm | Tr].
          -- right. unfold sameb in Sm. now apply bytes_eqb_eq in Sm.
          -- left. rewrite !andb_true_iff, !negb_true_iff in Tr. destruct Tr as [[T0 F0] S0].
             rewrite (ver_pure expect expect_above d _ D _ Hshape (io_len _ _ _ _ _ IO) (apply_is_crash _ D) _ Hpure).
             apply (nv_of d D IO T0).
             ++ exact F0.
             ++ unfold sameb in S0. now apply bytes_eqb_neq in S0.
    - unfold dead. rewrite EQ'. unfold d'. cbn [d_vq]. destruct HQ as [[E V] | (E & V & _)]; rewrite V.
      + rewrite E. exact Hd.
      + intros X. discriminate.
  Qed.
End RecSemBase.

Lemma eqb_false_negb (a b : bool) : Bool.eqb a b = false -> a = negb b.
Proof. destruct a, b; simpl; congruence. Qed.

Section Rec.
  Variables (d : dsum) (o : roracle).
  Hypothesis Hok : rec_okb d o = true.
  (* for the truthfulness of the summaries along the run *)
  Variable H : bytes -> bytes.
  Variable expect : bytes -> list (N * bytes).
  Variable ps : N.
  Hypothesis H_tear : forall a b m,
    cks_ok H a = true -> cks_ok H b = true -> mix2 a b m -> cks_ok H m = true -> m = a \/ m = b.
  Hypothesis expect_above : forall s e, In e (expect s) -> DB_HEADER_SIZE <= fst e.
  (* the repair commit re-publishes the trees of the served commit (recounted table lengths only): valid
     checksum, the same pages *)
  Hypothesis Hq_cks : cks_ok H (ro_q o) = true.
  Hypothesis Hq_ver : forall img, ver expect img (dP d) = true -> ver expect img (ro_q o) = true.
  Hypothesis Hq_cov : forall e, In e (expect (ro_q o)) -> range_covered (d_rp d) (fst e) (wlen (snd e)) = true.
  Local Notation g := (hget (d_hdr d)).
  Local Notation m0 := (parse_hdr (d_hdr d)).
  Local Notation p := (d_p d).
  Local Notation p0 := (flag (dgod d) PRIMARY_BIT).
  Local Notation t0 := (flag (dgod d) TWO_PHASE_COMMIT).
  Local Notation r0 := (flag (dgod d) RECOVERY_REQUIRED).
  Local Notation L := (if r0 then ro_lay o else layout_at g).
  Local Notation m0' := (if r0 then set_layout m0 (ro_lay o) else m0).

  Lemma k_facts :
    length (d_hdr d) = HDR_LEN /\ magic_at g = MAGICNUMBER
    /\ slot_wfb (dP d) = true /\ slot_wfb (dQ d) = true
    /\ len_okb d (d_len d) = true /\ within (d_rp d) (d_len d) = true /\ d_rq d = None
    /\ slot_wfb (ro_q o) = true /\ slot_txid (dP d) < slot_txid (ro_q o)
    /\ (if r0 then lay_okb m0 (ro_lay o) (d_len d) = true
        else stored_sane g = true /\ stored_len g = d_len d)
    /\ (dP d = dQ d -> p = p0) /\ (t0 = true -> p = p0).
  Proof.
    unfold rec_okb, rec_hdr_okb, rec_side_okb in Hok. rewrite !andb_true_iff, Nat.eqb_eq, bytes_eqb_eq, N.ltb_lt in Hok.
    destruct Hok as (((((A1 & A2) & A3) & A4) & A12) & ((((((A5 & A6) & A7) & A8) & A9) & A10) & A11)).
    repeat split; auto.
    - destruct (d_rq d); [discriminate|reflexivity].
    - change (hm_rr m0) with r0 in A10. destruct r0; auto.
      apply andb_true_iff in A10 as [X Y]. apply N.eqb_eq in Y. auto.
    - intros E. apply orb_true_iff in A11 as [X | X].
      + apply negb_true_iff, bytes_eqb_neq in X. contradiction.
      + now apply Bool.eqb_prop in X.
    - intros E. change (hm_2pc m0) with t0 in A12. rewrite E in A12. cbn [negb orb] in A12. now apply Bool.eqb_prop in A12.
  Qed.

  Lemma k_basic : basic d.
  Proof.
    destruct k_facts as (A1 & A2 & A3 & A4 & A5 & A6 & _). constructor; auto.
    apply slot_wfb_spec in A4. tauto.
  Qed.

  Lemma k_slot_p : hm_slot m0 p = dP d.
  Proof. unfold dP. destruct p; reflexivity. Qed.
  Lemma k_slot_q : hm_slot m0 (negb p) = dQ d.
  Proof. unfold dQ. destruct p; reflexivity. Qed.

  Lemma k_wf0 : hm_wfb m0 = true.
  Proof.
    destruct k_facts as (_ & _ & A3 & A4 & _). unfold hm_wfb. cbn [parse_hdr hm_geom hm_layout hm_s0 hm_s1].
    unfold geom_at, layout_at. rewrite !rd_length, !Nat.eqb_refl. cbn [andb].
    unfold dP, dQ in A3, A4. destruct p; cbn [negb] in A3, A4; now rewrite A3, A4.
  Qed.

  Lemma k_layL : length L = LAYOUT_LEN.
  Proof.
    destruct k_facts as (_ & _ & _ & _ & _ & _ & _ & _ & _ & A10 & _).
    destruct r0; [exact (lay_okb_len _ _ _ A10) | unfold layout_at; apply rd_length].
  Qed.

  Lemma k_wf0' : hm_wfb m0' = true.
  Proof.
    destruct r0 eqn:E; [|exact k_wf0]. apply wfb_set_layout; [exact k_wf0|].
    pose proof k_layL as X. rewrite E in X. exact X.
  Qed.

  (* any header with this database's geometry and the (recomputed) region counts describes the file *)
  Lemma k_stored g' :
    geom_at g' = geom_at g -> layout_at g' = L -> stored_sane g' = true /\ stored_len g' = d_len d.
  Proof.
    intros Eg El. destruct k_facts as (_ & _ & _ & _ & _ & _ & _ & _ & _ & A10 & _).
    destruct r0.
    - apply (lay_okb_spec _ _ _ (hm_wfb_wf _ k_wf0)) in A10 as [_ X]. apply X; auto.
    - destruct A10 as [S1 S2]. destruct (stored_ext g' g Eg El) as [T1 T2]. now rewrite T1, T2.
  Qed.

  Lemma k_lay m : hm_wfb m = true -> hm_geom m = geom_at g -> lay_okb m L (d_len d) = true.
  Proof.
    intros W Eg. apply (lay_okb_spec _ _ _ (hm_wfb_wf _ W)). split; [exact k_layL|].
    intros g' E1 E2. apply k_stored; [now rewrite E1 | exact E2].
  Qed.

  Lemma k_sel m1 :
    select_primary m0' (if Bool.eqb p0 p then true else d_vq d)
                       (if Bool.eqb (negb p0) p then true else d_vq d) = Some m1 ->
    sel_primb t0 p0 p (d_vq d) (lqb d) (lpb d) = Some (hm_prim m1)
    /\ hm_wfb m1 = true /\ hm_geom m1 = geom_at g /\ hm_layout m1 = L /\ hm_rr m1 = r0 /\ hm_2pc m1 = t0
    /\ hm_slot m1 p = dP d
    /\ (hm_slot m1 (negb p) = dQ d /\ (t0 = true -> lqb d = true)
        \/ (t0 = true /\ lqb d = false /\ hm_slot m1 (negb p) = dP d)).
  Proof.
    destruct k_facts as (_ & _ & A3 & A4 & _ & _ & _ & _ & _ & _ & _ & A12).
    pose proof k_wf0' as W. pose proof k_slot_p as SP. pose proof k_slot_q as SQ.
    assert (G : hm_geom m0' = geom_at g) by (destruct r0; reflexivity).
    assert (LL : hm_layout m0' = L) by (destruct r0; reflexivity).
    assert (RR : hm_rr m0' = r0) by (destruct r0 eqn:E; cbn [set_layout hm_rr parse_hdr]; exact E).
    assert (TT : hm_2pc m0' = t0) by (destruct r0; reflexivity).
    assert (PP : hm_prim m0' = p0) by (destruct r0; reflexivity).
    assert (SS : forall k, hm_slot m0' k = hm_slot m0 k) by (intros k; destruct r0; reflexivity).
    unfold select_primary, sel_primb, lqb, lpb. rewrite TT, PP, !SS.
    destruct t0 eqn:Et.
    - (* trusted 2PC primary: it is the served slot *)
      pose proof (A12 eq_refl) as E12. rewrite E12 in *. rewrite eqb_reflx, SP, SQ.
      destruct (slot_txid (dQ d) <? slot_txid (dP d)) eqn:Elq; intros E; injection E as <-.
      + rewrite PP, G, LL, RR, TT, !SS, SP, SQ. repeat split; auto; left; split; auto.
      + rewrite prim_set_slot, geom_set_slot, lay_set_slot, rr_set_slot, PP, G, LL, RR.
        rewrite slot_set_same.
        assert (X : hm_slot (set_slot m0' (negb p0) (dP d)) p0 = dP d).
        { rewrite <- (negb_involutive p0) at 2. rewrite slot_set_other, negb_involutive, SS. exact SP. }
        rewrite X. repeat split; auto.
        * apply wfb_set_slot; auto.
        * destruct (negb p0); exact TT.
    - destruct (Bool.eqb p0 p) eqn:Ep.
      + apply Bool.eqb_prop in Ep. rewrite Ep, SP, SQ.
        replace (Bool.eqb (negb p) p) with false by (destruct p; reflexivity). cbn [negb].
        destruct ((slot_txid (dP d) <? slot_txid (dQ d)) && d_vq d); intros E; injection E as <-;
          cbn [swap_prim hm_prim hm_geom hm_layout hm_rr hm_2pc]; rewrite ?PP, ?G, ?LL, ?RR, ?TT, ?Ep;
          change (hm_slot (swap_prim m0') p) with (hm_slot m0' p);
          change (hm_slot (swap_prim m0') (negb p)) with (hm_slot m0' (negb p));
          rewrite ?SS, ?SP, ?SQ; repeat split; auto; left; split; auto; intros X; discriminate X.
      + pose proof (eqb_false_negb _ _ Ep) as Ep'.
        rewrite Ep', negb_involutive, SP, SQ, eqb_reflx.
        destruct (d_vq d) eqn:Ev; cbn [negb].
        * destruct ((slot_txid (dQ d) <? slot_txid (dP d)) && true); intros E; injection E as <-;
            cbn [swap_prim hm_prim hm_geom hm_layout hm_rr hm_2pc]; rewrite ?PP, ?G, ?LL, ?RR, ?TT, ?Ep', ?negb_involutive;
            change (hm_slot (swap_prim m0') p) with (hm_slot m0' p);
            change (hm_slot (swap_prim m0') (negb p)) with (hm_slot m0' (negb p));
            rewrite ?SS, ?SP, ?SQ; repeat split; auto; left; split; auto; intros X; discriminate X.
        * intros E; injection E as <-.
          cbn [swap_prim hm_prim hm_geom hm_layout hm_rr hm_2pc]; rewrite ?PP, ?G, ?LL, ?RR, ?TT, ?Ep', ?negb_involutive;
            change (hm_slot (swap_prim m0') p) with (hm_slot m0' p);
            change (hm_slot (swap_prim m0') (negb p)) with (hm_slot m0' (negb p));
            rewrite ?SS, ?SP, ?SQ; repeat split; auto; left; split; auto; intros X; discriminate X.
  Qed.

  (* the summary dA of the image TransactionalMemory::new leaves behind (d itself when nothing was written),
     with m1 in memory *)
  Record AF (dA : dsum) (m1 : hdrm) (primA : bool) : Prop := mkAF {
    af_basic : basic dA;
    af_rq : d_rq dA = None;
    af_len : d_len dA = d_len d;
    af_p : d_p dA = p;
    af_rp : d_rp dA = d_rp d;
    af_geom : geom_at (hget (d_hdr dA)) = geom_at g;
    af_lay : layout_at (hget (d_hdr dA)) = L;
    af_P : dP dA = dP d;
    af_Q : t0 = false -> dQ dA = hm_slot m1 (negb p);
    af_Qd : dQ dA = hm_slot m1 (negb p) \/ dQ dA = dQ d;
    af_t : flag (dgod dA) TWO_PHASE_COMMIT = t0;
    af_r : flag (dgod dA) RECOVERY_REQUIRED = r0;
    af_prim : flag (dgod dA) PRIMARY_BIT = primA
  }.

  Record M1 (m1 : hdrm) : Prop := mkM1 {
    m_wf : hm_wfb m1 = true;
    m_geom : hm_geom m1 = geom_at g;
    m_lay : hm_layout m1 = L;
    m_rr : hm_rr m1 = r0;
    m_t : hm_2pc m1 = t0;
    m_P : hm_slot m1 p = dP d;
    m_Q : hm_slot m1 (negb p) = dQ d /\ (t0 = true -> lqb d = true)
          \/ (t0 = true /\ lqb d = false /\ hm_slot m1 (negb p) = dP d)
  }.

  Lemma af_stored dA m1 primA : AF dA m1 primA ->
    stored_sane (hget (d_hdr dA)) = true /\ stored_len (hget (d_hdr dA)) = d_len dA.
  Proof. intros A. rewrite (af_len _ _ _ A). apply k_stored; [apply (af_geom _ _ _ A) | apply (af_lay _ _ _ A)]. Qed.

  (* the slot recovery does not serve can never win later: invalid, older, or a copy *)
  Lemma m_qsafe m1 vq : M1 m1 -> t0 = true ->
    negb vq || (slot_txid (hm_slot m1 (negb p)) <? slot_txid (dP d)) || bytes_eqb (hm_slot m1 (negb p)) (dP d) = true.
  Proof.
    intros M Et. destruct (m_Q _ M) as [[E X] | (_ & _ & E)].
    - rewrite E. specialize (X Et). unfold lqb in X. rewrite X. now rewrite orb_true_r.
    - rewrite E, bytes_eqb_refl. now rewrite orb_true_r.
  Qed.

  (* what a header write of recovery (before the repair commit) puts where dA's slot Q is: dA's own Q, or --
     under a trusted 2PC primary -- the copy of P that erases a rolled back commit *)
  Lemma af_keep_or_copy dA m1 primA m' :
    AF dA m1 primA -> M1 m1 -> hm_slot m' (negb p) = hm_slot m1 (negb p) -> hm_2pc m' = t0 ->
    hm_slot m' (negb (d_p dA)) = dQ dA /\ vq_after dA m' = d_vq dA
    \/ hm_slot m' (negb (d_p dA)) = dP dA /\ vq_after dA m' = true /\ hm_2pc m' = true.
  Proof.
    intros A M Es Et. unfold vq_after. rewrite (af_p _ _ _ A), Es.
    destruct (bytes_eqb (hm_slot m1 (negb p)) (dQ dA)) eqn:E.
    - apply bytes_eqb_eq in E. left. auto.
    - apply bytes_eqb_neq in E. right.
      destruct (af_Qd _ _ _ A) as [X | X]; [symmetry in X; contradiction|].
      destruct (m_Q _ M) as [[Y _] | (T & _ & Y)]; [rewrite X in E; contradiction|].
      rewrite (af_P _ _ _ A), Et. auto.
  Qed.

  (* ---- the quick path: begin_writable on the trusted primary ---- *)
  Lemma rec_quick_ok a1 dA m1 :
    a_st a1 = mkPst dA [] m1 false false -> forallb wrec_okb (a_ws a1) = true ->
    AF dA m1 p -> M1 m1 -> t0 = true -> hm_prim m1 = p ->
    forallb wrec_okb (a_ws (rec_quick a1 m1)) = true /\ p_open (a_st (rec_quick a1 m1)) = true
    /\ Inv (a_st (rec_quick a1 m1)).
  Proof.
    intros Es Hw A M Et Ep.
    set (a := a_mem a1 (set_rr m1 false) false false).
    assert (Ea : a_st a = mkPst dA [] (set_rr m1 false) false false) by (unfold a, a_mem; rewrite Es; reflexivity).
    assert (Ew : p_win (a_st a) = []) by (rewrite Ea; reflexivity).
    assert (Wa : hm_wfb (p_mem (a_st a)) = true) by (rewrite Ea; exact (m_wf _ M)).
    destruct (rr_step_eq_v a true false (vq_after (p_d (a_st a)) (set_rr (p_mem (a_st a)) true)) Ew Wa) as [W3 S3].
    change (rec_quick a1 m1)
      with (let m := set_rr (p_mem (a_st a)) true in
            let a1' := a_issue a [hdr_write m] in
            a_mem (a_sync a1' (d_same (a_st a1') m (vq_after (p_d (a_st a)) m) None)) m false true).
    cbv zeta in W3, S3 |- *. rewrite W3, S3. clear W3 S3. rewrite Ea. cbn [p_d p_mem p_rfs].
    change (a_ws a) with (a_ws a1).
    set (mF := set_rr (set_rr m1 false) true).
    set (vqF := vq_after dA mF).
    assert (WF : hm_wfb mF = true) by exact (m_wf _ M).
    pose proof (hm_wfb_wf _ WF) as WfF.
    assert (EsP : hm_slot mF p = dP d) by exact (m_P _ M).
    destruct (af_stored _ _ _ A) as [S1 S2].
    assert (OK : window_okb dA (map abs ([] ++ [hdr_write mF])) true = true).
    { apply rec_window; try apply A; auto.
      - rewrite (af_geom _ _ _ A). symmetry. exact (m_geom _ M).
      - rewrite (af_P _ _ _ A), (af_p _ _ _ A). symmetry. exact EsP.
      - destruct r0 eqn:Er.
        + left. split; [rewrite (af_r _ _ _ A); exact Er | reflexivity].
        + right. repeat split; auto. rewrite (af_lay _ _ _ A). symmetry. exact (m_lay _ M).
      - unfold rleaf. rewrite (af_t _ _ _ A), (af_prim _ _ _ A), (af_p _ _ _ A), Et. apply B_2pc.
      - unfold rleaf. rewrite (af_p _ _ _ A). change (hm_2pc mF) with (hm_2pc m1). change (hm_prim mF) with (hm_prim m1).
        rewrite (m_t _ M), Et, Ep. apply B_2pc. }
    split; [|split; [reflexivity|]].
    - rewrite forallb_app, Hw. cbn [forallb]. rewrite wrec_okb_mk, OK. reflexivity.
    - assert (EPF : dP (mkDsum (enc_hdr mF) (d_len dA) (d_p dA) (d_rp dA) vqF None) = dP d).
      { unfold dP. cbn [d_hdr d_p]. rewrite (slot_enc _ _ WfF), (af_p _ _ _ A). exact EsP. }
      assert (EQF : dQ (mkDsum (enc_hdr mF) (d_len dA) (d_p dA) (d_rp dA) vqF None) = hm_slot m1 (negb p)).
      { unfold dQ. cbn [d_hdr d_p]. rewrite (slot_enc _ _ WfF), (af_p _ _ _ A). reflexivity. }
      constructor; cbn [p_d p_win p_mem p_rfs p_open].
      + apply (enc_length _ WfF).
      + unfold dh. cbn [p_d d_hdr]. apply magic_enc.
      + exact WF.
      + reflexivity.
      + unfold dh. cbn [p_d d_hdr]. apply (geom_enc _ WfF).
      + cbn [d_p]. rewrite (af_p _ _ _ A). symmetry. exact Ep.
      + rewrite EPF. change (hm_slot mF (hm_prim mF)) with (hm_slot m1 (hm_prim m1)). rewrite Ep. symmetry. exact (m_P _ M).
      + rewrite EQF. apply wfb_slot. exact (m_wf _ M).
      + reflexivity.
      + unfold qsafeb. rewrite EPF, EQF. cbn [d_vq]. apply m_qsafe; auto.
      + reflexivity.
      + reflexivity.
      + cbn [d_len]. rewrite <- (b_len _ (af_basic _ _ _ A)). apply len_okb_ext. cbn [d_hdr].
        rewrite (geom_enc _ WfF). change (hm_geom mF) with (hm_geom m1). rewrite (m_geom _ M). symmetry. exact (af_geom _ _ _ A).
      + cbn [d_rp d_len]. exact (b_rp _ (af_basic _ _ _ A)).
      + unfold cur_len. cbn [p_d p_win]. change (next_len _ (map abs [])) with (d_len dA). rewrite (af_len _ _ _ A).
        change (hm_layout mF) with (hm_layout m1). rewrite (m_lay _ M).
        apply k_lay; [exact WF | exact (m_geom _ M)].
      + discriminate.
  Qed.

  (* ---- full repair: clear_recovery_required, the two flushes of the repair commit, begin_writable ---- *)
  Lemma rec_full_ok a1 dA m1 primA m2 :
    a_st a1 = mkPst dA [] m1 false false -> forallb wrec_okb (a_ws a1) = true ->
    AF dA m1 primA -> M1 m1 -> (m2 = m1 \/ m2 = swap_prim m1) -> hm_prim m2 = p ->
    rleaf dA t0 primA = true -> rleaf dA t0 p = true ->
    (t0 = false -> rleafb false p p (d_vq dA) (lqb dA) (lpb dA) (sameb dA) false p = true) ->
    let q := ro_q o in
    forallb wrec_okb (a_ws (rec_full a1 m2 q (d_rp d))) = true /\ p_open (a_st (rec_full a1 m2 q (d_rp d))) = true
    /\ Inv (a_st (rec_full a1 m2 q (d_rp d))).
  Proof.
    intros Es Hw A M Hm2 Ep L2a L2b L3 q.
    destruct k_facts as (_ & _ & _ & _ & _ & _ & _ & Hq & Htx & _).
    destruct (af_stored _ _ _ A) as [S1 S2].
    (* the header records *)
    assert (Sl2 : forall k, hm_slot m2 k = hm_slot m1 k) by (intros k; destruct Hm2 as [-> | ->]; reflexivity).
    assert (W2 : hm_wfb m2 = true) by (destruct Hm2 as [-> | ->]; exact (m_wf _ M)).
    assert (G2 : hm_geom m2 = geom_at g) by (destruct Hm2 as [-> | ->]; exact (m_geom _ M)).
    assert (L2 : hm_layout m2 = L) by (destruct Hm2 as [-> | ->]; exact (m_lay _ M)).
    assert (T2 : hm_2pc m2 = t0) by (destruct Hm2 as [-> | ->]; exact (m_t _ M)).
    set (m3 := set_rr m2 false).
    assert (W3 : hm_wfb m3 = true) by exact W2.
    pose proof (hm_wfb_wf _ W3) as Wf3.
    (* window 2: clear_recovery_required *)
    set (a1' := a_mem a1 m2 false false).
    assert (Ea : a_st a1' = mkPst dA [] m2 false false) by (unfold a1', a_mem; rewrite Es; reflexivity).
    assert (Ew : p_win (a_st a1') = []) by (rewrite Ea; reflexivity).
    assert (Wa : hm_wfb (p_mem (a_st a1')) = true) by (rewrite Ea; exact W2).
    destruct (rr_step_eq_v a1' false false (vq_after (p_d (a_st a1')) (set_rr (p_mem (a_st a1')) false)) Ew Wa) as [Wn2 Sn2].
    cbv zeta in Wn2, Sn2.
    change (set_rr (p_mem (a_st a1')) false) with m3 in Wn2, Sn2.
    set (a3 := a_mem (a_sync (a_issue a1' [hdr_write m3])
                        (d_same (a_st (a_issue a1' [hdr_write m3])) m3 (vq_after (p_d (a_st a1')) m3) None))
                     m3 false false) in *.
    rewrite Ea in Wn2, Sn2. cbn [p_d p_mem] in Wn2, Sn2. change (a_ws a1') with (a_ws a1) in Wn2.
    set (vq3 := vq_after dA m3) in *.
    set (d3 := mkDsum (enc_hdr m3) (d_len dA) (d_p dA) (d_rp dA) vq3 None) in *.
    assert (OK2 : window_okb dA (map abs ([] ++ [hdr_write m3])) true = true).
    { apply rec_window; try apply A; auto.
      - rewrite (af_geom _ _ _ A). symmetry. exact G2.
      - rewrite (af_P _ _ _ A), (af_p _ _ _ A). change (hm_slot m3 p) with (hm_slot m2 p). rewrite Sl2. symmetry. exact (m_P _ M).
      - right. repeat split; auto. rewrite (af_lay _ _ _ A). symmetry. exact L2.
      - rewrite (af_t _ _ _ A), (af_prim _ _ _ A). exact L2a.
      - change (hm_2pc m3) with (hm_2pc m2). change (hm_prim m3) with (hm_prim m2). rewrite T2, Ep. exact L2b. }
    (* the summary after it *)
    assert (B3 : basic d3).
    { apply (sumS_basic dA m3 (d_p dA) (d_rp dA) vq3 (af_basic _ _ _ A) W3).
      - rewrite (af_geom _ _ _ A). symmetry. exact G2.
      - exact (b_rp _ (af_basic _ _ _ A)). }
    assert (P3 : dP d3 = dP d).
    { unfold d3. rewrite (sumS_P m3 _ _ _ _ W3) || (unfold dP; cbn [d_hdr d_p]; rewrite (slot_enc _ _ Wf3)).
      rewrite (af_p _ _ _ A). change (hm_slot m3 p) with (hm_slot m2 p). rewrite Sl2. exact (m_P _ M). }
    assert (Q3 : dQ d3 = hm_slot m1 (negb p)).
    { unfold dQ, d3. cbn [d_hdr d_p]. rewrite (slot_enc _ _ Wf3), (af_p _ _ _ A). change (hm_slot m3 (negb p)) with (hm_slot m2 (negb p)). apply Sl2. }
    assert (St3 : stored_sane (hget (d_hdr d3)) = true /\ stored_len (hget (d_hdr d3)) = d_len d).
    { apply k_stored; unfold d3; cbn [d_hdr]; [rewrite (geom_enc _ Wf3); exact G2 | rewrite (layout_enc _ Wf3); exact L2]. }
    (* the repair commit *)
    set (stC := mkPst d3 [] m3 false false) in *.
    assert (E3 : a_st a3 = stC) by exact Sn2.
    assert (Ec0 : cm0 stC None = m3) by reflexivity.
    assert (Pm3 : hm_prim m3 = p) by exact Ep.
    set (c1 := cm1 stC q None).
    set (c2 := cm2 stC true q None).
    assert (Wc1 : hm_wfb c1 = true) by (unfold c1, cm1; apply wfb_set_slot; [exact W3 | exact Hq]).
    pose proof (hm_wfb_wf _ Wc1) as Wfc1.
    assert (Wc2 : hm_wfb c2 = true) by exact Wc1.
    pose proof (hm_wfb_wf _ Wc2) as Wfc2.
    assert (Sc1p : hm_slot c1 p = dP d).
    { unfold c1, cm1. rewrite Ec0, Pm3. rewrite <- (negb_involutive p) at 2. rewrite slot_set_other, negb_involutive.
      change (hm_slot m3 p) with (hm_slot m2 p). rewrite Sl2. exact (m_P _ M). }
    assert (Sc1q : hm_slot c1 (negb p) = q) by (unfold c1, cm1; rewrite Ec0, Pm3; apply slot_set_same).
    assert (Gc1 : hm_geom c1 = geom_at g) by (unfold c1, cm1; rewrite geom_set_slot; exact G2).
    assert (Lc1 : hm_layout c1 = L) by (unfold c1, cm1; rewrite lay_set_slot; exact L2).
    assert (Tc1 : hm_2pc c1 = t0) by (unfold c1, cm1; rewrite Ec0; destruct (negb (hm_prim m3)); exact T2).
    assert (Pc1 : hm_prim c1 = p) by (unfold c1, cm1; rewrite prim_set_slot; exact Pm3).
    assert (Rc1 : hm_rr c1 = false) by (unfold c1, cm1; rewrite rr_set_slot; reflexivity).
    destruct (run_commit_eq_acc a3 true q (d_rp d) [] None) as [Ec Ewc].
    { rewrite E3. exact Wc1. } { reflexivity. }
    rewrite E3 in Ec, Ewc.
    assert (Ecur : cur_len stC = d_len d) by (unfold cur_len, stC; cbn [p_d p_win]; exact (af_len _ _ _ A)).
    set (d4 := cd1 stC q (d_rp d) None) in *.
    set (d5 := mkDsum (enc_hdr c2) (d_len d) (negb p) (d_rp d) true None).
    assert (Ecp : commit_post stC true q (d_rp d) None = mkPst d5 [] c2 false false).
    { unfold commit_post, d5. fold (cm0 stC None). fold (cm1 stC q None). fold (cm2 stC true q None). fold c2.
      rewrite Ec0, Pm3, Ecur. reflexivity. }
    (* window 3: the first flush *)
    assert (L3' : rleaf d3 t0 p = true).
    { unfold rleaf, lqb, lpb, sameb. rewrite P3, Q3. change (dgod d3) with (hm_god m3). unfold hm_god.
      rewrite flag_2pc, flag_prim. change (hm_2pc m3) with (hm_2pc m2). change (hm_prim m3) with (hm_prim m2).
      rewrite T2, Ep. unfold d3. cbn [d_p d_vq]. rewrite (af_p _ _ _ A).
      pose proof (af_Q _ _ _ A) as AQ.
      destruct t0 eqn:Et; [apply B_2pc|].
      assert (Ev3 : vq3 = d_vq dA).
      { unfold vq3, vq_after. rewrite (af_p _ _ _ A). change (hm_slot m3 (negb p)) with (hm_slot m2 (negb p)).
        rewrite Sl2, <- (AQ eq_refl), bytes_eqb_refl. reflexivity. }
      rewrite Ev3.
      specialize (L3 eq_refl). unfold lqb, lpb, sameb in L3. rewrite (af_P _ _ _ A), (AQ eq_refl) in L3. exact L3. }
    assert (OK3 : window_okb d3 (map abs ([] ++ [hdr_write c1])) true = true).
    { apply rec_window; auto.
      - unfold d3. cbn [d_hdr]. rewrite (geom_enc _ Wf3), Gc1. exact G2.
      - rewrite P3. unfold d3. cbn [d_p]. rewrite (af_p _ _ _ A). symmetry. exact Sc1p.
      - right. destruct St3 as [X Y]. split; [|split; [exact X|]].
        + unfold d3. cbn [d_hdr]. rewrite (layout_enc _ Wf3), Lc1. exact L2.
        + rewrite Y. unfold d3. cbn [d_len]. symmetry. exact (af_len _ _ _ A).
      - change (dgod d3) with (hm_god m3). unfold hm_god. rewrite flag_2pc, flag_prim.
        change (hm_2pc m3) with (hm_2pc m2). change (hm_prim m3) with (hm_prim m2). rewrite T2, Ep. exact L3'.
      - rewrite Tc1, Pc1. exact L3'. }
    (* window 4: the second flush *)
    assert (Hltq : slot_txid (dP d) <? slot_txid q = true) by (apply N.ltb_lt; exact Htx).
    assert (Hgeq : slot_txid q <? slot_txid (dP d) = false) by (apply N.ltb_ge; unfold q; lia).
    assert (Hneq : bytes_eqb (dP d) q = false) by (apply txid_neq_bytes; unfold q; lia).
    assert (Std4 : forall dd, d_hdr dd = enc_hdr c1 -> stored_sane (hget (d_hdr dd)) = true /\ stored_len (hget (d_hdr dd)) = d_len d).
    { intros dd E. rewrite E. apply k_stored; [rewrite (geom_enc _ Wfc1); exact Gc1 | rewrite (layout_enc _ Wfc1); exact Lc1]. }
    assert (OK4 : window_okb d4 (map abs ([] ++ [hdr_write c2])) true = true).
    { unfold d4, cd1. fold c1. rewrite Ecur. change (hm_2pc (p_mem stC)) with (hm_2pc m2). rewrite T2.
      change (d_p (p_d stC)) with (d_p dA). change (d_rp (p_d stC)) with (d_rp dA).
      rewrite (af_p _ _ _ A), (af_rp _ _ _ A), Ec0, Pm3.
      destruct t0 eqn:Et.
      - (* the trusted primary stays in place until the god byte moves *)
        set (dd := mkDsum (enc_hdr c1) (d_len d) p (d_rp d) true (Some (d_rp d))).
        destruct (Std4 dd eq_refl) as [X Y].
        assert (Bdd : basic dd).
        { destruct B3 as [b1 b2 b3 b4 b5]. constructor; unfold dd; cbn [d_hdr d_len d_rp].
          - apply (enc_length _ Wfc1).
          - apply magic_enc.
          - rewrite <- (af_len _ _ _ A). rewrite <- b3. apply len_okb_ext. cbn [d_hdr]. rewrite (geom_enc _ Wfc1), Gc1.
            unfold d3. cbn [d_hdr]. rewrite (geom_enc _ Wf3). symmetry. exact G2.
          - destruct k_facts as (_ & _ & _ & _ & _ & F6 & _). exact F6.
          - unfold dQ. cbn [d_hdr d_p]. rewrite (slot_enc _ _ Wfc1). apply hm_wfb_versions. exact Wc1. }
        apply (promote_window_yes dd c2 (d_rp d)); auto.
        + destruct k_facts as (_ & _ & _ & _ & _ & F6 & _). exact F6.
        + unfold dd, dgod. cbn [d_hdr]. rewrite god_enc. unfold hm_god. rewrite flag_2pc. exact Tc1.
        + unfold names_q, dd, dgod. cbn [d_hdr d_p]. rewrite god_enc. unfold hm_god. rewrite flag_prim, Pc1. apply xorb_nilpotent.
        + unfold dd. cbn [d_hdr]. rewrite (geom_enc _ Wfc1). reflexivity.
        + unfold dP, dd. cbn [d_hdr d_p]. rewrite (slot_enc _ _ Wfc1). reflexivity.
        + unfold dQ, dd. cbn [d_hdr d_p]. rewrite (slot_enc _ _ Wfc1). reflexivity.
        + unfold dd. cbn [d_hdr]. rewrite (layout_enc _ Wfc1). reflexivity.
      - (* a 1PC primary does not shadow the newer, complete secondary: it is served already *)
        set (dd := mkDsum (enc_hdr c1) (d_len d) (negb p) (d_rp d) true None).
        destruct (Std4 dd eq_refl) as [X Y].
        assert (Bdd : basic dd).
        { change dd with (sumS c1 (d_len d) (negb p) (d_rp d) true). rewrite <- (af_len _ _ _ A).
          change (d_len dA) with (d_len d3). apply (sumS_basic d3); auto.
          - unfold d3. cbn [d_hdr]. rewrite (geom_enc _ Wf3), Gc1. exact G2.
          - unfold d3. cbn [d_len]. rewrite (af_len _ _ _ A). destruct k_facts as (_ & _ & _ & _ & _ & F6 & _). exact F6. }
        destruct (B_commit_1pc p) as [C1 C2].
        assert (Ebool : rleaf dd = rleafb false p (negb p) true true false false).
        { unfold rleaf, lqb, lpb, sameb, dd, dgod, dP, dQ. cbn [d_hdr d_p d_vq]. rewrite god_enc. unfold hm_god.
          rewrite flag_2pc, flag_prim, Tc1, Pc1, !(slot_enc _ _ Wfc1), negb_involutive, Sc1p, Sc1q, Hltq, Hgeq, Hneq.
          reflexivity. }
        apply rec_window; auto.
        + unfold dd. cbn [d_hdr]. rewrite (geom_enc _ Wfc1). reflexivity.
        + unfold dP, dd. cbn [d_hdr d_p]. rewrite (slot_enc _ _ Wfc1). reflexivity.
        + right. repeat split; auto. unfold dd. cbn [d_hdr]. rewrite (layout_enc _ Wfc1). reflexivity.
        + rewrite Ebool. unfold dd, dgod. cbn [d_hdr]. rewrite god_enc. unfold hm_god. rewrite flag_2pc, flag_prim, Tc1, Pc1. exact C1.
        + rewrite Ebool. change (hm_2pc c2) with true. change (hm_prim c2) with (negb (hm_prim c1)). rewrite Pc1. exact C2. }
    (* window 5: begin_writable *)
    set (b4 := run_commit a3 true q (d_rp d) [] None) in *.
    rewrite Ecp in Ec.
    assert (Ew4 : p_win (a_st b4) = []) by (rewrite Ec; reflexivity).
    assert (Wa4 : hm_wfb (p_mem (a_st b4)) = true) by (rewrite Ec; exact Wc2).
    destruct (rr_step_eq b4 true (p_rfs (a_st b4)) Ew4 Wa4) as [Wn5 Sn5]. cbv zeta in Wn5, Sn5.
    change (rec_full a1 m2 q (d_rp d))
      with (let m := set_rr (p_mem (a_st b4)) true in
            let a1'' := a_issue b4 [hdr_write m] in
            a_mem (a_sync a1'' (d_same (a_st a1'') m (d_vq (p_d (a_st a1''))) None)) m (p_rfs (a_st b4)) true).
    cbv zeta. rewrite Wn5, Sn5. clear Wn5 Sn5. rewrite Ec. cbn [p_d p_mem p_rfs]. rewrite Ewc, Wn2.
    set (mF := set_rr c2 true).
    assert (WF : hm_wfb mF = true) by exact Wc2.
    pose proof (hm_wfb_wf _ WF) as WfF.
    assert (Gc2 : hm_geom c2 = geom_at g) by exact Gc1.
    assert (Lc2 : hm_layout c2 = L) by exact Lc1.
    assert (Pc2 : hm_prim c2 = negb p) by (change (hm_prim c2) with (negb (hm_prim c1)); now rewrite Pc1).
    assert (B5 : basic d5).
    { change d5 with (sumS c2 (d_len d) (negb p) (d_rp d) true). rewrite <- (af_len _ _ _ A).
      change (d_len dA) with (d_len d3). apply (sumS_basic d3); auto.
      - unfold d3. cbn [d_hdr]. rewrite (geom_enc _ Wf3), Gc2. exact G2.
      - unfold d3. cbn [d_len]. rewrite (af_len _ _ _ A). destruct k_facts as (_ & _ & _ & _ & _ & F6 & _). exact F6. }
    assert (St5 : stored_sane (hget (d_hdr d5)) = true /\ stored_len (hget (d_hdr d5)) = d_len d).
    { apply k_stored; unfold d5; cbn [d_hdr]; [rewrite (geom_enc _ Wfc2); exact Gc2 | rewrite (layout_enc _ Wfc2); exact Lc2]. }
    assert (OK5 : window_okb d5 (map abs ([] ++ [hdr_write mF])) true = true).
    { destruct St5 as [X Y]. apply rec_window; auto.
      - unfold d5. cbn [d_hdr]. rewrite (geom_enc _ Wfc2). reflexivity.
      - unfold dP, d5. cbn [d_hdr d_p]. rewrite (slot_enc _ _ Wfc2). reflexivity.
      - right. split; [|split; [exact X | exact Y]]. unfold d5. cbn [d_hdr]. rewrite (layout_enc _ Wfc2). reflexivity.
      - unfold rleaf. change (dgod d5) with (hm_god c2). unfold hm_god. rewrite flag_2pc, flag_prim, Pc2.
        change (hm_2pc c2) with true. cbn [d5 d_p]. apply B_2pc.
      - unfold rleaf. change (hm_2pc mF) with true. change (hm_prim mF) with (hm_prim c2). rewrite Pc2. cbn [d5 d_p]. apply B_2pc. }
    split; [|split; [reflexivity|]].
    - rewrite !forallb_app, Hw. unfold commit_windows. cbn [forallb]. rewrite !wrec_okb_mk.
      change (p_d stC) with d3. change (p_win stC ++ page_writes [] ++ [hdr_write (cm1 stC q None)]) with ([] ++ [hdr_write c1]).
      fold d4. fold c2. rewrite OK2, OK3, OK4, OK5. reflexivity.
    - assert (EPF : dP (mkDsum (enc_hdr mF) (d_len d5) (d_p d5) (d_rp d5) (d_vq d5) None) = q).
      { unfold dP. cbn [d_hdr d_p d5]. rewrite (slot_enc _ _ WfF). exact Sc1q. }
      assert (EQF : dQ (mkDsum (enc_hdr mF) (d_len d5) (d_p d5) (d_rp d5) (d_vq d5) None) = dP d).
      { unfold dQ. cbn [d_hdr d_p d5]. rewrite (slot_enc _ _ WfF), negb_involutive. exact Sc1p. }
      constructor; cbn [p_d p_win p_mem p_rfs p_open].
      + apply (enc_length _ WfF).
      + unfold dh. cbn [p_d d_hdr]. apply magic_enc.
      + exact WF.
      + reflexivity.
      + unfold dh. cbn [p_d d_hdr]. apply (geom_enc _ WfF).
      + cbn [d_p d5]. symmetry. exact Pc2.
      + rewrite EPF. change (hm_slot mF (hm_prim mF)) with (hm_slot c1 (hm_prim c2)). rewrite Pc2. symmetry. exact Sc1q.
      + rewrite EQF. destruct k_facts as (_ & _ & F3 & _). exact F3.
      + reflexivity.
      + unfold qsafeb. rewrite EPF, EQF. cbn [d_vq d5]. rewrite Hltq. reflexivity.
      + reflexivity.
      + reflexivity.
      + cbn [d_len]. rewrite <- (b_len _ B5). apply len_okb_ext. cbn [d_hdr d5]. now rewrite (geom_enc _ WfF), (geom_enc _ Wfc2).
      + cbn [d_rp d_len]. exact (b_rp _ B5).
      + unfold cur_len. cbn [p_d p_win]. change (next_len _ (map abs [])) with (d_len d5). cbn [d5 d_len].
        change (hm_layout mF) with (hm_layout c2). rewrite Lc2. apply k_lay; [exact WF | exact Gc2].
      + discriminate.
  Qed.

  (* ---- TransactionalMemory::new: the repaired header is written first ---- *)
  Lemma k_fin m1 :
    M1 m1 -> rleaf d t0 p0 = true -> rleaf d t0 (hm_prim m1) = true ->
    exists dA primA,
      a_st (rec_finalize d m1 r0) = mkPst dA [] m1 false false
      /\ forallb wrec_okb (a_ws (rec_finalize d m1 r0)) = true
      /\ AF dA m1 primA
      /\ (primA = if r0 then hm_prim m1 else p0)
      /\ (t0 = false -> d_vq dA = d_vq d /\ lqb dA = lqb d /\ lpb dA = lpb d /\ sameb dA = sameb d).
  Proof.
    intros M La Lb. pose proof k_basic as B. destruct k_facts as (_ & _ & _ & _ & _ & F6 & F7 & _).
    pose proof (hm_wfb_wf _ (m_wf _ M)) as Wf1.
    unfold rec_finalize. destruct r0 eqn:Er.
    - (* recovery required: one header write, one sync *)
      set (vq1 := if negb (bytes_eqb (hm_slot m1 (negb p)) (dQ d)) then true else d_vq d).
      set (d1 := mkDsum (enc_hdr m1) (d_len d) p (d_rp d) vq1 None).
      exists d1, (hm_prim m1).
      assert (Ecur : cur_len (a_st (a_issue (a_start (mkPst d [] m1 false false)) [hdr_write m1])) = d_len d).
      { unfold a_issue, a_start. cbn [a_st p_d p_win p_mem p_rfs p_open]. apply (cur_len_one_hdr _ _ _ _ _ Wf1). }
      split; [|split; [|split; [|split]]].
      + unfold a_sync, d_same. rewrite Ecur. reflexivity.
      + unfold a_sync, a_issue, a_start. cbn [a_ws a_st p_d p_win app forallb]. rewrite wrec_okb_mk.
        change (window_okb d (map abs ([] ++ [hdr_write m1])) true && true = true). rewrite andb_true_r.
        apply rec_window; [exact B | exact F7 | exact (m_wf _ M) | symmetry; exact (m_geom _ M)
                          | symmetry; exact (m_P _ M) | | exact La | rewrite (m_t _ M); exact Lb].
        left. split; [exact Er | rewrite (m_rr _ M); exact Er].
      + constructor; unfold d1; cbn [d_rq d_len d_p d_rp d_hdr].
        * apply (sumS_basic d m1 p (d_rp d) vq1 B (m_wf _ M)); [symmetry; exact (m_geom _ M) | exact F6].
        * reflexivity.
        * reflexivity.
        * reflexivity.
        * reflexivity.
        * rewrite (geom_enc _ Wf1). exact (m_geom _ M).
        * rewrite (layout_enc _ Wf1). exact (m_lay _ M).
        * unfold dP. cbn [d_hdr d_p]. rewrite (slot_enc _ _ Wf1). exact (m_P _ M).
        * intros _. unfold dQ. cbn [d_hdr d_p]. apply (slot_enc _ _ Wf1).
        * left. unfold dQ. cbn [d_hdr d_p]. apply (slot_enc _ _ Wf1).
        * unfold dgod. cbn [d_hdr]. rewrite god_enc. unfold hm_god. rewrite flag_2pc. exact (m_t _ M).
        * unfold dgod. cbn [d_hdr]. rewrite god_enc. unfold hm_god. rewrite flag_rr, (m_rr _ M). reflexivity.
        * unfold dgod. cbn [d_hdr]. rewrite god_enc. unfold hm_god. now rewrite flag_prim.
      + reflexivity.
      + intros Et. destruct (m_Q _ M) as [[EQ _] | (X & _)]; [|congruence].
        assert (EP1 : dP d1 = dP d) by (unfold dP, d1; cbn [d_hdr d_p]; rewrite (slot_enc _ _ Wf1); exact (m_P _ M)).
        assert (EQ1 : dQ d1 = dQ d) by (unfold dQ, d1; cbn [d_hdr d_p]; rewrite (slot_enc _ _ Wf1); exact EQ).
        unfold lqb, lpb, sameb. rewrite EP1, EQ1. repeat split; auto.
        unfold d1, vq1. cbn [d_vq]. now rewrite EQ, bytes_eqb_refl.
    - (* a clean image: nothing is written here *)
      exists d, p0. split; [reflexivity|]. split; [reflexivity|]. split; [|split; [reflexivity|intros _; auto]].
      constructor; auto.
      + rewrite Er. reflexivity.
      + intros Et. destruct (m_Q _ M) as [[EQ _] | (X & _)]; [|congruence]. unfold dQ in EQ |- *. symmetry. exact EQ.
  Qed.

  (* ---- every window of a recovery run is accepted, and it ends in a state of the protocol ---- *)
  Theorem recovery_ok a :
    recovery_run d o = Some a ->
    forallb wrec_okb (a_ws a) = true /\ Inv (a_st a) /\ p_open (a_st a) = true.
  Proof.
    intros E. unfold recovery_run in E.
    destruct k_facts as (_ & _ & _ & _ & _ & _ & _ & _ & _ & F10 & F11 & F12).
    change (hm_rr m0) with r0 in E. change (hm_prim m0) with p0 in E.
    assert (Eg : negb r0 && negb (stored_len g =? d_len d) = false).
    { destruct r0; [reflexivity|]. destruct F10 as [_ X]. now rewrite X, N.eqb_refl. }
    rewrite Eg in E.
    destruct (select_primary m0' (if Bool.eqb p0 p then true else d_vq d)
                             (if Bool.eqb (negb p0) p then true else d_vq d)) as [m1|] eqn:Es; [|discriminate].
    destruct (k_sel m1 Es) as (Sb & K1 & K2 & K3 & K4 & K5 & K6 & K7).
    assert (M : M1 m1) by (constructor; auto).
    pose proof (cons_of d) as Cons.
    assert (Hsame : sameb d = true -> p = p0).
    { unfold sameb. intros X. apply bytes_eqb_eq in X. apply F11. now symmetry. }
    (* the slot-selection leaves of every window, from the abstract booleans *)
    assert (Leaves :
      rleaf d t0 p0 = true /\ rleaf d t0 (hm_prim m1) = true
      /\ (t0 = true -> hm_prim m1 = p /\ p0 = p)
      /\ (t0 = false ->
          rleafb false p0 p (d_vq d) (lqb d) (lpb d) (sameb d) false p = true
          /\ rleafb false (hm_prim m1) p (d_vq d) (lqb d) (lpb d) (sameb d) false (hm_prim m1) = true
          /\ rleafb false (hm_prim m1) p (d_vq d) (lqb d) (lpb d) (sameb d) false p = true
          /\ rleafb false p p (d_vq d) (lqb d) (lpb d) (sameb d) false p = true)).
    { unfold rleaf. destruct t0 eqn:Et.
      - specialize (F12 eq_refl). unfold sel_primb in Sb. rewrite <- F12, eqb_reflx in Sb. injection Sb as Sb.
        rewrite <- Sb, <- F12. split; [apply B_2pc|]. split; [apply B_2pc|].
        split; [intros _; split; reflexivity | intros X; discriminate X].
      - destruct (B_1pc p0 p (d_vq d) (lqb d) (lpb d) (sameb d) (hm_prim m1) Cons Hsame Sb) as (B1 & B2 & B3 & B4 & B5 & B6).
        split; [exact B1|]. split; [exact B2|]. split; [intros X; discriminate X|].
        intros _. repeat split; assumption. }
    destruct Leaves as (La & Lb & L2pc & L1pc).
    destruct (k_fin m1 M La Lb) as (dA & primA & Ea1 & Wa1 & A & EprimA & Ebool).
    change (hm_rr m0) with r0 in E.
    set (a1 := rec_finalize d m1 r0) in *.
    rewrite K5 in E.
    destruct (t0 && ro_quick o) eqn:Equick.
    - (* quick path *)
      apply andb_true_iff in Equick as [Et _]. destruct (L2pc Et) as [Ep1 Ep0].
      injection E as <-.
      assert (A' : AF dA m1 p).
      { replace p with primA; [exact A|]. rewrite EprimA. destruct r0; [exact Ep1 | exact Ep0]. }
      destruct (rec_quick_ok a1 dA m1 Ea1 Wa1 A' M Et Ep1) as (W & O & J).
      split; [exact W | split; [exact J | exact O]].
    - (* full repair *)
      assert (Lfull : forall m2, (m2 = m1 \/ m2 = swap_prim m1) -> hm_prim m2 = p ->
                forallb wrec_okb (a_ws (rec_full a1 m2 (ro_q o) (d_rp d))) = true
                /\ p_open (a_st (rec_full a1 m2 (ro_q o) (d_rp d))) = true
                /\ Inv (a_st (rec_full a1 m2 (ro_q o) (d_rp d)))).
      { intros m2 Hm2 Ep2. apply (rec_full_ok a1 dA m1 primA m2); auto.
        - unfold rleaf. rewrite (af_t _ _ _ A), (af_prim _ _ _ A), (af_p _ _ _ A).
          destruct t0 eqn:Et.
          + destruct (L2pc eq_refl) as [Ep1 Ep0]. replace primA with p; [apply B_2pc|].
            rewrite EprimA. destruct r0; [symmetry; exact Ep1 | symmetry; exact Ep0].
          + destruct (Ebool eq_refl) as (V1 & V2 & V3 & V4). destruct (L1pc eq_refl) as (B3 & B4 & B5 & B6).
            rewrite V1, V2, V3, V4, EprimA. destruct r0; [exact B4|].
            unfold rleaf in La. rewrite Et in La. exact La.
        - unfold rleaf. rewrite (af_t _ _ _ A), (af_prim _ _ _ A), (af_p _ _ _ A).
          destruct t0 eqn:Et; [apply B_2pc|].
          destruct (Ebool eq_refl) as (V1 & V2 & V3 & V4). destruct (L1pc eq_refl) as (B3 & B4 & B5 & B6).
          rewrite V1, V2, V3, V4, EprimA. destruct r0; [exact B5 | exact B3].
        - intros Et. destruct (Ebool Et) as (V1 & V2 & V3 & V4). destruct (L1pc Et) as (B3 & B4 & B5 & B6).
          rewrite V1, V2, V3, V4. exact B6. }
      destruct (Bool.eqb (hm_prim m1) p) eqn:Ep1.
      + apply Bool.eqb_prop in Ep1. injection E as <-.
        destruct (Lfull m1 (or_introl eq_refl) Ep1) as (W & O & J). split; [exact W | split; [exact J | exact O]].
      + destruct t0 eqn:Et; [discriminate|]. injection E as <-.
        assert (Ep2 : hm_prim (swap_prim m1) = p).
        { cbn [swap_prim hm_prim]. rewrite (eqb_false_negb _ _ Ep1). apply negb_involutive. }
        destruct (Lfull (swap_prim m1) (or_intror eq_refl) Ep2) as (W & O & J). split; [exact W | split; [exact J | exact O]].
  Qed.
  (* ================= truthfulness of the summaries along the run ================= *)

  Lemma forallb_app_last {A} (f : A -> bool) l x : forallb f (l ++ [x]) = true -> f x = true.
  Proof. rewrite forallb_app. cbn [forallb]. rewrite andb_true_r. intros E. now apply andb_true_iff in E. Qed.

  Lemma rec_quick_shape a1 dA m1 :
    a_st a1 = mkPst dA [] m1 false false -> hm_wfb m1 = true ->
    let mF := set_rr (set_rr m1 false) true in
    a_ws (rec_quick a1 m1) = a_ws a1 ++ [mkWrec dA ([] ++ [hdr_write mF]) true]
    /\ a_st (rec_quick a1 m1)
       = mkPst (mkDsum (enc_hdr mF) (d_len dA) (d_p dA) (d_rp dA) (vq_after dA mF) None) [] mF false true.
  Proof.
    intros Es W1 mF.
    set (a := a_mem a1 (set_rr m1 false) false false).
    assert (Ea : a_st a = mkPst dA [] (set_rr m1 false) false false) by (unfold a, a_mem; rewrite Es; reflexivity).
    assert (Ew : p_win (a_st a) = []) by (rewrite Ea; reflexivity).
    assert (Wa : hm_wfb (p_mem (a_st a)) = true) by (rewrite Ea; exact W1).
    destruct (rr_step_eq_v a true false (vq_after (p_d (a_st a)) (set_rr (p_mem (a_st a)) true)) Ew Wa) as [W3 S3].
    change (rec_quick a1 m1)
      with (let m := set_rr (p_mem (a_st a)) true in
            let a1' := a_issue a [hdr_write m] in
            a_mem (a_sync a1' (d_same (a_st a1') m (vq_after (p_d (a_st a)) m) None)) m false true).
    cbv zeta in W3, S3 |- *. rewrite W3, S3. rewrite Ea. cbn [p_d p_mem p_rfs]. split; reflexivity.
  Qed.

  Lemma rec_quick_sem a1 dA m1 :
    a_st a1 = mkPst dA [] m1 false false -> forallb wrec_okb (a_ws a1) = true ->
    AF dA m1 p -> M1 m1 -> t0 = true -> hm_prim m1 = p ->
    forall DA, image_ok H expect ps dA DA -> dead H dA ->
    exists ws, a_ws (rec_quick a1 m1) = a_ws a1 ++ ws /\ chain H expect ps DA ws
               /\ Sem H expect ps (a_st (rec_quick a1 m1)) (image_after DA ws).
  Proof.
    intros Es Hw A M Et Ep DA IOA DdA.
    destruct (rec_quick_ok a1 dA m1 Es Hw A M Et Ep) as (W & _ & _).
    destruct (rec_quick_shape a1 dA m1 Es (m_wf _ M)) as [EW ES]. cbv zeta in EW, ES.
    set (mF := set_rr (set_rr m1 false) true) in *.
    rewrite EW in W. apply forallb_app_last in W. rewrite wrec_okb_mk in W.
    exists [mkWrec dA ([] ++ [hdr_write mF]) true]. split; [exact EW|]. rewrite ES.
    assert (WF : hm_wfb mF = true) by exact (m_wf _ M).
    assert (HQ := af_keep_or_copy dA m1 p mF A M eq_refl (m_t _ M)).
    assert (EPA : hm_slot mF (d_p dA) = dP dA) by (rewrite (af_p _ _ _ A), (af_P _ _ _ A); exact (m_P _ M)).
    assert (Lf : rleaf dA (hm_2pc mF) (hm_prim mF) = true).
    { unfold rleaf. rewrite (af_p _ _ _ A). change (hm_2pc mF) with (hm_2pc m1). change (hm_prim mF) with (hm_prim m1).
      rewrite (m_t _ M), Et, Ep. apply B_2pc. }
    destruct (sem_pure_keep H expect ps H_tear expect_above dA DA mF (vq_after dA mF) IOA DdA (af_rq _ _ _ A) W WF EPA HQ Lf)
      as (FO & IO' & Dd').
    cbn [image_after w_ops]. split.
    - constructor; cbn [w_sum w_ops w_vnew]; [exact IOA | exact FO | constructor].
    - constructor; cbn [p_d]; [exact IO' | exact Dd'].
  Qed.

  Lemma rec_full_shape a1 dA m1 m2 :
    a_st a1 = mkPst dA [] m1 false false -> hm_wfb m2 = true -> d_len dA = d_len d ->
    let q := ro_q o in
    let m3 := set_rr m2 false in
    let d3 := mkDsum (enc_hdr m3) (d_len dA) (d_p dA) (d_rp dA) (vq_after dA m3) None in
    let stC := mkPst d3 [] m3 false false in
    let c1 := cm1 stC q None in
    let c2 := cm2 stC true q None in
    let d4 := cd1 stC q (d_rp d) None in
    let d5 := mkDsum (enc_hdr c2) (d_len d) (negb (hm_prim m3)) (d_rp d) true None in
    let mF := set_rr c2 true in
    a_ws (rec_full a1 m2 q (d_rp d))
    = a_ws a1 ++ [mkWrec dA ([] ++ [hdr_write m3]) true; mkWrec d3 ([] ++ [hdr_write c1]) true;
                  mkWrec d4 ([] ++ [hdr_write c2]) true; mkWrec d5 ([] ++ [hdr_write mF]) true]
    /\ a_st (rec_full a1 m2 q (d_rp d))
       = mkPst (mkDsum (enc_hdr mF) (d_len d) (negb (hm_prim m3)) (d_rp d) true None) [] mF false true.
  Proof.
    intros Es W2 Elen q m3 d3 stC c1 c2 d4 d5 mF.
    destruct k_facts as (_ & _ & _ & _ & _ & _ & _ & Hq & _).
    assert (W3 : hm_wfb m3 = true) by exact W2.
    set (a1' := a_mem a1 m2 false false).
    assert (Ea : a_st a1' = mkPst dA [] m2 false false) by (unfold a1', a_mem; rewrite Es; reflexivity).
    assert (Ew : p_win (a_st a1') = []) by (rewrite Ea; reflexivity).
    assert (Wa : hm_wfb (p_mem (a_st a1')) = true) by (rewrite Ea; exact W2).
    destruct (rr_step_eq_v a1' false false (vq_after (p_d (a_st a1')) (set_rr (p_mem (a_st a1')) false)) Ew Wa) as [Wn2 Sn2].
    cbv zeta in Wn2, Sn2.
    change (set_rr (p_mem (a_st a1')) false) with m3 in Wn2, Sn2.
    set (a3 := a_mem (a_sync (a_issue a1' [hdr_write m3])
                        (d_same (a_st (a_issue a1' [hdr_write m3])) m3 (vq_after (p_d (a_st a1')) m3) None))
                     m3 false false) in *.
    rewrite Ea in Wn2, Sn2. cbn [p_d p_mem] in Wn2, Sn2. change (a_ws a1') with (a_ws a1) in Wn2.
    fold d3 in Sn2. fold stC in Sn2.
    assert (Wc1 : hm_wfb c1 = true) by (unfold c1, cm1; apply wfb_set_slot; [exact W3 | exact Hq]).
    destruct (run_commit_eq_acc a3 true q (d_rp d) [] None) as [Ec Ewc].
    { rewrite Sn2. exact Wc1. } { reflexivity. }
    rewrite Sn2 in Ec, Ewc.
    assert (Ecur : cur_len stC = d_len d) by (unfold cur_len, stC; cbn [p_d p_win]; exact Elen).
    assert (Ecp : commit_post stC true q (d_rp d) None = mkPst d5 [] c2 false false).
    { unfold commit_post, d5. fold (cm0 stC None). fold (cm1 stC q None). fold (cm2 stC true q None). fold c2.
      rewrite Ecur. reflexivity. }
    set (b4 := run_commit a3 true q (d_rp d) [] None) in *.
    rewrite Ecp in Ec.
    assert (Ew4 : p_win (a_st b4) = []) by (rewrite Ec; reflexivity).
    assert (Wa4 : hm_wfb (p_mem (a_st b4)) = true) by (rewrite Ec; exact Wc1).
    destruct (rr_step_eq b4 true (p_rfs (a_st b4)) Ew4 Wa4) as [Wn5 Sn5]. cbv zeta in Wn5, Sn5.
    change (rec_full a1 m2 q (d_rp d))
      with (let m := set_rr (p_mem (a_st b4)) true in
            let a1'' := a_issue b4 [hdr_write m] in
            a_mem (a_sync a1'' (d_same (a_st a1'') m (d_vq (p_d (a_st a1''))) None)) m (p_rfs (a_st b4)) true).
    cbv zeta. rewrite Wn5, Sn5. rewrite Ec. cbn [p_d p_mem p_rfs d5 d_len d_p d_rp d_vq]. rewrite Ewc, Wn2.
    unfold commit_windows. change (p_d stC) with d3.
    change (p_win stC ++ page_writes [] ++ [hdr_write (cm1 stC q None)]) with ([] ++ [hdr_write c1]).
    fold d4. fold c2. rewrite <- !app_assoc. split; reflexivity.
  Qed.

  Lemma rec_full_sem a1 dA m1 primA m2 :
    a_st a1 = mkPst dA [] m1 false false -> forallb wrec_okb (a_ws a1) = true ->
    AF dA m1 primA -> M1 m1 -> (m2 = m1 \/ m2 = swap_prim m1) -> hm_prim m2 = p ->
    rleaf dA t0 primA = true -> rleaf dA t0 p = true ->
    (t0 = false -> rleafb false p p (d_vq dA) (lqb dA) (lpb dA) (sameb dA) false p = true) ->
    forall DA, image_ok H expect ps dA DA -> dead H dA ->
    exists ws, a_ws (rec_full a1 m2 (ro_q o) (d_rp d)) = a_ws a1 ++ ws /\ chain H expect ps DA ws
               /\ Sem H expect ps (a_st (rec_full a1 m2 (ro_q o) (d_rp d))) (image_after DA ws).
  Proof.
    intros Es Hw A M Hm2 Ep L2a L2b L3 DA IOA DdA.
    destruct (rec_full_ok a1 dA m1 primA m2 Es Hw A M Hm2 Ep L2a L2b L3) as (W & _ & _). cbv zeta in W.
    destruct k_facts as (_ & _ & _ & _ & _ & F6 & _ & Hq & Htx & _).
    assert (Sl2 : forall k, hm_slot m2 k = hm_slot m1 k) by (intros k; destruct Hm2 as [-> | ->]; reflexivity).
    assert (W2 : hm_wfb m2 = true) by (destruct Hm2 as [-> | ->]; exact (m_wf _ M)).
    assert (T2 : hm_2pc m2 = t0) by (destruct Hm2 as [-> | ->]; exact (m_t _ M)).
    destruct (rec_full_shape a1 dA m1 m2 Es W2 (af_len _ _ _ A)) as [EW ES]. cbv zeta in EW, ES.
    set (q := ro_q o) in *.
    set (m3 := set_rr m2 false) in *.
    set (d3 := mkDsum (enc_hdr m3) (d_len dA) (d_p dA) (d_rp dA) (vq_after dA m3) None) in *.
    set (stC := mkPst d3 [] m3 false false) in *.
    set (c1 := cm1 stC q None) in *.
    set (c2 := cm2 stC true q None) in *.
    set (d4 := cd1 stC q (d_rp d) None) in *.
    set (d5 := mkDsum (enc_hdr c2) (d_len d) (negb (hm_prim m3)) (d_rp d) true None) in *.
    set (mF := set_rr c2 true) in *.
    rewrite EW in W. rewrite forallb_app in W. apply andb_true_iff in W as [_ W].
    cbn [forallb] in W. rewrite !wrec_okb_mk, !andb_true_iff in W. destruct W as (OK2 & OK3 & OK4 & OK5 & _).
    assert (W3 : hm_wfb m3 = true) by exact W2.
    assert (Pm3 : hm_prim m3 = p) by exact Ep.
    assert (Wc1 : hm_wfb c1 = true) by (unfold c1, cm1; apply wfb_set_slot; [exact W3 | exact Hq]).
    pose proof (hm_wfb_wf _ Wc1) as Wfc1.
    assert (Wc2 : hm_wfb c2 = true) by exact Wc1.
    pose proof (hm_wfb_wf _ Wc2) as Wfc2.
    assert (Ec0 : cm0 stC None = m3) by reflexivity.
    assert (Sc1p : hm_slot c1 p = dP d).
    { unfold c1, cm1. rewrite Ec0, Pm3. rewrite <- (negb_involutive p) at 2. rewrite slot_set_other, negb_involutive.
      change (hm_slot m3 p) with (hm_slot m2 p). rewrite Sl2. exact (m_P _ M). }
    assert (Sc1q : hm_slot c1 (negb p) = q) by (unfold c1, cm1; rewrite Ec0, Pm3; apply slot_set_same).
    assert (Tc1 : hm_2pc c1 = t0) by (unfold c1, cm1; rewrite Ec0; destruct (negb (hm_prim m3)); exact T2).
    assert (Pc1 : hm_prim c1 = p) by (unfold c1, cm1; rewrite prim_set_slot; exact Pm3).
    (* window 2 *)
    assert (HQ2 := af_keep_or_copy dA m1 primA m3 A M (Sl2 (negb p)) T2).
    assert (EPA : hm_slot m3 (d_p dA) = dP dA).
    { rewrite (af_p _ _ _ A), (af_P _ _ _ A). change (hm_slot m3 p) with (hm_slot m2 p). rewrite Sl2. exact (m_P _ M). }
    assert (Lf2 : rleaf dA (hm_2pc m3) (hm_prim m3) = true).
    { change (hm_2pc m3) with (hm_2pc m2). rewrite T2, Pm3. exact L2b. }
    destruct (sem_pure_keep H expect ps H_tear expect_above dA DA m3 (vq_after dA m3) IOA DdA (af_rq _ _ _ A) OK2 W3 EPA HQ2 Lf2)
      as (FO2 & IO3 & Dd3). fold d3 in IO3, Dd3.
    set (D3 := apply_ops ([] ++ [hdr_write m3]) DA) in *.
    assert (P3 : dP d3 = dP d).
    { unfold dP, d3. cbn [d_hdr d_p]. rewrite (slot_enc _ _ (hm_wfb_wf _ W3)), (af_p _ _ _ A).
      change (hm_slot m3 p) with (hm_slot m2 p). rewrite Sl2. exact (m_P _ M). }
    assert (Wpre3 : win_okb d3 [] = true) by reflexivity.
    (* window 3: the first flush of the repair commit *)
    assert (Ewq3 : wq d3 (map abs ([] ++ [hdr_write c1])) = q).
    { rewrite (oh_wq d3 [] c1 Wfc1 Wpre3). unfold d3. cbn [d_p]. rewrite (af_p _ _ _ A). exact Sc1q. }
    assert (FO3 : fresh_ok H d3 (map abs ([] ++ [hdr_write c1])) true).
    { apply fresh_of; [exact Dd3|]. intros _. rewrite Ewq3. exact Hq_cks. }
    set (D4 := apply_ops ([] ++ [hdr_write c1]) D3) in *.
    assert (VP4 : ver expect D4 (dP d) = true).
    { rewrite <- P3. apply (ver_P_after H expect ps expect_above); auto. }
    assert (Vq4 : ver expect D4 q = true) by (apply Hq_ver; exact VP4).
    assert (Ecur : cur_len stC = d_len d) by (unfold cur_len, stC; cbn [p_d p_win]; exact (af_len _ _ _ A)).
    assert (Hltq : slot_txid (dP d) <? slot_txid q = true) by (apply N.ltb_lt; exact Htx).
    assert (E4hdr : d_hdr d4 = enc_hdr c1) by (unfold d4, cd1; fold c1; destruct (hm_2pc (p_mem stC)); reflexivity).
    assert (E4len : d_len d4 = d_len d) by (unfold d4, cd1; rewrite Ecur; destruct (hm_2pc (p_mem stC)); reflexivity).
    assert (E4vq : d_vq d4 = true) by (unfold d4, cd1; destruct (hm_2pc (p_mem stC)); reflexivity).
    assert (E4slot : forall k, slot_at (hget (d_hdr d4)) k = hm_slot c1 k) by (intros k; rewrite E4hdr; apply (slot_enc _ _ Wfc1)).
    assert (IO4 : image_ok H expect ps d4 D4).
    { apply (image_ok_next_gen H expect ps H_tear expect_above d3 _ D3 d4 IO3 FO3 OK3).
      - rewrite E4hdr, (oh_next_hdr d3 [] c1 Wfc1 Wpre3). reflexivity.
      - rewrite E4len, (oh_next_len d3 [] c1 Wfc1). unfold next_len. cbn [map setlens flat_map last d3 d_len].
        symmetry. exact (af_len _ _ _ A).
      - unfold dP. rewrite E4slot. unfold d4, cd1. change (hm_2pc (p_mem stC)) with (hm_2pc m2). rewrite T2.
        destruct t0; cbn [d_p]; [change (d_p (p_d stC)) with (d_p dA); rewrite (af_p _ _ _ A), Sc1p, <- P3; apply (io_pcks _ _ _ _ _ IO3)
                                | rewrite Ec0, Pm3, Sc1q; exact Hq_cks].
      - unfold dP. rewrite E4slot. unfold d4, cd1. change (hm_2pc (p_mem stC)) with (hm_2pc m2). rewrite T2.
        destruct t0; cbn [d_p]; [change (d_p (p_d stC)) with (d_p dA); rewrite (af_p _ _ _ A), Sc1p; exact VP4
                                | rewrite Ec0, Pm3, Sc1q; exact Vq4].
      - unfold dP. rewrite E4slot. unfold d4, cd1. change (hm_2pc (p_mem stC)) with (hm_2pc m2). rewrite T2.
        destruct t0; cbn [d_p d_rp].
        + change (d_p (p_d stC)) with (d_p dA). change (d_rp (p_d stC)) with (d_rp d3). rewrite (af_p _ _ _ A), Sc1p, <- P3.
          apply (io_pcov _ _ _ _ _ IO3).
        + rewrite Ec0, Pm3, Sc1q. exact Hq_cov.
      - rewrite E4vq. unfold dQ. rewrite E4slot. unfold d4, cd1. change (hm_2pc (p_mem stC)) with (hm_2pc m2). rewrite T2.
        destruct t0; cbn [d_p].
        + change (d_p (p_d stC)) with (d_p dA). rewrite (af_p _ _ _ A), Sc1q. exact Hq_cks.
        + rewrite Ec0, Pm3, negb_involutive, Sc1p, <- P3. apply (io_pcks _ _ _ _ _ IO3).
      - intros rq. unfold dQ. rewrite E4slot. unfold d4, cd1. change (hm_2pc (p_mem stC)) with (hm_2pc m2). rewrite T2.
        destruct t0; cbn [d_p d_rq]; [|discriminate].
        intros E. injection E as <-. change (d_p (p_d stC)) with (d_p dA). rewrite (af_p _ _ _ A), Sc1q.
        split; [exact Vq4 | exact Hq_cov].
      - change (dgod d4) with (god (hget (d_hdr d4))). rewrite E4hdr, god_enc. unfold hm_god at 1. rewrite flag_2pc, Tc1.
        unfold names_q, hm_god. rewrite flag_prim, Pc1. unfold dQ, dP. rewrite !E4slot, E4vq.
        unfold d4, cd1. change (hm_2pc (p_mem stC)) with (hm_2pc m2). rewrite T2.
        destruct t0; cbn [d_p].
        + change (d_p (p_d stC)) with (d_p dA). rewrite (af_p _ _ _ A). apply xorb_nilpotent.
        + rewrite Ec0, Pm3. replace (xorb p (negb p)) with true by (destruct p; reflexivity).
          rewrite negb_involutive, Sc1p, Sc1q. left. unfold first_is_q. rewrite Hltq. reflexivity. }
    assert (Dd4 : dead H d4) by (intros X; rewrite E4vq in X; discriminate).
    (* window 4: the second flush *)
    assert (Wpre4 : win_okb d4 [] = true) by reflexivity.
    assert (Ewq4 : wq d4 (map abs ([] ++ [hdr_write c2])) = dQ d4).
    { rewrite (oh_wq d4 [] c2 Wfc2 Wpre4). change (hm_slot c2 (negb (d_p d4))) with (hm_slot c1 (negb (d_p d4))).
      unfold dQ. now rewrite E4slot. }
    assert (FO4 : fresh_ok H d4 (map abs ([] ++ [hdr_write c2])) true).
    { apply fresh_of; [exact Dd4 | intros Hne; contradiction]. }
    set (D5 := apply_ops ([] ++ [hdr_write c2]) D4) in *.
    destruct (window_okb_inv _ _ _ OK4) as (_ & Hshape4 & _).
    assert (Vq5 : ver expect D5 q = true).
    { apply (ver_protected expect expect_above d4 ([] ++ [hdr_write c2]) D4 D5 Hshape4 (io_len _ _ _ _ _ IO4)
               (apply_is_crash _ D4) (d_rp d)); auto.
      unfold untouched. rewrite (oh_pages [] c2 Wfc2). cbn [map pages flat_map forallb andb].
      unfold lens_of. rewrite (oh_setlens [] c2 Wfc2). cbn [map setlens flat_map forallb andb].
      rewrite E4len. fold (within (d_rp d) (d_len d)). now rewrite F6. }
    assert (E5P : dP d5 = q).
    { unfold dP, d5. cbn [d_hdr d_p]. rewrite (slot_enc _ _ Wfc2), Pm3. change (hm_slot c2 (negb p)) with (hm_slot c1 (negb p)).
      exact Sc1q. }
    assert (E5Q : dQ d5 = dP d).
    { unfold dQ, d5. cbn [d_hdr d_p]. rewrite (slot_enc _ _ Wfc2), Pm3, negb_involutive.
      change (hm_slot c2 p) with (hm_slot c1 p). exact Sc1p. }
    assert (IO5 : image_ok H expect ps d5 D5).
    { apply (image_ok_next_gen H expect ps H_tear expect_above d4 _ D4 d5 IO4 FO4 OK4).
      - unfold d5. cbn [d_hdr]. now rewrite (oh_next_hdr d4 [] c2 Wfc2 Wpre4).
      - unfold d5. cbn [d_len]. rewrite (oh_next_len d4 [] c2 Wfc2). unfold next_len. cbn [map setlens flat_map last].
        symmetry. exact E4len.
      - rewrite E5P. exact Hq_cks.
      - rewrite E5P. exact Vq5.
      - rewrite E5P. exact Hq_cov.
      - rewrite E5Q. cbn [d5 d_vq]. rewrite <- P3. apply (io_pcks _ _ _ _ _ IO3).
      - intros rq E. discriminate.
      - change (dgod d5) with (hm_god c2). unfold hm_god at 1. rewrite flag_2pc. change (hm_2pc c2) with true. cbn iota.
        unfold names_q, hm_god. rewrite flag_prim. cbn [d5 d_p]. change (hm_prim c2) with (negb (hm_prim c1)).
        rewrite Pc1, Pm3. apply xorb_nilpotent. }
    assert (Dd5 : dead H d5) by (intros X; discriminate X).
    (* window 5: begin_writable *)
    assert (WF : hm_wfb mF = true) by exact Wc2.
    assert (EP5 : hm_slot mF (d_p d5) = dP d5).
    { rewrite E5P. cbn [d5 d_p]. rewrite Pm3. change (hm_slot mF (negb p)) with (hm_slot c1 (negb p)). exact Sc1q. }
    assert (HQ5 : hm_slot mF (negb (d_p d5)) = dQ d5 /\ true = d_vq d5
                  \/ hm_slot mF (negb (d_p d5)) = dP d5 /\ true = true /\ hm_2pc mF = true).
    { left. split; [|reflexivity]. rewrite E5Q. cbn [d5 d_p]. rewrite Pm3, negb_involutive.
      change (hm_slot mF p) with (hm_slot c1 p). exact Sc1p. }
    assert (Lf5 : rleaf d5 (hm_2pc mF) (hm_prim mF) = true).
    { unfold rleaf. change (hm_2pc mF) with true. change (hm_prim mF) with (negb (hm_prim c1)). rewrite Pc1.
      cbn [d5 d_p]. rewrite Pm3. apply B_2pc. }
    destruct (sem_pure_keep H expect ps H_tear expect_above d5 D5 mF true IO5 Dd5 eq_refl OK5 WF EP5 HQ5 Lf5)
      as (FO5 & IO6 & Dd6).
    exists [mkWrec dA ([] ++ [hdr_write m3]) true; mkWrec d3 ([] ++ [hdr_write c1]) true;
            mkWrec d4 ([] ++ [hdr_write c2]) true; mkWrec d5 ([] ++ [hdr_write mF]) true].
    split; [exact EW|]. rewrite ES. cbn [image_after w_ops]. fold D3. fold D4. fold D5. split.
    - constructor; cbn [w_sum w_ops w_vnew]; [exact IOA | exact FO2 |]. fold D3.
      constructor; cbn [w_sum w_ops w_vnew]; [exact IO3 | exact FO3 |]. fold D4.
      constructor; cbn [w_sum w_ops w_vnew]; [exact IO4 | exact FO4 |]. fold D5.
      constructor; cbn [w_sum w_ops w_vnew]; [exact IO5 | exact FO5 | constructor].
    - constructor; cbn [p_d]; [exact IO6 | exact Dd6].
  Qed.

  (* the summary TransactionalMemory::new leaves behind, explicitly *)
  Definition dA_of (m1 : hdrm) : dsum :=
    if r0 then mkDsum (enc_hdr m1) (d_len d) p (d_rp d)
                      (if negb (bytes_eqb (hm_slot m1 (negb p)) (dQ d)) then true else d_vq d) None
    else d.

  Lemma k_fin_shape m1 :
    hm_wfb m1 = true ->
    a_st (rec_finalize d m1 r0) = mkPst (dA_of m1) [] m1 false false
    /\ a_ws (rec_finalize d m1 r0) = if r0 then [mkWrec d ([] ++ [hdr_write m1]) true] else [].
  Proof.
    intros W1. pose proof (hm_wfb_wf _ W1) as Wf1. unfold rec_finalize, dA_of. destruct r0; [|split; reflexivity].
    assert (Ecur : cur_len (a_st (a_issue (a_start (mkPst d [] m1 false false)) [hdr_write m1])) = d_len d).
    { unfold a_issue, a_start. cbn [a_st p_d p_win p_mem p_rfs p_open]. apply (cur_len_one_hdr _ _ _ _ _ Wf1). }
    unfold a_sync, d_same. rewrite Ecur. split; reflexivity.
  Qed.

  Lemma k_fin_sem m1 :
    M1 m1 -> rleaf d t0 p0 = true -> rleaf d t0 (hm_prim m1) = true ->
    forall D, image_ok H expect ps d D -> dead H d ->
    chain H expect ps D (a_ws (rec_finalize d m1 r0))
    /\ image_ok H expect ps (dA_of m1) (image_after D (a_ws (rec_finalize d m1 r0)))
    /\ dead H (dA_of m1).
  Proof.
    intros M La Lb D IO Dd.
    destruct (k_fin m1 M La Lb) as (dA & primA & Ea1 & Wa1 & _).
    destruct (k_fin_shape m1 (m_wf _ M)) as [ES EW]. rewrite EW in Wa1 |- *. unfold dA_of in *.
    destruct k_facts as (_ & _ & _ & _ & _ & _ & F7 & _).
    destruct r0 eqn:Er.
    - cbn [forallb] in Wa1. rewrite andb_true_r, wrec_okb_mk in Wa1.
      set (vq1 := if negb (bytes_eqb (hm_slot m1 (negb p)) (dQ d)) then true else d_vq d) in *.
      assert (HQ : hm_slot m1 (negb p) = dQ d /\ vq1 = d_vq d
                   \/ hm_slot m1 (negb p) = dP d /\ vq1 = true /\ hm_2pc m1 = true).
      { unfold vq1. destruct (bytes_eqb (hm_slot m1 (negb p)) (dQ d)) eqn:E.
        - apply bytes_eqb_eq in E. left. auto.
        - apply bytes_eqb_neq in E. right. destruct (m_Q _ M) as [[Y _] | (T & _ & Y)]; [contradiction|].
          rewrite (m_t _ M). auto. }
      assert (Lf : rleaf d (hm_2pc m1) (hm_prim m1) = true) by (rewrite (m_t _ M); exact Lb).
      destruct (sem_pure_keep H expect ps H_tear expect_above d D m1 vq1 IO Dd F7 Wa1 (m_wf _ M) (m_P _ M) HQ Lf)
        as (FO & IO' & Dd').
      cbn [image_after w_ops]. split; [|split; [exact IO' | exact Dd']].
      constructor; cbn [w_sum w_ops w_vnew]; [exact IO | exact FO | constructor].
    - cbn [image_after]. split; [constructor | split; [exact IO | exact Dd]].
  Qed.

  (* ---- the summaries of a recovery run are truthful: every window start is image_ok, hence a crash during
     recovery, at any depth, is again an input of crash_window_safe; and the run hands a truthful state to
     the protocol ---- *)
  Theorem recovery_sem a :
    recovery_run d o = Some a ->
    forall D, image_ok H expect ps d D -> dead H d ->
    chain H expect ps D (a_ws a) /\ Sem H expect ps (a_st a) (image_after D (a_ws a)).
  Proof.
    intros E D IO Dd. unfold recovery_run in E.
    destruct k_facts as (_ & _ & _ & _ & _ & _ & _ & _ & _ & F10 & F11 & F12).
    change (hm_rr m0) with r0 in E. change (hm_prim m0) with p0 in E.
    assert (Eg : negb r0 && negb (stored_len g =? d_len d) = false).
    { destruct r0; [reflexivity|]. destruct F10 as [_ X]. now rewrite X, N.eqb_refl. }
    rewrite Eg in E.
    destruct (select_primary m0' (if Bool.eqb p0 p then true else d_vq d)
                             (if Bool.eqb (negb p0) p then true else d_vq d)) as [m1|] eqn:Es; [|discriminate].
    destruct (k_sel m1 Es) as (Sb & K1 & K2 & K3 & K4 & K5 & K6 & K7).
    assert (M : M1 m1) by (constructor; auto).
    pose proof (cons_of d) as Cons.
    assert (Hsame : sameb d = true -> p = p0).
    { unfold sameb. intros X. apply bytes_eqb_eq in X. apply F11. now symmetry. }
    assert (Leaves :
      rleaf d t0 p0 = true /\ rleaf d t0 (hm_prim m1) = true
      /\ (t0 = true -> hm_prim m1 = p /\ p0 = p)
      /\ (t0 = false ->
          rleafb false p0 p (d_vq d) (lqb d) (lpb d) (sameb d) false p = true
          /\ rleafb false (hm_prim m1) p (d_vq d) (lqb d) (lpb d) (sameb d) false (hm_prim m1) = true
          /\ rleafb false (hm_prim m1) p (d_vq d) (lqb d) (lpb d) (sameb d) false p = true
          /\ rleafb false p p (d_vq d) (lqb d) (lpb d) (sameb d) false p = true)).
    { unfold rleaf. destruct t0 eqn:Et.
      - specialize (F12 eq_refl). unfold sel_primb in Sb. rewrite <- F12, eqb_reflx in Sb. injection Sb as Sb.
        rewrite <- Sb, <- F12. split; [apply B_2pc|]. split; [apply B_2pc|].
        split; [intros _; split; reflexivity | intros X; discriminate X].
      - destruct (B_1pc p0 p (d_vq d) (lqb d) (lpb d) (sameb d) (hm_prim m1) Cons Hsame Sb) as (B1 & B2 & B3 & B4 & B5 & B6).
        split; [exact B1|]. split; [exact B2|]. split; [intros X; discriminate X|].
        intros _. repeat split; assumption. }
    destruct Leaves as (La & Lb & L2pc & L1pc).
    destruct (k_fin m1 M La Lb) as (dA & primA & Ea1 & Wa1 & A & EprimA & Ebool).
    destruct (k_fin_sem m1 M La Lb D IO Dd) as (CH1 & IOA & DdA).
    destruct (k_fin_shape m1 K1) as [ES1 _].
    assert (EdA : dA = dA_of m1) by congruence. rewrite <- EdA in IOA, DdA. clear EdA ES1.
    change (hm_rr m0) with r0 in E.
    set (a1 := rec_finalize d m1 r0) in *.
    set (D1 := image_after D (a_ws a1)) in *.
    rewrite K5 in E.
    destruct (t0 && ro_quick o) eqn:Equick.
    - apply andb_true_iff in Equick as [Et _]. destruct (L2pc Et) as [Ep1 Ep0].
      injection E as <-.
      assert (A' : AF dA m1 p).
      { replace p with primA; [exact A|]. rewrite EprimA. destruct r0; [exact Ep1 | exact Ep0]. }
      destruct (rec_quick_sem a1 dA m1 Ea1 Wa1 A' M Et Ep1 D1 IOA DdA) as (ws & EW & CH & S).
      rewrite EW, image_after_app. fold D1. split; [apply chain_app; [exact CH1 | exact CH] | exact S].
    - assert (Lfull : forall m2, (m2 = m1 \/ m2 = swap_prim m1) -> hm_prim m2 = p ->
                chain H expect ps D (a_ws (rec_full a1 m2 (ro_q o) (d_rp d)))
                /\ Sem H expect ps (a_st (rec_full a1 m2 (ro_q o) (d_rp d)))
                                   (image_after D (a_ws (rec_full a1 m2 (ro_q o) (d_rp d))))).
      { intros m2 Hm2 Ep2.
        destruct (rec_full_sem a1 dA m1 primA m2 Ea1 Wa1 A M Hm2 Ep2) with (DA := D1) as (ws & EW & CH & S); auto.
        - unfold rleaf. rewrite (af_t _ _ _ A), (af_prim _ _ _ A), (af_p _ _ _ A).
          destruct t0 eqn:Et.
          + destruct (L2pc eq_refl) as [Ep1 Ep0]. replace primA with p; [apply B_2pc|].
            rewrite EprimA. destruct r0; [symmetry; exact Ep1 | symmetry; exact Ep0].
          + destruct (Ebool eq_refl) as (V1 & V2 & V3 & V4). destruct (L1pc eq_refl) as (B3 & B4 & B5 & B6).
            rewrite V1, V2, V3, V4, EprimA. destruct r0; [exact B4|].
            unfold rleaf in La. rewrite Et in La. exact La.
        - unfold rleaf. rewrite (af_t _ _ _ A), (af_prim _ _ _ A), (af_p _ _ _ A).
          destruct t0 eqn:Et; [apply B_2pc|].
          destruct (Ebool eq_refl) as (V1 & V2 & V3 & V4). destruct (L1pc eq_refl) as (B3 & B4 & B5 & B6).
          rewrite V1, V2, V3, V4, EprimA. destruct r0; [exact B5 | exact B3].
        - intros Et. destruct (Ebool Et) as (V1 & V2 & V3 & V4). destruct (L1pc Et) as (B3 & B4 & B5 & B6).
          rewrite V1, V2, V3, V4. exact B6.
        - rewrite EW, image_after_app. fold D1. split; [apply chain_app; [exact CH1 | exact CH] | exact S]. }
      destruct (Bool.eqb (hm_prim m1) p) eqn:Ep1.
      + apply Bool.eqb_prop in Ep1. injection E as <-. exact (Lfull m1 (or_introl eq_refl) Ep1).
      + destruct t0 eqn:Et; [discriminate|]. injection E as <-.
        assert (Ep2 : hm_prim (swap_prim m1) = p).
        { cbn [swap_prim hm_prim]. rewrite (eqb_false_negb _ _ Ep1). apply negb_involutive. }
        exact (Lfull (swap_prim m1) (or_intror eq_refl) Ep2).
  Qed.
End Rec.

(* what a truthful summary offers by itself *)
Lemma image_ok_rec_hdr H expect ps d D :
  image_ok H expect ps d D ->
  (dP d = dQ d -> d_p d = flag (dgod d) PRIMARY_BIT) ->
  rec_hdr_okb d = true.
Proof.
  intros [Hhl Hhdr Hlen HPc HPv HPcov Hvq Hrq Hrec] Hcanon.
  destruct (recover_Some_inv H expect ps D _ Hrec) as (R0 & R1 & R2 & R3 & R4 & R5 & R6).
  assert (EDm : magic_at (iat D) = magic_at (hget (d_hdr d)))
    by (apply rd_ext; intros i Hi; apply Hhdr; now apply magic_in_hdr).
  assert (EDs : forall k, slot_at (iat D) k = slot_at (hget (d_hdr d)) k)
    by (intros k; apply rd_ext; intros i Hi; apply Hhdr; eapply slot_in_hdr; eauto).
  assert (EDgod : god (iat D) = dgod d) by (apply Hhdr; apply god_in_hdr).
  assert (Vs : forall k, slot_wfb (slot_at (hget (d_hdr d)) k) = true).
  { intros k. apply slot_wfb_spec. split; [unfold slot_at; apply rd_length|].
    rewrite <- EDs. destruct k; auto. }
  unfold rec_hdr_okb. rewrite Hhl, Nat.eqb_refl, <- EDm, R1, bytes_eqb_refl. unfold dP, dQ. rewrite !Vs. cbn [andb].
  change (hm_2pc (parse_hdr (d_hdr d))) with (flag (dgod d) TWO_PHASE_COMMIT).
  change (hm_prim (parse_hdr (d_hdr d))) with (flag (dgod d) PRIMARY_BIT).
  destruct (flag (dgod d) TWO_PHASE_COMMIT) eqn:Et; [|reflexivity]. cbn [negb orb].
  assert (EselD : select H (dgod d) (if d_p d then dQ d else dP d) (if d_p d then dP d else dQ d) (ver expect D)
                  = Some (dP d)).
  { rewrite <- R6, EDgod, !EDs. unfold dP, dQ. destruct (d_p d); reflexivity. }
  rewrite (select_char H _ _ _ _ _ HPc HPv), Et in EselD.
  destruct (xorb (flag (dgod d) PRIMARY_BIT) (d_p d)) eqn:Ex.
  - destruct (cks_ok H (dQ d) && ver expect D (dQ d)); [|discriminate].
    assert (E : dQ d = dP d) by congruence.
    rewrite (Hcanon (eq_sym E)) in Ex. rewrite xorb_nilpotent in Ex. discriminate.
  - apply xorb_eq in Ex. rewrite Ex. apply eqb_reflx.
Qed.

(* the windows of a recovery run on any truthful summary *)
Theorem recovery_windows_ok_sem H expect ps d D o a :
  image_ok H expect ps d D -> rec_side_okb d o = true -> recovery_run d o = Some a ->
  forallb wrec_okb (a_ws a) = true /\ Inv (a_st a) /\ p_open (a_st a) = true.
Proof.
  intros IO Hs E. apply (recovery_ok d o); auto. unfold rec_okb. rewrite Hs, andb_true_r.
  apply (image_ok_rec_hdr H expect ps d D IO).
  unfold rec_side_okb in Hs. rewrite !andb_true_iff in Hs. destruct Hs as (_ & X).
  intros Eq. apply orb_true_iff in X as [X | X].
  - apply negb_true_iff, bytes_eqb_neq in X. contradiction.
  - now apply Bool.eqb_prop in X.
Qed.

(* ---------- crash safety of recovery runs, and of what follows them ---------- *)

Section RecoverySafe.
  Variable H : bytes -> bytes.
  Variable expect : bytes -> list (N * bytes).
  Variable ps : N.
  Hypothesis H_tear : forall a b m,
    cks_ok H a = true -> cks_ok H b = true -> mix2 a b m -> cks_ok H m = true -> m = a \/ m = b.
  Hypothesis expect_above : forall s e, In e (expect s) -> DB_HEADER_SIZE <= fst e.

  (* what the repair commit owes: its slot has a valid checksum and names the trees of the served commit *)
  Definition repair_sem (d : dsum) (o : roracle) : Prop :=
    cks_ok H (ro_q o) = true
    /\ (forall img, ver expect img (dP d) = true -> ver expect img (ro_q o) = true)
    /\ (forall e, In e (expect (ro_q o)) -> range_covered (d_rp d) (fst e) (wlen (snd e)) = true).

  Lemma rec_okb_of_image_ok d D o :
    image_ok H expect ps d D -> rec_side_okb d o = true -> rec_okb d o = true.
  Proof.
    intros IO Hs. unfold rec_okb. rewrite Hs, andb_true_r.
    apply (image_ok_rec_hdr H expect ps d D IO).
    unfold rec_side_okb in Hs. rewrite !andb_true_iff in Hs. destruct Hs as (_ & X).
    intros Eq. apply orb_true_iff in X as [X | X].
    - apply negb_true_iff, bytes_eqb_neq in X. contradiction.
    - now apply Bool.eqb_prop in X.
  Qed.

  Theorem recovery_chain d D o a :
    image_ok H expect ps d D -> dead H d -> rec_side_okb d o = true -> repair_sem d o ->
    recovery_run d o = Some a ->
    chain H expect ps D (a_ws a) /\ Sem H expect ps (a_st a) (image_after D (a_ws a)).
  Proof.
    intros IO Dd Hs (Q1 & Q2 & Q3) E.
    exact (recovery_sem d o (rec_okb_of_image_ok d D o IO Hs) H expect ps H_tear expect_above Q1 Q2 Q3 a E D IO Dd).
  Qed.

  (* a crash at any instant of a recovery run: recovery of the crash image serves the commit the interrupted
     recovery was serving, or the repair commit it was writing (the same trees) *)
  Theorem recovery_crash_safe d D o a :
    image_ok H expect ps d D -> dead H d -> rec_side_okb d o = true -> repair_sem d o ->
    recovery_run d o = Some a ->
    forall pre w post k img,
      a_ws a = pre ++ w :: post ->
      CrashOf (image_after D pre) (firstn k (w_ops w)) img ->
      crash_outcome H expect ps (w_sum w) (map abs (w_ops w)) img.
  Proof.
    intros IO Dd Hs Hr E.
    destruct (recovery_chain d D o a IO Dd Hs Hr E) as [CH _].
    destruct (recovery_ok d o (rec_okb_of_image_ok d D o IO Hs) a E) as (W & _ & _).
    exact (crash_trace_safe H expect ps H_tear expect_above D _ CH W).
  Qed.

  (* recovery followed by any history of protocol steps *)
  Theorem recovery_then_protocol_crash_safe d D o a ss :
    image_ok H expect ps d D -> dead H d -> rec_side_okb d o = true -> repair_sem d o ->
    recovery_run d o = Some a ->
    steps_okb (a_st a) ss = true -> steps_sem H expect (a_st a) (image_after D (a_ws a)) ss ->
    forall pre w post k img,
      a_ws a ++ all_windows (run_steps (a_st a) ss) = pre ++ w :: post ->
      CrashOf (image_after D pre) (firstn k (w_ops w)) img ->
      crash_outcome H expect ps (w_sum w) (map abs (w_ops w)) img.
  Proof.
    intros IO Dd Hs Hr E Hok Hsem.
    destruct (recovery_chain d D o a IO Dd Hs Hr E) as [CH S].
    destruct (recovery_ok d o (rec_okb_of_image_ok d D o IO Hs) a E) as (W & J & _).
    pose proof (protocol_chain H expect ps H_tear expect_above (a_st a) ss _ J S Hok Hsem) as CH2.
    destruct (steps_ok (a_st a) ss J Hok) as [W2 _].
    apply (crash_trace_safe H expect ps H_tear expect_above D (a_ws a ++ all_windows (run_steps (a_st a) ss))).
    - apply chain_app; assumption.
    - rewrite forallb_app, W, W2. reflexivity.
  Qed.
End RecoverySafe.

(* ---------- boolean forms for Props/C01.v ---------- *)

Theorem protocol_windows_ok_b st ss :
  inv_b st = true -> steps_okb st ss = true ->
  forallb wrec_okb (all_windows (run_steps st ss)) = true
  /\ inv_b (a_st (run_steps st ss)) = true.
Proof.
  intros I Hs. apply inv_b_Inv in I. destruct (steps_ok st ss I Hs) as [W J].
  split; [exact W|]. apply inv_b_Inv. exact J.
Qed.
