(* Lemmas about the header model: field extraction through getters that agree, slot selection. *)
From RV Require Import Base.Bytes Gen.Consts Storage.Backend Storage.BackendP Storage.Header.

Lemma u32_at_ext g g' off :
  (forall i, off <= i < off + 4 -> g i = g' i) -> u32_at g off = u32_at g' off.
Proof. intros Hx. unfold u32_at. f_equal. apply rd_ext. simpl. intros i Hi. apply Hx. lia. Qed.

(* the three geometry words are determined by the 12 geometry bytes *)
Lemma geom_words g g' :
  geom_at g = geom_at g' ->
  page_size_of g = page_size_of g' /\ rhp_of g = rhp_of g' /\ rmp_of g = rmp_of g'.
Proof.
  intros E. pose proof (rd_eq_inv _ _ _ _ E) as Hp.
  unfold page_size_of, rhp_of, rmp_of.
  repeat split; apply u32_at_ext; intros i Hi; apply Hp;
    unfold PAGE_SIZE_OFFSET, REGION_HEADER_PAGES_OFFSET, REGION_MAX_DATA_PAGES_OFFSET, GEOM_LEN in *; lia.
Qed.

Lemma layout_words g g' :
  layout_at g = layout_at g' ->
  full_regions_of g = full_regions_of g' /\ trailing_of g = trailing_of g'.
Proof.
  intros E. pose proof (rd_eq_inv _ _ _ _ E) as Hp.
  unfold full_regions_of, trailing_of.
  split; apply u32_at_ext; intros i Hi; apply Hp;
    unfold NUM_FULL_REGIONS_OFFSET, TRAILING_REGION_DATA_PAGES_OFFSET, LAYOUT_LEN in *; lia.
Qed.

Lemma geom_ok_ext ps g g' : geom_at g = geom_at g' -> geom_ok ps g = geom_ok ps g'.
Proof. intros E. destruct (geom_words _ _ E) as (A & B & C). unfold geom_ok. now rewrite A, B, C. Qed.

Lemma stored_ext g g' :
  geom_at g = geom_at g' -> layout_at g = layout_at g' ->
  stored_sane g = stored_sane g' /\ stored_len g = stored_len g'.
Proof.
  intros E1 E2. destruct (geom_words _ _ E1) as (A & B & C). destruct (layout_words _ _ E2) as (F & T).
  unfold stored_sane, stored_len. now rewrite A, B, C, F, T.
Qed.

Section WithChecksum.
  Variable H : bytes -> bytes.
  Variable expect : bytes -> list (N * bytes).

  Lemma guard_inv (c : bool) (x : option bytes) s :
    (if negb c then None else x) = Some s -> c = true /\ x = Some s.
  Proof. destruct c; simpl; [auto | discriminate]. Qed.

  Lemma try2_first verf a b : verf a = true -> try2 verf a b = Some a.
  Proof. unfold try2. now intros ->. Qed.

  (* what recover did when it succeeded *)
  Lemma recover_Some_inv ps img s :
    recover H expect ps img = Some s ->
    let g := iat img in
    DB_HEADER_SIZE <= ilen img
    /\ magic_at g = MAGICNUMBER
    /\ geom_ok ps g = true
    /\ slot_version (slot_at g false) = FILE_FORMAT_VERSION3
    /\ slot_version (slot_at g true) = FILE_FORMAT_VERSION3
    /\ finalize_ok g (ilen img) = true
    /\ select H (god g) (slot_at g false) (slot_at g true) (ver expect img) = Some s.
  Proof.
    unfold recover. intros E.
    apply guard_inv in E as [E0 E]. apply guard_inv in E as [E1 E].
    apply guard_inv in E as [E2 E]. apply guard_inv in E as [E3 E]. apply guard_inv in E as [E4 E].
    apply andb_true_iff in E3 as [E3a E3b].
    apply N.leb_le in E0. apply bytes_eqb_eq in E1. apply N.eqb_eq in E3a, E3b.
    cbv zeta. repeat split; auto.
  Qed.

  Lemma recover_intro ps img :
    let g := iat img in
    DB_HEADER_SIZE <= ilen img ->
    magic_at g = MAGICNUMBER ->
    geom_ok ps g = true ->
    slot_version (slot_at g false) = FILE_FORMAT_VERSION3 ->
    slot_version (slot_at g true) = FILE_FORMAT_VERSION3 ->
    finalize_ok g (ilen img) = true ->
    recover H expect ps img = select H (god g) (slot_at g false) (slot_at g true) (ver expect img).
  Proof.
    cbv zeta. intros A B C D E F. unfold recover.
    apply N.leb_le in A. rewrite A. cbn [negb].
    rewrite B, bytes_eqb_refl. cbn [negb]. rewrite C. cbn [negb]. rewrite D, E, N.eqb_refl. cbn [negb andb].
    rewrite F. reflexivity.
  Qed.
End WithChecksum.
