(* C20 -- proofs about the layout model of Layout.v *)
From Coq Require Import List NArith Bool Lia.
From RV Require Import Gen.Consts Storage.Layout.
Import ListNotations.
Open Scope N_scope.

Local Ltac nb :=
  repeat match goal with
  | H : (_ =? _) = true |- _ => apply N.eqb_eq in H
  | H : (_ =? _) = false |- _ => apply N.eqb_neq in H
  | H : (_ <=? _) = true |- _ => apply N.leb_le in H
  | H : (_ <=? _) = false |- _ => apply N.leb_gt in H
  | H : (_ <? _) = true |- _ => apply N.ltb_lt in H
  | H : (_ <? _) = false |- _ => apply N.ltb_ge in H
  end.

Lemma pow2_pos : forall o, 0 < 2 ^ o.
Proof. intros. assert (2 ^ o <> 0) by (apply N.pow_nonzero; lia). lia. Qed.

(* ------------------------------------------------------------------ regions inside the file *)

Lemma region_layout_shape : forall L r,
  valid_layout L -> r < dl_num_regions L ->
  rl_header_pages (dl_region_layout L r) = rl_header_pages (dl_full L) /\
  rl_page_size (dl_region_layout L r) = rl_page_size (dl_full L) /\
  0 < rl_num_pages (dl_region_layout L r) <= rl_num_pages (dl_full L).
Proof.
  intros [f nf tr] r (Hps & Hcap & Hnr & Htr) Hr.
  unfold dl_region_layout, dl_num_regions in *. simpl in *.
  destruct (r =? nf) eqn:E; nb.
  - destruct tr as [t|]; [|lia]. destruct Htr as (? & ? & ?). auto.
  - repeat split; auto; lia.
Qed.

Lemma region_end_le_len : forall L r,
  valid_layout L -> r < dl_num_regions L ->
  dl_region_base L r + rl_len (dl_region_layout L r) <= dl_len L.
Proof.
  intros [f nf tr] r HV Hr.
  pose proof (region_layout_shape _ r HV Hr) as (Hh & Hp & Hn).
  destruct HV as (Hps & Hcap & Hnr & Htr).
  unfold dl_len, dl_region_base, dl_region_layout, dl_num_regions, rl_len, rl_usable in *.
  simpl in *.
  destruct tr as [t|].
  - replace (nf + 1 - 1) with nf by lia. rewrite N.eqb_refl.
    destruct Htr as (Ht1 & Ht2 & Ht3).
    destruct (r =? nf) eqn:E; nb.
    + subst r. lia.
    + assert (Hr1 : r + 1 <= nf) by lia.
      set (X := rl_header_pages f * rl_page_size f + rl_page_size f * rl_num_pages f) in *.
      pose proof (N.mul_le_mono_r _ _ X Hr1) as HX. rewrite N.mul_add_distr_r in HX.
      assert (rl_page_size f * rl_num_pages t <= rl_page_size f * rl_num_pages f)
        by (apply N.mul_le_mono_l; lia).
      rewrite Ht1, Ht2. lia.
  - assert (exists m, nf = m + 1) as [m ->] by (exists (nf - 1); lia).
    replace (m + 1 - 1) with m by lia.
    assert (m =? m + 1 = false) as -> by (apply N.eqb_neq; lia).
    destruct (r =? m + 1) eqn:E; nb; [lia|].
    assert (Hr1 : r <= m) by lia.
    set (X := rl_header_pages f * rl_page_size f + rl_page_size f * rl_num_pages f) in *.
    pose proof (N.mul_le_mono_r _ _ X Hr1) as HX.
    lia.
Qed.

(* ------------------------------------------------------------------ address_in_bounds *)

Lemma mem_address_range_eq : forall L p,
  mem_address_range L p =
  (dl_region_base L (pn_region p) + rl_data_start (dl_full L) + blk_start p * rl_page_size (dl_full L),
   dl_region_base L (pn_region p) + rl_data_start (dl_full L) + blk_end p * rl_page_size (dl_full L)).
Proof.
  intros. unfold mem_address_range, address_range, page_size_bytes, dl_region_base, blk_start, blk_end.
  f_equal; lia.
Qed.

Theorem address_in_region : forall L p,
  valid_layout L -> in_layout L p ->
  dl_region_base L (pn_region p) + rl_data_start (dl_full L) <= fst (mem_address_range L p) /\
  fst (mem_address_range L p) < snd (mem_address_range L p) /\
  snd (mem_address_range L p) <=
    dl_region_base L (pn_region p) + rl_len (dl_region_layout L (pn_region p)).
Proof.
  intros L p HV [Hr Hb].
  pose proof (region_layout_shape _ _ HV Hr) as (Hh & Hp & Hn).
  destruct HV as (Hps & _).
  rewrite mem_address_range_eq. simpl.
  pose proof (pow2_pos (pn_order p)) as H2.
  unfold rl_len, rl_usable, rl_data_start. rewrite Hh, Hp.
  unfold blk_start, blk_end in *.
  set (ps := rl_page_size (dl_full L)) in *.
  set (n := rl_num_pages (dl_region_layout L (pn_region p))) in *.
  set (w := 2 ^ pn_order p) in *.
  repeat split; nia.
Qed.

(* every page the guard of mark_page_allocated accepts lies inside the file, after the header page *)
Theorem address_in_bounds : forall L p,
  valid_layout L -> in_layout L p ->
  rl_page_size (dl_full L) <= fst (mem_address_range L p) /\
  fst (mem_address_range L p) < snd (mem_address_range L p) /\
  snd (mem_address_range L p) <= dl_len L.
Proof.
  intros L p HV HI.
  pose proof (address_in_region L p HV HI) as (H1 & H2 & H3).
  pose proof (region_end_le_len L (pn_region p) HV (proj1 HI)) as H4.
  unfold dl_region_base in H1 at 1.
  repeat split; lia.
Qed.

(* ------------------------------------------------------------------ disjointness *)

Lemma same_region_disjoint : forall L p q,
  pn_region p = pn_region q -> blocks_disjoint p q ->
  ranges_disjoint (mem_address_range L p) (mem_address_range L q).
Proof.
  intros L p q Hr Hd. rewrite !mem_address_range_eq. unfold ranges_disjoint. simpl.
  rewrite Hr. destruct Hd as [H|H]; [left|right]; nia.
Qed.

Lemma region_base_mono : forall L r1 r2,
  r1 < r2 -> dl_region_base L r1 + rl_len (dl_full L) <= dl_region_base L r2.
Proof. intros. unfold dl_region_base. nia. Qed.

Lemma other_region_disjoint : forall L p q,
  valid_layout L -> in_layout L p -> in_layout L q -> pn_region p <> pn_region q ->
  ranges_disjoint (mem_address_range L p) (mem_address_range L q).
Proof.
  assert (G : forall L p q, valid_layout L -> in_layout L p -> in_layout L q ->
              pn_region p < pn_region q ->
              snd (mem_address_range L p) <= fst (mem_address_range L q)).
  { intros L p q HV Hp Hq Hlt.
    pose proof (address_in_region L p HV Hp) as (_ & _ & H3).
    pose proof (address_in_region L q HV Hq) as (H1 & _ & _).
    pose proof (region_layout_shape _ _ HV (proj1 Hp)) as (Hh & Hps & Hn).
    pose proof (region_base_mono L _ _ Hlt) as Hm.
    assert (rl_len (dl_region_layout L (pn_region p)) <= rl_len (dl_full L)).
    { unfold rl_len, rl_usable. rewrite Hh, Hps. nia. }
    lia. }
  intros L p q HV Hp Hq Hne. unfold ranges_disjoint.
  destruct (N.lt_ge_cases (pn_region p) (pn_region q)).
  - left. apply G; auto.
  - right. apply G; auto. lia.
Qed.

(* buddy blocks are dyadic intervals: two of them are disjoint or nested *)
Lemma dyadic_le : forall p q, pn_order p <= pn_order q ->
  blocks_disjoint p q \/ block_within p q.
Proof.
  intros [rp i o] [rq j o'] Hle. unfold blocks_disjoint, block_within, blk_start, blk_end. simpl in *.
  assert (E : 2 ^ o' = 2 ^ (o' - o) * 2 ^ o).
  { rewrite <- N.pow_add_r. f_equal. lia. }
  rewrite E. pose proof (pow2_pos o) as Hw. pose proof (pow2_pos (o' - o)) as Hd.
  set (w := 2 ^ o) in *. set (d := 2 ^ (o' - o)) in *.
  destruct (N.lt_ge_cases i (j * d)) as [H1|H1].
  - left. left. assert (i + 1 <= j * d) by lia. nia.
  - destruct (N.lt_ge_cases i ((j + 1) * d)) as [H2|H2].
    + right. split; [nia|]. assert (i + 1 <= (j + 1) * d) by lia. nia.
    + left. right. nia.
Qed.

Lemma dyadic : forall p q,
  blocks_disjoint p q \/ block_within p q \/ block_within q p.
Proof.
  intros p q. destruct (N.le_ge_cases (pn_order p) (pn_order q)) as [H|H].
  - destruct (dyadic_le p q H); auto.
  - destruct (dyadic_le q p H) as [[D|D]|W]; auto; left; [right|left]; exact D.
Qed.

(* two pages the layout accepts have disjoint byte ranges unless one is a sub-block of the other
   (which the buddy allocator excludes: C14) *)
Theorem address_disjoint : forall L p q,
  valid_layout L -> in_layout L p -> in_layout L q ->
  ranges_disjoint (mem_address_range L p) (mem_address_range L q) \/
  (pn_region p = pn_region q /\ (block_within p q \/ block_within q p)).
Proof.
  intros L p q HV Hp Hq.
  destruct (N.eq_dec (pn_region p) (pn_region q)) as [E|E].
  - destruct (dyadic p q) as [D|W].
    + left. apply same_region_disjoint; auto.
    + right. auto.
  - left. apply other_region_disjoint; auto.
Qed.

Corollary address_disjoint_same_order : forall L p q,
  valid_layout L -> in_layout L p -> in_layout L q ->
  pn_order p = pn_order q -> (pn_region p <> pn_region q \/ pn_index p <> pn_index q) ->
  ranges_disjoint (mem_address_range L p) (mem_address_range L q).
Proof.
  intros L p q HV Hp Hq Ho Hne.
  destruct (N.eq_dec (pn_region p) (pn_region q)) as [E|E].
  - apply same_region_disjoint; auto.
    destruct Hne as [?|Hi]; [contradiction|].
    unfold blocks_disjoint, blk_start, blk_end. rewrite Ho.
    pose proof (pow2_pos (pn_order q)).
    destruct (N.lt_ge_cases (pn_index p) (pn_index q)); [left|right]; nia.
  - apply other_region_disjoint; auto.
Qed.

(* ------------------------------------------------------------------ calculate / recalculate *)

Lemma dl_len_some : forall f nf t,
  dl_len (mkDL f nf (Some t)) = rl_page_size f + nf * rl_len f + rl_len t.
Proof.
  intros. unfold dl_len, dl_num_regions, dl_region_layout, dl_region_base. simpl.
  replace (nf + 1 - 1) with nf by lia. rewrite N.eqb_refl. reflexivity.
Qed.

Lemma dl_len_none : forall f m,
  dl_len (mkDL f (m + 1) None) = rl_page_size f + (m + 1) * rl_len f.
Proof.
  intros. unfold dl_len, dl_num_regions, dl_region_layout, dl_region_base. simpl.
  replace (m + 1 - 1) with m by lia.
  assert (m =? m + 1 = false) as -> by (apply N.eqb_neq; lia). lia.
Qed.

Lemma recalc_exact : forall hdr cap ps k rem,
  0 < ps -> 0 < cap -> rem < (hdr + cap) * ps ->
  dl_recalculate (ps + k * ((hdr + cap) * ps) + rem) hdr cap ps =
  mkDL (mkRL cap hdr ps) k
       (if (hdr + 1) * ps <=? rem then Some (mkRL ((rem - hdr * ps) / ps) hdr ps) else None).
Proof.
  intros hdr cap ps k rem Hps Hcap Hrem. unfold dl_recalculate.
  set (F := (hdr + cap) * ps) in *.
  replace (ps + k * F + rem - ps) with (k * F + rem) by lia.
  assert (HF : F <> 0) by (unfold F; nia).
  assert (Hq : (k * F + rem) / F = k).
  { symmetry. apply (N.div_unique (k * F + rem) F k rem); [exact Hrem|lia]. }
  rewrite Hq. replace (k * F + rem - k * F) with rem by lia. reflexivity.
Qed.

Theorem recalculate_len : forall L cap hdr ps,
  valid_layout L -> dl_full L = mkRL cap hdr ps ->
  dl_recalculate (dl_len L) hdr cap ps = dl_norm L.
Proof.
  intros [f nf tr] cap hdr ps (Hps & Hcap & Hnr & Htr) Hf. simpl in *. subst f. simpl in *.
  unfold dl_norm, dl_num_regions in *. simpl in *.
  destruct tr as [[n th tp]|]; simpl in *.
  - destruct Htr as (-> & -> & Hn1 & Hn2).
    rewrite dl_len_some. unfold rl_len, rl_usable. simpl.
    destruct (n =? cap) eqn:E; nb.
    + subst n.
      replace (ps + nf * (hdr * ps + ps * cap) + (hdr * ps + ps * cap))
        with (ps + (nf + 1) * ((hdr + cap) * ps) + 0) by lia.
      rewrite recalc_exact by nia.
      assert ((hdr + 1) * ps <=? 0 = false) as -> by (apply N.leb_gt; nia). reflexivity.
    + replace (ps + nf * (hdr * ps + ps * cap) + (hdr * ps + ps * n))
        with (ps + nf * ((hdr + cap) * ps) + (hdr * ps + ps * n)) by lia.
      rewrite recalc_exact by nia.
      assert ((hdr + 1) * ps <=? hdr * ps + ps * n = true) as -> by (apply N.leb_le; nia).
      replace (hdr * ps + ps * n - hdr * ps) with (n * ps) by lia.
      rewrite N.div_mul by lia. reflexivity.
  - assert (exists m, nf = m + 1) as [m ->] by (exists (nf - 1); lia).
    rewrite dl_len_none. unfold rl_len, rl_usable. simpl.
    replace (ps + (m + 1) * (hdr * ps + ps * cap))
      with (ps + (m + 1) * ((hdr + cap) * ps) + 0) by lia.
    rewrite recalc_exact by nia.
    assert ((hdr + 1) * ps <=? 0 = false) as -> by (apply N.leb_gt; nia). reflexivity.
Qed.

(* the normal form describes the same file *)
Theorem norm_equiv : forall L, valid_layout L ->
  valid_layout (dl_norm L) /\
  dl_full (dl_norm L) = dl_full L /\
  dl_num_regions (dl_norm L) = dl_num_regions L /\
  dl_len (dl_norm L) = dl_len L /\
  dl_usable (dl_norm L) = dl_usable L /\
  (forall r, r < dl_num_regions L ->
     dl_region_layout (dl_norm L) r = dl_region_layout L r /\
     dl_region_base (dl_norm L) r = dl_region_base L r) /\
  (forall p, in_layout (dl_norm L) p <-> in_layout L p) /\
  (forall p, mem_address_range (dl_norm L) p = mem_address_range L p).
Proof.
  intros [f nf tr] HV. pose proof HV as (Hps & Hcap & Hnr & Htr).
  unfold dl_norm. simpl in *.
  destruct tr as [[n th tp]|]; simpl in *.
  2:{ split; [exact HV|]. repeat split; auto; match goal with H : in_layout _ _ |- _ => apply H end. }
  destruct (n =? rl_num_pages f) eqn:E; nb.
  2:{ split; [exact HV|]. repeat split; auto; match goal with H : in_layout _ _ |- _ => apply H end. }
  destruct Htr as (-> & -> & Hn1 & Hn2). subst n. destruct f as [cap hdr ps]. simpl in *.
  assert (RL : forall r, r < nf + 1 ->
               dl_region_layout (mkDL (mkRL cap hdr ps) (nf + 1) None) r =
               dl_region_layout (mkDL (mkRL cap hdr ps) nf (Some (mkRL cap hdr ps))) r).
  { intros r Hr. unfold dl_region_layout. simpl.
    assert (r =? nf + 1 = false) as -> by (apply N.eqb_neq; lia).
    destruct (r =? nf); reflexivity. }
  split; [|split; [|split; [|split; [|split; [|split; [|split]]]]]].
  - unfold valid_layout, dl_num_regions. simpl. repeat split; auto; lia.
  - reflexivity.
  - reflexivity.
  - rewrite dl_len_none, dl_len_some. simpl. lia.
  - unfold dl_usable. simpl. lia.
  - intros r Hr. unfold dl_num_regions in Hr. simpl in Hr. split; [apply RL; exact Hr|reflexivity].
  - intros p. unfold in_layout, dl_num_regions. simpl.
    split; intros [H1 H2]; (split; [exact H1|]).
    + rewrite <- RL; auto.
    + rewrite RL; auto.
  - reflexivity.
Qed.

Lemma round_up_div : forall d ps, 0 < ps -> 0 < d ->
  0 < round_up_to_multiple_of d ps / ps /\
  d <= ps * (round_up_to_multiple_of d ps / ps) /\
  (forall c, d <= ps * c -> round_up_to_multiple_of d ps / ps <= c).
Proof.
  intros d ps Hps Hd. unfold round_up_to_multiple_of.
  pose proof (N.div_mod d ps ltac:(lia)) as E.
  pose proof (N.mod_lt d ps ltac:(lia)) as Hm.
  set (q := d / ps) in *. set (m := d mod ps) in *.
  destruct (m =? 0) eqn:Z; nb.
  - fold q. rewrite Z in E. split; [nia|]. split; [lia|]. intros c Hc. nia.
  - replace (d + ps - m) with ((q + 1) * ps) by nia.
    rewrite N.div_mul by lia. split; [lia|]. split; [nia|]. intros c Hc.
    assert (q < c) by nia. lia.
Qed.

Lemma calculate_unfold : forall desired cap hdr ps,
  dl_calculate desired cap hdr ps =
  if desired <=? ps * cap then
    mkDL (mkRL cap hdr ps) 0 (Some (mkRL (round_up_to_multiple_of desired ps / ps) hdr ps))
  else
    mkDL (mkRL cap hdr ps) (desired / (ps * cap))
      (if 0 <? desired - desired / (ps * cap) * (ps * cap)
       then Some (mkRL (round_up_to_multiple_of (desired - desired / (ps * cap) * (ps * cap)) ps / ps) hdr ps)
       else None).
Proof. reflexivity. Qed.

Theorem calculate_valid : forall desired cap hdr ps,
  0 < ps -> 0 < cap -> 0 < desired ->
  valid_layout (dl_calculate desired cap hdr ps) /\
  dl_full (dl_calculate desired cap hdr ps) = mkRL cap hdr ps /\
  desired <= dl_usable (dl_calculate desired cap hdr ps).
Proof.
  intros desired cap hdr ps Hps Hcap Hd. rewrite calculate_unfold.
  destruct (desired <=? ps * cap) eqn:E; nb.
  - pose proof (round_up_div desired ps Hps Hd) as (R1 & R2 & R3).
    specialize (R3 cap E).
    unfold valid_layout, dl_num_regions, dl_usable, rl_usable. simpl.
    repeat split; auto; lia.
  - remember (ps * cap) as U eqn:EU.
    assert (HU : 0 < U) by nia.
    pose proof (N.div_mod desired U ltac:(lia)) as DM.
    pose proof (N.mod_lt desired U ltac:(lia)) as ML.
    remember (desired / U) as fr eqn:Efr.
    remember (desired mod U) as rem eqn:Erem.
    assert (Hrem : desired - fr * U = rem) by nia.
    rewrite Hrem.
    assert (Hfr : 0 < fr) by nia.
    destruct (0 <? rem) eqn:Z; nb.
    + pose proof (round_up_div rem ps Hps Z) as (R1 & R2 & R3).
      assert (R4 : round_up_to_multiple_of rem ps / ps <= cap) by (apply R3; lia).
      unfold valid_layout, dl_num_regions, dl_usable, rl_usable. simpl. rewrite <- EU.
      repeat split; auto; nia.
    + unfold valid_layout, dl_num_regions, dl_usable, rl_usable. simpl. rewrite <- EU.
      repeat split; auto; nia.
Qed.

(* recalculate (len (calculate ...)) gives back the same layout (in normal form) *)
Theorem layout_roundtrip : forall desired cap hdr ps,
  0 < ps -> 0 < cap -> 0 < desired ->
  dl_recalculate (dl_len (dl_calculate desired cap hdr ps)) hdr cap ps =
  dl_norm (dl_calculate desired cap hdr ps).
Proof.
  intros desired cap hdr ps Hps Hcap Hd.
  pose proof (calculate_valid desired cap hdr ps Hps Hcap Hd) as (HV & HF & _).
  apply recalculate_len; assumption.
Qed.

(* ------------------------------------------------------------------ layout_from_file_len *)

Lemma recalculate_shape : forall fl hdr cap ps,
  0 < ps -> 0 < cap -> ps * (hdr + 2) <= fl ->
  valid_layout (dl_recalculate fl hdr cap ps) /\
  dl_full (dl_recalculate fl hdr cap ps) = mkRL cap hdr ps /\
  dl_len (dl_recalculate fl hdr cap ps) <= fl /\
  (fl <= ps + MAX_REGIONS * ((hdr + cap) * ps) ->
   dl_num_regions (dl_recalculate fl hdr cap ps) <= MAX_REGIONS).
Proof.
  intros fl hdr cap ps Hps Hcap Hmin.
  remember ((hdr + cap) * ps) as F eqn:EF.
  assert (HF : 0 < F) by nia.
  assert (HF2 : F = hdr * ps + ps * cap) by lia.
  pose proof (N.div_mod (fl - ps) F ltac:(lia)) as DM.
  pose proof (N.mod_lt (fl - ps) F ltac:(lia)) as ML.
  remember ((fl - ps) / F) as k eqn:Ek. remember ((fl - ps) mod F) as rem eqn:Erem.
  assert (Hge : ps <= fl) by nia.
  assert (Efl : fl = ps + k * F + rem) by nia.
  clear Ek Erem DM. subst fl.
  rewrite EF. rewrite recalc_exact by (try rewrite <- EF; lia). rewrite <- EF.
  destruct ((hdr + 1) * ps <=? rem) eqn:E; nb.
  - pose proof (N.mul_div_le (rem - hdr * ps) ps ltac:(lia)) as Q1.
    pose proof (N.mul_succ_div_gt (rem - hdr * ps) ps ltac:(lia)) as Q2.
    remember ((rem - hdr * ps) / ps) as q eqn:Eq. clear Eq.
    assert (Ha : ps <= rem - hdr * ps) by nia.
    assert (Hn0 : 0 < q) by nia.
    assert (Hn1 : q <= cap) by nia.
    split; [|split; [|split]].
    + unfold valid_layout, dl_num_regions. simpl. repeat split; auto; lia.
    + reflexivity.
    + rewrite dl_len_some. unfold rl_len, rl_usable. simpl. rewrite <- HF2. nia.
    + intros Hmax. unfold dl_num_regions. simpl.
      assert (k < MAX_REGIONS) by nia. lia.
  - assert (Hk : 0 < k).
    { destruct (N.eq_dec k 0) as [Z|Z]; [|lia]. subst k. nia. }
    assert (exists m, k = m + 1) as [m Em] by (exists (k - 1); lia).
    split; [|split; [|split]].
    + unfold valid_layout, dl_num_regions. simpl. repeat split; auto.
    + reflexivity.
    + rewrite Em, dl_len_none. unfold rl_len, rl_usable. simpl. rewrite <- HF2. nia.
    + intros Hmax. unfold dl_num_regions. simpl. nia.
Qed.

(* accepted lengths are exactly lengths of valid layouts with an addressable number of regions *)
Theorem layout_from_file_len_sound : forall fl hdr cap ps L,
  0 < ps -> 0 < cap -> layout_from_file_len fl hdr cap ps = Some L ->
  valid_layout L /\ dl_full L = mkRL cap hdr ps /\ dl_len L = fl /\
  dl_num_regions L <= MAX_REGIONS.
Proof.
  intros fl hdr cap ps L Hps Hcap H. unfold layout_from_file_len in H.
  destruct (ps + MAX_REGIONS * ((hdr + cap) * ps) <? fl) eqn:E1; [discriminate|].
  destruct (fl <? ps * (hdr + 2)) eqn:E2; [discriminate|].
  destruct (dl_len (dl_recalculate fl hdr cap ps) =? fl) eqn:E3; [|discriminate].
  nb. inversion H; subst L; clear H.
  pose proof (recalculate_shape fl hdr cap ps Hps Hcap E2) as (HV & HF & _ & HM).
  split; [exact HV|]. split; [exact HF|]. split; [exact E3|]. apply HM. lia.
Qed.

Theorem layout_from_file_len_complete : forall L hdr cap ps,
  valid_layout L -> dl_full L = mkRL cap hdr ps -> dl_num_regions L <= MAX_REGIONS ->
  layout_from_file_len (dl_len L) hdr cap ps = Some (dl_norm L).
Proof.
  intros L hdr cap ps HV HF HM.
  pose proof (norm_equiv L HV) as (_ & _ & _ & HL & _).
  unfold layout_from_file_len. remember MAX_REGIONS as M eqn:EM in *. clear EM.
  rewrite (recalculate_len L cap hdr ps HV HF). rewrite HL.
  rewrite N.eqb_refl.
  pose proof HV as (Hps & Hcap & Hnr & Htr).
  assert (B : ps * (hdr + 2) <= dl_len L /\ dl_len L <= ps + M * ((hdr + cap) * ps)).
  { destruct L as [f nf tr]. simpl in *. subst f. simpl in *. unfold dl_num_regions in *. simpl in *.
    destruct tr as [[n th tp]|]; simpl in *.
    - destruct Htr as (-> & -> & Hn1 & Hn2). rewrite dl_len_some. unfold rl_len, rl_usable. simpl.
      split; [nia|].
      pose proof (N.mul_le_mono_r _ _ ((hdr + cap) * ps) HM) as HX.
      assert (nf * (hdr * ps + ps * cap) + (hdr * ps + ps * n) <= (nf + 1) * ((hdr + cap) * ps)) by nia.
      lia.
    - assert (exists m, nf = m + 1) as [m ->] by (exists (nf - 1); lia).
      rewrite dl_len_none. unfold rl_len, rl_usable. simpl. split; [nia|].
      pose proof (N.mul_le_mono_r _ _ ((hdr + cap) * ps) HM) as HX.
      assert ((m + 1) * (hdr * ps + ps * cap) = (m + 1) * ((hdr + cap) * ps)) by nia.
      lia. }
  destruct B as [B1 B2].
  assert (ps + M * ((hdr + cap) * ps) <? dl_len L = false) as -> by (apply N.ltb_ge; lia).
  assert (dl_len L <? ps * (hdr + 2) = false) as -> by (apply N.ltb_ge; lia).
  reflexivity.
Qed.

(* ------------------------------------------------------------------ shrink *)

(* Dropping `pages` trailing pages of the last region (what try_shrink does: pages <= the
   allocator's trailing free pages, and never the whole database) keeps every page that does not
   touch the dropped tail inside the new layout, at the same address, below the new length. *)
Theorem reduce_keeps_used : forall L pages p,
  valid_layout L ->
  let last := dl_num_regions L - 1 in
  let nlast := rl_num_pages (dl_region_layout L last) in
  pages <= nlast -> (pages < nlast \/ 1 < dl_num_regions L) ->
  in_layout L p ->
  (pn_region p = last -> blk_end p <= nlast - pages) ->
  let L' := dl_reduce_last L pages in
  valid_layout L' /\ in_layout L' p /\
  mem_address_range L' p = mem_address_range L p /\
  snd (mem_address_range L p) <= dl_len L' /\ dl_len L' <= dl_len L.
Proof.
  intros [f nf tr] pages p HV last nlast Hpg Hnz HI Hlast L'.
  pose proof HV as (Hps & Hcap & Hnr & Htr).
  assert (HV' : valid_layout L' /\ in_layout L' p /\ dl_full L' = f).
  { subst L' last nlast. unfold dl_reduce_last, in_layout, dl_num_regions, dl_region_layout in *.
    simpl in *. destruct HI as [HI1 HI2].
    destruct tr as [[n th tp]|]; simpl in *.
    - destruct Htr as (-> & -> & Hn1 & Hn2).
      replace (nf + 1 - 1) with nf in * by lia. rewrite N.eqb_refl in *. simpl in *.
      destruct (n - pages =? 0) eqn:Z; nb; simpl.
      + assert (pages = n) by lia. subst pages.
        assert (pn_region p <> nf).
        { intros E. specialize (Hlast E). pose proof (pow2_pos (pn_order p)).
          unfold blk_end in Hlast. nia. }
        assert (pn_region p =? nf = false) as Hf by (apply N.eqb_neq; assumption).
        rewrite Hf in *.
        split; [|split; [|reflexivity]].
        * unfold valid_layout, dl_num_regions. simpl. repeat split; auto. lia.
        * split; [lia|exact HI2].
      + split; [|split; [|reflexivity]].
        * unfold valid_layout, dl_num_regions. simpl. repeat split; auto; lia.
        * split; [lia|]. destruct (pn_region p =? nf) eqn:E; nb; simpl in *; auto.
    - assert (exists m, nf = m + 1) as [m ->] by (exists (nf - 1); lia).
      replace (m + 1 - 1) with m in * by lia.
      assert (m =? m + 1 = false) as Hm by (apply N.eqb_neq; lia). rewrite Hm in *.
      destruct (pn_region p =? m + 1) eqn:E0; nb; [lia|].
      destruct (pages <? rl_num_pages f) eqn:Z; nb; simpl.
      + split; [|split; [|reflexivity]].
        * unfold valid_layout, dl_num_regions. simpl. repeat split; auto; lia.
        * split; [lia|]. destruct (pn_region p =? m) eqn:E; nb; simpl; auto.
      + assert (pages = rl_num_pages f) by lia. subst pages.
        assert (pn_region p <> m).
        { intros E. specialize (Hlast E). pose proof (pow2_pos (pn_order p)).
          unfold blk_end in Hlast. nia. }
        split; [|split; [|reflexivity]].
        * unfold valid_layout, dl_num_regions. simpl. repeat split; auto. lia.
        * split; [lia|]. destruct (pn_region p =? m) eqn:E; nb; simpl; auto; try contradiction. }
  destruct HV' as (V' & I' & F').
  assert (A : mem_address_range L' p = mem_address_range (mkDL f nf tr) p).
  { unfold mem_address_range. rewrite F'. reflexivity. }
  split; [exact V'|]. split; [exact I'|]. split; [exact A|]. split.
  - rewrite <- A. apply (address_in_bounds L' p V' I').
  - subst L' last nlast. unfold dl_reduce_last, dl_num_regions, dl_region_layout in *. simpl in *.
    destruct tr as [[n th tp]|]; simpl in *.
    + destruct Htr as (-> & -> & Hn1 & Hn2).
      replace (nf + 1 - 1) with nf in * by lia. rewrite N.eqb_refl in *. simpl in *.
      rewrite dl_len_some.
      destruct (n - pages =? 0) eqn:Z; nb.
      * assert (exists m, nf = m + 1) as [m ->] by (exists (nf - 1); lia).
        rewrite dl_len_none. unfold rl_len, rl_usable; simpl. nia.
      * rewrite dl_len_some. unfold rl_len, rl_usable; simpl. nia.
    + assert (exists m, nf = m + 1) as [m ->] by (exists (nf - 1); lia).
      replace (m + 1 - 1) with m in * by lia.
      assert (m =? m + 1 = false) as Hm by (apply N.eqb_neq; lia). rewrite Hm in *.
      rewrite dl_len_none.
      destruct (pages <? rl_num_pages f) eqn:Z; nb.
      * rewrite dl_len_some. unfold rl_len, rl_usable; simpl.
        pose proof (N.mul_le_mono_l (rl_num_pages f - pages) (rl_num_pages f) (rl_page_size f) ltac:(lia)). nia.
      * assert (exists k, m = k + 1) as [k ->] by (exists (m - 1); lia).
        rewrite dl_len_none. nia.
Qed.

(* boolean forms agree with the propositions (the extracted checker uses the booleans) *)
Lemma in_layoutb_spec : forall L p, in_layoutb L p = true <-> in_layout L p.
Proof.
  intros. unfold in_layoutb, in_layout. rewrite andb_true_iff, N.ltb_lt, N.leb_le. tauto.
Qed.

Lemma valid_layoutb_spec : forall L, valid_layoutb L = true -> valid_layout L.
Proof.
  intros [f nf tr]. unfold valid_layoutb, valid_layout. simpl.
  rewrite !andb_true_iff, !N.ltb_lt. intros (((H1 & H2) & H3) & H4).
  repeat split; auto. destruct tr as [t|]; [|exact I].
  rewrite !andb_true_iff, !N.eqb_eq, N.ltb_lt, N.leb_le in H4. tauto.
Qed.
