(* Cache layer proofs, part 2: the invariant Inv is preserved by the primitive moves of the cache
   (drop a read-cache entry, insert one, write a buffered page to the file, evict it, put it back). *)
From RV Require Import Base.Bytes Storage.Backend Storage.BackendP Storage.Latch Storage.Cache Storage.CacheInv
  Storage.CacheBaseP.
Local Open Scope N_scope.

(* ------------------------------------------------------------------ ranges *)
Lemma overlapb_false a b i : overlapb a b = false -> in_rng a i -> in_rng b i -> False.
Proof.
  unfold overlapb, in_rng. rewrite negb_false_iff. intros D Ha Hb. eapply disjointb_spec; eauto.
Qed.

Lemma overlapb_true_same_start o l1 l2 : 0 < l1 -> 0 < l2 -> overlapb (o, l1) (o, l2) = true.
Proof.
  intros H1 H2. unfold overlapb, disjointb. simpl. rewrite negb_true_iff.
  rewrite !orb_false_iff, !N.eqb_neq, !N.leb_gt. lia.
Qed.

Lemma range_eqb_eq a b : range_eqb a b = true <-> a = b.
Proof.
  unfold range_eqb. rewrite andb_true_iff, !N.eqb_eq. destruct a, b; simpl. split; [intros [-> ->]; auto|intros [= -> ->]; auto].
Qed.

Lemma compat_spec l r : compat l r = true <-> forall a, In a l -> a = r \/ overlapb a r = false.
Proof.
  unfold compat. rewrite forallb_forall. split; intros H a Ha; specialize (H a Ha).
  - apply orb_true_iff in H as [H|H]; [left; apply range_eqb_eq; auto|right; apply negb_true_iff; auto].
  - apply orb_true_iff. destruct H as [->|H]; [left; apply range_eqb_eq; auto|right; apply negb_true_iff; auto].
Qed.

Lemma no_overlap_spec l r : no_overlap l r = true <-> forall a, In a l -> overlapb a r = false.
Proof.
  unfold no_overlap. rewrite forallb_forall. split; intros H a Ha; specialize (H a Ha).
  - apply negb_true_iff; auto.
  - apply negb_true_iff; auto.
Qed.

Lemma overlapb_sym a b : overlapb a b = overlapb b a.
Proof.
  unfold overlapb, disjointb. f_equal.
  destruct (snd a =? 0), (snd b =? 0), (fst a + snd a <=? fst b), (fst b + snd b <=? fst a); reflexivity.
Qed.

Lemma In_radd r a l : In a (radd r l) <-> a = r \/ In a l.
Proof.
  unfold radd. destruct (existsb (range_eqb r) l) eqn:E.
  - split; auto. intros [->|H]; auto. apply existsb_exists in E as [x [Hx E]]. apply range_eqb_eq in E. subst. auto.
  - simpl. split; intros [H|H]; auto.
Qed.

Lemma In_rdel r a l : In a (rdel r l) <-> In a l /\ a <> r.
Proof.
  unfold rdel. rewrite filter_In, negb_true_iff. split; intros [H1 H2]; split; auto.
  - intros ->. assert (range_eqb r r = true) by (apply range_eqb_eq; auto). congruence.
  - destruct (range_eqb a r) eqn:E; auto. apply range_eqb_eq in E. contradiction.
Qed.

Lemma covers_in_rng o d i : covers o d i = true <-> in_rng (o, blen d) i.
Proof. rewrite covers_spec. unfold in_rng, wlen, blen. simpl. tauto. Qed.

(* ------------------------------------------------------------------ wb_sum *)
Lemma wb_sum_aremove k v l out : NoDup (map fst l) -> In (k, v) l ->
  wb_sum l out = (match v with Some d => blen d | None => out_len k out end) + wb_sum (aremove k l) out.
Proof.
  induction l as [|[k' v'] l IH]; simpl; [tauto|].
  intros ND [H|H]; inversion ND as [|? ? Hn ND']; subst.
  - inversion H; subst. rewrite N.eqb_refl. simpl.
    assert (E : aremove k l = l).
    { unfold aremove. apply filter_id. intros [k2 d2] H2. simpl.
      apply negb_true_iff. apply N.eqb_neq. intros ->. apply Hn. apply in_map_iff. exists (k, d2). auto. }
    fold (aremove k l). rewrite E. destruct v; reflexivity.
  - destruct (k' =? k) eqn:E; simpl.
    + apply N.eqb_eq in E. subst. exfalso. apply Hn. apply in_map_iff. exists (k, v). auto.
    + fold (aremove k l). rewrite (IH ND' H). destruct v, v'; lia.
Qed.

Lemma wb_sum_filter_le (f : N * option bytes -> bool) l out : wb_sum (filter f l) out <= wb_sum l out.
Proof.
  induction l as [|x l IH]; simpl; [lia|]. destruct (f x); simpl; destruct (snd x); lia.
Qed.

Lemma wb_sum_out_ext l out out' :
  (forall o, In (o, None) l -> out_len o out' = out_len o out) -> wb_sum l out' = wb_sum l out.
Proof.
  induction l as [|[k v] l IH]; simpl; auto. intros H. rewrite IH by (intros; apply H; auto).
  destruct v; auto. rewrite H; auto.
Qed.

Lemma wb_sum_nil_out l : (forall o, ~ In (o, None) l) -> forall out, wb_sum l out = sum_some l.
Proof.
  induction l as [|[k v] l IH]; simpl; auto. intros H out.
  rewrite IH by (intros o Ho; apply (H o); auto). destruct v; auto. exfalso. apply (H k). auto.
Qed.

Lemma out_len_In o l out : In (o, l) out -> (forall a, In a out -> fst a = o -> a = (o, l)) -> out_len o out = l.
Proof.
  induction out as [|r out IH]; simpl; [tauto|]. intros Hin Hu.
  destruct (fst r =? o) eqn:E.
  - apply N.eqb_eq in E. rewrite (Hu r (or_introl eq_refl) E). reflexivity.
  - destruct Hin as [->|Hin]; [simpl in E; rewrite N.eqb_refl in E; discriminate|].
    apply IH; auto.
Qed.

Lemma out_len_notin o out : (forall a, In a out -> fst a <> o) -> out_len o out = 0.
Proof.
  induction out as [|r out IH]; simpl; auto. intros H.
  destruct (fst r =? o) eqn:E.
  - apply N.eqb_eq in E. exfalso. apply (H r); auto.
  - apply IH. intros; apply H; auto.
Qed.

(* ------------------------------------------------------------------ frame *)
Lemma Inv_frame c s s' I g :
  Inv c s I g -> file s' = file s -> rc s' = rc s -> wb s' = wb s -> rc_bytes s' = rc_bytes s ->
  wb_bytes s' = wb_bytes s -> cpb s' = cpb s -> Inv c s' I g.
Proof.
  intros H E1 E2 E3 E4 E5 E6. destruct H. constructor; unfold uncovered in *;
    rewrite ?E1, ?E2, ?E3, ?E4, ?E5, ?E6; try assumption.
Qed.

Lemma Inv_same_caches c s s' I g :
  Inv c s I g -> same_caches s s' -> file s' = file s -> Inv c s' I g.
Proof. intros H (E2 & E3 & E4 & E5 & E6 & _) E1. eapply Inv_frame; eauto. Qed.

(* offsets of outstanding pages are unique *)
Lemma out_unique c s I g o l : Inv c s I g -> In (o, l) (g_out g) ->
  forall a, In a (g_out g) -> fst a = o -> a = (o, l).
Proof.
  intros H Hin [o' l'] Ha E. simpl in E. subst o'.
  destruct (i_sep _ _ _ _ H _ Hin) as (_ & _ & S3). destruct (S3 _ Ha) as [E|E]; auto.
  exfalso.
  destruct (i_out _ _ _ _ H _ _ Hin) as (_ & _ & W1). destruct (i_out _ _ _ _ H _ _ Ha) as (_ & _ & W2).
  apply (i_rng_wb _ _ _ _ H) in W1, W2. simpl in *.
  rewrite overlapb_true_same_start in E by lia. discriminate.
Qed.

(* ------------------------------------------------------------------ read cache: entries dropped *)
Lemma sum_rc_sub rc' rc0 : NoDup (map fst rc') -> NoDup (map fst rc0) -> (forall e, In e rc' -> In e rc0) ->
  sum_rc rc' <= sum_rc rc0.
Proof.
  revert rc0. induction rc' as [|[k d] t IH]; intros rc0 ND ND0 Hs; simpl; [lia|].
  inversion ND as [|? ? Hn ND']; subst.
  rewrite (sum_rc_aremove k d rc0) by (auto; apply Hs; left; auto).
  assert (sum_rc t <= sum_rc (aremove k rc0)).
  { apply IH; auto. apply NoDup_aremove; auto.
    intros [k' d'] He. apply In_aremove. split; [apply Hs; right; auto|].
    intros ->. apply Hn. apply in_map_iff. exists (k, d'). auto. }
  lia.
Qed.

Lemma inv_rc_sub c s s' I g :
  Inv c s I g -> (forall e, In e (rc s') -> In e (rc s)) -> NoDup (map fst (rc s')) ->
  rc_bytes s' = sum_rc (rc s') ->
  file s' = file s -> wb s' = wb s -> wb_bytes s' = wb_bytes s -> cpb s' = cpb s -> Inv c s' I g.
Proof.
  intros H Hs ND Eb E1 E3 E5 E6. pose proof (sum_rc_sub _ _ ND (i_nd_rc _ _ _ _ H) Hs) as Hle.
  destruct H. constructor; unfold uncovered in *; rewrite ?E1, ?E3, ?E5, ?E6; try assumption.
  - intros o l Hin. destruct (i_out o l Hin) as (A & B & C). repeat split; auto.
    destruct (alookup o (rc s')) eqn:E; auto. apply alookup_In in E. apply Hs in E.
    apply In_alookup in E; auto. congruence.
  - intros o d Hin. apply i_rc. auto.
  - split; auto. lia.
Qed.

Lemma inv_rc_remove c s s' I g k d :
  Inv c s I g -> alookup k (rc s) = Some d ->
  rc s' = aremove k (rc s) -> rc_bytes s' = rc_bytes s - blen d ->
  file s' = file s -> wb s' = wb s -> wb_bytes s' = wb_bytes s -> cpb s' = cpb s -> Inv c s' I g.
Proof.
  intros H Hl Er Eb. apply inv_rc_sub; auto.
  - rewrite Er. intros [k' d'] He. apply In_aremove in He. tauto.
  - rewrite Er. apply NoDup_aremove. apply (i_nd_rc _ _ _ _ H).
  - rewrite Eb, Er. destruct (i_rcb _ _ _ _ H) as [E _]. rewrite E.
    rewrite (sum_rc_aremove k d (rc s)); [lia|apply (i_nd_rc _ _ _ _ H)|apply alookup_In; auto].
Qed.

Lemma inv_rc_filter c s s' I g (f : N * bytes -> bool) :
  Inv c s I g ->
  rc s' = filter f (rc s) -> rc_bytes s' = rc_bytes s - sum_rc (filter (fun p => negb (f p)) (rc s)) ->
  file s' = file s -> wb s' = wb s -> wb_bytes s' = wb_bytes s -> cpb s' = cpb s -> Inv c s' I g.
Proof.
  intros H Er Eb. apply inv_rc_sub; auto.
  - rewrite Er. intros e He. apply filter_In in He. tauto.
  - rewrite Er. apply NoDup_map_filter. apply (i_nd_rc _ _ _ _ H).
  - rewrite Eb, Er. destruct (i_rcb _ _ _ _ H) as [E _]. rewrite E.
    rewrite (sum_rc_filter_split f (rc s)). lia.
Qed.

(* ------------------------------------------------------------------ read cache: an entry inserted *)
Lemma sum_rc_aset k d l : NoDup (map fst l) ->
  sum_rc (aset k d l) + (match alookup k l with Some x => blen x | None => 0 end) = blen d + sum_rc l.
Proof.
  intros ND. unfold aset. simpl. destruct (alookup k l) eqn:E.
  - apply alookup_In in E. rewrite (sum_rc_aremove k b l ND E). lia.
  - assert (Er : aremove k l = l).
    { unfold aremove. apply filter_id. intros [k2 d2] H2. simpl. apply negb_true_iff. apply N.eqb_neq.
      intros ->. apply alookup_None in E. apply E. apply in_map_iff. exists (k, d2). auto. }
    rewrite Er. lia.
Qed.

Lemma inv_rc_aset c s s' I g k d :
  Inv c s I g -> agrees I k d -> In (k, blen d) (g_rc g) -> (forall r, In r (g_out g) -> fst r <> k) ->
  rc s' = aset k d (rc s) -> rc_bytes s' = sum_rc (aset k d (rc s)) -> sum_rc (aset k d (rc s)) <= max_cache c ->
  file s' = file s -> wb s' = wb s -> wb_bytes s' = wb_bytes s -> cpb s' = cpb s -> Inv c s' I g.
Proof.
  intros H Ha Hg Ho Er Eb Hm E1 E3 E5 E6.
  destruct H. constructor; unfold uncovered in *; rewrite ?E1, ?E3, ?E5, ?E6, ?Er; try assumption.
  - intros o l Hin. destruct (i_out o l Hin) as (A & B & C). repeat split; auto.
    unfold aset. simpl. destruct (k =? o) eqn:E.
    + apply N.eqb_eq in E. exfalso. apply (Ho _ Hin). simpl. auto.
    + apply N.eqb_neq in E. rewrite alookup_aremove_other; auto.
  - intros o d' Hin. apply In_aset in Hin as [[-> ->]|[Hin _]]; auto.
  - apply NoDup_aset; auto.
  - split; auto.
Qed.

(* ------------------------------------------------------------------ write buffer: a page written to the file *)
(* the page stays buffered (flush_write_buffer writes the whole stripe before moving it) *)
Lemma inv_file_write_keep c s s' I g k d :
  Inv c s I g -> In (k, Some d) (wb s) -> in_file (file s) k (blen d) = true ->
  file s' = fwrite (file s) k d ->
  rc s' = rc s -> wb s' = wb s -> rc_bytes s' = rc_bytes s -> wb_bytes s' = wb_bytes s -> cpb s' = cpb s ->
  Inv c s' I g.
Proof.
  intros H Hin Hf E1 E2 E3 E4 E5 E6.
  destruct H. constructor; unfold uncovered in *; rewrite ?E1, ?E2, ?E3, ?E4, ?E5, ?E6; try assumption.
  - intros i (U1 & U2 & U3). rewrite fget_fwrite by auto. rewrite (U1 _ _ Hin). apply i_file. auto.
  - rewrite blen_fwrite; auto.
Qed.

(* the page leaves the buffer (flush_lowest_priority, success) *)
Lemma inv_wb_evict c s s' I g k d :
  Inv c s I g -> In (k, Some d) (wb s) -> in_file (file s) k (blen d) = true ->
  file s' = fwrite (file s) k d -> wb s' = aremove k (wb s) -> wb_bytes s' = wb_bytes s - blen d ->
  rc s' = rc s -> rc_bytes s' = rc_bytes s -> cpb s' = cpb s -> Inv c s' I g.
Proof.
  intros H Hin Hf E1 E3 E5 E2 E4 E6.
  pose proof (wb_sum_aremove k (Some d) (wb s) (g_out g) (i_nd_wb _ _ _ _ H) Hin) as Hsum.
  destruct H. constructor; unfold uncovered in *; rewrite ?E1, ?E2, ?E3, ?E4, ?E5, ?E6; try assumption.
  - intros o d' Hi. apply In_aremove in Hi as [Hi _]. auto.
  - intros o Hi. apply In_aremove in Hi as [Hi _]. auto.
  - intros o l Hi. destruct (i_out o l Hi) as (A & B & C). repeat split; auto.
    apply In_aremove. split; auto. intros ->.
    pose proof (In_alookup _ _ _ i_nd_wb A) as X. pose proof (In_alookup _ _ _ i_nd_wb Hin) as Y. congruence.
  - apply NoDup_aremove; auto.
  - intros i (U1 & U2 & U3). rewrite fget_fwrite by auto.
    destruct (covers k d i) eqn:Ec.
    + apply (proj2 (i_wb_some _ _ Hin)). auto.
    + apply i_file. repeat split; auto. intros o d' Hi.
      destruct (N.eq_dec o k) as [->|Hne].
      * pose proof (In_alookup _ _ _ i_nd_wb Hi) as X. pose proof (In_alookup _ _ _ i_nd_wb Hin) as Y.
        rewrite X in Y. inversion Y; subst. auto.
      * apply U1. apply In_aremove. auto.
  - rewrite blen_fwrite; auto.
  - intros Hc o v Hi. apply In_aremove in Hi as [Hi _]. eauto.
  - lia.
  - intros k0 Hk. destruct (i_flush k0 Hk) as [A B]. split; auto. intros o v Hi. apply In_aremove in Hi as [Hi _]. eauto.
Qed.

(* the page is put back after a failed write: same entries in another order *)
Lemma inv_wb_equiv c s s' I g :
  Inv c s I g -> (forall e, In e (wb s') <-> In e (wb s)) -> NoDup (map fst (wb s')) ->
  wb_sum (wb s') (g_out g) = wb_sum (wb s) (g_out g) ->
  file s' = file s -> rc s' = rc s -> rc_bytes s' = rc_bytes s -> wb_bytes s' = wb_bytes s -> cpb s' = cpb s ->
  Inv c s' I g.
Proof.
  intros H Hw ND Es E1 E2 E4 E5 E6.
  destruct H. constructor; unfold uncovered in *; rewrite ?E1, ?E2, ?E4, ?E5, ?E6, ?Es; try assumption.
  - intros o d Hi. apply Hw in Hi. auto.
  - intros o Hi. apply Hw in Hi. auto.
  - intros o l Hi. destruct (i_out o l Hi) as (A & B & C). repeat split; auto. apply Hw. auto.
  - intros i (U1 & U2 & U3). apply i_file. repeat split; auto. intros o d Hi. apply U1. apply Hw. auto.
  - intros Hc o v Hi. apply Hw in Hi. eauto.
  - intros k0 Hk. destruct (i_flush k0 Hk) as [A B]. split; auto. intros o v Hi. apply Hw in Hi. eauto.
Qed.

Lemma inv_wb_reinsert c s s' I g k d :
  Inv c s I g -> In (k, Some d) (wb s) -> wb s' = (k, Some d) :: aremove k (wb s) ->
  file s' = file s -> rc s' = rc s -> rc_bytes s' = rc_bytes s -> wb_bytes s' = wb_bytes s -> cpb s' = cpb s ->
  Inv c s' I g.
Proof.
  intros H Hin Ew. apply inv_wb_equiv; auto.
  - rewrite Ew. intros [k' v']. simpl. rewrite In_aremove. split.
    + intros [E|[E _]]; [inversion E; subst; auto|auto].
    + intros Hi. destruct (N.eq_dec k' k) as [->|Hne]; auto. left.
      pose proof (In_alookup _ _ _ (i_nd_wb _ _ _ _ H) Hi) as X.
      pose proof (In_alookup _ _ _ (i_nd_wb _ _ _ _ H) Hin) as Y. congruence.
  - rewrite Ew. simpl. constructor; [apply aremove_notin|apply NoDup_aremove; apply (i_nd_wb _ _ _ _ H)].
  - rewrite Ew. simpl. rewrite (wb_sum_aremove k (Some d) (wb s) (g_out g) (i_nd_wb _ _ _ _ H) Hin). reflexivity.
Qed.

(* the counter of the write buffer may over-count (a failed write() leaves its increment behind) *)
Lemma inv_wbb_grow c s s' I g :
  Inv c s I g -> wb_bytes s <= wb_bytes s' ->
  file s' = file s -> rc s' = rc s -> wb s' = wb s -> rc_bytes s' = rc_bytes s -> cpb s' = cpb s -> Inv c s' I g.
Proof.
  intros H Hle E1 E2 E3 E4 E6.
  destruct H. constructor; unfold uncovered in *; rewrite ?E1, ?E2, ?E3, ?E4, ?E6; try assumption. lia.
Qed.

(* cpb may be set at any time *)
Lemma inv_cpb_true c s s' I g :
  Inv c s I g -> cpb s' = true ->
  file s' = file s -> rc s' = rc s -> wb s' = wb s -> rc_bytes s' = rc_bytes s -> wb_bytes s' = wb_bytes s -> Inv c s' I g.
Proof.
  intros H Ec E1 E2 E3 E4 E5.
  destruct H. constructor; unfold uncovered in *; rewrite ?E1, ?E2, ?E3, ?E4, ?E5; try assumption.
  rewrite Ec. discriminate.
Qed.

(* ------------------------------------------------------------------ the read-cache part of the invariant *)
Definition RcOK (c : config) (I : image) (g : ghost) (rc0 : list (N * bytes)) (rcb : N) : Prop :=
  (forall o d, In (o, d) rc0 -> In (o, blen d) (g_rc g) /\ agrees I o d) /\
  NoDup (map fst rc0) /\ rcb = sum_rc rc0 /\ sum_rc rc0 <= max_cache c /\
  (forall o l, In (o, l) (g_out g) -> alookup o rc0 = None).

Lemma Inv_rc_ok c s I g : Inv c s I g -> RcOK c I g (rc s) (rc_bytes s).
Proof.
  intros H. destruct (i_rcb _ _ _ _ H) as [E1 E2]. unfold RcOK.
  split; [exact (i_rc _ _ _ _ H)|]. split; [exact (i_nd_rc _ _ _ _ H)|]. split; [exact E1|]. split; [exact E2|].
  intros o l Hin. apply (i_out _ _ _ _ H _ _ Hin).
Qed.

Lemma Inv_replace_rc c s s' I g :
  Inv c s I g -> RcOK c I g (rc s') (rc_bytes s') ->
  file s' = file s -> wb s' = wb s -> wb_bytes s' = wb_bytes s -> cpb s' = cpb s -> Inv c s' I g.
Proof.
  intros H (R1 & R2 & R3 & R4 & R5) E1 E3 E5 E6.
  destruct H. constructor; unfold uncovered in *; rewrite ?E1, ?E3, ?E5, ?E6; try assumption.
  - intros o l Hin. destruct (i_out o l Hin) as (A & B & C). repeat split; auto. eapply R5; eauto.
  - split; auto.
Qed.

Lemma rcok_aset c I g rc0 rcb k d :
  RcOK c I g rc0 rcb -> agrees I k d -> In (k, blen d) (g_rc g) -> (forall r, In r (g_out g) -> fst r <> k) ->
  rcb + blen d <= max_cache c ->
  RcOK c I g (aset k d rc0) (rcb + blen d - match alookup k rc0 with Some x => blen x | None => 0 end).
Proof.
  intros (R1 & R2 & R3 & R4 & R5) Ha Hg Ho Hm.
  pose proof (sum_rc_aset k d rc0 R2) as Hs.
  assert (Hx : match alookup k rc0 with Some x => blen x | None => 0 end <= sum_rc rc0).
  { destruct (alookup k rc0) eqn:E; [|lia]. apply alookup_In in E. rewrite (sum_rc_aremove k b rc0 R2 E). lia. }
  unfold RcOK.
  split. { intros o d' H. apply In_aset in H as [[-> ->]|[H _]]; auto. }
  split. { apply NoDup_aset; auto. }
  split. { lia. }
  split. { lia. }
  intros o l Hin. unfold aset. simpl. destruct (k =? o) eqn:E.
  - apply N.eqb_eq in E. exfalso. apply (Ho _ Hin). simpl. auto.
  - apply N.eqb_neq in E. rewrite alookup_aremove_other; auto. eapply R5; eauto.
Qed.

(* the budget is the only place where the configuration enters *)
Lemma Inv_budget c c' s I g : Inv c' s I g -> sum_rc (rc s) <= max_cache c -> Inv c s I g.
Proof.
  intros H Hm. destruct H. constructor; try assumption. split; [tauto|assumption].
Qed.

(* ------------------------------------------------------------------ write buffer: entries dropped whose bytes are in the file *)
Lemma wb_sum_filter_split (f : N * option bytes -> bool) l out :
  wb_sum l out = wb_sum (filter f l) out + wb_sum (filter (fun p => negb (f p)) l) out.
Proof.
  induction l as [|x l IH]; simpl; [lia|]. destruct (f x); simpl; destruct (snd x); lia.
Qed.

(* decidable: is byte i under a buffered page that f drops? *)
Lemma classic_covered (l : list (N * option bytes)) (f : N * option bytes -> bool) i :
  (exists o d, In (o, Some d) l /\ f (o, Some d) = false /\ covers o d i = true) \/
  ~ (exists o d, In (o, Some d) l /\ f (o, Some d) = false /\ covers o d i = true).
Proof.
  induction l as [|[o v] l IH].
  - right. intros (o & d & H & _). destruct H.
  - destruct IH as [(o' & d' & H1 & H2 & H3)|IH].
    + left. exists o', d'. simpl. auto.
    + destruct v as [d|].
      * destruct (f (o, Some d)) eqn:Ef; [|destruct (covers o d i) eqn:Ec].
        -- right. intros (o' & d' & [H1|H1] & H2 & H3); [inversion H1; subst; congruence|apply IH; eauto].
        -- left. exists o, d. simpl. auto.
        -- right. intros (o' & d' & [H1|H1] & H2 & H3); [inversion H1; subst; congruence|apply IH; eauto].
      * right. intros (o' & d' & [H1|H1] & H2 & H3); [inversion H1|apply IH; eauto].
Qed.

Lemma inv_wb_drop c s s' I g (f : N * option bytes -> bool) :
  Inv c s I g ->
  (forall o d i, In (o, Some d) (wb s) -> f (o, Some d) = false -> covers o d i = true -> fget (file s) i = iat I i) ->
  (forall o, In (o, None) (wb s) -> f (o, None) = true) ->
  wb s' = filter f (wb s) -> wb_sum (filter f (wb s)) (g_out g) <= wb_bytes s' ->
  file s' = file s -> rc s' = rc s -> rc_bytes s' = rc_bytes s -> cpb s' = cpb s -> Inv c s' I g.
Proof.
  intros H Hfile Hnone Ew Hb E1 E2 E4 E6.
  destruct H. constructor; unfold uncovered in *; rewrite ?E1, ?E2, ?E4, ?E6, ?Ew; try assumption.
  - intros o d Hi. apply filter_In in Hi as [Hi _]. auto.
  - intros o Hi. apply filter_In in Hi as [Hi _]. auto.
  - intros o l Hi. destruct (i_out o l Hi) as (A & B & C). repeat split; auto. apply filter_In. split; auto.
  - apply NoDup_map_filter. auto.
  - intros i (U1 & U2 & U3).
    destruct (classic_covered (wb s) f i) as [[o [d [Hin [Hf Hc]]]]|Hn].
    + eapply Hfile; eauto.
    + apply i_file. repeat split; auto. intros o d Hin.
      destruct (f (o, Some d)) eqn:Ef.
      * apply U1. apply filter_In. auto.
      * destruct (covers o d i) eqn:Ec; auto. exfalso. apply Hn. exists o, d. auto.
  - intros Hc o v Hi. apply filter_In in Hi as [Hi _]. eauto.
  - intros k0 Hk. destruct (i_flush k0 Hk) as [A B]. split; auto. intros o v Hi. apply filter_In in Hi as [Hi _]. eauto.
Qed.
