(* C01 sync-window validator.  A sync window is (D, W): the durable image D at a completed sync_data
   and the operations W issued until the next one.  `window_okb d aw` is an executable check on a
   summary d of D (its 320 header bytes, its length, which slot D serves, the byte ranges of the
   served commit's pages, oracle facts about the other slot) and the abstraction aw of W (header
   writes with their bytes, page writes as ranges, set_len).  CrashP.v/WindowP.v prove: if it
   accepts, EVERY crash image of (D, W) recovers to the commit D serves or to the commit W writes.
   Definitions only. *)
From RV Require Import Base.Bytes Gen.Consts Storage.Backend Storage.Header.

Inductive aop : Type :=
| AHdr (data : bytes)        (* write of DB_HEADER_SIZE bytes at offset 0 *)
| APage (off len : N)        (* write that starts at or after DB_HEADER_SIZE *)
| ASetLen (n : N)
| ASync
| ABad.                      (* a write that overlaps the header without being a header write *)

(* a write that is not a header write: only its position and length matter *)
Definition aop_of_write (off len : N) : aop :=
  if DB_HEADER_SIZE <=? off then APage off len else ABad.

Definition abs (o : op) : aop :=
  match o with
  | Write off data =>
      if (off =? 0) && (wlen data =? DB_HEADER_SIZE) then AHdr data
      else aop_of_write off (wlen data)
  | SetLen n => ASetLen n
  | Sync => ASync
  end.

Definition hdrs (aw : list aop) : list bytes :=
  flat_map (fun a => match a with AHdr d => [d] | _ => [] end) aw.
Definition pages (aw : list aop) : list range :=
  flat_map (fun a => match a with APage o l => [(o, l)] | _ => [] end) aw.
Definition setlens (aw : list aop) : list N :=
  flat_map (fun a => match a with ASetLen n => [n] | _ => [] end) aw.

(* summary of a durable image *)
Record dsum : Type := mkDsum {
  d_hdr : bytes;                 (* its first DB_HEADER_SIZE bytes *)
  d_len : N;                     (* its length *)
  d_p   : bool;                  (* index of the slot it serves (P); the other one is Q *)
  d_rp  : list range;            (* byte ranges holding the pages of P's commit *)
  d_vq  : bool;                  (* oracle: slot Q has a valid checksum *)
  d_rq  : option (list range)    (* oracle: Some rq = Q's commit verifies in D and its pages lie in rq *)
}.

Definition dP (d : dsum) : bytes := slot_at (hget (d_hdr d)) (d_p d).
Definition dQ (d : dsum) : bytes := slot_at (hget (d_hdr d)) (negb (d_p d)).
Definition dgod (d : dsum) : N := god (hget (d_hdr d)).

(* the god byte / the slot-Q bytes that W's header writes carry (D's own when W writes no header) *)
Definition wgod (d : dsum) (aw : list aop) : N :=
  match hdrs aw with [] => dgod d | h :: _ => god (hget h) end.
Definition wq (d : dsum) (aw : list aop) : bytes :=
  match hdrs aw with [] => dQ d | h :: _ => slot_at (hget h) (negb (d_p d)) end.

Definition HDR_LEN : nat := N.to_nat DB_HEADER_SIZE.

(* header positions every header write must leave as in D: magic, geometry, slot P *)
Definition static_idx (p : bool) : list N :=
  nseq 0 (length MAGICNUMBER) ++ nseq PAGE_SIZE_OFFSET GEOM_LEN ++ nseq (slot_off p) SLOT_LEN.

(* (w0) shape: no sync inside a window, no stray write into the header *)
Definition c_shape (aw : list aop) : bool :=
  forallb (fun a => match a with ASync | ABad => false | _ => true end) aw.

(* (w2) header discipline *)
Definition c_static (d : dsum) (aw : list aop) : bool :=
  forallb (fun h => (length h =? HDR_LEN)%nat
                    && forallb (fun i => hget h i =? hget (d_hdr d) i) (static_idx (d_p d)))
          (hdrs aw).
Definition c_uniform (d : dsum) (aw : list aop) : bool :=
  forallb (fun h => (god (hget h) =? wgod d aw)
                    && bytes_eqb (slot_at (hget h) (negb (d_p d))) (wq d aw))
          (hdrs aw).
Definition c_versions (d : dsum) (aw : list aop) : bool :=
  (slot_version (dP d) =? FILE_FORMAT_VERSION3)
  && (slot_version (dQ d) =? FILE_FORMAT_VERSION3)
  && (slot_version (wq d aw) =? FILE_FORMAT_VERSION3).

(* ranges rs are not written by any page write of W, and lie inside every possible file length *)
Definition untouched (rs : list range) (aw : list aop) (lens : list N) : bool :=
  forallb (fun w : range => forallb (fun r : range => disjointb (fst w) (snd w) (fst r) (snd r)) rs) (pages aw)
  && forallb (fun l => forallb (fun r : range => fst r + snd r <=? l) rs) lens.

Definition lens_of (d : dsum) (aw : list aop) : list N := d_len d :: setlens aw.

(* (w1) copy-on-write + (w4) lengths, for the served commit *)
Definition c_cow (d : dsum) (aw : list aop) : bool := untouched (d_rp d) aw (lens_of d aw).
Definition c_lens (d : dsum) (aw : list aop) : bool :=
  let g := hget (d_hdr d) in
  forallb (fun l => (DB_HEADER_SIZE <=? l) && len_valid (page_size_of g) (rhp_of g) (rmp_of g) l)
          (lens_of d aw).

(* (w5) clean flag: a god byte without RECOVERY_REQUIRED (in D or written by W) makes open trust the
   stored region counts, so W may then neither resize nor change them, and they must match the file *)
Definition c_rr (d : dsum) (aw : list aop) : bool :=
  if flag (dgod d) RECOVERY_REQUIRED && flag (wgod d aw) RECOVERY_REQUIRED then true
  else match setlens aw with [] => true | _ => false end
       && forallb (fun h => bytes_eqb (layout_at (hget h)) (layout_at (hget (d_hdr d)))) (hdrs aw)
       && stored_sane (hget (d_hdr d)) && (stored_len (hget (d_hdr d)) =? d_len d).

(* ---- (w3)+(w6) selection safety: abstract evaluation of recovery's slot selection on every
   header-level class of crash images: god byte in {D's, W's} x slot Q in {D's, W's, torn-invalid} *)
Inductive qclass : Type := QOld | QNew | QInvalid.
Inductive vstat : Type := VYes | VNo | VUnknown.

(* does the god byte name slot Q (the one D does not serve) as primary *)
Definition names_q (d : dsum) (gb : N) : bool := xorb (flag gb PRIMARY_BIT) (d_p d).

(* 1PC selection tries Q before P *)
Definition first_is_q (pq qvalid : bool) (qtx ptx : N) : bool :=
  if pq then qvalid && negb (qtx <? ptx) else qvalid && (ptx <? qtx).

Definition pure_hdr (aw : list aop) : bool :=
  match pages aw, setlens aw with [], [] => true | _, _ => false end.

(* what is known about "D's slot Q verifies" in a crash image *)
Definition old_stat (d : dsum) (aw : list aop) : vstat :=
  match d_rq d with
  | Some rq => if untouched rq aw (lens_of d aw) then VYes else VUnknown
  | None =>
      (* D itself tried Q first, yet serves P <> Q: Q does not verify in D; W touches no page *)
      if pure_hdr aw && negb (flag (dgod d) TWO_PHASE_COMMIT)
         && first_is_q (names_q d (dgod d)) (d_vq d) (slot_txid (dQ d)) (slot_txid (dP d))
         && negb (bytes_eqb (dQ d) (dP d))
      then VNo else VUnknown
  end.

Definition leaf_ok (d : dsum) (aw : list aop) (gb : N) (qc : qclass) : bool :=
  let pq := names_q d gb in
  let ptx := slot_txid (dP d) in
  match qc with
  | QInvalid => if flag gb TWO_PHASE_COMMIT then negb pq else true
  | QNew =>
      if flag gb TWO_PHASE_COMMIT then negb pq else true
  | QOld =>
      let st := old_stat d aw in
      let same := bytes_eqb (dQ d) (dP d) in
      if flag gb TWO_PHASE_COMMIT then
        negb pq || (d_vq d && match st with VYes => true | _ => false end)
      else if first_is_q pq (d_vq d) (slot_txid (dQ d)) ptx
           then same || match st with VNo => true | _ => false end
           else true
  end.

Definition c_leaves (d : dsum) (aw : list aop) : bool :=
  let classes := if bytes_eqb (wq d aw) (dQ d) then [QOld] else [QOld; QNew; QInvalid] in
  forallb (fun gb => forallb (leaf_ok d aw gb) classes) [dgod d; wgod d aw].

(* vnew: oracle, the slot that W writes over Q has a valid checksum *)
Definition c_new (d : dsum) (aw : list aop) (vnew : bool) : bool :=
  bytes_eqb (wq d aw) (dQ d) || vnew.

Definition window_okb (d : dsum) (aw : list aop) (vnew : bool) : bool :=
  (length (d_hdr d) =? HDR_LEN)%nat
  && c_shape aw && c_static d aw && c_uniform d aw && c_versions d aw
  && c_cow d aw && c_lens d aw && c_rr d aw && c_leaves d aw && c_new d aw vnew.

(* the summary of the image reached when all of W is applied: header = last header write, length = last set_len *)
Definition next_hdr (d : dsum) (aw : list aop) : bytes := last (hdrs aw) (d_hdr d).
Definition next_len (d : dsum) (aw : list aop) : N := last (setlens aw) (d_len d).

(* ---- what the theorems assume about a summary and a window (validated per run by the harness) ---- *)
Section Spec.
  Variable H : bytes -> bytes.
  Variable expect : bytes -> list (N * bytes).
  Variable ps : N.   (* the page size the database is opened with *)

  (* d summarises D truthfully, D serves slot P of d, and the oracle facts in d hold *)
  Record image_ok (d : dsum) (D : image) : Prop := mkImageOk {
    io_hlen : length (d_hdr d) = HDR_LEN;
    io_hdr  : forall i, i < DB_HEADER_SIZE -> iat D i = hget (d_hdr d) i;
    io_len  : ilen D = d_len d;
    io_pcks : cks_ok H (dP d) = true;
    io_pver : ver expect D (dP d) = true;
    io_pcov : forall e, In e (expect (dP d)) -> range_covered (d_rp d) (fst e) (wlen (snd e)) = true;
    io_vq   : cks_ok H (dQ d) = d_vq d;
    io_rq   : forall rq, d_rq d = Some rq ->
              ver expect D (dQ d) = true
              /\ forall e, In e (expect (dQ d)) -> range_covered rq (fst e) (wlen (snd e)) = true;
    io_rec  : recover H expect ps D = Some (dP d)
  }.

  (* the slot W writes over Q, when it differs from D's, has a valid checksum (vnew), and a slot Q that is already torn in D stays
     invalid under further partial overwriting unless it is overwritten completely *)
  Record fresh_ok (d : dsum) (aw : list aop) (vnew : bool) : Prop := mkFreshOk {
    fo_new  : vnew = true -> wq d aw <> dQ d -> cks_ok H (wq d aw) = true;
    fo_dead : d_vq d = false ->
              forall m, mix2 (dQ d) (wq d aw) m -> cks_ok H m = true -> m = wq d aw
  }.

  (* the second phase of a 2PC commit: W's god byte names Q and carries TWO_PHASE_COMMIT *)
  Definition promotes (d : dsum) (aw : list aop) : Prop :=
    flag (wgod d aw) TWO_PHASE_COMMIT = true /\ names_q d (wgod d aw) = true.

  (* the outcome allowed for a crash image of the window: D's commit, or the commit W completes *)
  Definition crash_outcome (d : dsum) (aw : list aop) (img : image) : Prop :=
    recover H expect ps img = Some (dP d)
    \/ (recover H expect ps img = Some (wq d aw)
        /\ ver expect img (wq d aw) = true
        /\ (wq d aw <> dQ d \/ promotes d aw)).
End Spec.

(* ---- traces: a recorded operation stream cut at its sync_data calls ---- *)
Record wrec : Type := mkWrec { w_sum : dsum; w_ops : list op; w_vnew : bool }.

Definition wrec_okb (w : wrec) : bool := window_okb (w_sum w) (map abs (w_ops w)) (w_vnew w).

(* the next window's summary is what this window's operations produce, and the slot it serves is
   this window's served slot or the slot this window wrote *)
Definition link_okb (w w' : wrec) : bool :=
  let aw := map abs (w_ops w) in
  bytes_eqb (d_hdr (w_sum w')) (next_hdr (w_sum w) aw)
  && (d_len (w_sum w') =? next_len (w_sum w) aw)
  && (bytes_eqb (dP (w_sum w')) (dP (w_sum w)) || bytes_eqb (dP (w_sum w')) (wq (w_sum w) aw)).

Fixpoint links_okb (ws : list wrec) : bool :=
  match ws with
  | w :: ((w' :: _) as r) => link_okb w w' && links_okb r
  | _ => true
  end.

Definition trace_okb (ws : list wrec) : bool := forallb wrec_okb ws && links_okb ws.

(* the durable image after the windows ws have completed *)
Fixpoint image_after (D : image) (ws : list wrec) : image :=
  match ws with
  | [] => D
  | w :: r => image_after (apply_ops (w_ops w) D) r
  end.

Section TraceSpec.
  Variable H : bytes -> bytes.
  Variable expect : bytes -> list (N * bytes).
  Variable ps : N.

  (* every durable image along the trace is truthfully summarised (validated per run at every sync) *)
  Inductive chain : image -> list wrec -> Prop :=
  | chain_nil : forall D, chain D []
  | chain_cons : forall D w rest,
      image_ok H expect ps (w_sum w) D ->
      fresh_ok H (w_sum w) (map abs (w_ops w)) (w_vnew w) ->
      chain (apply_ops (w_ops w) D) rest ->
      chain D (w :: rest).
End TraceSpec.
