(* An idealised slot checksum used only for non-vacuity: every one of its 16 output "bytes"
   (unbounded naturals in this model) is an injective code of the whole input, so any byte of a
   checksum determines the data it was computed from.  It satisfies the tear-resistance hypothesis
   H_tear of WindowP.v (IdealHP.v); the identity function, although injective, does not. *)
From RV Require Import Base.Bytes.

Fixpoint code (l : bytes) : N :=
  match l with
  | [] => 0
  | b :: r => 2 ^ (b + 1) * (2 * code r + 1)
  end.

Definition Hideal (x : bytes) : bytes := repeat (code x) 16.

(* the injective but tear-transparent counterexample *)
Definition Hid (x : bytes) : bytes := x.

(* executable form of mix2 *)
Fixpoint mix2b (a b m : bytes) : bool :=
  match a, b, m with
  | [], [], [] => true
  | x :: a', y :: b', z :: m' => ((z =? x) || (z =? y)) && mix2b a' b' m'
  | _, _, _ => false
  end.
