(* Cache layer proofs, part 3: the eviction / writeback loops preserve the invariant; their traces. *)
From RV Require Import Base.Bytes Storage.Backend Storage.BackendP Storage.Latch Storage.Cache Storage.CacheInv
  Storage.CacheBaseP Storage.CacheInvP.
Local Open Scope N_scope.

Ltac splits := repeat match goal with |- _ /\ _ => split end.

(* ------------------------------------------------------------------ traces and the latch *)
Definition any_failed (t : list ev) : bool := existsb (fun e => negb (e_ok e)) t.

Lemma any_failed_app a b : any_failed (a ++ b) = any_failed a || any_failed b.
Proof. apply existsb_app. Qed.

Lemma req_failed_any t : req_failed t = true -> any_failed t = true.
Proof.
  unfold req_failed, any_failed. rewrite !existsb_exists. intros [e [H E]]. exists e. split; auto.
  apply andb_true_iff in E. tauto.
Qed.

(* what a piece of a call does to the latch: it is set exactly when a required backend call failed,
   and nothing reaches the backend once it is set *)
Definition tr_ok (s s' : state) (t : list ev) : Prop :=
  closed (latch s') = closed (latch s) /\
  io_failed (latch s') = io_failed (latch s) || req_failed t /\
  (io_failed (latch s) = true -> t = []).

Lemma tr_ok_refl s : tr_ok s s [].
Proof. unfold tr_ok. simpl. rewrite orb_false_r. auto. Qed.

Lemma tr_ok_trans s s1 s2 t1 t2 : tr_ok s s1 t1 -> tr_ok s1 s2 t2 -> tr_ok s s2 (t1 ++ t2).
Proof.
  intros (A1 & B1 & C1) (A2 & B2 & C2). unfold tr_ok. rewrite req_failed_app. splits.
  - congruence.
  - rewrite B2, B1. rewrite orb_assoc. reflexivity.
  - intros H. rewrite (C1 H) in *. simpl. apply C2. rewrite B1, H. reflexivity.
Qed.

Lemma tr_ok_latch s s' s0 s0' t : tr_ok s s' t -> latch s0 = latch s -> latch s0' = latch s' -> tr_ok s0 s0' t.
Proof. unfold tr_ok. intros H E1 E2. rewrite E1, E2. auto. Qed.

Lemma fault_free_next_bok o inj o' : fault_free o -> next_bok o = (inj, o') -> inj = true /\ fault_free o'.
Proof.
  intros H E. unfold next_bok in E. destruct (boks o) as [|b r] eqn:Eb.
  - inversion E; subst. auto.
  - inversion E; subst. split.
    + apply H. rewrite Eb. left; auto.
    + intros x Hx. apply H. rewrite Eb. right. exact Hx.
Qed.

Lemma fault_free_next_lock o b o' : fault_free o -> next_lock o = (b, o') -> fault_free o'.
Proof.
  intros H E. unfold next_lock in E. destruct (locks o); inversion E; subst; auto.
Qed.

Lemma next_lock_picks o b o' : next_lock o = (b, o') -> rpicks o' = rpicks o /\ wpicks o' = wpicks o /\ giveup o' = giveup o.
Proof. unfold next_lock. destruct (locks o); intros [= <- <-]; auto. Qed.

(* everything the rest of the development needs to know about one call entering CheckedBackend *)
Lemma bcall_facts s o be c s' o' evs r :
  bcall_step s o be c = (s', o', evs, r) ->
  same_caches s s' /\ tr_ok s s' evs /\
  Forall (fun e => e_call e = c /\ e_be e = be) evs /\
  (wres_ok r = false -> io_failed (latch s) = true \/ any_failed evs = true) /\
  (any_failed evs = true -> wres_ok r = false) /\
  (wres_ok r = true -> fst (bexec (file s) c true) = true /\ file s' = snd (bexec (file s) c true) /\ latch s' = latch s) /\
  (wres_ok r = false -> file s' = file s) /\
  (fault_free o -> fault_free o' /\ (fst (bexec (file s) c true) = true -> any_failed evs = false)).
Proof.
  intros H. apply bcall_step_spec in H as (SC & CL & [X|[X|X]]).
  - destruct X as (F & -> & -> & -> & R & _).
    split; [exact SC|]. split; [apply tr_ok_refl|]. split; [constructor|].
    split; [auto|]. split; [discriminate|]. split; [rewrite R; discriminate|]. split; [auto|].
    intros Hf. split; auto.
  - destruct X as (F & inj & Eb & Ok & Ef & El & -> & ->).
    assert (Hinj : inj = true).
    { destruct inj; auto. destruct c; simpl in Ok; discriminate. }
    subst inj.
    split; [exact SC|]. split.
    { unfold tr_ok. rewrite El. unfold req_failed. simpl. rewrite orb_false_r. split; auto. split; auto. congruence. }
    split; [constructor; auto|]. split; [discriminate|]. split; [discriminate|].
    split; [auto|]. split; [discriminate|].
    intros Hf. eapply fault_free_next_bok in Hf; eauto. destruct Hf. split; auto.
  - destruct X as (F & inj & Eb & Ok & Ef & El & -> & ->).
    split; [exact SC|]. split.
    { unfold tr_ok. rewrite El, F. unfold req_failed. simpl. rewrite orb_false_r. split; auto. split; auto. discriminate. }
    split; [constructor; auto|]. split; [auto|]. split; [auto|].
    split; [discriminate|]. split; [auto|].
    intros Hf. eapply fault_free_next_bok in Hf; eauto. destruct Hf as [-> Hf]. split; auto.
    intros Hok. congruence.
Qed.

Lemma filter_len_le {A} (f : A -> bool) l : (length (filter f l) <= length l)%nat.
Proof. induction l as [|x l IH]; simpl; auto. destruct (f x); simpl; lia. Qed.

Lemma aremove_length_lt {A} k (v : A) l : alookup k l = Some v -> (length (aremove k l) < length l)%nat.
Proof.
  induction l as [|[k' v'] l IH]; simpl; [discriminate|].
  destruct (k' =? k) eqn:E; simpl.
  - intros _. pose proof (filter_len_le (fun p : N * A => negb (fst p =? k)) l). unfold aremove. lia.
  - intros H. specialize (IH H). unfold aremove in *. lia.
Qed.

(* ------------------------------------------------------------------ read-cache eviction *)
Definition rc_shrunk (s s' : state) : Prop :=
  file s' = file s /\ wb s' = wb s /\ wb_bytes s' = wb_bytes s /\ cpb s' = cpb s /\ latch s' = latch s /\
  (forall e, In e (rc s') -> In e (rc s)).

Lemma rc_shrunk_refl s : rc_shrunk s s.
Proof. unfold rc_shrunk. auto 10. Qed.

Lemma rc_shrunk_trans s s1 s2 : rc_shrunk s s1 -> rc_shrunk s1 s2 -> rc_shrunk s s2.
Proof.
  unfold rc_shrunk. intros (A1 & A2 & A3 & A4 & A5 & A6) (B1 & B2 & B3 & B4 & B5 & B6).
  splits; try congruence. auto.
Qed.

Lemma rc_cands_In st s k : In k (rc_cands st s) <-> exists d, In (k, d) (rc s) /\ stripe k = st.
Proof.
  unfold rc_cands. rewrite in_map_iff. split.
  - intros [[k' d] [E H]]. simpl in E. subst. apply filter_In in H as [H1 H2]. simpl in H2. apply N.eqb_eq in H2. eauto.
  - intros [d [H E]]. exists (k, d). split; auto. apply filter_In. split; auto. simpl. apply N.eqb_eq. auto.
Qed.

Lemma evict_stripe_facts c I g : forall fuel st needed freed pl s s' fr,
  evict_stripe fuel st needed freed pl s = (s', fr) -> Inv c s I g ->
  Inv c s' I g /\ rc_shrunk s s' /\ nstripe s' = nstripe s /\
  rc_bytes s' + fr = rc_bytes s + freed /\ freed <= fr /\
  ((length (rc s) <= fuel)%nat -> needed <= fr \/ rc_cands st s' = []).
Proof.
  induction fuel as [|f IH]; intros st needed freed pl s s' fr; simpl.
  - intros [= <- <-] H. splits; auto using rc_shrunk_refl; try lia.
    intros Hl. right. unfold rc_cands. destruct (rc s); simpl in *; [reflexivity|lia].
  - destruct (needed <=? freed) eqn:En.
    { intros [= <- <-] H. apply N.leb_le in En. splits; auto using rc_shrunk_refl; try lia. }
    destruct (rc_cands st s) as [|c0 cs] eqn:Ec.
    { intros [= <- <-] H. splits; auto using rc_shrunk_refl; try lia. }
    set (k := match pl with p :: _ => if memN p (c0 :: cs) then p else c0 | [] => c0 end).
    assert (Hk : In k (rc_cands st s)).
    { rewrite Ec. subst k. destruct pl as [|p pl']; [left; auto|].
      destruct (memN p (c0 :: cs)) eqn:Em; [apply memN_In; auto|left; auto]. }
    destruct (alookup k (rc s)) as [d|] eqn:El.
    2:{ intros [= <- <-] H. exfalso. apply rc_cands_In in Hk as [d [Hd _]].
        apply In_alookup in Hd; [congruence|apply (i_nd_rc _ _ _ _ H)]. }
    intros E H.
    set (s1 := set_rcb (set_rc s (aremove k (rc s))) (rc_bytes s - blen d)) in *.
    assert (H1 : Inv c s1 I g) by (eapply inv_rc_remove; eauto).
    assert (Hsum : blen d <= rc_bytes s).
    { destruct (i_rcb _ _ _ _ H) as [Eq _]. rewrite Eq.
      rewrite (sum_rc_aremove k d (rc s)); [lia|apply (i_nd_rc _ _ _ _ H)|apply alookup_In; auto]. }
    apply IH in E; auto. destruct E as (A & B & C & D & F & G). splits; auto.
    + eapply rc_shrunk_trans; [|exact B]. unfold rc_shrunk, s1. simpl. splits; auto.
      intros [k' d'] He. apply In_aremove in He. tauto.
    + unfold s1 in D. simpl in D. lia.
    + lia.
    + intros Hl. apply G. unfold s1. simpl.
      pose proof (aremove_length_lt _ _ _ El) as Hlen.
      lia.
Qed.

Lemma evict_stripes_facts c I g : forall n start i needed freed pl s s',
  evict_stripes n start i needed freed pl s = s' -> Inv c s I g ->
  Inv c s' I g /\ rc_shrunk s s' /\ nstripe s' = nstripe s.
Proof.
  induction n as [|n IH]; intros start i needed freed pl s s'; simpl.
  - intros <- H. auto using rc_shrunk_refl.
  - destruct (needed <=? freed).
    { intros <- H. auto using rc_shrunk_refl. }
    destruct (evict_stripe (length (rc s)) ((start + i) mod STRIPES) needed freed
                (picks_for ((start + i) mod STRIPES) pl) s) as [s1 fr] eqn:E1.
    intros E H. eapply evict_stripe_facts in E1; eauto. destruct E1 as (A & B & C & _).
    apply IH in E; auto. destruct E as (A2 & B2 & C2). splits; auto.
    + eapply rc_shrunk_trans; eauto.
    + congruence.
Qed.

Lemma evict_from_read_cache_facts c I g needed pl s :
  Inv c s I g ->
  Inv c (evict_from_read_cache needed pl s) I g /\ rc_shrunk s (evict_from_read_cache needed pl s).
Proof.
  intros H. unfold evict_from_read_cache.
  assert (H0 : Inv c (set_nstripe s (nstripe s + 1)) I g) by (eapply Inv_frame; eauto).
  destruct (evict_stripes_facts c I g NSTRIPES (nstripe s mod STRIPES) 0 needed 0 pl _ _ eq_refl H0) as (A & B & _). split; auto.
Qed.

(* ------------------------------------------------------------------ write-buffer writeback *)
Lemma wb_cands_In st s k : In k (wb_cands st s) <-> exists d, In (k, Some d) (wb s) /\ stripe k = st.
Proof.
  unfold wb_cands. rewrite in_map_iff. split.
  - intros [[k' v] [E H]]. simpl in E. subst. apply filter_In in H as [H1 H2]. simpl in H2.
    apply andb_true_iff in H2 as [H2 H3]. apply N.eqb_eq in H2. destruct v; [eauto|discriminate].
  - intros [d [H E]]. exists (k, Some d). split; auto. apply filter_In. split; auto. simpl.
    apply andb_true_iff. split; auto. apply N.eqb_eq. auto.
Qed.

(* a buffered page lies inside the file *)
Lemma wb_entry_in_file c s I g k d : Inv c s I g -> In (k, Some d) (wb s) -> in_file (file s) k (blen d) = true.
Proof.
  intros H Hin. apply in_file_spec. destruct (i_wb_some _ _ _ _ H _ _ Hin) as [Hg _].
  apply (i_rng_wb _ _ _ _ H) in Hg. simpl in Hg. destruct (i_len _ _ _ _ H) as [E1 E2]. lia.
Qed.

(* the part of the state the writeback loops leave alone *)
Definition wb_frame (s s' : state) : Prop :=
  rc s' = rc s /\ rc_bytes s' = rc_bytes s /\ cpb s' = cpb s.

Lemma wb_frame_refl s : wb_frame s s.
Proof. unfold wb_frame. auto. Qed.
Lemma wb_frame_trans s s1 s2 : wb_frame s s1 -> wb_frame s1 s2 -> wb_frame s s2.
Proof. unfold wb_frame. intros (A1 & A2 & A3) (B1 & B2 & B3). splits; congruence. Qed.

Definition wfacts (be : bool) (c : config) (I : image) (g : ghost) (s s' : state) (o o' : oracle)
                  (t : list ev) (r : wres) : Prop :=
  Inv c s' I g /\ wb_frame s s' /\ tr_ok s s' t /\
  Forall (fun e => is_write_ev e = true /\ e_be e = be) t /\
  (wres_ok r = false -> io_failed (latch s) = true \/ any_failed t = true) /\
  (any_failed t = true -> wres_ok r = false) /\
  (fault_free o -> fault_free o' /\ any_failed t = false) /\
  rpicks o' = rpicks o /\ wpicks o' = wpicks o /\ giveup o' = giveup o /\
  wb_bytes s' <= wb_bytes s /\
  (forall k, wb_sum (wb s) (g_out g) + k <= wb_bytes s -> wb_sum (wb s') (g_out g) + k <= wb_bytes s') /\
  (forall e, In e (wb s') -> In e (wb s)).

Lemma wfacts_refl be c I g s o : Inv c s I g -> wfacts be c I g s s o o [] ROk.
Proof.
  intros H. unfold wfacts. splits; auto using wb_frame_refl, tr_ok_refl; try discriminate; try lia.
Qed.

Lemma next_bok_picks o b o' : next_bok o = (b, o') -> rpicks o' = rpicks o /\ wpicks o' = wpicks o /\ giveup o' = giveup o.
Proof. unfold next_bok. destruct (boks o); intros [= <- <-]; auto. Qed.

Lemma bcall_picks s o be c s' o' evs r : bcall_step s o be c = (s', o', evs, r) ->
  rpicks o' = rpicks o /\ wpicks o' = wpicks o /\ giveup o' = giveup o.
Proof.
  unfold bcall_step. destruct (check_failure (latch s)).
  - intros [= <- <- <- <-]. auto.
  - destruct (next_bok o) as [inj o1] eqn:E. destruct (bexec (file s) c inj). destruct (lstep _ _ _ _) as [[? ?] ?].
    intros [= <- <- <- <-]. eapply next_bok_picks; eauto.
Qed.

Lemma wfacts_trans be c I g s s1 s2 o o1 o2 t1 t2 r1 r2 :
  wfacts be c I g s s1 o o1 t1 r1 -> wres_ok r1 = true -> wfacts be c I g s1 s2 o1 o2 t2 r2 ->
  wfacts be c I g s s2 o o2 (t1 ++ t2) r2.
Proof.
  intros (A1 & A2 & A3 & A4 & A5 & A6 & A7 & A8 & A9 & A10 & A11 & A12 & A13) Hok (B1 & B2 & B3 & B4 & B5 & B6 & B7 & B8 & B9 & B10 & B11 & B12 & B13).
  unfold wfacts. rewrite any_failed_app. splits; auto; try congruence; try lia.
  - eapply wb_frame_trans; eauto.
  - eapply tr_ok_trans; eauto.
  - apply Forall_app. auto.
  - intros Hr. destruct (any_failed t1) eqn:E1; [rewrite (A6 eq_refl) in Hok; discriminate|]. simpl.
    destruct (B5 Hr) as [X|X]; auto.
    destruct A3 as (_ & L & _). rewrite L in X. apply orb_true_iff in X as [X|X]; auto.
    apply req_failed_any in X. congruence.
  - intros Hf. apply orb_true_iff in Hf as [Hf|Hf]; auto. rewrite (A6 Hf) in Hok. discriminate.
  - intros H. apply A7 in H. destruct H as [H E1]. apply B7 in H. destruct H as [H E2]. rewrite E1, E2. auto.
Qed.

Lemma flush_lowest_facts c I g mode : forall fuel st needed flushed pl gu s o s' o' t r fl,
  flush_lowest fuel st needed flushed pl gu mode s o = (s', o', t, r, fl) -> Inv c s I g ->
  wfacts (is_be mode) c I g s s' o o' t r.
Proof.
  induction fuel as [|f IH]; intros st needed flushed pl gu s o s' o' t r fl; cbn [flush_lowest].
  - intros [= <- <- <- <- <-] H. apply wfacts_refl; auto.
  - destruct (needed <=? flushed). { intros [= <- <- <- <- <-] H. apply wfacts_refl; auto. }
    destruct (wb_cands st s) as [|c0 cs] eqn:Ec. { intros [= <- <- <- <- <-] H. apply wfacts_refl; auto. }
    destruct (match pl with
              | p :: _ => Some (if memN p (c0 :: cs) then p else c0)
              | [] => if gu && has_taken st s then None else Some c0
              end) as [k|] eqn:Ek.
    2:{ intros [= <- <- <- <- <-] H. apply wfacts_refl; auto. }
    assert (Hk : In k (wb_cands st s)).
    { rewrite Ec. destruct pl as [|p pl'].
      - destruct (gu && has_taken st s); inversion Ek; subst. left; auto.
      - destruct (memN p (c0 :: cs)) eqn:Em; injection Ek as <-; [apply memN_In; exact Em|left; reflexivity]. }
    intros E H.
    apply wb_cands_In in Hk as [d [Hd _]].
    rewrite (In_alookup _ _ _ (i_nd_wb _ _ _ _ H) Hd) in E.
    destruct (bcall_step (set_wb s (aremove k (wb s))) o (is_be mode) (BWrite k d)) as [[[s2 o2] e2] r2] eqn:Eb.
    pose proof (bcall_picks _ _ _ _ _ _ _ _ Eb) as Hp.
    apply bcall_facts in Eb. destruct Eb as (SC & TR & SH & ER & FR & OK & NOK & FF).
    destruct SC as (S1 & S2 & S3 & S4 & S5 & S6). simpl in S1, S2, S3, S4, S5, S6.
    pose proof (wb_entry_in_file _ _ _ _ _ _ H Hd) as Hin.
    assert (TR' : tr_ok s s2 e2) by (eapply tr_ok_latch; eauto).
    assert (SH' : Forall (fun e => is_write_ev e = true /\ e_be e = is_be mode) e2).
    { eapply Forall_impl; [|exact SH]. intros e [X Y]. unfold is_write_ev. rewrite X. auto. }
    destruct (wres_ok r2) eqn:Er.
    + (* written: the page leaves the buffer *)
      destruct (OK eq_refl) as (Ok1 & Ef & El). simpl in Ok1, Ef.
      assert (Hin2 : in_file (file s) k (blen d) = true) by exact Hin.
      rewrite Hin2 in Ef. simpl in Ef.
      set (s3 := set_wbb s2 (wb_bytes s2 - blen d)) in *.
      assert (H3 : Inv c s3 I g).
      { eapply inv_wb_evict; eauto; unfold s3; simpl; auto; congruence. }
      destruct (flush_lowest f st needed (flushed + blen d) (tl pl) gu mode s3 o2) as [[[[s4 o4] e4] r4] fl4] eqn:E4.
      inversion E; subst. apply IH in E4; auto.
      assert (W3 : wfacts (is_be mode) c I g s s3 o o2 e2 ROk).
      { unfold wfacts. split; [exact H3|]. split.
        { unfold wb_frame, s3. simpl. splits; congruence. }
        split. { eapply tr_ok_latch; [exact TR'|reflexivity|reflexivity]. }
        split; [exact SH'|]. split; [discriminate|].
        split. { intros Hf. apply FR in Hf. discriminate. }
        split. { intros Hf. apply FF in Hf. destruct Hf as [Hf1 Hf2]. split; auto. }
        destruct Hp as (P1 & P2 & P3). split; [exact P1|]. split; [exact P2|]. split; [exact P3|].
        split. { unfold s3. simpl. rewrite S4. simpl. lia. }
        split.
        { intros k0 Hk0. unfold s3. simpl. rewrite S4, S2. simpl.
          rewrite (wb_sum_aremove k (Some d) (wb s) (g_out g) (i_nd_wb _ _ _ _ H) Hd) in Hk0. lia. }
        intros e He. unfold s3 in He. simpl in He. rewrite S2 in He. simpl in He.
        destruct e as [k' v']. apply In_aremove in He. tauto. }
      eapply (wfacts_trans _ _ _ _ s s3 s' o o2 o' e2 e4 ROk r); eauto.
    + (* refused or failed: the page is put back *)
      inversion E; subst. specialize (NOK eq_refl). simpl in NOK.
      assert (H3 : Inv c (set_wb s2 ((k, Some d) :: wb s2)) I g).
      { eapply inv_wb_reinsert; eauto; simpl; try congruence. }
      unfold wfacts. split; [exact H3|]. split.
      { unfold wb_frame. simpl. splits; congruence. }
      split. { eapply tr_ok_latch; [exact TR'|reflexivity|reflexivity]. }
      split; [exact SH'|]. split. { intros _. apply ER. reflexivity. }
      split; [auto|].
      split. { intros Hf. apply FF in Hf. destruct Hf as [Hf1 Hf2]. split; auto. }
      destruct Hp as (P1 & P2 & P3). split; [exact P1|]. split; [exact P2|]. split; [exact P3|].
      split. { simpl. rewrite S4. simpl. lia. }
      split.
      { intros k0 Hk0. simpl. rewrite S4, S2. simpl.
        rewrite (wb_sum_aremove k (Some d) (wb s) (g_out g) (i_nd_wb _ _ _ _ H) Hd) in Hk0. lia. }
      intros e He. simpl in He. rewrite S2 in He. simpl in He. destruct He as [<-|He]; auto.
      destruct e as [k' v']. apply In_aremove in He. tauto.
Qed.

Lemma flush_lowest_priority_facts c I g st needed mode s o s' o' t r fl :
  flush_lowest_priority st needed mode s o = (s', o', t, r, fl) -> Inv c s I g ->
  wfacts (is_be mode) c I g s s' o o' t r.
Proof. unfold flush_lowest_priority. apply flush_lowest_facts. Qed.

(* the oracle a piece starts from may be replaced by one with the same picks *)
Lemma wfacts_orc be c I g s s' o0 o o' t r :
  wfacts be c I g s s' o o' t r -> (fault_free o0 -> fault_free o) ->
  rpicks o = rpicks o0 -> wpicks o = wpicks o0 -> giveup o = giveup o0 ->
  wfacts be c I g s s' o0 o' t r.
Proof.
  intros (A1 & A2 & A3 & A4 & A5 & A6 & A7 & A8 & A9 & A10 & A11 & A12 & A13) Hf P1 P2 P3.
  unfold wfacts. splits; auto; congruence.
Qed.

Lemma wfacts_state be c I g s0 s s' o o' t r :
  wfacts be c I g s s' o o' t r -> rc s = rc s0 -> rc_bytes s = rc_bytes s0 -> cpb s = cpb s0 ->
  latch s = latch s0 -> wb_bytes s = wb_bytes s0 -> wb s = wb s0 -> wfacts be c I g s0 s' o o' t r.
Proof.
  intros (A1 & A2 & A3 & A4 & A5 & A6 & A7 & A8 & A9 & A10 & A11 & A12 & A13) E1 E2 E3 E4 E5 E6.
  unfold wfacts. splits; auto.
  - destruct A2 as (X & Y & Z). unfold wb_frame. splits; congruence.
  - eapply tr_ok_latch; eauto.
  - rewrite <- E4. auto.
  - lia.
  - intros k Hk. apply A12. rewrite E6, E5. auto.
  - intros e He. rewrite <- E6. auto.
Qed.

Lemma fbp_loop_facts c I g : forall n start i needed flushed s o s' o' t r fl,
  fbp_loop n start i needed flushed s o = (s', o', t, r, fl) -> Inv c s I g ->
  wfacts true c I g s s' o o' t r.
Proof.
  induction n as [|n IH]; intros start i needed flushed s o s' o' t r fl; cbn [fbp_loop].
  - intros [= <- <- <- <- <-] H. apply wfacts_refl; auto.
  - destruct (needed <=? flushed). { intros [= <- <- <- <- <-] H. apply wfacts_refl; auto. }
    destruct (next_lock o) as [lk o1] eqn:El.
    pose proof (next_lock_picks _ _ _ El) as (P1 & P2 & P3).
    destruct lk.
    + destruct (flush_lowest_priority ((start + i) mod STRIPES) (needed - flushed) BestEffort s o1)
        as [[[[s2 o2] e2] r2] fl2] eqn:E2.
      intros E H. eapply flush_lowest_priority_facts in E2; eauto. simpl in E2.
      destruct (wres_ok r2) eqn:Er.
      * destruct (fbp_loop n start (i + 1) needed (flushed + fl2) s2 o2) as [[[[s3 o3] e3] r3] fl3] eqn:E3.
        inversion E; subst. apply IH in E3; [|apply E2].
        eapply wfacts_orc; [eapply wfacts_trans; eauto| |auto|auto|auto].
        intros Hf. eapply fault_free_next_lock; eauto.
      * inversion E; subst. eapply wfacts_orc; eauto. intros Hf. eapply fault_free_next_lock; eauto.
    + intros E H. apply IH in E; auto. eapply wfacts_orc; eauto. intros Hf. eapply fault_free_next_lock; eauto.
Qed.

Lemma flush_buffered_pages_facts c I g needed s o s' o' t r fl :
  flush_buffered_pages needed s o = (s', o', t, r, fl) -> Inv c s I g ->
  wfacts true c I g s s' o o' t r.
Proof.
  unfold flush_buffered_pages. intros E H.
  apply fbp_loop_facts with (c := c) (I := I) (g := g) in E; [|eapply Inv_frame; eauto].
  eapply wfacts_state; eauto.
Qed.

Lemma flush_others_facts c I g : forall n own i excess s o s' o' t r,
  flush_others n own i excess s o = (s', o', t, r) -> Inv c s I g ->
  wfacts false c I g s s' o o' t r.
Proof.
  induction n as [|n IH]; intros own i excess s o s' o' t r; cbn [flush_others].
  - intros [= <- <- <- <-] H. apply wfacts_refl; auto.
  - destruct (next_lock o) as [lk o1] eqn:El.
    pose proof (next_lock_picks _ _ _ El) as (P1 & P2 & P3).
    assert (Hff : fault_free o -> fault_free o1) by (intros Hf; eapply fault_free_next_lock; eauto).
    destruct lk.
    + destruct (flush_lowest_priority ((own + i) mod STRIPES) excess Required s o1)
        as [[[[s2 o2] e2] r2] fl2] eqn:E2.
      intros E H. eapply flush_lowest_priority_facts in E2; eauto. simpl in E2.
      destruct (wres_ok r2) eqn:Er.
      * destruct (excess - fl2 =? 0).
        -- inversion E; subst. eapply wfacts_orc; eauto.
           destruct E2 as (A1 & A2 & A3 & A4 & A5 & A6 & A7 & A8 & A9 & A10 & A11 & A12 & A13). unfold wfacts. splits; auto; try tauto.
           ++ discriminate.
           ++ intros Hx. apply A6 in Hx. congruence.
        -- destruct (flush_others n own (i + 1) (excess - fl2) s2 o2) as [[[s3 o3] e3] r3] eqn:E3.
           inversion E; subst. apply IH in E3; [|apply E2].
           eapply wfacts_orc; [eapply wfacts_trans; eauto| |auto|auto|auto]. auto.
      * inversion E; subst. eapply wfacts_orc; eauto.
    + intros E H. apply IH in E; auto. eapply wfacts_orc; eauto.
Qed.

Lemma filter_filter_comm {A} (f g : A -> bool) l : filter f (filter g l) = filter g (filter f l).
Proof.
  induction l as [|x l IH]; simpl; auto.
  destruct (g x) eqn:Eg, (f x) eqn:Ef; simpl; rewrite ?Eg, ?Ef, IH; reflexivity.
Qed.

(* ------------------------------------------------------------------ trace facts without the state part *)
Definition tfacts (be : bool) (s s' : state) (o o' : oracle) (t : list ev) (r : wres) : Prop :=
  tr_ok s s' t /\
  Forall (fun e => is_write_ev e = true /\ e_be e = be) t /\
  (wres_ok r = false -> io_failed (latch s) = true \/ any_failed t = true) /\
  (any_failed t = true -> wres_ok r = false) /\
  (fault_free o -> fault_free o' /\ any_failed t = false) /\
  rpicks o' = rpicks o /\ wpicks o' = wpicks o /\ giveup o' = giveup o.

Lemma wfacts_tfacts be c I g s s' o o' t r : wfacts be c I g s s' o o' t r -> tfacts be s s' o o' t r.
Proof. intros (A1 & A2 & A3 & A4 & A5 & A6 & A7 & A8 & A9 & A10 & A11 & A12 & A13). unfold tfacts. splits; auto. Qed.

Lemma tfacts_refl be s o : tfacts be s s o o [] ROk.
Proof. unfold tfacts. splits; auto using tr_ok_refl; try discriminate. Qed.

Lemma tfacts_trans be s s1 s2 o o1 o2 t1 t2 r1 r2 :
  tfacts be s s1 o o1 t1 r1 -> wres_ok r1 = true -> tfacts be s1 s2 o1 o2 t2 r2 ->
  tfacts be s s2 o o2 (t1 ++ t2) r2.
Proof.
  intros (A3 & A4 & A5 & A6 & A7 & A8 & A9 & A10) Hok (B3 & B4 & B5 & B6 & B7 & B8 & B9 & B10).
  unfold tfacts. rewrite any_failed_app. splits; auto; try congruence.
  - eapply tr_ok_trans; eauto.
  - apply Forall_app. auto.
  - intros Hr. destruct (any_failed t1) eqn:E1; [rewrite (A6 eq_refl) in Hok; discriminate|]. simpl.
    destruct (B5 Hr) as [X|X]; auto.
    destruct A3 as (_ & L & _). rewrite L in X. apply orb_true_iff in X as [X|X]; auto.
    apply req_failed_any in X. congruence.
  - intros Hf. apply orb_true_iff in Hf as [Hf|Hf]; auto. rewrite (A6 Hf) in Hok. discriminate.
  - intros H. apply A7 in H. destruct H as [H E1]. apply B7 in H. destruct H as [H E2]. rewrite E1, E2. auto.
Qed.

Lemma bcall_tfacts s o c s' o' evs r :
  bcall_step s o false c = (s', o', evs, r) -> (fault_free o -> fst (bexec (file s) c true) = true) ->
  tr_ok s s' evs /\ Forall (fun e => e_be e = false) evs /\
  (wres_ok r = false -> io_failed (latch s) = true \/ any_failed evs = true) /\
  (any_failed evs = true -> wres_ok r = false) /\
  (fault_free o -> fault_free o' /\ any_failed evs = false) /\
  rpicks o' = rpicks o /\ wpicks o' = wpicks o /\ giveup o' = giveup o.
Proof.
  intros E Hin. pose proof (bcall_picks _ _ _ _ _ _ _ _ E) as (P1 & P2 & P3).
  apply bcall_facts in E. destruct E as (SC & TR & SH & ER & FR & OK & NOK & FF).
  splits; auto.
  - eapply Forall_impl; [|exact SH]. intros e [_ X]. exact X.
  - intros Hf. destruct (FF Hf) as [X Y]. split; auto.
Qed.

(* ------------------------------------------------------------------ flush_write_buffer, one stripe *)
Lemma take_picks_In : forall pl cands k, In k (take_picks pl cands) <-> In k cands.
Proof.
  induction pl as [|p r IH]; intros cands k; simpl; [tauto|].
  destruct (memN p cands) eqn:Em.
  - simpl. rewrite IH. rewrite filter_In, negb_true_iff, N.eqb_neq. apply memN_In in Em.
    split.
    + intros [->|[H _]]; auto.
    + intros H. destruct (N.eq_dec k p) as [->|Hn]; auto.
  - apply IH.
Qed.

Lemma take_picks_NoDup : forall pl cands, NoDup cands -> NoDup (take_picks pl cands).
Proof.
  induction pl as [|p r IH]; intros cands ND; simpl; auto.
  destruct (memN p cands) eqn:Em.
  - constructor.
    + rewrite take_picks_In, filter_In, negb_true_iff, N.eqb_neq. tauto.
    + apply IH. apply NoDup_filter. auto.
  - apply IH; auto.
Qed.

Lemma wb_cands_NoDup st s : NoDup (map fst (wb s)) -> NoDup (wb_cands st s).
Proof. unfold wb_cands. apply NoDup_map_filter. Qed.

Lemma fs_writes_facts c I g : forall keys s o s' o' t r,
  fs_writes keys s o = (s', o', t, r) -> Inv c s I g ->
  Inv c s' I g /\ tfacts false s s' o o' t r /\
  wb s' = wb s /\ wb_bytes s' = wb_bytes s /\ rc s' = rc s /\ rc_bytes s' = rc_bytes s /\ cpb s' = cpb s /\
  (forall i, fget (file s) i = iat I i -> fget (file s') i = iat I i) /\
  (wres_ok r = true -> forall k d i, In k keys -> In (k, Some d) (wb s) -> covers k d i = true ->
                        fget (file s') i = iat I i).
Proof.
  induction keys as [|k keys IH]; intros s o s' o' t r; cbn [fs_writes].
  - intros [= <- <- <- <-] H. splits; auto using tfacts_refl. intros _ k d i [].
  - destruct (alookup k (wb s)) as [[d|]|] eqn:El.
    2:{ intros E H. apply IH in E; auto. destruct E as (A & B & C & D & E & F & G & M & W). splits; auto.
        intros Hr k' d' i [->|Hin] Hw Hc; [|eauto].
        apply In_alookup in Hw; [congruence|apply (i_nd_wb _ _ _ _ H)]. }
    2:{ intros E H. apply IH in E; auto. destruct E as (A & B & C & D & E & F & G & M & W). splits; auto.
        intros Hr k' d' i [->|Hin] Hw Hc; [|eauto].
        apply In_alookup in Hw; [congruence|apply (i_nd_wb _ _ _ _ H)]. }
    destruct (bcall_step s o false (BWrite k d)) as [[[s1 o1] e1] r1] eqn:Eb.
    intros E H. pose proof (alookup_In _ _ _ El) as Hd.
    pose proof (wb_entry_in_file _ _ _ _ _ _ H Hd) as Hin.
    pose proof (bcall_picks _ _ _ _ _ _ _ _ Eb) as (P1 & P2 & P3).
    apply bcall_facts in Eb. destruct Eb as (SC & TR & SH & ER & FR & OK & NOK & FF).
    destruct SC as (S1 & S2 & S3 & S4 & S5 & S6).
    assert (T1 : tfacts false s s1 o o1 e1 r1).
    { unfold tfacts. splits; auto.
      - eapply Forall_impl; [|exact SH]. intros e [X Y]. unfold is_write_ev. rewrite X. auto.
      - intros Hf. destruct (FF Hf) as [X Y]. split; auto. }
    destruct (wres_ok r1) eqn:Er.
    + destruct (OK eq_refl) as (_ & Ef & _). simpl in Ef. rewrite Hin in Ef. simpl in Ef.
      assert (H1 : Inv c s1 I g) by (eapply inv_file_write_keep; eauto).
      destruct (fs_writes keys s1 o1) as [[[s2 o2] e2] r2] eqn:E2.
      inversion E; subst. apply IH in E2; auto.
      destruct E2 as (A & B & C & D & E' & F & G & M & W).
      assert (Mk : forall i, fget (file s) i = iat I i -> fget (file s1) i = iat I i).
      { intros i Hi. rewrite Ef, fget_fwrite by auto. destruct (covers k d i) eqn:Ec; auto.
        apply (proj2 (i_wb_some _ _ _ _ H _ _ Hd)). auto. }
      splits; auto; try congruence.
      * eapply tfacts_trans; eauto.
      * intros Hr k' d' i [->|Hk] Hw Hc.
        -- apply M. rewrite Ef, fget_fwrite by auto.
           pose proof (In_alookup _ _ _ (i_nd_wb _ _ _ _ H) Hw) as X. rewrite El in X. inversion X; subst.
           rewrite Hc. apply (proj2 (i_wb_some _ _ _ _ H _ _ Hd)). auto.
        -- eapply W; eauto. rewrite S2. auto.
    + inversion E; subst. specialize (NOK eq_refl).
      assert (H1 : Inv c s' I g) by (eapply Inv_same_caches; eauto; unfold same_caches; auto 10).
      splits; auto.
      * intros i Hi. rewrite NOK. auto.
      * intros Hr. rewrite Er in Hr. discriminate.
Qed.

(* bytes moved to the read cache by the second loop of flush_write_buffer *)
Fixpoint tsum (keys : list N) (l : list (N * option bytes)) : N :=
  match keys with
  | [] => 0
  | k :: r => (match alookup k l with Some (Some d) => blen d | _ => 0 end) + tsum r l
  end.

Lemma fs_transfer_facts c I g : forall keys s,
  RcOK c I g (rc s) (rc_bytes s) -> g_out g = [] ->
  (forall k d, In (k, Some d) (wb s) -> agrees I k d /\ In (k, blen d) (g_rc g)) ->
  let s' := fs_transfer c keys s in
  RcOK c I g (rc s') (rc_bytes s') /\ file s' = file s /\ wb s' = wb s /\ cpb s' = cpb s /\ latch s' = latch s /\
  wb_bytes s' = wb_bytes s - tsum keys (wb s).
Proof.
  induction keys as [|k keys IH]; intros s R Ho Hw; cbn [fs_transfer tsum].
  - splits; auto. lia.
  - destruct (alookup k (wb s)) as [[d|]|] eqn:El.
    2:{ destruct (IH s R Ho Hw) as (A & B & C & D & E & F). splits; auto. }
    2:{ destruct (IH s R Ho Hw) as (A & B & C & D & E & F). splits; auto. }
    pose proof (alookup_In _ _ _ El) as Hd. destruct (Hw _ _ Hd) as [Ha Hg].
    set (s2 := if rc_bytes s + blen d <=? max_cache c
               then (let '(s', rep) := rc_insert (set_rcb s (rc_bytes s + blen d)) k d in
                     match rep with Some x => set_rcb s' (rc_bytes s' - blen x) | None => s' end)
               else set_rcb (set_rcb s (rc_bytes s + blen d)) (rc_bytes (set_rcb s (rc_bytes s + blen d)) - blen d)).
    assert (X : RcOK c I g (rc s2) (rc_bytes s2) /\ file s2 = file s /\ wb s2 = wb s /\ cpb s2 = cpb s /\
                latch s2 = latch s /\ wb_bytes s2 = wb_bytes s).
    { unfold s2. destruct (rc_bytes s + blen d <=? max_cache c) eqn:Em.
      - apply N.leb_le in Em. unfold rc_insert.
        pose proof (rcok_aset c I g (rc s) (rc_bytes s) k d R Ha Hg) as R2.
        assert (Hne : forall r, In r (g_out g) -> fst r <> k) by (rewrite Ho; intros r []).
        specialize (R2 Hne Em).
        destruct (alookup k (rc (set_rcb s (rc_bytes s + blen d)))) eqn:Ea; simpl in Ea; rewrite Ea in R2; simpl.
        + splits; auto.
        + rewrite N.sub_0_r in R2. splits; auto.
      - simpl. replace (rc_bytes s + blen d - blen d) with (rc_bytes s) by lia. splits; auto. }
    destruct X as (R2 & F2 & W2 & C2 & L2 & B2).
    assert (Hw2 : forall k0 d0, In (k0, Some d0) (wb (set_wbb s2 (wb_bytes s2 - blen d))) -> agrees I k0 d0 /\ In (k0, blen d0) (g_rc g)).
    { simpl. rewrite W2. exact Hw. }
    destruct (IH (set_wbb s2 (wb_bytes s2 - blen d)) R2 Ho Hw2) as (A & B & C & D & E & F).
    simpl in B, C, D, E, F. splits; auto; try congruence.
    rewrite F, W2, B2. lia.
Qed.

Lemma tsum_le st out : forall keys l, NoDup keys -> NoDup (map fst l) ->
  (forall k, In k keys -> exists d, In (k, Some d) l /\ stripe k = st) ->
  tsum keys l <= wb_sum (filter (fun p => in_stripe st p) l) out.
Proof.
  induction keys as [|k keys IH]; intros l ND NDl Hk; simpl; [lia|].
  inversion ND as [|? ? Hn ND']; subst.
  destruct (Hk k (or_introl eq_refl)) as [d [Hd Hs]].
  rewrite (In_alookup _ _ _ NDl Hd).
  assert (Hf : In (k, Some d) (filter (fun p => in_stripe st p) l)).
  { apply filter_In. split; auto. unfold in_stripe. simpl. apply N.eqb_eq. auto. }
  rewrite (wb_sum_aremove k (Some d) _ out (NoDup_map_filter _ _ NDl) Hf).
  assert (Hrem : aremove k (filter (fun p => in_stripe st p) l) = filter (fun p => in_stripe st p) (aremove k l)).
  { unfold aremove. apply filter_filter_comm. }
  rewrite Hrem.
  assert (Ht : tsum keys l = tsum keys (aremove k l)).
  { clear - Hn. induction keys as [|k' keys IH]; simpl; auto.
    rewrite alookup_aremove_other by (intros ->; apply Hn; left; auto).
    rewrite IH; auto. intros H. apply Hn. right. auto. }
  rewrite Ht.
  assert (IH' : tsum keys (aremove k l) <= wb_sum (filter (fun p => in_stripe st p) (aremove k l)) out).
  { apply IH; auto. apply NoDup_aremove; auto.
    intros k' Hk'. destruct (Hk k' (or_intror Hk')) as [d' [Hd' Hs']]. exists d'. split; auto.
    apply In_aremove. split; auto. intros ->. contradiction. }
  lia.
Qed.

Lemma has_taken_false c s I g st : Inv c s I g -> g_out g = [] -> has_taken st s = false.
Proof.
  intros H Ho. unfold has_taken. destruct (existsb _ (wb s)) eqn:E; auto.
  apply existsb_exists in E as [[o v] [Hin Hc]]. simpl in Hc. apply andb_true_iff in Hc as [_ Hc].
  destruct v; [discriminate|]. destruct (i_wb_none _ _ _ _ H _ Hin) as [l Hl]. rewrite Ho in Hl. destruct Hl.
Qed.

Lemma flush_stripe_facts c I g st s o s' o' t r :
  flush_stripe c st s o = (s', o', t, r) -> Inv c s I g -> g_out g = [] -> incl (g_wb g) (g_rc g) ->
  Inv c s' I g /\ cpb s' = cpb s /\ (forall e, In e (wb s') -> In e (wb s)) /\
  exists wr, tfacts false s s' o o' t wr /\
    ((wres_ok wr = true /\ r = Done /\ (forall k v, In (k, v) (wb s') -> stripe k <> st)) \/
     (wres_ok wr = false /\ r = Err wr)).
Proof.
  unfold flush_stripe. intros E H Ho Hincl. rewrite (has_taken_false _ _ _ _ st H Ho) in E.
  set (keys := take_picks (picks_for st (wpicks o)) (wb_cands st s)) in *.
  destruct (fs_writes keys s o) as [[[s1 o1] e1] r1] eqn:E1.
  eapply fs_writes_facts in E1; eauto.
  destruct E1 as (H1 & T1 & W1 & B1 & R1 & RB1 & C1 & M1 & WR1).
  destruct (wres_ok r1) eqn:Er; simpl in E.
  2:{ inversion E; subst. splits; auto.
      - rewrite W1. auto.
      - exists r1. split; auto. }
  inversion E; subst. clear E.
  assert (Hwb : forall k d, In (k, Some d) (wb s1) -> agrees I k d /\ In (k, blen d) (g_rc g)).
  { intros k d Hin. destruct (i_wb_some _ _ _ _ H1 _ _ Hin) as [A B]. split; auto. }
  destruct (fs_transfer_facts c I g keys s1 (Inv_rc_ok _ _ _ _ H1) Ho Hwb) as (R2 & F2 & W2 & C2 & L2 & B2).
  set (s2 := fs_transfer c keys s1) in *.
  set (X := set_wbb s2 (wb_bytes s1)).
  assert (HX : Inv c X I g).
  { eapply (Inv_replace_rc c s1 X); eauto. }
  assert (Hkeys : forall k, In k keys <-> exists d, In (k, Some d) (wb s) /\ stripe k = st).
  { intros k. unfold keys. rewrite take_picks_In. apply wb_cands_In. }
  assert (Hnone : forall k, ~ In (k, None) (wb s1)).
  { intros k Hin. destruct (i_wb_none _ _ _ _ H1 _ Hin) as [l Hl]. rewrite Ho in Hl. destruct Hl. }
  set (f := fun p : N * option bytes => negb (in_stripe st p)).
  assert (H3 : Inv c (set_wb s2 (filter f (wb s2))) I g).
  { eapply (inv_wb_drop c X _ I g f HX); simpl; auto.
    - intros k d i Hin Hf Hc. rewrite F2. apply (WR1 eq_refl k d i); auto.
      + apply Hkeys. exists d. rewrite <- W1, <- W2. split; auto.
        unfold f, in_stripe in Hf. simpl in Hf. apply negb_false_iff in Hf. apply N.eqb_eq in Hf. auto.
      + rewrite <- W1, <- W2. auto.
    - intros k Hin. exfalso. apply (Hnone k). rewrite <- W2. auto.
    - rewrite B2.
      pose proof (i_wbb _ _ _ _ H1) as Hsum.
      rewrite (wb_sum_filter_split f (wb s1) (g_out g)) in Hsum.
      assert (Ht : tsum keys (wb s1) <= wb_sum (filter (fun p => in_stripe st p) (wb s1)) (g_out g)).
      { apply tsum_le.
        - unfold keys. apply take_picks_NoDup. apply wb_cands_NoDup. apply (i_nd_wb _ _ _ _ H).
        - apply (i_nd_wb _ _ _ _ H1).
        - intros k Hk. apply Hkeys in Hk. rewrite W1. auto. }
      assert (Hext : filter (fun p => negb (f p)) (wb s1) = filter (fun p => in_stripe st p) (wb s1)).
      { apply filter_ext. intros p. unfold f. apply negb_involutive. }
      rewrite Hext in Hsum. rewrite W2. lia. }
  splits; auto.
  - simpl. congruence.
  - simpl. intros e He. apply filter_In in He as [He _]. rewrite W2, W1 in He. auto.
  - exists r1. split.
    + destruct T1 as (A1 & A2 & A3). unfold tfacts. splits; try tauto.
      eapply tr_ok_latch; [exact A1|reflexivity|simpl; auto].
    + left. splits; auto. simpl. intros k v Hin. apply filter_In in Hin as [_ Hf].
      unfold f, in_stripe in Hf. simpl in Hf. apply negb_true_iff in Hf. apply N.eqb_neq in Hf. auto.
Qed.

Lemma flush_stripes_facts c I g : forall n st s o s' o' t r,
  flush_stripes c n st s o = (s', o', t, r) -> Inv c s I g -> g_out g = [] -> incl (g_wb g) (g_rc g) ->
  Inv c s' I g /\ cpb s' = cpb s /\ (forall e, In e (wb s') -> In e (wb s)) /\
  exists wr, tfacts false s s' o o' t wr /\
    ((wres_ok wr = true /\ r = Done /\
      (forall k v, In (k, v) (wb s') -> ~ (st <= stripe k < st + N.of_nat n))) \/
     (wres_ok wr = false /\ r = Err wr)).
Proof.
  induction n as [|n IH]; intros st s o s' o' t r; cbn [flush_stripes].
  - intros [= <- <- <- <-] H Ho Hi. splits; auto. exists ROk. split; [apply tfacts_refl|].
    left. splits; auto. intros k v _. lia.
  - destruct (flush_stripe c st s o) as [[[s1 o1] e1] r1] eqn:E1.
    intros E H Ho Hi. eapply flush_stripe_facts in E1; eauto.
    destruct E1 as (H1 & C1 & S1 & wr1 & T1 & [(Ok1 & -> & Em1)|(Er1 & ->)]).
    + destruct (flush_stripes c n (st + 1) s1 o1) as [[[s2 o2] e2] r2] eqn:E2.
      inversion E; subst. eapply IH in E2; eauto.
      destruct E2 as (H2 & C2 & S2 & wr2 & T2 & X).
      splits; auto; try congruence.
      exists wr2. split; [eapply tfacts_trans; eauto|].
      destruct X as [(Ok2 & -> & Em2)|(Er2 & ->)]; [left|right]; splits; auto.
      intros k v Hin Hr. destruct (N.eq_dec (stripe k) st) as [Heq|Hne].
      * apply (Em1 k v); auto.
      * apply (Em2 k v Hin). lia.
    + inversion E; subst. splits; auto. exists wr1. split; auto.
Qed.

Lemma NSTRIPES_eq : N.of_nat NSTRIPES = STRIPES.
Proof. reflexivity. Qed.

Lemma stripe_lt o : stripe o < STRIPES.
Proof. unfold stripe. apply N.mod_lt. discriminate. Qed.
