(* A small concrete database image and commit window used by the non-vacuity examples of Props/C01.v:
   page size 512, one partial region of 3 pages (file length 2048); a commit consists of one page. *)
From RV Require Import Base.Bytes Gen.Consts Storage.Backend Storage.Header Storage.Window Storage.IdealH Storage.Protocol.

Definition ex_ps : N := 512.

(* a commit slot: version 3, both roots non-null, user root "page number" r, transaction id t *)
Definition ex_body (r t : N) : bytes :=
  [FILE_FORMAT_VERSION3; 1; 1; 0; 0; 0; 0; 0] ++ r :: repeat 0 95 ++ le_encode 8 t.
Definition ex_slot (r t : N) : bytes := ex_body r t ++ Hideal (ex_body r t).

(* the commit named by a slot is the 2-byte "page" [root; low byte of txid] at 512 * (1 + root) *)
Definition ex_expect (s : bytes) : list (N * bytes) :=
  [(512 * (1 + nth 8 s 0), [nth 8 s 0; nth 104 s 0])].

Definition ex_hdr (godb : N) (s0 s1 : bytes) : bytes :=
  MAGICNUMBER ++ [godb; 0; 0] ++ le_encode 4 512 ++ le_encode 4 0 ++ le_encode 4 8
  ++ le_encode 4 0 ++ le_encode 4 3 ++ repeat 0 32 ++ s0 ++ s1.

Definition ex_at (hdr : bytes) (pgs : list (N * bytes)) (i : N) : N :=
  if i <? DB_HEADER_SIZE then hget hdr i
  else fold_right (fun e acc => if covers (fst e) (snd e) i then wbyte (fst e) (snd e) i else acc) 0 pgs.

Definition ex_img (hdr : bytes) (pgs : list (N * bytes)) : image := mkImage 2048 (ex_at hdr pgs).

Definition ex_P : bytes := ex_slot 0 5.
Definition ex_Qold : bytes := ex_slot 1 4.
Definition ex_Qnew : bytes := ex_slot 2 6.

(* durable image: slot 0 (txid 5) is primary and served, slot 1 holds the previous commit (txid 4) *)
Definition ex_hdrD : bytes := ex_hdr RECOVERY_REQUIRED ex_P ex_Qold.
Definition ex_D : image := ex_img ex_hdrD [(512, [0; 5]); (1024, [1; 4])].

(* a 1PC commit of txid 6: its page, then one header write carrying the new slot 1 and the flipped god byte *)
Definition ex_hdrW : bytes := ex_hdr (RECOVERY_REQUIRED + PRIMARY_BIT) ex_P ex_Qnew.
Definition ex_W : list op := [Write 1536 [2; 6]; Write 0 ex_hdrW].

Definition ex_d : dsum := mkDsum ex_hdrD 2048 false [(512, 2)] true None.

(* crash images: only the god byte reached the disk / everything did / the header write was torn
   inside slot 1 (its first 104 bytes new, transaction id and checksum old) and the page was lost *)
Definition ex_img_god : image := mkImage 2048 (fun i => if i =? GOD_BYTE_OFFSET then 3 else iat ex_D i).
Definition ex_img_all : image := apply_ops ex_W ex_D.
Definition ex_img_torn : image :=
  mkImage 2048 (fun i => if (i <? TRANSACTION_1_OFFSET + 104) then hget ex_hdrW i else iat ex_D i).

(* an unsafe window: the god byte is flipped to slot 1 with the 2PC flag while slot 1 is still being written *)
Definition ex_hdrBad : bytes := ex_hdr (RECOVERY_REQUIRED + PRIMARY_BIT + TWO_PHASE_COMMIT) ex_P ex_Qnew.
Definition ex_Wbad : list op := [Write 1536 [2; 6]; Write 0 ex_hdrBad].
(* an unsafe window: a page of the served commit is overwritten in place *)
Definition ex_Wcow : list op := [Write 512 [9; 9]; Write 0 ex_hdrW].

(* the state behind the candidate finding: the primary (slot 0, txid 5) is trusted because of the 2PC
   flag, while slot 1 holds a complete, valid, NEWER commit (txid 6) that an earlier recovery ignored;
   a following 1PC commit (txid 6 again, other content) flips the god byte to slot 1 *)
Definition ex_hdrStale : bytes := ex_hdr (RECOVERY_REQUIRED + TWO_PHASE_COMMIT) ex_P ex_Qnew.
Definition ex_dStale : dsum := mkDsum ex_hdrStale 2048 false [(512, 2)] true None.
Definition ex_Wstale : list op :=
  [Write 1024 [1; 6]; Write 0 (ex_hdr (RECOVERY_REQUIRED + PRIMARY_BIT) ex_P (ex_slot 1 6))].

(* ---- the protocol model (Storage/Protocol.v) on the same small database ---- *)

Definition px_geom : bytes := le_encode 4 512 ++ le_encode 4 0 ++ le_encode 4 8.
Definition px_lay (full trail : N) : bytes := le_encode 4 full ++ le_encode 4 trail.
(* the header of ex_D as a record: slot 0 (txid 5) primary, recovery_required set, last commit one-phase *)
Definition px_m0 : hdrm := mkHdrm false true false px_geom (px_lay 0 3) ex_P ex_Qold.
(* an open database whose durable image is ex_D *)
Definition px_st0 : pst := mkPst ex_d [] px_m0 false true.

(* a history: eviction, 1PC commit, growth, a non-durable commit, 2PC commits (one shrinking the file),
   a 1PC commit after a 2PC one, clean close with trim, reopen, commit *)
Definition px_steps : list pstep :=
  [ PEvict [(1536, [2; 6])];
    PCommit false (ex_slot 2 6) [(1536, 2)] [] None;
    PGrow 2560 (px_lay 0 4);
    PNonDurable (ex_slot 0 7);
    PCommit true (ex_slot 0 8) [(512, 2)] [(512, [0; 8])] None;
    PCommit true (ex_slot 1 9) [(1024, 2)] [(1024, [1; 9])] (Some (2048, px_lay 0 3));
    PCommit false (ex_slot 2 10) [(1536, 2)] [(1536, [2; 10])] None;
    PClose (ex_slot 0 11) [(512, 2)] [(512, [0; 11])] (Some (1536, px_lay 0 2));
    POpen;
    PCommit false (ex_slot 1 12) [(1024, 2)] [(1024, [1; 12])] None ].

(* a shorter one whose semantic side conditions are discharged against ex_expect: 1PC, then 2PC *)
Definition px_steps2 : list pstep :=
  [ PEvict [(1536, [2; 6])];
    PCommit false (ex_slot 2 6) [(1536, 2)] [] None;
    PCommit true (ex_slot 1 7) [(1024, 2)] [(1024, [1; 7])] None ].

(* a state whose durable commit lies at the end of the file: committing a smaller tree and shrinking *)
Definition px_mS : hdrm := mkHdrm false true false px_geom (px_lay 0 3) (ex_slot 2 5) ex_Qold.
Definition px_stS : pst := mkPst (mkDsum (enc_hdr px_mS) 2048 false [(1536, 2)] true None) [] px_mS false true.

(* ---- recovery runs ---- *)

(* the summary of ex_img_god (only the god byte of the 1PC commit reached the disk): god byte 3 names slot 1,
   recovery serves slot 0 (the newer valid one) *)
Definition rx_hdr_god : bytes := ex_hdr (RECOVERY_REQUIRED + PRIMARY_BIT) ex_P ex_Qold.
Definition rx_d_god : dsum := mkDsum rx_hdr_god 2048 false [(512, 2)] true None.
(* full repair: recomputed region counts, no allocator state table, the repair commit re-publishes root 0 *)
Definition rx_o_full : roracle := mkRo (px_lay 0 3) false (ex_slot 0 6).

(* an image whose primary was written by a quick-repair (2PC) commit: god byte 6, slot 0 trusted; the stale
   secondary (a complete 1PC commit whose god byte was lost, txid 6) is newer than the primary *)
Definition rx_hdr_2pc : bytes := ex_hdr (RECOVERY_REQUIRED + TWO_PHASE_COMMIT) ex_P ex_Qnew.
Definition rx_d_2pc : dsum := mkDsum rx_hdr_2pc 2048 false [(512, 2)] true None.
Definition rx_o_quick : roracle := mkRo (px_lay 0 3) true (ex_slot 0 7).

(* a Merkle idealisation in which a commit's page does not depend on the transaction id, so that the repair
   commit (same root, next transaction id) names the same page as the commit it re-publishes *)
Definition ex_expect2 (s : bytes) : list (N * bytes) := [(512 * (1 + nth 8 s 0), [nth 8 s 0])].
