(* A small concrete database image and commit window used by the non-vacuity examples of Props/C01.v:
   page size 512, one partial region of 3 pages (file length 2048); a commit consists of one page. *)
From RV Require Import Base.Bytes Gen.Consts Storage.Backend Storage.Header Storage.Window Storage.IdealH.

Definition ex_ps : N := 512.

(* a commit slot: version 3, both roots non-null, user root "page number" r, transaction id t *)
Definition ex_body (r t : N) : bytes :=
  [FILE_FORMAT_VERSION3; 1; 1; 0; 0; 0; 0; 0] ++ r :: repeat 0 95 ++ le_encode 8 t.
Definition ex_slot (r t : N) : bytes := ex_body r t ++ Hideal (ex_body r t).

(* the commit named by a slot is the 2-byte "page" [root; low byte of txid] at 512 * (1 + root) *)
Definition ex_expect (s : bytes) : list (N * bytes) :=
  [(512 * (1 + nth 8 s 0), [nth 8 s 0; nth 104 s 0])].

Definition ex_hdr (godb : N) (s0 s1 : bytes) : bytes :=
  MAGICNUMBER ++ [godb; 0; 0] ++ le_encode 4 512 ++ le_encode 4 0 ++ le_encode 4 8
  ++ le_encode 4 0 ++ le_encode 4 3 ++ repeat 0 32 ++ s0 ++ s1.

Definition ex_at (hdr : bytes) (pgs : list (N * bytes)) (i : N) : N :=
  if i <? DB_HEADER_SIZE then hget hdr i
  else fold_right (fun e acc => if covers (fst e) (snd e) i then wbyte (fst e) (snd e) i else acc) 0 pgs.

Definition ex_img (hdr : bytes) (pgs : list (N * bytes)) : image := mkImage 2048 (ex_at hdr pgs).

Definition ex_P : bytes := ex_slot 0 5.
Definition ex_Qold : bytes := ex_slot 1 4.
Definition ex_Qnew : bytes := ex_slot 2 6.

(* durable image: slot 0 (txid 5) is primary and served, slot 1 holds the previous commit (txid 4) *)
Definition ex_hdrD : bytes := ex_hdr RECOVERY_REQUIRED ex_P ex_Qold.
Definition ex_D : image := ex_img ex_hdrD [(512, [0; 5]); (1024, [1; 4])].

(* a 1PC commit of txid 6: its page, then one header write carrying the new slot 1 and the flipped god byte *)
Definition ex_hdrW : bytes := ex_hdr (RECOVERY_REQUIRED + PRIMARY_BIT) ex_P ex_Qnew.
Definition ex_W : list op := [Write 1536 [2; 6]; Write 0 ex_hdrW].

Definition ex_d : dsum := mkDsum ex_hdrD 2048 false [(512, 2)] true None.

(* crash images: only the god byte reached the disk / everything did / the header write was torn
   inside slot 1 (its first 104 bytes new, transaction id and checksum old) and the page was lost *)
Definition ex_img_god : image := mkImage 2048 (fun i => if i =? GOD_BYTE_OFFSET then 3 else iat ex_D i).
Definition ex_img_all : image := apply_ops ex_W ex_D.
Definition ex_img_torn : image :=
  mkImage 2048 (fun i => if (i <? TRANSACTION_1_OFFSET + 104) then hget ex_hdrW i else iat ex_D i).

(* an unsafe window: the god byte is flipped to slot 1 with the 2PC flag while slot 1 is still being written *)
Definition ex_hdrBad : bytes := ex_hdr (RECOVERY_REQUIRED + PRIMARY_BIT + TWO_PHASE_COMMIT) ex_P ex_Qnew.
Definition ex_Wbad : list op := [Write 1536 [2; 6]; Write 0 ex_hdrBad].
(* an unsafe window: a page of the served commit is overwritten in place *)
Definition ex_Wcow : list op := [Write 512 [9; 9]; Write 0 ex_hdrW].

(* the state behind the candidate finding: the primary (slot 0, txid 5) is trusted because of the 2PC
   flag, while slot 1 holds a complete, valid, NEWER commit (txid 6) that an earlier recovery ignored;
   a following 1PC commit (txid 6 again, other content) flips the god byte to slot 1 *)
Definition ex_hdrStale : bytes := ex_hdr (RECOVERY_REQUIRED + TWO_PHASE_COMMIT) ex_P ex_Qnew.
Definition ex_dStale : dsum := mkDsum ex_hdrStale 2048 false [(512, 2)] true None.
Definition ex_Wstale : list op :=
  [Write 1024 [1; 6]; Write 0 (ex_hdr (RECOVERY_REQUIRED + PRIMARY_BIT) ex_P (ex_slot 1 6))].
