(* Lemmas about the storage model of Backend.v *)
From RV Require Import Base.Bytes Storage.Backend.

Lemma bytes_eqb_refl a : bytes_eqb a a = true.
Proof. induction a; simpl; auto. rewrite N.eqb_refl; auto. Qed.

Lemma bytes_eqb_eq a b : bytes_eqb a b = true <-> a = b.
Proof.
  split.
  - revert b; induction a as [|x a IH]; intros [|y b]; simpl; try congruence.
    intros E. apply andb_true_iff in E as [E1 E2]. apply N.eqb_eq in E1. f_equal; auto.
  - intros ->. apply bytes_eqb_refl.
Qed.

Lemma bytes_eqb_neq a b : bytes_eqb a b = false <-> a <> b.
Proof.
  split.
  - intros E Heq. apply bytes_eqb_eq in Heq. congruence.
  - intros Hn. destruct (bytes_eqb a b) eqn:E; auto. apply bytes_eqb_eq in E. contradiction.
Qed.

Lemma nseq_length off n : length (nseq off n) = n.
Proof. revert off; induction n; simpl; auto. Qed.

Lemma nseq_In off n i : In i (nseq off n) <-> off <= i < off + N.of_nat n.
Proof.
  revert off; induction n as [|n IH]; intros off; simpl.
  - split; [tauto | lia].
  - rewrite IH. lia.
Qed.

Lemma nth_nseq off n j : (j < n)%nat -> nth j (nseq off n) 0 = off + N.of_nat j.
Proof.
  revert off j; induction n as [|n IH]; intros off j Hj; [lia|].
  destruct j; simpl; [lia|]. rewrite IH by lia. lia.
Qed.

Lemma rd_length g off n : length (rd g off n) = n.
Proof. unfold rd. rewrite map_length. apply nseq_length. Qed.

Lemma nth_rd g off n j : (j < n)%nat -> nth j (rd g off n) 0 = g (off + N.of_nat j).
Proof.
  intros Hj. unfold rd.
  rewrite nth_indep with (d' := g 0) by (rewrite map_length, nseq_length; lia).
  rewrite map_nth. rewrite nth_nseq; auto.
Qed.

Lemma rd_ext g g' off n :
  (forall i, off <= i < off + N.of_nat n -> g i = g' i) -> rd g off n = rd g' off n.
Proof.
  intros Hx. unfold rd. apply map_ext_in. intros i Hi. apply Hx. apply nseq_In; auto.
Qed.

Lemma rd_eq_inv g g' off n :
  rd g off n = rd g' off n -> forall i, off <= i < off + N.of_nat n -> g i = g' i.
Proof.
  intros E i Hi.
  assert (Hj : (N.to_nat (i - off) < n)%nat) by lia.
  pose proof (nth_rd g off n _ Hj) as A. pose proof (nth_rd g' off n _ Hj) as B.
  rewrite E in A. rewrite A in B. replace (off + N.of_nat (N.to_nat (i - off))) with i in B by lia.
  auto.
Qed.

Lemma hget_wbyte data i : wbyte 0 data i = hget data i.
Proof. unfold wbyte, hget. now rewrite N.sub_0_r. Qed.

Lemma covers_spec off data i : covers off data i = true <-> off <= i < off + wlen data.
Proof. unfold covers. rewrite andb_true_iff, N.leb_le, N.ltb_lt. tauto. Qed.

Lemma disjointb_spec o1 l1 o2 l2 i :
  disjointb o1 l1 o2 l2 = true -> o1 <= i < o1 + l1 -> o2 <= i < o2 + l2 -> False.
Proof.
  unfold disjointb. rewrite !orb_true_iff, !N.eqb_eq, !N.leb_le. lia.
Qed.

Lemma forallb_ext_In {A} (f g : A -> bool) l :
  (forall x, In x l -> f x = g x) -> forallb f l = forallb g l.
Proof.
  induction l as [|x l IH]; simpl; auto. intros Hx.
  rewrite (Hx x (or_introl eq_refl)). f_equal. apply IH. intros y Hy. apply Hx. right; auto.
Qed.
