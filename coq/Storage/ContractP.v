(* C20 -- proofs about the contract monitor of Contract.v *)
From Coq Require Import List NArith Bool Lia PeanoNat Arith.
Import ListNotations.
From RV Require Import Storage.Contract.
Open Scope N_scope.

(* ---------- composition ---------- *)

Lemma run_app : forall ro a b s,
  run_okb ro s (a ++ b) =
  match run_okb ro s a with Some s' => run_okb ro s' b | None => None end.
Proof.
  induction a as [|e a IH]; intros b s; simpl; [reflexivity|].
  destruct (step_okb ro s e); [apply IH|reflexivity].
Qed.

Lemma prefix_closed : forall ro len0 a b,
  prefix_okb ro len0 (a ++ b) = true -> prefix_okb ro len0 a = true.
Proof.
  unfold prefix_okb. intros ro len0 a b. rewrite run_app.
  destruct (run_okb ro (m_init len0) a); [reflexivity|discriminate].
Qed.

Lemma contract_prefix : forall ro len0 tr,
  contract_okb ro len0 tr = true -> prefix_okb ro len0 tr = true.
Proof.
  unfold contract_okb, prefix_okb. intros. destruct (run_okb ro (m_init len0) tr); auto.
Qed.

Lemma run_len : forall ro tr s s',
  run_okb ro s tr = Some s' -> m_len s' = len_after (m_len s) tr.
Proof.
  induction tr as [|e r IH]; intros s s' H; simpl in *.
  - inversion H; reflexivity.
  - destruct (step_okb ro s e); [|discriminate]. apply IH in H. exact H.
Qed.

Lemma run_closed_nil : forall ro tr s s',
  m_closed s = true -> run_okb ro s tr = Some s' -> tr = [].
Proof.
  intros ro [|e r] s s' Hc H; [reflexivity|]. simpl in H.
  unfold step_okb in H. rewrite Hc in H. simpl in H. discriminate.
Qed.

Lemma step_okb_inv : forall ro s e,
  step_okb ro s e = true ->
  m_closed s = false /\ (ro = true -> mutating (fst e) = false) /\
  call_in_bounds (m_len s) (fst e) = true.
Proof.
  unfold step_okb. intros ro s e H.
  apply andb_true_iff in H. destruct H as [H H3].
  apply andb_true_iff in H. destruct H as [H1 H2].
  apply negb_true_iff in H1. apply negb_true_iff in H2.
  repeat split; auto. intros ->. simpl in H2. exact H2.
Qed.

(* ---------- soundness ---------- *)

Lemma is_close_true : forall c, is_close c = true -> c = CClose.
Proof. destruct c; simpl; intros; congruence. Qed.

Lemma safe_single : forall ro len0 e,
  (ro = true -> mutating (fst e) = false) ->
  call_in_bounds len0 (fst e) = true -> Safe ro len0 [e].
Proof.
  intros ro len0 e Hro Hb. constructor.
  - intros [|[|i]] c ok H; simpl in H; try discriminate.
    inversion H; subst. unfold len_before. simpl. exact Hb.
  - intros [|[|i]] ok H; simpl in H; try discriminate. reflexivity.
  - intros Hr e' [<-|[]]. auto.
Qed.

Lemma safe_cons : forall ro len0 e r,
  is_close (fst e) = false ->
  (ro = true -> mutating (fst e) = false) ->
  call_in_bounds len0 (fst e) = true ->
  Safe ro (upd_len len0 e) r -> Safe ro len0 (e :: r).
Proof.
  intros ro len0 e r Hnc Hro Hb [B C R]. constructor.
  - intros [|i] c ok H; simpl in H.
    + inversion H; subst. unfold len_before. simpl. exact Hb.
    + unfold len_before. simpl. apply (B i c ok H).
  - intros [|i] ok H; simpl in H.
    + inversion H; subst. simpl in Hnc. discriminate.
    + simpl. f_equal. apply (C i ok H).
  - intros Hr e' [<-|Hin]; auto.
Qed.

Lemma run_safe : forall ro tr s s',
  run_okb ro s tr = Some s' -> Safe ro (m_len s) tr.
Proof.
  induction tr as [|e r IH]; intros s s' H.
  - constructor.
    + intros [|i] c ok H0; discriminate.
    + intros [|i] ok H0; discriminate.
    + intros _ e [].
  - simpl in H. destruct (step_okb ro s e) eqn:Hs; [|discriminate].
    apply step_okb_inv in Hs. destruct Hs as (Hc & Hro & Hb).
    destruct (is_close (fst e)) eqn:Hcl.
    + assert (r = []) as ->.
      { eapply run_closed_nil; [|exact H]. simpl. rewrite Hcl. apply orb_true_r. }
      apply safe_single; auto.
    + apply safe_cons; auto. apply (IH _ _ H).
Qed.

Lemma run_closed_end : forall ro tr s s',
  run_okb ro s tr = Some s' -> m_closed s = false -> m_closed s' = true ->
  exists tr' ok, tr = tr' ++ [(CClose, ok)] /\ no_close tr'.
Proof.
  induction tr as [|e r IH]; intros s s' H Hc Hc'.
  - simpl in H. inversion H; subst. congruence.
  - simpl in H. destruct (step_okb ro s e) eqn:Hs; [|discriminate].
    destruct (is_close (fst e)) eqn:Hcl.
    + assert (r = []) as ->.
      { eapply run_closed_nil; [|exact H]. simpl. rewrite Hcl. apply orb_true_r. }
      destruct e as [c ok]. simpl in Hcl. apply is_close_true in Hcl. subst c.
      exists [], ok. split; [reflexivity|]. intros e [].
    + destruct (IH _ _ H) as (tr' & ok & -> & Hn); auto.
      { simpl. rewrite Hc, Hcl. reflexivity. }
      exists (e :: tr'), ok. split; [reflexivity|].
      intros e' [<-|Hin]; auto.
Qed.

Theorem prefix_check_sound : forall ro len0 tr,
  prefix_okb ro len0 tr = true -> Safe ro len0 tr.
Proof.
  unfold prefix_okb. intros ro len0 tr H.
  destruct (run_okb ro (m_init len0) tr) eqn:E; [|discriminate].
  apply run_safe in E. exact E.
Qed.

Theorem contract_check_sound : forall ro len0 tr,
  contract_okb ro len0 tr = true -> Contract ro len0 tr.
Proof.
  unfold contract_okb. intros ro len0 tr H.
  destruct (run_okb ro (m_init len0) tr) eqn:E; [|discriminate].
  constructor.
  - apply run_safe in E. exact E.
  - eapply run_closed_end; eauto.
Qed.

(* ---------- completeness (the monitor rejects only real violations) ---------- *)

Lemma safe_tail : forall ro len0 e r,
  Safe ro len0 (e :: r) -> Safe ro (upd_len len0 e) r.
Proof.
  intros ro len0 e r [B C R]. constructor.
  - intros i c ok H. specialize (B (S i) c ok H). exact B.
  - intros i ok H. specialize (C (S i) ok H). simpl in C. congruence.
  - intros Hr e' Hin. apply R; [assumption|right; assumption].
Qed.

Lemma safe_run : forall ro tr s,
  m_closed s = false -> Safe ro (m_len s) tr -> exists s', run_okb ro s tr = Some s'.
Proof.
  induction tr as [|e r IH]; intros s Hc HS.
  - eexists; reflexivity.
  - simpl.
    assert (Hs : step_okb ro s e = true).
    { unfold step_okb. rewrite Hc. simpl.
      destruct HS as [B C R]. destruct e as [c ok].
      specialize (B O c ok eq_refl). unfold len_before in B. simpl in B. simpl. rewrite B.
      destruct ro; simpl; [|reflexivity].
      pose proof (R eq_refl (c, ok) (or_introl eq_refl)) as Hm. simpl in Hm. rewrite Hm. reflexivity. }
    rewrite Hs.
    destruct (is_close (fst e)) eqn:Hcl.
    + destruct e as [c ok]. simpl in Hcl. apply is_close_true in Hcl. subst c.
      destruct HS as [B C R]. specialize (C O ok eq_refl). simpl in C.
      destruct r; [|discriminate]. eexists; reflexivity.
    + apply IH.
      * simpl. rewrite Hc, Hcl. reflexivity.
      * simpl. apply safe_tail. exact HS.
Qed.

Theorem prefix_check_complete : forall ro len0 tr,
  Safe ro len0 tr -> prefix_okb ro len0 tr = true.
Proof.
  intros ro len0 tr HS. unfold prefix_okb.
  destruct (safe_run ro tr (m_init len0) eq_refl HS) as [s' ->]. reflexivity.
Qed.

Theorem contract_check_complete : forall ro len0 tr,
  Contract ro len0 tr -> contract_okb ro len0 tr = true.
Proof.
  intros ro len0 tr [HS (tr' & ok & -> & Hn)]. unfold contract_okb.
  destruct (safe_run ro _ (m_init len0) eq_refl HS) as [s' E]. rewrite E.
  rewrite run_app in E. destruct (run_okb ro (m_init len0) tr') as [s1|]; [|discriminate].
  simpl in E. destruct (step_okb ro s1 (CClose, ok)); [|discriminate].
  inversion E; subst. simpl. apply orb_true_r.
Qed.

(* ---------- consequences of Contract, in the words of the property ---------- *)

Lemma len_before_app : forall len0 a b,
  len_before len0 (a ++ b) (length a) = len_after len0 a.
Proof.
  intros. unfold len_before. rewrite firstn_app, firstn_all, Nat.sub_diag. simpl.
  rewrite app_nil_r. reflexivity.
Qed.

(* every read/write, wherever it occurs, fits the length established by the calls before it *)
Theorem contract_bounds : forall ro len0 a c ok b off len,
  Safe ro len0 (a ++ (c, ok) :: b) -> (c = CRead off len \/ c = CWrite off len) ->
  off + len <= len_after len0 a.
Proof.
  intros ro len0 a c ok b off len [B _ _] Hc.
  specialize (B (length a) c ok).
  rewrite nth_error_app2, Nat.sub_diag in B by lia. specialize (B eq_refl).
  rewrite len_before_app in B.
  destruct Hc as [-> | ->]; simpl in B; apply N.leb_le in B; exact B.
Qed.

(* nothing follows a close *)
Theorem contract_nothing_after_close : forall ro len0 a ok b,
  Safe ro len0 (a ++ (CClose, ok) :: b) -> b = [].
Proof.
  intros ro len0 a ok b [_ C _].
  specialize (C (length a) ok).
  rewrite nth_error_app2, Nat.sub_diag in C by lia. specialize (C eq_refl).
  rewrite app_length in C. simpl in C. destruct b; [reflexivity|simpl in C; lia].
Qed.

Definition count_close (tr : list event) : nat :=
  length (filter (fun e => is_close (fst e)) tr).

Lemma no_close_count : forall tr, no_close tr -> count_close tr = O.
Proof.
  unfold count_close. induction tr as [|e r IH]; intros H; [reflexivity|].
  simpl. rewrite (H e (or_introl eq_refl)). apply IH. intros e' Hin. apply H. right; exact Hin.
Qed.

Theorem contract_close_exactly_once : forall ro len0 tr,
  Contract ro len0 tr -> count_close tr = 1%nat.
Proof.
  intros ro len0 tr [_ (tr' & ok & -> & Hn)]. unfold count_close.
  rewrite filter_app, app_length. fold (count_close tr'). rewrite (no_close_count _ Hn).
  reflexivity.
Qed.

Theorem contract_read_only_silent : forall len0 tr e,
  Safe true len0 tr -> In e tr ->
  match fst e with CLen | CRead _ _ | CClose => True | _ => False end.
Proof.
  intros len0 tr e [_ _ R] Hin. specialize (R eq_refl e Hin).
  destruct (fst e); simpl in R; try discriminate; exact I.
Qed.

(* ---------- close hand-off ---------- *)

Definition h_inv (s : hstate) : Prop :=
  (h_db_alive s = true -> h_closes s = 0 /\ h_deferred s = false) /\
  (h_db_alive s = false ->
     (h_live_write s = true -> h_deferred s = true /\ h_closes s = 0) /\
     (h_live_write s = false -> h_deferred s = false /\ h_closes s = 1)).

Lemma h_inv_init : h_inv h_init.
Proof. split; simpl; intros; try discriminate; auto. Qed.

Lemma h_inv_step : forall s e s', h_inv s -> hstep s e = Some s' -> h_inv s'.
Proof.
  intros [a w d c] e s' [Ha Hd] H. simpl in *.
  destruct e; simpl in H.
  - destruct a; simpl in H; [|discriminate]. destruct w; simpl in H; [discriminate|].
    inversion H; subst. split; simpl; intros; try discriminate. apply Ha; reflexivity.
  - destruct w; [|discriminate]. inversion H; subst; clear H. split; simpl.
    + intros ->. destruct (Ha eq_refl) as [-> ->]. auto.
    + intros ->. destruct (Hd eq_refl) as [Hw _]. destruct (Hw eq_refl) as [-> ->].
      split; intros; try discriminate. auto.
  - destruct a; [|discriminate]. destruct (Ha eq_refl) as [-> ->].
    destruct w; inversion H; subst; clear H; split; simpl; intros; try discriminate;
      split; intros; try discriminate; auto.
Qed.

Lemma h_inv_run : forall l s s', h_inv s -> hrun s l = Some s' -> h_inv s'.
Proof.
  induction l as [|e r IH]; intros s s' Hi H; simpl in H.
  - inversion H; subst; exact Hi.
  - destruct (hstep s e) eqn:E; [|discriminate]. eapply IH; [|exact H].
    eapply h_inv_step; eauto.
Qed.

(* for every interleaving of begin/end of write transactions and the drop of the Database:
   once everything is dropped, close_database has run exactly once *)
Theorem close_exactly_once : forall l s,
  hrun h_init l = Some s -> h_quiescent s = true -> h_closes s = 1.
Proof.
  intros l s H Hq. pose proof (h_inv_run _ _ _ h_inv_init H) as [_ Hd].
  unfold h_quiescent in Hq. apply andb_true_iff in Hq. destruct Hq as [Hq1 Hq2].
  apply negb_true_iff in Hq1. apply negb_true_iff in Hq2.
  destruct (Hd Hq1) as [_ Hw]. apply (Hw Hq2).
Qed.

(* ... never more than once, and if it has run nothing can use the database any more *)
Theorem close_at_most_once_and_last : forall l s,
  hrun h_init l = Some s ->
  (h_closes s = 0 \/ h_closes s = 1) /\
  (h_closes s = 1 -> forall e, hstep s e = None).
Proof.
  intros l s H. pose proof (h_inv_run _ _ _ h_inv_init H) as [Ha Hd].
  destruct s as [a w d c]. simpl in *. split.
  - destruct a; [left; apply Ha; reflexivity|].
    destruct (Hd eq_refl) as [Hw Hn]. destruct w; [left; apply Hw; reflexivity|right; apply Hn; reflexivity].
  - intros ->. destruct a.
    + destruct (Ha eq_refl) as [Hc _]. discriminate.
    + destruct (Hd eq_refl) as [Hw _]. destruct w.
      * destruct (Hw eq_refl) as [_ Hc]. discriminate.
      * intros []; reflexivity.
Qed.

(* a live write transaction always ends the history in a closed database: the deferred close is
   not lost *)
Theorem deferred_close_is_performed : forall l s,
  hrun h_init l = Some s -> h_db_alive s = false -> h_live_write s = true ->
  exists s', hstep s HEndWrite = Some s' /\ h_closes s' = 1 /\ h_quiescent s' = true.
Proof.
  intros l s H Ha Hw. pose proof (h_inv_run _ _ _ h_inv_init H) as [_ Hd].
  destruct (Hd Ha) as [Hl _]. destruct (Hl Hw) as [Hdef Hc].
  destruct s as [a w d c]. simpl in *. subst. eexists. split; [reflexivity|]. simpl. auto.
Qed.
