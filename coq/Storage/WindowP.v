(* Soundness of the sync-window validator: crash_window_safe and its trace corollary. *)
From RV Require Import Base.Bytes Gen.Consts Storage.Backend Storage.BackendP Storage.Crash
  Storage.CrashP Storage.Header Storage.HeaderP Storage.Window.

(* ---------- membership in the abstraction of a window ---------- *)

Lemma in_setlens W n : In (SetLen n) W -> In n (setlens (map abs W)).
Proof.
  intros Hin. unfold setlens. apply in_flat_map. exists (ASetLen n). split; [|left; auto].
  change (ASetLen n) with (abs (SetLen n)). now apply in_map.
Qed.

Lemma write_cases W off data :
  In (Write off data) W ->
  (off = 0 /\ wlen data = DB_HEADER_SIZE /\ In data (hdrs (map abs W)))
  \/ (DB_HEADER_SIZE <= off /\ In (off, wlen data) (pages (map abs W)))
  \/ In ABad (map abs W).
Proof.
  intros Hin. apply (in_map abs) in Hin. simpl in Hin.
  destruct ((off =? 0) && (wlen data =? DB_HEADER_SIZE)) eqn:E1.
  - left. apply andb_true_iff in E1 as [A B]. apply N.eqb_eq in A, B. repeat split; auto.
    unfold hdrs. apply in_flat_map. eexists; split; eauto. left; auto.
  - unfold aop_of_write in Hin. destruct (DB_HEADER_SIZE <=? off) eqn:E2.
    + right; left. apply N.leb_le in E2. split; auto.
      unfold pages. apply in_flat_map. eexists; split; eauto. left; auto.
    + right; right; auto.
Qed.

Lemma c_shape_no_bad aw : c_shape aw = true -> ~ In ABad aw.
Proof.
  unfold c_shape. rewrite forallb_forall. intros Hs Hin. specialize (Hs _ Hin). discriminate.
Qed.

Lemma setlens_nil_no_setlen W n : setlens (map abs W) = [] -> ~ In (SetLen n) W.
Proof. intros E Hin. apply in_setlens in Hin. rewrite E in Hin. contradiction. Qed.

(* ---------- byte-level consequences of the validator's conditions ---------- *)

Section Bytes.
  Variables (d : dsum) (W : list op) (D img : image).
  Let aw := map abs W.
  Hypothesis Hshape : c_shape aw = true.
  Hypothesis Hlens : c_lens d aw = true.
  Hypothesis Hlen : ilen D = d_len d.
  Hypothesis Hcrash : CrashOf D W img.

  Lemma lens_ge_hdr l : In l (lens_of d aw) -> DB_HEADER_SIZE <= l.
  Proof.
    intros Hin. unfold c_lens in Hlens. rewrite forallb_forall in Hlens.
    specialize (Hlens _ Hin). apply andb_true_iff in Hlens as [A _]. now apply N.leb_le.
  Qed.

  Lemma img_len_in : In (ilen img) (lens_of d aw).
  Proof.
    destruct Hcrash as [Hl _]. apply len_cand_cases in Hl as [E | Hin].
    - left. congruence.
    - right. now apply in_setlens.
  Qed.

  Lemma dlen_in : In (ilen D) (lens_of d aw).
  Proof. left. auto. Qed.

  (* a header byte of a crash image is D's or that of one of W's header writes *)
  Lemma hdr_byte i :
    i < DB_HEADER_SIZE ->
    iat img i = iat D i \/ exists h, In h (hdrs aw) /\ iat img i = hget h i.
  Proof.
    intros Hi.
    assert (Hil : i < ilen img) by (pose proof (lens_ge_hdr _ img_len_in); lia).
    destruct Hcrash as [_ Hb]. specialize (Hb i Hil).
    destruct Hb as [[_ Hv] | [[Hz Hv] | (off & data & Hin & Hc & Hv)]].
    - left; auto.
    - exfalso. destruct Hz as [Hz | (n & Hin & Hn)].
      + pose proof (lens_ge_hdr _ dlen_in). lia.
      + assert (In n (lens_of d aw)) by (right; now apply in_setlens).
        pose proof (lens_ge_hdr _ H). lia.
    - apply covers_spec in Hc.
      destruct (write_cases _ _ _ Hin) as [(A & B & C) | [(A & B) | A]].
      + right. exists data. split; auto. subst off. rewrite Hv. apply hget_wbyte.
      + exfalso. lia.
      + exfalso. eapply c_shape_no_bad; eauto.
  Qed.

  (* bytes inside ranges that W does not touch, at or beyond the header, are D's *)
  Lemma protected_byte rs r i :
    untouched rs aw (lens_of d aw) = true -> In r rs ->
    fst r <= i < fst r + snd r -> DB_HEADER_SIZE <= i ->
    i < ilen img /\ i < ilen D /\ iat img i = iat D i.
  Proof.
    intros Hu Hr Hi Hh. unfold untouched in Hu. apply andb_true_iff in Hu as [Hw Hl].
    rewrite forallb_forall in Hw, Hl.
    assert (Hlt : forall l, In l (lens_of d aw) -> i < l).
    { intros l Hin. specialize (Hl _ Hin). rewrite forallb_forall in Hl. specialize (Hl _ Hr).
      apply N.leb_le in Hl. lia. }
    pose proof (Hlt _ img_len_in) as H1. pose proof (Hlt _ dlen_in) as H2.
    repeat split; auto.
    destruct Hcrash as [_ Hb]. specialize (Hb i H1).
    destruct Hb as [[_ Hv] | [[Hz Hv] | (off & data & Hin & Hc & Hv)]]; auto.
    - exfalso. destruct Hz as [Hz | (n & Hin & Hn)]; [lia|].
      assert (In n (lens_of d aw)) by (right; now apply in_setlens).
      specialize (Hlt _ H). lia.
    - exfalso. apply covers_spec in Hc.
      destruct (write_cases _ _ _ Hin) as [(A & B & C) | [(A & B) | A]].
      + lia.
      + specialize (Hw _ B). rewrite forallb_forall in Hw. specialize (Hw _ Hr). simpl in Hw.
        eapply disjointb_spec; eauto.
      + eapply c_shape_no_bad; eauto.
  Qed.

  (* a window that writes nothing but headers leaves length and all other bytes alone *)
  Lemma pure_len : pure_hdr aw = true -> ilen img = ilen D.
  Proof.
    unfold pure_hdr. intros Hp. destruct (pages aw); [|discriminate].
    destruct (setlens aw) eqn:Es; [|discriminate].
    destruct Hcrash as [Hl _]. apply len_cand_cases in Hl as [E | Hin]; auto.
    exfalso. eapply setlens_nil_no_setlen; eauto.
  Qed.

  Lemma pure_byte i :
    pure_hdr aw = true -> DB_HEADER_SIZE <= i -> i < ilen img -> iat img i = iat D i.
  Proof.
    intros Hp Hh Hi. pose proof (pure_len Hp) as El.
    unfold pure_hdr in Hp. destruct (pages aw) eqn:Ep; [|discriminate].
    destruct (setlens aw) eqn:Es; [|discriminate].
    destruct Hcrash as [_ Hb]. specialize (Hb i Hi).
    destruct Hb as [[_ Hv] | [[Hz Hv] | (off & data & Hin & Hc & Hv)]]; auto.
    - exfalso. destruct Hz as [Hz | (n & Hin & Hn)]; [lia|].
      eapply setlens_nil_no_setlen; eauto.
    - exfalso. apply covers_spec in Hc.
      destruct (write_cases _ _ _ Hin) as [(A & B & C) | [(A & B) | A]].
      + lia.
      + fold aw in B. rewrite Ep in B. contradiction.
      + eapply c_shape_no_bad; eauto.
  Qed.
End Bytes.

(* ---------- layout facts about the header offsets (re-proved against the regenerated constants) ---------- *)

Lemma hdr_len_val : N.of_nat HDR_LEN = DB_HEADER_SIZE.
Proof. reflexivity. Qed.
Lemma magic_in_hdr i : 0 <= i < 0 + N.of_nat (length MAGICNUMBER) -> i < DB_HEADER_SIZE.
Proof. unfold MAGICNUMBER, DB_HEADER_SIZE. simpl. lia. Qed.
Lemma geom_in_hdr i : PAGE_SIZE_OFFSET <= i < PAGE_SIZE_OFFSET + N.of_nat GEOM_LEN -> i < DB_HEADER_SIZE.
Proof. unfold PAGE_SIZE_OFFSET, GEOM_LEN, DB_HEADER_SIZE. simpl. lia. Qed.
Lemma layout_in_hdr i :
  NUM_FULL_REGIONS_OFFSET <= i < NUM_FULL_REGIONS_OFFSET + N.of_nat LAYOUT_LEN -> i < DB_HEADER_SIZE.
Proof. unfold NUM_FULL_REGIONS_OFFSET, LAYOUT_LEN, DB_HEADER_SIZE. simpl. lia. Qed.
Lemma slot_in_hdr k i : slot_off k <= i < slot_off k + N.of_nat SLOT_LEN -> i < DB_HEADER_SIZE.
Proof.
  unfold slot_off, SLOT_LEN, TRANSACTION_SIZE, TRANSACTION_0_OFFSET, TRANSACTION_1_OFFSET, DB_HEADER_SIZE.
  destruct k; simpl; lia.
Qed.
Lemma god_in_hdr : GOD_BYTE_OFFSET < DB_HEADER_SIZE.
Proof. reflexivity. Qed.
Lemma version_in_slot : (N.to_nat VERSION_OFFSET < SLOT_LEN)%nat.
Proof. unfold VERSION_OFFSET, SLOT_LEN, TRANSACTION_SIZE. simpl. lia. Qed.

Lemma static_idx_In p i :
  In i (static_idx p) <->
  (0 <= i < 0 + N.of_nat (length MAGICNUMBER))
  \/ (PAGE_SIZE_OFFSET <= i < PAGE_SIZE_OFFSET + N.of_nat GEOM_LEN)
  \/ (slot_off p <= i < slot_off p + N.of_nat SLOT_LEN).
Proof. unfold static_idx. rewrite !in_app_iff, !nseq_In. tauto. Qed.

(* ---------- field-level view of a crash image's header ---------- *)

Section Fields.
  Variables (d : dsum) (W : list op) (D img : image).
  Let aw := map abs W.
  Let dh := hget (d_hdr d).
  Hypothesis Hshape : c_shape aw = true.
  Hypothesis Hlens : c_lens d aw = true.
  Hypothesis Hstatic : c_static d aw = true.
  Hypothesis Huniform : c_uniform d aw = true.
  Hypothesis Hlen : ilen D = d_len d.
  Hypothesis Hhdr : forall i, i < DB_HEADER_SIZE -> iat D i = dh i.
  Hypothesis Hcrash : CrashOf D W img.

  Lemma hdr_byte' i :
    i < DB_HEADER_SIZE -> iat img i = dh i \/ exists h, In h (hdrs aw) /\ iat img i = hget h i.
  Proof.
    intros Hi. destruct (hdr_byte d W D img Hshape Hlens Hlen Hcrash i Hi) as [E | E]; auto.
    left. rewrite E. auto.
  Qed.

  Lemma static_byte h i : In h (hdrs aw) -> In i (static_idx (d_p d)) -> hget h i = dh i.
  Proof.
    intros Hh Hi. unfold c_static in Hstatic. rewrite forallb_forall in Hstatic.
    specialize (Hstatic _ Hh). apply andb_true_iff in Hstatic as [_ Hs].
    rewrite forallb_forall in Hs. specialize (Hs _ Hi). now apply N.eqb_eq in Hs.
  Qed.

  Lemma uniform_h h : In h (hdrs aw) ->
    god (hget h) = wgod d aw /\ slot_at (hget h) (negb (d_p d)) = wq d aw.
  Proof.
    intros Hh. unfold c_uniform in Huniform. rewrite forallb_forall in Huniform.
    specialize (Huniform _ Hh). apply andb_true_iff in Huniform as [A B].
    apply N.eqb_eq in A. apply bytes_eqb_eq in B. auto.
  Qed.

  (* a field that every header write leaves as in D reads as in D *)
  Lemma field_same off n :
    (forall i, off <= i < off + N.of_nat n -> i < DB_HEADER_SIZE /\ In i (static_idx (d_p d))) ->
    rd (iat img) off n = rd dh off n.
  Proof.
    intros Hf. apply rd_ext. intros i Hi. destruct (Hf i Hi) as [Hlt Hst].
    destruct (hdr_byte' i Hlt) as [E | (h & Hh & E)]; auto.
    rewrite E. now apply static_byte.
  Qed.

  Lemma img_magic : magic_at (iat img) = magic_at dh.
  Proof.
    apply field_same. intros i Hi. split; [now apply magic_in_hdr|]. apply static_idx_In. auto.
  Qed.

  Lemma img_geom : geom_at (iat img) = geom_at dh.
  Proof.
    apply field_same. intros i Hi. split; [now apply geom_in_hdr|]. apply static_idx_In. auto.
  Qed.

  Lemma img_slotP : slot_at (iat img) (d_p d) = dP d.
  Proof.
    apply field_same. intros i Hi. split; [eapply slot_in_hdr; eauto|]. apply static_idx_In. auto.
  Qed.

  Lemma img_god : god (iat img) = dgod d \/ god (iat img) = wgod d aw.
  Proof.
    destruct (hdr_byte' _ god_in_hdr) as [E | (h & Hh & E)].
    - left. exact E.
    - right. unfold god at 1. rewrite E. apply (uniform_h _ Hh).
  Qed.

  Lemma img_slotQ_mix : mix2 (dQ d) (wq d aw) (slot_at (iat img) (negb (d_p d))).
  Proof.
    split.
    - unfold slot_at, dQ, slot_at. now rewrite !rd_length.
    - intros j. destruct (Nat.lt_ge_cases j SLOT_LEN) as [Hj | Hj].
      + set (i := slot_off (negb (d_p d)) + N.of_nat j).
        assert (Hi : slot_off (negb (d_p d)) <= i < slot_off (negb (d_p d)) + N.of_nat SLOT_LEN)
          by (unfold i; lia).
        assert (Em : nth j (slot_at (iat img) (negb (d_p d))) 0 = iat img i)
          by (unfold slot_at; now rewrite nth_rd).
        assert (Ed : nth j (dQ d) 0 = dh i)
          by (unfold dQ, slot_at; now rewrite nth_rd).
        rewrite Em, Ed.
        destruct (hdr_byte' i (slot_in_hdr _ _ Hi)) as [E | (h & Hh & E)].
        * left. exact E.
        * right. rewrite E. destruct (uniform_h _ Hh) as [_ <-].
          unfold slot_at. now rewrite nth_rd.
      + left. rewrite !nth_overflow; auto;
          unfold dQ, slot_at; rewrite rd_length; auto.
  Qed.

  (* when every header write carries D's region counts, so does every crash image *)
  Lemma img_layout :
    forallb (fun h => bytes_eqb (layout_at (hget h)) (layout_at dh)) (hdrs aw) = true ->
    layout_at (iat img) = layout_at dh.
  Proof.
    intros Hl. rewrite forallb_forall in Hl. apply rd_ext. intros i Hi.
    destruct (hdr_byte' i (layout_in_hdr _ Hi)) as [E | (h & Hh & E)]; auto.
    rewrite E. specialize (Hl _ Hh). apply bytes_eqb_eq in Hl.
    eapply rd_eq_inv in Hl; eauto.
  Qed.

  Lemma wgod_no_hdr : hdrs aw = [] -> wgod d aw = dgod d.
  Proof. unfold wgod. now intros ->. Qed.
  Lemma wq_no_hdr : hdrs aw = [] -> wq d aw = dQ d.
  Proof. unfold wq. now intros ->. Qed.
End Fields.

(* ---------- slot selection, as a function of "which slot D serves" ---------- *)

Section Main.
  Variable H : bytes -> bytes.
  Variable expect : bytes -> list (N * bytes).
  Variable ps : N.

  (* torn-slot detection: a byte mixture of two checksum-valid slots that is itself checksum-valid
     is one of the two.  (Injectivity of H does NOT imply this: see H_inj_insufficient.) *)
  Hypothesis H_tear : forall a b m,
    cks_ok H a = true -> cks_ok H b = true -> mix2 a b m -> cks_ok H m = true -> m = a \/ m = b.
  (* pages live at or beyond the database header *)
  Hypothesis expect_above : forall s e, In e (expect s) -> DB_HEADER_SIZE <= fst e.

  Lemma select_char gb (p : bool) P Qm verf :
    cks_ok H P = true -> verf P = true ->
    select H gb (if p then Qm else P) (if p then P else Qm) verf =
    if flag gb TWO_PHASE_COMMIT then
      (if xorb (flag gb PRIMARY_BIT) p
       then (if cks_ok H Qm && verf Qm then Some Qm else None) else Some P)
    else if first_is_q (xorb (flag gb PRIMARY_BIT) p) (cks_ok H Qm) (slot_txid Qm) (slot_txid P)
         then (if verf Qm then Some Qm else Some P) else Some P.
  Proof.
    intros HP HvP. unfold select, try2, first_is_q.
    destruct p, (flag gb PRIMARY_BIT), (flag gb TWO_PHASE_COMMIT); simpl;
      rewrite ?HP, ?HvP; simpl; auto;
      destruct (cks_ok H Qm); simpl; rewrite ?HvP; auto;
      try (destruct (slot_txid Qm <? slot_txid P); simpl; rewrite ?HvP; auto);
      try (destruct (slot_txid P <? slot_txid Qm); simpl; rewrite ?HvP; auto);
      destruct (verf Qm); auto.
  Qed.

  (* ---------- verification is stable on untouched ranges ---------- *)

  Lemma range_covered_spec rs off len :
    range_covered rs off len = true ->
    exists r, In r rs /\ fst r <= off /\ off + len <= fst r + snd r.
  Proof.
    unfold range_covered. intros E. apply existsb_exists in E as (r & Hr & E).
    apply andb_true_iff in E as [A B]. apply N.leb_le in A, B. eauto.
  Qed.

  Section Stable.
    Variables (d : dsum) (W : list op) (D img : image).
    Let aw := map abs W.
    Hypothesis Hshape : c_shape aw = true.
    Hypothesis Hlens : c_lens d aw = true.
    Hypothesis Hlen : ilen D = d_len d.
    Hypothesis Hcrash : CrashOf D W img.

    Lemma ver_protected rs s :
      untouched rs aw (lens_of d aw) = true ->
      (forall e, In e (expect s) -> range_covered rs (fst e) (wlen (snd e)) = true) ->
      ver expect D s = true -> ver expect img s = true.
    Proof.
      intros Hu Hcov Hv. unfold ver in *. rewrite forallb_forall in *. intros e He.
      specialize (Hv _ He). apply andb_true_iff in Hv as [Hb Hd].
      apply N.leb_le in Hb. apply bytes_eqb_eq in Hd.
      destruct (range_covered_spec _ _ _ (Hcov _ He)) as (r & Hr & R1 & R2).
      pose proof (expect_above _ _ He) as Habove.
      apply andb_true_iff. split.
      - apply N.leb_le.
        pose proof Hu as Hu'. unfold untouched in Hu'. apply andb_true_iff in Hu' as [_ Hl].
        rewrite forallb_forall in Hl.
        specialize (Hl _ (img_len_in d W D img Hlen Hcrash)). rewrite forallb_forall in Hl.
        specialize (Hl _ Hr). apply N.leb_le in Hl. lia.
      - apply bytes_eqb_eq. etransitivity; [|exact Hd]. apply rd_ext. intros i Hi.
        unfold wlen in *.
        destruct (protected_byte d W D img Hshape Hlen Hcrash rs r i Hu Hr) as (_ & _ & E); auto; lia.
    Qed.

    Lemma ver_pure s : pure_hdr aw = true -> ver expect img s = ver expect D s.
    Proof.
      intros Hp. pose proof (pure_len W D img Hcrash Hp) as El.
      unfold ver. apply forallb_ext_In. intros e He. rewrite El.
      destruct (fst e + wlen (snd e) <=? ilen D) eqn:Eb; simpl; auto.
      apply N.leb_le in Eb. f_equal. apply rd_ext. intros i Hi. unfold wlen in *.
      pose proof (expect_above _ _ He).
      apply (pure_byte d W D img Hshape Hlen Hcrash i Hp); lia.
    Qed.
  End Stable.

  (* ---------- the main theorem ---------- *)

  Lemma window_okb_inv d aw vnew :
    window_okb d aw vnew = true ->
    length (d_hdr d) = HDR_LEN /\ c_shape aw = true /\ c_static d aw = true /\ c_uniform d aw = true
    /\ c_versions d aw = true /\ c_cow d aw = true /\ c_lens d aw = true /\ c_rr d aw = true
    /\ c_leaves d aw = true /\ c_new d aw vnew = true.
  Proof.
    unfold window_okb. rewrite !andb_true_iff. intros (((((((((A & B) & C) & E) & F) & G) & I) & J) & K) & L).
    apply Nat.eqb_eq in A. tauto.
  Qed.

  Lemma leaf_of d aw gb qc :
    c_leaves d aw = true ->
    gb = dgod d \/ gb = wgod d aw ->
    (qc = QOld \/ wq d aw <> dQ d) ->
    leaf_ok d aw gb qc = true.
  Proof.
    unfold c_leaves. intros Hl Hg Hq. rewrite forallb_forall in Hl.
    assert (Hin : In gb [dgod d; wgod d aw]) by (destruct Hg as [-> | ->]; simpl; auto).
    specialize (Hl _ Hin). rewrite forallb_forall in Hl. apply Hl.
    destruct (bytes_eqb (wq d aw) (dQ d)) eqn:E.
    - apply bytes_eqb_eq in E. destruct Hq as [-> | Hq]; [left; auto | contradiction].
    - destruct qc; simpl; auto.
  Qed.

  Theorem crash_window_safe d W vnew D img :
    image_ok H expect ps d D ->
    fresh_ok H d (map abs W) vnew ->
    window_okb d (map abs W) vnew = true ->
    CrashOf D W img ->
    crash_outcome H expect ps d (map abs W) img.
  Proof.
    intros IO FO OK HC. set (aw := map abs W) in *.
    destruct (window_okb_inv _ _ _ OK) as (Hhl & Hshape & Hstatic & Huniform & Hvers & Hcow & Hlens & Hrr & Hleaves & Hnew).
    destruct IO as [_ Hhdr Hlen HPc HPv HPcov Hvq Hrq Hrec].
    (* header fields of the crash image *)
    pose proof (img_magic d W D img Hshape Hlens Hstatic Hlen Hhdr HC) as Emagic.
    pose proof (img_geom d W D img Hshape Hlens Hstatic Hlen Hhdr HC) as Egeom.
    pose proof (img_slotP d W D img Hshape Hlens Hstatic Hlen Hhdr HC) as EP.
    pose proof (img_god d W D img Hshape Hlens Huniform Hlen Hhdr HC) as Egod.
    pose proof (img_slotQ_mix d W D img Hshape Hlens Huniform Hlen Hhdr HC) as Emix.
    fold aw in Egod, Emix.
    set (Qm := slot_at (iat img) (negb (d_p d))) in *.
    (* D's own header, through D *)
    assert (EDm : magic_at (iat D) = magic_at (hget (d_hdr d)))
      by (apply rd_ext; intros i Hi; apply Hhdr; now apply magic_in_hdr).
    assert (EDg : geom_at (iat D) = geom_at (hget (d_hdr d)))
      by (apply rd_ext; intros i Hi; apply Hhdr; now apply geom_in_hdr).
    assert (EDs : forall k, slot_at (iat D) k = slot_at (hget (d_hdr d)) k)
      by (intros k; apply rd_ext; intros i Hi; apply Hhdr; eapply slot_in_hdr; eauto).
    assert (EDgod : god (iat D) = dgod d) by (apply Hhdr; apply god_in_hdr).
    assert (EDl : layout_at (iat D) = layout_at (hget (d_hdr d)))
      by (apply rd_ext; intros i Hi; apply Hhdr; now apply layout_in_hdr).
    destruct (recover_Some_inv H expect ps D _ Hrec) as (R0 & R1 & R2 & R3 & R4 & R5 & R6).
    (* the served commit is intact in the crash image *)
    assert (HPv' : ver expect img (dP d) = true)
      by (eapply ver_protected; eauto).
    (* pre-checks of recover pass on the crash image *)
    assert (Hil : DB_HEADER_SIZE <= ilen img)
      by (eapply lens_ge_hdr; eauto; eapply img_len_in; eauto).
    assert (Hgeomok : geom_ok ps (iat img) = true)
      by (rewrite (geom_ok_ext ps _ _ Egeom), <- (geom_ok_ext ps _ _ EDg); auto).
    unfold c_versions in Hvers. apply andb_true_iff in Hvers as [Hv12 Hv3].
    apply andb_true_iff in Hv12 as [Hv1 Hv2]. apply N.eqb_eq in Hv1, Hv2, Hv3.
    assert (HverQ : slot_version Qm = FILE_FORMAT_VERSION3).
    { unfold slot_version. destruct Emix as [_ Hj].
      destruct (Hj (N.to_nat VERSION_OFFSET)) as [E | E]; rewrite E; auto. }
    assert (Hslots : forall k, slot_at (iat img) k = if Bool.eqb k (d_p d) then dP d else Qm).
    { intros k. destruct k, (d_p d) eqn:Ep; simpl; auto; try (rewrite <- Ep; auto);
        unfold Qm; rewrite Ep; auto. }
    assert (Hvs : forall k, slot_version (slot_at (iat img) k) = FILE_FORMAT_VERSION3).
    { intros k. rewrite Hslots. destruct (Bool.eqb k (d_p d)); auto. }
    assert (Hfin : finalize_ok (iat img) (ilen img) = true).
    { destruct (geom_words _ _ Egeom) as (G1 & G2 & G3).
      unfold finalize_ok. destruct (flag (god (iat img)) RECOVERY_REQUIRED) eqn:Err.
      - rewrite G1, G2, G3. unfold c_lens in Hlens. rewrite forallb_forall in Hlens.
        specialize (Hlens _ (img_len_in d W D img Hlen HC)).
        apply andb_true_iff in Hlens as [_ Hlv]. exact Hlv.
      - unfold c_rr in Hrr.
        destruct (flag (dgod d) RECOVERY_REQUIRED && flag (wgod d aw) RECOVERY_REQUIRED) eqn:Eb.
        { exfalso. apply andb_true_iff in Eb as [B1 B2].
          destruct Egod as [E | E]; rewrite E in Err; congruence. }
        apply andb_true_iff in Hrr as [Hrr Hsl]. apply andb_true_iff in Hrr as [Hrr Hsane].
        apply andb_true_iff in Hrr as [Hnosl Hlay].
        assert (Eil : ilen img = d_len d).
        { destruct HC as [Hl _]. apply len_cand_cases in Hl as [E | Hin]; [congruence|].
          exfalso. apply in_setlens in Hin. fold aw in Hin. destruct (setlens aw); [contradiction|discriminate]. }
        pose proof (img_layout d W D img Hshape Hlens Hlen Hhdr HC Hlay) as El.
        destruct (stored_ext _ _ Egeom El) as [S1 S2]. rewrite S1, S2, Eil.
        apply N.eqb_eq in Hsl. rewrite Hsane, Hsl, N.leb_refl, N.eqb_refl. reflexivity. }
    rewrite EDm in R1.
    pose proof (recover_intro H expect ps img Hil (eq_trans Emagic R1) Hgeomok (Hvs false) (Hvs true) Hfin) as Erec.
    (* bring select into the shape of select_char *)
    assert (Esel : select H (god (iat img)) (slot_at (iat img) false) (slot_at (iat img) true) (ver expect img)
                   = select H (god (iat img)) (if d_p d then Qm else dP d) (if d_p d then dP d else Qm) (ver expect img)).
    { rewrite !Hslots. destruct (d_p d); reflexivity. }
    rewrite Esel, (select_char _ _ _ _ _ HPc HPv') in Erec.
    (* the same for D itself *)
    assert (EselD : select H (dgod d) (if d_p d then dQ d else dP d) (if d_p d then dP d else dQ d) (ver expect D)
                    = Some (dP d)).
    { rewrite <- R6, EDgod, !EDs. unfold dP, dQ. destruct (d_p d); reflexivity. }
    rewrite (select_char _ _ _ _ _ HPc HPv) in EselD.
    unfold crash_outcome. fold aw. rewrite Erec. clear Erec Esel.
    set (gb := god (iat img)) in *.
    fold (names_q d gb). fold (names_q d (dgod d)) in EselD.
    (* classify slot Q of the crash image *)
    assert (Hclass :
      (cks_ok H Qm = false)
      \/ (Qm = dQ d /\ d_vq d = true)
      \/ (Qm = wq d aw /\ wq d aw <> dQ d /\ cks_ok H Qm = true)).
    { destruct (cks_ok H Qm) eqn:EQ; auto. right.
      destruct (bytes_eqb (wq d aw) (dQ d)) eqn:Esame.
      - apply bytes_eqb_eq in Esame. left.
        assert (Qm = dQ d).
        { destruct Emix as [Hl Hj]. rewrite Esame in Hj.
          apply (nth_ext _ _ 0 0); auto. intros n _. destruct (Hj n); auto. }
        split; auto. rewrite <- Hvq, <- H0. auto.
      - apply bytes_eqb_neq in Esame.
        assert (Hnewok : cks_ok H (wq d aw) = true).
        { apply (fo_new _ _ _ _ FO); auto. unfold c_new in Hnew. apply orb_true_iff in Hnew as [E | E]; auto.
          apply bytes_eqb_eq in E. contradiction. }
        destruct (d_vq d) eqn:Evq.
        + destruct (H_tear _ _ _ Hvq Hnewok Emix EQ) as [E | E]; [left; auto | right; auto].
        + right. pose proof (fo_dead _ _ _ _ FO Evq _ Emix EQ). auto. }
    destruct (flag gb TWO_PHASE_COMMIT) eqn:Etp.
    - (* the god byte of the crash image carries TWO_PHASE_COMMIT: the primary is trusted *)
      destruct (names_q d gb) eqn:Epq; [|left; reflexivity].
      destruct Hclass as [Hinv | [[EQ Evq] | (EQ & Hne & Hck)]].
      + exfalso.
        assert (Hleaf : leaf_ok d aw gb (if bytes_eqb (wq d aw) (dQ d) then QOld else QInvalid) = true).
        { apply leaf_of; auto. destruct (bytes_eqb (wq d aw) (dQ d)) eqn:E; auto.
          right. now apply bytes_eqb_neq. }
        destruct (bytes_eqb (wq d aw) (dQ d)) eqn:E; unfold leaf_ok in Hleaf; rewrite Etp, Epq in Hleaf; simpl in Hleaf.
        * apply bytes_eqb_eq in E.
          assert (Qm = dQ d).
          { destruct Emix as [Hl Hj]. rewrite E in Hj.
            apply (nth_ext _ _ 0 0); auto. intros n _. destruct (Hj n); auto. }
          rewrite H0, Hvq in Hinv. rewrite Hinv in Hleaf. discriminate.
        * discriminate.
      + (* slot Q holds D's Q *)
        pose proof (leaf_of d aw gb QOld Hleaves Egod (or_introl eq_refl)) as Hleaf.
        unfold leaf_ok in Hleaf. rewrite Etp, Epq, Evq in Hleaf. simpl in Hleaf.
        destruct (old_stat d aw) eqn:Est; try discriminate.
        unfold old_stat in Est. destruct (d_rq d) as [rq|] eqn:Erq.
        2:{ destruct (pure_hdr aw && negb (flag (dgod d) TWO_PHASE_COMMIT) && _ && _); discriminate. }
        destruct (untouched rq aw (lens_of d aw)) eqn:Eun; [|discriminate].
        destruct (Hrq _ eq_refl) as [HQv HQcov].
        assert (HQv' : ver expect img (dQ d) = true) by (eapply ver_protected; eauto).
        rewrite EQ, Hvq, Evq, HQv'. simpl.
        destruct (bytes_eqb (wq d aw) (dQ d)) eqn:Esame.
        * apply bytes_eqb_eq in Esame.
          destruct Egod as [Eg | Eg].
          -- (* D's own god byte: then D itself serves Q, so Q = P *)
             rewrite <- Eg in EselD. rewrite Etp, Epq, Hvq, Evq, HQv in EselD. simpl in EselD.
             left. exact EselD.
          -- right. rewrite Esame. repeat split; auto.
             right. split; rewrite <- Eg; auto.
        * (* W also overwrites Q: then the (god, QNew) leaf rejects a 2PC god byte naming Q *)
          exfalso. apply bytes_eqb_neq in Esame.
          pose proof (leaf_of d aw gb QNew Hleaves Egod (or_intror Esame)) as Hl2.
          unfold leaf_ok in Hl2. rewrite Etp, Epq in Hl2. discriminate.
      + exfalso.
        pose proof (leaf_of d aw gb QNew Hleaves Egod (or_intror Hne)) as Hl2.
        unfold leaf_ok in Hl2. rewrite Etp, Epq in Hl2. discriminate.
    - (* 1PC selection: newer valid slot first, verified, with fallback *)
      destruct (first_is_q (names_q d gb) (cks_ok H Qm) (slot_txid Qm) (slot_txid (dP d))) eqn:Efq;
        [|left; reflexivity].
      destruct Hclass as [Hinv | [[EQ Evq] | (EQ & Hne & Hck)]].
      + exfalso. rewrite Hinv in Efq. unfold first_is_q in Efq. destruct (names_q d gb); discriminate.
      + (* D's Q is tried first: it must be P itself, or known not to verify *)
        pose proof (leaf_of d aw gb QOld Hleaves Egod (or_introl eq_refl)) as Hleaf.
        unfold leaf_ok in Hleaf. rewrite Etp in Hleaf.
        rewrite EQ, Hvq in Efq. rewrite Efq in Hleaf.
        apply orb_true_iff in Hleaf as [Hsame | Hno].
        * apply bytes_eqb_eq in Hsame. rewrite EQ, Hsame, HPv'. left; reflexivity.
        * destruct (old_stat d aw) eqn:Est; try discriminate.
          unfold old_stat in Est. destruct (d_rq d) as [rq|] eqn:Erq.
          { destruct (untouched rq aw (lens_of d aw)); discriminate. }
          destruct (pure_hdr aw) eqn:Epure; [|discriminate].
          destruct (flag (dgod d) TWO_PHASE_COMMIT) eqn:EtpD; [discriminate|].
          destruct (first_is_q (names_q d (dgod d)) (d_vq d) (slot_txid (dQ d)) (slot_txid (dP d))) eqn:EfqD; [|discriminate].
          destruct (bytes_eqb (dQ d) (dP d)) eqn:Eqp; [discriminate|]. apply bytes_eqb_neq in Eqp.
          rewrite ?EtpD, ?Hvq, ?EfqD in EselD.
          assert (HQD : ver expect D (dQ d) = false).
          { destruct (ver expect D (dQ d)); auto. exfalso. apply Eqp. congruence. }
          rewrite EQ, (ver_pure d W D img Hshape Hlen HC _ Epure), HQD. left; reflexivity.
      + (* the slot W writes is tried first: served iff complete in the crash image *)
        destruct (ver expect img Qm) eqn:EvQ; [|left; reflexivity].
        right. rewrite <- EQ. repeat split; auto. left. rewrite EQ. exact Hne.
  Qed.
End Main.

(* ---------- traces ---------- *)

Section Trace.
  Variable H : bytes -> bytes.
  Variable expect : bytes -> list (N * bytes).
  Variable ps : N.
  Hypothesis H_tear : forall a b m,
    cks_ok H a = true -> cks_ok H b = true -> mix2 a b m -> cks_ok H m = true -> m = a \/ m = b.
  Hypothesis expect_above : forall s e, In e (expect s) -> DB_HEADER_SIZE <= fst e.

  (* induction over the windows of a recorded operation stream: whatever the instant of the crash
     (window i, after k of its operations), and whatever subset / tearing of the unsynced
     operations reached the disk, recovery serves the commit that was durable at the last sync or
     the commit the interrupted window was writing, completely *)
  Theorem crash_trace_safe D0 ws :
    chain H expect ps D0 ws -> forallb wrec_okb ws = true ->
    forall pre w post k img,
      ws = pre ++ w :: post ->
      CrashOf (image_after D0 pre) (firstn k (w_ops w)) img ->
      crash_outcome H expect ps (w_sum w) (map abs (w_ops w)) img.
  Proof.
    intros Hc. induction Hc as [D | D w0 rest IO FO Hc IH]; intros Hok pre w post k img E HC.
    - destruct pre; discriminate.
    - simpl in Hok. apply andb_true_iff in Hok as [Hw Hrest].
      destruct pre as [|w1 pre]; simpl in *.
      + injection E as <- <-. eapply crash_window_safe; eauto. eapply crash_prefix; eauto.
      + injection E as <- ->. eapply IH; eauto.
  Qed.

  (* the commit served after a window completed is the one served before it or the one it wrote:
     the served commit only ever advances to a commit that a window wrote completely *)
  Theorem served_step D w rest :
    chain H expect ps D (w :: rest) -> wrec_okb w = true ->
    crash_outcome H expect ps (w_sum w) (map abs (w_ops w)) (apply_ops (w_ops w) D).
  Proof.
    intros Hc Hok. inversion Hc; subst. eapply crash_window_safe; eauto. apply apply_is_crash.
  Qed.
End Trace.

(* ---------- the summary of the next durable image is computable from the window ---------- *)

Lemma hdrs_app a b : hdrs (a ++ b) = hdrs a ++ hdrs b.
Proof. unfold hdrs. apply flat_map_app. Qed.
Lemma setlens_app a b : setlens (a ++ b) = setlens a ++ setlens b.
Proof. unfold setlens. apply flat_map_app. Qed.

Lemma last_in_cons {A} (l : list A) d : In (last l d) (d :: l).
Proof.
  induction l as [|x l IH]; simpl; auto.
  destruct l; simpl in *; auto. destruct IH as [E | E]; auto.
Qed.

Lemma apply_summary d W D :
  c_shape (map abs W) = true -> c_lens d (map abs W) = true ->
  (forall i, i < DB_HEADER_SIZE -> iat D i = hget (d_hdr d) i) -> ilen D = d_len d ->
  (forall i, i < DB_HEADER_SIZE -> iat (apply_ops W D) i = hget (next_hdr d (map abs W)) i)
  /\ ilen (apply_ops W D) = next_len d (map abs W).
Proof.
  intros Hs Hl Hh Hn. induction W as [|o W IH] using rev_ind.
  - simpl. auto.
  - rewrite map_app in *. change (map abs [o]) with [abs o] in *.
    unfold c_shape in Hs. rewrite forallb_app in Hs. apply andb_true_iff in Hs as [Hs1 Hs2].
    assert (Hl1 : c_lens d (map abs W) = true).
    { unfold c_lens, lens_of in *. rewrite setlens_app, app_comm_cons, forallb_app in Hl.
      apply andb_true_iff in Hl as [A _]. exact A. }
    destruct (IH Hs1 Hl1) as [IHh IHn]. clear IH.
    assert (Hge : DB_HEADER_SIZE <= ilen (apply_ops W D)).
    { rewrite IHn. eapply lens_ge_hdr; eauto. unfold next_len, lens_of. apply last_in_cons. }
    assert (Hlast : forall n, o = SetLen n -> DB_HEADER_SIZE <= n).
    { intros n ->. unfold c_lens, lens_of in Hl. rewrite setlens_app in Hl. rewrite forallb_forall in Hl.
      assert (Hin : In n (d_len d :: setlens (map abs W) ++ setlens [abs (SetLen n)]))
        by (right; apply in_or_app; right; left; auto).
      specialize (Hl _ Hin). apply andb_true_iff in Hl as [A _]. now apply N.leb_le. }
    rewrite apply_ops_snoc. unfold next_hdr, next_len. rewrite hdrs_app, setlens_app.
    destruct o as [off data | n |].
    + simpl apply_op. simpl iat. simpl ilen. unfold abs, aop_of_write in *.
      destruct ((off =? 0) && (wlen data =? DB_HEADER_SIZE)) eqn:E1.
      * apply andb_true_iff in E1 as [A B]. apply N.eqb_eq in A, B. subst off.
        simpl hdrs. simpl setlens. rewrite last_last, app_nil_r. split; auto. intros i Hi.
        assert (Hcv : covers 0 data i = true) by (apply covers_spec; lia). rewrite Hcv.
        apply hget_wbyte.
      * destruct (DB_HEADER_SIZE <=? off) eqn:E2; [|simpl in Hs2; discriminate].
        simpl hdrs. simpl setlens. rewrite !app_nil_r. split; auto. intros i Hi. apply N.leb_le in E2.
        assert (Hcv : covers off data i = false).
        { destruct (covers off data i) eqn:Ec; auto. apply covers_spec in Ec. lia. }
        rewrite Hcv. auto.
    + simpl apply_op. simpl iat. simpl ilen. simpl hdrs. simpl setlens.
      rewrite last_last, app_nil_r. split; auto. intros i Hi.
      pose proof (Hlast n eq_refl).
      assert (Hm : i <? N.min (ilen (apply_ops W D)) n = true) by (apply N.ltb_lt; lia).
      rewrite Hm. auto.
    + simpl in Hs2. discriminate.
Qed.
