(* C20 -- who closes the storage backend, when, and what can follow (definitions only; proofs in
   ShutdownP.v).

   An executable step model of everything that decides the single `StorageBackend::close()` call of
   a session:

     Builder::create/open            an open that fails drops the half-built TransactionalMemory;
                                     `Drop for CheckedBackend` is the only close on that path
     Drop for Database               src/db.rs: defer_close_if_write_transaction_live, else close_database
     TransactionGuard::drop (write)  src/db.rs: end_write_transaction hands a deferred close back
     close_database                  src/db.rs: close-time commit (result ignored), then mem.close()
     TransactionalMemory::close      page_manager.rs: flush_shutdown_header (result kept), then
                                     storage.close() ALWAYS, whatever the flush returned
     CheckedBackend::{close,drop}    cached_file.rs: close sets closed+io_failed and calls
                                     backend.close(); Drop calls backend.close() unless `closed`
     every other CheckedBackend call check_failure first (refused once io_failed is set), a failed
                                     answer latches io_failed (write_best_effort does not)

   The `TransactionalMemory` (and with it the CheckedBackend) is shared through `Arc`: the Database,
   the live WriteTransaction and every reader-side handle (ReadTransaction, ReadOnlyTable, Range, ...)
   hold one.  `Drop for CheckedBackend` runs when the last holder goes away -- possibly long after the
   Database was dropped, possibly never.  That is why the explicit close in close_database matters,
   and why the model counts reader handles.

   Failure outcomes are inputs: every storage call carries the answer the backend gives should the
   call get through; the phases of the shutdown (close-time commit, shutdown header flush) are lists
   of such calls, and `close()` has an answer of its own.  The model says which calls reach the
   backend, with which latch flags each wrapper call was entered, and where Close / Drop happen; this
   stream is what the harness observes through the latch log (redb::verif_c08).                    *)
From Coq Require Import List NArith Bool.
Import ListNotations.
From RV Require Import Storage.Contract.
Open Scope N_scope.

(* a call entering CheckedBackend: len/read/write/set_len/sync_data (latching) or write_best_effort *)
Inductive wkind := KOp | KBest.

(* the call and the answer of the backend should the call reach it *)
Definition wcall := (wkind * bool)%type.

(* observable stream: entries of the wrapper with the latch flags seen on entry, and the calls that
   reached the backend *)
Inductive ltok :=
| LEnterOp (k : wkind) (iof closed : bool)
| LEnterClose (iof closed : bool)        (* CheckedBackend::close *)
| LEnterDrop (iof closed : bool)         (* Drop for CheckedBackend *)
| LBack (ok : bool)                      (* len/read/write/set_len/sync_data reached the backend *)
| LBackClose (ok : bool).                (* close() reached the backend *)

(* the wrapper (CheckedBackend) and what the backend has seen *)
Record bstate := mkB {
  b_iof : bool;          (* CheckedBackend::io_failed *)
  b_closed : bool;       (* CheckedBackend::closed *)
  b_gone : bool;         (* the TransactionalMemory / CheckedBackend has been dropped *)
  b_closes : N;          (* close() calls that reached the backend *)
  b_after : N            (* other calls that reached the backend after a close() *)
}.

(* who holds the Arc<TransactionalMemory>, and the tracker's hand-off state *)
Record ostate := mkO {
  o_opened : bool;       (* the open succeeded: a Database value exists or existed *)
  o_db : bool;           (* the Database value has not been dropped *)
  o_writer : bool;       (* State::live_write_transaction.is_some() (a user WriteTransaction) *)
  o_deferred : bool;     (* State::deferred_close.is_some() *)
  o_readers : N          (* reader-side holders of Arc<TransactionalMemory> *)
}.

Record sstate := mkS { s_o : ostate; s_b : bstate }.

Definition s_new : sstate := mkS (mkO false false false false 0) (mkB false false false 0 0).

(* a call reached the backend: it is a call after close if a close() went before *)
Definition note_backend_call (b : bstate) : bstate :=
  mkB (b_iof b) (b_closed b) (b_gone b) (b_closes b)
      (if 0 <? b_closes b then b_after b + 1 else b_after b).

Definition set_iof (b : bstate) : bstate :=
  mkB true (b_closed b) (b_gone b) (b_closes b) (b_after b).

(* CheckedBackend::{len,read,write,set_len,sync_data,write_best_effort} *)
Definition io_call (b : bstate) (c : wcall) : bstate * list ltok :=
  let e := LEnterOp (fst c) (b_iof b) (b_closed b) in
  if b_iof b then (b, [e])                            (* check_failure: PreviousIo / DatabaseClosed *)
  else
    let b1 := note_backend_call b in
    let b2 := match c with (KOp, false) => set_iof b1 | _ => b1 end in
    (b2, [e; LBack (snd c)]).

Fixpoint io_calls (b : bstate) (cs : list wcall) : bstate * list ltok :=
  match cs with
  | [] => (b, [])
  | c :: r => let '(b1, l1) := io_call b c in
              let '(b2, l2) := io_calls b1 r in (b2, l1 ++ l2)
  end.

(* CheckedBackend::close *)
Definition wrapper_close (b : bstate) (ok : bool) : bstate * list ltok :=
  (mkB true true (b_gone b) (b_closes b + 1) (b_after b),
   [LEnterClose (b_iof b) (b_closed b); LBackClose ok]).

(* Drop for CheckedBackend (the result of the close in there is ignored) *)
Definition wrapper_drop (b : bstate) (ok : bool) : bstate * list ltok :=
  let e := LEnterDrop (b_iof b) (b_closed b) in
  if b_closed b
  then (mkB (b_iof b) (b_closed b) true (b_closes b) (b_after b), [e])
  else (mkB (b_iof b) (b_closed b) true (b_closes b + 1) (b_after b), [e; LBackClose ok]).

(* close_database: the close-time commit, then TransactionalMemory::close = flush_shutdown_header,
   then storage.close() whatever happened before *)
Definition close_database (b : bstate) (commit flush : list wcall) (close_ok : bool)
  : bstate * list ltok :=
  let '(b1, l1) := io_calls b commit in
  let '(b2, l2) := io_calls b1 flush in
  let '(b3, l3) := wrapper_close b2 close_ok in
  (b3, l1 ++ l2 ++ l3).

Definition no_holder (o : ostate) : bool :=
  negb (o_db o) && negb (o_writer o) && (o_readers o =? 0).

(* an Arc<TransactionalMemory> was released: the last one drops the CheckedBackend *)
Definition release (o : ostate) (b : bstate) (ok : bool) : bstate * list ltok :=
  if no_holder o && negb (b_gone b) then wrapper_drop b ok else (b, []).

Definition with_db (o : ostate) (d : bool) : ostate :=
  mkO (o_opened o) d (o_writer o) (o_deferred o) (o_readers o).
Definition with_writer (o : ostate) (w d : bool) : ostate :=
  mkO (o_opened o) (o_db o) w d (o_readers o).
Definition with_readers (o : ostate) (n : N) : ostate :=
  mkO (o_opened o) (o_db o) (o_writer o) (o_deferred o) n.
Definition with_opened (o : ostate) : ostate :=
  mkO true true (o_writer o) (o_deferred o) (o_readers o).

Inductive sevent :=
(* Builder::create / open: the storage calls of the open, and whether it produced a Database.
   `close_ok` = answer of the backend to the close() a failing open causes *)
| SOpen (cs : list wcall) (ok : bool) (close_ok : bool)
(* a new reader-side holder: begin_read, or a table / range obtained from an existing one *)
| SBeginRead
| SEndRead (close_ok : bool)            (* close_ok: answer to a close() by the Drop net, if any *)
(* storage calls made through a reader handle / through &Database / by the write transaction *)
| SReadIo (cs : list wcall)
| SDbIo (cs : list wcall)
| SWriteIo (cs : list wcall)
| SBeginWrite
(* TransactionGuard::drop of the write guard (end of commit / abort / drop of the transaction);
   commit, flush, close_ok: what the deferred close_database meets, if it runs *)
| SEndWrite (commit flush : list wcall) (close_ok : bool)
(* Drop for Database *)
| SDropDb (commit flush : list wcall) (close_ok : bool).

(* run `f` on the wrapper, then release one holder under the owners `o` *)
Definition then_release (o : ostate) (x : bstate * list ltok) (ok : bool) : sstate * list ltok :=
  let '(b1, l1) := x in let '(b2, l2) := release o b1 ok in (mkS o b2, l1 ++ l2).

Definition io_step (s : sstate) (cs : list wcall) : sstate * list ltok :=
  let '(b1, l1) := io_calls (s_b s) cs in (mkS (s_o s) b1, l1).

(* None = the API's types exclude the event in this state *)
Definition sstep (s : sstate) (e : sevent) : option (sstate * list ltok) :=
  let o := s_o s in let b := s_b s in
  match e with
  | SOpen cs ok close_ok =>
      if negb (o_opened o) && negb (b_gone b)
      then if ok
           then let '(b1, l1) := io_calls b cs in Some (mkS (with_opened o) b1, l1)
           else Some (then_release o (io_calls b cs) close_ok)
      else None
  | SBeginRead =>
      if o_opened o && (o_db o || (0 <? o_readers o))
      then Some (mkS (with_readers o (o_readers o + 1)) b, []) else None
  | SEndRead close_ok =>
      if 0 <? o_readers o
      then Some (then_release (with_readers o (o_readers o - 1)) (b, []) close_ok) else None
  | SReadIo cs => if 0 <? o_readers o then Some (io_step s cs) else None
  | SDbIo cs => if o_db o then Some (io_step s cs) else None
  | SWriteIo cs => if o_writer o then Some (io_step s cs) else None
  | SBeginWrite =>
      if o_db o && negb (o_writer o) then Some (mkS (with_writer o true (o_deferred o)) b, []) else None
  | SEndWrite commit flush close_ok =>
      if o_writer o
      then let o' := with_writer o false false in
           if o_deferred o
           then Some (then_release o' (close_database b commit flush close_ok) close_ok)
           else Some (then_release o' (b, []) close_ok)
      else None
  | SDropDb commit flush close_ok =>
      if o_db o
      then if o_writer o
           then Some (mkS (with_writer (with_db o false) true true) b, [])
           else Some (then_release (with_db o false) (close_database b commit flush close_ok) close_ok)
      else None
  end.

Fixpoint srun (s : sstate) (evs : list sevent) : option (sstate * list ltok) :=
  match evs with
  | [] => Some (s, [])
  | e :: r => match sstep s e with
              | Some (s1, l1) => match srun s1 r with
                                 | Some (s2, l2) => Some (s2, l1 ++ l2)
                                 | None => None
                                 end
              | None => None
              end
  end.

(* the backend calls of the stream as a trace for the contract monitor of Contract.v (the kind and
   the range of a call do not matter for the close clauses: every call is shown as `len`) *)
Fixpoint trace_of (l : list ltok) : list event :=
  match l with
  | [] => []
  | LBack ok :: r => (CLen, ok) :: trace_of r
  | LBackClose ok :: r => (CClose, ok) :: trace_of r
  | _ :: r => trace_of r
  end.

(* every handle of the session is gone *)
Definition s_quiescent (s : sstate) : bool := o_opened (s_o s) && no_holder (s_o s).

(* projection to the hand-off automaton of Contract.v *)
Definition h_of (s : sstate) : hstate :=
  mkH (o_db (s_o s)) (o_writer (s_o s)) (o_deferred (s_o s)) (b_closes (s_b s)).
Definition h_ev (e : sevent) : option hevent :=
  match e with
  | SBeginWrite => Some HBeginWrite
  | SEndWrite _ _ _ => Some HEndWrite
  | SDropDb _ _ _ => Some HDropDb
  | _ => None
  end.

(* ---- the timing oracle (S3): evaluated on what the harness observes ----
   One API step = the events it consists of + the number of close() calls the backend has seen and
   the number of other calls it has seen after a close(), both taken when the API call returned.
   The expected number of closes depends only on the order of open / begin_write / end of the write
   transaction / drop of the Database -- not on readers, not on failures:
     0 while the Database is alive or the write transaction that was live at its drop is;
     1 from the return of the closing event on;  1 after a failing open.                        *)
Record tstate := mkT { t_opened : bool; t_failed : bool; t_h : hstate }.
Definition t_new : tstate := mkT false false h_init.

Definition tstep (t : tstate) (e : sevent) : option tstate :=
  match e with
  | SOpen _ ok _ =>
      if t_opened t || t_failed t then None
      else Some (if ok then mkT true false (t_h t) else mkT false true (t_h t))
  | SBeginWrite | SEndWrite _ _ _ | SDropDb _ _ _ =>
      if t_opened t
      then match h_ev e with
           | Some he => match hstep (t_h t) he with
                        | Some h' => Some (mkT true false h')
                        | None => None
                        end
           | None => None
           end
      else None
  | _ => if t_opened t then Some t else None
  end.

Fixpoint trun (t : tstate) (evs : list sevent) : option tstate :=
  match evs with
  | [] => Some t
  | e :: r => match tstep t e with Some t' => trun t' r | None => None end
  end.

Definition expected_closes (t : tstate) : N :=
  if t_failed t then 1 else if t_opened t then h_closes (t_h t) else 0.

Definition apistep := (list sevent * (N * N))%type.   (* events, (closes, calls after close) *)

Inductive tverdict :=
| TOk
| TBad (i : N)          (* the observation after API step i contradicts the property *)
| TMalformed (i : N).   (* the event list of step i is not a possible history (harness error) *)

Fixpoint timing_check (t : tstate) (steps : list apistep) (i : N) : tverdict :=
  match steps with
  | [] => TOk
  | (evs, (closes, after)) :: r =>
      match trun t evs with
      | None => TMalformed i
      | Some t' =>
          if (closes =? expected_closes t') && (after =? 0)
          then timing_check t' r (i + 1) else TBad i
      end
  end.

Definition timing_okb (steps : list apistep) : bool :=
  match timing_check t_new steps 0 with TOk => true | _ => false end.

(* the model's own observation after a list of API steps *)
Fixpoint model_steps (s : sstate) (steps : list (list sevent))
  : option (list apistep * list (list ltok)) :=
  match steps with
  | [] => Some ([], [])
  | evs :: r =>
      match srun s evs with
      | None => None
      | Some (s1, l1) =>
          match model_steps s1 r with
          | None => None
          | Some (o, ls) => Some ((evs, (b_closes (s_b s1), b_after (s_b s1))) :: o, l1 :: ls)
          end
      end
  end.
