(* C01 crash model: which file images can be found after a crash, given the durable image D at the
   last completed sync_data and the operations W issued since.  Byte-granular tearing: every byte
   is independently the durable value, zero where the file was (re)extended, or the value of ANY
   pending write covering it; every pending set_len is applied or not, in order.
   Definitions only (proofs in CrashP.v). *)
From RV Require Import Base.Bytes Storage.Backend.

(* position i may read as zero: it is beyond the durable length, or some pending set_len cut the file at or below it *)
Definition zero_ok (D : image) (W : list op) (i : N) : Prop :=
  ilen D <= i \/ exists n, In (SetLen n) W /\ n <= i.

Definition byte_cand (D : image) (W : list op) (i v : N) : Prop :=
  (i < ilen D /\ v = iat D i)
  \/ (zero_ok D W i /\ v = 0)
  \/ (exists off data, In (Write off data) W /\ covers off data i = true /\ v = wbyte off data i).

(* lengths: start from the durable length, each pending SetLen applied or skipped, in order *)
Inductive len_cand : N -> list op -> N -> Prop :=
| lc_nil  : forall l, len_cand l [] l
| lc_skip : forall l o W l', len_cand l W l' -> len_cand l (o :: W) l'
| lc_set  : forall l n W l', len_cand n W l' -> len_cand l (SetLen n :: W) l'.

Record CrashOf (D : image) (W : list op) (img : image) : Prop := mkCrashOf {
  co_len   : len_cand (ilen D) W (ilen img);
  co_bytes : forall i, i < ilen img -> byte_cand D W i (iat img i)
}.
