(* C08 -- proofs about the latch model of Latch.v *)
From Coq Require Import List Bool NArith Lia.
Import ListNotations.
From RV Require Import Storage.Latch.

Section LatchP.

Variable op : Type.
Variable storage : Type.
Variable bapply : storage -> op -> storage.

Notation wcall := (wcall op).
Notation bev := (bev op).
Notation lstep := (lstep op).
Notation lrun := (lrun op).
Notation l_state := (l_state op).
Notation l_trace := (l_trace op).
Notation l_results := (l_results op).
Notation storage_after := (storage_after op storage bapply).

Definition io_calls (cs : list (wcall * bool)) : Prop :=
  Forall (fun cb => is_io_call op (fst cb) = true) cs.

(* ---------- composition ---------- *)

Lemma lrun_app : forall a b s,
  lrun s (a ++ b) =
  let '(s1, t1, r1) := lrun s a in
  let '(s2, t2, r2) := lrun s1 b in
  (s2, t1 ++ t2, r1 ++ r2).
Proof.
  induction a as [|[c bok] a IH]; intros b s; simpl.
  - destruct (lrun s b) as [[s2 t2] r2]. reflexivity.
  - destruct (lstep s c bok) as [[s1 t1] r1]. rewrite IH.
    destruct (lrun s1 a) as [[s1' t1'] r1']. destruct (lrun s1' b) as [[s2 t2] r2].
    rewrite app_assoc. reflexivity.
Qed.

Lemma l_trace_app : forall a b s,
  l_trace (lrun s (a ++ b)) = l_trace (lrun s a) ++ l_trace (lrun (l_state (lrun s a)) b).
Proof.
  intros. rewrite lrun_app. unfold Latch.l_trace, Latch.l_state.
  destruct (lrun s a) as [[s1 t1] r1]. simpl.
  destruct (lrun s1 b) as [[s2 t2] r2]. reflexivity.
Qed.

Lemma l_state_app : forall a b s,
  l_state (lrun s (a ++ b)) = l_state (lrun (l_state (lrun s a)) b).
Proof.
  intros. rewrite lrun_app. unfold Latch.l_state.
  destruct (lrun s a) as [[s1 t1] r1]. simpl.
  destruct (lrun s1 b) as [[s2 t2] r2]. reflexivity.
Qed.

(* ---------- the latch ---------- *)

(* a failing latched call sets the latch (if it was not set, the call reached the backend) *)
Theorem latch_sets : forall s o,
  io_failed (l_state (lrun s [(WOp o, false)])) = true.
Proof.
  intros [f c] o. unfold Latch.l_state. simpl. unfold check_failure. simpl.
  destruct f; reflexivity.
Qed.

(* a failing best-effort write never latches *)
Theorem best_effort_does_not_latch : forall s o bok,
  l_state (lrun s [(WBestEffort o, bok)]) = s.
Proof.
  intros [f c] o bok. unfold Latch.l_state. simpl. unfold check_failure. simpl.
  destruct f; reflexivity.
Qed.

Lemma lstep_failed : forall s c bok,
  io_failed s = true ->
  io_failed (fst (fst (lstep s c bok))) = true /\
  (forall e, In e (snd (fst (lstep s c bok))) -> e = BClose) /\
  (is_io_call op c = true ->
     fst (fst (lstep s c bok)) = s /\ snd (fst (lstep s c bok)) = [] /\
     refused (snd (lstep s c bok)) = true).
Proof.
  intros [f cl] c bok Hf. simpl in Hf. subst f.
  destruct c; simpl; unfold check_failure; simpl.
  - repeat split; auto; try (intros e []). destruct cl; reflexivity.
  - repeat split; auto; try (intros e []). destruct cl; reflexivity.
  - repeat split; auto; try discriminate. intros e [<-|[]]. reflexivity.
  - repeat split; auto; try discriminate. destruct cl; intros e Hin; [destruct Hin|].
    destruct Hin as [<-|[]]. reflexivity.
Qed.

(* once set, the latch stays set; nothing but close() reaches the backend; every
   len/read/write/set_len/sync_data/write_best_effort call is refused with PreviousIo (or
   DatabaseClosed after close) -- for every sequence of calls *)
Theorem latch_permanent : forall cs s,
  io_failed s = true ->
  io_failed (l_state (lrun s cs)) = true /\
  (forall e, In e (l_trace (lrun s cs)) -> e = BClose) /\
  (forall i c bok, nth_error cs i = Some (c, bok) -> is_io_call op c = true ->
     exists r, nth_error (l_results (lrun s cs)) i = Some r /\ refused r = true).
Proof.
  induction cs as [|[c bok] cs IH]; intros s Hf.
  - simpl. repeat split; auto.
    + intros e [].
    + intros [|i] c bok H; discriminate.
  - simpl. pose proof (lstep_failed s c bok Hf) as (H1 & H2 & H3).
    destruct (lstep s c bok) as [[s1 t1] r1] eqn:E. simpl in *.
    destruct (IH s1 H1) as (I1 & I2 & I3).
    destruct (lrun s1 cs) as [[s2 t2] r2] eqn:E2.
    unfold Latch.l_state, Latch.l_trace, Latch.l_results in *. simpl in *.
    repeat split; auto.
    + intros e Hin. apply in_app_or in Hin. destruct Hin; auto.
    + intros [|i] c' bok' Hn Hio; simpl in *.
      * inversion Hn; subst. destruct (H3 Hio) as (_ & _ & Hr). exists r1. auto.
      * apply (I3 i c' bok' Hn Hio).
Qed.

(* "after the first failing latched call": whatever came before, and whatever comes after *)
Corollary latch_permanent_after_failure : forall cs1 o cs2 s,
  let s1 := l_state (lrun s (cs1 ++ [(WOp o, false)])) in
  io_failed s1 = true /\
  (forall e, In e (l_trace (lrun s1 cs2)) -> e = BClose) /\
  (forall i c bok, nth_error cs2 i = Some (c, bok) -> is_io_call op c = true ->
     exists r, nth_error (l_results (lrun s1 cs2)) i = Some r /\ refused r = true).
Proof.
  intros cs1 o cs2 s s1.
  assert (H : io_failed s1 = true).
  { subst s1. rewrite l_state_app. apply latch_sets. }
  split; [exact H|]. destruct (latch_permanent cs2 s1 H) as (_ & H2 & H3). split; assumption.
Qed.

(* ---------- close reaches the backend exactly once ---------- *)

Lemma io_calls_keep_closed : forall cs s, io_calls cs ->
  closed (l_state (lrun s cs)) = closed s /\
  Forall (fun e => is_bclose op e = false) (l_trace (lrun s cs)).
Proof.
  induction cs as [|[c bok] cs IH]; intros s H.
  - simpl. split; [reflexivity|constructor].
  - inversion H as [|x l Hc Hr]; subst. simpl in Hc.
    simpl. destruct (lstep s c bok) as [[s1 t1] r1] eqn:E.
    assert (closed s1 = closed s /\ Forall (fun e => is_bclose op e = false) t1) as [C1 T1].
    { destruct s as [f cl]. destruct c; simpl in Hc; try discriminate; simpl in E;
        unfold check_failure in E; simpl in E; destruct f; try destruct bok;
        inversion E; subst; simpl; split; auto; repeat constructor. }
    destruct (IH s1 Hr) as [C2 T2]. destruct (lrun s1 cs) as [[s2 t2] r2].
    unfold Latch.l_state, Latch.l_trace in *. simpl in *. split; [congruence|].
    apply Forall_app. split; assumption.
Qed.

Lemma failed_io_calls_silent : forall cs s, io_failed s = true -> io_calls cs ->
  l_state (lrun s cs) = s /\ l_trace (lrun s cs) = [].
Proof.
  induction cs as [|[c bok] cs IH]; intros s Hf H.
  - simpl. auto.
  - inversion H as [|x l Hc Hr]; subst. simpl in Hc. simpl.
    destruct (lstep_failed s c bok Hf) as (_ & _ & H3). destruct (H3 Hc) as (E1 & E2 & _).
    destruct (lstep s c bok) as [[s1 t1] r1]. simpl in *. subst s1 t1.
    destruct (IH s Hf Hr) as [I1 I2]. destruct (lrun s cs) as [[s2 t2] r2].
    unfold Latch.l_state, Latch.l_trace in *. simpl in *. subst. auto.
Qed.

(* no explicit close: the Drop impl closes *)
Theorem close_once_by_drop : forall cs b s,
  closed s = false -> io_calls cs ->
  l_trace (lrun s (cs ++ [(WDrop, b)])) = l_trace (lrun s cs) ++ [BClose] /\
  Forall (fun e => is_bclose op e = false) (l_trace (lrun s cs)).
Proof.
  intros cs b s Hc Hio. destruct (io_calls_keep_closed cs s Hio) as [C T].
  split; [|exact T]. rewrite l_trace_app. f_equal.
  unfold Latch.l_trace. simpl. rewrite C, Hc. reflexivity.
Qed.

(* one explicit close (close_database runs once: C20 hand-off): it reaches the backend, nothing
   follows it, and the Drop impl does not close again *)
Theorem close_once_explicit : forall cs1 b1 cs2 b2 s,
  closed s = false -> io_calls cs1 -> io_calls cs2 ->
  l_trace (lrun s (cs1 ++ (WClose, b1) :: cs2 ++ [(WDrop, b2)])) = l_trace (lrun s cs1) ++ [BClose] /\
  Forall (fun e => is_bclose op e = false) (l_trace (lrun s cs1)).
Proof.
  intros cs1 b1 cs2 b2 s Hc H1 H2. destruct (io_calls_keep_closed cs1 s H1) as [C T].
  split; [|exact T]. rewrite l_trace_app. f_equal.
  change ((WClose, b1) :: cs2 ++ [(WDrop, b2)]) with ([(@WClose op, b1)] ++ cs2 ++ [(WDrop, b2)]).
  rewrite l_trace_app.
  assert (E : l_state (lrun (l_state (lrun s cs1)) [(WClose, b1)]) = mkL true true) by reflexivity.
  rewrite E. rewrite l_trace_app.
  destruct (failed_io_calls_silent cs2 (mkL true true) eq_refl H2) as [S2 T2].
  rewrite S2, T2. reflexivity.
Qed.

(* ---------- a failure is a crash point ---------- *)

Lemma frozen_fold : forall tr st, (forall e, In e tr -> e = @BClose op) -> storage_after st tr = st.
Proof.
  induction tr as [|e tr IH]; intros st H; [reflexivity|].
  unfold Latch.storage_after. simpl. rewrite (H e (or_introl eq_refl)). simpl.
  apply IH. intros e' Hin. apply H. right; exact Hin.
Qed.

(* once the latch is set the storage never changes again, whatever is called *)
Theorem failed_storage_frozen : forall cs s st,
  io_failed s = true -> storage_after st (l_trace (lrun s cs)) = st.
Proof.
  intros cs s st Hf. destruct (latch_permanent cs s Hf) as (_ & H & _).
  apply frozen_fold. exact H.
Qed.

Lemma storage_after_app : forall a b st,
  storage_after st (a ++ b) = storage_after (storage_after st a) b.
Proof. intros. unfold Latch.storage_after. apply fold_left_app. Qed.

(* The storage left behind by a run in which a latched call failed is the storage after the calls
   issued before that call: nothing issued later reaches it.  (If all earlier calls succeeded this
   is a prefix of the fault-free operation stream: `prefix_is_fault_free_stream`.) *)
Theorem failure_is_a_crash_point : forall cs1 o cs2 s st,
  storage_after st (l_trace (lrun s (cs1 ++ (WOp o, false) :: cs2))) =
  storage_after st (l_trace (lrun s cs1)).
Proof.
  intros cs1 o cs2 s st.
  change ((WOp o, false) :: cs2) with ([(@WOp op o, false)] ++ cs2).
  rewrite app_assoc, l_trace_app, storage_after_app.
  rewrite failed_storage_frozen by (rewrite l_state_app; apply latch_sets).
  rewrite l_trace_app, storage_after_app.
  (* the failing call itself: either refused or it reached the backend and failed: no effect *)
  destruct (l_state (lrun s cs1)) as [f c]. unfold Latch.l_trace. simpl. unfold check_failure. simpl.
  destruct f; reflexivity.
Qed.

Lemma prefix_is_fault_free_stream : forall cs s,
  io_failed s = false -> io_calls cs -> Forall (fun cb => snd cb = true) cs ->
  l_trace (lrun s cs) = flat_map (fun cb => ok_event op (fst cb)) cs /\
  io_failed (l_state (lrun s cs)) = false.
Proof.
  induction cs as [|[c bok] cs IH]; intros s Hf Hio Hok.
  - unfold Latch.l_trace, Latch.l_state. simpl. auto.
  - inversion Hio as [|x l Hc Hr]; subst. inversion Hok as [|x l Hb Hr']; subst.
    simpl in Hc, Hb. subst bok. simpl.
    destruct s as [f cl]. simpl in Hf. subst f.
    destruct c; simpl in Hc; try discriminate; simpl; unfold check_failure; simpl;
      destruct (IH (mkL false cl) eq_refl Hr Hr') as [I1 I2];
      destruct (lrun (mkL false cl) cs) as [[s2 t2] r2];
      unfold Latch.l_trace, Latch.l_state in *; simpl in *; subst; auto.
Qed.

End LatchP.

(* ---------- session level ---------- *)

Definition d_failedish (s : dstate) : Prop :=
  d_io_failed s = true \/ d_allocators s = false \/ d_needs_repair s = true.

Lemma dstep_failedish : forall s e, d_failedish s -> d_failedish (dstep s e).
Proof.
  intros [f a n r] e H. unfold d_failedish in *. simpl in *.
  destruct e as [| [|] | | fl]; simpl; try tauto.
  destruct (negb f && a && negb n && fl); simpl; tauto.
Qed.

Lemma drun_failedish : forall l s, d_failedish s -> d_failedish (drun s l).
Proof.
  induction l as [|e l IH]; intros s H; [exact H|]. simpl. apply IH. apply dstep_failedish. exact H.
Qed.

Lemma failedish_after_failure : forall s e, is_failure e = true -> d_failedish (dstep s e).
Proof.
  intros [f a n r] e H. unfold d_failedish.
  destruct e as [| [|] | | fl]; simpl in *; try discriminate; tauto.
Qed.

Lemma no_writes_persist : forall l s,
  (d_io_failed s = true \/ d_allocators s = false) ->
  (d_io_failed (drun s l) = true \/ d_allocators (drun s l) = false).
Proof.
  induction l as [|e l IH]; intros s H; [exact H|]. simpl. apply IH.
  destruct s as [f a n r]. simpl in *. destruct e as [| [|] | | fl]; simpl; try tauto.
  destruct (negb f && a && negb n && fl); simpl; tauto.
Qed.

(* a commit that returned Err: begin_write is refused for the rest of the session *)
Theorem failed_commit_refuses_writes : forall s l,
  begin_write_allowed (drun (dstep s (DCommit false)) l) = false.
Proof.
  intros s l.
  assert (H : d_io_failed (drun (dstep s (DCommit false)) l) = true \/
              d_allocators (drun (dstep s (DCommit false)) l) = false).
  { apply no_writes_persist. right. reflexivity. }
  unfold begin_write_allowed. destruct H as [-> | ->]; simpl; auto. apply andb_false_r.
Qed.

(* a latched backend failure: same *)
Theorem io_failure_refuses_writes : forall s l,
  begin_write_allowed (drun (dstep s DIoFailure) l) = false.
Proof.
  intros s l.
  assert (H : d_io_failed (drun (dstep s DIoFailure) l) = true \/
              d_allocators (drun (dstep s DIoFailure) l) = false).
  { apply no_writes_persist. left. reflexivity. }
  unfold begin_write_allowed. destruct H as [-> | ->]; simpl; auto. apply andb_false_r.
Qed.

Lemma failedish_keeps_flag : forall l s,
  d_failedish s -> d_recovery_on_disk s = true -> d_recovery_on_disk (drun s l) = true.
Proof.
  induction l as [|e l IH]; intros s H R; [exact R|]. simpl. apply IH.
  - apply dstep_failedish. exact H.
  - destruct s as [f a n r]. unfold d_failedish in H. simpl in *. subst r.
    destruct e as [| [|] | | fl]; simpl; auto.
    destruct H as [-> | [-> | ->]]; simpl; auto.
    + destruct f; simpl; auto.
    + destruct f, a; simpl; auto.
Qed.

(* after any failure the shutdown never records a clean close: recovery_required stays set in the
   file, so the next open repairs (the surviving storage is treated as a crash image) *)
Theorem failure_keeps_recovery_required : forall l1 e l2 s,
  d_recovery_on_disk s = true ->
  Forall (fun x => match x with DShutdown _ => False | _ => True end) l1 ->
  is_failure e = true ->
  d_recovery_on_disk (drun s (l1 ++ e :: l2)) = true.
Proof.
  intros l1 e l2 s R Hns He. unfold drun. rewrite fold_left_app. simpl.
  fold (drun s l1). fold (drun (dstep (drun s l1) e) l2).
  assert (R1 : d_recovery_on_disk (drun s l1) = true).
  { clear He. revert s R. induction l1 as [|x l1 IH]; intros s R; [exact R|].
    inversion Hns as [|y l Hx Hr]; subst. simpl. apply IH; auto.
    destruct s as [f a n r]. simpl in *. subst r. destruct x as [| [|] | | fl]; simpl; auto; contradiction. }
  apply failedish_keeps_flag.
  - apply failedish_after_failure. exact He.
  - destruct (drun s l1) as [f a n r]. simpl in *. subst r. destruct e as [| [|] | | fl]; simpl in *; auto; discriminate.
Qed.
