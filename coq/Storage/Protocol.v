(* C01 protocol model: the commit / recovery / close PROTOCOL of redb as a state machine that emits
   storage operations (Backend.op), in the order the code issues them.

   Mirrors  src/tree_store/page_store/page_manager.rs  TransactionalMemory::{commit, non_durable_commit,
            grow (set_len + sync before any header names the new length), try_shrink + the set_len after
            the final flush, begin_writable, clear_recovery_required, flush_shutdown_header, new (finalize)},
            src/tree_store/page_store/header.rs  {to_bytes, select_primary_slot},
            src/tree_store/page_store/cached_file.rs  flush (buffered page writes, then sync_data; a page may
            be written early by eviction: step PEvict, an oracle choice),
            src/db.rs  Database::new (quick path / do_repair + repair commit), close_database.

   The transaction layer is an ORACLE: a step receives the page writes (offset, bytes) of the transaction,
   the 128 bytes of the new commit slot, the byte ranges of the pages the new commit consists of, and the
   growth / shrink targets with the region counts the layout code computed for them.  The side conditions
   on these inputs (`step_okb`: copy-on-write w.r.t. the durable commit = C06's c06_fresh_not_pinned_*,
   lengths that map onto region layouts = C20/C14 layout arithmetic, increasing transaction ids) are
   hypotheses of the theorems in ProtocolP.v.

   The state carries the SUMMARY (Window.dsum) of the durable image at the last completed sync_data, so that
   every window the model emits comes with the summary the validator `window_okb` needs; ProtocolP.v proves
   that the validator accepts every emitted window and that the summaries are truthful (image_ok).
   Definitions only. *)
From RV Require Import Base.Bytes Gen.Consts Storage.Backend Storage.Header Storage.Window.

(* ---------- DatabaseHeader as a record, and DatabaseHeader::to_bytes ---------- *)

Record hdrm : Type := mkHdrm {
  hm_prim : bool;      (* primary_slot *)
  hm_rr : bool;        (* recovery_required *)
  hm_2pc : bool;       (* two_phase_commit *)
  hm_geom : bytes;     (* page size, region header pages, region max data pages (GEOM_LEN bytes, never change) *)
  hm_layout : bytes;   (* full regions, trailing region pages (LAYOUT_LEN bytes, rewritten on resize) *)
  hm_s0 : bytes;       (* transaction_slots[0].to_bytes()  (SLOT_LEN bytes; a corrupt slot verbatim) *)
  hm_s1 : bytes
}.

Definition god_of (p rr t : bool) : N :=
  (if p then PRIMARY_BIT else 0) + (if rr then RECOVERY_REQUIRED else 0) + (if t then TWO_PHASE_COMMIT else 0).
Definition hm_god (m : hdrm) : N := god_of (hm_prim m) (hm_rr m) (hm_2pc m).

(* bytes between the region counts and slot 0 (formerly the region tracker page): always zero *)
Definition PAD_LEN : nat := N.to_nat (TRANSACTION_0_OFFSET - NUM_FULL_REGIONS_OFFSET) - LAYOUT_LEN.

Definition enc_hdr (m : hdrm) : bytes :=
  MAGICNUMBER ++ [hm_god m; 0; 0] ++ hm_geom m ++ hm_layout m ++ repeat 0 PAD_LEN ++ hm_s0 m ++ hm_s1 m.

(* UnrepairedDatabaseHeader::from_bytes (fields only; the checks are Header.recover's) *)
Definition parse_hdr (h : bytes) : hdrm :=
  let g := hget h in
  mkHdrm (flag (god g) PRIMARY_BIT) (flag (god g) RECOVERY_REQUIRED) (flag (god g) TWO_PHASE_COMMIT)
         (geom_at g) (layout_at g) (slot_at g false) (slot_at g true).

Definition hm_slot (m : hdrm) (k : bool) : bytes := if k then hm_s1 m else hm_s0 m.
Definition set_slot (m : hdrm) (k : bool) (s : bytes) : hdrm :=
  if k then mkHdrm (hm_prim m) (hm_rr m) (hm_2pc m) (hm_geom m) (hm_layout m) (hm_s0 m) s
  else mkHdrm (hm_prim m) (hm_rr m) (hm_2pc m) (hm_geom m) (hm_layout m) s (hm_s1 m).
Definition set_layout (m : hdrm) (lay : bytes) : hdrm :=
  mkHdrm (hm_prim m) (hm_rr m) (hm_2pc m) (hm_geom m) lay (hm_s0 m) (hm_s1 m).
Definition set_rr (m : hdrm) (b : bool) : hdrm :=
  mkHdrm (hm_prim m) b (hm_2pc m) (hm_geom m) (hm_layout m) (hm_s0 m) (hm_s1 m).
(* swap_primary_slot *)
Definition swap_prim (m : hdrm) : hdrm :=
  mkHdrm (negb (hm_prim m)) (hm_rr m) (hm_2pc m) (hm_geom m) (hm_layout m) (hm_s0 m) (hm_s1 m).
(* swap_primary_slot; two_phase_commit = two  (the second half of TransactionalMemory::commit) *)
Definition promote (m : hdrm) (two : bool) : hdrm :=
  mkHdrm (negb (hm_prim m)) (hm_rr m) two (hm_geom m) (hm_layout m) (hm_s0 m) (hm_s1 m).

Definition hdr_write (m : hdrm) : op := Write 0 (enc_hdr m).
Definition page_writes (pages : list (N * bytes)) : list op := map (fun w => Write (fst w) (snd w)) pages.

(* ---------- protocol state ---------- *)

Record pst : Type := mkPst {
  p_d : dsum;          (* summary of the durable image at the last completed sync_data *)
  p_win : list op;     (* operations issued since then (the open sync window) *)
  p_mem : hdrm;        (* InMemoryState::header *)
  p_rfs : bool;        (* read_from_secondary: a non-durable commit is pending *)
  p_open : bool        (* a writable Database is open on the file *)
}.

(* file length after the operations of the open window *)
Definition cur_len (st : pst) : N := next_len (p_d st) (map abs (p_win st)).

(* what one step did: new state, the sync windows it completed (each with the summary of the durable
   image it started from), and the operations it issued, in order *)
Record acc : Type := mkAcc { a_st : pst; a_ws : list wrec; a_ops : list op }.

Definition a_start (st : pst) : acc := mkAcc st [] [].
Definition a_issue (a : acc) (ops : list op) : acc :=
  let st := a_st a in
  mkAcc (mkPst (p_d st) (p_win st ++ ops) (p_mem st) (p_rfs st) (p_open st)) (a_ws a) (a_ops a ++ ops).
(* sync_data: the open window is complete; d' summarises the durable image it produces *)
Definition a_sync (a : acc) (d' : dsum) : acc :=
  let st := a_st a in
  mkAcc (mkPst d' [] (p_mem st) (p_rfs st) (p_open st))
        (a_ws a ++ [mkWrec (p_d st) (p_win st) true]) (a_ops a ++ [Sync]).
Definition a_mem (a : acc) (m : hdrm) (rfs opn : bool) : acc :=
  let st := a_st a in mkAcc (mkPst (p_d st) (p_win st) m rfs opn) (a_ws a) (a_ops a).

(* the summary after a sync that wrote header m, leaving the served slot and its pages as they were *)
Definition d_same (st : pst) (m : hdrm) (vq : bool) (rq : option (list range)) : dsum :=
  mkDsum (enc_hdr m) (cur_len st) (d_p (p_d st)) (d_rp (p_d st)) vq rq.
(* the summary after a sync of page writes / set_len only *)
Definition d_keep (st : pst) : dsum :=
  mkDsum (d_hdr (p_d st)) (cur_len st) (d_p (p_d st)) (d_rp (p_d st)) (d_vq (p_d st)) None.

(* ---------- steps ---------- *)

Inductive pstep : Type :=
| PEvict (pages : list (N * bytes))
    (* cached_file.rs write(): buffered pages written early to stay within the cache budget *)
| PGrow (n : N) (lay : bytes)
    (* grow(): storage.resize(n); storage.sync_file(); header.set_layout *)
| PCommit (two : bool) (q : bytes) (rng : list range) (pages : list (N * bytes)) (shrink : option (N * bytes))
    (* commit(): q = the new secondary slot, rng = byte ranges of the pages of the new commit, pages = the
       buffered page writes the flush issues, shrink = try_shrink's new length and region counts *)
| PNonDurable (q : bytes)
    (* non_durable_commit(): in-memory secondary slot only *)
| PClose (q : bytes) (rng : list range) (pages : list (N * bytes)) (shrink : option (N * bytes))
    (* close_database: quick-repair commit (2PC, ShrinkPolicy::Maximum); flush_shutdown_header *)
| POpen.
    (* Database::new on a cleanly closed file with a valid allocator state table: begin_writable *)

(* TransactionalMemory::commit *)
Definition run_commit (a : acc) (two : bool) (q : bytes) (rng : list range) (pages : list (N * bytes))
           (shrink : option (N * bytes)) : acc :=
  let m := p_mem (a_st a) in
  let d := p_d (a_st a) in
  let m0 := match shrink with Some (_, lay) => set_layout m lay | None => m end in
  let sec := negb (hm_prim m0) in
  let m1 := set_slot m0 sec q in          (* write_secondary_slot; write_header *)
  let m2 := promote m1 two in             (* swap_primary_slot; two_phase_commit = two; write_header *)
  let fin (b : acc) : acc :=
    let b' := match shrink with Some (n, _) => a_issue b [SetLen n] | None => b end in
    a_mem b' m2 false (p_open (a_st b')) in
  if two then
    let a1 := a_issue a (page_writes pages ++ [hdr_write m1]) in
    (* the image after the first flush: a primary written by a 1PC commit does not shadow the newer,
       complete secondary, so recovery already serves the new commit; a trusted 2PC primary does *)
    let d1 := if hm_2pc m then mkDsum (enc_hdr m1) (cur_len (a_st a1)) (d_p d) (d_rp d) true (Some rng)
              else mkDsum (enc_hdr m1) (cur_len (a_st a1)) sec rng true None in
    let a2 := a_sync a1 d1 in
    let a3 := a_issue a2 [hdr_write m2] in
    fin (a_sync a3 (mkDsum (enc_hdr m2) (cur_len (a_st a3)) sec rng true None))
  else
    let a1 := a_issue a (page_writes pages ++ [hdr_write m2]) in
    fin (a_sync a1 (mkDsum (enc_hdr m2) (cur_len (a_st a1)) sec rng true None)).

(* begin_writable *)
Definition run_begin_writable (a : acc) : acc :=
  let m := set_rr (p_mem (a_st a)) true in
  let a1 := a_issue a [hdr_write m] in
  a_mem (a_sync a1 (d_same (a_st a1) m (d_vq (p_d (a_st a1))) None)) m (p_rfs (a_st a1)) true.

Definition run_step (st : pst) (s : pstep) : acc :=
  let a := a_start st in
  match s with
  | PEvict pages => a_issue a (page_writes pages)
  | PGrow n lay =>
      let a1 := a_issue a [SetLen n] in
      a_mem (a_sync a1 (d_keep (a_st a1))) (set_layout (p_mem st) lay) (p_rfs st) (p_open st)
  | PCommit two q rng pages shrink => run_commit a two q rng pages shrink
  | PNonDurable q =>
      a_mem a (set_slot (p_mem st) (negb (hm_prim (p_mem st))) q) true (p_open st)
  | PClose q rng pages shrink =>
      let a1 := run_commit a true q rng pages shrink in
      (* flush_shutdown_header: storage.flush() (makes the shrinking set_len durable), then the clean flag *)
      let a2 := a_sync a1 (d_keep (a_st a1)) in
      let m := set_rr (p_mem (a_st a2)) false in
      let a3 := a_issue a2 [hdr_write m] in
      a_mem (a_sync a3 (d_same (a_st a3) m (d_vq (p_d (a_st a3))) None)) m false false
  | POpen => run_begin_writable a
  end.

Fixpoint run_steps (st : pst) (ss : list pstep) : acc :=
  match ss with
  | [] => a_start st
  | s :: r =>
      let a := run_step st s in
      let b := run_steps (a_st a) r in
      mkAcc (a_st b) (a_ws a ++ a_ws b) (a_ops a ++ a_ops b)
  end.

(* every window of a run, the still open one included (a crash can strike there too) *)
Definition open_window (st : pst) : wrec := mkWrec (p_d st) (p_win st) true.
Definition all_windows (a : acc) : list wrec := a_ws a ++ [open_window (a_st a)].

(* ---------- side conditions on the oracle inputs (executable) ---------- *)

Definition SLOT_LEN_N : N := TRANSACTION_SIZE.
Definition slot_wfb (s : bytes) : bool :=
  (length s =? SLOT_LEN)%nat && (slot_version s =? FILE_FORMAT_VERSION3).
Definition hm_wfb (m : hdrm) : bool :=
  (length (hm_geom m) =? GEOM_LEN)%nat && (length (hm_layout m) =? LAYOUT_LEN)%nat
  && slot_wfb (hm_s0 m) && slot_wfb (hm_s1 m).

(* a page write: beyond the header, and outside every page of the durable commit (copy-on-write) *)
Definition page_okb (rp : list range) (w : N * bytes) : bool :=
  (DB_HEADER_SIZE <=? fst w)
  && forallb (fun r : range => disjointb (fst w) (wlen (snd w)) (fst r) (snd r)) rp.
Definition pages_okb (rp : list range) (pages : list (N * bytes)) : bool := forallb (page_okb rp) pages.
Definition within (rs : list range) (l : N) : bool := forallb (fun r : range => fst r + snd r <=? l) rs.
(* a file length: covers the header and maps exactly onto a region layout of this database *)
Definition len_okb (d : dsum) (l : N) : bool :=
  let g := hget (d_hdr d) in
  (DB_HEADER_SIZE <=? l) && len_valid (page_size_of g) (rhp_of g) (rmp_of g) l.
(* region counts `lay` describe a file of length l (what DatabaseLayout computes; C20's arithmetic) *)
Definition lay_okb (m : hdrm) (lay : bytes) (l : N) : bool :=
  let g := hget (enc_hdr (set_layout m lay)) in
  (length lay =? LAYOUT_LEN)%nat && stored_sane g && (stored_len g =? l).

Definition commit_okb (st : pst) (q : bytes) (rng : list range) (pages : list (N * bytes))
           (shrink : option (N * bytes)) : bool :=
  let d := p_d st in
  let m := p_mem st in
  slot_wfb q
  && (slot_txid (hm_slot m (hm_prim m)) <? slot_txid q)          (* the assert! in commit() *)
  && pages_okb (d_rp d) pages                                     (* cow_ok *)
  && within rng (cur_len st)
  && match shrink with
     | None => true
     | Some (n, lay) => len_okb d n && within rng n && lay_okb m lay n
     end.

Definition step_okb (st : pst) (s : pstep) : bool :=
  match s with
  | PEvict pages => p_open st && pages_okb (d_rp (p_d st)) pages
  | PGrow n lay => p_open st && len_okb (p_d st) n && (cur_len st <=? n) && lay_okb (p_mem st) lay n
  | PCommit _ q rng pages shrink => p_open st && commit_okb st q rng pages shrink
  | PNonDurable q => p_open st && slot_wfb q
  | PClose q rng pages shrink => p_open st && commit_okb st q rng pages shrink
  | POpen => negb (p_open st)
  end.

Fixpoint steps_okb (st : pst) (ss : list pstep) : bool :=
  match ss with
  | [] => true
  | s :: r => step_okb st s && steps_okb (a_st (run_step st s)) r
  end.

(* ---------- the invariant of protocol states (executable) ---------- *)

Definition dh (st : pst) : N -> N := hget (d_hdr (p_d st)).

(* the slot recovery does not serve is checksum-invalid, older than the served one, or a copy of it:
   a god byte that names it can never make recovery serve it *)
Definition qsafeb (d : dsum) : bool :=
  negb (d_vq d) || (slot_txid (dQ d) <? slot_txid (dP d)) || bytes_eqb (dQ d) (dP d).

(* the operations of the open window: page writes (copy-on-write) and set_len to valid lengths that keep
   the served commit inside the file *)
Definition win_okb (d : dsum) (w : list op) : bool :=
  forallb (fun o => match o with
                    | Write off data => page_okb (d_rp d) (off, data)
                    | SetLen n => len_okb d n && within (d_rp d) n
                    | Sync => false
                    end) w.

Definition inv_b (st : pst) : bool :=
  let d := p_d st in
  let m := p_mem st in
  (length (d_hdr d) =? HDR_LEN)%nat
  && bytes_eqb (magic_at (dh st)) MAGICNUMBER
  && hm_wfb m
  (* the header on disk is the one in memory, up to the secondary slot (non-durable commits) and the
     region counts (grow / try_shrink before the next commit) *)
  && (dgod d =? hm_god m) && bytes_eqb (geom_at (dh st)) (hm_geom m)
  && Bool.eqb (d_p d) (hm_prim m) && bytes_eqb (dP d) (hm_slot m (hm_prim m))
  && slot_wfb (dQ d)
  && Bool.eqb (hm_rr m) (p_open st)
  && qsafeb d && match d_rq d with None => true | Some _ => false end
  && win_okb d (p_win st) && len_okb d (d_len d) && within (d_rp d) (d_len d)
  && lay_okb m (hm_layout m) (cur_len st)
  (* closed: nothing pending, and the header on disk is the one in memory *)
  && (p_open st || (match p_win st with [] => true | _ => false end
                    && bytes_eqb (layout_at (dh st)) (hm_layout m)
                    && bytes_eqb (dQ d) (hm_slot m (negb (hm_prim m))) && negb (p_rfs st))).

(* ---------- recovery: TransactionalMemory::new + Database::new on a crash image ---------- *)

Record roracle : Type := mkRo {
  ro_lay : bytes;      (* layout_from_file_len(file length): the recomputed region counts *)
  ro_quick : bool;     (* the trusted 2PC primary holds a valid allocator state table (quick repair) *)
  ro_q : bytes         (* the slot of the repair commit (recounted roots, next transaction id) *)
}.

(* UnrepairedDatabaseHeader::select_primary_slot; cp / cs = checksum of the primary / secondary is valid *)
Definition select_primary (m : hdrm) (cp cs : bool) : option hdrm :=
  let prim := hm_slot m (hm_prim m) in
  let sec := hm_slot m (negb (hm_prim m)) in
  if hm_2pc m then
    (if cp then Some (if slot_txid sec <? slot_txid prim then m else set_slot m (negb (hm_prim m)) prim)
     else None)
  else if negb cp then (if cs then Some (swap_prim m) else None)
  else if (slot_txid prim <? slot_txid sec) && cs then Some (swap_prim m)
  else Some m.

(* TransactionalMemory::new: the repaired header m1 is written (and synced) before anything else, if the
   image requires recovery; slot Q changes only when the 2PC primary is trusted and a not-older secondary is
   replaced by a copy of it (then it is valid) *)
Definition rec_finalize (d : dsum) (m1 : hdrm) (rr : bool) : acc :=
  let a0 := a_start (mkPst d [] m1 false false) in
  if rr then
    let q_changed := negb (bytes_eqb (hm_slot m1 (negb (d_p d))) (dQ d)) in
    let b := a_issue a0 [hdr_write m1] in
    a_sync b (d_same (a_st b) m1 (if q_changed then true else d_vq d) None)
  else a0.

(* slot Q's checksum bit after a header write m: unchanged bytes keep it; the slot recovery may write over Q
   outside a commit is the copy of the (valid) primary that erases a rolled back commit *)
Definition vq_after (d : dsum) (m : hdrm) : bool :=
  if bytes_eqb (hm_slot m (negb (d_p d))) (dQ d) then d_vq d else true.

(* Database::new, quick path: load_allocator_state clears recovery_required in memory; begin_writable *)
Definition rec_quick (a1 : acc) (m1 : hdrm) : acc :=
  let a := a_mem a1 (set_rr m1 false) false false in
  let m := set_rr (p_mem (a_st a)) true in
  let b := a_issue a [hdr_write m] in
  a_mem (a_sync b (d_same (a_st b) m (vq_after (p_d (a_st a)) m) None)) m false true.

(* Database::new, full repair with the verifying primary m2: clear_recovery_required; the repair commit
   (two-phase, ShrinkPolicy::Never, no page writes, the pages of the served commit); begin_writable *)
Definition rec_full (a1 : acc) (m2 : hdrm) (q : bytes) (rng : list range) : acc :=
  let a1' := a_mem a1 m2 false false in          (* repair_primary_corrupted: in memory only *)
  let m3 := set_rr m2 false in
  let a2 := a_issue a1' [hdr_write m3] in
  let a3 := a_mem (a_sync a2 (d_same (a_st a2) m3 (vq_after (p_d (a_st a1')) m3) None)) m3 false false in
  run_begin_writable (run_commit a3 true q rng [] None).

Definition recovery_run (d : dsum) (o : roracle) : option acc :=
  let g := hget (d_hdr d) in
  let m0 := parse_hdr (d_hdr d) in
  let cks (k : bool) := if Bool.eqb k (d_p d) then true else d_vq d in
  (* a clean header whose region counts do not match the file (external resize) is outside the model *)
  if negb (hm_rr m0) && negb (stored_len g =? d_len d) then None else
  let m0' := if hm_rr m0 then set_layout m0 (ro_lay o) else m0 in
  match select_primary m0' (cks (hm_prim m0)) (cks (negb (hm_prim m0))) with
  | None => None
  | Some m1 =>
      let a1 := rec_finalize d m1 (hm_rr m0) in
      if hm_2pc m1 && ro_quick o then Some (rec_quick a1 m1)
      else
        (* do_repair: the primary that does not verify is swapped out (never under 2PC) *)
        if Bool.eqb (hm_prim m1) (d_p d) then Some (rec_full a1 m1 (ro_q o) (d_rp d))
        else if hm_2pc m1 then None
        else Some (rec_full a1 (swap_prim m1) (ro_q o) (d_rp d))
  end.

(* what every truthful summary of a recoverable image offers (ProtocolP.image_ok_rec_hdr): header length,
   magic, version bytes, and a two-phase primary that is the served slot *)
Definition rec_hdr_okb (d : dsum) : bool :=
  let g := hget (d_hdr d) in
  let m0 := parse_hdr (d_hdr d) in
  (length (d_hdr d) =? HDR_LEN)%nat && bytes_eqb (magic_at g) MAGICNUMBER
  && slot_wfb (dP d) && slot_wfb (dQ d)
  && (negb (hm_2pc m0) || Bool.eqb (d_p d) (hm_prim m0)).

(* side conditions of a recovery run: a valid length, the served pages inside the file, no claim about
   slot Q's pages, byte-identical slots summarised with the primary as the served one, a clean header whose
   region counts describe the file; and the oracle inputs (the repair commit's slot with the next
   transaction id, the region counts recomputed from the file length) *)
Definition rec_side_okb (d : dsum) (o : roracle) : bool :=
  let g := hget (d_hdr d) in
  let m0 := parse_hdr (d_hdr d) in
  len_okb d (d_len d) && within (d_rp d) (d_len d)
  && match d_rq d with None => true | Some _ => false end
  && slot_wfb (ro_q o) && (slot_txid (dP d) <? slot_txid (ro_q o))
  && (if hm_rr m0 then lay_okb m0 (ro_lay o) (d_len d) else stored_sane g && (stored_len g =? d_len d))
  && (negb (bytes_eqb (dP d) (dQ d)) || Bool.eqb (d_p d) (hm_prim m0)).

Definition rec_okb (d : dsum) (o : roracle) : bool := rec_hdr_okb d && rec_side_okb d o.

(* ---------- the same protocol with its ordering broken (for negative examples) ---------- *)

(* 2PC without the intermediate sync_data: `if two_phase { flush }` gone, so the two header writes coalesce
   in the write buffer and ONE header write carries the new slot, the flipped primary bit and the 2PC flag *)
Definition run_commit_no_mid_sync (a : acc) (q : bytes) (rng : list range) (pages : list (N * bytes)) : acc :=
  let m := p_mem (a_st a) in
  let sec := negb (hm_prim m) in
  let m2 := promote (set_slot m sec q) true in
  let a1 := a_issue a (page_writes pages ++ [hdr_write m2]) in
  a_mem (a_sync a1 (mkDsum (enc_hdr m2) (cur_len (a_st a1)) sec rng true None)) m2 false true.

(* 1PC with the shrinking set_len issued before the final sync_data *)
Definition run_commit_early_shrink (a : acc) (q : bytes) (rng : list range) (pages : list (N * bytes))
           (n : N) (lay : bytes) : acc :=
  let m := set_layout (p_mem (a_st a)) lay in
  let sec := negb (hm_prim m) in
  let m2 := promote (set_slot m sec q) false in
  let a1 := a_issue a (page_writes pages ++ [hdr_write m2; SetLen n]) in
  a_mem (a_sync a1 (mkDsum (enc_hdr m2) (cur_len (a_st a1)) sec rng true None)) m2 false true.
