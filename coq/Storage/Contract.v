(* C20 -- StorageBackend contract monitor (definitions only; proofs in ContractP.v).

   A trace is the list of calls redb made on one `StorageBackend` object, in order, each with the
   result the backend returned (true = Ok).  The monitor state is (current length, closed?); the
   mode `ro` says whether the backend was handed to a read-only open.

   Rules (src/db.rs `trait StorageBackend` docs + property C20):
     - read/write need off+len <= current length (also when the backend answered Err: the call
       itself is the violation);
     - the length changes only by a successful set_len;
     - nothing at all after close;  a complete trace ends with the single close;
     - read-only  =>  no write / set_len / sync_data.                                             *)
From Coq Require Import List NArith Bool.
Import ListNotations.
Open Scope N_scope.

Inductive call :=
| CLen
| CRead (off len : N)
| CWrite (off len : N)
| CSetLen (n : N)
| CSync
| CClose.

Definition event := (call * bool)%type.

Record mstate := mkM { m_len : N; m_closed : bool }.

Definition m_init (len0 : N) : mstate := mkM len0 false.

Definition mutating (c : call) : bool :=
  match c with CWrite _ _ | CSetLen _ | CSync => true | _ => false end.

Definition is_close (c : call) : bool := match c with CClose => true | _ => false end.

Definition call_in_bounds (len : N) (c : call) : bool :=
  match c with CRead o l | CWrite o l => o + l <=? len | _ => true end.

(* length after an event *)
Definition upd_len (len : N) (e : event) : N :=
  match e with (CSetLen n, true) => n | _ => len end.

Definition step_okb (ro : bool) (s : mstate) (e : event) : bool :=
  negb (m_closed s) && negb (ro && mutating (fst e)) && call_in_bounds (m_len s) (fst e).

Definition step_next (s : mstate) (e : event) : mstate :=
  mkM (upd_len (m_len s) e) (m_closed s || is_close (fst e)).

Fixpoint run_okb (ro : bool) (s : mstate) (tr : list event) : option mstate :=
  match tr with
  | [] => Some s
  | e :: r => if step_okb ro s e then run_okb ro (step_next s e) r else None
  end.

(* no violation so far (the backend may still be open) *)
Definition prefix_okb (ro : bool) (len0 : N) (tr : list event) : bool :=
  match run_okb ro (m_init len0) tr with Some _ => true | None => false end.

(* complete trace: no violation and the backend ended closed *)
Definition contract_okb (ro : bool) (len0 : N) (tr : list event) : bool :=
  match run_okb ro (m_init len0) tr with Some s => m_closed s | None => false end.

(* diagnostics for replays: index of the first offending event *)
Fixpoint first_bad (ro : bool) (s : mstate) (tr : list event) (i : N) : option N :=
  match tr with
  | [] => None
  | e :: r => if step_okb ro s e then first_bad ro (step_next s e) r (i + 1) else Some i
  end.

(* ---- declarative specification, independent of the automaton ---- *)

Definition len_after (len0 : N) (tr : list event) : N := fold_left upd_len tr len0.
Definition len_before (len0 : N) (tr : list event) (i : nat) : N := len_after len0 (firstn i tr).

Definition no_close (tr : list event) : Prop := forall e, In e tr -> is_close (fst e) = false.

Record Safe (ro : bool) (len0 : N) (tr : list event) : Prop := mkSafe {
  (* every read and write lies inside the length current at that moment *)
  s_bounds : forall i c ok, nth_error tr i = Some (c, ok) ->
             call_in_bounds (len_before len0 tr i) c = true;
  (* a close, if any, is the last event (so: at most one close, nothing after it) *)
  s_close_last : forall i ok, nth_error tr i = Some (CClose, ok) -> S i = length tr;
  (* a read-only backend sees only len/read/close *)
  s_read_only : ro = true -> forall e, In e tr -> mutating (fst e) = false
}.

Record Contract (ro : bool) (len0 : N) (tr : list event) : Prop := mkContract {
  c_safe : Safe ro len0 tr;
  (* close is called, exactly once, as the very last call *)
  c_closed : exists tr' ok, tr = tr' ++ [(CClose, ok)] /\ no_close tr'
}.

(* ---- the close hand-off between Database::drop and the end of a live write transaction ----
   (src/transaction_tracker.rs: defer_close_if_write_transaction_live / end_write_transaction,
    src/db.rs: Drop for Database, TransactionGuard::drop, close_database).
   Every step below is one critical section of the tracker mutex.                            *)

Inductive hevent :=
| HBeginWrite      (* start_write_transaction succeeded (needs: no live writer) *)
| HEndWrite        (* TransactionGuard::drop of the write guard: end_write_transaction *)
| HDropDb.         (* Drop for Database: defer_close_if_write_transaction_live *)

Record hstate := mkH {
  h_db_alive : bool;       (* the Database value has not been dropped *)
  h_live_write : bool;     (* State::live_write_transaction.is_some() *)
  h_deferred : bool;       (* State::deferred_close.is_some() *)
  h_closes : N             (* how many times close_database ran *)
}.

Definition h_init : hstate := mkH true false false 0.

(* None = the event cannot happen in this state (typing of the API: begin_write needs &Database
   and blocks while a writer is live; a guard is dropped once; the Database is dropped once) *)
Definition hstep (s : hstate) (e : hevent) : option hstate :=
  match e with
  | HBeginWrite =>
      if h_db_alive s && negb (h_live_write s)
      then Some (mkH true true (h_deferred s) (h_closes s)) else None
  | HEndWrite =>
      if h_live_write s
      then Some (mkH (h_db_alive s) false false
                     (if h_deferred s then h_closes s + 1 else h_closes s))
      else None
  | HDropDb =>
      if h_db_alive s
      then (if h_live_write s
            then Some (mkH false true true (h_closes s))
            else Some (mkH false false (h_deferred s) (h_closes s + 1)))
      else None
  end.

Fixpoint hrun (s : hstate) (l : list hevent) : option hstate :=
  match l with
  | [] => Some s
  | e :: r => match hstep s e with Some s' => hrun s' r | None => None end
  end.

(* everything has been dropped *)
Definition h_quiescent (s : hstate) : bool := negb (h_db_alive s) && negb (h_live_write s).
