(* C20 -- proofs about the shutdown / close hand-off model of Shutdown.v *)
From Coq Require Import List NArith Bool Lia.
Import ListNotations.
From RV Require Import Storage.Contract Storage.ContractP Storage.Shutdown.
Open Scope N_scope.

(* ---------- traces made of non-close calls ---------- *)

Definition lenonly (tr : list event) : Prop := forall e, In e tr -> fst e = CLen.

Lemma lenonly_nil : lenonly [].
Proof. intros e []. Qed.

Lemma lenonly_app : forall a b, lenonly a -> lenonly b -> lenonly (a ++ b).
Proof. intros a b Ha Hb e Hin. apply in_app_or in Hin. destruct Hin; auto. Qed.

Lemma trace_of_app : forall a b, trace_of (a ++ b) = trace_of a ++ trace_of b.
Proof.
  induction a as [|t a IH]; intros b; simpl; [reflexivity|].
  destruct t; simpl; rewrite ?IH; reflexivity.
Qed.

Lemma run_lenonly : forall tr s,
  m_closed s = false -> lenonly tr -> run_okb false s tr = Some s.
Proof.
  induction tr as [|e r IH]; intros s Hc Hl; simpl; [reflexivity|].
  assert (He : fst e = CLen) by (apply Hl; left; reflexivity).
  destruct e as [c ok]. simpl in He. subst c.
  unfold step_okb. rewrite Hc. simpl.
  replace (step_next s (CLen, ok)) with s.
  - apply IH; auto. intros e Hin. apply Hl. right. exact Hin.
  - destruct s as [ln cl]. unfold step_next. simpl in *. subst cl. reflexivity.
Qed.

Lemma lenonly_prefix_ok : forall tr, lenonly tr -> prefix_okb false 0 tr = true.
Proof. intros tr H. unfold prefix_okb. rewrite run_lenonly; auto. Qed.

Lemma lenonly_close_contract_ok : forall tr ok,
  lenonly tr -> contract_okb false 0 (tr ++ [(CClose, ok)]) = true.
Proof.
  intros tr ok H. unfold contract_okb. rewrite run_app. rewrite run_lenonly; auto.
Qed.

Lemma contract_ok_prefix_ok : forall ro len0 tr,
  contract_okb ro len0 tr = true -> prefix_okb ro len0 tr = true.
Proof. exact contract_prefix. Qed.

(* ---------- storage calls through the latch ---------- *)

Lemma io_call_spec : forall b c b' l, io_call b c = (b', l) ->
  b_closed b' = b_closed b /\ b_gone b' = b_gone b /\ b_closes b' = b_closes b /\
  (b_closes b = 0 -> b_after b' = b_after b) /\
  (b_iof b = true -> b' = b /\ trace_of l = []) /\
  lenonly (trace_of l).
Proof.
  intros [iof cl g n a] [k ok] b' l H. unfold io_call in H. simpl in H.
  destruct iof.
  - inversion H; subst; clear H. simpl. repeat split; auto using lenonly_nil.
  - assert (Hl : lenonly (trace_of l)).
    { destruct k, ok; inversion H; subst; simpl; intros e [<-|[]]; reflexivity. }
    destruct k, ok; inversion H; subst; clear H; simpl;
      (repeat split; auto; try (intros ->; reflexivity); try discriminate).
Qed.

Lemma io_calls_spec : forall cs b b' l, io_calls b cs = (b', l) ->
  b_closed b' = b_closed b /\ b_gone b' = b_gone b /\ b_closes b' = b_closes b /\
  (b_closes b = 0 -> b_after b' = b_after b) /\
  (b_iof b = true -> b' = b /\ trace_of l = []) /\
  lenonly (trace_of l).
Proof.
  induction cs as [|c r IH]; intros b b' l H; simpl in H.
  - inversion H; subst. simpl. repeat split; auto using lenonly_nil.
  - destruct (io_call b c) as [b1 l1] eqn:E1. destruct (io_calls b1 r) as [b2 l2] eqn:E2.
    inversion H; subst; clear H.
    apply io_call_spec in E1. destruct E1 as (A1 & A2 & A3 & A4 & A5 & A6).
    apply IH in E2. destruct E2 as (B1 & B2 & B3 & B4 & B5 & B6).
    rewrite trace_of_app. repeat split; try congruence.
    + intros Hz. rewrite B4 by congruence. auto.
    + destruct (A5 H) as [-> _]. destruct (B5 H) as [-> _]. reflexivity.
    + destruct (A5 H) as [E T1]. subst b1. destruct (B5 H) as [_ T2]. rewrite T1, T2. reflexivity.
    + apply lenonly_app; auto.
Qed.

Lemma close_database_spec : forall b commit flush ok b' l,
  close_database b commit flush ok = (b', l) ->
  b_closes b' = b_closes b + 1 /\ b_closed b' = true /\ b_iof b' = true /\
  b_gone b' = b_gone b /\ (b_closes b = 0 -> b_after b' = b_after b) /\
  exists tr, trace_of l = tr ++ [(CClose, ok)] /\ lenonly tr.
Proof.
  intros b commit flush ok b' l H. unfold close_database in H.
  destruct (io_calls b commit) as [b1 l1] eqn:E1.
  destruct (io_calls b1 flush) as [b2 l2] eqn:E2.
  unfold wrapper_close in H. inversion H; subst; clear H. simpl.
  apply io_calls_spec in E1. destruct E1 as (A1 & A2 & A3 & A4 & _ & A6).
  apply io_calls_spec in E2. destruct E2 as (B1 & B2 & B3 & B4 & _ & B6).
  repeat split; try congruence.
  - intros Hz. rewrite B4 by congruence. auto.
  - exists (trace_of l1 ++ trace_of l2). rewrite !trace_of_app. simpl.
    rewrite app_assoc. split; [reflexivity|]. apply lenonly_app; auto.
Qed.

(* ---------- the invariant ---------- *)

(* no close by the Drop net *)
Definition not_net (t : ltok) : bool :=
  match t with LEnterDrop _ false => false | _ => true end.
Definition nonet (l : list ltok) : Prop := forallb not_net l = true.

Lemma nonet_app : forall a b, nonet a -> nonet b -> nonet (a ++ b).
Proof. unfold nonet. intros. rewrite forallb_app. rewrite H, H0. reflexivity. Qed.

Lemma nonet_app_inv : forall a b, nonet (a ++ b) -> nonet a /\ nonet b.
Proof. unfold nonet. intros a b H. rewrite forallb_app in H. apply andb_true_iff in H. exact H. Qed.

Lemma io_call_nonet : forall b c b' l, io_call b c = (b', l) -> nonet l.
Proof.
  intros b [k ok] b' l H. unfold io_call in H. simpl in H.
  destruct (b_iof b); inversion H; subst; reflexivity.
Qed.

Lemma io_calls_nonet : forall cs b b' l, io_calls b cs = (b', l) -> nonet l.
Proof.
  induction cs as [|c r IH]; intros b b' l H; simpl in H.
  - inversion H; subst; reflexivity.
  - destruct (io_call b c) as [b1 l1] eqn:E1. destruct (io_calls b1 r) as [b2 l2] eqn:E2.
    inversion H; subst. apply nonet_app; [eapply io_call_nonet|eapply IH]; eauto.
Qed.

Lemma close_database_nonet : forall b commit flush ok b' l,
  close_database b commit flush ok = (b', l) -> nonet l.
Proof.
  intros b commit flush ok b' l H. unfold close_database in H.
  destruct (io_calls b commit) as [b1 l1] eqn:E1.
  destruct (io_calls b1 flush) as [b2 l2] eqn:E2.
  unfold wrapper_close in H. inversion H; subst; clear H.
  apply nonet_app; [eapply io_calls_nonet; eauto|].
  apply nonet_app; [eapply io_calls_nonet; eauto|reflexivity].
Qed.

Inductive Inv : sstate -> list ltok -> Prop :=
(* not closed yet: before / during the open, Database alive, or its close deferred to the writer *)
| InvLive : forall o b l,
    b_after b = 0 -> b_closes b = 0 -> b_closed b = false -> b_gone b = false ->
    lenonly (trace_of l) -> nonet l ->
    (o_opened o = false ->
       o_db o = false /\ o_writer o = false /\ o_readers o = 0 /\ o_deferred o = false) ->
    (o_opened o = true ->
       (o_db o = true /\ o_deferred o = false) \/
       (o_db o = false /\ o_writer o = true /\ o_deferred o = true)) ->
    Inv (mkS o b) l
(* closed by close_database; reader handles may still exist *)
| InvClosed : forall o b l tr ok,
    o_opened o = true -> o_db o = false -> o_writer o = false -> o_deferred o = false ->
    b_after b = 0 -> b_closes b = 1 -> b_closed b = true -> b_iof b = true ->
    b_gone b = (o_readers o =? 0) ->
    trace_of l = tr ++ [(CClose, ok)] -> lenonly tr -> nonet l ->
    Inv (mkS o b) l
(* the open failed: closed by the Drop net *)
| InvFailed : forall o b l tr ok,
    o_opened o = false -> o_db o = false -> o_writer o = false -> o_readers o = 0 ->
    b_gone b = true -> b_after b = 0 -> b_closes b = 1 ->
    trace_of l = tr ++ [(CClose, ok)] -> lenonly tr ->
    Inv (mkS o b) l.

Lemma inv_new : Inv s_new [].
Proof.
  apply InvLive; simpl; auto using lenonly_nil; try reflexivity; try discriminate.
Qed.

Lemma app_nil_r' : forall (A : Type) (l : list A), l ++ [] = l.
Proof. intros. apply app_nil_r. Qed.

(* a successful session step from a live (not yet closed) state that ends in close_database *)
Lemma inv_after_close_database : forall o b l commit flush ok b1 l1 b2 l2,
  b_after b = 0 -> b_closes b = 0 -> b_closed b = false -> b_gone b = false ->
  lenonly (trace_of l) -> nonet l ->
  o_opened o = true -> o_db o = false -> o_writer o = false -> o_deferred o = false ->
  close_database b commit flush ok = (b1, l1) ->
  release o b1 ok = (b2, l2) ->
  Inv (mkS o b2) (l ++ l1 ++ l2).
Proof.
  intros o b l commit flush ok b1 l1 b2 l2 Ha Hc Hcl Hg Hl Hn Ho Hdb Hw Hd HC HR.
  pose proof (close_database_nonet _ _ _ _ _ _ HC) as Hn1.
  apply close_database_spec in HC. destruct HC as (C1 & C2 & C3 & C4 & C5 & tr & C6 & C7).
  unfold release, no_holder in HR. rewrite Hdb, Hw in HR. simpl in HR.
  rewrite C4, Hg in HR. simpl in HR. rewrite andb_true_r in HR.
  destruct (o_readers o =? 0) eqn:Er.
  - unfold wrapper_drop in HR. rewrite C2 in HR. inversion HR; subst; clear HR.
    assert (T : trace_of (l ++ l1 ++ [LEnterDrop (b_iof b1) true]) = (trace_of l ++ tr) ++ [(CClose, ok)]).
    { rewrite !trace_of_app, C6. simpl. rewrite app_nil_r, app_assoc. reflexivity. }
    assert (N1 : nonet (l ++ l1 ++ [LEnterDrop (b_iof b1) true])).
    { apply nonet_app; auto. apply nonet_app; auto. reflexivity. }
    assert (A : b_after b1 = 0) by (rewrite C5; auto).
    assert (K : b_closes b1 = 1) by lia.
    apply (InvClosed o _ _ (trace_of l ++ tr) ok); simpl; auto.
    apply lenonly_app; auto.
  - inversion HR; subst; clear HR.
    assert (T : trace_of (l ++ l1 ++ []) = (trace_of l ++ tr) ++ [(CClose, ok)]).
    { rewrite !trace_of_app, C6. simpl. rewrite app_nil_r, app_assoc. reflexivity. }
    assert (N1 : nonet (l ++ l1 ++ [])).
    { apply nonet_app; auto. apply nonet_app; auto. reflexivity. }
    assert (A : b_after b2 = 0) by (rewrite C5; auto).
    assert (K : b_closes b2 = 1) by lia.
    apply (InvClosed o _ _ (trace_of l ++ tr) ok); simpl; auto.
    + rewrite C4, Hg. auto.
    + apply lenonly_app; auto.
Qed.

Lemma inv_io_live : forall o b l cs b1 l1,
  Inv (mkS o b) l -> b_closes b = 0 -> b_gone b = false -> io_calls b cs = (b1, l1) ->
  Inv (mkS o b1) (l ++ l1).
Proof.
  intros o b l cs b1 l1 HI Hc Hg E.
  pose proof (io_calls_nonet _ _ _ _ E) as Hn1.
  apply io_calls_spec in E. destruct E as (A1 & A2 & A3 & A4 & _ & A6).
  inversion HI; subst; try lia; try congruence.
  apply InvLive; auto; try congruence.
  - rewrite A4; auto.
  - rewrite trace_of_app. apply lenonly_app; auto.
  - apply nonet_app; auto.
Qed.

Lemma inv_step : forall s l e s' l',
  Inv s l -> sstep s e = Some (s', l') -> Inv s' (l ++ l').
Proof.
  intros s l e s' l' HI H.
  destruct HI as [o b l Ha Hc Hcl Hg Hl Hn Hu Ho
                 | o b l tr ok Ho Hdb Hw Hd Ha Hc Hcl Hi Hg Ht Hl Hn
                 | o b l tr ok Ho Hdb Hw Hr Hg Ha Hc Ht Hl].
  - (* live *)
    assert (HI : Inv (mkS o b) l) by (apply InvLive; auto).
    destruct e as [cs ok cok| |cok|cs|cs|cs| |commit flush cok|commit flush cok]; simpl in H.
    + (* open *)
      destruct (o_opened o) eqn:Eo; simpl in H; [discriminate|]. rewrite Hg in H. simpl in H.
      destruct (Hu eq_refl) as (U1 & U2 & U3 & U4).
      destruct ok.
      * destruct (io_calls b cs) as [b1 l1] eqn:E. inversion H; subst; clear H.
        pose proof (inv_io_live _ _ _ _ _ _ HI Hc Hg E) as HI1.
        inversion HI1; subst; try (apply io_calls_spec in E; lia).
        apply InvLive; auto; simpl; try discriminate; intros _; left; split; auto.
      * unfold then_release in H. destruct (io_calls b cs) as [b1 l1] eqn:E.
        pose proof (io_calls_spec _ _ _ _ E) as (A1 & A2 & A3 & A4 & _ & A6).
        unfold release, no_holder in H. rewrite U1, U2, U3, A2, Hg in H. simpl in H.
        unfold wrapper_drop in H. rewrite A1, Hcl in H. inversion H; subst; clear H.
        eapply InvFailed with (tr := trace_of l ++ trace_of l1) (ok := cok); simpl; auto; try lia;
          try (rewrite A4; auto; fail);
          try (rewrite !trace_of_app; simpl; rewrite app_assoc; reflexivity);
          try (apply lenonly_app; auto).
    + (* begin read *)
      destruct (o_opened o) eqn:Eo; simpl in H; [|discriminate].
      destruct (o_db o || (0 <? o_readers o)); [|discriminate].
      inversion H; subst; clear H. rewrite app_nil_r.
      apply InvLive; auto; simpl; try (intro; discriminate); try congruence; try (intros _; apply Ho; auto).
    + (* end read *)
      destruct (0 <? o_readers o) eqn:Er; [|discriminate].
      assert (Eo : o_opened o = true).
      { destruct (o_opened o); auto. destruct (Hu eq_refl) as (_ & _ & U3 & _).
        rewrite U3 in Er. discriminate. }
      unfold then_release, release, no_holder in H. simpl in H.
      destruct (Ho Eo) as [[D1 D2]|[D1 [D2 D3]]].
      * rewrite D1 in H. simpl in H. inversion H; subst; clear H. simpl. rewrite app_nil_r.
        apply InvLive; auto; simpl; try (intro; discriminate); try congruence; try (intros _; left; auto).
      * rewrite D1, D2 in H. simpl in H. inversion H; subst; clear H. simpl. rewrite app_nil_r.
        apply InvLive; auto; simpl; try (intro; discriminate); try congruence; try (intros _; right; auto).
    + destruct (0 <? o_readers o); [|discriminate]. unfold io_step in H. simpl in H.
      destruct (io_calls b cs) as [b1 l1] eqn:E. inversion H; subst. eapply inv_io_live; eauto.
    + destruct (o_db o); [|discriminate]. unfold io_step in H. simpl in H.
      destruct (io_calls b cs) as [b1 l1] eqn:E. inversion H; subst. eapply inv_io_live; eauto.
    + destruct (o_writer o); [|discriminate]. unfold io_step in H. simpl in H.
      destruct (io_calls b cs) as [b1 l1] eqn:E. inversion H; subst. eapply inv_io_live; eauto.
    + (* begin write *)
      destruct (o_db o) eqn:Edb; simpl in H; [|discriminate].
      destruct (o_writer o) eqn:Ew; simpl in H; [discriminate|].
      inversion H; subst; clear H. rewrite app_nil_r.
      assert (Eo : o_opened o = true).
      { destruct (o_opened o); auto. destruct (Hu eq_refl) as (U1 & _). congruence. }
      destruct (Ho Eo) as [[D1 D2]|[D1 _]]; [|congruence].
      apply InvLive; auto; simpl; try (intro; discriminate); try congruence; try (intros _; left; auto).
    + (* end write *)
      destruct (o_writer o) eqn:Ew; [|discriminate].
      assert (Eo : o_opened o = true).
      { destruct (o_opened o); auto. destruct (Hu eq_refl) as (_ & U2 & _). congruence. }
      destruct (o_deferred o) eqn:Ed.
      * destruct (Ho Eo) as [[_ D2]|[D1 [_ _]]]; [congruence|].
        unfold then_release in H.
        destruct (close_database b commit flush cok) as [b1 l1] eqn:EC.
        destruct (release (with_writer o false false) b1 cok) as [b2 l2] eqn:ER.
        inversion H; subst; clear H.
        eapply inv_after_close_database; eauto.
      * destruct (Ho Eo) as [[D1 _]|[_ [_ D3]]]; [|congruence].
        unfold then_release, release, no_holder in H. simpl in H.
        rewrite D1 in H. simpl in H. inversion H; subst; clear H. rewrite app_nil_r.
        apply InvLive; auto; simpl; try (intro; discriminate); try congruence; try (intros _; left; auto).
    + (* drop db *)
      destruct (o_db o) eqn:Edb; [|discriminate].
      assert (Eo : o_opened o = true).
      { destruct (o_opened o); auto. destruct (Hu eq_refl) as (U1 & _). congruence. }
      destruct (Ho Eo) as [[_ D2]|[D1 _]]; [|congruence].
      destruct (o_writer o) eqn:Ew.
      * inversion H; subst; clear H. rewrite app_nil_r.
        apply InvLive; auto; simpl; try (intro; discriminate); try congruence; try (intros _; right; auto).
      * unfold then_release in H.
        destruct (close_database b commit flush cok) as [b1 l1] eqn:EC.
        destruct (release (with_db o false) b1 cok) as [b2 l2] eqn:ER.
        inversion H; subst; clear H.
        eapply inv_after_close_database; eauto.
  - (* closed *)
    destruct e as [cs ok' cok| |cok|cs|cs|cs| |commit flush cok|commit flush cok]; simpl in H;
      rewrite ?Ho, ?Hdb, ?Hw in H; simpl in H; try discriminate.
    + (* begin read *)
      destruct (0 <? o_readers o) eqn:Er; [|discriminate]. inversion H; subst; clear H.
      rewrite app_nil_r. apply N.ltb_lt in Er.
      eapply InvClosed with (tr := tr) (ok := ok); simpl; eauto.
      rewrite Hg. destruct (N.eqb_spec (o_readers o) 0); [lia|].
      destruct (N.eqb_spec (o_readers o + 1) 0); [lia|reflexivity].
    + (* end read *)
      destruct (0 <? o_readers o) eqn:Er; [|discriminate]. apply N.ltb_lt in Er.
      assert (Hg' : b_gone b = false).
      { rewrite Hg. destruct (N.eqb_spec (o_readers o) 0); [lia|reflexivity]. }
      unfold then_release, release, no_holder in H. simpl in H.
      rewrite Hdb, Hw, Hg' in H. simpl in H. rewrite andb_true_r in H.
      destruct (o_readers o - 1 =? 0) eqn:E1.
      * unfold wrapper_drop in H. rewrite Hcl in H. simpl in H. inversion H; subst; clear H.
        assert (T : trace_of (l ++ [LEnterDrop (b_iof b) true]) = tr ++ [(CClose, ok)]).
        { rewrite trace_of_app. simpl. rewrite app_nil_r. exact Ht. }
        assert (N1 : nonet (l ++ [LEnterDrop (b_iof b) true])).
        { apply nonet_app; auto. reflexivity. }
        apply (InvClosed _ _ _ tr ok); simpl; auto.
      * inversion H; subst; clear H. rewrite app_nil_r.
        apply (InvClosed _ _ _ tr ok); simpl; auto. congruence.
    + (* read io after close: refused *)
      destruct (0 <? o_readers o) eqn:Er; [|discriminate]. unfold io_step in H. simpl in H.
      destruct (io_calls b cs) as [b1 l1] eqn:E. inversion H; subst; clear H.
      pose proof (io_calls_nonet _ _ _ _ E) as Hn1.
      apply io_calls_spec in E. destruct E as (_ & _ & _ & _ & A5 & _).
      destruct (A5 Hi) as [-> T].
      eapply InvClosed with (tr := tr) (ok := ok); simpl; eauto.
      -- rewrite trace_of_app, T, app_nil_r. exact Ht.
      -- apply nonet_app; auto.
  - (* failed open: nothing can follow *)
    destruct e as [cs ok' cok| |cok|cs|cs|cs| |commit flush cok|commit flush cok]; simpl in H;
      rewrite ?Ho, ?Hdb, ?Hw, ?Hr, ?Hg in H; simpl in H; discriminate.
Qed.

Lemma inv_run : forall evs s l s' l',
  Inv s l -> srun s evs = Some (s', l') -> Inv s' (l ++ l').
Proof.
  induction evs as [|e r IH]; intros s l s' l' HI H; simpl in H.
  - inversion H; subst. rewrite app_nil_r. exact HI.
  - destruct (sstep s e) as [[s1 l1]|] eqn:E; [|discriminate].
    destruct (srun s1 r) as [[s2 l2]|] eqn:E2; [|discriminate].
    inversion H; subst; clear H. rewrite app_assoc. eapply IH; [|exact E2].
    eapply inv_step; eauto.
Qed.

Lemma inv_reach : forall evs s l, srun s_new evs = Some (s, l) -> Inv s l.
Proof. intros evs s l H. apply (inv_run _ _ _ _ _ inv_new H). Qed.

Lemma srun_app : forall a b s,
  srun s (a ++ b) =
  match srun s a with
  | Some (s1, l1) => match srun s1 b with Some (s2, l2) => Some (s2, l1 ++ l2) | None => None end
  | None => None
  end.
Proof.
  induction a as [|e a IH]; intros b s; simpl.
  - destruct (srun s b) as [[s2 l2]|]; reflexivity.
  - destruct (sstep s e) as [[s1 l1]|]; [|reflexivity]. rewrite IH.
    destruct (srun s1 a) as [[s2 l2]|]; [|reflexivity].
    destruct (srun s2 b) as [[s3 l3]|]; [|reflexivity]. rewrite app_assoc. reflexivity.
Qed.

Lemma srun_snoc : forall evs s0 s l e s' l',
  srun s0 evs = Some (s, l) -> sstep s e = Some (s', l') ->
  srun s0 (evs ++ [e]) = Some (s', l ++ l').
Proof.
  intros evs s0 s l e s' l' H Hs. rewrite srun_app, H. cbn [srun]. rewrite Hs.
  rewrite app_nil_r. reflexivity.
Qed.

(* ---------- the theorems ---------- *)

Ltac inv_cases H :=
  destruct H as [o b l Ha Hc Hcl Hg Hl Hn Hu Ho
                | o b l tr ok Ho Hdb Hw Hd Ha Hc Hcl Hi Hg Ht Hl Hn
                | o b l tr ok Ho Hdb Hw Hr Hg Ha Hc Ht Hl].

Lemma inv_facts : forall s l, Inv s l ->
  (o_db (s_o s) = true \/ o_writer (s_o s) = true ->
     o_opened (s_o s) = true /\ b_closes (s_b s) = 0 /\ b_closed (s_b s) = false /\
     b_gone (s_b s) = false /\
     (o_db (s_o s) = true -> o_deferred (s_o s) = false) /\
     (o_db (s_o s) = false -> o_deferred (s_o s) = true)) /\
  (o_opened (s_o s) = true -> o_db (s_o s) = false -> o_writer (s_o s) = false ->
     b_closes (s_b s) = 1 /\ b_closed (s_b s) = true /\ b_iof (s_b s) = true) /\
  b_after (s_b s) = 0 /\ (b_closes (s_b s) = 0 \/ b_closes (s_b s) = 1).
Proof.
  intros s l H. inv_cases H; simpl.
  - split; [|split; [|split; auto]].
    + intros Hor.
      assert (Eo : o_opened o = true).
      { destruct (o_opened o); auto. destruct (Hu eq_refl) as (U1 & U2 & _).
        destruct Hor; congruence. }
      destruct (Ho Eo) as [[D1 D2]|[D1 [D2 D3]]]; repeat split; auto; congruence.
    + intros Eo Hdb Hw. destruct (Ho Eo) as [[D _]|[_ [D _]]]; congruence.
  - split; [|split; [|split; auto]].
    + intros [X|X]; congruence.
    + auto.
  - split; [|split; [|split; auto]].
    + intros [X|X]; congruence.
    + congruence.
Qed.

(* close() has been called exactly once as soon as the Database is dropped and no write transaction
   is live -- whatever readers exist, whatever failed *)
Theorem closed_by_closing_event : forall evs s l,
  srun s_new evs = Some (s, l) ->
  o_opened (s_o s) = true -> o_db (s_o s) = false -> o_writer (s_o s) = false ->
  b_closes (s_b s) = 1 /\ b_closed (s_b s) = true /\ b_iof (s_b s) = true.
Proof.
  intros evs s l H Ho Hdb Hw. apply inv_reach in H. apply inv_facts in H.
  destruct H as (_ & F & _). auto.
Qed.

(* ... and not before: 0 calls while the Database or the write transaction deferring its close is alive *)
Theorem not_closed_before : forall evs s l,
  srun s_new evs = Some (s, l) ->
  o_db (s_o s) = true \/ o_writer (s_o s) = true ->
  b_closes (s_b s) = 0 /\ b_closed (s_b s) = false /\ b_gone (s_b s) = false.
Proof.
  intros evs s l H Hor. apply inv_reach in H. apply inv_facts in H.
  destruct H as (F & _). destruct (F Hor) as (_ & A & B & C & _). auto.
Qed.

(* the step that closes: Drop for Database without a live writer, for every outcome *)
Theorem drop_db_closes : forall evs s l commit flush cok s' l',
  srun s_new evs = Some (s, l) -> o_writer (s_o s) = false ->
  sstep s (SDropDb commit flush cok) = Some (s', l') ->
  b_closes (s_b s) = 0 /\ b_closes (s_b s') = 1.
Proof.
  intros evs s l commit flush cok s' l' H Hw Hs.
  pose proof (srun_snoc _ _ _ _ _ _ _ H Hs) as H2.
  assert (Hdb : o_db (s_o s) = true).
  { simpl in Hs. destruct (o_db (s_o s)); [reflexivity|discriminate]. }
  destruct (not_closed_before _ _ _ H (or_introl Hdb)) as (C0 & _).
  split; [exact C0|].
  pose proof (inv_facts _ _ (inv_reach _ _ _ H)) as (F & _).
  destruct (F (or_introl Hdb)) as (Ho & _).
  simpl in Hs. rewrite Hdb, Hw in Hs. unfold then_release in Hs.
  destruct (close_database (s_b s) commit flush cok) as [b1 l1] eqn:EC.
  destruct (release (with_db (s_o s) false) b1 cok) as [b2 l2] eqn:ER.
  inversion Hs; subst; clear Hs.
  apply (closed_by_closing_event _ _ _ H2); simpl; auto.
Qed.

(* the step that closes when the Database was dropped under a live writer: the end of that writer *)
Theorem end_of_deferring_writer_closes : forall evs s l commit flush cok,
  srun s_new evs = Some (s, l) -> o_db (s_o s) = false -> o_writer (s_o s) = true ->
  exists s' l', sstep s (SEndWrite commit flush cok) = Some (s', l') /\
                b_closes (s_b s) = 0 /\ b_closes (s_b s') = 1.
Proof.
  intros evs s l commit flush cok H Hdb Hw.
  destruct (not_closed_before _ _ _ H (or_intror Hw)) as (C0 & _).
  pose proof (inv_facts _ _ (inv_reach _ _ _ H)) as (F & _).
  destruct (F (or_intror Hw)) as (Ho & _ & _ & _ & _ & Hd). specialize (Hd Hdb).
  destruct (sstep s (SEndWrite commit flush cok)) as [[s' l']|] eqn:Hs.
  - exists s', l'. split; [reflexivity|]. split; [exact C0|].
    pose proof (srun_snoc _ _ _ _ _ _ _ H Hs) as H2.
    simpl in Hs. rewrite Hw, Hd in Hs. unfold then_release in Hs.
    destruct (close_database (s_b s) commit flush cok) as [b1 l1] eqn:EC.
    destruct (release (with_writer (s_o s) false false) b1 cok) as [b2 l2] eqn:ER.
    inversion Hs; subst; clear Hs.
    apply (closed_by_closing_event _ _ _ H2); simpl; auto.
  - simpl in Hs. rewrite Hw in Hs. destruct (o_deferred (s_o s)); discriminate.
Qed.

(* never twice; nothing reaches the backend after the close *)
Theorem at_most_once_nothing_after : forall evs s l,
  srun s_new evs = Some (s, l) ->
  (b_closes (s_b s) = 0 \/ b_closes (s_b s) = 1) /\ b_after (s_b s) = 0.
Proof.
  intros evs s l H. apply inv_reach in H. apply inv_facts in H.
  destruct H as (_ & _ & A & B). auto.
Qed.

(* the same on the emitted stream, through the verified contract monitor: no violation so far ... *)
Theorem emitted_trace_safe : forall evs s l,
  srun s_new evs = Some (s, l) -> prefix_okb false 0 (trace_of l) = true.
Proof.
  intros evs s l H. apply inv_reach in H. inv_cases H.
  - apply lenonly_prefix_ok; auto.
  - rewrite Ht. apply contract_prefix. apply lenonly_close_contract_ok; auto.
  - rewrite Ht. apply contract_prefix. apply lenonly_close_contract_ok; auto.
Qed.

(* ... and from the closing event on the trace is complete: exactly one close, the last call *)
Theorem emitted_trace_complete : forall evs s l,
  srun s_new evs = Some (s, l) ->
  (o_opened (s_o s) = true /\ o_db (s_o s) = false /\ o_writer (s_o s) = false) \/
  (o_opened (s_o s) = false /\ b_gone (s_b s) = true) ->
  contract_okb false 0 (trace_of l) = true.
Proof.
  intros evs s l H Hq. apply inv_reach in H. inv_cases H; simpl in *.
  - exfalso. destruct Hq as [(A & B & C)|(A & B)]; [|congruence].
    destruct (Ho A) as [[D _]|[_ [D _]]]; congruence.
  - rewrite Ht. apply lenonly_close_contract_ok; auto.
  - rewrite Ht. apply lenonly_close_contract_ok; auto.
Qed.

(* readers after the close: every storage call is refused (DatabaseClosed), nothing is emitted *)
Theorem readers_refused_after_close : forall evs s l cs s' l',
  srun s_new evs = Some (s, l) -> b_closes (s_b s) = 1 ->
  sstep s (SReadIo cs) = Some (s', l') ->
  s' = s /\ trace_of l' = [] /\ b_iof (s_b s) = true /\ b_closed (s_b s) = true.
Proof.
  intros evs s l cs s' l' H Hc1 Hs. apply inv_reach in H.
  inv_cases H; simpl in *; try lia.
  - destruct (0 <? o_readers o); [|discriminate]. unfold io_step in Hs. simpl in Hs.
    destruct (io_calls b cs) as [b1 l1] eqn:E. inversion Hs; subst; clear Hs.
    apply io_calls_spec in E. destruct E as (_ & _ & _ & _ & A5 & _).
    destruct (A5 Hi) as [-> T]. auto.
  - rewrite Hr in Hs. discriminate.
Qed.

(* once a Database exists, the close is the explicit one: the Drop net of CheckedBackend never closes *)
Theorem net_never_closes_after_open : forall evs s l,
  srun s_new evs = Some (s, l) -> o_opened (s_o s) = true ->
  forall f c, In (LEnterDrop f c) l -> c = true.
Proof.
  intros evs s l H Hop f c Hin. apply inv_reach in H.
  assert (Hn' : nonet l) by (inv_cases H; simpl in *; auto; congruence).
  unfold nonet in Hn'. rewrite forallb_forall in Hn'. specialize (Hn' _ Hin).
  destruct c; [reflexivity|discriminate].
Qed.

(* an open that fails closes the backend exactly once (by the Drop net) and nothing can follow *)
Theorem failed_open_closes_once : forall cs cok s l,
  sstep s_new (SOpen cs false cok) = Some (s, l) ->
  b_closes (s_b s) = 1 /\ b_after (s_b s) = 0 /\ b_gone (s_b s) = true /\
  contract_okb false 0 (trace_of l) = true /\ forall e, sstep s e = None.
Proof.
  intros cs cok s l H.
  simpl in H. unfold then_release in H.
  destruct (io_calls (mkB false false false 0 0) cs) as [b1 l1] eqn:E.
  pose proof (io_calls_spec _ _ _ _ E) as (A1 & A2 & A3 & A4 & _ & A6). simpl in *.
  unfold release, no_holder in H. simpl in H. rewrite A2 in H. simpl in H.
  unfold wrapper_drop in H. rewrite A1 in H. inversion H; subst; clear H. simpl.
  repeat split; auto; try lia.
  - rewrite trace_of_app. simpl. apply lenonly_close_contract_ok; auto.
  - intros e. destruct e; reflexivity.
Qed.

(* a successful open has closed nothing *)
Theorem open_ok_not_closed : forall cs cok s l,
  sstep s_new (SOpen cs true cok) = Some (s, l) ->
  b_closes (s_b s) = 0 /\ o_db (s_o s) = true /\ nonet l.
Proof.
  intros cs cok s l H. simpl in H.
  destruct (io_calls (mkB false false false 0 0) cs) as [b1 l1] eqn:E.
  inversion H; subst; clear H. simpl.
  pose proof (io_calls_nonet _ _ _ _ E). apply io_calls_spec in E. simpl in E.
  destruct E as (_ & _ & A3 & _). auto.
Qed.

(* ---------- refinement of the hand-off automaton of Contract.v ---------- *)

Theorem refines_handoff : forall evs s l e s' l',
  srun s_new evs = Some (s, l) -> o_opened (s_o s) = true ->
  sstep s e = Some (s', l') ->
  match h_ev e with
  | Some he => hstep (h_of s) he = Some (h_of s')
  | None => h_of s' = h_of s
  end.
Proof.
  intros evs s l e s' l' H Hop Hs.
  pose proof (inv_facts _ _ (inv_reach _ _ _ H)) as (F1 & F2 & F3 & F4).
  pose proof (srun_snoc _ _ _ _ _ _ _ H Hs) as H2.
  pose proof (inv_facts _ _ (inv_reach _ _ _ H2)) as (G1 & G2 & G3 & G4).
  destruct s as [o b]. simpl in *.
  destruct e as [cs ok cok| |cok|cs|cs|cs| |commit flush cok|commit flush cok]; simpl in Hs |- *.
  - rewrite Hop in Hs. discriminate.
  - destruct (o_opened o && (o_db o || (0 <? o_readers o))); [|discriminate].
    inversion Hs; subst. reflexivity.
  - destruct (0 <? o_readers o) eqn:Er; [|discriminate].
    unfold then_release, release in Hs. simpl in Hs.
    destruct (no_holder (with_readers o (o_readers o - 1)) && negb (b_gone b)) eqn:En.
    + unfold wrapper_drop in Hs. destruct (b_closed b) eqn:Ec; inversion Hs; subst; clear Hs.
      * reflexivity.
      * exfalso. apply andb_true_iff in En. destruct En as [En _].
        unfold no_holder in En. simpl in En.
        apply andb_true_iff in En. destruct En as [En _]. apply andb_true_iff in En.
        destruct En as [E1 E2]. apply negb_true_iff in E1. apply negb_true_iff in E2.
        destruct (F2 Hop E1 E2) as (_ & X & _). congruence.
    + inversion Hs; subst. reflexivity.
  - destruct (0 <? o_readers o); [|discriminate]. unfold io_step in Hs. simpl in Hs.
    destruct (io_calls b cs) as [b1 l1] eqn:E. inversion Hs; subst.
    apply io_calls_spec in E. destruct E as (_ & _ & A3 & _). unfold h_of. simpl. rewrite A3. reflexivity.
  - destruct (o_db o); [|discriminate]. unfold io_step in Hs. simpl in Hs.
    destruct (io_calls b cs) as [b1 l1] eqn:E. inversion Hs; subst.
    apply io_calls_spec in E. destruct E as (_ & _ & A3 & _). unfold h_of. simpl. rewrite A3. reflexivity.
  - destruct (o_writer o); [|discriminate]. unfold io_step in Hs. simpl in Hs.
    destruct (io_calls b cs) as [b1 l1] eqn:E. inversion Hs; subst.
    apply io_calls_spec in E. destruct E as (_ & _ & A3 & _). unfold h_of. simpl. rewrite A3. reflexivity.
  - destruct (o_db o) eqn:Edb; simpl in Hs; [|discriminate].
    destruct (o_writer o) eqn:Ew; simpl in Hs; [discriminate|].
    inversion Hs; subst. unfold h_of. simpl. rewrite ?Edb, ?Ew. simpl. reflexivity.
  - destruct (o_writer o) eqn:Ew; [|discriminate]. unfold h_of at 1. simpl. rewrite ?Ew.
    destruct (F1 (or_intror eq_refl)) as (_ & C0 & _ & _ & D1 & D2).
    destruct (o_deferred o) eqn:Ed.
    + assert (Edb : o_db o = false) by (destruct (o_db o); auto; specialize (D1 eq_refl); congruence).
      unfold then_release in Hs.
      destruct (close_database b commit flush cok) as [b1 l1] eqn:EC.
      destruct (release (with_writer o false false) b1 cok) as [b2 l2] eqn:ER.
      inversion Hs; subst; clear Hs. unfold h_of. simpl in *. rewrite Edb in *.
      destruct (G2 Hop eq_refl eq_refl) as (K & _). rewrite K, C0. reflexivity.
    + assert (Edb : o_db o = true) by (destruct (o_db o); auto; specialize (D2 eq_refl); congruence).
      unfold then_release, release, no_holder in Hs. simpl in Hs. rewrite Edb in Hs. simpl in Hs.
      inversion Hs; subst; clear Hs. unfold h_of. simpl. rewrite Edb. reflexivity.
  - destruct (o_db o) eqn:Edb; [|discriminate]. unfold h_of at 1. simpl. rewrite ?Edb.
    destruct (F1 (or_introl eq_refl)) as (_ & C0 & _ & _ & D1 & _). specialize (D1 eq_refl).
    destruct (o_writer o) eqn:Ew.
    + inversion Hs; subst. unfold h_of. simpl. reflexivity.
    + unfold then_release in Hs.
      destruct (close_database b commit flush cok) as [b1 l1] eqn:EC.
      destruct (release (with_db o false) b1 cok) as [b2 l2] eqn:ER.
      inversion Hs; subst; clear Hs. unfold h_of. simpl in *. rewrite Ew in *.
      destruct (G2 Hop eq_refl eq_refl) as (K & _). rewrite K, C0, D1. reflexivity.
Qed.

(* ---------- the timing oracle ---------- *)

Lemma trun_app : forall a b t,
  trun t (a ++ b) = match trun t a with Some t' => trun t' b | None => None end.
Proof.
  induction a as [|e a IH]; intros b t; simpl; [reflexivity|].
  destruct (tstep t e); [apply IH|reflexivity].
Qed.

(* what the oracle expects, in words: one close exactly if the open failed, or the Database has been
   dropped and no write transaction is live (it never was, or the one deferring the close has ended) *)
Definition t_wf (t : tstate) : Prop :=
  h_inv (t_h t) /\ (t_failed t = true -> t_opened t = false).

Lemma t_wf_new : t_wf t_new.
Proof. split; [apply h_inv_init|discriminate]. Qed.

Lemma t_wf_step : forall t e t', t_wf t -> tstep t e = Some t' -> t_wf t'.
Proof.
  intros t e t' [Hi Hf] H. destruct e; cbn [tstep h_ev] in H;
    try (assert (t' = t) by (destruct (t_opened t); [inversion H; reflexivity|discriminate]);
         subst; split; assumption).
  - destruct (t_opened t || t_failed t); [discriminate|]. inversion H; subst; clear H.
    destruct ok; split; simpl; auto; intro X; discriminate X.
  - destruct (t_opened t); [|discriminate].
    destruct (hstep (t_h t) HBeginWrite) eqn:E; [|discriminate]. inversion H; subst.
    split; simpl; [eapply h_inv_step; eauto|intro X; discriminate X].
  - destruct (t_opened t); [|discriminate].
    destruct (hstep (t_h t) HEndWrite) eqn:E; [|discriminate]. inversion H; subst.
    split; simpl; [eapply h_inv_step; eauto|intro X; discriminate X].
  - destruct (t_opened t); [|discriminate].
    destruct (hstep (t_h t) HDropDb) eqn:E; [|discriminate]. inversion H; subst.
    split; simpl; [eapply h_inv_step; eauto|intro X; discriminate X].
Qed.

Lemma t_wf_run : forall evs t t', t_wf t -> trun t evs = Some t' -> t_wf t'.
Proof.
  induction evs as [|e r IH]; intros t t' Hw H; simpl in H.
  - inversion H; subst; exact Hw.
  - destruct (tstep t e) eqn:E; [|discriminate]. eapply IH; [|exact H]. eapply t_wf_step; eauto.
Qed.

Theorem expected_closes_meaning : forall evs t,
  trun t_new evs = Some t ->
  (expected_closes t = 0 \/ expected_closes t = 1) /\
  (expected_closes t = 1 <->
     t_failed t = true \/
     (t_opened t = true /\ h_db_alive (t_h t) = false /\ h_live_write (t_h t) = false)).
Proof.
  intros evs t H. pose proof (t_wf_run _ _ _ t_wf_new H) as [[Ha Hd] Hf].
  unfold expected_closes. destruct (t_failed t) eqn:Ef.
  - split; [right; reflexivity|]. split; auto.
  - destruct (t_opened t) eqn:Eo.
    + destruct (h_db_alive (t_h t)) eqn:Edb.
      * destruct (Ha eq_refl) as [-> _]. split; [left; reflexivity|].
        split; [discriminate|]. intros [X|(_ & X & _)]; discriminate.
      * destruct (Hd eq_refl) as [Hw Hn]. destruct (h_live_write (t_h t)) eqn:Ew.
        -- destruct (Hw eq_refl) as [_ ->]. split; [left; reflexivity|].
           split; [discriminate|]. intros [X|(_ & _ & X)]; discriminate.
        -- destruct (Hn eq_refl) as [_ ->]. split; [right; reflexivity|]. split; auto.
    + split; [left; reflexivity|]. split; [discriminate|]. intros [X|(X & _)]; discriminate.
Qed.

Definition flat (steps : list apistep) : list sevent := concat (map fst steps).

Lemma timing_check_sound_gen : forall steps t i,
  timing_check t steps i = TOk ->
  forall pre evs c a post, steps = pre ++ (evs, (c, a)) :: post ->
  exists t', trun t (flat pre ++ evs) = Some t' /\ c = expected_closes t' /\ a = 0.
Proof.
  induction steps as [|[evs0 [c0 a0]] r IH]; intros t i H pre evs c a post Heq.
  - destruct pre; discriminate.
  - simpl in H. destruct (trun t evs0) as [t1|] eqn:E; [|discriminate].
    destruct ((c0 =? expected_closes t1) && (a0 =? 0)) eqn:Eb; [|discriminate].
    apply andb_true_iff in Eb. destruct Eb as [E1 E2].
    apply N.eqb_eq in E1. apply N.eqb_eq in E2.
    destruct pre as [|p pre].
    + simpl in Heq. inversion Heq; subst. exists t1. simpl. auto.
    + simpl in Heq. inversion Heq; subst. unfold flat. simpl.
      rewrite <- app_assoc, trun_app, E. apply (IH _ _ H pre evs c a post eq_refl).
Qed.

Theorem timing_check_sound : forall steps,
  timing_okb steps = true ->
  forall pre evs c a post, steps = pre ++ (evs, (c, a)) :: post ->
  exists t, trun t_new (flat pre ++ evs) = Some t /\ c = expected_closes t /\ a = 0.
Proof.
  intros steps H. unfold timing_okb in H.
  destruct (timing_check t_new steps 0) eqn:E; try discriminate.
  eapply timing_check_sound_gen; eauto.
Qed.

Lemma timing_check_complete_gen : forall steps t i,
  (forall pre evs c a post, steps = pre ++ (evs, (c, a)) :: post ->
     exists t', trun t (flat pre ++ evs) = Some t' /\ c = expected_closes t' /\ a = 0) ->
  timing_check t steps i = TOk.
Proof.
  induction steps as [|[evs0 [c0 a0]] r IH]; intros t i H; simpl; [reflexivity|].
  destruct (H [] evs0 c0 a0 r eq_refl) as (t1 & E & -> & ->). simpl in E. rewrite E.
  rewrite !N.eqb_refl. simpl. apply IH.
  intros pre evs c a post Heq.
  destruct (H ((evs0, (expected_closes t1, 0)) :: pre) evs c a post) as (t2 & E2 & Hc & Ha).
  { simpl. rewrite Heq. reflexivity. }
  unfold flat in E2. simpl in E2. rewrite <- app_assoc, trun_app, E in E2.
  exists t2. auto.
Qed.

Theorem timing_check_complete : forall steps,
  (forall pre evs c a post, steps = pre ++ (evs, (c, a)) :: post ->
     exists t, trun t_new (flat pre ++ evs) = Some t /\ c = expected_closes t /\ a = 0) ->
  timing_okb steps = true.
Proof.
  intros steps H. unfold timing_okb. rewrite (timing_check_complete_gen _ _ _ H). reflexivity.
Qed.

(* ---------- the model satisfies the oracle, for every history and every outcome ---------- *)

Definition tsim (t : tstate) (s : sstate) : Prop :=
  t_opened t = o_opened (s_o s) /\
  t_failed t = negb (o_opened (s_o s)) && b_gone (s_b s) /\
  (o_opened (s_o s) = true -> t_h t = h_of s) /\
  (o_opened (s_o s) = false -> t_h t = h_init).

Lemma tsim_new : tsim t_new s_new.
Proof. repeat split; simpl; auto. discriminate. Qed.

Lemma tsim_step : forall evs s l t e s' l',
  srun s_new evs = Some (s, l) -> tsim t s -> sstep s e = Some (s', l') ->
  exists t', tstep t e = Some t' /\ tsim t' s'.
Proof.
  intros evs s l t e s' l' H (S1 & S2 & S3 & S4) Hs.
  pose proof (inv_reach _ _ _ H) as HI.
  destruct (o_opened (s_o s)) eqn:Eo.
  - (* a Database exists or existed: the hand-off automaton follows *)
    pose proof (refines_handoff _ _ _ _ _ _ H Eo Hs) as R.
    assert (Eo' : o_opened (s_o s') = true).
    { destruct s as [o b]. simpl in Eo.
      destruct e; simpl in Hs; rewrite ?Eo in Hs; simpl in Hs; try discriminate;
        repeat match type of Hs with
               | (if ?c then _ else _) = _ => destruct c; try discriminate
               end;
        unfold then_release, io_step in Hs; simpl in Hs;
        repeat match type of Hs with
               | context [let '(_, _) := ?x in _] => destruct x
               end;
        inversion Hs; subst; simpl; auto. }
    specialize (S3 eq_refl). simpl in S2.
    destruct e; cbn [h_ev] in R; cbn [tstep h_ev]; rewrite ?S1;
      try (exists t; split; [reflexivity|]; repeat split; auto; try congruence;
           rewrite ?Eo'; simpl; auto; intros; congruence).
    + simpl in Hs. rewrite Eo in Hs. discriminate.
    + rewrite S3, R. eexists. split; [reflexivity|]. repeat split; simpl; auto; try congruence.
      rewrite Eo'. reflexivity.
    + rewrite S3, R. eexists. split; [reflexivity|]. repeat split; simpl; auto; try congruence.
      rewrite Eo'. reflexivity.
    + rewrite S3, R. eexists. split; [reflexivity|]. repeat split; simpl; auto; try congruence.
      rewrite Eo'. reflexivity.
  - (* before the open: only SOpen is possible *)
    specialize (S4 eq_refl). simpl in S2.
    inv_cases HI; simpl in *; try congruence.
    + destruct (Hu Eo) as (U1 & U2 & U3 & U4).
      destruct e as [cs ok cok| |cok|cs|cs|cs| |commit flush cok|commit flush cok]; simpl in Hs;
        rewrite ?Eo, ?U1, ?U2, ?U3 in Hs; simpl in Hs; try discriminate.
      rewrite Hg in Hs. simpl in Hs. rewrite Hg in S2. simpl. rewrite S1, S2. simpl.
      destruct ok.
      * destruct (io_calls b cs) as [b1 l1] eqn:E. inversion Hs; subst; clear Hs.
        eexists. split; [reflexivity|]. repeat split; simpl; auto; try discriminate.
        intros _. rewrite S4. unfold h_of, h_init. simpl. rewrite U2, U4.
        apply io_calls_spec in E. destruct E as (_ & _ & A3 & _). rewrite A3, Hc. reflexivity.
      * unfold then_release in Hs. destruct (io_calls b cs) as [b1 l1] eqn:E.
        pose proof (io_calls_spec _ _ _ _ E) as (A1 & A2 & _).
        unfold release, no_holder in Hs. rewrite U1, U2, U3, A2, Hg in Hs. simpl in Hs.
        unfold wrapper_drop in Hs. rewrite A1, Hcl in Hs. inversion Hs; subst; clear Hs.
        eexists. split; [reflexivity|]. repeat split; simpl; auto; try discriminate;
          try (rewrite Eo; reflexivity); try (intros X; rewrite Eo in X; discriminate X).
    + destruct e as [cs ok' cok| |cok|cs|cs|cs| |commit flush cok|commit flush cok]; simpl in Hs;
        rewrite ?Eo, ?Hdb, ?Hw, ?Hr, ?Hg in Hs; simpl in Hs; discriminate.
Qed.

Lemma tsim_expected : forall evs s l t,
  srun s_new evs = Some (s, l) -> tsim t s ->
  expected_closes t = b_closes (s_b s) /\ b_after (s_b s) = 0.
Proof.
  intros evs s l t H (S1 & S2 & S3 & S4). pose proof (inv_reach _ _ _ H) as HI.
  unfold expected_closes. rewrite S1, S2.
  inv_cases HI; simpl in *.
  - rewrite Hg, andb_false_r. destruct (o_opened o) eqn:Eo.
    + rewrite (S3 eq_refl). simpl. auto.
    + auto.
  - rewrite Ho. simpl. rewrite (S3 Ho). simpl. auto.
  - rewrite Ho, Hg. simpl. auto.
Qed.

Lemma tsim_run : forall evs1 evs0 s l t s' l',
  srun s_new evs0 = Some (s, l) -> tsim t s -> srun s evs1 = Some (s', l') ->
  exists t', trun t evs1 = Some t' /\ tsim t' s' /\ srun s_new (evs0 ++ evs1) = Some (s', l ++ l').
Proof.
  induction evs1 as [|e r IH]; intros evs0 s l t s' l' H0 HS H; simpl in H.
  - inversion H; subst. exists t. rewrite !app_nil_r. auto.
  - destruct (sstep s e) as [[s1 l1]|] eqn:E; [|discriminate].
    destruct (srun s1 r) as [[s2 l2]|] eqn:E2; [|discriminate]. inversion H; subst; clear H.
    destruct (tsim_step _ _ _ _ _ _ _ H0 HS E) as (t1 & T1 & HS1).
    pose proof (srun_snoc _ _ _ _ _ _ _ H0 E) as H1.
    destruct (IH _ _ _ _ _ _ H1 HS1 E2) as (t2 & T2 & HS2 & H2).
    exists t2. simpl. rewrite T1. split; [exact T2|]. split; [exact HS2|].
    rewrite <- app_assoc in H2. simpl in H2. rewrite app_assoc. exact H2.
Qed.

Lemma model_satisfies_timing_gen : forall steps evs0 s l t i obs logs,
  srun s_new evs0 = Some (s, l) -> tsim t s ->
  model_steps s steps = Some (obs, logs) -> timing_check t obs i = TOk.
Proof.
  induction steps as [|evs r IH]; intros evs0 s l t i obs logs H0 HS H; simpl in H.
  - inversion H; subst. reflexivity.
  - destruct (srun s evs) as [[s1 l1]|] eqn:E; [|discriminate].
    destruct (model_steps s1 r) as [[o ls]|] eqn:E2; [|discriminate].
    inversion H; subst; clear H. simpl.
    destruct (tsim_run _ _ _ _ _ _ _ H0 HS E) as (t1 & T1 & HS1 & H1).
    rewrite T1. destruct (tsim_expected _ _ _ _ H1 HS1) as [X Y].
    rewrite X, Y, !N.eqb_refl. simpl. eapply IH; eauto.
Qed.

(* for every history (valid in the model) split into API steps in any way, and every failure outcome:
   the close counts the model shows after each step pass the oracle *)
Theorem model_satisfies_timing : forall steps obs logs,
  model_steps s_new steps = Some (obs, logs) -> timing_okb obs = true.
Proof.
  intros steps obs logs H. unfold timing_okb.
  rewrite (model_satisfies_timing_gen steps [] s_new [] t_new 0 obs logs eq_refl tsim_new H).
  reflexivity.
Qed.
