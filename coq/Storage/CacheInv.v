(* Cache layer (Storage/Cache.v): the invariant tying a state of PagedCachedFile to the plain byte array it
   implements and to the ghost state of the usage protocol; the tracked run used by the theorems.
   Definitions only (proofs in CacheBaseP.v, CacheInvP.v, CacheOpsP.v, CacheP.v). *)
From RV Require Import Base.Bytes Storage.Backend Storage.Latch Storage.Cache.

(* an entry (o, d) holds the bytes of the array I *)
Definition agrees (I : image) (o : N) (d : bytes) : Prop :=
  forall i, covers o d i = true -> wbyte o d i = iat I i.

Definition in_rng (r : N * N) (i : N) : Prop := fst r <= i < fst r + snd r.

(* length of the outstanding WritablePage at offset o *)
Fixpoint out_len (o : N) (l : list (N * N)) : N :=
  match l with
  | [] => 0
  | r :: t => if fst r =? o then snd r else out_len o t
  end.
(* bytes accounted to the write buffer: buffered pages + pages taken by a WritablePage *)
Definition wb_sum (l : list (N * option bytes)) (out : list (N * N)) : N :=
  fold_right (fun p acc => match snd p with Some d => blen d + acc | None => out_len (fst p) out + acc end) 0 l.

(* byte i is not under a buffered page, not under an outstanding WritablePage, and not undefined *)
Definition uncovered (s : state) (g : ghost) (i : N) : Prop :=
  (forall o d, In (o, Some d) (wb s) -> covers o d i = false) /\
  (forall r, In r (g_out g) -> ~ in_rng r i) /\
  (forall r, In r (g_poison g) -> ~ in_rng r i).

Record Inv (c : config) (s : state) (I : image) (g : ghost) : Prop := mkInv {
  (* every buffered page holds the last bytes written to its range *)
  i_wb_some : forall o d, In (o, Some d) (wb s) -> In (o, blen d) (g_wb g) /\ agrees I o d;
  (* taken entries = outstanding WritablePages *)
  i_wb_none : forall o, In (o, None) (wb s) -> exists l, In (o, l) (g_out g);
  i_out : forall o l, In (o, l) (g_out g) -> In (o, None) (wb s) /\ alookup o (rc s) = None /\ In (o, l) (g_wb g);
  (* every read-cache entry holds the last bytes written to its range *)
  i_rc : forall o d, In (o, d) (rc s) -> In (o, blen d) (g_rc g) /\ agrees I o d;
  i_nd_wb : NoDup (map fst (wb s));
  i_nd_rc : NoDup (map fst (rc s));
  (* everything else is in the file: no page is lost *)
  i_file : forall i, uncovered s g i -> fget (file s) i = iat I i;
  i_len : blen (file s) = ilen I /\ ilen I = g_len g;
  (* committed_pages_buffered is false only when no committed page is solely in the buffer *)
  i_cpb : cpb s = false -> forall o v, In (o, v) (wb s) -> In o (g_unc g);
  (* the two counters *)
  i_wbb : wb_sum (wb s) (g_out g) <= wb_bytes s;
  i_rcb : rc_bytes s = sum_rc (rc s) /\ sum_rc (rc s) <= max_cache c;
  (* ghost ranges are non-empty and inside the file *)
  i_rng_wb : forall r, In r (g_wb g) -> 0 < snd r /\ fst r + snd r <= g_len g;
  i_rng_rc : forall r, In r (g_rc g) -> 0 < snd r /\ fst r + snd r <= g_len g;
  (* an outstanding page overlaps no other range that may be cached *)
  i_sep : forall r, In r (g_out g) ->
            (forall a, In a (g_rc g) -> overlapb a r = false) /\
            (forall a, In a (g_wb g) -> a = r \/ overlapb a r = false) /\
            (forall a, In a (g_out g) -> a = r \/ overlapb a r = false);
  (* flush in progress: stripes below k are drained *)
  i_flush : forall k, g_flushing g = Some k -> (forall o v, In (o, v) (wb s) -> k <= stripe o) /\ g_out g = []
}.

Definition res_is_err (r : res) : bool := match r with Err _ => true | _ => false end.

(* the model, the usage protocol and the plain array run side by side; None = the program leaves the protocol.
   A call that returns an error counts as not made (proto_fail). *)
Fixpoint run_track (c : config) (s : state) (g : ghost) (I : image) (p : list (op * oracle))
  : option (state * ghost * image * list (list ev * res)) :=
  match p with
  | [] => Some (s, g, I, [])
  | (x, o) :: rest =>
      match proto_step c g x with
      | None => None
      | Some g' =>
          let '(s1, e1, r1) := step c s x o in
          let '(g1, I1) := if res_is_err r1 then (proto_fail g x, I) else (g', ideal_step I x) in
          match run_track c s1 g1 I1 rest with
          | None => None
          | Some (s2, g2, I2, l2) => Some (s2, g2, I2, (e1, r1) :: l2)
          end
      end
  end.

(* the results of a run against the plain array *)
Fixpoint spec_trace (I : image) (p : list op) (rs : list res) : Prop :=
  match p, rs with
  | [], [] => True
  | x :: p', r :: rs' => spec_res I x r /\ spec_trace (ideal_step I x) p' rs'
  | _, _ => False
  end.

(* the latest content of byte i: in the write buffer or in the backend *)
Definition latest_ok (s : state) (I : image) (i : N) : Prop :=
  (exists o d, In (o, Some d) (wb s) /\ covers o d i = true /\ wbyte o d i = iat I i) \/ fget (file s) i = iat I i.
Definition undefined_byte (g : ghost) (i : N) : Prop :=
  (exists r, In r (g_out g) /\ in_rng r i) \/ (exists r, In r (g_poison g) /\ in_rng r i).
