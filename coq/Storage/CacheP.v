(* Cache layer (PagedCachedFile / write buffer / CheckedBackend), theorems for C02 part (b) and C08.
   Model: Storage/Cache.v; invariant: Storage/CacheInv.v; one call: Storage/CacheStepP.v (step_sound). *)
From RV Require Import Base.Bytes Storage.Backend Storage.BackendP Storage.Latch Storage.Cache Storage.CacheInv
  Storage.CacheBaseP Storage.CacheInvP Storage.CacheOpsP Storage.CacheStepP.
Local Open Scope N_scope.

Ltac splits := repeat match goal with |- _ /\ _ => split end.

(* ------------------------------------------------------------------ the initial state *)
Lemma Inv_init c f : Inv c (init_state f) (image_of f) (g_init (blen f)).
Proof.
  constructor; unfold uncovered; simpl; try (intros; contradiction); try constructor; auto; try lia;
    try (intros; discriminate).
Qed.

(* ------------------------------------------------------------------ every reachable state satisfies the invariant *)
Theorem run_track_inv c : forall p s g I s' g' I' out,
  Inv c s I g -> run_track c s g I p = Some (s', g', I', out) -> Inv c s' I' g'.
Proof.
  induction p as [|[x o] p IH]; intros s g I s' g' I' out H E; cbn [run_track] in E.
  - injection E as <- <- <- <-. exact H.
  - destruct (proto_step c g x) as [g1|] eqn:Ep; [|discriminate].
    destruct (step c s x o) as [[s1 e1] r1] eqn:Es.
    pose proof (step_sound _ _ _ _ _ _ _ _ _ _ H Ep Es) as (_ & A & B & _).
    destruct (res_is_err r1) eqn:Er.
    + destruct (run_track c s1 (proto_fail g x) I p) as [[[[s2 g2] I2] l2]|] eqn:E2; [|discriminate].
      injection E as <- <- <- <-. eapply IH; [|exact E2]. auto.
    + destruct (run_track c s1 g1 (ideal_step I x) p) as [[[[s2 g2] I2] l2]|] eqn:E2; [|discriminate].
      injection E as <- <- <- <-. eapply IH; [|exact E2]. apply B. reflexivity.
Qed.

Corollary reachable_inv c f p s g I out :
  run_track c (init_state f) (g_init (blen f)) (image_of f) p = Some (s, g, I, out) -> Inv c s I g.
Proof. intros E. eapply run_track_inv; [apply Inv_init|exact E]. Qed.

(* ------------------------------------------------------------------ cache_coherent *)
(* With a fault-free backend, every protocol-abiding call sequence, every cache budget and every choice of
   evicted pages / skipped stripes: the cache layer answers like a plain array of bytes. *)
Lemma run_ff c : forall p s g I g',
  Inv c s I g -> io_failed (latch s) = false -> (forall x o, In (x, o) p -> fault_free o) ->
  proto_run c g (map fst p) = Some g' ->
  spec_trace I (map fst p) (map snd (snd (run c s p))) /\
  Inv c (fst (run c s p)) (ideal_run I (map fst p)) g' /\ io_failed (latch (fst (run c s p))) = false.
Proof.
  induction p as [|[x o] p IH]; intros s g I g' H Hl Hff Hp; cbn [run map fst snd proto_run spec_trace] in *.
  - injection Hp as <-. auto.
  - destruct (proto_step c g x) as [g1|] eqn:Ep; [|discriminate].
    destruct (step c s x o) as [[s1 e1] r1] eqn:Es.
    pose proof (step_sound _ _ _ _ _ _ _ _ _ _ H Ep Es) as (_ & _ & B & (_ & TL & _) & ER & _ & FF).
    assert (Hany : any_failed e1 = false) by (apply FF; eapply Hff; left; reflexivity).
    assert (Hreq : req_failed e1 = false).
    { destruct (req_failed e1) eqn:X; auto. apply req_failed_any in X. congruence. }
    assert (Hne : res_is_err r1 = false).
    { destruct (res_is_err r1) eqn:X; auto. destruct (ER eq_refl); congruence. }
    destruct (B Hne) as [H1 Hs].
    assert (Hl1 : io_failed (latch s1) = false) by (rewrite TL, Hl, Hreq; reflexivity).
    destruct (run c s1 p) as [s2 l2] eqn:Er.
    assert (Hff' : forall x0 o0, In (x0, o0) p -> fault_free o0) by (intros; eapply Hff; right; eauto).
    specialize (IH s1 g1 (ideal_step I x) g' H1 Hl1 Hff' Hp). rewrite Er in IH. simpl in IH.
    destruct IH as (A1 & A2 & A3). simpl. splits; auto.
Qed.

Theorem cache_coherent : forall c f p,
  (forall x o, In (x, o) p -> fault_free o) ->
  protocol_ok c (blen f) (map fst p) = true ->
  spec_trace (image_of f) (map fst p) (map snd (snd (run c (init_state f) p))).
Proof.
  intros c f p Hff Hp. unfold protocol_ok in Hp.
  destruct (proto_run c (g_init (blen f)) (map fst p)) as [g'|] eqn:E; [|discriminate].
  eapply run_ff; eauto. apply Inv_init.
Qed.

(* ... and after flush() the backend holds that array: nothing buffered is lost, the flag is clear *)
Lemma run_app c : forall p q s,
  run c s (p ++ q) = let '(s1, l1) := run c s p in let '(s2, l2) := run c s1 q in (s2, l1 ++ l2).
Proof.
  induction p as [|[x o] p IH]; intros q s; cbn [run app].
  - destruct (run c s q). reflexivity.
  - destruct (step c s x o) as [[s1 e1] r1]. rewrite IH.
    destruct (run c s1 p) as [s2 l2]. destruct (run c s2 q) as [s3 l3]. reflexivity.
Qed.

Lemma proto_run_app c : forall a b g,
  proto_run c g (a ++ b) = match proto_run c g a with Some g1 => proto_run c g1 b | None => None end.
Proof.
  induction a as [|x a IH]; intros b g; cbn [proto_run app]; auto.
  destruct (proto_step c g x); auto.
Qed.

Lemma flush_done_cpb c s o s' t : step c s OFlush o = (s', t, Done) -> cpb s' = false.
Proof.
  cbn [step]. destruct (flush_stripes c NSTRIPES 0 s o) as [[[s1 o1] e1] r1].
  destruct r1; try (intros [= _ _ X]; discriminate).
  unfold sync_step. destruct (bcall_step (set_cpb s1 false) o1 false BSync) as [[[s2 o2] e2] r2] eqn:Eb.
  apply bcall_facts in Eb. destruct Eb as ((_ & _ & _ & _ & X & _) & _). intros [= <- _ _]. exact X.
Qed.

Theorem cache_flush_writes_back : forall c f p o g,
  (forall x o0, In (x, o0) p -> fault_free o0) -> fault_free o ->
  proto_run c (g_init (blen f)) (map fst p ++ [OFlush]) = Some g ->
  let s := fst (run c (init_state f) (p ++ [(OFlush, o)])) in
  let I := ideal_run (image_of f) (map fst p) in
  wb s = [] /\ cpb s = false /\ blen (file s) = ilen I /\
  forall i, (forall r, In r (g_poison g) -> ~ in_rng r i) -> fget (file s) i = iat I i.
Proof.
  intros c f p o g Hff Hfo Hp. rewrite proto_run_app in Hp.
  destruct (proto_run c (g_init (blen f)) (map fst p)) as [g1|] eqn:Ep1; [|discriminate].
  cbn [proto_run] in Hp. destruct (proto_step c g1 OFlush) as [g2|] eqn:Ep2; [|discriminate]. injection Hp as ->.
  destruct (run_ff c _ _ _ _ _ (Inv_init c f) eq_refl Hff Ep1) as (_ & H1 & L1).
  rewrite run_app. destruct (run c (init_state f) p) as [s1 l1] eqn:Er1. simpl in H1, L1.
  cbn [run]. destruct (step c s1 OFlush o) as [[s2 e2] r2] eqn:Es. simpl.
  pose proof (step_sound _ _ _ _ _ _ _ _ _ _ H1 Ep2 Es) as (_ & _ & B & _ & ER & _ & FF).
  assert (Hany : any_failed e2 = false) by (apply FF; auto).
  assert (Hne : res_is_err r2 = false).
  { destruct (res_is_err r2) eqn:X; auto. destruct (ER eq_refl) as [Y|Y]; [congruence|].
    apply req_failed_any in Y. congruence. }
  destruct (B Hne) as [H2 Hs]. simpl in Hs. subst r2. cbn [ideal_step] in H2.
  (* the ghost after OFlush has no buffered and no outstanding range *)
  cbn [proto_step] in Ep2.
  destruct (negb (is_some (g_flushing g1)) && match g_out g1 with [] => true | _ :: _ => false end) eqn:Ec; [|discriminate].
  injection Ep2 as <-. apply andb_true_iff in Ec as [_ Ec].
  assert (Hgo : g_out g1 = []) by (destruct (g_out g1); [reflexivity|discriminate]).
  assert (Hw : wb s2 = []).
  { destruct (wb s2) as [|[k [d|]] l] eqn:Ew; auto; exfalso.
    - assert (Hin : In (k, Some d) (wb s2)) by (rewrite Ew; left; auto).
      destruct (i_wb_some _ _ _ _ H2 _ _ Hin) as [A _]. destruct A.
    - assert (Hin : In (k, None) (wb s2)) by (rewrite Ew; left; auto).
      destruct (i_wb_none _ _ _ _ H2 _ Hin) as [l0 A]. simpl in A. rewrite Hgo in A. destruct A. }
  splits; auto.
  - eapply flush_done_cpb; eauto.
  - apply (i_len _ _ _ _ H2).
  - intros i Hpo. apply (i_file _ _ _ _ H2). unfold uncovered. splits; auto.
    + intros k d Hin. rewrite Hw in Hin. destruct Hin.
    + simpl. intros r Hr. rewrite Hgo in Hr. destruct Hr.
Qed.

(* ------------------------------------------------------------------ no_lost_page_under_faults *)
(* arbitrary backend failures (required and best-effort), arbitrary eviction choices *)
Theorem no_lost_page_under_faults : forall c f p s g I out,
  run_track c (init_state f) (g_init (blen f)) (image_of f) p = Some (s, g, I, out) ->
  forall i, ~ undefined_byte g i -> latest_ok s I i.
Proof.
  intros c f p s g I out E i Hu. pose proof (reachable_inv _ _ _ _ _ _ _ E) as H.
  destruct (classic_covered (wb s) (fun _ => false) i) as [(k & d & Hin & _ & Hc)|Hn].
  - left. exists k, d. splits; auto. apply (proj2 (i_wb_some _ _ _ _ H _ _ Hin)). auto.
  - right. apply (i_file _ _ _ _ H). unfold uncovered. splits.
    + intros k d Hin. destruct (covers k d i) eqn:Ec; auto. exfalso. apply Hn. exists k, d. auto.
    + intros r Hr Hi. apply Hu. left. eauto.
    + intros r Hr Hi. apply Hu. right. eauto.
Qed.

(* what one call does in a reachable state, whatever fails *)
Theorem fault_call_sound : forall c f p s g I out x o g' s' t r,
  run_track c (init_state f) (g_init (blen f)) (image_of f) p = Some (s, g, I, out) ->
  proto_step c g x = Some g' -> step c s x o = (s', t, r) ->
  (* no panic; an Ok result is the plain array's answer *)
  r <> Panic /\ (res_is_err r = false -> spec_res I x r) /\
  (* the latch is set exactly by a failed required call; once set nothing reaches the backend *)
  io_failed (latch s') = io_failed (latch s) || req_failed t /\ closed (latch s') = closed (latch s) /\
  (io_failed (latch s) = true -> t = []) /\
  (* failures of best-effort writebacks alone change neither the latch nor the result *)
  (io_failed (latch s) = false -> req_failed t = false -> res_is_err r = false /\ io_failed (latch s') = false) /\
  (* a failed required call is reported and latched *)
  (req_failed t = true -> res_is_err r = true /\ io_failed (latch s') = true).
Proof.
  intros c f p s g I out x o g' s' t r E Ep Es. pose proof (reachable_inv _ _ _ _ _ _ _ E) as H.
  pose proof (step_sound _ _ _ _ _ _ _ _ _ _ H Ep Es) as (NP & _ & B & (CL & TL & SI) & ER & RQ & _).
  splits; auto.
  - intros Hne. apply B. auto.
  - intros Hl Hr. split.
    + destruct (res_is_err r) eqn:X; auto. destruct (ER eq_refl); congruence.
    + rewrite TL, Hl, Hr. reflexivity.
  - intros Hr. split; auto. rewrite TL, Hr. apply orb_true_r.
Qed.

(* ------------------------------------------------------------------ flush_order *)
Lemma fs_writes_events : forall keys s o s' o' t r,
  fs_writes keys s o = (s', o', t, r) -> Forall (fun e => is_write_ev e = true) t.
Proof.
  induction keys as [|k keys IH]; intros s o s' o' t r; cbn [fs_writes].
  - intros [= <- <- <- <-]. constructor.
  - destruct (alookup k (wb s)) as [[d|]|]; try (apply IH).
    destruct (bcall_step s o false (BWrite k d)) as [[[s1 o1] e1] r1] eqn:Eb.
    apply bcall_facts in Eb. destruct Eb as (_ & _ & SH & _).
    assert (W1 : Forall (fun e => is_write_ev e = true) e1).
    { eapply Forall_impl; [|exact SH]. intros e [X _]. unfold is_write_ev. rewrite X. reflexivity. }
    destruct (wres_ok r1).
    + destruct (fs_writes keys s1 o1) as [[[s2 o2] e2] r2] eqn:E2. intros [= <- <- <- <-].
      apply Forall_app. split; auto. eapply IH; eauto.
    + intros [= <- <- <- <-]. auto.
Qed.

Lemma flush_stripes_events c : forall n st s o s' o' t r,
  flush_stripes c n st s o = (s', o', t, r) -> Forall (fun e => is_write_ev e = true) t.
Proof.
  induction n as [|n IH]; intros st s o s' o' t r; cbn [flush_stripes].
  - intros [= <- <- <- <-]. constructor.
  - destruct (flush_stripe c st s o) as [[[s1 o1] e1] r1] eqn:E1.
    assert (W1 : Forall (fun e => is_write_ev e = true) e1).
    { unfold flush_stripe in E1. destruct (has_taken st s); [injection E1 as <- <- <- <-; constructor|].
      destruct (fs_writes _ s o) as [[[sa oa] ea] ra] eqn:Ea. apply fs_writes_events in Ea.
      destruct (negb (wres_ok ra)); injection E1 as <- <- <- <-; auto. }
    destruct r1; try (intros [= <- <- <- <-]; auto; fail).
    destruct (flush_stripes c n (st + 1) s1 o1) as [[[s2 o2] e2] r2] eqn:E2. intros [= <- <- <- <-].
    apply Forall_app. split; auto. eapply IH; eauto.
Qed.

Lemma fs_writes_all_ok : forall keys s o s' o' t r,
  fs_writes keys s o = (s', o', t, r) -> wres_ok r = true -> Forall (fun w => e_ok w = true) t.
Proof.
  induction keys as [|k keys IH]; intros s o s' o' t r; cbn [fs_writes].
  - intros [= <- <- <- <-] _. constructor.
  - destruct (alookup k (wb s)) as [[d|]|]; try (apply IH).
    destruct (bcall_step s o false (BWrite k d)) as [[[s1 o1] e1] r1] eqn:Eb.
    apply bcall_facts in Eb. destruct Eb as (_ & _ & _ & _ & FR & _).
    destruct (wres_ok r1) eqn:Er.
    + destruct (fs_writes keys s1 o1) as [[[s2 o2] e2] r2] eqn:E2. intros [= <- <- <- <-] Hok.
      apply Forall_app. split; [|eapply IH; eauto].
      apply Forall_forall. intros e He. destruct (e_ok e) eqn:X; auto.
      assert (Y : any_failed e1 = true) by (apply existsb_exists; exists e; rewrite X; auto).
      apply FR in Y. discriminate.
    + intros [= <- <- <- <-] Hok. congruence.
Qed.

Lemma flush_stripes_all_ok c : forall n st s o s' o' t,
  flush_stripes c n st s o = (s', o', t, Done) -> Forall (fun w => e_ok w = true) t.
Proof.
  induction n as [|n IH]; intros st s o s' o' t; cbn [flush_stripes].
  - intros [= <- <- <-]. constructor.
  - destruct (flush_stripe c st s o) as [[[sa oa] ea] ra] eqn:Ea.
    destruct ra; try discriminate.
    destruct (flush_stripes c n (st + 1) sa oa) as [[[sb ob] eb] rb] eqn:Eb. intros [= <- <- <- ->].
    apply Forall_app. split; [|eapply IH; eauto].
    unfold flush_stripe in Ea. destruct (has_taken st s); [discriminate|].
    destruct (fs_writes _ s o) as [[[sc oc] ec] rc0] eqn:Ec.
    destruct (wres_ok rc0) eqn:Ew; cbn [negb] in Ea; [|discriminate]. injection Ea as <- <- <-.
    eapply fs_writes_all_ok; eauto.
Qed.

(* every page write of a flush precedes its sync_data, and the sync is issued only after all of them succeeded *)
Theorem flush_order : forall c s o s' t r,
  step c s OFlush o = (s', t, r) ->
  exists ws tl, t = ws ++ tl /\ Forall (fun e => is_write_ev e = true) ws /\
                (tl = [] \/ (exists e, tl = [e] /\ is_sync_ev e = true /\ Forall (fun w => e_ok w = true) ws)).
Proof.
  intros c s o s' t r E. cbn [step] in E.
  destruct (flush_stripes c NSTRIPES 0 s o) as [[[s1 o1] e1] r1] eqn:E1.
  pose proof (flush_stripes_events _ _ _ _ _ _ _ _ _ E1) as W1.
  destruct r1; try (injection E as <- <- <-; exists e1, []; rewrite app_nil_r; auto; fail).
  pose proof (flush_stripes_all_ok _ _ _ _ _ _ _ _ E1) as A1.
  unfold sync_step in E. destruct (bcall_step (set_cpb s1 false) o1 false BSync) as [[[s2 o2] e2] r2] eqn:Eb.
  injection E as <- <- <-. exists e1, e2. splits; auto.
  apply bcall_step_spec in Eb. destruct Eb as (_ & _ & [X|[X|X]]).
  - left. tauto.
  - right. destruct X as (_ & inj & _ & _ & _ & _ & -> & _). eexists. splits; eauto.
  - right. destruct X as (_ & inj & _ & _ & _ & _ & -> & _). eexists. splits; eauto.
Qed.

(* committed_pages_buffered is false only when no committed page is solely in the write buffer -- at every point of
   every protocol-abiding history, including between the per-stripe steps of a flush (OFlushStripes) with reads
   interleaved, and whatever the backend fails *)
Theorem flag_invariant : forall c f p s g I out,
  run_track c (init_state f) (g_init (blen f)) (image_of f) p = Some (s, g, I, out) ->
  cpb s = false -> forall o v, In (o, v) (wb s) -> In o (g_unc g).
Proof.
  intros c f p s g I out E. apply (i_cpb _ _ _ _ (reachable_inv _ _ _ _ _ _ _ E)).
Qed.

(* while a flush is in progress the stripes already visited are empty and stay empty *)
Theorem flush_progress : forall c f p s g I out k,
  run_track c (init_state f) (g_init (blen f)) (image_of f) p = Some (s, g, I, out) ->
  g_flushing g = Some k -> forall o v, In (o, v) (wb s) -> k <= stripe o.
Proof.
  intros c f p s g I out k E Hk. apply (i_flush _ _ _ _ (reachable_inv _ _ _ _ _ _ _ E) _ Hk).
Qed.

(* ------------------------------------------------------------------ budgets *)
Theorem read_cache_budget : forall c f p s g I out,
  run_track c (init_state f) (g_init (blen f)) (image_of f) p = Some (s, g, I, out) ->
  rc_bytes s = sum_rc (rc s) /\ sum_rc (rc s) <= max_cache c /\ (max_cache c = 0 -> rc s = []).
Proof.
  intros c f p s g I out E. pose proof (reachable_inv _ _ _ _ _ _ _ E) as H.
  destruct (i_rcb _ _ _ _ H) as [A B]. splits; auto.
  intros Hz. apply sum_rc_pos_in; [|lia].
  intros o d Hin. destruct (i_rc _ _ _ _ H _ _ Hin) as [X _]. apply (i_rng_rc _ _ _ _ H) in X. simpl in X. tauto.
Qed.
