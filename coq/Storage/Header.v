(* C01 header model, byte exact for the 320-byte database header (offsets from Gen/Consts.v, which is
   regenerated from header.rs on every run), the layout arithmetic of `finalize`/`layout_from_file_len`,
   and the slot selection of recovery (`select_primary_slot` + `do_repair`).
   Definitions only (proofs in HeaderP.v). *)
From RV Require Import Base.Bytes Gen.Consts Storage.Backend.

(* ---- header fields, through a byte getter (an image, or a 320-byte list via hget) ---- *)
Definition u32_at (g : N -> N) (off : N) : N := le_decode (rd g off 4).
Definition god (g : N -> N) : N := g GOD_BYTE_OFFSET.
Definition flag (x bit : N) : bool := negb (N.land x bit =? 0).
Definition slot_off (k : bool) : N := if k then TRANSACTION_1_OFFSET else TRANSACTION_0_OFFSET.
Definition SLOT_LEN : nat := N.to_nat TRANSACTION_SIZE.
Definition slot_at (g : N -> N) (k : bool) : bytes := rd g (slot_off k) SLOT_LEN.
Definition magic_at (g : N -> N) : bytes := rd g 0 (length MAGICNUMBER).
(* page size, region header pages, region max data pages: written at creation, never changed *)
Definition GEOM_LEN : nat := 12.
Definition geom_at (g : N -> N) : bytes := rd g PAGE_SIZE_OFFSET GEOM_LEN.
(* full regions, trailing region pages: rewritten on every resize, not checksummed *)
Definition LAYOUT_LEN : nat := 8.
Definition layout_at (g : N -> N) : bytes := rd g NUM_FULL_REGIONS_OFFSET LAYOUT_LEN.

Definition page_size_of (g : N -> N) : N := u32_at g PAGE_SIZE_OFFSET.
Definition rhp_of (g : N -> N) : N := u32_at g REGION_HEADER_PAGES_OFFSET.
Definition rmp_of (g : N -> N) : N := u32_at g REGION_MAX_DATA_PAGES_OFFSET.
Definition full_regions_of (g : N -> N) : N := u32_at g NUM_FULL_REGIONS_OFFSET.
Definition trailing_of (g : N -> N) : N := u32_at g TRAILING_REGION_DATA_PAGES_OFFSET.

(* UnrepairedDatabaseHeader::from_bytes: geometry checks (expected page size = the Builder's) *)
Definition geom_ok (ps : N) (g : N -> N) : bool :=
  (page_size_of g =? ps)
  && negb (rmp_of g =? 0) && (rmp_of g <=? MAX_PAGE_INDEX + 1)
  && (rhp_of g <=? MAX_PAGE_INDEX + 1).

(* layout_from_file_len: the file length maps exactly onto a region layout *)
Definition len_valid (ps rhp rmp len : N) : bool :=
  let frs := (rhp + rmp) * ps in
  (len <=? ps + MAX_REGIONS * frs) && (ps * (rhp + 2) <=? len) && (0 <? frs)
  && (let remaining := len - ps in
      let full := remaining / frs in
      let rem := remaining - full * frs in
      let l' := if (rhp + 1) * ps <=? rem
                then ps + full * frs + rhp * ps + ((rem - rhp * ps) / ps) * ps
                else ps + full * frs in
      l' =? len).

(* from_bytes' checks of the stored region counts (only when recovery is not required) *)
Definition stored_sane (g : N -> N) : bool :=
  (trailing_of g <=? rmp_of g)
  && (let regions := full_regions_of g + (if 0 <? trailing_of g then 1 else 0) in
      (1 <=? regions) && (regions <=? MAX_REGIONS)).

(* DatabaseHeader::layout().len() *)
Definition stored_len (g : N -> N) : N :=
  let ps := page_size_of g in
  let frs := (rhp_of g + rmp_of g) * ps in
  if 0 <? trailing_of g
  then ps + full_regions_of g * frs + rhp_of g * ps + trailing_of g * ps
  else ps + full_regions_of g * frs.

(* UnrepairedDatabaseHeader::finalize, layout part: succeeds iff this holds *)
Definition finalize_ok (g : N -> N) (len : N) : bool :=
  if flag (god g) RECOVERY_REQUIRED
  then len_valid (page_size_of g) (rhp_of g) (rmp_of g) len
  else stored_sane g && (stored_len g <=? len)
       && ((stored_len g =? len) || len_valid (page_size_of g) (rhp_of g) (rmp_of g) len).

(* ---- one 128-byte commit slot ---- *)
Definition slot_version (s : bytes) : N := nth (N.to_nat VERSION_OFFSET) s 0.
Definition slot_txid (s : bytes) : N :=
  le_decode (firstn 8 (skipn (N.to_nat TRANSACTION_ID_OFFSET) s)).
Definition CKS_OFF : nat := N.to_nat SLOT_CHECKSUM_OFFSET.

(* m is, byte by byte, taken from a or from b (a torn overwrite of a by b) *)
Definition mix2 (a b m : bytes) : Prop :=
  length m = length a /\ forall j, nth j m 0 = nth j a 0 \/ nth j m 0 = nth j b 0.

Section WithChecksum.
  (* the slot checksum function (XXH3-128 in redb), abstract *)
  Variable H : bytes -> bytes.
  (* Merkle idealisation: the pages (offset, bytes) that the commit named by a slot consists of.
     Under an injective page checksum the roots+checksums stored in the slot determine them. *)
  Variable expect : bytes -> list (N * bytes).

  (* TransactionHeader::from_bytes: stored checksum = H(first SLOT_CHECKSUM_OFFSET bytes) *)
  Definition cks_ok (s : bytes) : bool := bytes_eqb (H (firstn CKS_OFF s)) (skipn CKS_OFF s).

  (* primary_verifies / verify_checksums: every page of the commit is in the file and holds its bytes *)
  Definition ver (img : image) (s : bytes) : bool :=
    forallb (fun e : N * bytes =>
               (fst e + wlen (snd e) <=? ilen img)
               && bytes_eqb (rd (iat img) (fst e) (length (snd e))) (snd e))
            (expect s).

  (* do_repair: verify the chosen slot, fall back to the other one *)
  Definition try2 (verf : bytes -> bool) (a b : bytes) : option bytes :=
    if verf a then Some a else if verf b then Some b else None.

  (* select_primary_slot followed by do_repair / the trusted 2PC path; returns the served slot *)
  Definition select (gb : N) (s0 s1 : bytes) (verf : bytes -> bool) : option bytes :=
    let prim := if flag gb PRIMARY_BIT then s1 else s0 in
    let sec := if flag gb PRIMARY_BIT then s0 else s1 in
    if flag gb TWO_PHASE_COMMIT then
      (if cks_ok prim && verf prim then Some prim else None)
    else if negb (cks_ok prim) then
      (if cks_ok sec then try2 verf sec prim else None)
    else if (slot_txid prim <? slot_txid sec) && cks_ok sec then try2 verf sec prim
    else try2 verf prim sec.

  (* Database open on a file image: None = open fails, Some s = the commit slot whose trees are served *)
  Definition recover (ps : N) (img : image) : option bytes :=
    let g := iat img in
    if negb (DB_HEADER_SIZE <=? ilen img) then None else
    if negb (bytes_eqb (magic_at g) MAGICNUMBER) then None else
    if negb (geom_ok ps g) then None else
    if negb ((slot_version (slot_at g false) =? FILE_FORMAT_VERSION3)
             && (slot_version (slot_at g true) =? FILE_FORMAT_VERSION3)) then None else
    if negb (finalize_ok g (ilen img)) then None else
    select (god g) (slot_at g false) (slot_at g true) (ver img).
End WithChecksum.
