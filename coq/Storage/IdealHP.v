From RV Require Import Base.Bytes Gen.Consts Storage.Backend Storage.BackendP Storage.Header Storage.IdealH.

Lemma pair_inj_le a c a' c' :
  a <= a' -> 2 ^ a * (2 * c + 1) = 2 ^ a' * (2 * c' + 1) -> a = a' /\ c = c'.
Proof.
  intros Hle E.
  assert (Ek : a' = a + (a' - a)) by lia. set (k := a' - a) in *. rewrite Ek in E.
  rewrite N.pow_add_r, <- N.mul_assoc in E.
  apply N.mul_cancel_l in E; [|apply N.pow_nonzero; discriminate].
  destruct (N.eq_dec k 0) as [K0 | Kn].
  - rewrite K0, N.pow_0_r, N.mul_1_l in E. split; lia.
  - exfalso.
    assert (Hev : N.even (2 ^ k * (2 * c' + 1)) = true).
    { replace k with (N.succ (N.pred k)) by lia. rewrite N.pow_succ_r', <- N.mul_assoc.
      rewrite N.even_mul. reflexivity. }
    rewrite <- E in Hev. rewrite N.add_comm, N.even_add_mul_2 in Hev. discriminate.
Qed.

Lemma pair_inj a c a' c' :
  2 ^ a * (2 * c + 1) = 2 ^ a' * (2 * c' + 1) -> a = a' /\ c = c'.
Proof.
  intros E. destruct (N.le_ge_cases a a') as [Hle | Hle].
  - now apply pair_inj_le.
  - symmetry in E. apply pair_inj_le in E; auto. destruct E; auto.
Qed.

Lemma code_cons_pos b r : 0 < code (b :: r).
Proof. simpl. apply N.mul_pos_pos; [|lia]. apply N.neq_0_lt_0. apply N.pow_nonzero. lia. Qed.

Lemma code_inj x y : code x = code y -> x = y.
Proof.
  revert y; induction x as [|b r IH]; intros [|b' r'] E; auto.
  - pose proof (code_cons_pos b' r'). simpl in *. lia.
  - pose proof (code_cons_pos b r). simpl in *. lia.
  - simpl in E. apply pair_inj in E as [E1 E2]. f_equal; [lia | auto].
Qed.

Lemma nth_skipn_add {A} n j (l : list A) d : nth j (skipn n l) d = nth (n + j) l d.
Proof.
  revert l; induction n as [|n IH]; intros l; simpl; auto.
  destruct l; simpl; auto. destruct j; auto.
Qed.

(* Hideal detects every torn slot *)
Lemma Hideal_tear a b m :
  cks_ok Hideal a = true -> cks_ok Hideal b = true -> mix2 a b m -> cks_ok Hideal m = true ->
  m = a \/ m = b.
Proof.
  unfold cks_ok, Hideal. intros Ha Hb [Hl Hj] Hm.
  apply bytes_eqb_eq in Ha, Hb, Hm.
  assert (key : forall s, repeat (code (firstn CKS_OFF s)) 16 = skipn CKS_OFF s ->
                          nth CKS_OFF s 0 = code (firstn CKS_OFF s)).
  { intros s E. replace CKS_OFF with (CKS_OFF + 0)%nat at 1 by lia.
    rewrite <- nth_skipn_add, <- E. reflexivity. }
  pose proof (key _ Ha) as Ka. pose proof (key _ Hb) as Kb. pose proof (key _ Hm) as Km.
  destruct (Hj CKS_OFF) as [E | E]; [left | right].
  - rewrite Km, Ka in E. apply code_inj in E.
    rewrite <- (firstn_skipn CKS_OFF m), <- (firstn_skipn CKS_OFF a). rewrite <- Hm, <- Ha, E. reflexivity.
  - rewrite Km, Kb in E. apply code_inj in E.
    rewrite <- (firstn_skipn CKS_OFF m), <- (firstn_skipn CKS_OFF b). rewrite <- Hm, <- Hb, E. reflexivity.
Qed.

Lemma mix2b_sound a b m : mix2b a b m = true -> mix2 a b m.
Proof.
  revert b m; induction a as [|x a IH]; intros [|y b] [|z m]; simpl; try discriminate.
  - intros _. split; auto.
  - intros E. apply andb_true_iff in E as [E1 E2]. destruct (IH _ _ E2) as [Hl Hj]. split.
    + simpl. now rewrite Hl.
    + intros [|j]; simpl; auto. apply orb_true_iff in E1 as [E | E]; apply N.eqb_eq in E; auto.
Qed.

(* injectivity of the checksum is not enough: the identity is injective, yet a byte mixture of two
   valid slots can carry a valid checksum without being either of them *)
Lemma H_inj_insufficient :
  (forall x y, Hid x = Hid y -> x = y)
  /\ exists a b m,
       cks_ok Hid a = true /\ cks_ok Hid b = true /\ mix2 a b m /\ cks_ok Hid m = true
       /\ m <> a /\ m <> b.
Proof.
  split; [intros x y E; exact E|].
  set (x1 := 1 :: 0 :: repeat 0 (CKS_OFF - 2)).
  set (x2 := 0 :: 1 :: repeat 0 (CKS_OFF - 2)).
  set (x3 := 1 :: 1 :: repeat 0 (CKS_OFF - 2)).
  exists (x1 ++ x1), (x2 ++ x2), (x3 ++ x3).
  split; [vm_compute; reflexivity|]. split; [vm_compute; reflexivity|].
  split; [apply mix2b_sound; vm_compute; reflexivity|].
  split; [vm_compute; reflexivity|].
  split; vm_compute; discriminate.
Qed.
