(* C08 -- model of the I/O latch `CheckedBackend` (src/tree_store/page_store/cached_file.rs) and of
   the session-level consequences of a storage failure (definitions only; proofs in LatchP.v).

   CheckedBackend = (io_failed, closed) + one rule per method:
     len/read/write/set_len/sync_data : check_failure; call the backend; latch io_failed on Err
     write_best_effort                : check_failure; call the backend; never latches
     close                            : closed := true; io_failed := true; ALWAYS calls backend.close()
     Drop                             : calls backend.close() unless `closed`
   The model is generic in the backend operation type `op` (an operation with its arguments) and in
   the storage it acts on.                                                                          *)
From Coq Require Import List Bool NArith.
Import ListNotations.

Section Latch.

Variable op : Type.

(* a call entering the wrapper *)
Inductive wcall :=
| WOp (o : op)            (* len / read / write / set_len / sync_data *)
| WBestEffort (o : op)    (* write_best_effort *)
| WClose
| WDrop.

(* what reaches the backend *)
Inductive bev :=
| BOp (o : op) (ok : bool)
| BClose.

(* what the wrapper returns *)
Inductive wres := ROk | RIo | RPreviousIo | RDatabaseClosed | RNothing.

Record lstate := mkL { io_failed : bool; closed : bool }.
Definition l_init : lstate := mkL false false.

Definition check_failure (s : lstate) : option wres :=
  if io_failed s then Some (if closed s then RDatabaseClosed else RPreviousIo) else None.

(* one call.  `bok` is the answer the backend gives if (and only if) the call reaches it. *)
Definition lstep (s : lstate) (c : wcall) (bok : bool) : lstate * list bev * wres :=
  match c with
  | WOp o =>
      match check_failure s with
      | Some e => (s, [], e)
      | None => if bok then (s, [BOp o true], ROk)
                else (mkL true (closed s), [BOp o false], RIo)
      end
  | WBestEffort o =>
      match check_failure s with
      | Some e => (s, [], e)
      | None => (s, [BOp o bok], if bok then ROk else RIo)
      end
  | WClose => (mkL true true, [BClose], if bok then ROk else RIo)
  | WDrop => (s, if closed s then [] else [BClose], RNothing)
  end.

(* a sequence of calls, each paired with the backend's answer should it get through *)
Fixpoint lrun (s : lstate) (cs : list (wcall * bool)) : lstate * list bev * list wres :=
  match cs with
  | [] => (s, [], [])
  | (c, bok) :: r =>
      let '(s1, t1, r1) := lstep s c bok in
      let '(s2, t2, r2) := lrun s1 r in
      (s2, t1 ++ t2, r1 :: r2)
  end.

Definition l_state (x : lstate * list bev * list wres) : lstate := fst (fst x).
Definition l_trace (x : lstate * list bev * list wres) : list bev := snd (fst x).
Definition l_results (x : lstate * list bev * list wres) : list wres := snd x.

Definition is_bclose (e : bev) : bool := match e with BClose => true | _ => false end.
Definition is_wclose (c : wcall) : bool := match c with WClose => true | _ => false end.
Definition is_wdrop (c : wcall) : bool := match c with WDrop => true | _ => false end.
Definition is_io_call (c : wcall) : bool := match c with WOp _ | WBestEffort _ => true | _ => false end.
Definition refused (r : wres) : bool := match r with RPreviousIo | RDatabaseClosed => true | _ => false end.

(* the fault-free backend events of a list of i/o calls *)
Definition ok_event (c : wcall) : list bev :=
  match c with WOp o | WBestEffort o => [BOp o true] | WClose => [BClose] | WDrop => [] end.

(* ---- storage semantics: a failed operation has no effect, close has no effect ---- *)
Variable storage : Type.
Variable bapply : storage -> op -> storage.

Definition apply_ev (st : storage) (e : bev) : storage :=
  match e with BOp o true => bapply st o | _ => st end.
Definition storage_after (st : storage) (tr : list bev) : storage := fold_left apply_ev tr st.

End Latch.

Arguments WOp {op}. Arguments WBestEffort {op}. Arguments WClose {op}. Arguments WDrop {op}.
Arguments BOp {op}. Arguments BClose {op}.

(* ---- replay of an observed log (S2): entries of the wrapper with the flags seen on entry,
        interleaved with the calls that reached the backend ----
   kinds: 0 len 1 read 2 write 3 write_best_effort 4 set_len 5 sync_data 6 close 7 drop;
   backend op codes: 0 len 1 read 2 write 3 set_len 4 sync 5 close                               *)
Inductive logev :=
| LEnter (kind : N) (io_failed closed : bool)
| LBackend (bop : N) (ok : bool).

Definition wcall_of_kind (k : N) : option (wcall N) :=
  match k with
  | 0%N => Some (WOp 0%N) | 1%N => Some (WOp 1%N) | 2%N => Some (WOp 2%N)
  | 3%N => Some (WBestEffort 2%N) | 4%N => Some (WOp 3%N) | 5%N => Some (WOp 4%N)
  | 6%N => Some WClose | 7%N => Some WDrop | _ => None
  end.

Definition bev_matches (e : bev N) (bop : N) (ok : bool) : bool :=
  match e with
  | BOp o k => N.eqb o bop && Bool.eqb k ok
  | BClose => N.eqb bop 5%N
  end.

(* The log is consistent with the model iff: each entry's flags equal the model state, the backend
   events following an entry are exactly the ones the model predicts for that call (given the
   observed answer), and so on.  Returns the index of the first inconsistent log event. *)
Fixpoint log_check (s : lstate) (l : list logev) (i : N) : option N :=
  match l with
  | [] => None
  | LBackend _ _ :: _ => Some i               (* a backend call without a wrapper entry before it *)
  | LEnter k f c :: r =>
      if negb (Bool.eqb f (io_failed s) && Bool.eqb c (closed s)) then Some i else
      match wcall_of_kind k with
      | None => Some i
      | Some w =>
          match r with
          | LBackend bop ok :: r' =>
              let '(s', t, _) := lstep N s w ok in
              match t with
              | [e] => if bev_matches e bop ok then log_check s' r' (i + 2) else Some (i + 1)%N
              | _ => Some (i + 1)%N            (* the model says this call does not reach the backend *)
              end
          | _ =>
              let '(s', t, _) := lstep N s w true in
              match t with
              | [] => log_check s' r (i + 1)
              | _ => Some i                    (* the model says this call reaches the backend *)
              end
          end
      end
  end.

Definition log_okb (l : list logev) : bool :=
  match log_check l_init l 0 with None => true | Some _ => false end.

(* ---- session level: what a storage failure does to the open Database ----
   (src/transactions.rs AllocatorStateLatch, Drop for WriteTransaction; src/db.rs
    begin_write_with_allocation_policy, close_database; page_manager.rs flush_shutdown_header)   *)
Record dstate := mkD {
  d_io_failed : bool;           (* CheckedBackend::io_failed *)
  d_allocators : bool;          (* InMemoryState::allocators.is_some() *)
  d_needs_repair : bool;        (* TransactionalMemory::needs_repair *)
  d_recovery_on_disk : bool     (* header.recovery_required as last written to the file *)
}.

(* a freshly opened, writable database: begin_writable() has set recovery_required on disk *)
Definition d_open : dstate := mkD false true false true.

Inductive devent :=
| DIoFailure                      (* some latched backend call failed *)
| DCommit (ok : bool)             (* WriteTransaction::commit returned Ok / Err *)
| DAbortFailed                    (* a rollback failed part way: mark_needs_repair stays set *)
| DShutdown (flush_ok : bool).    (* Drop for Database -> close_database -> flush_shutdown_header *)

Definition begin_write_allowed (s : dstate) : bool := negb (d_io_failed s) && d_allocators s.

Definition dstep (s : dstate) (e : devent) : dstate :=
  match e with
  | DIoFailure => mkD true (d_allocators s) (d_needs_repair s) (d_recovery_on_disk s)
  | DCommit true => s
  | DCommit false => mkD (d_io_failed s) false (d_needs_repair s) (d_recovery_on_disk s)
  | DAbortFailed => mkD (d_io_failed s) (d_allocators s) true (d_recovery_on_disk s)
  | DShutdown flush_ok =>
      if negb (d_io_failed s) && d_allocators s && negb (d_needs_repair s) && flush_ok
      then mkD (d_io_failed s) (d_allocators s) (d_needs_repair s) false
      else s
  end.

Definition drun (s : dstate) (l : list devent) : dstate := fold_left dstep l s.

Definition is_failure (e : devent) : bool :=
  match e with DIoFailure | DCommit false | DAbortFailed => true | _ => false end.
