(* C01 storage model: the operations a StorageBackend sees, file images, and their sequential semantics.
   Definitions only (proofs in BackendP.v). *)
From RV Require Import Base.Bytes.

(* what redb issues to `StorageBackend`: write(offset, data) | set_len(n) | sync_data() *)
Inductive op : Type :=
| Write (off : N) (data : bytes)
| SetLen (n : N)
| Sync.

(* a file image: a length and a byte getter (only positions < ilen are meaningful) *)
Record image : Type := mkImage { ilen : N; iat : N -> N }.

Definition wlen (data : bytes) : N := N.of_nat (length data).

(* position i lies inside the write (off, data) *)
Definition covers (off : N) (data : bytes) (i : N) : bool :=
  (off <=? i) && (i <? off + wlen data).

(* the byte the write (off, data) puts at position i *)
Definition wbyte (off : N) (data : bytes) (i : N) : N := nth (N.to_nat (i - off)) data 0.

Definition apply_op (o : op) (D : image) : image :=
  match o with
  | Write off data =>
      mkImage (ilen D) (fun i => if covers off data i then wbyte off data i else iat D i)
  | SetLen n =>
      (* truncation drops the tail, extension reads as zero *)
      mkImage n (fun i => if i <? N.min (ilen D) n then iat D i else 0)
  | Sync => D
  end.

Definition apply_ops (W : list op) (D : image) : image :=
  fold_left (fun d o => apply_op o d) W D.

(* [off; off+1; ...; off+n-1] *)
Fixpoint nseq (off : N) (n : nat) : list N :=
  match n with
  | O => []
  | S n' => off :: nseq (off + 1) n'
  end.

(* read n bytes at off through a byte getter *)
Definition rd (g : N -> N) (off : N) (n : nat) : bytes := map g (nseq off n).

(* a byte list seen as a getter (a 320-byte header write, a recorded header) *)
Definition hget (data : bytes) : N -> N := fun i => nth (N.to_nat i) data 0.

Fixpoint bytes_eqb (a b : bytes) : bool :=
  match a, b with
  | [], [] => true
  | x :: a', y :: b' => (x =? y) && bytes_eqb a' b'
  | _, _ => false
  end.

(* byte ranges (offset, length) *)
Definition range : Type := (N * N)%type.
Definition disjointb (o1 l1 o2 l2 : N) : bool :=
  (l1 =? 0) || (l2 =? 0) || (o1 + l1 <=? o2) || (o2 + l2 <=? o1).
Definition in_rangeb (r : range) (i : N) : bool := (fst r <=? i) && (i <? fst r + snd r).
Definition in_ranges (rs : list range) (i : N) : bool := existsb (fun r => in_rangeb r i) rs.
(* [off, off+len) is inside one of the ranges *)
Definition range_covered (rs : list range) (off len : N) : bool :=
  existsb (fun r => (fst r <=? off) && (off + len <=? fst r + snd r)) rs.
